(* PackFacts.v — proofs for C17 about the model in Pack.v. *)
Require Import Puan.Base Puan.Plog Puan.Pack.

Lemma count_from_length s n : List.length (count_from s n) = n.
Proof. revert s; induction n; intros; cbn [count_from List.length]; auto. Qed.
Lemma default_vars_length n : List.length (default_vars n) = n.
Proof. destruct n; cbn [default_vars List.length]; [reflexivity|]. rewrite count_from_length. reflexivity. Qed.
Lemma default_index_length n : List.length (default_index n) = n.
Proof. apply count_from_length. Qed.

(* the constructor returns exactly the polyhedron whose parts it is given *)
Lemma construct_wf c : wf_config c ->
  construct (c_ncols c) (c_rows c) (Some (c_dpv c)) (c_vars c) (c_index c) (c_dtype c) = Some c.
Proof.
  destruct c as [n rows dpv vars index dt]. unfold wf_config. cbn [c_ncols c_rows c_dpv c_vars c_index c_dtype].
  intros (_ & Hv & Hi). unfold construct.
  assert (Ev : match vars with [] => default_vars n | _ => vars end = vars).
  { destruct vars; [|reflexivity]. cbn in Hv. subst n. reflexivity. }
  assert (Ei : match index with [] => default_index (List.length rows) | _ => index end = index).
  { destruct index; [|reflexivity]. cbn in Hi. rewrite <- Hi. reflexivity. }
  rewrite Ev, Ei, Hv, Hi, !Nat.eqb_refl. reflexivity.
Qed.

Theorem unpack_pack c : wf_config c -> unpack (pack c) = Some c.
Proof. intros H. unfold pack, unpack. apply construct_wf. exact H. Qed.

(* whatever the constructor accepts is well formed (so the round trip can be iterated) *)
Lemma construct_some_wf n rows dpv vars index dt c :
  Forall (fun r => List.length r = n) rows -> construct n rows dpv vars index dt = Some c -> wf_config c.
Proof.
  unfold construct. intros Hr H.
  destruct (Nat.eqb _ _ && Nat.eqb _ _) eqn:E; [|discriminate]. inversion H; subst; clear H.
  apply andb_true_iff in E. destruct E as [E1 E2]. apply Nat.eqb_eq in E1, E2.
  unfold wf_config. cbn. auto.
Qed.

Section Codec.
  Variable blob : Type.
  Variable encP : prop -> blob.
  Variable decP : blob -> option prop.
  Variable encF : list field -> blob.
  Variable decF : blob -> option (list field).
  (* the trusted part: pickle/gzip/base64 give back what they were given *)
  Hypothesis codec_ok_prop : forall x, decP (encP x) = Some x.
  Hypothesis codec_ok_fields : forall x, decF (encF x) = Some x.

  Theorem config_roundtrip c : wf_config c -> config_from_b64 blob decF (config_to_b64 blob encF c) = Some c.
  Proof. intros H. unfold config_from_b64, config_to_b64. rewrite codec_ok_fields. apply unpack_pack. exact H. Qed.

  Theorem prop_roundtrip p : prop_from_b64 blob decP (prop_to_b64 blob encP p) = Some p.
  Proof. unfold prop_from_b64, prop_to_b64. apply codec_ok_prop. Qed.
End Codec.

(* every packed field is needed: two different polyhedra never pack to the same list ... *)
Theorem pack_injective c c' : pack c = pack c' -> c = c'.
Proof. destruct c, c'. unfold pack. cbn. intros H. inversion H. subst. reflexivity. Qed.

(* ... and dropping the last field (dtype) or the index makes the round trip lossy: the
   constructor falls back to its defaults *)
Open Scope string_scope.
Definition ex_config : config :=
  mkConfig 4 [[1; 1; 0; 0]; [-2; 0; -1; -1]] [-1; -2; -1]
           [(VInt 0, (1, 1)); (VStr "B", (0, 1)); (VStr "a", (0, 1)); (VStr "b", (-2, 3))]
           [(VInt 0, (0, 1)); (VStr "row1", (0, 1))] DInt32.
Lemma ex_config_wf : wf_config ex_config.
Proof. unfold wf_config, ex_config. cbn. repeat constructor. Qed.

Theorem dropping_a_field_is_lossy :
  wf_config ex_config /\ unpack (pack ex_config) = Some ex_config /\
  unpack (removelast (pack ex_config)) <> Some ex_config /\
  unpack (removelast (removelast (pack ex_config))) <> Some ex_config.
Proof.
  split; [exact ex_config_wf|]. split; [apply unpack_pack, ex_config_wf|].
  split; vm_compute; intros H; discriminate H.
Qed.
