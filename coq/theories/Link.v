(* Link.v — C02 soundness at the level of what to_ge_polyhedron hands out: the dense matrix and the
   column list.  Any integer vector within the column bounds that satisfies every dense row makes
   a solver-safe model true. *)
Require Import Puan.Base Puan.Plog Puan.Sem Puan.SemFacts Puan.AssumeFacts Puan.EncodeFacts.

(* the value the vector x gives to the column with id i (0 for an id that is not a column) *)
Fixpoint col_lookup (ids : list ident) (x : list Z) (i : ident) : Z :=
  match ids, x with
  | j :: js, v :: vs => if String.eqb i j then v else col_lookup js vs i
  | _, _ => 0
  end.

Lemma col_lookup_map ids : NoDup ids -> forall x, List.length x = List.length ids -> map (col_lookup ids x) ids = x.
Proof.
  induction ids as [|j js IH]; intros Hnd [|v vs] Hlen; try discriminate; [reflexivity|].
  inversion Hnd as [|? ? Hnj Hnd']; subst. cbn [map col_lookup]. rewrite String.eqb_refl. f_equal.
  transitivity (map (col_lookup js vs) js); [|apply IH; auto; cbn in Hlen; lia].
  apply map_ext_in. intros i Hi. cbn [col_lookup]. destruct (String.eqb i j) eqn:E; [|reflexivity].
  apply String.eqb_eq in E. subst. contradiction.
Qed.
Lemma col_lookup_in ids : NoDup ids -> forall (bs : list (Z * Z)) x i lo hi,
  Forall2 (fun b v => fst b <= v <= snd b) bs x -> List.length bs = List.length ids ->
  In (i, (lo, hi)) (combine ids bs) -> lo <= col_lookup ids x i <= hi.
Proof.
  induction ids as [|j js IH]; intros Hnd bs x i lo hi Hb Hlen Hin; [destruct Hin|].
  destruct bs as [|b bs']; [discriminate|]. inversion Hb as [|? v ? vs Hbv Hrest]; subst.
  inversion Hnd as [|? ? Hnj Hnd']; subst. cbn [combine In col_lookup] in *.
  destruct Hin as [Heq|Hin].
  - inversion Heq; subst. rewrite String.eqb_refl. cbn [fst snd] in Hbv. exact Hbv.
  - destruct (String.eqb i j) eqn:E.
    + apply String.eqb_eq in E. subst. exfalso. apply Hnj. apply in_combine_l in Hin. exact Hin.
    + eapply IH; eauto.
Qed.

(* every id mentioned by a row of the encoding is the id of a node of the tree other than the root,
   or the root's own id in its big-M row (inactive encoding only) *)
Lemma rows_ids p : forall r e, In r (rows p) -> In e (snd r) -> exists n, In n (nodes p) /\ id_of n = fst e.
Proof.
  induction p as [i lo hi | m i g lo hi s v ch IH] using prop_ind'; intros r e Hr He; [destruct Hr|].
  cbn [rows] in Hr. destruct Hr as [<-|Hr].
  - unfold bigm_row in He. cbn [snd] in He. destruct He as [<-|He].
    + exists (Node m i g lo hi s v ch). split; [apply in_nodes_self|reflexivity].
    + apply in_map_iff in He. destruct He as (c & <- & Hc). exists c. split; [|reflexivity].
      eapply in_nodes_child; [exact Hc|apply in_nodes_self].
  - apply in_concat in Hr. destruct Hr as (rs & Hrs & Hr). apply in_rev in Hrs. apply in_map_iff in Hrs.
    destruct Hrs as (c & <- & Hc). rewrite Forall_forall in IH. destruct (IH c Hc r e Hr He) as (n & Hn & Hid).
    exists n. split; [|exact Hid]. eapply in_nodes_child; eauto.
Qed.
Lemma encode_ids m i g lo hi s v ch : forall r e, In r (encode true (Node m i g lo hi s v ch)) -> In e (snd r) ->
  exists c n, In c ch /\ In n (nodes c) /\ id_of n = fst e.
Proof.
  intros r e Hr He. cbn [encode] in Hr. destruct Hr as [<-|Hr].
  - unfold direct_row in He. cbn [snd] in He. apply in_map_iff in He. destruct He as (c & <- & Hc).
    exists c, c. repeat split; auto. apply in_nodes_self.
  - apply in_concat in Hr. destruct Hr as (rs & Hrs & Hr). apply in_rev in Hrs. apply in_map_iff in Hrs.
    destruct Hrs as (c & <- & Hc). destruct (rows_ids c r e Hr He) as (n & Hn & Hid). exists c, n. auto.
Qed.

(* the hypotheses about the handed-out column list: ids are pairwise distinct, and every
   occurrence below the root is one of the columns with its own declared bounds (both hold for
   validated models: one definition per id) *)
Definition cols_cover (p : prop) (cols : list (ident * (Z * Z))) : Prop :=
  forall c n, In c (children p) -> In n (nodes c) -> In (id_of n, (lo_of n, hi_of n)) cols.

Lemma Forall2_len {A B} (R : A -> B -> Prop) l l' : Forall2 R l l' -> List.length l = List.length l'.
Proof. induction 1; cbn; auto. Qed.

(* no sub-proposition is pre-fixed, signs are +-1 *)
Fixpoint plain_shape (p : prop) : Prop :=
  match p with
  | Var _ _ _ => True
  | Node _ _ _ lo hi s _ ch => lo = 0 /\ hi = 1 /\ (s = 1 \/ s = -1) /\
      (fix go l := match l with [] => True | c :: cs => plain_shape c /\ go cs end) ch
  end.
Lemma plain_shape_node m i g lo hi s v ch : plain_shape (Node m i g lo hi s v ch) <->
  lo = 0 /\ hi = 1 /\ (s = 1 \/ s = -1) /\ Forall plain_shape ch.
Proof.
  cbn [plain_shape]. split; intros (A & B & C & D); repeat split; auto.
  - induction ch as [|c cs IH]; constructor; destruct D; auto.
  - induction D; cbn; auto.
Qed.

Lemma inb_of_cols (fx : ident -> Z) cols : (forall i lo hi, In (i, (lo, hi)) cols -> lo <= fx i <= hi) ->
  forall c, (forall n, In n (nodes c) -> In (id_of n, (lo_of n, hi_of n)) cols) -> plain_shape c -> inb fx c.
Proof.
  intros Hb. induction c as [i lo hi | m i g lo hi s v ch IH] using prop_ind'; intros Hcov Hps.
  - cbn [inb]. apply (Hb i lo hi). apply (Hcov (Var i lo hi)). cbn. auto.
  - apply plain_shape_node in Hps. destruct Hps as (-> & -> & Hs & Hch). apply inb_node. repeat split; auto.
    + apply (Hb i 0 1). apply (Hcov (Node m i g 0 1 s v ch)). apply in_nodes_self.
    + apply (Hb i 0 1). apply (Hcov (Node m i g 0 1 s v ch)). apply in_nodes_self.
    + rewrite Forall_forall in *. intros c Hc. apply IH; auto. intros n Hn. apply Hcov. eapply in_nodes_child; eauto.
Qed.

(* C02 soundness on the dense polyhedron *)
Theorem dense_sound p cols x :
  is_var p = false -> plain_shape p -> solver_safe p = true ->
  NoDup (map fst cols) -> cols_cover p cols -> ~ In (id_of p) (map fst cols) ->
  Forall2 (fun b v => fst b <= v <= snd b) (map snd cols) x ->
  Forall (sat_dense x) (map (dense (map fst cols)) (encode true p)) ->
  eval (col_lookup (map fst cols) x) p = 1.
Proof.
  intros Hv Hps Hsafe Hnd Hcov Htop Hbx Hsat.
  set (ids := map fst cols) in *. set (fx := col_lookup ids x).
  assert (Hlen : List.length x = List.length ids).
  { apply Forall2_len in Hbx. unfold ids. rewrite !map_length in *. lia. }
  assert (Hcolb : forall i lo hi, In (i, (lo, hi)) cols -> lo <= fx i <= hi).
  { intros i lo hi Hin. unfold fx. apply (col_lookup_in ids Hnd (map snd cols) x i lo hi Hbx).
    - unfold ids. rewrite !map_length. reflexivity.
    - unfold ids. assert (combine (map fst cols) (map snd cols) = cols) as ->; [|exact Hin].
      clear. induction cols as [|[a b] r IH]; cbn; [reflexivity|]. rewrite IH. reflexivity. }
  destruct p as [|m i g lo hi s v ch]; [discriminate|].
  pose proof Hps as Hps0. apply plain_shape_node in Hps. destruct Hps as (-> & -> & Hs & Hch).
  assert (Hfxtop : fx i = 0).
  { unfold fx. cbn [id_of] in Htop. clear - Htop. revert x. induction ids as [|j js IH]; intros [|v vs]; cbn [col_lookup]; try reflexivity.
    destruct (String.eqb i j) eqn:E; [apply String.eqb_eq in E; subst; exfalso; apply Htop; left; reflexivity|].
    apply IH. intros H. apply Htop. right. exact H. }
  apply encode_sound; auto.
  - apply inb_node. repeat split; auto; try lia.
    rewrite Forall_forall in *. intros c Hc. apply (inb_of_cols fx cols Hcolb); auto. intros n Hn. apply (Hcov c n); auto.
  - apply Forall_forall. intros r Hr.
    assert (Hd : sat_dense (map fx ids) (dense ids r)).
    { unfold fx. rewrite (col_lookup_map ids Hnd x Hlen). rewrite Forall_forall in Hsat. apply Hsat. apply in_map. exact Hr. }
    apply (dense_row fx r ids Hnd); [|exact Hd].
    intros e He. destruct (encode_ids m i g 0 1 s v ch r e Hr He) as (c & n & Hc & Hn & Hid).
    unfold ids. rewrite <- Hid. apply in_map_iff. exists (id_of n, (lo_of n, hi_of n)). split; [reflexivity|]. apply (Hcov c n); auto.
Qed.
