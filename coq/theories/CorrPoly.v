(* CorrPoly.v — correspondence checkers for the ge_polyhedron model (C11, C12, C19).
   Each takes the INPUT given to the Python implementation and the OUTPUT it produced, runs the
   model on the same input and compares inside Coq. *)
Require Import Puan.Base Puan.Poly.

Definition bl_eqb := list_eqb Bool.eqb.
Definition bll_eqb := list_eqb bl_eqb.
Definition zl_eqb := list_eqb Z.eqb.
Definition zll_eqb := list_eqb zl_eqb.
Definition ozl_eqb := list_eqb (opt_eqb Z.eqb).
Definition var_eqb (v w : ident * (Z * Z)) : bool :=
  String.eqb (fst v) (fst w) && (fst (snd v) =? fst (snd w)) && (snd (snd v) =? snd (snd w)).
Definition poly_eqb (P Q : poly) : bool :=
  zll_eqb (mat P) (mat Q) && list_eqb var_eqb (vars P) (vars Q) && list_eqb String.eqb (index P) (index Q).

(* ---------------- C19: ineqs_satisfied / separable / ineq_separate_points ---------------- *)
Inductive pts_case :=
| Pts1 (x : list Z) (sat sep : bool) (isp : list bool)
| Pts2 (pts : list (list Z)) (sat sep isp : list bool)
| Pts3 (g : list (list (list Z))) (sat sep isp : list (list bool)).

Definition check_points (c : poly * pts_case) : bool :=
  let '(P, k) := c in
  match k with
  | Pts1 x sat sep isp =>
      Bool.eqb (ineqs_satisfied1 P x) sat && Bool.eqb (separable1 P x) sep && bl_eqb (ineq_separate_points1 P x) isp
  | Pts2 pts sat sep isp =>
      bl_eqb (ineqs_satisfied2 P pts) sat && bl_eqb (separable2 P pts) sep && bl_eqb (ineq_separate_points2 P pts) isp
  | Pts3 g sat sep isp =>
      bll_eqb (ineqs_satisfied3 P g) sat && bll_eqb (separable3 P g) sep && bll_eqb (ineq_separate_points3 P g) isp
  end.

(* ---------------- C12: A, b, column_bounds, A_max, A_min, row_bounds, n_row_combinations,
   tighten_column_bounds (None = the implementation raised) ---------------- *)
Definition zp_eqb := pair_eqb Z.eqb Z.eqb.
Inductive obs12 :=
| Obs12 (a : list (list Z)) (bcol : list Z) (lo hi : list Z) (amax amin : list (list Z))
        (rb : list (Z * Z)) (ncomb : list Z) (tcb : option (list Z * list Z)).

Definition check_bounds (c : poly * obs12) : bool :=
  let '(P, Obs12 a bcol lo hi amax amin rb ncomb tcb) := c in
  zll_eqb (A P) a && zl_eqb (b P) bcol &&
  zl_eqb (fst (column_bounds P)) lo && zl_eqb (snd (column_bounds P)) hi &&
  zll_eqb (A_max P) amax && zll_eqb (A_min P) amin &&
  list_eqb zp_eqb (row_bounds P) rb && zl_eqb (n_row_combinations P) ncomb &&
  opt_eqb (pair_eqb zl_eqb zl_eqb) (tighten_column_bounds P) tcb.

(* ---------------- C11: reducable_rows, reducable_columns_approx, reducable_rows_and_columns,
   reduce(rows, cols) of the loop's answer, and reduce_rows / reduce_columns on their own ---- *)
Definition loop_eqb (x y : loop_result) : bool :=
  match x, y with
  | LoopOk r c, LoopOk r' c' => bl_eqb r r' && ozl_eqb c c'
  | LoopRaise, LoopRaise => true
  | _, _ => false
  end.

Inductive obs11 :=
| Obs11 (rr : option (list bool)) (rca : option (list (option Z))) (loop : loop_result)
        (reduced : option poly)          (* P.reduce( * P.reducable_rows_and_columns()) : reduce applied to the loop's answer *)
        (step : option poly).            (* P.reduce(P.reducable_rows(), P.reducable_columns_approx()) *)

Definition check_reduce (c : poly * obs11) : bool :=
  let '(P, Obs11 rr rca loop reduced step) := c in
  opt_eqb bl_eqb (reducable_rows P) rr &&
  opt_eqb ozl_eqb (reducable_columns_approx P) rca &&
  loop_eqb (reducable_rows_and_columns P) loop &&
  match reducable_rows_and_columns P, reduced with
  | LoopOk r cs, Some R => poly_eqb (reduce P (Some r) (Some cs)) R
  | LoopOk _ _, None => false
  | _, None => true
  | _, Some _ => false
  end &&
  match reducable_rows P, reducable_columns_approx P, step with
  | Some r, Some cs, Some R => poly_eqb (reduce P (Some r) (Some cs)) R
  | Some _, Some _, None => false
  | _, _, None => true
  | _, _, Some _ => false
  end.

(* reduce with arbitrary (caller supplied) row / column vectors *)
Definition check_reduce_args (c : poly * option (list bool) * option (list (option Z)) * poly) : bool :=
  let '(P, rv, cv, R) := c in poly_eqb (reduce P rv cv) R.
