(* Corr.v — boolean checkers evaluated by the generated case files (correspondence check):
   each takes the input given to the implementation and the output it produced, runs the
   model on the same input and compares. *)
Require Import Puan.Base Puan.Plog Puan.Sem.

(* the id oracle: a table of the _id_generator calls observed while the implementation ran *)
Definition idtable := list (list ident * Z * option Z * ident).
Definition genid_of (t : idtable) : genid_t := fun ids v s =>
  match find (fun e => match e with (ids', v', s', _) =>
                  list_eqb String.eqb ids ids' && (v =? v') && opt_eqb Z.eqb s s' end) t with
  | Some (_, _, _, r) => r
  | None => "?MISSING-ID"%string
  end.

Definition lookup_env (e : list (ident * Z)) (i : ident) : Z :=
  match alookup i e with Some v => v | None => 0 end.

(* --- plog --- *)
Definition check_negate (c : idtable * prop * prop) : bool :=
  let '(t, inp, obs) := c in prop_eqb (negate (genid_of t) inp) obs.

Definition check_eval (c : prop * list (ident * Z) * Z) : bool :=
  let '(m, e, x) := c in eval (lookup_env e) m =? x.

(* --- assume / evaluate_propositions / evaluate / flags --- *)
Definition bnd_eqb (a b : Z * Z) : bool := (fst a =? fst b) && (snd a =? snd b).
(* Python dict built from the model's (id, bounds) list: the last entry of a key wins *)
Definition dict_agrees (model obs : list (ident * (Z * Z))) : bool :=
  forallb (fun kv => opt_eqb bnd_eqb (alookup_last (fst kv) model) (Some (snd kv))) obs
  && forallb (fun kv => match alookup (fst kv) obs with Some _ => true | None => false end) model.

Definition check_assume (c : interp * prop * prop) : bool :=
  let '(d, inp, obs) := c in prop_eqb (assume d inp) obs.
Definition check_evalprops (c : interp * prop * list (ident * (Z * Z)) * (Z * Z)) : bool :=
  let '(d, inp, obs, top) := c in
  dict_agrees (evaluate_propositions d inp) obs && opt_eqb bnd_eqb (evaluate d inp) (Some top).
Definition check_flags (c : prop * bool * bool * (Z * Z)) : bool :=
  let '(inp, t, f, eb) := c in
  Bool.eqb (is_tautology inp) t && Bool.eqb (is_contradiction inp) f && bnd_eqb (equation_bounds inp) eb.
Definition check_reduce (c : prop * prop) : bool :=
  let '(inp, obs) := c in prop_eqb (reduce inp) obs.

(* --- to_ge_polyhedron --- *)
Definition check_encode (c : bool * prop * list (ident * (Z * Z)) * list (list Z)) : bool :=
  let '(active, m, cols, rws) := c in
  let '(mc, mr) := to_ge_polyhedron active m in
  list_eqb (pair_eqb String.eqb bnd_eqb) mc cols && list_eqb (list_eqb Z.eqb) mr rws.
