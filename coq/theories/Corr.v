(* Corr.v — boolean checkers evaluated by the generated case files (correspondence check):
   each takes the input given to the implementation and the output it produced, runs the
   model on the same input and compares. *)
Require Import Puan.Base Puan.Plog Puan.Sem.

(* the id oracle: a table of the _id_generator calls observed while the implementation ran *)
Definition idtable := list (list ident * Z * option Z * ident).
Definition genid_of (t : idtable) : genid_t := fun ids v s =>
  match find (fun e => match e with (ids', v', s', _) =>
                  list_eqb String.eqb ids ids' && (v =? v') && opt_eqb Z.eqb s s' end) t with
  | Some (_, _, _, r) => r
  | None => "?MISSING-ID"%string
  end.

Definition lookup_env (e : list (ident * Z)) (i : ident) : Z :=
  match alookup i e with Some v => v | None => 0 end.

(* --- plog --- *)
Definition check_negate (c : idtable * prop * prop) : bool :=
  let '(t, inp, obs) := c in prop_eqb (negate (genid_of t) inp) obs.

Definition check_eval (c : prop * list (ident * Z) * Z) : bool :=
  let '(m, e, x) := c in eval (lookup_env e) m =? x.
