(* CorrBridge.v — correspondence checkers for the bridges (C20, C15): each takes the input
   given to the implementation together with the output it produced, runs the model of
   Bridge.v on the same input and compares inside Coq. *)
Require Import Puan.Base Puan.Bridge.

Definition zlist_eqb := list_eqb Z.eqb.
Definition zmat_eqb := list_eqb zlist_eqb.
Definition cell_eqb := opt_eqb Z.eqb.
Definition vars_eqb := list_eqb var_eqb.
Definition dict_eqb : dict -> dict -> bool := list_eqb (pair_eqb vid_eqb Z.eqb).

(* ---------------------------------------------------------------- C20 *)
(* the callables the harness passes as default_value, as data:
   f(v) = a*lower + b*upper + c + k*idnum(v), idnum = the int id, or the UTF-8 length of a str id *)
Definition dfun := (Z * Z * Z * Z)%type.
Definition idnum (i : vid) : Z := match i with IdZ z => z | IdS s => Z.of_nat (String.length s) end.
Definition dfun_fn (f : dfun) (v : var) : Z :=
  let '(a, b, c, k) := f in a * v_lo v + b * v_hi v + c + k * idnum (v_id v).

(* construct(variable_values, default_value, dtype) -> array (NaN printed as None) *)
Definition check_construct (c : list var * dict * option dfun * dtype * list cell) : bool :=
  let '(vs, d, dv, dt, obs) := c in
  list_eqb cell_eqb (construct vs d (option_map dfun_fn dv) dt) obs.

(* from_list(lst, context) flat: (is_integer_ndarray, lst, context, values, variables of result) *)
Definition check_from_list (c : bool * list vid * list vid * list Z * list var) : bool :=
  let '(is_int, l, ctx, obs, obs_vars) := c in
  let r := if is_int then int_from_list l ctx else bool_from_list l ctx in
  zlist_eqb r obs && vars_eqb (default_variable_list (List.length r)) obs_vars.

(* from_list(list of lists, context) *)
Definition check_from_lists (c : bool * list (list vid) * list vid * list (list Z)) : bool :=
  let '(is_int, ll, ctx, obs) := c in
  zmat_eqb (if is_int then int_from_lists ll ctx else bool_from_lists ll ctx) obs.

(* boolean_ndarray(rows, variables).to_list() for ndim 2, and for the first row as ndim 1 *)
Definition check_to_list (c : list var * list (list Z) * list (list var) * list var) : bool :=
  let '(vs, rows, obs2, obs1) := c in
  list_eqb vars_eqb (to_list2 vs rows) obs2 &&
  vars_eqb (match rows with [] => [] | r :: _ => to_list1 vs r end) obs1.

(* boolean_variable_indices / integer_variable_indices *)
Definition check_indices (c : list var * list Z * list Z) : bool :=
  let '(vs, ob, oi) := c in
  opt_eqb zlist_eqb (boolean_variable_indices vs) (Some ob) &&
  opt_eqb zlist_eqb (integer_variable_indices vs) (Some oi) &&
  opt_eqb zlist_eqb (variable_indices vs VOther) None.

(* ge_polyhedron(matrix, variables, index) of shape (nrows, ncols); observed: the object's own
   variables/index, A (matrix, variables, index) and b *)
Definition vnd_eqb (a b : vnd) : bool :=
  zmat_eqb (mat a) (mat b) && vars_eqb (vars a) (vars b) && vars_eqb (idx a) (idx b).
Definition check_Ab (c : nat * nat * list (list Z) * list var * list var * (vnd * vnd * list Z)) : bool :=
  let '(nr, nc, m, vs, ix, (op, oa, ob)) := c in
  match vnd_new nr nc m vs ix with
  | None => false
  | Some p =>
      vnd_eqb p op &&
      opt_eqb vnd_eqb (poly_A p) (Some oa) &&
      opt_eqb zlist_eqb (poly_b p) (Some ob) &&
      opt_eqb (pair_eqb vnd_eqb zlist_eqb) (to_linalg p) (Some (oa, ob))
  end.

(* ---------------------------------------------------------------- C15 *)
Definition result_eqb (a b : dict * option Z * Z) : bool :=
  let '(d, ov, sc) := a in let '(d', ov', sc') := b in
  dict_eqb d d' && opt_eqb Z.eqb ov ov' && (sc =? sc').
Definition exn_eqb (a b : exn) : bool :=
  match a, b with ExSolver, ExSolver | ExInfeasible, ExInfeasible => true | _, _ => false end.
Definition outcome_eqb {A} (eqb : A -> A -> bool) (a b : outcome A) : bool :=
  match a, b with
  | Ok x, Ok y => eqb x y
  | Raised e, Raised e' => exn_eqb e e'
  | _, _ => false
  end.

Definition dummyP : vnd := mkVnd [] [] [].

(* AtLeast.solve(objs, solver=recording solver answering [sim], include_virtual_variables=incl):
   observed = the objective vectors the solver received and what solve() produced *)
Definition check_solve (c : list column * list dict * bool * outcome (list answer)
                            * (list (list Z) * outcome (list (dict * option Z * Z)))) : bool :=
  let '(cols, objs, incl, sim, (obs_objs, obs_res)) := c in
  zmat_eqb (snd (solve_args dummyP cols objs)) obs_objs &&
  outcome_eqb (list_eqb result_eqb) (solve (fun _ _ => sim) dummyP cols objs incl) obs_res.

(* the observed call of integer_ndarray.ndint_compress inside _vectors_from_prios *)
Definition ctable := list (list (list (list Z)) * list (list Z)).
Definition compress_of (t : ctable) : list (list (list Z)) -> list (list Z) := fun s =>
  match find (fun e => list_eqb zmat_eqb (fst e) s) t with
  | Some e => snd e
  | None => [[-424242]]
  end.

(* ge_polyhedron_config.select(prios..., solver=...) through StingyConfigurator.select *)
Definition check_select (c : list column * list Z * list dict * ctable * outcome (list answer)
                             * (list (list (list Z)) * list (list Z) * outcome (list (dict * option Z * Z)))) : bool :=
  let '(cols, dpv, prios, t, sim, (obs_stack, obs_objs, obs_res)) := c in
  list_eqb zmat_eqb (select_stack cols dpv prios) obs_stack &&
  zmat_eqb (select_objectives (compress_of t) cols dpv prios) obs_objs &&
  outcome_eqb (list_eqb result_eqb) (select (compress_of t) (fun _ _ => sim) dummyP cols dpv prios) obs_res.

(* StingyConfigurator.select(..., only_leafs=True) *)
Definition check_select_leafs (c : list column * list Z * list dict * ctable * outcome (list answer)
                                   * (list (list Z) * outcome (list dict))) : bool :=
  let '(cols, dpv, prios, t, sim, (obs_objs, obs_res)) := c in
  zmat_eqb (select_objectives (compress_of t) cols dpv prios) obs_objs &&
  outcome_eqb (list_eqb dict_eqb) (stingy_select_leafs (compress_of t) (fun _ _ => sim) dummyP cols dpv prios) obs_res.
