(* CorrSafe.v — correspondence checker tying the harness's "this constructor expression keeps solver-safe
   form" predicate to SafeFacts.keeps_safe, and the built model to Cons.build (C02). *)
Require Import Puan.Base Puan.Plog Puan.Sem Puan.Corr Puan.Cons Puan.SafeFacts.

Definition check_safe (c : idtable * form * bool * prop) : bool :=
  let '(t, f, expected, obs) := c in
  Bool.eqb (keeps_safe f) expected && prop_eqb (build (genid_of t) f) obs && implb expected (solver_safe obs).
