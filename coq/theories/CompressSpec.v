(* CompressSpec.v — the SPECIFICATION side of C13/C14: what a priority array means.
   Nothing here mentions how ndint_compress computes.  A 2-D priority array M (list of rows)
   is read column-wise along axis 0: the priority of column j is decided by its LAST non-zero
   entry; its key is (row index of that entry, |value|), ordered lexicographically (later
   rows above earlier rows, then larger magnitude above smaller). *)
Require Import Puan.Base.

Definition column (M : list (list Z)) (j : nat) : list Z := map (fun r => nth j r 0) M.
(* every row has n entries *)
Definition rect (n : nat) (M : list (list Z)) : Prop := Forall (fun r => List.length r = n) M.

(* v is the last non-zero entry of c and sits at index i *)
Definition last_nonzero (c : list Z) (i : nat) (v : Z) : Prop :=
  nth i c 0 = v /\ v <> 0 /\ forall i', (i < i')%nat -> nth i' c 0 = 0.
Definition first_nonzero (c : list Z) (i : nat) (v : Z) : Prop :=
  nth i c 0 = v /\ v <> 0 /\ forall i', (i' < i)%nat -> nth i' c 0 = 0.
Definition all_zeros (c : list Z) : Prop := forall i, nth i c 0 = 0.

(* computable version: (index, value) of the last non-zero entry *)
Fixpoint eff_from (i : nat) (c : list Z) : option (nat * Z) :=
  match c with
  | [] => None
  | x :: xs => match eff_from (S i) xs with
               | Some e => Some e
               | None => if x =? 0 then None else Some (i, x)
               end
  end.
Definition eff (c : list Z) : option (nat * Z) := eff_from 0 c.

Definition key := (nat * Z)%type.
Definition key_of (c : list Z) : option key :=
  match eff c with Some (i, v) => Some (i, Z.abs v) | None => None end.
Definition key_lt (a b : key) : Prop := (fst a < fst b)%nat \/ (fst a = fst b /\ snd a < snd b).
Definition key_ltb (a b : key) : bool := (fst a <? fst b)%nat || ((fst a =? fst b)%nat && (snd a <? snd b)).

(* sum of the absolute weights of all columns whose key is strictly below k *)
Definition lower_sum (n : nat) (M : list (list Z)) (w : list Z) (k : key) : Z :=
  zsum (map (fun j => match key_of (column M j) with
                      | Some kj => if key_ltb kj k then Z.abs (nth j w 0) else 0
                      | None => 0
                      end) (seq 0 n)).

(* the level score of a 0/1 vector x at key k: signed count of the selected columns of that
   key (sign = sign of the column's deciding entry); used by C14 *)
Definition key_eqb (a b : key) : bool := (fst a =? fst b)%nat && (snd a =? snd b).
Definition sgn_of (c : list Z) : Z := match eff c with Some (_, v) => Z.sgn v | None => 0 end.
Definition level_score (n : nat) (M : list (list Z)) (k : key) (x : list Z) : Z :=
  zsum (map (fun j => match key_of (column M j) with
                      | Some kj => if key_eqb kj k then sgn_of (column M j) * nth j x 0 else 0
                      | None => 0
                      end) (seq 0 n)).
Definition dot (a b : list Z) : Z := zsum (map (fun p => fst p * snd p) (combine a b)).
Definition is01 (x : list Z) : Prop := Forall (fun v => v = 0 \/ v = 1) x.
