(* ColsFacts.v — what validation (C10) establishes about the column list that to_ge_polyhedron
   hands out: `Errors.errors2` IS `Plog.errors` (the two transcriptions agree), and for a validated
   model whose compounds all have children the flatten() list has pairwise distinct ids, so the
   columns are distinct, exclude the root and cover every occurrence below the root with its own
   declared bounds.  Plugged into Link.dense_sound this removes the column hypotheses of
   C02_sound_dense. *)
Require Import Puan.Base Puan.Plog Puan.Sem Puan.SemFacts Puan.AssumeFacts Puan.EncodeFacts
               Puan.Errors Puan.ErrorsSpec Puan.ErrorsFacts Puan.Validated Puan.Link.

(* ---------- 1. the two transcriptions of errors() coincide ---------- *)
(* the definitions were transcribed twice (Plog.v for the polyhedron / evaluation side, Errors.v for
   validation); they are convertible, so the kernel accepts `reflexivity` *)
Lemma hkey_of2_eq p : hkey_of2 p = hkey_of p.
Proof. reflexivity. Qed.
Lemma same_elt2_eq a b : same_elt2 a b = same_elt a b.
Proof. reflexivity. Qed.
Lemma flatten2_eq p : flatten2 p = flatten p.
Proof. reflexivity. Qed.
Theorem errors2_eq p : errors2 p = errors p.
Proof. reflexivity. Qed.

(* ---------- 2. a Python set holds no two elements that compare (and hash) equal ---------- *)
(* later elements are not `same_elt` as earlier ones *)
Inductive apart : list prop -> Prop :=
| apart_nil : apart []
| apart_snoc l x : apart l -> (forall a, In a l -> same_elt x a = false) -> apart (l ++ [x]).

Lemma existsb_false {A} (f : A -> bool) l : existsb f l = false -> forall a, In a l -> f a = false.
Proof.
  induction l as [|y ys IH]; cbn; intros H a Ha; [destruct Ha|].
  apply orb_false_iff in H. destruct H as [Hy Hys]. destruct Ha as [<-|Ha]; auto.
Qed.
Lemma set_add_apart x acc : apart acc -> apart (set_add x acc).
Proof.
  intros H. unfold set_add. destruct (existsb (same_elt x) acc) eqn:E; [exact H|].
  constructor; [exact H|]. apply existsb_false. exact E.
Qed.
Lemma py_set_apart l : apart (py_set l).
Proof.
  unfold py_set. assert (H : apart []) by constructor. revert H. generalize (@nil prop).
  induction l as [|x xs IH]; intros acc H; cbn [fold_left]; [exact H|]. apply IH, set_add_apart, H.
Qed.

(* ---------- 3. core equality + same class = same set element ---------- *)
Definition cls_of (p : prop) : option cls := match p with Var _ _ _ => None | Node m _ _ _ _ _ _ _ => Some (m_cls m) end.

Lemma core_lo_hi a b : core_eqb a b = true -> id_of a = id_of b /\ lo_of a = lo_of b /\ hi_of a = hi_of b.
Proof.
  destruct a as [i lo hi|m i g lo hi s v ch], b as [j lo' hi'|m' j g' lo' hi' s' v' ch']; cbn [core_eqb]; try discriminate; intros H.
  - repeat (apply andb_true_iff in H; destruct H as [H ?]). apply String.eqb_eq in H. subst. cbn. repeat split; try reflexivity; lia.
  - repeat (apply andb_true_iff in H; destruct H as [H ?]). apply String.eqb_eq in H. subst. cbn. repeat split; try reflexivity; lia.
Qed.

Definition core_list := fix go (l l' : list prop) : bool :=
  match l, l' with [], [] => true | x :: xs, y :: ys => core_eqb x y && go xs ys | _, _ => false end.

Lemma core_node m i g lo hi s v ch m' j g' lo' hi' s' v' ch' :
  core_eqb (Node m i g lo hi s v ch) (Node m' j g' lo' hi' s' v' ch') = true <->
  i = j /\ g = g' /\ lo = lo' /\ hi = hi' /\ s = s' /\ v = v' /\ core_list ch ch' = true.
Proof.
  cbn [core_eqb]. fold core_list. rewrite !andb_true_iff, String.eqb_eq, eqb_true_iff, !Z.eqb_eq. tauto.
Qed.

Lemma core_list_map (f : prop -> Z) ch : forall ch', core_list ch ch' = true ->
  Forall (fun c => forall c', core_eqb c c' = true -> f c = f c') ch -> map f ch = map f ch'.
Proof.
  induction ch as [|x xs IH]; intros [|y ys] H Hf; cbn in H; try discriminate; [reflexivity|].
  apply andb_true_iff in H. destruct H as [Hxy Hr]. inversion Hf; subst. cbn [map]. f_equal; auto.
Qed.
Lemma core_list_forall (P : prop -> prop -> Prop) ch : forall ch', core_list ch ch' = true ->
  Forall (fun c => forall c', core_eqb c c' = true -> P c c') ch -> Forall2 P ch ch'.
Proof.
  induction ch as [|x xs IH]; intros [|y ys] H Hf; cbn in H; try discriminate; [constructor|].
  apply andb_true_iff in H. destruct H as [Hxy Hr]. inversion Hf; subst. constructor; auto.
Qed.

Lemma core_hkey a : forall b, core_eqb a b = true -> hkey_of a = hkey_of b.
Proof.
  induction a as [i lo hi | m i g lo hi s v ch IH] using prop_ind'; intros [j lo' hi'|m' j g' lo' hi' s' v' ch'] H;
    try (cbn [core_eqb] in H; discriminate).
  - destruct (core_lo_hi _ _ H) as (E1 & E2 & E3). cbn in E1, E2, E3. subst. reflexivity.
  - apply core_node in H. destruct H as (-> & -> & -> & -> & -> & -> & Hch). cbn [hkey_of]. f_equal.
    revert ch' Hch. induction ch as [|x xs IHx]; intros [|y ys] Hch; cbn in Hch; try discriminate; [reflexivity|].
    apply andb_true_iff in Hch. destruct Hch as [Hxy Hr]. inversion IH; subst. cbn [map]. f_equal; auto.
Qed.

Lemma core_eqbounds a b : core_eqb a b = true -> equation_bounds a = equation_bounds b.
Proof.
  destruct a as [i lo hi|m i g lo hi s v ch], b as [j lo' hi'|m' j g' lo' hi' s' v' ch']; intros H;
    try (cbn [core_eqb] in H; discriminate).
  - reflexivity.
  - apply core_node in H. destruct H as (-> & -> & -> & -> & -> & -> & Hch).
    unfold equation_bounds, eq_mm. cbn [sign_of children value_of].
    rewrite (core_list_map (fun c => Z.min (lo_of c) (hi_of c) * s') ch ch' Hch),
            (core_list_map (fun c => Z.max (lo_of c) (hi_of c) * s') ch ch' Hch); [reflexivity| |].
    + apply Forall_forall. intros c _ c' Hc. destruct (core_lo_hi _ _ Hc) as (_ & -> & ->). reflexivity.
    + apply Forall_forall. intros c _ c' Hc. destruct (core_lo_hi _ _ Hc) as (_ & -> & ->). reflexivity.
Qed.

Lemma hkey_eqb_refl' k : hkey_eqb k k = true.
Proof. apply hkey_eqb_eq. reflexivity. Qed.
Lemma bounds_eqb_refl b : bounds_eqb b b = true.
Proof. destruct b. unfold bounds_eqb. cbn. rewrite !Z.eqb_refl. reflexivity. Qed.
Lemma cls_eqb_refl c : cls_eqb c c = true.
Proof. destruct c; reflexivity. Qed.
Lemma cls_eqb_eq a b : cls_eqb a b = true -> a = b.
Proof. destruct a, b; cbn; congruence. Qed.

Lemma core_same_elt a b : core_eqb a b = true -> cls_of a = cls_of b -> same_elt a b = true.
Proof.
  intros H Hc. unfold same_elt. rewrite (core_hkey a b H), hkey_eqb_refl'. cbn [andb].
  pose proof (core_eqbounds a b H) as He.
  destruct a as [i lo hi|m i g lo hi s v ch], b as [j lo' hi'|m' j g' lo' hi' s' v' ch'];
    try (cbn [core_eqb] in H; discriminate).
  - destruct (core_lo_hi _ _ H) as (E & _). cbn in E. subst. cbn. apply String.eqb_refl.
  - cbn [pyeq]. rewrite He, bounds_eqb_refl. apply core_node in H. destruct H as (-> & _ & _ & _ & _ & -> & _).
    cbn in Hc. injection Hc as ->. rewrite cls_eqb_refl, String.eqb_refl, Z.eqb_refl. reflexivity.
Qed.

(* ---------- 4. distinct ids in a duplicate-free set whose compounds' edges are distinct ---------- *)
Lemma NoDup_app_l' {A} (a b : list A) : NoDup (a ++ b) -> NoDup a.
Proof.
  induction a as [|x xs IH]; cbn; intros H; [constructor|]. inversion H as [|? ? Hn Hr]; subst.
  constructor; [intros Hx; apply Hn, in_or_app; auto|auto].
Qed.
Lemma NoDup_app'' {A} (l1 l2 : list A) : NoDup l1 -> NoDup l2 -> (forall x, In x l1 -> ~ In x l2) -> NoDup (l1 ++ l2).
Proof.
  induction 1 as [|x xs Hx Hxs IH]; intros H2 Hd; cbn; [exact H2|]. constructor.
  - intros Hin. apply in_app_or in Hin. destruct Hin as [Hin|Hin]; [auto|]. apply (Hd x); cbn; auto.
  - apply IH; auto. intros y Hy. apply Hd. cbn. auto.
Qed.
Lemma option_cls_dec (a b : option cls) : {a = b} + {a <> b}.
Proof. decide equality. decide equality. Qed.
Lemma NoDup_app_r' {A} (a b : list A) : NoDup (a ++ b) -> NoDup b.
Proof. induction a as [|x xs IH]; cbn; auto. intros H. inversion H; auto. Qed.
Lemma NoDup_app_disj {A} (a b : list A) x : NoDup (a ++ b) -> In x a -> In x b -> False.
Proof.
  induction a as [|y ys IH]; cbn; intros H Ha Hb; [destruct Ha|]. inversion H as [|? ? Hn Hr]; subst.
  destruct Ha as [->|Ha]; [apply Hn, in_or_app; auto|eauto].
Qed.
Lemma comps_app l x : comps (l ++ [x]) = (comps l ++ (if is_var x then [] else [x]))%list.
Proof. unfold comps. rewrite filter_app. cbn. destruct (is_var x); reflexivity. Qed.
Lemma in_comps c l : In c (comps l) <-> In c l /\ is_var c = false.
Proof. unfold comps. rewrite filter_In. rewrite negb_true_iff. tauto. Qed.
Lemma edges_app a b : edges_of (a ++ b) = (edges_of a ++ edges_of b)%list.
Proof. unfold edges_of. apply flat_map_app. Qed.

Lemma core_first_child a b : core_eqb a b = true -> forall y, In y (children a) ->
  exists y', In y' (children b) /\ id_of y' = id_of y.
Proof.
  destruct a as [i lo hi|m i g lo hi s v ch], b as [j lo' hi'|m' j g' lo' hi' s' v' ch']; intros H;
    try (cbn [core_eqb] in H; discriminate); [intros y []|].
  apply core_node in H. destruct H as (_ & _ & _ & _ & _ & _ & Hch). cbn [children].
  revert ch' Hch. induction ch as [|x xs IH]; intros [|x' xs'] Hch y Hy; cbn in Hch; try discriminate; [destruct Hy|].
  apply andb_true_iff in Hch. destruct Hch as [Hx Hr]. destruct Hy as [<-|Hy].
  - exists x'. split; [left; reflexivity|]. destruct (core_lo_hi _ _ Hx) as (E & _). auto.
  - destruct (IH xs' Hr y Hy) as (y' & Hy' & E). exists y'. split; [right; exact Hy'|exact E].
Qed.

Lemma apart_ids l : apart l -> NoDup (edges_of (comps l)) ->
  (forall a b, In a l -> In b l -> id_of a = id_of b -> core_eqb a b = true) ->
  (forall a, In a l -> is_var a = false -> children a <> []) ->
  NoDup (map id_of l).
Proof.
  induction 1 as [|l x Hap IH Hx]; intros Hed Hcore Hch; [constructor|].
  rewrite comps_app, edges_app in Hed.
  rewrite map_app. cbn [map]. apply NoDup_app''.
  - apply IH.
    + eapply NoDup_app_l'. exact Hed.
    + intros a b Ha Hb. apply Hcore; apply in_or_app; auto.
    + intros a Ha. apply Hch. apply in_or_app; auto.
  - constructor; [intros []|constructor].
  - intros i Hi [<-|[]]. apply in_map_iff in Hi. destruct Hi as (a & Hid & Ha).
    assert (Hc : core_eqb x a = true).
    { apply Hcore; [apply in_or_app; right; left; reflexivity|apply in_or_app; auto|auto]. }
    specialize (Hx a Ha).
    destruct (option_cls_dec (cls_of x) (cls_of a)) as [Ecls|Ncls].
    + rewrite (core_same_elt x a Hc Ecls) in Hx. discriminate.
    + (* same definition, different classes: both are compounds with a child, which gives one edge twice *)
      destruct x as [i lo hi|m i g lo hi s v ch]; destruct a as [j lo' hi'|m' j g' lo' hi' s' v' ch'];
        try (cbn [core_eqb] in Hc; discriminate); [exfalso; apply Ncls; reflexivity|].
      assert (Hne : ch <> []).
      { apply (Hch (Node m i g lo hi s v ch)); [apply in_or_app; right; left; reflexivity|reflexivity]. }
      destruct ch as [|y ys]; [congruence|].
      destruct (core_first_child _ _ Hc y (or_introl eq_refl)) as (y' & Hy' & Ey). cbn [children] in Hy'.
      cbn [is_var] in Hed.
      apply (NoDup_app_disj _ _ (i, id_of y) Hed).
      * unfold edges_of. apply in_flat_map. exists (Node m' j g' lo' hi' s' v' ch'). split.
        { apply in_comps. split; [exact Ha|reflexivity]. }
        apply in_map_iff. exists y'. split; [|exact Hy']. cbn [id_of] in *. rewrite Ey. f_equal. exact Hid.
      * unfold edges_of. cbn [flat_map children id_of map]. left. reflexivity.
Qed.

(* ---------- 5. validated models: flatten() has pairwise distinct ids ---------- *)
(* every compound has at least one child (a childless compound of another class with the same id is
   the one thing errors() cannot see: it contributes no edge) *)
Definition no_childless (m : prop) : Prop := forall n, In n (nodes m) -> is_var n = false -> children n <> [].

Lemma in_py_set_nodes m r : In r (py_set (flat_raw m)) -> In r (nodes m).
Proof.
  intros H. unfold py_set in H. apply py_set_in in H. destruct H as [[]|H]. apply flat_raw_nodes. exact H.
Qed.

Lemma comps_perm l l' : Permutation l l' -> Permutation (comps l) (comps l').
Proof.
  unfold comps. induction 1 as [|x l l' H IH|x y l|l l' l'' H1 IH1 H2 IH2]; cbn [filter].
  - constructor.
  - destruct (negb (is_var x)); [constructor|]; exact IH.
  - destruct (negb (is_var x)), (negb (is_var y)); try apply Permutation_refl. constructor.
  - eapply Permutation_trans; eauto.
Qed.

Theorem validated_flatten_ids m : validated m -> leaves_apart m -> gen_coherent m -> no_childless m ->
  NoDup (map id_of (flatten m)).
Proof.
  intros Hval Hla Hgc Hnc.
  pose proof (validated_single_def m Hval Hla Hgc) as Hsd.
  destruct Hval as (He & _).
  apply errors2_nil_iff in He. destruct He as (_ & _ & _ & H4). apply has_dup_edge_nodup in H4.
  change (flatten2 m) with (flatten m) in H4.
  set (S := py_set (flat_raw m)).
  assert (Hperm : Permutation (flatten m) S) by (unfold flatten; apply py_sorted_perm).
  apply (Permutation_NoDup (l := map id_of S)); [apply Permutation_map, Permutation_sym, Hperm|].
  apply apart_ids.
  - apply py_set_apart.
  - apply (Permutation_NoDup (l := edges_of (comps (flatten m)))); [|exact H4].
    unfold edges_of. apply Permutation_flat_map, comps_perm, Hperm.
  - intros a b Ha Hb. apply Hsd; apply in_py_set_nodes; assumption.
  - intros a Ha. apply Hnc, in_py_set_nodes, Ha.
Qed.

(* ---------- 6. the column list of to_ge_polyhedron(active=True) ---------- *)
Lemma nodes_cases' p q : In q (nodes p) -> q = p \/ exists c, In c (children p) /\ In q (nodes c).
Proof.
  destruct p as [i lo hi|m i g lo hi s v ch]; cbn [nodes children]; intros [<-|H]; auto; [destruct H|].
  right. apply in_flat_map in H. exact H.
Qed.

Lemma desc_path m q : In q (nodes m) -> forall c n, In c (children q) -> In n (nodes c) -> id_path m (id_of q) (id_of n).
Proof.
  induction q as [i lo hi | mm i g lo hi s v ch IH] using prop_ind'; intros Hq c n Hc Hn; [destruct Hc|].
  cbn [children] in Hc.
  assert (Hedge : id_edge m i (id_of c)).
  { exists (Node mm i g lo hi s v ch), c. repeat split; auto. }
  destruct (nodes_cases' c n Hn) as [->|(c2 & Hc2 & Hn2)]; [apply id_path_one; exact Hedge|].
  apply id_path_step with (b := id_of c); [exact Hedge|].
  rewrite Forall_forall in IH. apply (IH c Hc) with (c := c2); auto.
  apply (nodes_trans m (Node mm i g lo hi s v ch) c Hq). eapply in_nodes_child; [exact Hc|apply in_nodes_self].
Qed.

Lemma NoDup_map_filter {A B} (f : A -> B) (g : A -> bool) l : NoDup (map f l) -> NoDup (map f (filter g l)).
Proof.
  induction l as [|x xs IH]; cbn; intros H; [constructor|]. inversion H as [|? ? Hn Hr]; subst.
  destruct (g x); cbn; auto. constructor; auto.
  intros Hin. apply Hn. apply in_map_iff in Hin. destruct Hin as (y & E & Hy). apply filter_In in Hy.
  apply in_map_iff. exists y. tauto.
Qed.

Theorem validated_columns m : validated m -> leaves_apart m -> gen_coherent m -> no_childless m ->
  NoDup (map fst (columns true m)) /\ cols_cover m (columns true m) /\ ~ In (id_of m) (map fst (columns true m)).
Proof.
  intros Hval Hla Hgc Hnc.
  pose proof (validated_flatten_ids m Hval Hla Hgc Hnc) as Hnd.
  pose proof (validated_single_def m Hval Hla Hgc) as Hsd.
  assert (Hac : acyclic m) by (apply sound_acyclic; apply Hval).
  unfold columns. rewrite (dict_by_id_nodup _ Hnd). cbn [andb]. rewrite map_map. cbn [fst].
  split; [apply NoDup_map_filter; exact Hnd|]. split.
  - intros c n Hc Hn.
    assert (Hnm : In n (nodes m)).
    { apply (nodes_trans m c n); [|exact Hn]. destruct m as [|mm i g lo hi s v ch]; [destruct Hc|].
      eapply in_nodes_child; [exact Hc|apply in_nodes_self]. }
    destruct (flatten2_rep m n Hnm) as (n' & Hn' & Ek). change (flatten2 m) with (flatten m) in Hn'.
    assert (Eid : id_of n = id_of n') by (rewrite <- (hkey_id_of n), <- (hkey_id_of n'), Ek; reflexivity).
    assert (Hcore : core_eqb n n' = true) by (apply Hsd; auto; apply flatten_nodes; exact Hn').
    destruct (core_lo_hi _ _ Hcore) as (_ & Elo & Ehi).
    apply in_map_iff. exists n'. split; [rewrite Eid, Elo, Ehi; reflexivity|].
    apply filter_In. split; [exact Hn'|]. apply negb_true_iff. apply String.eqb_neq. rewrite <- Eid.
    intros E. apply (Hac (id_of m)). rewrite <- E at 2. apply (desc_path m m (in_nodes_self m) c n Hc Hn).
  - intros Hin. apply in_map_iff in Hin. destruct Hin as (q & E & Hq). apply filter_In in Hq. destruct Hq as [_ Hq].
    apply negb_true_iff, String.eqb_neq in Hq. congruence.
Qed.

(* C02 soundness for the polyhedron as handed out, from validation *)
Theorem validated_dense_sound m x : validated m -> leaves_apart m -> gen_coherent m -> no_childless m ->
  is_var m = false -> plain_shape m -> solver_safe m = true ->
  Forall2 (fun b v => fst b <= v <= snd b) (map snd (fst (to_ge_polyhedron true m))) x ->
  Forall (sat_dense x) (snd (to_ge_polyhedron true m)) ->
  eval (col_lookup (map fst (fst (to_ge_polyhedron true m))) x) m = 1.
Proof.
  intros Hval Hla Hgc Hnc Hv Hps Hsafe Hb Hsat.
  destruct (validated_columns m Hval Hla Hgc Hnc) as (Hnd & Hcov & Htop).
  unfold to_ge_polyhedron in *. cbn [fst snd] in *.
  apply dense_sound; auto.
Qed.

(* ---------- non-vacuity: S = Any(B = All(a,b), c) meets every hypothesis ---------- *)
Open Scope string_scope.
Definition cols_s : prop := Node (mk KAny) "S" false 0 1 1 1 [Node (mk KAll) "B" false 0 1 1 2 [Var "a" 0 1; Var "b" 0 1]; Var "c" 0 1].
Lemma cols_example :
  validated cols_s /\ leaves_apart cols_s /\ gen_coherent cols_s /\ no_childless cols_s /\
  is_var cols_s = false /\ plain_shape cols_s /\ solver_safe cols_s = true /\
  to_ge_polyhedron true cols_s = ([("B",(0,1)); ("a",(0,1)); ("b",(0,1)); ("c",(0,1))], [[1; 1; 0; 0; 1]; [0; -2; 1; 1; 0]]) /\
  Forall2 (fun b v => fst b <= v <= snd b) (map snd (fst (to_ge_polyhedron true cols_s))) [1; 1; 1; 0] /\
  Forall (sat_dense [1; 1; 1; 0]) (snd (to_ge_polyhedron true cols_s)).
Proof.
  assert (Hn : nodes cols_s = [cols_s; Node (mk KAll) "B" false 0 1 1 2 [Var "a" 0 1; Var "b" 0 1]; Var "a" 0 1; Var "b" 0 1; Var "c" 0 1]) by reflexivity.
  assert (HP : to_ge_polyhedron true cols_s = ([("B",(0,1)); ("a",(0,1)); ("b",(0,1)); ("c",(0,1))], [[1; 1; 0; 0; 1]; [0; -2; 1; 1; 0]])) by (vm_compute; reflexivity).
  split.
  { split; [vm_compute; reflexivity|]. split.
    - intros a b Ha Hb. rewrite Hn in Ha, Hb. cbn [In] in Ha, Hb.
      intuition; subst; cbn; intros; try discriminate; auto.
    - intros a b Ha Hb. rewrite Hn in Ha, Hb. cbn [In] in Ha, Hb.
      intuition; subst; cbn; intros; try discriminate; auto. }
  split.
  { intros a b Ha Hb. rewrite Hn in Ha, Hb. cbn [In] in Ha, Hb.
    intuition; subst; cbn; intros; try discriminate. }
  split.
  { intros a b Ha Hb. rewrite Hn in Ha, Hb. cbn [In] in Ha, Hb.
    intuition; subst; cbn; intros; try discriminate; auto. }
  split.
  { intros n Ha. rewrite Hn in Ha. cbn [In] in Ha. intuition; subst; cbn; intros; try discriminate. }
  split; [reflexivity|]. split; [cbn; intuition|]. split; [reflexivity|]. split; [exact HP|].
  rewrite HP. cbn [fst snd map]. split.
  - repeat constructor; cbn; lia.
  - repeat constructor; vm_compute; discriminate.
Qed.

(* ---------- the column ids of to_ge_polyhedron are pairwise distinct for EVERY model ---------- *)
(* (the columns come out of a dictionary keyed by id; no validation needed) *)
Lemma dict_put_ids acc q :
  map id_of (dict_put acc q) =
  if existsb (fun r => String.eqb (id_of r) (id_of q)) acc then map id_of acc else (map id_of acc ++ [id_of q])%list.
Proof.
  unfold dict_put. destruct (existsb _ acc).
  - rewrite map_map. apply map_ext. intros r. destruct (String.eqb (id_of r) (id_of q)) eqn:E; [|reflexivity].
    apply String.eqb_eq in E. congruence.
  - rewrite map_app. reflexivity.
Qed.
Lemma dict_put_nodup acc q : NoDup (map id_of acc) -> NoDup (map id_of (dict_put acc q)).
Proof.
  intros H. rewrite dict_put_ids. destruct (existsb _ acc) eqn:E; [exact H|].
  apply NoDup_app''; [exact H|constructor; [intros []|constructor]|].
  intros i Hi [<-|[]]. apply in_map_iff in Hi. destruct Hi as (r & Er & Hr).
  assert (existsb (fun r => String.eqb (id_of r) (id_of q)) acc = true); [|congruence].
  apply existsb_exists. exists r. split; [exact Hr|]. apply String.eqb_eq. exact Er.
Qed.
Theorem dict_by_id_distinct l : NoDup (map id_of (dict_by_id l)).
Proof.
  unfold dict_by_id. assert (H : NoDup (map id_of (@nil prop))) by constructor. revert H. generalize (@nil prop).
  induction l as [|q qs IH]; intros acc H; cbn [fold_left]; [exact H|]. apply IH, dict_put_nodup, H.
Qed.
Theorem columns_distinct active p : NoDup (map fst (columns active p)).
Proof.
  unfold columns. rewrite map_map. cbn [fst]. apply NoDup_map_filter. apply dict_by_id_distinct.
Qed.
