(* ConfigAll.v — C18 with the weakest possible guard.  Since fix D16 (All, hence StingyConfigurator, counts every rule it
   was given) the old rules need not have pairwise distinct ids for add() to agree with direct construction: all that is
   needed is what add() itself checks, namely that the id of each new rule names none of the rules present so far. *)
Require Import Puan.Base Puan.Plog Puan.Sem Puan.Cons Puan.Config Puan.SortFacts Puan.NegateFacts Puan.ConfigFacts.

Section C.
Variable genid : genid_t.

Theorem stingy_sorted_prefix_all o args r :
  c_stingy genid o (py_sorted id_of args ++ [r]) = c_stingy genid o (args ++ [r]).
Proof.
  unfold c_stingy, c_all_m. apply mk_node_sorted_snoc. unfold set_len.
  rewrite !app_length, (Permutation_length (py_sorted_perm id_of args)). reflexivity.
Qed.

Theorem add_is_direct_all o args r : ~ In (id_of r) (map id_of args) ->
  stingy_add genid (c_stingy genid o args) r =
  Some (c_stingy genid (Some (id_of (c_stingy genid o args), (0, 1))) (args ++ [r])).
Proof.
  intros Hnew. destruct (is_node_stingy genid o args) as (m & i & g & lo & hi & s & v & Heq). rewrite Heq. cbn [stingy_add id_of].
  assert (Hex : existsb (fun c => String.eqb (id_of c) (id_of r)) (py_sorted id_of args) = false).
  { destruct (existsb _ _) eqn:E; [|reflexivity]. apply existsb_exists in E. destruct E as (c & Hc & He). apply String.eqb_eq in He.
    apply (Permutation_in _ (py_sorted_perm id_of args)) in Hc. exfalso. apply Hnew. rewrite <- He. apply in_map. exact Hc. }
  rewrite Hex. f_equal. apply stingy_sorted_prefix_all.
Qed.

(* each new rule is new with respect to the old rules and the rules added before it *)
Fixpoint each_new (args rs : list prop) : Prop :=
  match rs with
  | [] => True
  | r :: rs' => ~ In (id_of r) (map id_of args) /\ each_new (args ++ [r]) rs'
  end.

Theorem adds_is_direct_all rs : forall o args, rs <> [] -> each_new args rs ->
  stingy_adds genid (c_stingy genid o args) rs =
  Some (c_stingy genid (Some (id_of (c_stingy genid o args), (0, 1))) (args ++ rs)).
Proof.
  induction rs as [|r rs IH]; intros o args Hne Hn; [congruence|].
  destruct Hn as [Hr Hrest]. unfold stingy_adds. cbn [fold_left].
  rewrite (add_is_direct_all o args r Hr).
  destruct rs as [|r2 rs2]; [cbn [fold_left]; reflexivity|].
  fold (stingy_adds genid (c_stingy genid (Some (id_of (c_stingy genid o args), (0, 1))) (args ++ [r])) (r2 :: rs2)).
  rewrite IH; [|discriminate|exact Hrest].
  rewrite id_stingy_explicit, <- app_assoc. reflexivity.
Qed.

(* and the guard is exactly what add() checks: if some rule is not new the chain is refused *)
Theorem adds_refused_all rs : forall o args, ~ each_new args rs -> stingy_adds genid (c_stingy genid o args) rs = None.
Proof.
  assert (Hnone : forall l, fold_left (fun acc r => match acc with Some c => stingy_add genid c r | None => None end) l None = None).
  { induction l; cbn; auto. }
  induction rs as [|r rs IH]; intros o args Hn; [exfalso; apply Hn; exact I|].
  unfold stingy_adds. cbn [fold_left].
  destruct (in_dec string_dec (id_of r) (map id_of args)) as [Hin|Hnin].
  - assert (Hrej : stingy_add genid (c_stingy genid o args) r = None).
    { apply add_rejects. { destruct (is_node_stingy genid o args) as (m & i & g & lo & hi & s & v & Heq). rewrite Heq. reflexivity. }
      rewrite children_stingy. apply in_map_iff in Hin. destruct Hin as (c & He & Hc). apply in_map_iff. exists c. split; auto.
      apply (Permutation_in _ (Permutation_sym (py_sorted_perm id_of args))). exact Hc. }
    rewrite Hrej. apply Hnone.
  - rewrite (add_is_direct_all o args r Hnin).
    fold (stingy_adds genid (c_stingy genid (Some (id_of (c_stingy genid o args), (0, 1))) (args ++ [r])) rs).
    apply IH. intros Hn'. apply Hn. split; assumption.
Qed.
End C.
