(* JsonFacts.v — the JSON round trip preserves meaning, leaves, explicit ids, signs and defaults (C16).
   Spec side: jsem (an arithmetic meaning of DOCUMENTS) and jleaves (the variables a document mentions); neither
   mentions to_json / from_json.
   to_json_sem   : the document of a model means what the model evaluates to        (cls_inv_g, xnor_flat, ok)
   from_json_sem : the model rebuilt from a document evaluates to what it means     (all_unmerged)
   roundtrip_sem / roundtrip_sem_cfg / roundtrip_stingy : composition, for both class maps and the configurator
   to_json_leaves / from_json_leaves / roundtrip_leaves : the same for the set of (leaf id, bounds)
   to_json_ids, roundtrip_id_g, roundtrip_sign, roundtrip_default : ids, signs, default lists
   build_cls_inv / build_xnor_flat / build_ok : constructor outputs satisfy the shape hypotheses.
   cls_inv_g cc : cc = false — plog classes only (notation cls_inv); cc = true — cc.Any / cc.Xor allowed. *)
Require Import Puan.Base Puan.Plog Puan.Sem Puan.SemFacts Puan.NegateFacts Puan.SortFacts Puan.Cons Puan.ConsFacts Puan.ConfigFacts Puan.Json.
Open Scope string_scope.
Open Scope list_scope.
Open Scope Z_scope.

(* ---------- the meaning of a document ---------- *)
Section JSem.
Variable env : ident -> Z.

(* a variable document means the value of that variable; it has a meaning only under
   assignments within the documented bounds (default (0,1)) *)
Definition jleaf (f : list (string * json)) : option Z :=
  match alookup "id" f with
  | Some (JStr i) =>
      match alookup "bounds" f with
      | None => if (0 <=? env i) && (env i <=? 1) then Some (env i) else None
      | Some (JObj b) =>
          match alookup "lower" b, alookup "upper" b with
          | Some (JInt lo), Some (JInt hi) => if (lo <=? env i) && (env i <=? hi) then Some (env i) else None
          | _, _ => None
          end
      | Some _ => None
      end
  | _ => None
  end.

(* is the document a bare variable? *)
Definition jis_leaf (j : json) : bool :=
  match j with
  | JObj f =>
      match alookup "type" f with
      | None => match alookup "propositions" f with Some _ => false | None => true end
      | Some (JStr t) => String.eqb t "Proposition" || String.eqb t "Variable" || String.eqb t "variable"
      | Some _ => false
      end
  | _ => false
  end.

Definition jint_or (d : Z) (o : option json) : option Z :=
  match o with None => Some d | Some (JInt v) => Some v | Some _ => None end.

Fixpoint jsem (n : nat) (j : json) : option Z :=
  match n with
  | O => None
  | S n' =>
    match j with
    | JObj f =>
      let kids := match alookup "propositions" f with
                  | None => Some []
                  | Some (JList l) => mapM (jsem n') l
                  | Some _ => None
                  end in
      (* the operand of Not / the condition of Imply: a bare variable x stands for All(x) = [1 <= x] *)
      let operand (jc : json) := match jsem n' jc with
                                 | Some c => Some (if jis_leaf jc then b2z (1 <=? c) else c)
                                 | None => None
                                 end in
      let atleast :=
        match kids, jint_or 1 (alookup "value" f) with
        | Some ks, Some v =>
            match alookup "sign" f with
            | None => Some (b2z (v <=? (if 0 <? v then 1 else -1) * zsum ks))
            | Some (JInt s) => Some (b2z (v <=? s * zsum ks))
            | Some _ => None
            end
        | _, _ => None
        end in
      let conj := match kids with Some ks => Some (b2z (Z.of_nat (List.length ks) <=? zsum ks)) | None => None end in
      match alookup "type" f with
      | None => match alookup "propositions" f with Some _ => atleast | None => jleaf f end
      | Some (JStr t) =>
          if String.eqb t "Proposition" || String.eqb t "Variable" || String.eqb t "variable" then jleaf f
          else if String.eqb t "AtLeast" then atleast
          else if String.eqb t "AtMost" then
            match kids, jint_or 1 (alookup "value" f) with
            | Some ks, Some v => Some (b2z (zsum ks <=? v))
            | _, _ => None
            end
          else if String.eqb t "All" then conj
          else if String.eqb t "Any" then
            match kids with Some ks => Some (b2z (1 <=? zsum ks)) | None => None end
          else if String.eqb t "Xor" || String.eqb t "ExactlyOne" then
            match kids with Some ks => Some (b2z (zsum ks =? 1)) | None => None end
          else if String.eqb t "XNor" then
            match kids with Some ks => Some (b2z (negb (zsum ks =? 1))) | None => None end
          else if String.eqb t "Not" then
            match alookup "proposition" f with
            | Some jp => match operand jp with Some c => Some (1 - c) | None => None end
            | None => None
            end
          else if String.eqb t "Imply" then
            match alookup "condition" f, alookup "consequence" f with
            | Some jc, Some jq =>
                match operand jc, jsem n' jq with
                | Some c, Some q => Some (b2z (1 <=? (1 - c) + q))
                | _, _ => None
                end
            | _, _ => None
            end
          else if String.eqb t "StingyConfigurator" then conj
          else None
      | Some _ => None
      end
    | _ => None
    end
  end.
End JSem.

(* ---------- the shape each class tag promises (what the constructors produce) ---------- *)
Definition xor_pair (ch : list prop) : Prop :=
  exists a b, (ch = [a; b] \/ ch = [b; a]) /\
    sign_of a = 1 /\ value_of a = 1 /\ sign_of b = -1 /\ value_of b = -1 /\ children a = children b.

(* what cc.Any.to_json serialises: the nested form Any(default, Any(rest)) is flattened *)
Definition cc_flat (p : prop) : list prop :=
  let ch := children p in
  if Nat.eqb (List.length ch) 2 && existsb has_prio ch
  then filter (fun x => negb (has_prio x)) ch ++ (match find has_prio ch with Some x => children x | None => [] end)
  else ch.
Definition ccany_nested (ch : list prop) : Prop :=
  exists d q, (ch = [d; q] \/ ch = [q; d]) /\ has_prio d = false /\ has_prio q = true /\ sign_of q = 1 /\ value_of q = 1.
Definition ccxor_pair (ch : list prop) : Prop :=
  exists a b, (ch = [a; b] \/ ch = [b; a]) /\ m_cls (meta_of a) = KCcAny /\ is_var a = false /\
    m_cls (meta_of b) = KAtMost /\ is_var b = false /\ value_of b = -1 /\ Permutation (cc_flat a) (children b).

(* cc = false: models of puan.logic.plog only; cc = true: the configurator classes cc.Any / cc.Xor are allowed too *)
Definition cls_shape (cc : bool) (m : meta) (s v : Z) (ch : list prop) : Prop :=
  match m_cls m with
  | KAtLeast => True
  | KAtMost => s = -1
  | KAll | KStingy => s = default_sign v /\ v = Z.of_nat (List.length ch)
  | KAny => s = 1 /\ v = 1
  | KXor => s = 1 /\ v = 2 /\ xor_pair ch
  | KXNor => s = 1 /\ v = 1 /\ List.length ch = 2%nat
  | KImply => s = 1 /\ v = 1 /\ List.length ch = 2%nat /\ (m_cond m < 2)%nat /\
              (forall c, nth_error ch (m_cond m) = Some c -> is_var c = false)
  | KCcAny => if cc then s = 1 /\ v = 1 /\ (if Nat.eqb (List.length ch) 2 && existsb has_prio ch then ccany_nested ch else True) else False
  | KCcXor => if cc then s = 1 /\ v = 2 /\ (match m_default m with [] => xor_pair ch | _ => ccxor_pair ch end) else False
  end.

Fixpoint cls_inv_g (cc : bool) (p : prop) : Prop :=
  match p with
  | Var _ _ _ => True
  | Node m _ _ _ _ s v ch =>
      cls_shape cc m s v ch /\ (fix go l := match l with [] => True | x :: xs => cls_inv_g cc x /\ go xs end) ch
  end.
Notation cls_inv := (cls_inv_g false).

(* finding D6 is excluded by: the operands of every XNor are leaves, i.e. the two stored
   children are [0 <= -Σ X] and [2 <= Σ X] over one list X of variables *)
Definition xnor_pair (ch : list prop) : Prop :=
  exists a b, (ch = [a; b] \/ ch = [b; a]) /\
    sign_of a = -1 /\ value_of a = 0 /\ sign_of b = 1 /\ value_of b = 2 /\ children a = children b /\
    forallb is_var (children a) = true.
Fixpoint xnor_flat (p : prop) : Prop :=
  match p with
  | Var _ _ _ => True
  | Node m _ _ _ _ _ _ ch =>
      (match m_cls m with KXNor => xnor_pair ch | _ => True end) /\
      (fix go l := match l with [] => True | x :: xs => xnor_flat x /\ go xs end) ch
  end.

Lemma cls_inv_node cc m i g lo hi s v ch :
  cls_inv_g cc (Node m i g lo hi s v ch) <-> cls_shape cc m s v ch /\ Forall (cls_inv_g cc) ch.
Proof.
  cbn [cls_inv_g]. split; intros [H1 H2]; split; auto; clear H1.
  - induction ch as [|x xs IH]; constructor; destruct H2; auto.
  - induction H2; cbn; auto.
Qed.
Lemma xnor_flat_node m i g lo hi s v ch :
  xnor_flat (Node m i g lo hi s v ch) <-> (match m_cls m with KXNor => xnor_pair ch | _ => True end) /\ Forall xnor_flat ch.
Proof.
  cbn [xnor_flat]. split; intros [H1 H2]; split; auto; clear H1.
  - induction ch as [|x xs IH]; constructor; destruct H2; auto.
  - induction H2; cbn; auto.
Qed.

(* ---------- small tools ---------- *)
Ltac sj := cbn [alookup String.eqb Ascii.eqb Bool.eqb andb orb negb app idf jint_or].
Ltac sj_in H := cbn [alookup String.eqb Ascii.eqb Bool.eqb andb orb negb app idf jint_or] in H.

Lemma mapM_length {A B} (f : A -> option B) l r : mapM f l = Some r -> List.length r = List.length l.
Proof.
  revert r. induction l as [|x xs IH]; intros r H; cbn [mapM] in H.
  - inversion H. reflexivity.
  - destruct (f x); [|discriminate]. destruct (mapM f xs); [|discriminate]. inversion H. cbn. f_equal. apply IH. reflexivity.
Qed.

Lemma b2z_if (c : bool) : (if c then 1 else 0) = b2z c.
Proof. reflexivity. Qed.

Lemma Forall_perm {A} (P : A -> Prop) l l' : Permutation l l' -> Forall P l -> Forall P l'.
Proof. intros Hp H. rewrite Forall_forall in *. intros x Hx. apply H. eapply Permutation_in; [apply Permutation_sym; exact Hp|exact Hx]. Qed.

Lemma Forall_filter {A} (P : A -> Prop) f l : Forall P l -> Forall P (filter f l).
Proof. intros H. apply Forall_forall. intros x Hx. apply filter_In in Hx. rewrite Forall_forall in H. apply H. tauto. Qed.
Lemma xnor_flat_children p : xnor_flat p -> Forall xnor_flat (children p).
Proof. destruct p; [constructor|]. intros H. apply xnor_flat_node in H. cbn [children]. tauto. Qed.
Lemma cls_inv_children cc p : cls_inv_g cc p -> Forall (cls_inv_g cc) (children p).
Proof. destruct p; [constructor|]. intros H. apply cls_inv_node in H. cbn [children]. tauto. Qed.
Lemma ok_children env p : ok env p -> Forall (ok env) (children p).
Proof. destruct p; [constructor|]. intros H. apply ok_node_forall in H. cbn [children]. tauto. Qed.
Lemma mapM_app {A B} (f : A -> option B) a b :
  mapM f (a ++ b) = match mapM f a, mapM f b with Some x, Some y => Some (x ++ y) | _, _ => None end.
Proof.
  induction a as [|x xs IH]; cbn [mapM app]; [destruct (mapM f b); reflexivity|].
  destruct (f x); [|reflexivity]. rewrite IH. destruct (mapM f xs); [|reflexivity]. destruct (mapM f b); reflexivity.
Qed.
Lemma zsum_nonneg l : Forall (fun x => 0 <= x) l -> 0 <= zsum l.
Proof. induction 1; cbn [zsum]; lia. Qed.
Lemma nn_eval env p : (forall i : ident, 0 <= env i) -> 0 <= eval env p.
Proof. intros H. destruct p; cbn [eval]; [apply H|case_if; lia]. Qed.
Lemma nn_sum env l : (forall i : ident, 0 <= env i) -> 0 <= zsum (map (eval env) l).
Proof. intros H. apply zsum_nonneg. apply Forall_forall. intros x Hx. apply in_map_iff in Hx. destruct Hx as (p & <- & _). apply nn_eval, H. Qed.
Lemma cc_flat_forall (P : prop -> Prop) : (forall x, P x -> Forall P (children x)) ->
  forall p, Forall P (children p) -> Forall P (cc_flat p).
Proof.
  intros Hc p H. unfold cc_flat. case_if; [|exact H]. apply Forall_app. split; [apply Forall_filter, H|].
  destruct (find has_prio (children p)) eqn:E; [|constructor]. apply find_some in E. apply Hc. rewrite Forall_forall in H. apply H. tauto.
Qed.
(* a cc.Any node means the disjunction of its flattened operands when these are non-negative *)
Lemma eval_cc_flat env m i g lo hi ch : (forall i : ident, 0 <= env i) ->
  (if Nat.eqb (List.length ch) 2 && existsb has_prio ch then ccany_nested ch else True) ->
  eval env (Node m i g lo hi 1 1 ch) = b2z (1 <=? zsum (map (eval env) (cc_flat (Node m i g lo hi 1 1 ch)))).
Proof.
  intros Hn Hs. unfold cc_flat. cbn [children]. destruct (Nat.eqb (List.length ch) 2 && existsb has_prio ch) eqn:E.
  - destruct Hs as (d & q & Hch & Hd & Hq & Hsq & Hvq). destruct q as [|mq iq gq loq hiq sq vq X]; [discriminate|].
    cbn [sign_of value_of] in *. subst sq vq.
    pose proof (nn_eval env d Hn) as H0. pose proof (nn_sum env X Hn) as H1.
    destruct Hch as [-> | ->]; cbn [filter find]; rewrite Hd, Hq; cbn [negb filter find app children]; rewrite ?Hd, ?Hq; cbn [negb app children];
      cbn [eval map zsum]; rewrite ?map_app; cbn [map zsum]; unfold b2z; repeat case_leaf_if; lia.
  - cbn [eval]. unfold b2z. repeat case_if; lia.
Qed.

Lemma sign_pm s : (s =? 1) || (s =? -1) = true -> s = 1 \/ s = -1.
Proof. lia. Qed.
Lemma some_inj {A} (a b : A) : Some a = Some b -> a = b.
Proof. intros H. inversion H. reflexivity. Qed.
Lemma jobj_inj a b : JObj a = JObj b -> a = b.
Proof. intros H. inversion H. reflexivity. Qed.
Ltac crack := repeat match goal with
  | H : match ?x with _ => _ end = Some _ |- _ => destruct x eqn:?; try discriminate
  | H : (if ?x then _ else _) = Some _ |- _ => destruct x eqn:?; try discriminate
  | H : Some _ = Some _ |- _ => apply some_inj in H; try apply jobj_inj in H; subst
  end.
Lemma jis_leaf_var_json i lo hi : jis_leaf (var_json i lo hi) = true.
Proof. unfold var_json. destruct ((lo =? 0) && (hi =? 1)); reflexivity. Qed.

Section Neg.
Variable genid : genid_t.
Variable cc : bool.

(* ---------- negate keeps the class shape (its results are plain AtLeast nodes) ---------- *)
Lemma cls_inv_negate p : (cls_inv_g cc) p -> (cls_inv_g cc) (negate genid p).
Proof.
  induction p as [i lo hi | m i g lo hi s v ch0 IH] using prop_ind'; intros Hc; [exact Hc|].
  apply cls_inv_node in Hc. destruct Hc as [_ Hch].
  cbn [negate]. rewrite pairs_fst. set (ch := py_sorted id_of ch0).
  assert (Hchs : Forall (cls_inv_g cc) ch) by (apply (Forall_perm _ ch0); [apply Permutation_sym, py_sorted_perm|exact Hch]).
  case_if.
  - apply cls_inv_node. split; [exact I|]. apply Forall_app. split.
    + apply Forall_forall. intros r Hr. apply in_flat_map in Hr. destruct Hr as ([c nc] & Hpc & Hr).
      apply (Permutation_in _ (py_sorted_perm pkey _)) in Hpc. apply in_map_iff in Hpc. destruct Hpc as (c' & Heq & Hc'). inversion Heq; subst.
      cbn [fst snd] in Hr. destruct (is_var c); [destruct Hr|]. destruct Hr as [<-|[]]. rewrite Forall_forall in *. auto.
    + case_if; [constructor|]. apply Forall_forall. intros r Hr. apply in_map_iff in Hr. destruct Hr as (t & <- & _).
      cbn [negate_flat]. apply cls_inv_node. split; [exact I|].
      apply Forall_forall. intros a Ha. unfold atoms in Ha. apply filter_In in Ha. rewrite Forall_forall in Hchs. apply Hchs. tauto.
  - apply cls_inv_node. split; [exact I|exact Hchs].
Qed.

Lemma xnor_flat_negate p : xnor_flat p -> xnor_flat (negate genid p).
Proof.
  induction p as [i lo hi | m i g lo hi s v ch0 IH] using prop_ind'; intros Hc; [exact Hc|].
  apply xnor_flat_node in Hc. destruct Hc as [_ Hch].
  cbn [negate]. rewrite pairs_fst. set (ch := py_sorted id_of ch0).
  assert (Hchs : Forall xnor_flat ch) by (apply (Forall_perm _ ch0); [apply Permutation_sym, py_sorted_perm|exact Hch]).
  case_if.
  - apply xnor_flat_node. split; [exact I|]. apply Forall_app. split.
    + apply Forall_forall. intros r Hr. apply in_flat_map in Hr. destruct Hr as ([c nc] & Hpc & Hr).
      apply (Permutation_in _ (py_sorted_perm pkey _)) in Hpc. apply in_map_iff in Hpc. destruct Hpc as (c' & Heq & Hc'). inversion Heq; subst.
      cbn [fst snd] in Hr. destruct (is_var c); [destruct Hr|]. destruct Hr as [<-|[]]. rewrite Forall_forall in *. auto.
    + case_if; [constructor|]. apply Forall_forall. intros r Hr. apply in_map_iff in Hr. destruct Hr as (t & <- & _).
      cbn [negate_flat]. apply xnor_flat_node. split; [exact I|].
      apply Forall_forall. intros a Ha. unfold atoms in Ha. apply filter_In in Ha. rewrite Forall_forall in Hchs. apply Hchs. tauto.
  - apply xnor_flat_node. split; [exact I|exact Hchs].
Qed.

(* the document of a compound is never a bare-variable document *)
Lemma to_json_is_leaf n p j : to_json genid n p = Some j -> jis_leaf j = is_var p.
Proof.
  destruct n as [|n]; [discriminate|]. destruct p as [i lo hi | m i g lo hi s v ch]; cbn [to_json is_var]; intros H.
  - inversion H. apply jis_leaf_var_json.
  - destruct (m_cls m); crack; reflexivity.
Qed.

Lemma children_negate_else m i g lo hi s v ch0 : s = -1 \/ forallb is_var ch0 = true ->
  children (negate genid (Node m i g lo hi s v ch0)) = py_sorted id_of ch0.
Proof.
  intros H. cbn [negate]. rewrite pairs_fst.
  assert (E : (s =? 1) && negb (Nat.eqb (List.length (comps (py_sorted id_of ch0))) 0) = false).
  { destruct H as [-> | H]; [reflexivity|]. apply andb_false_iff. right.
    rewrite forallb_var_comps_nil; [reflexivity|]. rewrite (forallb_perm _ _ _ (py_sorted_perm id_of ch0)). exact H. }
  rewrite E. reflexivity.
Qed.

End Neg.

Section Facts.
Variable genid : genid_t.
Variable cc : bool.
Variable env : ident -> Z.
(* configurator classes: cc.Any's nested form means the flat disjunction only over non-negative operands *)
Hypothesis Hnn : cc = true -> forall i, 0 <= env i.

(* ---------- to_json_sem ---------- *)
Lemma jsem_var_json n i lo hi : lo <= env i <= hi -> jsem env (S n) (var_json i lo hi) = Some (env i).
Proof.
  intros H. unfold var_json. destruct ((lo =? 0) && (hi =? 1)) eqn:E; cbn [jsem]; sj; unfold jleaf; sj.
  - assert ((0 <=? env i) && (env i <=? 1) = true) as -> by lia. reflexivity.
  - assert ((lo <=? env i) && (env i <=? hi) = true) as -> by lia. reflexivity.
Qed.

Lemma mapM_to_json_sem n ch js :
  (forall p j, to_json genid n p = Some j -> (cls_inv_g cc) p -> xnor_flat p -> ok env p -> jsem env n j = Some (eval env p)) ->
  mapM (to_json genid n) ch = Some js -> Forall (cls_inv_g cc) ch -> Forall xnor_flat ch -> Forall (ok env) ch ->
  mapM (jsem env n) js = Some (map (eval env) ch).
Proof.
  intros IH. revert js. induction ch as [|x xs IHl]; intros js H Hc Hx Ho; cbn [mapM] in H.
  - inversion H. reflexivity.
  - destruct (to_json genid n x) eqn:E1; [|discriminate]. destruct (mapM (to_json genid n) xs) eqn:E2; [|discriminate].
    inversion H; subst. inversion Hc; inversion Hx; inversion Ho; subst. cbn [mapM map].
    rewrite (IH x j E1), (IHl l eq_refl); auto.
Qed.


Theorem to_json_sem n : forall p j, to_json genid n p = Some j -> (cls_inv_g cc) p -> xnor_flat p -> ok env p -> jsem env n j = Some (eval env p).
Proof.
  induction n as [|n IH]; intros p j H Hc Hx Ho; [discriminate|].
  destruct p as [i lo hi | m i g lo hi s v ch].
  - cbn [to_json] in H. inversion H; subst. apply jsem_var_json. exact Ho.
  - apply cls_inv_node in Hc. destruct Hc as [Hsh Hcc]. apply xnor_flat_node in Hx. destruct Hx as [Hxs Hxc]. apply ok_node_forall in Ho. destruct Ho as [Hs Hoc].
    cbn [to_json] in H. unfold cls_shape in Hsh.
    assert (HXor : xor_pair ch -> s = 1 -> v = 2 ->
              match ch with
              | [] => Some (JObj ([("type", JStr "Xor"); ("propositions", JList [])] ++ [] ++ idf g i))
              | c :: _ => match mapM (to_json genid n) (children c) with
                          | Some js => Some (JObj ([("type", JStr "Xor"); ("propositions", JList js)] ++ [] ++ idf g i))
                          | None => None
                          end
              end = Some j -> jsem env (S n) j = Some (eval env (Node m i g lo hi s v ch))).
    { intros (a & b & Hch & Hsa & Hva & Hsb & Hvb & Hcab) -> -> H0.
      destruct a as [|ma ia ga loa hia sa va X]; [discriminate|]. destruct b as [|mb ib gb lob hib sb vb X']; [discriminate|].
      cbn [sign_of value_of children] in *. subst sa va sb vb X'.
      assert (HinA : In (Node ma ia ga loa hia 1 1 X) ch) by (destruct Hch as [-> | ->]; cbn; auto).
      rewrite Forall_forall in Hcc, Hxc, Hoc.
      pose proof (Hcc _ HinA) as HcA. apply cls_inv_node in HcA. destruct HcA as [_ HcX].
      pose proof (Hxc _ HinA) as HxA. apply xnor_flat_node in HxA. destruct HxA as [_ HxX].
      pose proof (Hoc _ HinA) as HoA. apply ok_node_forall in HoA. destruct HoA as [_ HoX].
      assert (Hdoc : exists js, mapM (to_json genid n) X = Some js /\ j = JObj ([("type", JStr "Xor"); ("propositions", JList js)] ++ [] ++ idf g i)).
      { destruct Hch as [-> | ->]; cbn [children] in H0; destruct (mapM (to_json genid n) X) as [js|]; try discriminate; inversion H0; eauto. }
      destruct Hdoc as (js & Em & ->).
      pose proof (mapM_to_json_sem n X js IH Em HcX HxX HoX) as Hk.
      assert (Hev : eval env (Node m i g lo hi 1 2 ch) = b2z (zsum (map (eval env) X) =? 1)).
      { destruct Hch as [-> | ->]; cbn [eval map zsum]; unfold b2z; repeat case_leaf_if; lia. }
      rewrite Hev. destruct g; cbn [jsem]; sj; rewrite Hk; reflexivity. }
    destruct (m_cls m) eqn:Ec.
    + (* AtLeast *) destruct (mapM (to_json genid n) ch) as [js|] eqn:Em; [|discriminate]. inversion H; subst; clear H.
      pose proof (mapM_to_json_sem n ch js IH Em Hcc Hxc Hoc) as Hk.
      destruct g; destruct (negb (s =? default_sign v)) eqn:Es; cbn [jsem]; sj; rewrite Hk; cbn [eval]; unfold b2z; try reflexivity;
        apply negb_false_iff in Es; apply Z.eqb_eq in Es; unfold default_sign in Es; rewrite <- Es; reflexivity.
    + (* AtMost *) destruct (mapM (to_json genid n) ch) as [js|] eqn:Em; [|discriminate]. inversion H; subst; clear H.
      pose proof (mapM_to_json_sem n ch js IH Em Hcc Hxc Hoc) as Hk.
      destruct g; cbn [jsem]; sj; rewrite Hk; cbn [eval]; unfold b2z; f_equal; repeat case_if; lia.
    + (* All *) destruct Hsh as [Hsg Hv]. destruct (mapM (to_json genid n) ch) as [js|] eqn:Em; [|discriminate]. inversion H; subst s; subst j; clear H.
      pose proof (mapM_to_json_sem n ch js IH Em Hcc Hxc Hoc) as Hk.
      assert (Hz : ch = [] \/ 0 < v) by (destruct ch; [auto|right; cbn [List.length] in Hv; lia]).
      destruct g; destruct (negb (default_sign v =? default_sign v)); cbn [jsem]; sj; rewrite Hk; cbn [eval]; rewrite map_length, <- Hv; unfold b2z, default_sign; f_equal;
        (destruct Hz as [-> | Hz]; [cbn [map zsum]; repeat case_if; lia | assert ((0 <? v) = true) as -> by lia; repeat case_if; lia]).
    + (* Any *) destruct Hsh as [-> ->]. destruct (mapM (to_json genid n) ch) as [js|] eqn:Em; [|discriminate]. inversion H; subst; clear H.
      pose proof (mapM_to_json_sem n ch js IH Em Hcc Hxc Hoc) as Hk.
      destruct g; destruct (negb (1 =? default_sign 1)); cbn [jsem]; sj; rewrite Hk; cbn [eval]; unfold b2z; f_equal; repeat case_if; lia.
    + (* Imply *) destruct Hsh as (-> & -> & Hlen & Hcond & Hnv).
      destruct (nth_error ch (m_cond m)) as [c|] eqn:Ec1; [|discriminate]. destruct (nth_error ch (1 - m_cond m)) as [q|] eqn:Eq1; [|discriminate].
      destruct (to_json genid n (negate genid c)) as [jc|] eqn:Ejc; [|discriminate]. destruct (to_json genid n q) as [jq|] eqn:Ejq; [|discriminate].
      inversion H; subst j; clear H. specialize (Hnv c eq_refl).
      assert (Hin : In c ch /\ In q ch) by (split; eapply nth_error_In; eauto). destruct Hin as [Hinc Hinq].
      rewrite Forall_forall in Hcc, Hxc, Hoc.
      pose proof (IH _ _ Ejc (cls_inv_negate genid cc c (Hcc c Hinc)) (xnor_flat_negate genid c (Hxc c Hinc)) (negate_ok genid env c (Hoc c Hinc))) as Hjc.
      pose proof (IH _ _ Ejq (Hcc q Hinq) (Hxc q Hinq) (Hoc q Hinq)) as Hjq.
      pose proof (to_json_is_leaf genid _ _ _ Ejc) as Hlf. rewrite is_var_negate, Hnv in Hlf.
      rewrite negate_complement in Hjc by auto.
      assert (Hev : eval env (Node m i g lo hi 1 1 ch) = b2z (1 <=? eval env c + eval env q)).
      { destruct ch as [|a [|b [|? ?]]]; try discriminate. cbn [eval map zsum]. unfold b2z.
        destruct (m_cond m) as [|[|k]]; cbn [nth_error Nat.sub] in *; try lia; inversion Ec1; inversion Eq1; subst; repeat case_if; lia. }
      rewrite Hev. destruct g; cbn [jsem]; sj; rewrite Hjc, Hjq, Hlf; f_equal; unfold b2z; repeat case_if; lia.
    + (* Xor *) destruct Hsh as (E1 & E2 & Hpair). exact (HXor Hpair E1 E2 H).
    + (* XNor *) destruct Hsh as (-> & -> & _). destruct Hxs as (a & b & Hch & Hsa & Hva & Hsb & Hvb & Hcab & Hvars).
      destruct a as [|ma ia ga loa hia sa va X]; [discriminate|]. destruct b as [|mb ib gb lob hib sb vb X']; [discriminate|].
      cbn [sign_of value_of children] in *. subst sa va sb vb X'.
      assert (Hfc : match ch with [] => [] | c :: _ => children (negate genid c) end = py_sorted id_of X).
      { destruct Hch as [-> | ->]; apply children_negate_else; auto. }
      assert (HinA : In (Node ma ia ga loa hia (-1) 0 X) ch) by (destruct Hch as [-> | ->]; cbn; auto).
      rewrite Forall_forall in Hcc, Hxc, Hoc.
      pose proof (Hcc _ HinA) as HcA. apply cls_inv_node in HcA. destruct HcA as [_ HcX].
      pose proof (Hxc _ HinA) as HxA. apply xnor_flat_node in HxA. destruct HxA as [_ HxX].
      pose proof (Hoc _ HinA) as HoA. apply ok_node_forall in HoA. destruct HoA as [_ HoX].
      assert (Hp : Permutation X (py_sorted id_of X)) by apply Permutation_sym, py_sorted_perm.
      assert (Hdoc : exists js, mapM (to_json genid n) (py_sorted id_of X) = Some js /\ j = JObj ([("type", JStr "XNor"); ("propositions", JList js)] ++ idf g i)).
      { destruct Hch as [-> | ->]; rewrite Hfc in H; destruct (mapM (to_json genid n) (py_sorted id_of X)) as [js|]; try discriminate; inversion H; eauto. }
      destruct Hdoc as (js & Em & ->).
      pose proof (mapM_to_json_sem n _ js IH Em (Forall_perm _ _ _ Hp HcX) (Forall_perm _ _ _ Hp HxX) (Forall_perm _ _ _ Hp HoX)) as Hk.
      assert (Hev : eval env (Node m i g lo hi 1 1 ch) = b2z (negb (zsum (map (eval env) X) =? 1))).
      { destruct Hch as [-> | ->]; cbn [eval map zsum]; unfold b2z; repeat case_leaf_if; cbn [negb]; lia. }
      rewrite Hev. destruct g; cbn [jsem]; sj; rewrite Hk, sorted_sum; reflexivity.
    + (* cc.Any *) assert (Hcc1 : cc = true) by (destruct cc; [reflexivity|destruct Hsh]). rewrite Hcc1 in Hsh.
      destruct Hsh as (-> & -> & Hnest). pose proof (Hnn Hcc1) as Hn.
      set (P := Node m i g lo hi 1 1 ch) in *.
      pose proof (cc_flat_forall _ (cls_inv_children cc) P Hcc) as HcF.
      pose proof (cc_flat_forall _ xnor_flat_children P Hxc) as HxF.
      pose proof (cc_flat_forall _ (ok_children env) P Hoc) as HoF.
      assert (Hdoc : exists js extra, mapM (to_json genid n) (cc_flat P) = Some js /\ j = JObj (("type", JStr "Any") :: ("propositions", JList js) :: extra)).
      { unfold cc_flat, P. cbn [children]. destruct (Nat.eqb (List.length ch) 2 && existsb has_prio ch).
        - rewrite mapM_app. crack. eexists. eexists. split; reflexivity.
        - crack. eexists. eexists. split; reflexivity. }
      destruct Hdoc as (js & extra & Em & ->).
      pose proof (mapM_to_json_sem n _ js IH Em HcF HxF HoF) as Hk.
      unfold P. rewrite (eval_cc_flat env m i g lo hi ch Hn Hnest). fold P. cbn [jsem]; sj; rewrite Hk; reflexivity.
    + (* cc.Xor *) assert (Hcc1 : cc = true) by (destruct cc; [reflexivity|destruct Hsh]). rewrite Hcc1 in Hsh.
      destruct Hsh as (-> & -> & Hpair). pose proof (Hnn Hcc1) as Hn.
      destruct (m_default m) as [|d0 ds] eqn:Ed; [exact (HXor Hpair eq_refl eq_refl H)|].
      destruct Hpair as (a & b & Hch & Hca & Hva & Hcb & Hvb & Hvalb & Hperm).
      destruct a as [|ma ia ga loa hia sa va Xa]; [discriminate|]. destruct b as [|mb ib gb lob hib sb vb Xb]; [discriminate|].
      cbn [meta_of value_of children] in *. subst vb.
      assert (HinA : In (Node ma ia ga loa hia sa va Xa) ch /\ In (Node mb ib gb lob hib sb (-1) Xb) ch) by (destruct Hch as [-> | ->]; cbn; auto).
      destruct HinA as [HinA HinB]. rewrite Forall_forall in Hcc, Hxc, Hoc.
      pose proof (Hcc _ HinB) as HcB. apply cls_inv_node in HcB. destruct HcB as [HsB HcX]. unfold cls_shape in HsB. rewrite Hcb in HsB. subst sb.
      pose proof (Hxc _ HinB) as HxB. apply xnor_flat_node in HxB. destruct HxB as [_ HxX].
      pose proof (Hoc _ HinB) as HoB. apply ok_node_forall in HoB. destruct HoB as [_ HoX].
      pose proof (Hcc _ HinA) as HcA. apply cls_inv_node in HcA. destruct HcA as [HsA _]. unfold cls_shape in HsA. rewrite Hca, Hcc1 in HsA. destruct HsA as (-> & -> & HnA).
      assert (Hfind : find (fun x => cls_eqb (m_cls (meta_of x)) KAtMost) ch = Some (Node mb ib gb lob hib (-1) (-1) Xb)).
      { destruct Hch as [-> | ->]; cbn [find meta_of]; rewrite ?Hca, ?Hcb; reflexivity. }
      rewrite Hfind in H. cbn [children] in H. destruct (mapM (to_json genid n) Xb) as [js|] eqn:Em; [|discriminate]. apply some_inj in H. subst j.
      pose proof (mapM_to_json_sem n Xb js IH Em HcX HxX HoX) as Hk.
      assert (Hev : eval env (Node m i g lo hi 1 2 ch) = b2z (zsum (map (eval env) Xb) =? 1)).
      { pose proof (eval_cc_flat env ma ia ga loa hia Xa Hn HnA) as Ea.
        rewrite (zsum_perm _ _ (Permutation_map (eval env) Hperm)) in Ea.
        destruct Hch as [-> | ->]; cbn [eval map zsum] in *; rewrite Ea; unfold b2z; repeat case_leaf_if; lia. }
      rewrite Hev. destruct g; cbn [jsem]; sj; rewrite Hk; reflexivity.
    + (* Stingy *) destruct Hsh as [Hsg Hv]. destruct (mapM (to_json genid n) ch) as [js|] eqn:Em; [|discriminate]. inversion H; subst s; subst j; clear H.
      pose proof (mapM_to_json_sem n ch js IH Em Hcc Hxc Hoc) as Hk.
      assert (Hz : ch = [] \/ 0 < v) by (destruct ch; [auto|right; cbn [List.length] in Hv; lia]).
      destruct g; destruct (negb (default_sign v =? default_sign v)); cbn [jsem]; sj; rewrite Hk; cbn [eval]; rewrite map_length, <- Hv; unfold b2z, default_sign; f_equal;
        (destruct Hz as [-> | Hz]; [cbn [map zsum]; repeat case_if; lia | assert ((0 <? v) = true) as -> by lia; repeat case_if; lia]).
Qed.
End Facts.

(* ---------- from_json_sem ---------- *)
(* guard of from_json_sem: no All(...) rebuilt by from_json has two arguments merged by the
   set() in All.__init__ (true whenever the rebuilt arguments have pairwise distinct ids).  It is exactly what
   excluded the evaluation-changing face finding D15 had before fix D16; it now holds for every document
   (JsonLink.v, Properties/C16.v C16_guards_hold / C16_merge_repaired). *)
Fixpoint all_unmerged (genid : genid_t) (cfg : bool) (n : nat) (j : json) : bool :=
  match n with
  | O => true
  | S n' =>
    match j with
    | JObj f =>
      let sub (k : string) := match alookup k f with Some x => all_unmerged genid cfg n' x | None => true end in
      match alookup "propositions" f with
      | Some (JList l) =>
          forallb (all_unmerged genid cfg n') l &&
          match alookup "type" f with
          | Some (JStr t) =>
              if String.eqb t "All" then
                match mapM (from_json genid cfg n') l with
                | Some ps => set_len ps =? Z.of_nat (List.length ps)
                | None => true
                end
              else true
          | _ => true
          end
      | _ => true
      end && sub "condition" && sub "consequence" && sub "proposition"
    | _ => true
    end
  end.

Section Facts2.
Variable genid : genid_t.
Variable env : ident -> Z.

Lemma eval_set_meta m p : eval env (set_meta m p) = eval env p.
Proof. destruct p; reflexivity. Qed.
Lemma ok_set_meta m p : ok env (set_meta m p) <-> ok env p.
Proof. destruct p; [reflexivity|]. cbn [set_meta]. rewrite !ok_node_forall. reflexivity. Qed.

(* Not / the condition of Imply wrap a bare variable x into All(x) = [1 <= x] *)
Lemma as_comp_eval p : ok env p ->
  eval env (as_comp genid p) = (if is_var p then b2z (1 <=? eval env p) else eval env p) /\ ok env (as_comp genid p).
Proof.
  intros Hok. unfold as_comp. destruct (is_var p) eqn:E; [|auto].
  unfold c_all, c_all_m. rewrite eval_mk_node, set_len1. cbn [map zsum]. change (default_sign 1) with 1.
  split; [unfold b2z; repeat case_if; lia|apply ok_mk_node; auto].
Qed.

Lemma mapM_from_json_sem cfg n m l ps ks :
  (forall m j p' v, from_json genid cfg n j = Some p' -> jsem env m j = Some v -> all_unmerged genid cfg n j = true ->
     eval env p' = v /\ ok env p' /\ is_var p' = jis_leaf j) ->
  mapM (from_json genid cfg n) l = Some ps -> mapM (jsem env m) l = Some ks -> forallb (all_unmerged genid cfg n) l = true ->
  ks = map (eval env) ps /\ Forall (ok env) ps.
Proof.
  intros IH. revert ps ks. induction l as [|x xs IHl]; intros ps ks H1 H2 H3; cbn [mapM forallb] in *.
  - inversion H1; inversion H2. split; [reflexivity|constructor].
  - destruct (from_json genid cfg n x) eqn:E1; [|discriminate]. destruct (mapM (from_json genid cfg n) xs) eqn:E2; [|discriminate].
    destruct (jsem env m x) eqn:E3; [|discriminate]. destruct (mapM (jsem env m) xs) eqn:E4; [|discriminate].
    apply andb_true_iff in H3. destruct H3 as [H3 H4]. inversion H1; inversion H2; subst.
    destruct (IH _ _ _ _ E1 E3 H3) as (He & Ho & _). destruct (IHl _ _ eq_refl eq_refl H4) as [Hm Hk].
    cbn [map]. rewrite He, Hm. split; [reflexivity|constructor; auto].
Qed.

Lemma var_of_json_sem f p' v : var_of_json f = Some p' -> jleaf env f = Some v ->
  eval env p' = v /\ ok env p' /\ is_var p' = true.
Proof.
  unfold var_of_json, jleaf, jget. intros H1 H2. crack; cbn [eval ok is_var]; repeat split; lia.
Qed.


(* what each constructor's result evaluates to (integer leaves allowed) *)
Lemma sem_atleast o v sarg ps : (sarg = None \/ sarg = Some 1 \/ sarg = Some (-1)) -> Forall (ok env) ps ->
  eval env (c_atleast genid o v sarg ps) = b2z (v <=? (match sarg with Some s => s | None => if 0 <? v then 1 else -1 end) * zsum (map (eval env) ps))
  /\ ok env (c_atleast genid o v sarg ps) /\ is_var (c_atleast genid o v sarg ps) = false.
Proof. intros Hs Ho. unfold c_atleast. rewrite eval_mk_node, is_var_mk_node. split; [reflexivity|]. split; [apply ok_mk_node; auto|reflexivity]. Qed.
Lemma sem_atmost o v ps : Forall (ok env) ps ->
  eval env (c_atmost genid o v ps) = b2z (zsum (map (eval env) ps) <=? v)
  /\ ok env (c_atmost genid o v ps) /\ is_var (c_atmost genid o v ps) = false.
Proof. intros Ho. unfold c_atmost. rewrite eval_mk_node, is_var_mk_node. split; [unfold b2z; repeat case_if; lia|]. split; [apply ok_mk_node; auto|reflexivity]. Qed.
Lemma sem_all_m mt o ps : set_len ps = Z.of_nat (List.length ps) -> Forall (ok env) ps ->
  eval env (c_all_m genid mt o ps) = b2z (Z.of_nat (List.length ps) <=? zsum (map (eval env) ps))
  /\ ok env (c_all_m genid mt o ps) /\ is_var (c_all_m genid mt o ps) = false.
Proof.
  intros Hl Ho. unfold c_all_m. rewrite eval_mk_node, is_var_mk_node, Hl. split; [|split; [apply ok_mk_node; auto|reflexivity]].
  unfold default_sign, b2z. destruct ps as [|x xs]; [reflexivity|]. cbn [List.length]. rewrite Nat2Z.inj_succ.
  assert ((0 <? Z.succ (Z.of_nat (List.length xs))) = true) as -> by lia. repeat case_if; lia.
Qed.
Lemma sem_any_m mt o ps : Forall (ok env) ps ->
  eval env (c_any_m genid mt o ps) = b2z (1 <=? zsum (map (eval env) ps))
  /\ ok env (c_any_m genid mt o ps) /\ is_var (c_any_m genid mt o ps) = false.
Proof. intros Ho. unfold c_any_m. rewrite eval_mk_node, is_var_mk_node. change (default_sign 1) with 1. split; [unfold b2z; repeat case_if; lia|]. split; [apply ok_mk_node; auto|reflexivity]. Qed.
Lemma sem_xor_m mt o ps : Forall (ok env) ps ->
  eval env (c_xor_m genid mt o ps) = b2z (zsum (map (eval env) ps) =? 1)
  /\ ok env (c_xor_m genid mt o ps) /\ is_var (c_xor_m genid mt o ps) = false.
Proof.
  intros Ho. unfold c_xor_m.
  assert (Hlen : set_len [c_atleast genid None 1 None ps; c_atmost genid None 1 ps] = Z.of_nat (List.length [c_atleast genid None 1 None ps; c_atmost genid None 1 ps])).
  { apply set_len2. unfold c_atleast, c_atmost, mk_node. apply same_elt_sign. cbn. lia. }
  destruct (sem_atleast None 1 None ps (or_introl eq_refl) Ho) as (E1 & O1 & _). destruct (sem_atmost None 1 ps Ho) as (E2 & O2 & _).
  destruct (sem_all_m mt o _ Hlen (Forall_cons _ O1 (Forall_cons _ O2 (Forall_nil _)))) as (E & O & V).
  split; [|auto]. rewrite E. cbn [map zsum List.length]. rewrite E1, E2. unfold b2z. change (0 <? 1) with true. cbn iota. repeat case_leaf_if; lia.
Qed.
Lemma sem_xnor o ps : Forall (ok env) ps ->
  eval env (c_xnor genid o ps) = b2z (negb (zsum (map (eval env) ps) =? 1))
  /\ ok env (c_xnor genid o ps) /\ is_var (c_xnor genid o ps) = false.
Proof.
  intros Ho. unfold c_xnor.
  destruct (sem_atleast None 1 None ps (or_introl eq_refl) Ho) as (E1 & O1 & V1). destruct (sem_atmost None 1 ps Ho) as (E2 & O2 & V2).
  destruct (sem_any_m (mk KXNor) o _ (Forall_cons _ (negate_ok genid env _ O1) (Forall_cons _ (negate_ok genid env _ O2) (Forall_nil _)))) as (E & O & V).
  split; [|auto]. rewrite E. cbn [map zsum]. rewrite !negate_complement by auto. rewrite E1, E2.
  unfold b2z. change (0 <? 1) with true. cbn iota. repeat case_leaf_if; cbn [negb]; lia.
Qed.
Lemma sem_not p : ok env p ->
  eval env (c_not genid p) = 1 - (if is_var p then b2z (1 <=? eval env p) else eval env p)
  /\ ok env (c_not genid p) /\ is_var (c_not genid p) = false.
Proof.
  intros Ho. unfold c_not. destruct (as_comp_eval p Ho) as [E O].
  rewrite negate_complement by (auto; apply is_var_as_comp). rewrite E, is_var_negate, is_var_as_comp.
  split; [reflexivity|]. split; [apply negate_ok; auto|reflexivity].
Qed.
Lemma sem_imply o c q : ok env c -> ok env q ->
  eval env (c_imply genid o c q) = b2z (1 <=? (1 - (if is_var c then b2z (1 <=? eval env c) else eval env c)) + eval env q)
  /\ ok env (c_imply genid o c q) /\ is_var (c_imply genid o c q) = false.
Proof.
  intros Hc Hq. unfold c_imply. cbv zeta. rewrite eval_set_meta, ok_set_meta, is_var_set_meta.
  destruct (sem_not c Hc) as (E1 & O1 & _). unfold c_not in *.
  destruct (sem_any_m (mk KImply) o _ (Forall_cons _ O1 (Forall_cons _ Hq (Forall_nil _)))) as (E & O & V).
  split; [|auto]. rewrite E. cbn [map zsum]. rewrite E1. f_equal. f_equal. lia.
Qed.


Lemma ok_ccany o d args : Forall (ok env) args -> ok env (c_ccany genid o d args).
Proof.
  intros H. unfold c_ccany, c_any_m. destruct d as [|[d0 b] ds]; [apply ok_mk_node; auto|].
  repeat case_if; apply ok_mk_node; auto.
  apply Forall_app. split; [apply Forall_filter; auto|]. constructor; [|constructor].
  apply ok_set_meta. apply ok_mk_node; auto. apply Forall_filter; auto.
Qed.
Lemma ok_replace d l : Forall (ok env) l -> Forall (ok env) (replace_first_value1 genid d l).
Proof.
  induction 1 as [|x xs Hx Hxs IH]; cbn [replace_first_value1]; [constructor|]. case_if; constructor; auto.
  apply ok_ccany, ok_children, Hx.
Qed.
Lemma ok_ccxor o d args : Forall (ok env) args -> ok env (c_ccxor genid o d args).
Proof.
  intros Hl. unfold c_ccxor.
  assert (Hb : ok env (c_xor_m genid (with_default KCcXor d) o args)).
  { unfold c_xor_m, c_all_m. apply ok_mk_node; [auto|].
    constructor; [apply ok_mk_node; auto|constructor; [apply ok_mk_node; auto|constructor]]. }
  destruct d; [exact Hb|]. destruct (c_xor_m genid (with_default KCcXor (p :: d)) o args) as [|m i g lo hi s v ch] eqn:E; [exact Hb|].
  apply ok_node_forall in Hb. apply ok_node_forall. destruct Hb as [Hb1 Hb2]. split; [exact Hb1|apply ok_replace, Hb2].
Qed.
Lemma zsum_filter_split (f : prop -> Z) (t : prop -> bool) l :
  zsum (map f l) = zsum (map f (filter t l)) + zsum (map f (filter (fun x => negb (t x)) l)).
Proof. induction l as [|x xs IH]; cbn [filter map zsum]; [lia|]. destruct (t x); cbn [negb map zsum]; lia. Qed.
(* cc.Any: the nested form Any(default, Any(rest)) is the flat disjunction over non-negative operands *)
Lemma sem_ccany o d ps : (forall i : ident, 0 <= env i) -> Forall (ok env) ps ->
  eval env (c_ccany genid o d ps) = b2z (1 <=? zsum (map (eval env) ps))
  /\ ok env (c_ccany genid o d ps) /\ is_var (c_ccany genid o d ps) = false.
Proof.
  intros Hn Ho. split; [|split; [apply ok_ccany; auto|apply is_var_ccany]].
  unfold c_ccany. destruct d as [|[d0 b] ds]; [apply (sem_any_m _ o ps Ho)|].
  repeat case_if; try apply (sem_any_m _ o ps Ho).
  unfold c_any_m. rewrite eval_mk_node. change (default_sign 1) with 1. rewrite map_app, zsum_app. cbn [map zsum].
  rewrite eval_set_meta. unfold c_any, c_any_m. rewrite eval_mk_node. change (default_sign 1) with 1.
  rewrite (zsum_filter_split (eval env) (matches_default d0) ps).
  pose proof (nn_sum env (filter (matches_default d0) ps) Hn). pose proof (nn_sum env (filter (fun x => negb (matches_default d0 x)) ps) Hn).
  unfold b2z. repeat case_leaf_if; lia.
Qed.
Lemma eval_replace d l : (forall i : ident, 0 <= env i) -> Forall (ok env) l -> Forall (fun x => value_of x = 1 -> sign_of x = 1) l ->
  map (eval env) (replace_first_value1 genid d l) = map (eval env) l.
Proof.
  intros Hn Ho Hs. induction Ho as [|x xs Hx Hxs IH]; cbn [replace_first_value1]; [reflexivity|]. inversion Hs; subst.
  case_if; cbn [map]; [|f_equal; auto]. f_equal.
  destruct x as [|m i g lo hi s v ch]; [rewrite andb_false_r in *; discriminate|]. cbn [value_of sign_of is_var negb children id_of lo_of hi_of] in *.
  assert (v = 1) as -> by lia. rewrite (H1 eq_refl). apply ok_node_forall in Hx.
  rewrite (proj1 (sem_ccany (Some (i, (lo, hi))) d ch Hn (proj2 Hx))). cbn [eval]. unfold b2z. repeat case_if; lia.
Qed.
Lemma is_var_ccxor o d ps : is_var (c_ccxor genid o d ps) = false.
Proof.
  unfold c_ccxor. destruct d; [unfold c_xor_m, c_all_m; apply is_var_mk_node|].
  unfold c_xor_m, c_all_m, mk_node. destruct o as [[? [? ?]]|]; reflexivity.
Qed.
Lemma sem_ccxor o d ps : (forall i : ident, 0 <= env i) -> Forall (ok env) ps ->
  eval env (c_ccxor genid o d ps) = b2z (zsum (map (eval env) ps) =? 1)
  /\ ok env (c_ccxor genid o d ps) /\ is_var (c_ccxor genid o d ps) = false.
Proof.
  intros Hn Ho. split; [|split; [apply ok_ccxor; auto|apply is_var_ccxor]].
  destruct (sem_xor_m (with_default KCcXor d) o ps Ho) as (E & O & _).
  unfold c_ccxor. destruct d as [|d0 ds]; [exact E|].
  destruct (c_xor_m genid (with_default KCcXor (d0 :: ds)) o ps) as [|m i g lo hi s v ch] eqn:Eb; [exact E|].
  rewrite <- E. cbn [eval]. rewrite eval_replace; [reflexivity|exact Hn|apply ok_node_forall in O; tauto|].
  assert (Hch : children (c_xor_m genid (with_default KCcXor (d0 :: ds)) o ps) = ch) by (rewrite Eb; reflexivity).
  unfold c_xor_m, c_all_m, mk_node in Hch. assert (Hch' : ch = py_sorted id_of [c_atleast genid None 1 None ps; c_atmost genid None 1 ps]) by (destruct o as [[? [? ?]]|]; cbn [children] in Hch; congruence).
  rewrite Hch'. apply (Forall_perm _ [c_atleast genid None 1 None ps; c_atmost genid None 1 ps]); [apply Permutation_sym, py_sorted_perm|].
  constructor; [intros _; reflexivity|constructor; [intros Hv; discriminate|constructor]].
Qed.

Theorem from_json_sem cfg (Hcn : cfg = true -> forall i : ident, 0 <= env i) n : forall m j p' v,
  from_json genid cfg n j = Some p' -> jsem env m j = Some v -> all_unmerged genid cfg n j = true ->
  eval env p' = v /\ ok env p' /\ is_var p' = jis_leaf j.
Proof.
  induction n as [|n IH]; intros m j p' v H1 H2 H3; [discriminate|].
  destruct m as [|m]; [discriminate|]. destruct j as [| | |f]; try discriminate.
  cbn [from_json jsem all_unmerged jis_leaf] in *. unfold jget in *.
  remember (match alookup "propositions" f with | Some (JList l) => mapM (from_json genid cfg n) l | None => Some [] | Some _ => None end) as props eqn:Eprops.
  remember (match alookup "propositions" f with | Some (JList l) => mapM (jsem env m) l | None => Some [] | Some _ => None end) as kids eqn:Ekids.
  rewrite !andb_true_iff in H3. destruct H3 as [[[H3 H3c] H3q] H3p].
  assert (HP : forall ps ks, props = Some ps -> kids = Some ks -> ks = map (eval env) ps /\ Forall (ok env) ps).
  { intros ps ks E1 E2. subst props kids. destruct (alookup "propositions" f) as [[| |l|]|]; try discriminate.
    - apply andb_true_iff in H3. destruct H3 as [H3 _]. eapply (mapM_from_json_sem cfg); eauto.
    - inversion E1; inversion E2. split; constructor. }
  assert (HA : forall t ps, alookup "type" f = Some (JStr t) -> String.eqb t "All" = true -> props = Some ps -> set_len ps = Z.of_nat (List.length ps)).
  { intros t ps Et Ea E1. subst props. rewrite Et, Ea in H3. destruct (alookup "propositions" f) as [[| |l|]|]; try discriminate.
    - apply andb_true_iff in H3. destruct H3 as [_ H3]. rewrite E1 in H3. lia.
    - inversion E1. reflexivity. }
  clear H3 Eprops Ekids.
  destruct (alookup "type" f) as [[z|t|lj|fo]|] eqn:Et; try discriminate.
  - destruct (String.eqb t "Proposition" || String.eqb t "Variable" || String.eqb t "variable") eqn:E0; [apply (var_of_json_sem f); auto|].
    destruct (String.eqb t "AtLeast") eqn:E1.
    { unfold jint_or in H2. crack; destruct (HP _ _ eq_refl eq_refl) as [-> Hok];
        match goal with |- eval env (c_atleast genid ?o ?v ?s ?ps) = _ /\ _ =>
          assert (Hs : s = None \/ s = Some 1 \/ s = Some (-1)) by (lazymatch s with Some ?s0 => right; match goal with Hb : (s0 =? 1) || (s0 =? -1) = true |- _ => destruct (sign_pm _ Hb) as [-> | ->]; auto end | None => auto end);
          destruct (sem_atleast o v s ps Hs Hok) as (E & O & V); rewrite E, V; auto end. }
    destruct (String.eqb t "AtMost") eqn:E2.
    { unfold jint_or in H2. crack; destruct (HP _ _ eq_refl eq_refl) as [-> Hok];
        match goal with |- eval env (c_atmost genid ?o ?v ?ps) = _ /\ _ =>
          destruct (sem_atmost o v ps Hok) as (E & O & V); rewrite E, V; auto end. }
    destruct (String.eqb t "All") eqn:E3.
    { crack; destruct (HP _ _ eq_refl eq_refl) as [-> Hok]. pose proof (HA _ _ eq_refl E3 eq_refl) as Hlen.
      destruct (sem_all_m (mk KAll) o _ Hlen Hok) as (E & O & V). unfold c_all. rewrite E, V, map_length. auto. }
    destruct (String.eqb t "Any") eqn:E4.
    { destruct cfg; crack; destruct (HP _ _ eq_refl eq_refl) as [-> Hok];
        lazymatch goal with
        | |- eval env (c_ccany genid ?o ?d ?ps) = _ /\ _ => destruct (sem_ccany o d ps (Hcn eq_refl) Hok) as (E & O & V); rewrite E, V; auto
        | |- _ => destruct (sem_any_m (mk KAny) o _ Hok) as (E & O & V); unfold c_any; rewrite E, V; auto
        end. }
    destruct (String.eqb t "Xor") eqn:E5a; [cbn [orb] in H1, H2|destruct (String.eqb t "ExactlyOne") eqn:E5b; cbn [orb] in H1, H2].
    { destruct cfg; crack; destruct (HP _ _ eq_refl eq_refl) as [-> Hok];
        lazymatch goal with
        | |- eval env (c_ccxor genid ?o ?d ?ps) = _ /\ _ => destruct (sem_ccxor o d ps (Hcn eq_refl) Hok) as (E & O & V); rewrite E, V; auto
        | |- _ => destruct (sem_xor_m (mk KXor) o _ Hok) as (E & O & V); rewrite E, V; auto
        end. }
    { apply String.eqb_eq in E5b. subst t. destruct cfg; sj_in H1; [discriminate|].
      crack; destruct (HP _ _ eq_refl eq_refl) as [-> Hok]. destruct (sem_xor_m (mk KXor) o _ Hok) as (E & O & V). rewrite E, V. auto. }
    rewrite andb_false_r in H1. cbn [orb] in H1.
    destruct (String.eqb t "XNor") eqn:E6.
    { crack; destruct (HP _ _ eq_refl eq_refl) as [-> Hok].
      destruct (sem_xnor o _ Hok) as (E & O & V). rewrite E, V. auto. }
    destruct (String.eqb t "Not") eqn:E7.
    { crack. match goal with A : from_json genid cfg n ?jp = Some ?p, B : jsem env m ?jp = Some ?c |- _ =>
        destruct (IH _ _ _ _ A B H3p) as (Ee & Eo & Ev) end.
      destruct (sem_not _ Eo) as (E & O & V). rewrite E, V, Ev, Ee. auto. }
    destruct (String.eqb t "Imply") eqn:E8; [|discriminate].
    { crack.
      match goal with A : from_json genid cfg n ?jp = Some ?p, B : jsem env m ?jp = Some ?c, G : all_unmerged genid cfg n ?jp = true,
                      A' : from_json genid cfg n ?jq = Some ?q, B' : jsem env m ?jq = Some ?d, G' : all_unmerged genid cfg n ?jq = true |- eval env (c_imply genid _ ?p ?q) = _ /\ _ =>
        destruct (IH _ _ _ _ A B G) as (Ee & Eo & Ev); destruct (IH _ _ _ _ A' B' G') as (Ee' & Eo' & _) end.
      destruct (sem_imply o _ _ Eo Eo') as (E & O & V). rewrite E, V, Ev, Ee, Ee'. auto. }
  - destruct (alookup "propositions" f) as [jp|] eqn:Ep; [|apply (var_of_json_sem f); auto].
    unfold jint_or in H2. crack; destruct (HP _ _ eq_refl eq_refl) as [-> Hok];
        match goal with |- eval env (c_atleast genid ?o ?v ?s ?ps) = _ /\ _ =>
          assert (Hs : s = None \/ s = Some 1 \/ s = Some (-1)) by (lazymatch s with Some ?s0 => right; match goal with Hb : (s0 =? 1) || (s0 =? -1) = true |- _ => destruct (sign_pm _ Hb) as [-> | ->]; auto end | None => auto end);
          destruct (sem_atleast o v s ps Hs Hok) as (E & O & V); rewrite E, V; auto end.
Qed.
End Facts2.

(* ---------- composition, ids, signs ---------- *)
Lemma ff_nn (env : ident -> Z) : false = true -> forall i : ident, 0 <= env i.
Proof. discriminate. Qed.

Section Facts3.
Variable genid : genid_t.

(* composition *)
Theorem roundtrip_sem env n n' p j p' :
  to_json genid n p = Some j -> from_json genid false n' j = Some p' ->
  cls_inv p -> xnor_flat p -> ok env p -> all_unmerged genid false n' j = true ->
  eval env p' = eval env p /\ ok env p'.
Proof.
  intros H1 H2 Hc Hx Ho Hg. pose proof (to_json_sem genid false env (ff_nn env) n p j H1 Hc Hx Ho) as Hs.
  destruct (from_json_sem genid env false (ff_nn env) n' n j p' _ H2 Hs Hg) as (E & O & _). auto.
Qed.

(* ids: emitted iff given explicitly, for every class *)
Theorem to_json_ids n p f : to_json genid n p = Some (JObj f) ->
  alookup "id" f = if gen_of p then None else Some (JStr (id_of p)).
Proof.
  destruct n as [|n]; [discriminate|]. destruct p as [i lo hi | m i g lo hi s v ch]; cbn [to_json gen_of id_of]; intros H.
  - unfold var_json in H. apply some_inj, jobj_inj in H. subst f. reflexivity.
  - destruct (m_cls m); crack; destruct g; cbn [idf app]; repeat case_if; reflexivity.
Qed.

Lemma sign_mk_node m v args o sarg : sign_of (mk_node genid m v args o sarg) = match sarg with Some s => s | None => default_sign v end.
Proof. unfold mk_node. destruct o as [[i [lo hi]]|]; reflexivity. Qed.
Lemma value_mk_node m v args o sarg : value_of (mk_node genid m v args o sarg) = v.
Proof. unfold mk_node. destruct o as [[i [lo hi]]|]; reflexivity. Qed.
Lemma children_mk_node m v args o sarg : children (mk_node genid m v args o sarg) = py_sorted id_of args.
Proof. unfold mk_node. destruct o as [[i [lo hi]]|]; reflexivity. Qed.
Lemma meta_mk_node m v args o sarg : meta_of (mk_node genid m v args o sarg) = m.
Proof. unfold mk_node. destruct o as [[i [lo hi]]|]; reflexivity. Qed.

(* fix D5: the sign of an AtLeast node survives (it is emitted when it is not the default) *)
Theorem to_json_sign n m i g lo hi s v ch f : m_cls m = KAtLeast ->
  to_json genid n (Node m i g lo hi s v ch) = Some (JObj f) ->
  alookup "sign" f = (if s =? default_sign v then None else Some (JInt s)) /\ alookup "value" f = Some (JInt v)
  /\ alookup "type" f = Some (JStr "AtLeast").
Proof.
  intros Ec H. destruct n as [|n]; [discriminate|]. cbn [to_json] in H. rewrite Ec in H. crack.
  destruct g; destruct (s =? default_sign v); cbn [idf app negb andb]; repeat split; reflexivity.
Qed.
Theorem roundtrip_sign cfg n n' m i g lo hi s v ch j p' : m_cls m = KAtLeast ->
  to_json genid n (Node m i g lo hi s v ch) = Some j -> from_json genid cfg n' j = Some p' ->
  sign_of p' = s /\ value_of p' = v.
Proof.
  intros Ec H1 H2. destruct n as [|n]; [discriminate|]. cbn [to_json] in H1. rewrite Ec in H1. crack.
  destruct n' as [|n']; [discriminate|].
  destruct g; destruct (s =? default_sign v) eqn:Es; cbn [idf app negb andb] in H2; cbn [from_json] in H2; unfold jget, jid in H2; sj_in H2;
    crack; unfold c_atleast; rewrite sign_mk_node, value_mk_node; split; try reflexivity; lia.
Qed.
End Facts3.

(* ---------- the constructors produce the promised shapes ---------- *)
Definition is_leaf (f : form) : bool := match f with FLeaf _ _ _ => true | _ => false end.

(* at most one operand of cc.Any / cc.Xor is the default variable (true when sibling ids are distinct) *)
Definition dflt_ok (d : dflt_t) (args : list prop) : Prop :=
  match d with [] => True | (d0, _) :: _ => (List.length (filter (matches_default d0) args) <= 1)%nat end.

Section Build.
Variable genid : genid_t.
Variable cc : bool.

(* constructor trees of the plog classes, integer leaves allowed; as in C04, All's set() does not
   merge two of its arguments (true whenever sibling ids are distinct) *)
Fixpoint jwf (f : form) : Prop :=
  match f with
  | FLeaf _ _ _ => True
  | FAtLeast _ _ _ l | FAtMost _ _ l | FAny _ l | FXor _ l | FXNor _ l =>
      (fix go l := match l with [] => True | x :: xs => jwf x /\ go xs end) l
  | FAll _ l => set_len (map (build genid) l) = Z.of_nat (List.length l) /\
      (fix go l := match l with [] => True | x :: xs => jwf x /\ go xs end) l
  | FImply _ a b => jwf a /\ jwf b
  | FNot a => jwf a
  | FCcAny _ _ l => cc = true /\
      (fix go l := match l with [] => True | x :: xs => jwf x /\ go xs end) l
  | FCcXor _ d l => cc = true /\ dflt_ok d (map (build genid) l) /\
      (fix go l := match l with [] => True | x :: xs => jwf x /\ go xs end) l
  | FStingy _ l => set_len (map (build genid) l) = Z.of_nat (List.length l) /\
      (fix go l := match l with [] => True | x :: xs => jwf x /\ go xs end) l
  end.
(* every XNor is over leaves (excludes finding D6) *)
Fixpoint xnor_leaves (f : form) : Prop :=
  match f with
  | FLeaf _ _ _ => True
  | FXNor _ l => forallb is_leaf l = true
  | FAtLeast _ _ _ l | FAtMost _ _ l | FAny _ l | FXor _ l | FAll _ l | FCcAny _ _ l | FCcXor _ _ l | FStingy _ l =>
      (fix go l := match l with [] => True | x :: xs => xnor_leaves x /\ go xs end) l
  | FImply _ a b => xnor_leaves a /\ xnor_leaves b
  | FNot a => xnor_leaves a
  end.
Lemma jwf_list l : (fix go l := match l with [] => True | x :: xs => jwf x /\ go xs end) l <-> Forall jwf l.
Proof. split; intros H; [induction l as [|x xs IH]; constructor; destruct H; auto | induction H; cbn; auto]. Qed.
Lemma xnor_leaves_list l : (fix go l := match l with [] => True | x :: xs => xnor_leaves x /\ go xs end) l <-> Forall xnor_leaves l.
Proof. split; intros H; [induction l as [|x xs IH]; constructor; destruct H; auto | induction H; cbn; auto]. Qed.

Lemma sorted2 (a b : prop) : py_sorted id_of [a; b] = [a; b] \/ (py_sorted id_of [a; b] = [b; a] /\ String.ltb (id_of b) (id_of a) = true).
Proof. cbn [py_sorted ins]. case_if; auto. Qed.

Lemma cls_inv_mk_node m v args o sarg : Forall (cls_inv_g cc) args ->
  cls_shape cc m (match sarg with Some s => s | None => default_sign v end) v (py_sorted id_of args) ->
  (cls_inv_g cc) (mk_node genid m v args o sarg).
Proof.
  intros Ha Hs. assert (Hch : Forall (cls_inv_g cc) (py_sorted id_of args)) by (apply (Forall_perm _ args); [apply Permutation_sym, py_sorted_perm|exact Ha]).
  unfold mk_node. destruct o as [[i [lo hi]]|]; apply cls_inv_node; auto.
Qed.
Lemma xnor_flat_mk_node m v args o sarg : Forall xnor_flat args ->
  (match m_cls m with KXNor => xnor_pair (py_sorted id_of args) | _ => True end) ->
  xnor_flat (mk_node genid m v args o sarg).
Proof.
  intros Ha Hs. assert (Hch : Forall xnor_flat (py_sorted id_of args)) by (apply (Forall_perm _ args); [apply Permutation_sym, py_sorted_perm|exact Ha]).
  unfold mk_node. destruct o as [[i [lo hi]]|]; apply xnor_flat_node; auto.
Qed.
Lemma cls_inv_set_meta m p : (forall m0 i g lo hi s v ch, p = Node m0 i g lo hi s v ch -> cls_shape cc m s v ch) -> Forall (cls_inv_g cc) (children p) -> (cls_inv_g cc) (set_meta m p).
Proof. destruct p as [|m0 i g lo hi s v ch]; [intros; exact I|]. intros Hs Hc. cbn [set_meta]. apply cls_inv_node. split; [eapply Hs; reflexivity|exact Hc]. Qed.

Lemma cls_inv_atleast o v s args : Forall (cls_inv_g cc) args -> (cls_inv_g cc) (c_atleast genid o v s args).
Proof. intros H. apply cls_inv_mk_node; [exact H|exact I]. Qed.
Lemma cls_inv_atmost o v args : Forall (cls_inv_g cc) args -> (cls_inv_g cc) (c_atmost genid o v args).
Proof. intros H. apply cls_inv_mk_node; [exact H|reflexivity]. Qed.
Lemma cls_inv_all o args : set_len args = Z.of_nat (List.length args) -> Forall (cls_inv_g cc) args -> (cls_inv_g cc) (c_all genid o args).
Proof.
  intros Hl H. apply cls_inv_mk_node; [exact H|]. unfold cls_shape. cbn [mk m_cls]. split; [reflexivity|].
  rewrite Hl. rewrite (Permutation_length (py_sorted_perm id_of args)). reflexivity.
Qed.
Lemma cls_inv_any o args : Forall (cls_inv_g cc) args -> (cls_inv_g cc) (c_any genid o args).
Proof. intros H. apply cls_inv_mk_node; [exact H|]. split; reflexivity. Qed.
Lemma cls_inv_as_comp p : (cls_inv_g cc) p -> (cls_inv_g cc) (as_comp genid p).
Proof. intros H. unfold as_comp. destruct (is_var p); [|exact H]. apply cls_inv_all; [apply set_len1|auto]. Qed.

Lemma xor_children_pair args :
  let a := c_atleast genid None 1 None args in let b := c_atmost genid None 1 args in
  sign_of a = 1 /\ value_of a = 1 /\ sign_of b = -1 /\ value_of b = -1 /\ children a = children b.
Proof. cbv zeta. unfold c_atleast, c_atmost. rewrite !sign_mk_node, !value_mk_node, !children_mk_node. repeat split; reflexivity. Qed.

Lemma cls_inv_xor o args : Forall (cls_inv_g cc) args -> (cls_inv_g cc) (c_xor_m genid (mk KXor) o args).
Proof.
  intros H. unfold c_xor_m, c_all_m.
  assert (Hlen : set_len [c_atleast genid None 1 None args; c_atmost genid None 1 args] = 2).
  { apply set_len2. unfold c_atleast, c_atmost, mk_node. apply same_elt_sign. cbn. lia. }
  apply cls_inv_mk_node.
  - constructor; [apply cls_inv_atleast; auto|constructor; [apply cls_inv_atmost; auto|constructor]].
  - rewrite Hlen. unfold cls_shape. cbn [mk m_cls]. split; [reflexivity|]. split; [reflexivity|].
    destruct (xor_children_pair args) as (A1 & A2 & A3 & A4 & A5).
    exists (c_atleast genid None 1 None args), (c_atmost genid None 1 args). split; [|auto 10].
    destruct (sorted2 (c_atleast genid None 1 None args) (c_atmost genid None 1 args)) as [-> | [-> _]]; auto.
Qed.
Lemma cls_inv_xnor o args : Forall (cls_inv_g cc) args -> (cls_inv_g cc) (c_xnor genid o args).
Proof.
  intros H. unfold c_xnor, c_any_m. apply cls_inv_mk_node.
  - constructor; [apply cls_inv_negate, cls_inv_atleast; auto|constructor; [apply cls_inv_negate, cls_inv_atmost; auto|constructor]].
  - unfold cls_shape. cbn [mk m_cls]. split; [reflexivity|]. split; [reflexivity|].
    rewrite (Permutation_length (py_sorted_perm id_of _)). reflexivity.
Qed.
Lemma cls_inv_not p : (cls_inv_g cc) p -> (cls_inv_g cc) (c_not genid p).
Proof. intros H. apply cls_inv_negate, cls_inv_as_comp, H. Qed.
Lemma cls_inv_imply o c q : (cls_inv_g cc) c -> (cls_inv_g cc) q -> (cls_inv_g cc) (c_imply genid o c q).
Proof.
  intros Hc Hq. unfold c_imply. cbv zeta. set (nc := negate genid (as_comp genid c)).
  assert (Hnv : is_var nc = false) by (unfold nc; rewrite is_var_negate; apply is_var_as_comp).
  assert (Hcn : (cls_inv_g cc) nc) by (apply cls_inv_not; auto).
  apply cls_inv_set_meta.
  - intros m0 i g lo hi s v ch E. unfold cls_shape. cbn [m_cls m_cond].
    assert (Hch : children (c_any_m genid (mk KImply) o [nc; q]) = ch) by (rewrite E; reflexivity).
    assert (Hs : sign_of (c_any_m genid (mk KImply) o [nc; q]) = s) by (rewrite E; reflexivity).
    assert (Hv : value_of (c_any_m genid (mk KImply) o [nc; q]) = v) by (rewrite E; reflexivity).
    unfold c_any_m in Hch, Hs, Hv. rewrite children_mk_node in Hch. rewrite sign_mk_node in Hs. rewrite value_mk_node in Hv. subst s v.
    rewrite E. cbn [children]. rewrite <- Hch.
    split; [reflexivity|]. split; [reflexivity|].
    destruct (sorted2 nc q) as [-> | [-> Hlt]]; cbn [index_of_id List.length].
    + rewrite String.eqb_refl. split; [reflexivity|]. split; [lia|]. intros c0 Hc0. cbn in Hc0. inversion Hc0; subst. exact Hnv.
    + assert (String.eqb (id_of q) (id_of nc) = false) as ->.
      { destruct (String.eqb (id_of q) (id_of nc)) eqn:Ee; [|reflexivity]. apply String.eqb_eq in Ee. rewrite Ee, sltb_irrefl in Hlt. discriminate. }
      rewrite String.eqb_refl. split; [reflexivity|]. split; [lia|]. intros c0 Hc0. cbn in Hc0. inversion Hc0; subst. exact Hnv.
  - unfold c_any_m. rewrite children_mk_node. apply (Forall_perm _ [nc; q]); [apply Permutation_sym, py_sorted_perm|auto].
Qed.

Lemma meta_ccany o d args : meta_of (c_ccany genid o d args) = with_default KCcAny d.
Proof. unfold c_ccany, c_any_m. destruct d as [|[d0 b] ds]; [apply meta_mk_node|]. repeat case_if; apply meta_mk_node. Qed.
Lemma meta_set_meta m p : is_var p = false -> meta_of (set_meta m p) = m.
Proof. destruct p; [discriminate|reflexivity]. Qed.
Lemma meta_negate p : is_var p = false -> meta_of (negate genid p) = m0.
Proof. destruct p; [discriminate|]. intros _. cbn [negate]. case_if; reflexivity. Qed.
Lemma meta_ccxor o d args : meta_of (c_ccxor genid o d args) = with_default KCcXor d.
Proof.
  unfold c_ccxor. pose proof (meta_mk_node genid (with_default KCcXor d) (set_len [c_atleast genid None 1 None args; c_atmost genid None 1 args]) [c_atleast genid None 1 None args; c_atmost genid None 1 args] o None) as Hm.
  fold (c_all_m genid (with_default KCcXor d) o [c_atleast genid None 1 None args; c_atmost genid None 1 args]) in Hm. fold (c_xor_m genid (with_default KCcXor d) o args) in Hm.
  destruct d; [exact Hm|]. destruct (c_xor_m genid (with_default KCcXor (p :: d)) o args); exact Hm.
Qed.
Lemma has_prio_build f : has_prio (build genid f) = false.
Proof.
  unfold has_prio. destruct f; cbn [build]; try reflexivity;
    try (unfold c_atleast, c_atmost, c_all, c_any, c_xor_m, c_xnor, c_stingy, c_all_m, c_any_m; rewrite meta_mk_node; reflexivity).
  - unfold c_imply. cbv zeta. rewrite meta_set_meta; [reflexivity|]. unfold c_any_m. apply is_var_mk_node.
  - unfold c_not. rewrite meta_negate; [reflexivity|apply is_var_as_comp].
  - rewrite meta_ccany. reflexivity.
  - rewrite meta_ccxor. reflexivity.
Qed.

Lemma existsb_false_forall {A} (f : A -> bool) l : Forall (fun x => f x = false) l -> existsb f l = false.
Proof. induction 1; cbn; [reflexivity|]. rewrite H, IHForall. reflexivity. Qed.
Lemma sign_set_meta m p : sign_of (set_meta m p) = sign_of p /\ value_of (set_meta m p) = value_of p /\ children (set_meta m p) = children p.
Proof. destruct p; repeat split; reflexivity. Qed.
Lemma filter_split_perm {A} (t : A -> bool) l : Permutation (filter t l ++ filter (fun x => negb (t x)) l) l.
Proof.
  induction l as [|x xs IH]; cbn [filter]; [constructor|]. destruct (t x); cbn [negb app]; [constructor; exact IH|].
  eapply Permutation_trans; [apply Permutation_sym, Permutation_middle|constructor; exact IH].
Qed.

Definition noprio (l : list prop) : Prop := Forall (fun x => has_prio x = false) l.
Lemma noprio_vars l : Forall (fun x => is_var x = true) l -> noprio l.
Proof. apply Forall_impl. intros x H. destruct x; [reflexivity|discriminate]. Qed.

Lemma inner_facts d0 args :
  let inner := set_meta (mkMeta KAny (Some (-2)) [] 0) (c_any genid None (filter (fun x => negb (matches_default d0 x)) args)) in
  has_prio inner = true /\ sign_of inner = 1 /\ value_of inner = 1 /\
  children inner = py_sorted id_of (filter (fun x => negb (matches_default d0 x)) args).
Proof. cbv zeta. unfold c_any, c_any_m, mk_node. cbn. auto. Qed.

Lemma cls_inv_ccany o d args : cc = true -> Forall (cls_inv_g cc) args -> noprio args -> cls_inv_g cc (c_ccany genid o d args).
Proof.
  intros Hcc Ha Hp.
  assert (Hplain : forall o, cls_inv_g cc (c_any_m genid (with_default KCcAny d) o args)).
  { intros o'. unfold c_any_m. apply cls_inv_mk_node; [exact Ha|]. unfold cls_shape. cbn [with_default m_cls]. rewrite Hcc.
    split; [reflexivity|]. split; [reflexivity|].
    rewrite (existsb_false_forall has_prio); [rewrite andb_false_r; exact I|]. apply (Forall_perm _ args); [apply Permutation_sym, py_sorted_perm|exact Hp]. }
  unfold c_ccany. destruct d as [|[d0 b] ds]; [apply Hplain|]. repeat case_if; try apply Hplain.
  destruct (inner_facts d0 args) as (I1 & I2 & I3 & I4).
  set (inner := set_meta (mkMeta KAny (Some (-2)) [] 0) (c_any genid None (filter (fun x => negb (matches_default d0 x)) args))) in *.
  unfold c_any_m. apply cls_inv_mk_node.
  - apply Forall_app. split; [apply Forall_filter, Ha|]. constructor; [|constructor]. unfold inner. apply cls_inv_set_meta.
    + intros. unfold cls_shape. cbn [m_cls]. unfold c_any, c_any_m, mk_node in H. inversion H. split; reflexivity.
    + unfold c_any, c_any_m. rewrite children_mk_node. apply (Forall_perm _ (filter (fun x => negb (matches_default d0 x)) args)); [apply Permutation_sym, py_sorted_perm|apply Forall_filter, Ha].
  - unfold cls_shape. cbn [with_default m_cls]. rewrite Hcc. split; [reflexivity|]. split; [reflexivity|].
    destruct (Nat.eqb (List.length (py_sorted id_of (filter (matches_default d0) args ++ [inner]))) 2 && existsb has_prio (py_sorted id_of (filter (matches_default d0) args ++ [inner]))) eqn:Ec; [|exact I].
    apply andb_true_iff in Ec. destruct Ec as [El _]. apply Nat.eqb_eq in El.
    rewrite (Permutation_length (py_sorted_perm id_of _)), app_length in El. cbn [List.length] in El.
    destruct (filter (matches_default d0) args) as [|dd [|? ?]] eqn:Ef; cbn [List.length] in El; try lia.
    assert (Hdd : has_prio dd = false).
    { assert (In dd (filter (matches_default d0) args)) by (rewrite Ef; left; reflexivity). apply filter_In in H. unfold noprio in Hp. rewrite Forall_forall in Hp. apply Hp. tauto. }
    cbn [app]. exists dd, inner. split; [destruct (sorted2 dd inner) as [-> | [-> _]]; auto|]. auto.
Qed.

(* the flattened operand list of cc.Any(args, default) is args again (at most one operand is the default) *)
Lemma cc_flat_ccany o d args : noprio args -> dflt_ok d args ->
  Permutation (cc_flat (c_ccany genid o d args)) args.
Proof.
  intros Hp Hd. unfold dflt_ok in Hd.
  assert (Hplain : forall o, Permutation (cc_flat (c_any_m genid (with_default KCcAny d) o args)) args).
  { intros o'. unfold cc_flat, c_any_m. rewrite children_mk_node.
    rewrite (existsb_false_forall has_prio); [rewrite andb_false_r; apply py_sorted_perm|]. apply (Forall_perm _ args); [apply Permutation_sym, py_sorted_perm|exact Hp]. }
  unfold c_ccany. destruct d as [|[d0 b] ds]; [apply Hplain|].
  destruct (1 <? Z.of_nat (List.length args)); [|apply Hplain].
  destruct (Nat.eqb (List.length (filter (fun x => negb (matches_default d0 x)) args)) (List.length args)
            || Nat.eqb (List.length (filter (fun x => negb (matches_default d0 x)) args)) 0) eqn:E2; [apply Hplain|].
  destruct (inner_facts d0 args) as (I1 & I2 & I3 & I4).
  set (inner := set_meta (mkMeta KAny (Some (-2)) [] 0) (c_any genid None (filter (fun x => negb (matches_default d0 x)) args))) in *.
  unfold cc_flat, c_any_m. rewrite children_mk_node.
  pose proof (filter_split_perm (matches_default d0) args) as Hs.
  destruct (filter (matches_default d0) args) as [|dd [|? ?]] eqn:Ef; cbn [List.length] in Hd; try lia.
  - (* no operand is the default: excluded by the length test *) exfalso.
    apply orb_false_iff in E2. destruct E2 as [H1 _]. apply Nat.eqb_neq in H1. apply H1.
    apply Permutation_length in Hs. cbn [app] in Hs. exact Hs.
  - assert (Hdd : has_prio dd = false).
    { assert (In dd (filter (matches_default d0) args)) by (rewrite Ef; left; reflexivity). apply filter_In in H. unfold noprio in Hp. rewrite Forall_forall in Hp. apply Hp. tauto. }
    cbn [app] in *.
    destruct (sorted2 dd inner) as [-> | [-> _]]; cbn [List.length Nat.eqb existsb filter find]; rewrite ?Hdd, ?I1; cbn [orb andb negb filter find app]; rewrite ?Hdd, ?I1; cbn [negb app]; rewrite I4;
      (eapply Permutation_trans; [|exact Hs]); constructor; apply py_sorted_perm.
Qed.

Lemma dflt_ok_perm d l l' : Permutation l l' -> dflt_ok d l -> dflt_ok d l'.
Proof. unfold dflt_ok. destruct d as [|[d0 b] ds]; [auto|]. intros Hp. rewrite (Permutation_length (filter_perm (matches_default d0) _ _ Hp)). auto. Qed.

Lemma cls_inv_ccxor o d args : cc = true -> Forall (cls_inv_g cc) args -> noprio args -> dflt_ok d args ->
  cls_inv_g cc (c_ccxor genid o d args).
Proof.
  intros Hcc Ha Hp Hd.
  destruct (xor_children_pair args) as (A1 & A2 & A3 & A4 & A5).
  pose proof (cls_inv_atleast None 1 None args Ha) as HA. pose proof (cls_inv_atmost None 1 args Ha) as HB.
  assert (HvA : is_var (c_atleast genid None 1 None args) = false) by apply is_var_mk_node.
  assert (HvB : is_var (c_atmost genid None 1 args) = false) by apply is_var_mk_node.
  assert (HchA : children (c_atleast genid None 1 None args) = py_sorted id_of args) by apply children_mk_node.
  assert (HmB : meta_of (c_atmost genid None 1 args) = mk KAtMost) by apply meta_mk_node.
  set (A := c_atleast genid None 1 None args) in *. set (B := c_atmost genid None 1 args) in *.
  assert (Hlen : set_len [A; B] = 2).
  { apply set_len2. unfold A, B, c_atleast, c_atmost, mk_node. apply same_elt_sign. cbn. lia. }
  unfold c_ccxor, c_xor_m, c_all_m. fold A B. rewrite Hlen.
  destruct d as [|d0 ds].
  - apply cls_inv_mk_node; [auto|]. unfold cls_shape. cbn [with_default m_cls m_default]. rewrite Hcc.
    split; [reflexivity|]. split; [reflexivity|]. exists A, B. split; [destruct (sorted2 A B) as [-> | [-> _]]; auto|auto 10].
  - set (A' := c_ccany genid (Some (id_of A, (lo_of A, hi_of A))) (d0 :: ds) (children A)).
    assert (Hps : noprio (py_sorted id_of args)) by (apply (Forall_perm _ args); [apply Permutation_sym, py_sorted_perm|exact Hp]).
    assert (HA' : cls_inv_g cc A').
    { unfold A'. rewrite HchA. apply cls_inv_ccany; auto. apply (Forall_perm _ args); [apply Permutation_sym, py_sorted_perm|exact Ha]. }
    assert (Hflat : Permutation (cc_flat A') (children B)).
    { unfold A'. rewrite <- A5, HchA. apply cc_flat_ccany; [exact Hps|exact (dflt_ok_perm _ args _ (Permutation_sym (py_sorted_perm id_of args)) Hd)]. }
    assert (Hrep : replace_first_value1 genid (d0 :: ds) (py_sorted id_of [A; B]) = [A'; B] \/ replace_first_value1 genid (d0 :: ds) (py_sorted id_of [A; B]) = [B; A']).
    { destruct (sorted2 A B) as [-> | [-> _]]; cbn [replace_first_value1]; rewrite ?A2, ?A4, ?HvA, ?HvB; cbn [Z.eqb andb negb]; auto. }
    assert (Hpair : ccxor_pair (replace_first_value1 genid (d0 :: ds) (py_sorted id_of [A; B]))).
    { exists A', B. split; [exact Hrep|]. unfold A'. rewrite meta_ccany, is_var_ccany, HmB. cbn [with_default m_cls mk]. auto 10. }
    assert (Hkids : Forall (cls_inv_g cc) (replace_first_value1 genid (d0 :: ds) (py_sorted id_of [A; B]))).
    { destruct Hrep as [-> | ->]; auto. }
    unfold mk_node. change (default_sign 2) with 1.
    destruct o as [[i [lo hi]]|]; apply cls_inv_node; (split; [|exact Hkids]); unfold cls_shape; cbn [with_default m_cls m_default]; rewrite Hcc; auto.
Qed.
Lemma cls_inv_stingy o args : set_len args = Z.of_nat (List.length args) -> Forall (cls_inv_g cc) args -> cls_inv_g cc (c_stingy genid o args).
Proof.
  intros Hl H. apply cls_inv_mk_node; [exact H|]. unfold cls_shape. cbn [mk m_cls]. split; [reflexivity|].
  rewrite Hl. rewrite (Permutation_length (py_sorted_perm id_of args)). reflexivity.
Qed.

Lemma noprio_build l : noprio (map (build genid) l).
Proof. apply Forall_forall. intros x Hx. apply in_map_iff in Hx. destruct Hx as (f & <- & _). apply has_prio_build. Qed.

Lemma jwf_map l : Forall jwf l -> Forall (fun f => jwf f -> (cls_inv_g cc) (build genid f)) l -> Forall (cls_inv_g cc) (map (build genid) l).
Proof. intros Hw IH. induction Hw as [|x xs Hx Hxs IHl]; cbn [map]; constructor; inversion IH; subst; auto. Qed.

Theorem build_cls_inv f : jwf f -> (cls_inv_g cc) (build genid f).
Proof.
  induction f as [i lo hi | o v s l IH | o v l IH | o l IH | o l IH | o l IH | o l IH | o a b IHa IHb | a IHa | o d l IH | o d l IH | o l IH] using form_ind';
    cbn [jwf build]; intros Hw; try (destruct Hw; fail).
  - exact I.
  - apply jwf_list in Hw. apply cls_inv_atleast, jwf_map; auto.
  - apply jwf_list in Hw. apply cls_inv_atmost, jwf_map; auto.
  - destruct Hw as [Hl Hw]. apply jwf_list in Hw. apply cls_inv_all; [rewrite map_length; exact Hl|apply jwf_map; auto].
  - apply jwf_list in Hw. apply cls_inv_any, jwf_map; auto.
  - apply jwf_list in Hw. apply cls_inv_xor, jwf_map; auto.
  - apply jwf_list in Hw. apply cls_inv_xnor, jwf_map; auto.
  - destruct Hw. apply cls_inv_imply; auto.
  - apply cls_inv_not; auto.
  - destruct Hw as [Hc Hw]. apply jwf_list in Hw. apply cls_inv_ccany; [exact Hc|apply jwf_map; auto|apply noprio_build].
  - destruct Hw as (Hc & Hd & Hw). apply jwf_list in Hw. apply cls_inv_ccxor; [exact Hc|apply jwf_map; auto|apply noprio_build|exact Hd].
  - destruct Hw as [Hl Hw]. apply jwf_list in Hw. apply cls_inv_stingy; [rewrite map_length; exact Hl|apply jwf_map; auto].
Qed.

Lemma negate_else m i g lo hi s v ch0 : s = -1 \/ forallb is_var ch0 = true ->
  negate genid (Node m i g lo hi s v ch0) =
  Node m0 (if g then genid (gen_key (py_sorted id_of ch0)) (1 - v) (Some (- s)) else i) g lo hi (- s) (1 - v) (py_sorted id_of ch0).
Proof.
  intros H. cbn [negate]. rewrite pairs_fst.
  assert (E : (s =? 1) && negb (Nat.eqb (List.length (comps (py_sorted id_of ch0))) 0) = false).
  { destruct H as [-> | H]; [reflexivity|]. apply andb_false_iff. right.
    rewrite forallb_var_comps_nil; [reflexivity|]. rewrite (forallb_perm _ _ _ (py_sorted_perm id_of ch0)). exact H. }
  rewrite E. reflexivity.
Qed.

Lemma xnor_flat_set_meta m p : m_cls m <> KXNor -> Forall xnor_flat (children p) -> xnor_flat (set_meta m p).
Proof.
  destruct p as [|m1 i g lo hi s v ch]; [intros; exact I|]. intros Hm Hc. cbn [set_meta]. apply xnor_flat_node. split; [|exact Hc].
  destruct (m_cls m); try exact I. congruence.
Qed.
Lemma xnor_flat_as_comp p : xnor_flat p -> xnor_flat (as_comp genid p).
Proof. intros H. unfold as_comp. destruct (is_var p); [|exact H]. apply xnor_flat_mk_node; [auto|exact I]. Qed.
Lemma xnor_flat_vars l : forallb is_var l = true -> Forall xnor_flat l.
Proof. intros H. apply Forall_forall. intros x Hx. rewrite forallb_forall in H. specialize (H x Hx). destruct x; [exact I|discriminate]. Qed.

Lemma xnor_flat_xnor o args : forallb is_var args = true -> xnor_flat (c_xnor genid o args).
Proof.
  intros Hv. pose proof (xnor_flat_vars _ Hv) as Hf.
  assert (Hvs : forallb is_var (py_sorted id_of args) = true) by (rewrite (forallb_perm _ _ _ (py_sorted_perm id_of args)); exact Hv).
  unfold c_xnor, c_any_m. apply xnor_flat_mk_node.
  - constructor; [apply xnor_flat_negate, xnor_flat_mk_node; [auto|exact I]|constructor; [apply xnor_flat_negate, xnor_flat_mk_node; [auto|exact I]|constructor]].
  - cbn [mk m_cls]. set (a := negate genid (c_atleast genid None 1 None args)). set (b := negate genid (c_atmost genid None 1 args)).
    assert (Ha : sign_of a = -1 /\ value_of a = 0 /\ children a = py_sorted id_of (py_sorted id_of args)).
    { unfold a, c_atleast, mk_node. rewrite negate_else by auto. repeat split; reflexivity. }
    assert (Hb : sign_of b = 1 /\ value_of b = 2 /\ children b = py_sorted id_of (py_sorted id_of args)).
    { unfold b, c_atmost, mk_node. rewrite negate_else by auto. repeat split; reflexivity. }
    destruct Ha as (A1 & A2 & A3). destruct Hb as (B1 & B2 & B3).
    exists a, b. split; [destruct (sorted2 a b) as [-> | [-> _]]; auto|].
    repeat split; auto; [congruence|]. rewrite A3. rewrite (forallb_perm _ _ _ (py_sorted_perm id_of _)). exact Hvs.
Qed.

Lemma xl_map l : Forall xnor_leaves l -> Forall (fun f => xnor_leaves f -> xnor_flat (build genid f)) l -> Forall xnor_flat (map (build genid) l).
Proof. intros Hw IH. induction Hw as [|x xs Hx Hxs IHl]; cbn [map]; constructor; inversion IH; subst; auto. Qed.
Lemma leaves_build_vars l : forallb is_leaf l = true -> forallb is_var (map (build genid) l) = true.
Proof. induction l as [|x xs IH]; cbn [forallb map]; [auto|]. intros H. apply andb_true_iff in H. destruct H as [Hx H]. destruct x; try discriminate. cbn. auto. Qed.

Lemma xnor_flat_ccany o d args : Forall xnor_flat args -> xnor_flat (c_ccany genid o d args).
Proof.
  intros H. unfold c_ccany, c_any_m. destruct d as [|[d0 b] ds]; [apply xnor_flat_mk_node; [auto|exact I]|].
  repeat case_if; apply xnor_flat_mk_node; auto; try exact I.
  apply Forall_app. split; [apply Forall_filter; auto|]. constructor; [|constructor].
  apply xnor_flat_set_meta; [cbn; discriminate|]. unfold c_any, c_any_m. rewrite children_mk_node.
  apply (Forall_perm _ (filter (fun x => negb (matches_default d0 x)) args)); [apply Permutation_sym, py_sorted_perm|apply Forall_filter; auto].
Qed.
Lemma xnor_flat_replace d l : Forall xnor_flat l -> Forall xnor_flat (replace_first_value1 genid d l).
Proof.
  induction 1 as [|x xs Hx Hxs IH]; cbn [replace_first_value1]; [constructor|]. case_if; constructor; auto.
  apply xnor_flat_ccany, xnor_flat_children, Hx.
Qed.

Theorem build_xnor_flat f : xnor_leaves f -> xnor_flat (build genid f).
Proof.
  induction f as [i lo hi | o v s l IH | o v l IH | o l IH | o l IH | o l IH | o l IH | o a b IHa IHb | a IHa | o d l IH | o d l IH | o l IH] using form_ind';
    cbn [xnor_leaves build]; intros Hw.
  - exact I.
  - apply xnor_leaves_list in Hw. apply xnor_flat_mk_node; [apply xl_map; auto|exact I].
  - apply xnor_leaves_list in Hw. apply xnor_flat_mk_node; [apply xl_map; auto|exact I].
  - apply xnor_leaves_list in Hw. apply xnor_flat_mk_node; [apply xl_map; auto|exact I].
  - apply xnor_leaves_list in Hw. apply xnor_flat_mk_node; [apply xl_map; auto|exact I].
  - apply xnor_leaves_list in Hw. pose proof (xl_map l Hw IH) as Hl. unfold c_xor_m, c_all_m. apply xnor_flat_mk_node; [|exact I].
    constructor; [apply xnor_flat_mk_node; auto; exact I|constructor; [apply xnor_flat_mk_node; auto; exact I|constructor]].
  - apply xnor_flat_xnor, leaves_build_vars, Hw.
  - destruct Hw as [Ha Hb]. unfold c_imply. cbv zeta. apply xnor_flat_set_meta; [cbn; discriminate|].
    unfold c_any_m. rewrite children_mk_node. apply (Forall_perm _ [negate genid (as_comp genid (build genid a)); build genid b]); [apply Permutation_sym, py_sorted_perm|].
    constructor; [apply xnor_flat_negate, xnor_flat_as_comp; auto|constructor; auto].
  - unfold c_not. apply xnor_flat_negate, xnor_flat_as_comp; auto.
  - apply xnor_leaves_list in Hw. apply xnor_flat_ccany, xl_map; auto.
  - apply xnor_leaves_list in Hw. pose proof (xl_map l Hw IH) as Hl. unfold c_ccxor.
    assert (Hb : xnor_flat (c_xor_m genid (with_default KCcXor d) o (map (build genid) l))).
    { unfold c_xor_m, c_all_m. apply xnor_flat_mk_node; [|exact I].
      constructor; [apply xnor_flat_mk_node; auto; exact I|constructor; [apply xnor_flat_mk_node; auto; exact I|constructor]]. }
    destruct d; [exact Hb|]. destruct (c_xor_m genid (with_default KCcXor (p :: d)) o (map (build genid) l)) as [|m i g lo hi s v ch] eqn:E; [exact I|].
    apply xnor_flat_node in Hb. apply xnor_flat_node. destruct Hb as [Hb1 Hb2]. split; [|apply xnor_flat_replace, Hb2].
    apply (f_equal meta_of) in E. unfold c_xor_m, c_all_m in E. rewrite meta_mk_node in E. cbn [meta_of] in E. subst m. exact I.
  - apply xnor_leaves_list in Hw. apply xnor_flat_mk_node; [apply xl_map; auto|exact I].
Qed.

(* leaf values within bounds, explicit signs are +-1 *)
Fixpoint fok (env : ident -> Z) (f : form) : Prop :=
  match f with
  | FLeaf i lo hi => lo <= env i <= hi
  | FAtLeast _ _ s l => (s = None \/ s = Some 1 \/ s = Some (-1)) /\
      (fix go l := match l with [] => True | x :: xs => fok env x /\ go xs end) l
  | FAtMost _ _ l | FAny _ l | FXor _ l | FXNor _ l | FAll _ l | FCcAny _ _ l | FCcXor _ _ l | FStingy _ l =>
      (fix go l := match l with [] => True | x :: xs => fok env x /\ go xs end) l
  | FImply _ a b => fok env a /\ fok env b
  | FNot a => fok env a
  end.
Lemma fok_list env l : (fix go l := match l with [] => True | x :: xs => fok env x /\ go xs end) l <-> Forall (fok env) l.
Proof. split; intros H; [induction l as [|x xs IH]; constructor; destruct H; auto | induction H; cbn; auto]. Qed.
Lemma fok_map env l : Forall (fok env) l -> Forall (fun f => fok env f -> ok env (build genid f)) l -> Forall (ok env) (map (build genid) l).
Proof. intros Hw IH. induction Hw as [|x xs Hx Hxs IHl]; cbn [map]; constructor; inversion IH; subst; auto. Qed.
Lemma ok_as_comp env p : ok env p -> ok env (as_comp genid p).
Proof. intros H. unfold as_comp. destruct (is_var p); [|exact H]. apply ok_mk_node; auto. Qed.
Theorem build_ok env f : fok env f -> ok env (build genid f).
Proof.
  induction f as [i lo hi | o v s l IH | o v l IH | o l IH | o l IH | o l IH | o l IH | o a b IHa IHb | a IHa | o d l IH | o d l IH | o l IH] using form_ind';
    cbn [fok build]; intros Hw.
  - exact Hw.
  - destruct Hw as [Hs Hw]. apply fok_list in Hw. apply ok_mk_node; [auto|apply fok_map; auto].
  - apply fok_list in Hw. apply ok_mk_node; [auto|apply fok_map; auto].
  - apply fok_list in Hw. apply ok_mk_node; [auto|apply fok_map; auto].
  - apply fok_list in Hw. apply ok_mk_node; [auto|apply fok_map; auto].
  - apply fok_list in Hw. pose proof (fok_map env l Hw IH) as Hl. unfold c_xor_m, c_all_m. apply ok_mk_node; [auto|].
    constructor; [apply ok_mk_node; auto|constructor; [apply ok_mk_node; auto|constructor]].
  - apply fok_list in Hw. pose proof (fok_map env l Hw IH) as Hl. unfold c_xnor, c_any_m. apply ok_mk_node; [auto|].
    constructor; [apply negate_ok, ok_mk_node; auto|constructor; [apply negate_ok, ok_mk_node; auto|constructor]].
  - destruct Hw as [Ha Hb]. unfold c_imply. cbv zeta. apply ok_set_meta. apply ok_mk_node; [auto|].
    constructor; [apply negate_ok, ok_as_comp; auto|constructor; auto].
  - unfold c_not. apply negate_ok, ok_as_comp; auto.
  - apply fok_list in Hw. apply ok_ccany, fok_map; auto.
  - apply fok_list in Hw. pose proof (fok_map env l Hw IH) as Hl. unfold c_ccxor.
    assert (Hb : ok env (c_xor_m genid (with_default KCcXor d) o (map (build genid) l))).
    { unfold c_xor_m, c_all_m. apply ok_mk_node; [auto|].
      constructor; [apply ok_mk_node; auto|constructor; [apply ok_mk_node; auto|constructor]]. }
    destruct d; [exact Hb|]. destruct (c_xor_m genid (with_default KCcXor (p :: d)) o (map (build genid) l)) as [|m i g lo hi s v ch] eqn:E; [exact Hb|].
    apply ok_node_forall in Hb. apply ok_node_forall. destruct Hb as [Hb1 Hb2]. split; [exact Hb1|apply ok_replace, Hb2].
  - apply fok_list in Hw. apply ok_mk_node; [auto|apply fok_map; auto].
Qed.
End Build.

(* ---------- leaves: ids and bounds ---------- *)
Fixpoint pleaves (p : prop) : list (ident * (Z * Z)) :=
  match p with
  | Var i lo hi => [(i, (lo, hi))]
  | Node _ _ _ _ _ _ _ ch => flat_map pleaves ch
  end.
Definition same_set {A} (l l' : list A) : Prop := forall x, In x l <-> In x l'.

Lemma ss_refl {A} (l : list A) : same_set l l. Proof. intros x. reflexivity. Qed.
Lemma ss_sym {A} (l l' : list A) : same_set l l' -> same_set l' l. Proof. intros H x. symmetry. apply H. Qed.
Lemma ss_trans {A} (a b c : list A) : same_set a b -> same_set b c -> same_set a c.
Proof. intros H1 H2 x. rewrite (H1 x). apply H2. Qed.
Lemma ss_app {A} (a a' b b' : list A) : same_set a a' -> same_set b b' -> same_set (a ++ b) (a' ++ b').
Proof. intros H1 H2 x. rewrite !in_app_iff, (H1 x), (H2 x). reflexivity. Qed.
Lemma ss_perm {A} (l l' : list A) : Permutation l l' -> same_set l l'.
Proof. intros H x. split; apply Permutation_in; [|apply Permutation_sym]; exact H. Qed.
Lemma ss_flat_map {A B} (f g : A -> list B) l : Forall (fun x => same_set (f x) (g x)) l -> same_set (flat_map f l) (flat_map g l).
Proof. induction 1; cbn [flat_map]; [apply ss_refl|apply ss_app; auto]. Qed.
Lemma ss_flat_map_perm {A B} (f : A -> list B) l l' : Permutation l l' -> same_set (flat_map f l) (flat_map f l').
Proof. intros H. apply ss_perm. apply Permutation_flat_map. exact H. Qed.
Lemma ss_dup {A} (l : list A) : same_set (l ++ l) l.
Proof. intros x. rewrite in_app_iff. tauto. Qed.

Lemma ss_app_comm {A} (a b : list A) : same_set (a ++ b) (b ++ a).
Proof. intros x. rewrite !in_app_iff. tauto. Qed.

(* the variables (with bounds) a document mentions *)
Definition jdecl (f : list (string * json)) : option (ident * (Z * Z)) :=
  match alookup "id" f with
  | Some (JStr i) =>
      match alookup "bounds" f with
      | None => Some (i, (0, 1))
      | Some (JObj b) =>
          match alookup "lower" b, alookup "upper" b with
          | Some (JInt lo), Some (JInt hi) => Some (i, (lo, hi))
          | _, _ => None
          end
      | Some _ => None
      end
  | _ => None
  end.
Fixpoint jleaves (n : nat) (j : json) : option (list (ident * (Z * Z))) :=
  match n with
  | O => None
  | S n' =>
    match j with
    | JObj f =>
      let kids := match alookup "propositions" f with
                  | None => Some []
                  | Some (JList l) => match mapM (jleaves n') l with Some ls => Some (concat ls) | None => None end
                  | Some _ => None
                  end in
      let leaf := match jdecl f with Some d => Some [d] | None => None end in
      match alookup "type" f with
      | None => match alookup "propositions" f with Some _ => kids | None => leaf end
      | Some (JStr t) =>
          if String.eqb t "Proposition" || String.eqb t "Variable" || String.eqb t "variable" then leaf
          else if String.eqb t "Not" then
            match alookup "proposition" f with Some jp => jleaves n' jp | None => None end
          else if String.eqb t "Imply" then
            match alookup "condition" f, alookup "consequence" f with
            | Some jc, Some jq => match jleaves n' jc, jleaves n' jq with Some a, Some b => Some (a ++ b) | _, _ => None end
            | _, _ => None
            end
          else kids
      | Some _ => None
      end
    | _ => None
    end
  end.

Section Leaves.
Variable genid : genid_t.
Variable cc : bool.

Lemma leaves_sorted ch : same_set (flat_map pleaves (py_sorted id_of ch)) (flat_map pleaves ch).
Proof. apply ss_flat_map_perm, py_sorted_perm. Qed.

Lemma negate_leaves p : same_set (pleaves (negate genid p)) (pleaves p).
Proof.
  induction p as [i lo hi | m i g lo hi s v ch0 IH] using prop_ind'; [apply ss_refl|].
  cbn [negate]. rewrite pairs_fst. set (ch := py_sorted id_of ch0).
  assert (Hperm : Permutation ch ch0) by apply py_sorted_perm.
  case_if; cbn [pleaves]; [|apply leaves_sorted].
  intros x. rewrite flat_map_app, in_app_iff. rewrite !in_flat_map. split.
  - intros [(r & Hr & Hx) | (r & Hr & Hx)].
    + apply in_flat_map in Hr. destruct Hr as ([c nc] & Hpc & Hr).
      apply (Permutation_in _ (py_sorted_perm pkey _)) in Hpc. apply in_map_iff in Hpc. destruct Hpc as (c' & Heq & Hc'). inversion Heq; subst.
      cbn [fst snd] in Hr. destruct (is_var c) eqn:Ev; [destruct Hr|]. destruct Hr as [<-|[]].
      exists c. split; [exact Hc'|]. rewrite Forall_forall in IH. apply (IH c Hc'). exact Hx.
    + destruct (Nat.eqb (List.length (atoms ch)) 0); [destruct Hr|]. apply in_map_iff in Hr. destruct Hr as (t & <- & _).
      cbn [negate_flat pleaves] in Hx. apply in_flat_map in Hx. destruct Hx as (a & Ha & Hx).
      exists a. split; [|exact Hx]. unfold atoms in Ha. apply filter_In in Ha. apply (Permutation_in _ Hperm). tauto.
  - intros (c & Hc & Hx). destruct (is_var c) eqn:Ev.
    + right. assert (Hin : In c (atoms ch)) by (unfold atoms; apply filter_In; split; [apply (Permutation_in _ (Permutation_sym Hperm)); exact Hc|exact Ev]).
      destruct (atoms ch) as [|a0 ats] eqn:Ea; [destruct Hin|]. cbn [List.length Nat.eqb].
      set (alo := Z.max _ _). set (top := Z.max (alo + 1) _).
      assert (Hn : exists k, Z.to_nat (top - alo) = S k) by (exists (Z.to_nat (top - alo) - 1)%nat; lia). destruct Hn as [k Hk]. rewrite Hk. cbn [zrange map].
      eexists. split; [left; reflexivity|]. cbn [negate_flat pleaves]. apply in_flat_map. exists c. auto.
    + left. exists (negate genid c). split.
      * apply in_flat_map. exists (c, negate genid c). split; [|cbn [fst snd]; rewrite Ev; left; reflexivity].
        apply (Permutation_in _ (Permutation_sym (py_sorted_perm pkey _))). apply in_map_iff. exists c. auto.
      * rewrite Forall_forall in IH. apply (IH c Hc). exact Hx.
Qed.

Lemma jleaves_var_json n i lo hi : jleaves (S n) (var_json i lo hi) = Some [(i, (lo, hi))].
Proof.
  unfold var_json. destruct ((lo =? 0) && (hi =? 1)) eqn:E; cbn [jleaves]; sj; unfold jdecl; sj; [|reflexivity].
  assert (lo = 0 /\ hi = 1) as [-> ->] by lia. reflexivity.
Qed.

Lemma mapM_to_json_leaves n ch js :
  (forall p j, to_json genid n p = Some j -> (cls_inv_g cc) p -> xnor_flat p -> exists L, jleaves n j = Some L /\ same_set L (pleaves p)) ->
  mapM (to_json genid n) ch = Some js -> Forall (cls_inv_g cc) ch -> Forall xnor_flat ch ->
  exists ls, mapM (jleaves n) js = Some ls /\ same_set (concat ls) (flat_map pleaves ch).
Proof.
  intros IH. revert js. induction ch as [|x xs IHl]; intros js H Hc Hx; cbn [mapM] in H.
  - apply some_inj in H. subst js. exists []. split; [reflexivity|apply ss_refl].
  - destruct (to_json genid n x) eqn:E1; [|discriminate]. destruct (mapM (to_json genid n) xs) eqn:E2; [|discriminate].
    apply some_inj in H. subst js. inversion Hc; inversion Hx; subst. cbn [mapM].
    destruct (IH x j E1) as (L & HL & HS); auto. destruct (IHl l eq_refl) as (ls & Hls & HSs); auto.
    rewrite HL, Hls. exists (L :: ls). split; [reflexivity|]. cbn [concat flat_map]. apply ss_app; auto.
Qed.

Lemma leaves_cc_flat m i g lo hi ch :
  (if Nat.eqb (List.length ch) 2 && existsb has_prio ch then ccany_nested ch else True) ->
  same_set (flat_map pleaves (cc_flat (Node m i g lo hi 1 1 ch))) (flat_map pleaves ch).
Proof.
  intros Hs. unfold cc_flat. cbn [children]. destruct (Nat.eqb (List.length ch) 2 && existsb has_prio ch); [|apply ss_refl].
  destruct Hs as (d & q & Hch & Hd & Hq & Hsq & Hvq). destruct q as [|mq iq gq loq hiq sq vq X]; [discriminate|].
  destruct Hch as [-> | ->]; cbn [filter find]; rewrite Hd, Hq; cbn [negb filter find app children]; rewrite ?Hd, ?Hq; cbn [negb app children flat_map pleaves];
    rewrite ?app_nil_r; [apply ss_refl|apply ss_app_comm].
Qed.

Theorem to_json_leaves n : forall p j, to_json genid n p = Some j -> (cls_inv_g cc) p -> xnor_flat p ->
  exists L, jleaves n j = Some L /\ same_set L (pleaves p).
Proof.
  induction n as [|n IH]; intros p j H Hc Hx; [discriminate|].
  destruct p as [i lo hi | m i g lo hi s v ch].
  - cbn [to_json] in H. apply some_inj in H. subst j. rewrite jleaves_var_json. eexists. split; [reflexivity|apply ss_refl].
  - apply cls_inv_node in Hc. destruct Hc as [Hsh Hcc]. apply xnor_flat_node in Hx. destruct Hx as [Hxs Hxc].
    cbn [to_json] in H. unfold cls_shape in Hsh. cbn [pleaves].
    assert (Hbase : forall tn wv ws js, String.eqb tn "Not" = false -> String.eqb tn "Imply" = false ->
              (String.eqb tn "Proposition" || String.eqb tn "Variable" || String.eqb tn "variable") = false ->
              mapM (to_json genid n) ch = Some js ->
              exists L, jleaves (S n) (JObj ([("type", JStr tn); ("propositions", JList js)] ++ wv ++ idf g i ++ ws)) = Some L /\ same_set L (flat_map pleaves ch)).
    { intros tn wv ws js E1 E2 E3 Em. destruct (mapM_to_json_leaves n ch js IH Em Hcc Hxc) as (ls & Hls & HS).
      cbn [jleaves]. sj. rewrite E1, E2, E3, Hls. eauto. }
    assert (HXor : xor_pair ch ->
              match ch with
              | [] => Some (JObj ([("type", JStr "Xor"); ("propositions", JList [])] ++ [] ++ idf g i))
              | c :: _ => match mapM (to_json genid n) (children c) with
                          | Some js => Some (JObj ([("type", JStr "Xor"); ("propositions", JList js)] ++ [] ++ idf g i))
                          | None => None
                          end
              end = Some j -> exists L, jleaves (S n) j = Some L /\ same_set L (flat_map pleaves ch)).
    { intros (a & b & Hch & Hsa & Hva & Hsb & Hvb & Hcab) H0.
      destruct a as [|ma ia ga loa hia sa va X]; [discriminate|]. destruct b as [|mb ib gb lob hib sb vb X']; [discriminate|].
      cbn [sign_of value_of children] in *. subst sa va sb vb X'.
      assert (HinA : In (Node ma ia ga loa hia 1 1 X) ch) by (destruct Hch as [-> | ->]; cbn; auto).
      pose proof Hcc as Hcc'. pose proof Hxc as Hxc'. rewrite Forall_forall in Hcc', Hxc'.
      pose proof (Hcc' _ HinA) as HcA. apply cls_inv_node in HcA. destruct HcA as [_ HcX].
      pose proof (Hxc' _ HinA) as HxA. apply xnor_flat_node in HxA. destruct HxA as [_ HxX].
      assert (Hdoc : exists js, mapM (to_json genid n) X = Some js /\ j = JObj ([("type", JStr "Xor"); ("propositions", JList js)] ++ [] ++ idf g i)).
      { destruct Hch as [-> | ->]; cbn [children] in H0; destruct (mapM (to_json genid n) X) as [js|]; try discriminate; apply some_inj in H0; eauto. }
      destruct Hdoc as (js & Em & ->).
      destruct (mapM_to_json_leaves n X js IH Em HcX HxX) as (ls & Hls & HS).
      exists (concat ls). split; [destruct g; cbn [jleaves]; sj; rewrite Hls; reflexivity|].
      eapply ss_trans; [exact HS|]. apply ss_sym. destruct Hch as [-> | ->]; cbn [flat_map pleaves]; rewrite app_nil_r; apply ss_dup. }
    destruct (m_cls m) eqn:Ec.
    + destruct (mapM (to_json genid n) ch) as [js|] eqn:Em; [|discriminate]. apply some_inj in H. subst j. apply Hbase; auto.
    + destruct (mapM (to_json genid n) ch) as [js|] eqn:Em; [|discriminate]. apply some_inj in H. subst j. apply Hbase; auto.
    + destruct (mapM (to_json genid n) ch) as [js|] eqn:Em; [|discriminate]. apply some_inj in H. subst j. apply Hbase; auto.
    + destruct (mapM (to_json genid n) ch) as [js|] eqn:Em; [|discriminate]. apply some_inj in H. subst j. apply Hbase; auto.
    + (* Imply *) destruct Hsh as (-> & -> & Hlen & Hcond & Hnv).
      destruct (nth_error ch (m_cond m)) as [c|] eqn:Ec1; [|discriminate]. destruct (nth_error ch (1 - m_cond m)) as [q|] eqn:Eq1; [|discriminate].
      destruct (to_json genid n (negate genid c)) as [jc|] eqn:Ejc; [|discriminate]. destruct (to_json genid n q) as [jq|] eqn:Ejq; [|discriminate].
      apply some_inj in H. subst j.
      assert (Hin : In c ch /\ In q ch) by (split; eapply nth_error_In; eauto). destruct Hin as [Hinc Hinq].
      rewrite Forall_forall in Hcc, Hxc.
      destruct (IH _ _ Ejc (cls_inv_negate genid cc c (Hcc c Hinc)) (xnor_flat_negate genid c (Hxc c Hinc))) as (La & HLa & HSa).
      destruct (IH _ _ Ejq (Hcc q Hinq) (Hxc q Hinq)) as (Lb & HLb & HSb).
      pose proof (ss_trans _ _ _ HSa (negate_leaves c)) as HSa'.
      assert (Hev : same_set (pleaves c ++ pleaves q) (flat_map pleaves ch)).
      { destruct ch as [|a [|b [|? ?]]]; try discriminate. cbn [flat_map]. rewrite app_nil_r.
        destruct (m_cond m) as [|[|k]]; cbn [nth_error Nat.sub] in *; try lia; inversion Ec1; inversion Eq1; subst; [apply ss_refl|apply ss_app_comm]. }
      exists (La ++ Lb). split; [destruct g; cbn [jleaves]; sj; rewrite HLa, HLb; reflexivity|].
      eapply ss_trans; [apply ss_app; eassumption|exact Hev].
    + (* Xor *) destruct Hsh as (_ & _ & Hpair). exact (HXor Hpair H).
    + (* XNor *) destruct Hsh as (-> & -> & _). destruct Hxs as (a & b & Hch & Hsa & Hva & Hsb & Hvb & Hcab & Hvars).
      destruct a as [|ma ia ga loa hia sa va X]; [discriminate|]. destruct b as [|mb ib gb lob hib sb vb X']; [discriminate|].
      cbn [sign_of value_of children] in *. subst sa va sb vb X'.
      assert (Hfc : match ch with [] => [] | c :: _ => children (negate genid c) end = py_sorted id_of X).
      { destruct Hch as [-> | ->]; apply children_negate_else; auto. }
      assert (HinA : In (Node ma ia ga loa hia (-1) 0 X) ch) by (destruct Hch as [-> | ->]; cbn; auto).
      rewrite Forall_forall in Hcc, Hxc.
      pose proof (Hcc _ HinA) as HcA. apply cls_inv_node in HcA. destruct HcA as [_ HcX].
      pose proof (Hxc _ HinA) as HxA. apply xnor_flat_node in HxA. destruct HxA as [_ HxX].
      assert (Hp : Permutation X (py_sorted id_of X)) by apply Permutation_sym, py_sorted_perm.
      assert (Hdoc : exists js, mapM (to_json genid n) (py_sorted id_of X) = Some js /\ j = JObj ([("type", JStr "XNor"); ("propositions", JList js)] ++ idf g i)).
      { destruct Hch as [-> | ->]; rewrite Hfc in H; destruct (mapM (to_json genid n) (py_sorted id_of X)) as [js|]; try discriminate; apply some_inj in H; eauto. }
      destruct Hdoc as (js & Em & ->).
      destruct (mapM_to_json_leaves n _ js IH Em (Forall_perm _ _ _ Hp HcX) (Forall_perm _ _ _ Hp HxX)) as (ls & Hls & HS).
      exists (concat ls). split; [destruct g; cbn [jleaves]; sj; rewrite Hls; reflexivity|].
      eapply ss_trans; [exact HS|]. eapply ss_trans; [apply leaves_sorted|].
      apply ss_sym. destruct Hch as [-> | ->]; cbn [flat_map pleaves]; rewrite app_nil_r; apply ss_dup.
    + (* cc.Any *) assert (Hcc1 : cc = true) by (destruct cc; [reflexivity|destruct Hsh]). rewrite Hcc1 in Hsh.
      destruct Hsh as (-> & -> & Hnest).
      set (P := Node m i g lo hi 1 1 ch) in *.
      pose proof (cc_flat_forall _ (cls_inv_children cc) P Hcc) as HcF.
      pose proof (cc_flat_forall _ xnor_flat_children P Hxc) as HxF.
      assert (Hdoc : exists js extra, mapM (to_json genid n) (cc_flat P) = Some js /\ j = JObj (("type", JStr "Any") :: ("propositions", JList js) :: extra)).
      { unfold cc_flat, P. cbn [children]. destruct (Nat.eqb (List.length ch) 2 && existsb has_prio ch).
        - rewrite mapM_app. crack. eexists. eexists. split; reflexivity.
        - crack. eexists. eexists. split; reflexivity. }
      destruct Hdoc as (js & extra & Em & ->).
      destruct (mapM_to_json_leaves n _ js IH Em HcF HxF) as (ls & Hls & HS).
      exists (concat ls). split; [cbn [jleaves]; sj; rewrite Hls; reflexivity|].
      eapply ss_trans; [exact HS|]. apply (leaves_cc_flat m i g lo hi ch Hnest).
    + (* cc.Xor *) assert (Hcc1 : cc = true) by (destruct cc; [reflexivity|destruct Hsh]). rewrite Hcc1 in Hsh.
      destruct Hsh as (-> & -> & Hpair).
      destruct (m_default m) as [|d0 ds] eqn:Ed; [exact (HXor Hpair H)|].
      destruct Hpair as (a & b & Hch & Hca & Hva & Hcb & Hvb & Hvalb & Hperm).
      destruct a as [|ma ia ga loa hia sa va Xa]; [discriminate|]. destruct b as [|mb ib gb lob hib sb vb Xb]; [discriminate|].
      cbn [meta_of value_of children] in *. subst vb.
      assert (HinA : In (Node ma ia ga loa hia sa va Xa) ch /\ In (Node mb ib gb lob hib sb (-1) Xb) ch) by (destruct Hch as [-> | ->]; cbn; auto).
      destruct HinA as [HinA HinB]. rewrite Forall_forall in Hcc, Hxc.
      pose proof (Hcc _ HinB) as HcB. apply cls_inv_node in HcB. destruct HcB as [_ HcX].
      pose proof (Hxc _ HinB) as HxB. apply xnor_flat_node in HxB. destruct HxB as [_ HxX].
      pose proof (Hcc _ HinA) as HcA. apply cls_inv_node in HcA. destruct HcA as [HsA _]. unfold cls_shape in HsA. rewrite Hca, Hcc1 in HsA. destruct HsA as (-> & -> & HnA).
      assert (Hfind : find (fun x => cls_eqb (m_cls (meta_of x)) KAtMost) ch = Some (Node mb ib gb lob hib sb (-1) Xb)).
      { destruct Hch as [-> | ->]; cbn [find meta_of]; rewrite ?Hca, ?Hcb; reflexivity. }
      rewrite Hfind in H. cbn [children] in H. destruct (mapM (to_json genid n) Xb) as [js|] eqn:Em; [|discriminate]. apply some_inj in H. subst j.
      destruct (mapM_to_json_leaves n Xb js IH Em HcX HxX) as (ls & Hls & HS).
      exists (concat ls). split; [destruct g; cbn [jleaves]; sj; rewrite Hls; reflexivity|].
      eapply ss_trans; [exact HS|]. apply ss_sym.
      assert (Ha : same_set (flat_map pleaves Xa) (flat_map pleaves Xb)).
      { eapply ss_trans; [apply ss_sym, (leaves_cc_flat ma ia ga loa hia Xa HnA)|]. apply ss_flat_map_perm. exact Hperm. }
      destruct Hch as [-> | ->]; cbn [flat_map pleaves]; rewrite app_nil_r;
        (eapply ss_trans; [apply ss_app; [first [exact Ha|apply ss_refl]|first [exact Ha|apply ss_refl]]|apply ss_dup]).
    + destruct (mapM (to_json genid n) ch) as [js|] eqn:Em; [|discriminate]. apply some_inj in H. subst j. apply Hbase; auto.
Qed.

Lemma leaves_mk_node m v args o sarg : same_set (pleaves (mk_node genid m v args o sarg)) (flat_map pleaves args).
Proof. unfold mk_node. destruct o as [[i [lo hi]]|]; cbn [pleaves]; apply leaves_sorted. Qed.
Lemma leaves_set_meta m p : pleaves (set_meta m p) = pleaves p.
Proof. destruct p; reflexivity. Qed.
Lemma leaves_node p : is_var p = false -> pleaves p = flat_map pleaves (children p).
Proof. destruct p; [discriminate|reflexivity]. Qed.
Lemma leaves_xor_m m o args : same_set (pleaves (c_xor_m genid m o args)) (flat_map pleaves args).
Proof.
  unfold c_xor_m, c_all_m. eapply ss_trans; [apply leaves_mk_node|]. cbn [flat_map]. rewrite app_nil_r.
  eapply ss_trans; [apply ss_app; apply leaves_mk_node|apply ss_dup].
Qed.
Lemma leaves_xnor o args : same_set (pleaves (c_xnor genid o args)) (flat_map pleaves args).
Proof.
  unfold c_xnor, c_any_m. eapply ss_trans; [apply leaves_mk_node|]. cbn [flat_map]. rewrite app_nil_r.
  eapply ss_trans; [apply ss_app; (eapply ss_trans; [apply negate_leaves|apply leaves_mk_node])|apply ss_dup].
Qed.
Lemma leaves_as_comp p : same_set (pleaves (as_comp genid p)) (pleaves p).
Proof. unfold as_comp. destruct (is_var p); [|apply ss_refl]. eapply ss_trans; [apply leaves_mk_node|]. cbn [flat_map]. rewrite app_nil_r. apply ss_refl. Qed.
Lemma leaves_not p : same_set (pleaves (c_not genid p)) (pleaves p).
Proof. unfold c_not. eapply ss_trans; [apply negate_leaves|apply leaves_as_comp]. Qed.
Lemma leaves_imply o c q : same_set (pleaves (c_imply genid o c q)) (pleaves c ++ pleaves q).
Proof.
  unfold c_imply. cbv zeta. rewrite leaves_set_meta. unfold c_any_m. eapply ss_trans; [apply leaves_mk_node|]. cbn [flat_map]. rewrite app_nil_r.
  apply ss_app; [apply leaves_not|apply ss_refl].
Qed.
Lemma ss_filter_split {A B} (f : A -> list B) (t : A -> bool) l :
  same_set (flat_map f (filter t l) ++ flat_map f (filter (fun x => negb (t x)) l)) (flat_map f l).
Proof.
  intros x. rewrite in_app_iff, !in_flat_map. split.
  - intros [(a & Ha & Hx) | (a & Ha & Hx)]; apply filter_In in Ha; exists a; tauto.
  - intros (a & Ha & Hx). destruct (t a) eqn:E; [left|right]; exists a; (split; [apply filter_In; rewrite ?E; auto|exact Hx]).
Qed.
Lemma leaves_ccany o d args : same_set (pleaves (c_ccany genid o d args)) (flat_map pleaves args).
Proof.
  unfold c_ccany, c_any_m. destruct d as [|[d0 b] ds]; [apply leaves_mk_node|].
  repeat case_if; try apply leaves_mk_node.
  eapply ss_trans; [apply leaves_mk_node|]. rewrite flat_map_app. cbn [flat_map]. rewrite app_nil_r, leaves_set_meta.
  eapply ss_trans; [apply ss_app; [apply ss_refl|apply leaves_mk_node]|]. apply ss_filter_split.
Qed.
Lemma leaves_replace d l : same_set (flat_map pleaves (replace_first_value1 genid d l)) (flat_map pleaves l).
Proof.
  induction l as [|x xs IH]; cbn [replace_first_value1]; [apply ss_refl|]. case_if; cbn [flat_map]; [|apply ss_app; [apply ss_refl|exact IH]].
  apply ss_app; [|apply ss_refl]. eapply ss_trans; [apply leaves_ccany|]. rewrite leaves_node; [apply ss_refl|]. destruct (is_var x); [|reflexivity].
  rewrite andb_false_r in *. discriminate.
Qed.
Lemma leaves_ccxor o d args : same_set (pleaves (c_ccxor genid o d args)) (flat_map pleaves args).
Proof.
  unfold c_ccxor. pose proof (leaves_xor_m (with_default KCcXor d) o args) as Hb. destruct d; [exact Hb|].
  destruct (c_xor_m genid (with_default KCcXor (p :: d)) o args) as [|m i g lo hi s v ch]; [exact Hb|].
  cbn [pleaves] in *. eapply ss_trans; [apply leaves_replace|exact Hb].
Qed.

Lemma mapM_from_json_leaves cfg n m l ps ls :
  (forall m j p' L, from_json genid cfg n j = Some p' -> jleaves m j = Some L -> same_set (pleaves p') L) ->
  mapM (from_json genid cfg n) l = Some ps -> mapM (jleaves m) l = Some ls -> same_set (flat_map pleaves ps) (concat ls).
Proof.
  intros IH. revert ps ls. induction l as [|x xs IHl]; intros ps ls H1 H2; cbn [mapM] in *.
  - apply some_inj in H1. apply some_inj in H2. subst. apply ss_refl.
  - destruct (from_json genid cfg n x) eqn:E1; [|discriminate]. destruct (mapM (from_json genid cfg n) xs) eqn:E2; [|discriminate].
    destruct (jleaves m x) eqn:E3; [|discriminate]. destruct (mapM (jleaves m) xs) eqn:E4; [|discriminate].
    apply some_inj in H1. apply some_inj in H2. subst. cbn [flat_map concat]. apply ss_app; eauto.
Qed.

Lemma var_of_json_leaves f p' L : var_of_json f = Some p' -> match jdecl f with Some d => Some [d] | None => None end = Some L -> pleaves p' = L.
Proof. unfold var_of_json, jdecl, jget. intros H1 H2. crack; reflexivity. Qed.

Theorem from_json_leaves cfg n : forall m j p' L,
  from_json genid cfg n j = Some p' -> jleaves m j = Some L -> same_set (pleaves p') L.
Proof.
  induction n as [|n IH]; intros m j p' L H1 H2; [discriminate|].
  destruct m as [|m]; [discriminate|]. destruct j as [| | |f]; try discriminate.
  cbn [from_json jleaves] in *. unfold jget in *.
  remember (match alookup "propositions" f with | Some (JList l) => mapM (from_json genid cfg n) l | None => Some [] | Some _ => None end) as props eqn:Eprops.
  remember (match alookup "propositions" f with | Some (JList l) => match mapM (jleaves m) l with Some ls => Some (concat ls) | None => None end | None => Some [] | Some _ => None end) as kids eqn:Ekids.
  assert (HP : forall ps K, props = Some ps -> kids = Some K -> same_set (flat_map pleaves ps) K).
  { intros ps K E1 E2. subst props kids. destruct (alookup "propositions" f) as [[| |l|]|]; try discriminate.
    - destruct (mapM (jleaves m) l) as [ls|] eqn:E3; [|discriminate]. apply some_inj in E2. subst K. eapply mapM_from_json_leaves; eauto.
    - apply some_inj in E1. apply some_inj in E2. subst. apply ss_refl. }
  clear Eprops Ekids.
  destruct (alookup "type" f) as [[z|t|lj|fo]|] eqn:Et; try discriminate.
  - destruct (String.eqb t "Proposition" || String.eqb t "Variable" || String.eqb t "variable") eqn:E0.
    { rewrite (var_of_json_leaves f p' L H1 H2). apply ss_refl. }
    destruct (String.eqb t "Not") eqn:E7.
    { apply String.eqb_eq in E7. subst t. sj_in H1. crack. eapply ss_trans; [apply leaves_not|]. eauto. }
    destruct (String.eqb t "Imply") eqn:E8.
    { apply String.eqb_eq in E8. subst t. sj_in H1. crack. eapply ss_trans; [apply leaves_imply|]. apply ss_app; eauto. }
    destruct (String.eqb t "AtLeast") eqn:E1.
    { crack; (eapply ss_trans; [apply leaves_mk_node|]); apply HP; auto. }
    destruct (String.eqb t "AtMost") eqn:E2.
    { crack; (eapply ss_trans; [apply leaves_mk_node|]); apply HP; auto. }
    destruct (String.eqb t "All") eqn:E3.
    { crack; (eapply ss_trans; [apply leaves_mk_node|]); apply HP; auto. }
    destruct (String.eqb t "Any") eqn:E4.
    { destruct cfg; crack; (eapply ss_trans; [first [apply leaves_ccany|apply leaves_mk_node]|]); apply HP; auto. }
    destruct (String.eqb t "Xor" || negb cfg && String.eqb t "ExactlyOne") eqn:E5.
    { destruct cfg; crack; (eapply ss_trans; [first [apply leaves_ccxor|apply leaves_xor_m]|]); apply HP; auto. }
    destruct (String.eqb t "XNor") eqn:E6; [|discriminate].
    { crack; (eapply ss_trans; [apply leaves_xnor|]); apply HP; auto. }
  - destruct (alookup "propositions" f) as [jp|] eqn:Ep; [|rewrite (var_of_json_leaves f p' L H1 H2); apply ss_refl].
    crack; (eapply ss_trans; [apply leaves_mk_node|]); apply HP; auto.
Qed.

(* round trip: same leaf variables with the same bounds *)
Theorem roundtrip_leaves cfg n n' p j p' :
  to_json genid n p = Some j -> from_json genid cfg n' j = Some p' -> (cls_inv_g cc) p -> xnor_flat p ->
  forall x, In x (pleaves p') <-> In x (pleaves p).
Proof.
  intros H1 H2 Hc Hx. destruct (to_json_leaves n p j H1 Hc Hx) as (L & HL & HS).
  exact (ss_trans _ _ _ (from_json_leaves cfg n' n j p' L H2 HL) HS).
Qed.
End Leaves.

(* ---------- round trip of ids ---------- *)
Section Ids.
Variable genid : genid_t.
Lemma id_mk_node_explicit m v args i b sarg : id_of (mk_node genid m v args (Some (i, b)) sarg) = i /\ gen_of (mk_node genid m v args (Some (i, b)) sarg) = false.
Proof. destruct b. split; reflexivity. Qed.
Lemma gen_mk_node_none m v args sarg : gen_of (mk_node genid m v args None sarg) = true.
Proof. reflexivity. Qed.
Lemma id_set_meta m p : id_of (set_meta m p) = id_of p /\ gen_of (set_meta m p) = gen_of p.
Proof. destruct p; split; reflexivity. Qed.

Theorem roundtrip_id n n' p j p' :
  to_json genid n p = Some j -> from_json genid false n' j = Some p' ->
  gen_of p' = gen_of p /\ (gen_of p = false -> id_of p' = id_of p).
Proof.
  intros H1 H2. destruct n as [|n]; [discriminate|]. destruct n' as [|n']; [discriminate|].
  destruct p as [i lo hi | m i g lo hi s v ch]; cbn [to_json gen_of id_of] in *.
  - apply some_inj in H1. subst j. unfold var_json in H2. destruct ((lo =? 0) && (hi =? 1)); cbn [from_json] in H2; unfold jget, var_of_json, jget in H2; sj_in H2; crack; auto.
  - destruct (m_cls m); crack; destruct g; destruct (negb (s =? default_sign v)) eqn:Es; cbn [idf app andb] in H2; cbn [from_json] in H2; unfold jid, jget in H2; sj_in H2;
      crack; try discriminate;
      cbv beta iota zeta delta [c_atleast c_atmost c_all c_any c_all_m c_any_m c_xor_m c_xnor c_imply c_stingy mk_node set_meta gen_of id_of];
      (split; [reflexivity|intros; try reflexivity; try discriminate]).
Qed.
End Ids.

(* ---------- configurators ---------- *)
(* guard for StingyConfigurator.from_json: as all_unmerged, for the rules and for the top-level All *)
Definition stingy_unmerged (genid : genid_t) (n : nat) (j : json) : bool :=
  match j with
  | JObj f =>
      match alookup "propositions" f with
      | Some (JList l) =>
          forallb (all_unmerged genid true n) l &&
          match mapM (from_json genid true n) l with
          | Some ps => set_len ps =? Z.of_nat (List.length ps)
          | None => true
          end
      | _ => true
      end
  | _ => true
  end.

Section Cfg.
Variable genid : genid_t.
Variable env : ident -> Z.
Hypothesis Hn : forall i : ident, 0 <= env i.

(* a rule of a configurator: class map of StingyConfigurator.from_json *)
Theorem roundtrip_sem_cfg n n' p j p' :
  to_json genid n p = Some j -> from_json genid true n' j = Some p' ->
  cls_inv_g true p -> xnor_flat p -> ok env p -> all_unmerged genid true n' j = true ->
  eval env p' = eval env p /\ ok env p'.
Proof.
  intros H1 H2 Hc Hx Ho Hg. pose proof (to_json_sem genid true env (fun _ => Hn) n p j H1 Hc Hx Ho) as Hs.
  destruct (from_json_sem genid env true (fun _ => Hn) n' n j p' _ H2 Hs Hg) as (E & O & _). auto.
Qed.

Theorem stingy_from_json_sem n m f p' v :
  stingy_from_json genid n (JObj f) = Some p' -> jsem env (S m) (JObj f) = Some v ->
  alookup "type" f = Some (JStr "StingyConfigurator") -> stingy_unmerged genid n (JObj f) = true ->
  eval env p' = v /\ ok env p'.
Proof.
  intros H1 H2 Ht H3. unfold stingy_from_json, jget in H1. cbn [jsem] in H2. rewrite Ht in H2. sj_in H2. cbn [stingy_unmerged] in H3.
  assert (HP : exists ps o, p' = c_stingy genid o ps /\ v = b2z (Z.of_nat (List.length ps) <=? zsum (map (eval env) ps)) /\ Forall (ok env) ps /\ set_len ps = Z.of_nat (List.length ps)).
  { destruct (alookup "propositions" f) as [[| |l|]|]; try discriminate.
    - apply andb_true_iff in H3. destruct H3 as [H3 H4]. crack.
      match goal with A : mapM (from_json genid true n) l = Some _, B : mapM (jsem env m) l = Some _ |- _ =>
        destruct (mapM_from_json_sem genid env true n m l _ _ (fun m j p' v => from_json_sem genid env true (fun _ => Hn) n m j p' v) A B H3) as [-> Hok] end.
      eexists. eexists. split; [reflexivity|]. rewrite map_length. split; [reflexivity|]. split; [exact Hok|lia].
    - crack. exists [], o. repeat split; constructor. }
  destruct HP as (ps & o & -> & -> & Hok & Hlen). destruct (sem_all_m genid env (mk KStingy) o ps Hlen Hok) as (E & O & _). unfold c_stingy. auto.
Qed.

Theorem roundtrip_stingy n n' m i g lo hi s v ch j p' : m_cls m = KStingy ->
  to_json genid n (Node m i g lo hi s v ch) = Some j -> stingy_from_json genid n' j = Some p' ->
  cls_inv_g true (Node m i g lo hi s v ch) -> xnor_flat (Node m i g lo hi s v ch) -> ok env (Node m i g lo hi s v ch) ->
  stingy_unmerged genid n' j = true ->
  eval env p' = eval env (Node m i g lo hi s v ch) /\ ok env p'.
Proof.
  intros Ec H1 H2 Hc Hx Ho Hg. pose proof (to_json_sem genid true env (fun _ => Hn) n _ j H1 Hc Hx Ho) as Hs.
  destruct n as [|n]; [discriminate|]. cbn [to_json] in H1. rewrite Ec in H1. crack.
  eapply stingy_from_json_sem; eauto.
Qed.
End Cfg.

Section CfgLeaves.
Variable genid : genid_t.
Theorem stingy_from_json_leaves n m f p' L :
  stingy_from_json genid n (JObj f) = Some p' -> jleaves (S m) (JObj f) = Some L ->
  alookup "type" f = Some (JStr "StingyConfigurator") -> same_set (pleaves p') L.
Proof.
  intros H1 H2 Ht. unfold stingy_from_json, jget in H1. cbn [jleaves] in H2. rewrite Ht in H2. sj_in H2.
  destruct (alookup "propositions" f) as [[| |l|]|]; try discriminate.
  - crack. unfold c_stingy, c_all_m. eapply ss_trans; [apply leaves_mk_node|].
    match goal with A : mapM (from_json genid true n) l = Some _, B : mapM (jleaves m) l = Some _ |- _ =>
      exact (mapM_from_json_leaves genid true n m l _ _ (from_json_leaves genid true n) A B) end.
  - crack. unfold c_stingy, c_all_m. eapply ss_trans; [apply leaves_mk_node|]. apply ss_refl.
Qed.
Theorem roundtrip_stingy_leaves n n' m i g lo hi s v ch j p' : m_cls m = KStingy ->
  to_json genid n (Node m i g lo hi s v ch) = Some j -> stingy_from_json genid n' j = Some p' ->
  cls_inv_g true (Node m i g lo hi s v ch) -> xnor_flat (Node m i g lo hi s v ch) ->
  forall x, In x (pleaves p') <-> In x (pleaves (Node m i g lo hi s v ch)).
Proof.
  intros Ec H1 H2 Hc Hx. destruct (to_json_leaves genid true n _ j H1 Hc Hx) as (L & HL & HS).
  destruct n as [|n]; [discriminate|]. cbn [to_json] in H1. rewrite Ec in H1. crack.
  eapply ss_trans; [|exact HS]. eapply stingy_from_json_leaves; eauto.
Qed.
End CfgLeaves.

(* ---------- defaults are kept ---------- *)
Section Dflt.
Variable genid : genid_t.
Definition dflt_valid (d : dflt_t) : Prop := Forall (fun e => fst (snd e) <= snd (snd e)) d.

Lemma dflt_roundtrip d : dflt_valid d -> dflt_of_json (Some (dflt_json d)) = Some d.
Proof.
  unfold dflt_of_json, dflt_json. induction 1 as [|[i [lo hi]] ds Hx Hxs IH]; cbn [map mapM]; [reflexivity|].
  rewrite IH. cbn [fst snd] in *. unfold var_json, var_of_json, jget.
  destruct ((lo =? 0) && (hi =? 1)) eqn:E; sj.
  - assert (lo = 0 /\ hi = 1) as [-> ->] by lia. reflexivity.
  - assert ((lo <=? hi) = true) as -> by lia. reflexivity.
Qed.

Theorem roundtrip_default n n' m i g lo hi s v ch j p' : m_cls m = KCcAny \/ m_cls m = KCcXor -> dflt_valid (m_default m) ->
  to_json genid n (Node m i g lo hi s v ch) = Some j -> from_json genid true n' j = Some p' ->
  m_default (meta_of p') = m_default m.
Proof.
  intros Ec Hd H1 H2. pose proof (dflt_roundtrip _ Hd) as Hr.
  destruct n as [|n]; [discriminate|]. destruct n' as [|n']; [discriminate|]. cbn [to_json] in H1.
  destruct Ec as [Ec | Ec]; rewrite Ec in H1.
  - crack; destruct g; try (destruct (negb (s =? default_sign v)) eqn:Es); cbn [idf app andb] in H2; cbn [from_json] in H2; unfold jid, jget in H2; sj_in H2;
      rewrite Hr in H2; destruct (m_default m) eqn:Em; crack; try rewrite meta_ccany; unfold c_any, c_any_m; try rewrite meta_mk_node; reflexivity.
  - destruct (m_default m) eqn:Em; crack; destruct g; cbn [idf app andb] in H2; cbn [from_json] in H2; unfold jid, jget in H2; sj_in H2;
      try rewrite Hr in H2; cbn [dflt_of_json] in H2; crack; rewrite meta_ccxor; reflexivity.
Qed.
End Dflt.

(* the round trip of a whole configurator built by the constructors *)
Section CfgBuild.
Variable genid : genid_t.
Variable env : ident -> Z.
Hypothesis Hn : forall i : ident, 0 <= env i.
Theorem roundtrip_stingy_build n n' o l j p' :
  jwf genid true (FStingy o l) -> xnor_leaves (FStingy o l) -> fok env (FStingy o l) ->
  to_json genid n (build genid (FStingy o l)) = Some j -> stingy_from_json genid n' j = Some p' ->
  stingy_unmerged genid n' j = true ->
  eval env p' = eval env (build genid (FStingy o l)) /\
  (forall x, In x (pleaves p') <-> In x (pleaves (build genid (FStingy o l)))).
Proof.
  intros Hw Hx Ho H1 H2 Hg.
  pose proof (build_cls_inv genid true _ Hw) as Sc. pose proof (build_xnor_flat genid _ Hx) as Sx. pose proof (build_ok genid env _ Ho) as So.
  cbn [build] in *. unfold c_stingy, c_all_m, mk_node in *.
  destruct o as [[i [lo hi]]|]; (split; [exact (proj1 (roundtrip_stingy genid env Hn n n' (mk KStingy) _ _ _ _ _ _ _ j p' eq_refl H1 H2 Sc Sx So Hg))
                                        |exact (roundtrip_stingy_leaves genid n n' (mk KStingy) _ _ _ _ _ _ _ j p' eq_refl H1 H2 Sc Sx)]).
Qed.
End CfgBuild.

(* ids through the round trip, both class maps, and for the configurator itself *)
Section Ids2.
Variable genid : genid_t.
Lemma idgen_ccany o d ps : gen_of (c_ccany genid o d ps) = (match o with None => true | Some _ => false end) /\
  (forall i b, o = Some (i, b) -> id_of (c_ccany genid o d ps) = i).
Proof.
  destruct o as [[i [lo hi]]|]; unfold c_ccany, c_any_m; destruct d as [|[d0 b0] ds]; repeat case_if; unfold mk_node; (split; [reflexivity|intros ? ? E; inversion E; reflexivity]).
Qed.
Lemma idgen_ccxor o d ps : gen_of (c_ccxor genid o d ps) = (match o with None => true | Some _ => false end) /\
  (forall i b, o = Some (i, b) -> id_of (c_ccxor genid o d ps) = i).
Proof.
  destruct o as [[i [lo hi]]|]; unfold c_ccxor, c_xor_m, c_all_m, mk_node; destruct d; (split; [reflexivity|intros ? ? E; inversion E; reflexivity]).
Qed.

Theorem roundtrip_id_g cfg n n' p j p' :
  to_json genid n p = Some j -> from_json genid cfg n' j = Some p' ->
  gen_of p' = gen_of p /\ (gen_of p = false -> id_of p' = id_of p).
Proof.
  intros H1 H2. destruct n as [|n]; [discriminate|]. destruct n' as [|n']; [discriminate|].
  destruct p as [i lo hi | m i g lo hi s v ch]; cbn [to_json gen_of id_of] in *.
  - apply some_inj in H1. subst j. unfold var_json in H2. destruct ((lo =? 0) && (hi =? 1)); cbn [from_json] in H2; unfold jget, var_of_json, jget in H2; sj_in H2; crack; auto.
  - destruct (m_cls m); crack; destruct g; destruct (negb (s =? default_sign v)) eqn:Es; cbn [idf app andb] in H2; cbn [from_json] in H2; unfold jid, jget in H2; sj_in H2;
      destruct cfg; sj_in H2; crack; try discriminate;
      try (match goal with |- context [c_ccany genid ?o ?d ?ps] => destruct (idgen_ccany o d ps) as [G I]; rewrite G; split; [reflexivity|intros; try discriminate; eapply I; reflexivity] end);
      try (match goal with |- context [c_ccxor genid ?o ?d ?ps] => destruct (idgen_ccxor o d ps) as [G I]; rewrite G; split; [reflexivity|intros; try discriminate; eapply I; reflexivity] end);
      cbv beta iota zeta delta [c_atleast c_atmost c_all c_any c_all_m c_any_m c_xor_m c_xnor c_imply c_stingy mk_node set_meta gen_of id_of];
      (split; [reflexivity|intros; try reflexivity; try discriminate]).
Qed.

Theorem roundtrip_id_stingy n n' m i g lo hi s v ch j p' : m_cls m = KStingy ->
  to_json genid n (Node m i g lo hi s v ch) = Some j -> stingy_from_json genid n' j = Some p' ->
  gen_of p' = g /\ (g = false -> id_of p' = i).
Proof.
  intros Ec H1 H2. destruct n as [|n]; [discriminate|]. cbn [to_json] in H1. rewrite Ec in H1. crack.
  destruct g; destruct (negb (s =? default_sign v)) eqn:Es; cbn [idf app andb] in H2; unfold stingy_from_json, jid, jget in H2; sj_in H2; crack;
    cbv beta iota zeta delta [c_all_m c_stingy mk_node gen_of id_of]; (split; [reflexivity|intros; try reflexivity; try discriminate]).
Qed.
End Ids2.
