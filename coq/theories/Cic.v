(* Cic.v — executable model of Imply.from_cicJE (the rule-dictionary constructor): a rule document
   is translated to a constructor tree (Cons.form) and built with the ordinary constructors.
   Components are boolean variables (the default cmp2prop).  No proofs here. *)
Require Import Puan.Base Puan.Plog Puan.Cons.

Inductive rule_t := REQUIRES_ALL | REQUIRES_ANY | ONE_OR_NONE | FORBIDS_ALL | REQUIRES_EXCLUSIVELY.
Record subcond := mkSub { s_all : bool; s_comps : list ident; s_id : option ident }.
Record cic := mkCic {
  c_id : option ident;
  c_has_cond : bool; c_all : bool; c_cond_id : option ident; c_subs : list subcond;
  c_rule : rule_t; c_comps : list ident; c_cons_id : option ident }.

Definition oid_of (i : option ident) : oid_t := match i with Some x => Some (x, (0, 1)) | None => None end.
Definition leaves (l : list ident) : list form := map (fun i => FLeaf i 0 1) l.
Definition rel (all : bool) (o : oid_t) (l : list form) : form := if all then FAll o l else FAny o l.

Definition cons_form (d : cic) : form :=
  let o := oid_of (c_cons_id d) in let l := leaves (c_comps d) in
  match c_rule d with
  | REQUIRES_ALL => FAll o l
  | REQUIRES_ANY => FAny o l
  | ONE_OR_NONE => FAtMost o 1 l
  | FORBIDS_ALL => FNot (FAny o l)
  | REQUIRES_EXCLUSIVELY => FXor o l
  end.
Definition form_of_cic (d : cic) : form :=
  if c_has_cond d then
    match map (fun s => rel (s_all s) (oid_of (s_id s)) (leaves (s_comps s))) (c_subs d) with
    | [] => cons_form d
    | [one] => FImply (oid_of (c_id d)) one (cons_form d)
    | inner => FImply (oid_of (c_id d)) (rel (c_all d) (oid_of (c_cond_id d)) inner) (cons_form d)
    end
  else cons_form d.
Definition from_cic (genid : genid_t) (d : cic) : prop := build genid (form_of_cic d).
