(* Validated.v — composition: what validation (C10) establishes is what the semantic theorems
   (C01, C02, C03, C07) assume.  `validated m` = errors() returned nothing and the two guards that
   delimit findings D4 / D12 hold. *)
Require Import Puan.Base Puan.Plog Puan.Sem Puan.SemFacts Puan.AssumeFacts Puan.EncodeFacts
               Puan.Errors Puan.ErrorsSpec Puan.ErrorsFacts.

Definition validated (m : prop) : Prop :=
  errors2 m = [] /\ no_bounds_hash_collision m /\ no_value_hash_collision m.
(* occurrences of one id agree on whether the id was generated (an explicitly given id that
   repeats a generated one is the only way to violate this) *)
Definition gen_coherent (m : prop) : Prop :=
  forall a b, In a (nodes m) -> In b (nodes m) -> id_of a = id_of b -> gen_of a = gen_of b.

Lemma erase_id a b : erase a = erase b -> id_of a = id_of b.
Proof. destruct a, b; cbn [erase id_of]; intros H; inversion H; reflexivity. Qed.

Lemma erase_core a : forall b, erase a = erase b ->
  (forall x y, In x (nodes a) -> In y (nodes b) -> id_of x = id_of y -> gen_of x = gen_of y) ->
  core_eqb a b = true.
Proof.
  induction a as [i lo hi | m i g lo hi s v ch IH] using prop_ind'; intros [j lo' hi' | m' j g' lo' hi' s' v' ch'] He Hg;
    cbn [erase] in He; try discriminate; inversion He; subst; cbn [core_eqb].
  - rewrite String.eqb_refl, !Z.eqb_refl. reflexivity.
  - assert (Hgg : g = g').
    { apply (Hg (Node m j g lo' hi' s' v' ch) (Node m' j g' lo' hi' s' v' ch')); try apply in_nodes_self; reflexivity. }
    subst g'. rewrite String.eqb_refl, Bool.eqb_reflx, !Z.eqb_refl. cbn [andb].
    assert (Hch : forall l l', map erase l = map erase l' -> Forall (fun c => forall b, erase c = erase b ->
                (forall x y, In x (nodes c) -> In y (nodes b) -> id_of x = id_of y -> gen_of x = gen_of y) -> core_eqb c b = true) l ->
              (forall c c', In c l -> In c' l' -> forall x y, In x (nodes c) -> In y (nodes c') -> id_of x = id_of y -> gen_of x = gen_of y) ->
              (fix go (l l' : list prop) : bool := match l, l' with [] , [] => true | x :: xs, y :: ys => core_eqb x y && go xs ys | _, _ => false end) l l' = true).
    { induction l as [|x xs IHl]; intros [|y ys] Hm Hall Hgen; try discriminate; [reflexivity|].
      cbn [map] in Hm. inversion Hm. inversion Hall; subst. apply andb_true_iff. split.
      - apply H3; auto. intros p q Hp Hq. apply (Hgen x y); cbn; auto.
      - apply IHl; auto. intros c c' Hc Hc'. apply Hgen; cbn; auto. }
    apply Hch; auto. intros c c' Hc Hc' x y Hx Hy. apply Hg.
    + eapply in_nodes_child; eauto.
    + eapply in_nodes_child; eauto.
Qed.

(* validation + no by-id references to sub-propositions => every id has a single definition *)
Theorem validated_single_def m : validated m -> leaves_apart m -> gen_coherent m -> single_def m.
Proof.
  intros (He & Hb & Hv) Hla Hgc a b Ha Hb' Hid.
  destruct (sound_partial m Hb Hv He) as (_ & _ & Hod). destruct (Hod a b Ha Hb' Hid) as [[Hlo Hhi] Hdef].
  destruct (is_var a) eqn:Ea; destruct (is_var b) eqn:Eb.
  - destruct a as [i lo hi|]; [|discriminate]. destruct b as [j lo2 hi2|]; [|discriminate].
    cbn [id_of lo_of hi_of] in *. subst. cbn [core_eqb]. rewrite String.eqb_refl, !Z.eqb_refl. reflexivity.
  - exfalso. exact (Hla a b Ha Hb' Ea Eb Hid).
  - exfalso. apply (Hla b a Hb' Ha Eb Ea). symmetry. exact Hid.
  - apply erase_core; [apply Hdef; reflexivity|]. intros x y Hx Hy. apply Hgc; [exact (nodes_trans m a x Ha Hx) | exact (nodes_trans m b y Hb' Hy)].
Qed.

(* ---------- the semantic theorems, stated from validation ---------- *)
Section V.
Variable m : prop.
Hypothesis Hval : validated m.
Hypothesis Hla : leaves_apart m.       (* no by-id leaf references to sub-propositions (DESIGN 3.6) *)
Hypothesis Hgc : gen_coherent m.

(* C01 *)
Theorem validated_encoding_agrees env : plain_inb env m -> is_var m = false ->
  (Forall (sat (extend env m)) (encode true m) <-> eval env m = 1) /\ Forall (sat (extend env m)) (encode false m).
Proof. apply encode_agrees; auto. apply validated_single_def; auto. Qed.
(* C02 completeness *)
Theorem validated_complete env : plain_inb env m -> is_var m = false -> eval env m = 1 ->
  exists x, inb x m /\ (forall q, In q (nodes m) -> is_var q = true -> x (id_of q) = env (id_of q)) /\ Forall (sat x) (encode true m).
Proof. apply encode_complete; auto. apply validated_single_def; auto. Qed.
(* C03 *)
Theorem validated_evaluate d env : ok_signs m = true -> agrees d env m -> evaluate d m = Some (eval env m, eval env m).
Proof. intros. apply evaluate_point; auto. apply validated_single_def; auto. Qed.
(* what validation itself gives (C10): acyclic, no repeated child, one definition per id *)
Theorem validated_well_defined : well_defined m.
Proof. destruct Hval as (He & Hb & Hv). apply sound_partial; auto. Qed.
End V.
