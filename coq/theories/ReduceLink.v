(* ReduceLink.v — C08 composed with C07: "possibly after assumptions".  The reduction of an assumed
   model evaluates, on every environment of the still-free leaves, to what the ORIGINAL model
   evaluates to under the assumption (Sem.eval_d): reduce (assume d p) means p under d. *)
Require Import Puan.Base Puan.Plog Puan.Sem Puan.SemFacts Puan.AssumeFacts Puan.NegateFacts Puan.ReduceFacts.

(* eval_c (fixed variables stand for their constants) is eval_d under the empty interpretation *)
Lemma eval_c_eval_d env p : eval_c env p = eval_d [] env p.
Proof.
  induction p as [i lo hi | m i g lo hi s v ch IH] using prop_ind'; cbn [eval_c eval_d]; unfold dbounds; cbn [alookup fst snd]; [reflexivity|].
  rewrite (map_ext_in (eval_c env) (eval_d [] env)); [reflexivity|]. rewrite Forall_forall in IH. exact IH.
Qed.

Lemma keep_child_ok_signs d c : ok_signs c = true -> ok_signs (keep_child d c) = true.
Proof.
  intros H. unfold keep_child. destruct (alookup (id_of c) d); [|exact H].
  destruct (lo_of c =? hi_of c); [destruct c; reflexivity|exact H].
Qed.

Lemma assume_ok_signs d p : ok_signs p = true -> ok_signs (assume d p) = true.
Proof.
  induction p as [i lo hi | m i g lo hi s v ch IH] using prop_ind'; intros H; cbn [assume]; [reflexivity|].
  destruct (fst (dbounds d i lo hi) =? snd (dbounds d i lo hi)); [reflexivity|].
  cbn [ok_signs] in *. apply andb_true_iff in H. destruct H as [Hs Hch]. rewrite Hs. cbn [andb].
  rewrite (forallb_perm ok_signs _ _ (py_sorted_perm id_of _)).
  rewrite forallb_forall in *. intros x Hx. apply in_map_iff in Hx. destruct Hx as (y & <- & Hy).
  apply keep_child_ok_signs. apply in_map_iff in Hy. destruct Hy as (c & <- & Hc).
  rewrite Forall_forall in IH. apply IH; auto.
Qed.

Lemma keep_child_inb_c d env c : inb_c env c -> inb_c env (keep_child d c).
Proof.
  intros H. unfold keep_child. destruct (alookup (id_of c) d); [|exact H].
  destruct (lo_of c =? hi_of c) eqn:E; [|exact H]. apply Z.eqb_eq in E. unfold var_of. cbn [inb_c]. split; [lia|intros; lia].
Qed.

(* the assumed model is a well-formed input for reduce(): free leaves lie within their (narrowed) bounds *)
Lemma assume_inb_c d env p : compat d [] env p -> inb_c env (assume d p).
Proof.
  induction p as [i lo hi | m i g lo hi s v ch IH] using prop_ind'; intros H.
  - cbn [compat] in H. destruct H as (_ & H). cbv zeta in H.
    assert (Hnil : forall a b, dbounds [] i a b = (a, b)) by reflexivity. rewrite !Hnil in H. cbn [fst snd] in H.
    cbn [assume inb_c]. split; [lia|intros; lia].
  - cbn [assume]. destruct (fst (dbounds d i lo hi) =? snd (dbounds d i lo hi)) eqn:E; [apply Z.eqb_eq in E; cbn [inb_c]; split; [lia|intros; lia]|].
    apply inb_c_node. apply Forall_sorted_keep. apply compat_node in H. destruct H as [_ H].
    rewrite Forall_forall in *. intros x Hx. apply in_map_iff in Hx. destruct Hx as (c & <- & Hc).
    apply keep_child_inb_c. apply IH; auto.
Qed.

(* reduce after assume: the reduced model means what the original means under the assumption *)
Theorem reduce_after_assume d env p : ok_signs p = true -> compat d [] env p ->
  eval_c env (reduce (assume d p)) = eval_d d env p.
Proof.
  intros Hs Hc. rewrite reduce_sem; [|apply assume_ok_signs; exact Hs|apply assume_inb_c; exact Hc].
  rewrite eval_c_eval_d. rewrite (assume_compose d [] env p Hs Hc). rewrite app_nil_r. reflexivity.
Qed.
