(* PolyFacts.v — specification of "integer solution of a polyhedron" and all proofs about the
   model in Poly.v (C11, C12, C19).  Stdlib only, no axioms. *)
Require Import Puan.Base Puan.Poly.
From Coq Require Import Arith.

(* ================================================================== SPECIFICATION
   (never mentions how the implementation computes anything) *)

(* row r = b :: a  holds at the integer point x  iff  b <= a . x *)
Definition row_holds (r x : list Z) : Prop := hd 0 r <= dot (tl r) x.
Definition row_violated (r x : list Z) : Prop := dot (tl r) x < hd 0 r.
Definition rows_hold (P : poly) (x : list Z) : Prop := Forall (fun r => row_holds r x) (mat P).

(* the declared bounds of the columns of A, and "x lies within them" (same length) *)
Definition bounds_of (P : poly) : list (Z * Z) := map snd (tl (vars P)).
Definition in_box (bs : list (Z * Z)) (x : list Z) : Prop :=
  Forall2 (fun bd v => fst bd <= v <= snd bd) bs x.
(* S P : the in-bounds integer solutions *)
Definition sol (P : poly) (x : list Z) : Prop := in_box (bounds_of P) x /\ rows_hold P x.

(* the matrix is rectangular and matches the variables (numpy guarantees this: the constructor
   raises ValueError otherwise) *)
Definition wf (P : poly) : Prop :=
  vars P <> [] /\ Forall (fun r => List.length r = List.length (vars P)) (mat P)
  /\ List.length (index P) = List.length (mat P).

(* "variable bounds lie within the library's default integer range" (and are proper intervals,
   which puan.Bounds enforces) *)
Definition default_range (bs : list (Z * Z)) : Prop :=
  Forall (fun bd => min_value <= fst bd /\ fst bd <= snd bd /\ snd bd <= max_value) bs.

(* ================================================================== generic list lemmas *)
Lemma zipw_map_map {X A B C} (f : A -> B -> C) (g : X -> A) (h : X -> B) l :
  zipw f (map g l) (map h l) = map (fun x => f (g x) (h x)) l.
Proof. induction l; cbn [map zipw]; congruence. Qed.

Lemma zipw_map_l {X A B C} (f : A -> B -> C) (g : X -> A) l l2 :
  zipw f (map g l) l2 = zipw (fun x y => f (g x) y) l l2.
Proof. revert l2; induction l; intros [|y l2]; cbn [map zipw]; congruence. Qed.

Lemma zipw_map_r {X A B C} (f : A -> B -> C) (g : X -> B) l1 l :
  zipw f l1 (map g l) = zipw (fun x y => f x (g y)) l1 l.
Proof. revert l; induction l1; intros [|y l]; cbn [map zipw]; congruence. Qed.

Lemma zipw_length {A B C} (f : A -> B -> C) l1 l2 :
  List.length (zipw f l1 l2) = Nat.min (List.length l1) (List.length l2).
Proof. revert l2; induction l1; intros [|y l2]; cbn [zipw List.length Nat.min]; auto. Qed.

Lemma Forall2_map_r {A B} (R : A -> B -> Prop) (f : A -> B) l :
  (forall x, In x l -> R x (f x)) -> Forall2 R l (map f l).
Proof. induction l; cbn [map]; intros H; constructor; [apply H; left; auto | apply IHl; intros; apply H; right; auto]. Qed.

Lemma Forall2_length' {A B} (R : A -> B -> Prop) l1 l2 : Forall2 R l1 l2 -> List.length l1 = List.length l2.
Proof. induction 1; cbn; congruence. Qed.

Lemma repeat_map_const {A B} (u : B) (l : list A) : repeat u (List.length l) = map (fun _ => u) l.
Proof. induction l; cbn; congruence. Qed.

Lemma fold_orb_existsb {A} (g : A -> bool) l : fold_right orb false (map g l) = existsb g l.
Proof. induction l; cbn; congruence. Qed.
Lemma fold_andb_forallb {A} (g : A -> bool) l : fold_right andb true (map g l) = forallb g l.
Proof. induction l; cbn; congruence. Qed.

(* reduction over axis 0 of a matrix given entrywise equals the per-column fold *)
Lemma bool_axis0_entrywise {R X} (op : bool -> bool -> bool) (u : bool) (f : R -> X -> bool) rows (pts : list X) :
  bool_axis0 op u (List.length pts) (map (fun r => map (fun p => f r p) pts) rows)
  = map (fun p => fold_right op u (map (fun r => f r p) rows)) pts.
Proof.
  unfold bool_axis0. induction rows as [|r rows IH]; cbn [map fold_right].
  - apply repeat_map_const.
  - rewrite IH. apply zipw_map_map.
Qed.

(* ================================================================== C19: point classification *)
Lemma lt_matrix_entrywise P pts :
  lt_matrix P pts = map (fun r => map (fun p => dot (tl r) p <? hd 0 r) pts) (mat P).
Proof.
  unfold lt_matrix, matmul_T, A, b. rewrite map_map, zipw_map_map.
  apply map_ext; intros r. rewrite map_map. reflexivity.
Qed.
Lemma ge_matrix_entrywise P pts :
  ge_matrix P pts = map (fun r => map (fun p => hd 0 r <=? dot (tl r) p) pts) (mat P).
Proof.
  unfold ge_matrix, matmul_T, A, b. rewrite map_map, zipw_map_map.
  apply map_ext; intros r. rewrite map_map. reflexivity.
Qed.

Lemma separable2_eq P pts :
  separable2 P pts = map (fun p => existsb (fun r => dot (tl r) p <? hd 0 r) (mat P)) pts.
Proof.
  unfold separable2. rewrite lt_matrix_entrywise, bool_axis0_entrywise.
  apply map_ext; intros p. apply fold_orb_existsb.
Qed.
Lemma ineqs_satisfied2_eq P pts :
  ineqs_satisfied2 P pts = map (fun p => forallb (fun r => hd 0 r <=? dot (tl r) p) (mat P)) pts.
Proof.
  unfold ineqs_satisfied2. rewrite ge_matrix_entrywise, bool_axis0_entrywise.
  apply map_ext; intros p. apply fold_andb_forallb.
Qed.
Lemma ineq_separate_points2_eq P pts :
  ineq_separate_points2 P pts = map (fun r => existsb (fun p => dot (tl r) p <? hd 0 r) pts) (mat P).
Proof.
  unfold ineq_separate_points2, bool_axis1. rewrite lt_matrix_entrywise, map_map.
  apply map_ext; intros r. apply fold_orb_existsb.
Qed.

Lemma forallb_rows_hold P x :
  forallb (fun r => hd 0 r <=? dot (tl r) x) (mat P) = true <-> rows_hold P x.
Proof.
  unfold rows_hold, row_holds. rewrite forallb_forall, Forall_forall.
  split; intros H r Hr; specialize (H r Hr); lia.
Qed.
Lemma existsb_row_violated P x :
  existsb (fun r => dot (tl r) x <? hd 0 r) (mat P) = true <-> Exists (fun r => row_violated r x) (mat P).
Proof.
  unfold row_violated. rewrite existsb_exists, Exists_exists.
  split; intros (r & Hr & H); exists r; split; auto; lia.
Qed.
Lemma existsb_pt_violates r pts :
  existsb (fun p => dot (tl r) p <? hd 0 r) pts = true <-> Exists (fun x => row_violated r x) pts.
Proof.
  unfold row_violated. rewrite existsb_exists, Exists_exists.
  split; intros (p & Hp & H); exists p; split; auto; lia.
Qed.

(* --- rank 2 --- *)
Lemma ineqs_satisfied2_spec P pts :
  Forall2 (fun x o => o = true <-> rows_hold P x) pts (ineqs_satisfied2 P pts).
Proof. rewrite ineqs_satisfied2_eq. apply Forall2_map_r; intros; apply forallb_rows_hold. Qed.

Lemma separable2_spec P pts :
  Forall2 (fun x o => o = true <-> Exists (fun r => row_violated r x) (mat P)) pts (separable2 P pts).
Proof. rewrite separable2_eq. apply Forall2_map_r; intros; apply existsb_row_violated. Qed.

Lemma separable2_negb P pts : separable2 P pts = map negb (ineqs_satisfied2 P pts).
Proof.
  rewrite separable2_eq, ineqs_satisfied2_eq, map_map. apply map_ext; intros p.
  induction (mat P) as [|r rows IH]; cbn [existsb forallb]; [reflexivity|].
  rewrite IH, negb_andb. f_equal. lia.
Qed.

Lemma ineq_separate_points2_spec P pts :
  Forall2 (fun r o => o = true <-> Exists (fun x => row_violated r x) pts) (mat P) (ineq_separate_points2 P pts).
Proof. rewrite ineq_separate_points2_eq. apply Forall2_map_r; intros; apply existsb_pt_violates. Qed.

(* --- rank 1 --- *)
Lemma ineqs_satisfied1_spec P x : ineqs_satisfied1 P x = true <-> rows_hold P x.
Proof. unfold ineqs_satisfied1. rewrite ineqs_satisfied2_eq. cbn [map hd]. apply forallb_rows_hold. Qed.

Lemma separable1_spec P x : separable1 P x = true <-> Exists (fun r => row_violated r x) (mat P).
Proof. unfold separable1. rewrite separable2_eq. cbn [map hd]. apply existsb_row_violated. Qed.

Lemma separable1_negb P x : separable1 P x = negb (ineqs_satisfied1 P x).
Proof. unfold separable1, ineqs_satisfied1. rewrite separable2_negb. destruct (ineqs_satisfied2 P [x]) eqn:E; [|reflexivity].
  rewrite ineqs_satisfied2_eq in E. discriminate E. Qed.

Lemma ineq_separate_points1_spec P x :
  Forall2 (fun r o => o = true <-> row_violated r x) (mat P) (ineq_separate_points1 P x).
Proof.
  unfold ineq_separate_points1. rewrite ineq_separate_points2_eq. apply Forall2_map_r; intros r _.
  cbn [existsb]. unfold row_violated. rewrite orb_false_r. lia.
Qed.

(* --- rank 3 --- *)
Lemma ineqs_satisfied3_spec P g :
  Forall2 (Forall2 (fun x o => o = true <-> rows_hold P x)) g (ineqs_satisfied3 P g).
Proof. apply Forall2_map_r; intros; apply ineqs_satisfied2_spec. Qed.
Lemma separable3_spec P g :
  Forall2 (Forall2 (fun x o => o = true <-> Exists (fun r => row_violated r x) (mat P))) g (separable3 P g).
Proof. apply Forall2_map_r; intros; apply separable2_spec. Qed.
Lemma ineq_separate_points3_spec P g :
  Forall2 (fun pts out => Forall2 (fun r o => o = true <-> Exists (fun x => row_violated r x) pts) (mat P) out)
          g (ineq_separate_points3 P g).
Proof. apply Forall2_map_r; intros; apply ineq_separate_points2_spec. Qed.
Lemma separable3_negb P g : separable3 P g = map (map negb) (ineqs_satisfied3 P g).
Proof. unfold separable3, ineqs_satisfied3. rewrite map_map. apply map_ext; intros; apply separable2_negb. Qed.

(* ================================================================== C12 / C11: per-row analysis *)
Lemma zipw3_map_map {X A B C D} (f : A -> B -> C -> D) (g1 : X -> A) (g2 : X -> B) (g3 : X -> C) l :
  zipw3 f (map g1 l) (map g2 l) (map g3 l) = map (fun x => f (g1 x) (g2 x) (g3 x)) l.
Proof. induction l; cbn [map zipw3]; congruence. Qed.

Lemma zipw3_bounds {C D} (f : Z -> Z -> C -> D) (bs : list (Z * Z)) (a : list C) :
  zipw3 f (map fst bs) (map snd bs) a = zipw (fun bd c => f (fst bd) (snd bd) c) bs a.
Proof. revert a; induction bs as [|bd bs IH]; intros [|c a]; cbn [map zipw3 zipw]; try reflexivity. f_equal. apply IH. Qed.

Lemma cb_lo_eq P : cb_lo P = map fst (bounds_of P).
Proof. unfold cb_lo, A_variables, bounds_of. rewrite map_map. reflexivity. Qed.
Lemma cb_hi_eq P : cb_hi P = map snd (bounds_of P).
Proof. unfold cb_hi, A_variables, bounds_of. rewrite map_map. reflexivity. Qed.

(* per-entry terms *)
Definition tmax (bd : Z * Z) (c : Z) : Z := Z.max (fst bd * c) (snd bd * c).
Definition tmin (bd : Z * Z) (c : Z) : Z := Z.min (fst bd * c) (snd bd * c).
Definition amax_t (bd : Z * Z) (c : Z) : Z := fst bd * b2z (c <? 0) * c + snd bd * b2z (0 <? c) * c.
Definition amin_t (bd : Z * Z) (c : Z) : Z := fst bd * b2z (0 <? c) * c + snd bd * b2z (c <? 0) * c.
Definition rmax (bs : list (Z * Z)) (a : list Z) : Z := zsum (zipw tmax bs a).
Definition rmin (bs : list (Z * Z)) (a : list Z) : Z := zsum (zipw tmin bs a).

Lemma row_bounds_eq P :
  row_bounds P = map (fun r => (rmin (bounds_of P) (tl r) - hd 0 r, rmax (bounds_of P) (tl r) - hd 0 r)) (mat P).
Proof.
  unfold row_bounds, A, b. rewrite cb_lo_eq, cb_hi_eq, !map_map, zipw3_map_map.
  apply map_ext; intros r. rewrite !zipw3_bounds. reflexivity.
Qed.
Lemma A_max_eq P : A_max P = map (fun r => zipw amax_t (bounds_of P) (tl r)) (mat P).
Proof.
  unfold A_max, A. rewrite cb_lo_eq, cb_hi_eq, map_map. apply map_ext; intros r. apply zipw3_bounds.
Qed.
Lemma A_min_eq P : A_min P = map (fun r => zipw amin_t (bounds_of P) (tl r)) (mat P).
Proof.
  unfold A_min, A. rewrite cb_lo_eq, cb_hi_eq, map_map. apply map_ext; intros r. apply zipw3_bounds.
Qed.

Lemma tmin_le bd c v : fst bd <= v <= snd bd -> tmin bd c <= c * v.
Proof. unfold tmin. intros H. destruct (Z_le_gt_dec 0 c); [assert (fst bd * c <= c * v) by nia | assert (snd bd * c <= c * v) by nia]; lia. Qed.
Lemma tmax_ge bd c v : fst bd <= v <= snd bd -> c * v <= tmax bd c.
Proof. unfold tmax. intros H. destruct (Z_le_gt_dec 0 c); [assert (c * v <= snd bd * c) by nia | assert (c * v <= fst bd * c) by nia]; lia. Qed.
Lemma amax_t_eq bd c : fst bd <= snd bd -> amax_t bd c = tmax bd c.
Proof.
  unfold amax_t, tmax. intros H. destruct (c <? 0) eqn:E1, (0 <? c) eqn:E2; cbn [b2z]; try lia.
  - assert (snd bd * c <= fst bd * c) by nia. lia.
  - assert (fst bd * c <= snd bd * c) by nia. lia.
  - assert (c = 0) by lia. subst. lia.
Qed.
Lemma amin_t_eq bd c : fst bd <= snd bd -> amin_t bd c = tmin bd c.
Proof.
  unfold amin_t, tmin. intros H. destruct (c <? 0) eqn:E1, (0 <? c) eqn:E2; cbn [b2z]; try lia.
  - assert (snd bd * c <= fst bd * c) by nia. lia.
  - assert (fst bd * c <= snd bd * c) by nia. lia.
  - assert (c = 0) by lia. subst. lia.
Qed.

(* every in-box point keeps a . x between the row extremes (no length side condition: zipw and dot
   truncate alike) *)
Lemma dot_between bs x : in_box bs x -> forall a, rmin bs a <= dot a x <= rmax bs a.
Proof.
  unfold rmin, rmax. induction 1 as [|bd v bs x Hb Hbox IH]; intros [|c a]; cbn [zipw zsum dot]; try lia.
  specialize (IH a). pose proof (tmin_le bd c v Hb). pose proof (tmax_ge bd c v Hb). lia.
Qed.

Lemma in_box_proper bs x : in_box bs x -> Forall (fun bd => fst bd <= snd bd) bs.
Proof. induction 1; constructor; auto; lia. Qed.

Lemma amax_row_sum bs a : Forall (fun bd => fst bd <= snd bd) bs -> zsum (zipw amax_t bs a) = rmax bs a.
Proof.
  unfold rmax. intros H; revert a; induction H as [|bd bs Hb Hbs IH]; intros [|c a]; cbn [zipw zsum]; try reflexivity.
  rewrite IH, amax_t_eq by assumption. reflexivity.
Qed.
Lemma amin_row_sum bs a : Forall (fun bd => fst bd <= snd bd) bs -> zsum (zipw amin_t bs a) = rmin bs a.
Proof.
  unfold rmin. intros H; revert a; induction H as [|bd bs Hb Hbs IH]; intros [|c a]; cbn [zipw zsum]; try reflexivity.
  rewrite IH, amin_t_eq by assumption. reflexivity.
Qed.

(* ---------------- row_bounds is exact: attained minimum and maximum ---------------- *)
Lemma box_nonempty bs : Forall (fun bd => fst bd <= snd bd) bs -> exists x, in_box bs x.
Proof.
  induction 1 as [|bd bs Hb Hbs [x IH]]; [exists []; constructor|].
  exists (fst bd :: x). constructor; auto; lia.
Qed.
Lemma rmin_attained bs : Forall (fun bd => fst bd <= snd bd) bs -> forall a, exists x, in_box bs x /\ dot a x = rmin bs a.
Proof.
  unfold rmin. induction 1 as [|bd bs Hb Hbs IH]; intros a.
  - exists []. split; [constructor|]. destruct a; reflexivity.
  - destruct a as [|c a].
    + destruct (box_nonempty (bd :: bs) (Forall_cons (P:=fun bd => fst bd <= snd bd) bd Hb Hbs)) as [x Hx]. exists x. split; auto; destruct x; reflexivity.
    + destruct (IH a) as [x [Hx E]].
      exists ((if 0 <=? c then fst bd else snd bd) :: x). split.
      * constructor; auto. case_if; lia.
      * cbn [dot zipw zsum]. rewrite E. unfold tmin. case_if.
        -- assert (fst bd * c <= snd bd * c) by nia. lia.
        -- assert (snd bd * c <= fst bd * c) by nia. lia.
Qed.
Lemma rmax_attained bs : Forall (fun bd => fst bd <= snd bd) bs -> forall a, exists x, in_box bs x /\ dot a x = rmax bs a.
Proof.
  unfold rmax. induction 1 as [|bd bs Hb Hbs IH]; intros a.
  - exists []. split; [constructor|]. destruct a; reflexivity.
  - destruct a as [|c a].
    + destruct (box_nonempty (bd :: bs) (Forall_cons (P:=fun bd => fst bd <= snd bd) bd Hb Hbs)) as [x Hx]. exists x. split; auto; destruct x; reflexivity.
    + destruct (IH a) as [x [Hx E]].
      exists ((if 0 <=? c then snd bd else fst bd) :: x). split.
      * constructor; auto. case_if; lia.
      * cbn [dot zipw zsum]. rewrite E. unfold tmax. case_if.
        -- assert (fst bd * c <= snd bd * c) by nia. lia.
        -- assert (snd bd * c <= fst bd * c) by nia. lia.
Qed.

Lemma row_bounds_exact P :
  Forall (fun bd => fst bd <= snd bd) (bounds_of P) ->
  Forall2 (fun r mm =>
             (forall x, in_box (bounds_of P) x -> fst mm <= dot (tl r) x - hd 0 r <= snd mm)
             /\ (exists x, in_box (bounds_of P) x /\ dot (tl r) x - hd 0 r = fst mm)
             /\ (exists x, in_box (bounds_of P) x /\ dot (tl r) x - hd 0 r = snd mm))
          (mat P) (row_bounds P).
Proof.
  intros Hp. rewrite row_bounds_eq. apply Forall2_map_r; intros r _. cbn [fst snd]. repeat split.
  - pose proof (dot_between _ _ H (tl r)). lia.
  - pose proof (dot_between _ _ H (tl r)). lia.
  - destruct (rmin_attained _ Hp (tl r)) as [x [Hx E]]. exists x. split; auto. lia.
  - destruct (rmax_attained _ Hp (tl r)) as [x [Hx E]]. exists x. split; auto. lia.
Qed.

(* ---------------- tighten_column_bounds ---------------- *)
Definition lbs_row' (rub : Z) (bs : list (Z * Z)) (a : list Z) : list Z :=
  zipw (fun e c => if c <=? 0 then min_value else e) (zipw (tcb_entry rub) (zipw amax_t bs a) a) a.
Definition ubs_row' (rub : Z) (bs : list (Z * Z)) (a : list Z) : list Z :=
  zipw (fun e c => if 0 <=? c then max_value else e) (zipw (tcb_entry rub) (zipw amax_t bs a) a) a.
Definition lbs_row (bs : list (Z * Z)) (r : list Z) : list Z := lbs_row' (rmax bs (tl r) - hd 0 r) bs (tl r).
Definition ubs_row (bs : list (Z * Z)) (r : list Z) : list Z := ubs_row' (rmax bs (tl r) - hd 0 r) bs (tl r).

Lemma tcb_res_eq P :
  tcb_res P = map (fun r => zipw (tcb_entry (rmax (bounds_of P) (tl r) - hd 0 r)) (zipw amax_t (bounds_of P) (tl r)) (tl r)) (mat P).
Proof.
  unfold tcb_res. rewrite row_bounds_eq, A_max_eq. unfold A. rewrite !map_map, zipw3_map_map. reflexivity.
Qed.
Lemma tcb_lbs_eq P : tcb_lbs P = map (lbs_row (bounds_of P)) (mat P).
Proof. unfold tcb_lbs. rewrite tcb_res_eq. unfold A. rewrite zipw_map_map. reflexivity. Qed.
Lemma tcb_ubs_eq P : tcb_ubs P = map (ubs_row (bounds_of P)) (mat P).
Proof. unfold tcb_ubs. rewrite tcb_res_eq. unfold A. rewrite zipw_map_map. reflexivity. Qed.

Lemma tcb_entry_nz rub am c : c <> 0 -> tcb_entry rub am c = (- (rub - am)) / c.
Proof. unfold tcb_entry. intros H. case_if; [lia|reflexivity]. Qed.

Lemma lbs_row_sound bs x :
  in_box bs x -> default_range bs -> forall a rub,
  List.length a = List.length bs -> rmax bs a - dot a x <= rub -> Forall2 Z.le (lbs_row' rub bs a) x.
Proof.
  unfold lbs_row'. induction 1 as [|bd v bs x Hb Hbox IH]; intros Hr a rub Hl Hs.
  - destruct a; [constructor|discriminate].
  - destruct a as [|c a]; [discriminate|]. inversion Hr as [|? ? Hr1 Hr2]; subst.
    unfold rmax in *. cbn [zipw zsum dot] in *.
    pose proof (dot_between bs x Hbox a) as Hd. unfold rmax in Hd.
    pose proof (tmax_ge bd c v Hb) as Ht.
    constructor.
    + case_if; [lia|]. rewrite tcb_entry_nz by lia. rewrite amax_t_eq by lia.
      apply Z.div_le_upper_bound; lia.
    + apply IH; auto. lia.
Qed.

Lemma ubs_row_sound bs x :
  in_box bs x -> default_range bs -> forall a rub,
  List.length a = List.length bs -> rmax bs a - dot a x <= rub -> Forall2 (fun u v => v <= u) (ubs_row' rub bs a) x.
Proof.
  unfold ubs_row'. induction 1 as [|bd v bs x Hb Hbox IH]; intros Hr a rub Hl Hs.
  - destruct a; [constructor|discriminate].
  - destruct a as [|c a]; [discriminate|]. inversion Hr as [|? ? Hr1 Hr2]; subst.
    unfold rmax in *. cbn [zipw zsum dot] in *.
    pose proof (dot_between bs x Hbox a) as Hd. unfold rmax in Hd.
    pose proof (tmax_ge bd c v Hb) as Ht.
    constructor.
    + case_if; [lia|]. rewrite tcb_entry_nz by lia. rewrite amax_t_eq by lia.
      rewrite <- Z.div_opp_opp by lia. apply Z.div_le_lower_bound; lia.
    + apply IH; auto. lia.
Qed.

Lemma zipw_max_le r r' x : Forall2 Z.le r x -> Forall2 Z.le r' x -> Forall2 Z.le (zipw Z.max r r') x.
Proof.
  intros H; revert r'; induction H; intros r' H'; inversion H'; subst; cbn [zipw]; constructor; auto; lia.
Qed.
Lemma zipw_min_ge r r' x :
  Forall2 (fun u v => v <= u) r x -> Forall2 (fun u v => v <= u) r' x -> Forall2 (fun u v => v <= u) (zipw Z.min r r') x.
Proof.
  intros H; revert r'; induction H; intros r' H'; inversion H'; subst; cbn [zipw]; constructor; auto; lia.
Qed.
Lemma fold_max_le rs : forall r x, Forall2 Z.le r x -> Forall (fun r' => Forall2 Z.le r' x) rs ->
  Forall2 Z.le (fold_left (zipw Z.max) rs r) x.
Proof.
  induction rs as [|r' rs IH]; intros r x Hr Hrs; cbn [fold_left]; auto.
  inversion Hrs; subst. apply IH; auto. apply zipw_max_le; auto.
Qed.
Lemma fold_min_ge rs : forall r x, Forall2 (fun u v => v <= u) r x -> Forall (fun r' => Forall2 (fun u v => v <= u) r' x) rs ->
  Forall2 (fun u v => v <= u) (fold_left (zipw Z.min) rs r) x.
Proof.
  induction rs as [|r' rs IH]; intros r x Hr Hrs; cbn [fold_left]; auto.
  inversion Hrs; subst. apply IH; auto. apply zipw_min_ge; auto.
Qed.

Lemma final_lb_le mxs bs x :
  Forall2 Z.le mxs x -> in_box bs x -> Forall2 Z.le (zipw (fun mx l => if l <? mx then mx else l) mxs (map fst bs)) x.
Proof.
  intros H; revert bs; induction H; intros bs Hb; inversion Hb; subst; cbn [map zipw]; constructor; auto.
  case_if; lia.
Qed.
Lemma final_ub_ge mns bs x :
  Forall2 (fun u v => v <= u) mns x -> in_box bs x ->
  Forall2 (fun u v => v <= u) (zipw (fun mn u => if mn <? u then mn else u) mns (map snd bs)) x.
Proof.
  intros H; revert bs; induction H; intros bs Hb; inversion Hb; subst; cbn [map zipw]; constructor; auto.
  case_if; lia.
Qed.

Lemma in_box_combine lb ub x :
  Forall2 Z.le lb x -> Forall2 (fun u v => v <= u) ub x -> in_box (combine lb ub) x.
Proof.
  intros H; revert ub; induction H; intros ub H'; inversion H'; subst; cbn [combine]; constructor.
  - cbn [fst snd]. lia.
  - apply IHForall2; auto.
Qed.

Lemma wf_row_length P r : wf P -> In r (mat P) -> List.length (tl r) = List.length (bounds_of P).
Proof.
  intros (Hv & Hr & _) Hin. rewrite Forall_forall in Hr. specialize (Hr r Hin).
  unfold bounds_of. rewrite map_length. destruct r, (vars P); cbn in *; congruence.
Qed.

Lemma degenerate_false P : degenerate P = false -> mat P <> [] /\ bounds_of P <> [].
Proof.
  unfold degenerate, nrows, ncols, bounds_of. destruct (mat P), (tl (vars P)); cbn; intros H; try discriminate.
  split; discriminate.
Qed.

Lemma tcb_core_sound P x :
  wf P -> default_range (bounds_of P) -> mat P <> [] -> sol P x ->
  Forall2 Z.le (fst (tcb_core P)) x /\ Forall2 (fun u v => v <= u) (snd (tcb_core P)) x.
Proof.
  intros Hwf Hr Hne [Hbox Hrows]. unfold tcb_core. cbn [fst snd].
  rewrite tcb_lbs_eq, tcb_ubs_eq, cb_lo_eq, cb_hi_eq.
  assert (HL : Forall (fun r => Forall2 Z.le (lbs_row (bounds_of P) r) x) (mat P)).
  { apply Forall_forall; intros r Hin. unfold lbs_row. apply lbs_row_sound; auto.
    - eapply wf_row_length; eauto.
    - unfold rows_hold in Hrows. rewrite Forall_forall in Hrows. specialize (Hrows r Hin). unfold row_holds in Hrows. lia. }
  assert (HU : Forall (fun r => Forall2 (fun u v => v <= u) (ubs_row (bounds_of P) r) x) (mat P)).
  { apply Forall_forall; intros r Hin. unfold ubs_row. apply ubs_row_sound; auto.
    - eapply wf_row_length; eauto.
    - unfold rows_hold in Hrows. rewrite Forall_forall in Hrows. specialize (Hrows r Hin). unfold row_holds in Hrows. lia. }
  destruct (mat P) as [|r rs]; [congruence|]. cbn [map reduce_axis0].
  inversion HL; inversion HU; subst. split.
  - apply final_lb_le; auto. apply fold_max_le; auto. rewrite Forall_map. auto.
  - apply final_ub_ge; auto. apply fold_min_ge; auto. rewrite Forall_map. auto.
Qed.

Theorem tighten_sound P lb ub x :
  wf P -> default_range (bounds_of P) -> tighten_column_bounds P = Some (lb, ub) ->
  sol P x -> in_box (combine lb ub) x.
Proof.
  unfold tighten_column_bounds. intros Hwf Hr Ht Hs. destruct (degenerate P) eqn:Hd; [discriminate|]. assert (E : tcb_core P = (lb, ub)) by congruence.
  destruct (degenerate_false P Hd) as [Hne _].
  destruct (tcb_core_sound P x Hwf Hr Hne Hs) as [H1 H2]. rewrite E in H1, H2. apply in_box_combine; auto.
Qed.

(* ---------------- shapes, no widening, emptiness ---------------- *)
Lemma fold_zipw_length (op : Z -> Z -> Z) n rs : forall r,
  List.length r = n -> Forall (fun r' => List.length r' = n) rs -> List.length (fold_left (zipw op) rs r) = n.
Proof.
  induction rs as [|r' rs IH]; intros r Hr Hrs; cbn [fold_left]; auto.
  inversion Hrs; subst. apply IH; auto. rewrite zipw_length. lia.
Qed.
Lemma lbs_row_length bs r : List.length (tl r) = List.length bs -> List.length (lbs_row bs r) = List.length bs.
Proof. intros H. unfold lbs_row, lbs_row'. rewrite !zipw_length. lia. Qed.
Lemma ubs_row_length bs r : List.length (tl r) = List.length bs -> List.length (ubs_row bs r) = List.length bs.
Proof. intros H. unfold ubs_row, ubs_row'. rewrite !zipw_length. lia. Qed.

Lemma reduce_axis0_length (op : Z -> Z -> Z) n rows :
  rows <> [] -> Forall (fun r => List.length r = n) rows -> List.length (reduce_axis0 op rows) = n.
Proof.
  destruct rows as [|r rs]; [congruence|]. intros _ H. inversion H; subst. cbn [reduce_axis0].
  apply fold_zipw_length; auto.
Qed.

Lemma zipw_Forall2_r {A B} (R : B -> A -> Prop) (f : A -> B -> A) l1 l2 :
  List.length l1 = List.length l2 -> (forall a c, R c (f a c)) -> Forall2 R l2 (zipw f l1 l2).
Proof.
  revert l2; induction l1 as [|a l1 IH]; intros [|c l2] Hl HR; try discriminate; cbn [zipw]; constructor; auto.
Qed.

Lemma tcb_core_shape P :
  wf P -> mat P <> [] ->
  List.length (reduce_axis0 Z.max (tcb_lbs P)) = List.length (bounds_of P) /\
  List.length (reduce_axis0 Z.min (tcb_ubs P)) = List.length (bounds_of P).
Proof.
  intros Hwf Hne. rewrite tcb_lbs_eq, tcb_ubs_eq. split; apply reduce_axis0_length.
  - destruct (mat P); [congruence|discriminate].
  - rewrite Forall_map. apply Forall_forall; intros r Hin. apply lbs_row_length. eapply wf_row_length; eauto.
  - destruct (mat P); [congruence|discriminate].
  - rewrite Forall_map. apply Forall_forall; intros r Hin. apply ubs_row_length. eapply wf_row_length; eauto.
Qed.

Lemma tcb_core_no_widen P :
  wf P -> mat P <> [] ->
  Forall2 (fun bd l => fst bd <= l) (bounds_of P) (fst (tcb_core P)) /\
  Forall2 (fun bd u => u <= snd bd) (bounds_of P) (snd (tcb_core P)).
Proof.
  intros Hwf Hne. destruct (tcb_core_shape P Hwf Hne) as [L1 L2]. unfold tcb_core. cbn [fst snd].
  rewrite cb_lo_eq, cb_hi_eq. rewrite zipw_map_r, zipw_map_r. split.
  - apply zipw_Forall2_r; auto. intros a c. case_if; lia.
  - apply zipw_Forall2_r; auto. intros a c. case_if; lia.
Qed.

Theorem tighten_no_widen P lb ub :
  wf P -> tighten_column_bounds P = Some (lb, ub) ->
  Forall2 (fun bd l => fst bd <= l) (bounds_of P) lb /\ Forall2 (fun bd u => u <= snd bd) (bounds_of P) ub.
Proof.
  unfold tighten_column_bounds. intros Hwf Ht. destruct (degenerate P) eqn:Hd; [discriminate|].
  assert (E : tcb_core P = (lb, ub)) by congruence.
  destruct (degenerate_false P Hd) as [Hne _].
  pose proof (tcb_core_no_widen P Hwf Hne) as H. rewrite E in H. exact H.
Qed.

Lemma in_box_no_empty_interval bs x : in_box bs x -> ~ Exists (fun bd => snd bd < fst bd) bs.
Proof. intros H E. apply in_box_proper in H. rewrite Forall_forall in H. rewrite Exists_exists in E. destruct E as (bd & Hin & Hlt). specialize (H bd Hin). lia. Qed.

Theorem tighten_empty P lb ub :
  wf P -> default_range (bounds_of P) -> tighten_column_bounds P = Some (lb, ub) ->
  Exists (fun lu => snd lu < fst lu) (combine lb ub) -> forall x, ~ sol P x.
Proof.
  intros Hwf Hr Ht He x Hs. eapply in_box_no_empty_interval; [|exact He]. eapply tighten_sound; eauto.
Qed.

(* ---------------- C11: forced columns and reducible rows ---------------- *)
(* x agrees with a column vector: wherever a value is reported, x has it *)
Definition agrees (cs : list (option Z)) (x : list Z) : Prop :=
  Forall2 (fun c v => forall k, c = Some k -> v = k) cs x.

Lemma agrees_of_box lb : forall ub x,
  in_box (combine lb ub) x -> agrees (zipw (fun l u => if l =? u then Some l else None) lb ub) x.
Proof.
  unfold agrees. induction lb as [|l lb IH]; intros [|u ub] x H; cbn [combine zipw] in *; inversion H; subst; constructor.
  - intros k. case_if; intros E; inversion E; subst. cbn [fst snd] in *. lia.
  - apply IH; auto.
Qed.

Lemma rca_core_forced P x :
  wf P -> default_range (bounds_of P) -> mat P <> [] -> sol P x -> agrees (rca_core P) x.
Proof.
  intros Hwf Hr Hne Hs. unfold rca_core. destruct (tcb_core P) as [lb ub] eqn:E.
  apply agrees_of_box. destruct (tcb_core_sound P x Hwf Hr Hne Hs) as [H1 H2]. rewrite E in H1, H2.
  apply in_box_combine; auto.
Qed.

Theorem rca_forced P cs x :
  wf P -> default_range (bounds_of P) -> reducable_columns_approx P = Some cs -> sol P x -> agrees cs x.
Proof.
  unfold reducable_columns_approx. intros Hwf Hr Hc Hs. destruct (degenerate P) eqn:Hd; [discriminate|].
  inversion Hc; subst. destruct (degenerate_false P Hd) as [Hne _]. apply rca_core_forced; auto.
Qed.

Lemma rr_core_eq P :
  rr_core P = map (fun r => hd 0 r <=? zsum (zipw amin_t (bounds_of P) (tl r))) (mat P).
Proof. unfold rr_core, b. rewrite A_min_eq, map_map, zipw_map_map. reflexivity. Qed.

(* a row is reported reducible iff every point of the box satisfies it (needs proper intervals
   only, which in_box gives; the converse uses the attained minimum) *)
Lemma rr_core_sound P :
  Forall2 (fun r flag => flag = true -> forall x, in_box (bounds_of P) x -> row_holds r x) (mat P) (rr_core P).
Proof.
  rewrite rr_core_eq. apply Forall2_map_r; intros r _ Hf x Hx. unfold row_holds.
  rewrite amin_row_sum in Hf by (eapply in_box_proper; eauto).
  pose proof (dot_between _ _ Hx (tl r)). lia.
Qed.
Lemma rr_core_exact P :
  Forall (fun bd => fst bd <= snd bd) (bounds_of P) ->
  Forall2 (fun r flag => flag = true <-> forall x, in_box (bounds_of P) x -> row_holds r x) (mat P) (rr_core P).
Proof.
  intros Hp. rewrite rr_core_eq. apply Forall2_map_r; intros r _. rewrite amin_row_sum by assumption. split.
  - intros Hf x Hx. unfold row_holds. pose proof (dot_between _ _ Hx (tl r)). lia.
  - intros H. destruct (rmin_attained _ Hp (tl r)) as [x [Hx E]]. specialize (H x Hx). unfold row_holds in H. lia.
Qed.

Theorem reducable_rows_sound P rs :
  reducable_rows P = Some rs ->
  Forall2 (fun r flag => flag = true -> forall x, in_box (bounds_of P) x -> row_holds r x) (mat P) rs.
Proof. unfold reducable_rows. case_if; intros E; inversion E; subst. apply rr_core_sound. Qed.

(* ---------------- n_row_combinations ---------------- *)
(* all integer points of a box, enumerated (specification side only) *)
Fixpoint enum_box (bs : list (Z * Z)) : list (list Z) :=
  match bs with
  | [] => [[]]
  | bd :: bs' => flat_map (fun v => map (cons v) (enum_box bs')) (zrange (fst bd) (Z.to_nat (snd bd - fst bd + 1)))
  end.
(* the box of the variables that occur in a row: columns with a zero coefficient are pinned to
   their lower bound *)
Definition restrict_box (bs : list (Z * Z)) (a : list Z) : list (Z * Z) :=
  zipw (fun bd c => if c =? 0 then (fst bd, fst bd) else bd) bs a.

Lemma In_zrange v n : forall s, In v (zrange s n) <-> s <= v < s + Z.of_nat n.
Proof.
  induction n as [|n IH]; intros s; cbn [zrange In].
  - lia.
  - rewrite IH. lia.
Qed.
Lemma enum_box_spec bs : forall x, In x (enum_box bs) <-> in_box bs x.
Proof.
  induction bs as [|bd bs IH]; intros x; cbn [enum_box].
  - cbn. split; [intros [<-|[]]; constructor | intros H; inversion H; auto].
  - rewrite in_flat_map. split.
    + intros (v & Hv & Hx). apply in_map_iff in Hx. destruct Hx as (y & <- & Hy). apply In_zrange in Hv.
      constructor; [lia | apply IH; auto].
    + intros H. inversion H as [|? v ? y Hb Hy]; subst. exists v. split.
      * apply In_zrange. lia.
      * apply in_map. apply IH; auto.
Qed.
Lemma flat_map_const_length {A B} (f : A -> list B) n l : (forall a, List.length (f a) = n) -> List.length (flat_map f l) = (List.length l * n)%nat.
Proof. intros H. induction l; cbn [flat_map List.length]; [reflexivity|]. rewrite app_length, H, IHl. lia. Qed.
Lemma enum_box_length bs :
  Forall (fun bd => fst bd <= snd bd) bs ->
  Z.of_nat (List.length (enum_box bs)) = zprod (map (fun bd => snd bd - fst bd + 1) bs).
Proof.
  induction 1 as [|bd bs Hb Hbs IH]; cbn [enum_box map zprod]; [reflexivity|].
  rewrite (flat_map_const_length _ (List.length (enum_box bs))) by (intros; apply map_length).
  rewrite zrange_length, Nat2Z.inj_mul, IH, Z2Nat.id by lia. reflexivity.
Qed.

Lemma n_row_combinations_eq P :
  n_row_combinations P =
  map (fun r => zprod (zipw (fun bd c => b2z (negb (c =? 0)) * (snd bd - fst bd + 1) + b2z (c =? 0) * 1) (bounds_of P) (tl r))) (mat P).
Proof.
  unfold n_row_combinations, A. rewrite cb_lo_eq, cb_hi_eq, map_map. apply map_ext; intros r.
  rewrite zipw3_bounds. reflexivity.
Qed.

Lemma restrict_box_proper bs : Forall (fun bd => fst bd <= snd bd) bs -> forall a, Forall (fun bd => fst bd <= snd bd) (restrict_box bs a).
Proof.
  unfold restrict_box. induction 1; intros [|c a]; cbn [zipw]; constructor; auto. case_if; cbn [fst snd]; lia.
Qed.

Lemma ncomb_row bs : forall a,
  zprod (zipw (fun bd c => b2z (negb (c =? 0)) * (snd bd - fst bd + 1) + b2z (c =? 0) * 1) bs a)
  = zprod (map (fun bd => snd bd - fst bd + 1) (restrict_box bs a)).
Proof.
  unfold restrict_box. induction bs as [|bd bs IH]; intros [|c a]; cbn [zipw map zprod]; try reflexivity.
  rewrite IH. destruct (c =? 0); cbn [negb b2z fst snd]; lia.
Qed.

Theorem n_row_combinations_spec P :
  Forall (fun bd => fst bd <= snd bd) (bounds_of P) ->
  Forall2 (fun r n => n = Z.of_nat (List.length (enum_box (restrict_box (bounds_of P) (tl r))))) (mat P) (n_row_combinations P).
Proof.
  intros Hp. rewrite n_row_combinations_eq. apply Forall2_map_r; intros r _.
  rewrite ncomb_row, enum_box_length; auto. apply restrict_box_proper; auto.
Qed.

(* the enumeration lists every point once, so its length is a count *)
Lemma NoDup_app' {A} (l1 l2 : list A) : NoDup l1 -> NoDup l2 -> (forall x, In x l1 -> ~ In x l2) -> NoDup (l1 ++ l2).
Proof.
  induction 1 as [|a l1 Ha Hn IH]; intros H2 Hd; cbn [app]; auto. constructor.
  - rewrite in_app_iff. intros [H|H]; [auto|]. apply (Hd a); [left; auto|auto].
  - apply IH; auto. intros x Hx. apply Hd. right; auto.
Qed.
Lemma NoDup_zrange n : forall s, NoDup (zrange s n).
Proof. induction n; intros s; cbn [zrange]; constructor; auto. rewrite In_zrange. lia. Qed.
Lemma NoDup_map_cons (v : Z) (L : list (list Z)) : NoDup L -> NoDup (map (cons v) L).
Proof.
  induction 1; cbn [map]; constructor; auto. rewrite in_map_iff. intros (y & E & Hy). inversion E; subst; auto.
Qed.
Lemma NoDup_flat_map_cons (L : list (list Z)) vs : NoDup vs -> NoDup L -> NoDup (flat_map (fun v => map (cons v) L) vs).
Proof.
  induction 1 as [|v vs Hv Hn IH]; intros HL; cbn [flat_map]; [constructor|].
  apply NoDup_app'; auto using NoDup_map_cons.
  intros x Hx Hx'. apply in_map_iff in Hx. destruct Hx as (y & <- & Hy).
  apply in_flat_map in Hx'. destruct Hx' as (w & Hw & Hx'). apply in_map_iff in Hx'. destruct Hx' as (y' & E & _).
  inversion E; subst. auto.
Qed.
Lemma enum_box_NoDup bs : NoDup (enum_box bs).
Proof.
  induction bs as [|bd bs IH]; cbn [enum_box].
  - constructor; [intros []|constructor].
  - apply NoDup_flat_map_cons; auto. apply NoDup_zrange.
Qed.

(* ================================================================== C11: reduce = projection *)
Definition keepm (cs : list (option Z)) : list bool := map is_nan cs.
Definition actm (cs : list (option Z)) : list bool := map (fun c => negb (is_nan c)) cs.
(* the entries of l at the columns that are NOT fixed by cs *)
Definition keep {A} (cs : list (option Z)) (l : list A) : list A := select (keepm cs) l.
(* re-insert the fixed values: the inverse of keep on points that agree with cs (spec side) *)
Fixpoint fill (cs : list (option Z)) (y : list Z) : list Z :=
  match cs with
  | [] => []
  | Some k :: cs' => k :: fill cs' y
  | None :: cs' => match y with v :: y' => v :: fill cs' y' | [] => 0 :: fill cs' [] end
  end.
Definition subst_sum (cs : list (option Z)) (a : list Z) : Z :=
  zsum (zipw Z.mul (select (actm cs) a) (map col_value (select (actm cs) cs))).
Definition row_sub (cs : list (option Z)) (r : list Z) : list Z :=
  (hd 0 r - subst_sum cs (tl r)) :: keep cs (tl r).
(* every reported value lies within the declared bounds of its column *)
Definition cs_in_bounds (cs : list (option Z)) (bs : list (Z * Z)) : Prop :=
  Forall2 (fun c bd => forall k, c = Some k -> fst bd <= k <= snd bd) cs bs.

Lemma reduce_columns_eq P cs :
  reduce_columns P cs = mkPoly (map (row_sub cs) (mat P)) (select (true :: keepm cs) (vars P)) (index P).
Proof. reflexivity. Qed.

Lemma subst_sum_some k cs a0 a : subst_sum (Some k :: cs) (a0 :: a) = a0 * k + subst_sum cs a.
Proof. reflexivity. Qed.
Lemma subst_sum_none cs a0 a : subst_sum (None :: cs) (a0 :: a) = subst_sum cs a.
Proof. reflexivity. Qed.
Lemma keep_some {A} k cs (a0 : A) a : keep (Some k :: cs) (a0 :: a) = keep cs a.
Proof. reflexivity. Qed.
Lemma keep_none {A} cs (a0 : A) a : keep (None :: cs) (a0 :: a) = a0 :: keep cs a.
Proof. reflexivity. Qed.

Lemma select_map {A B} (f : A -> B) m l : select m (map f l) = map f (select m l).
Proof. revert l; induction m as [|c m IH]; intros [|x l]; cbn [select map]; try reflexivity. destruct c; cbn [map]; rewrite IH; reflexivity. Qed.
Lemma select_length_eq {A B} m (l : list A) (l' : list B) :
  List.length l = List.length l' -> List.length (select m l) = List.length (select m l').
Proof.
  revert l l'; induction m as [|c m IH]; intros [|x l] [|y l'] H; cbn [select]; try reflexivity; try discriminate.
  cbn in H. destruct c; cbn [List.length]; rewrite (IH l l') by lia; reflexivity.
Qed.
Lemma select_length_le {A} m (l : list A) : (List.length (select m l) <= List.length l)%nat.
Proof. revert l; induction m as [|c m IH]; intros [|x l]; cbn [select List.length]; try lia. specialize (IH l). destruct c; cbn [List.length]; lia. Qed.
Lemma Forall_select {A} (Q : A -> Prop) m l : Forall Q l -> Forall Q (select m l).
Proof. intros H; revert m; induction H; intros [|c m]; cbn [select]; try constructor. destruct c; [constructor|]; auto. Qed.
Lemma agrees_length cs x : agrees cs x -> List.length cs = List.length x.
Proof. apply Forall2_length'. Qed.

Lemma dot_split cs : forall a x, List.length a = List.length cs -> agrees cs x ->
  dot a x = subst_sum cs a + dot (keep cs a) (keep cs x).
Proof.
  induction cs as [|c cs IH]; intros a x Hl Hag; inversion Hag as [|? v ? x' Hc Hag']; subst.
  - destruct a; [reflexivity|discriminate].
  - destruct a as [|a0 a]; [discriminate|]. cbn in Hl. specialize (IH a x' ltac:(lia) Hag').
    destruct c as [k|].
    + rewrite subst_sum_some, !keep_some. rewrite (Hc k eq_refl). cbn [dot]. lia.
    + rewrite subst_sum_none, !keep_none. cbn [dot]. lia.
Qed.

Lemma agrees_fill cs : forall y, agrees cs (fill cs y).
Proof.
  unfold agrees. induction cs as [|[k|] cs IH]; intros y; cbn [fill].
  - constructor.
  - constructor; auto. intros k' E; inversion E; auto.
  - destruct y; constructor; auto; intros k' E; discriminate.
Qed.
Lemma keep_fill cs : forall y, List.length y = List.length (keep cs cs) -> keep cs (fill cs y) = y.
Proof.
  induction cs as [|[k|] cs IH]; intros y Hl; cbn [fill].
  - destruct y; [reflexivity|discriminate].
  - rewrite keep_some in *. auto.
  - rewrite keep_none in Hl. destruct y as [|v y]; [discriminate|]. rewrite keep_none. f_equal. apply IH. cbn in Hl; lia.
Qed.
Lemma fill_keep cs x : agrees cs x -> fill cs (keep cs x) = x.
Proof.
  induction 1 as [|c v cs x Hc Hag IH]; [reflexivity|]. destruct c as [k|].
  - rewrite keep_some. cbn [fill]. rewrite IH, (Hc k eq_refl). reflexivity.
  - rewrite keep_none. cbn [fill]. rewrite IH. reflexivity.
Qed.
Lemma in_box_keep cs : forall bs x, in_box bs x -> in_box (keep cs bs) (keep cs x).
Proof.
  unfold in_box, keep, keepm. induction cs as [|c cs IH]; intros bs x H; cbn [map select]; [destruct bs; constructor|].
  inversion H; subst; [constructor|]. destruct (is_nan c); [constructor|]; auto.
Qed.
Lemma in_box_fill cs bs : cs_in_bounds cs bs -> forall y, in_box (keep cs bs) y -> in_box bs (fill cs y).
Proof.
  induction 1 as [|c bd cs bs Hc Hcs IH]; intros y Hy; [constructor|]. destruct c as [k|].
  - rewrite keep_some in Hy. cbn [fill]. constructor; [apply Hc; reflexivity | apply IH; assumption].
  - rewrite keep_none in Hy. inversion Hy; subst. cbn [fill]. constructor; [assumption | apply IH; assumption].
Qed.

Lemma row_holds_sub cs r x :
  List.length (tl r) = List.length cs -> agrees cs x -> (row_holds (row_sub cs r) (keep cs x) <-> row_holds r x).
Proof.
  intros Hl Hag. unfold row_holds, row_sub. cbn [hd tl]. rewrite (dot_split cs (tl r) x Hl Hag). lia.
Qed.

(* --- shapes of the reduced polyhedra --- *)
Lemma wf_vars P : wf P -> exists v vs, vars P = v :: vs.
Proof. intros (Hv & _). destruct (vars P) as [|v vs]; [congruence|eauto]. Qed.

Lemma bounds_of_reduce_columns P cs : wf P -> bounds_of (reduce_columns P cs) = keep cs (bounds_of P).
Proof.
  intros Hwf. destruct (wf_vars P Hwf) as (v & vs & E). unfold bounds_of, keep. rewrite reduce_columns_eq. cbn [vars].
  rewrite E. cbn [select tl]. rewrite select_map. reflexivity.
Qed.
Lemma bounds_of_reduce_rows P rs : bounds_of (reduce_rows P rs) = bounds_of P.
Proof. reflexivity. Qed.

Lemma ncols_bounds P : ncols P = List.length (bounds_of P).
Proof. unfold ncols, bounds_of. rewrite map_length. reflexivity. Qed.

Lemma wf_reduce_rows P rs : wf P -> wf (reduce_rows P rs).
Proof.
  intros (Hv & Hr & Hi). unfold wf, reduce_rows. cbn [vars mat index]. repeat split; auto.
  - apply Forall_select; auto.
  - apply select_length_eq; auto.
Qed.
Lemma wf_reduce_columns P cs : wf P -> wf (reduce_columns P cs).
Proof.
  intros Hwf. destruct (wf_vars P Hwf) as (v & vs & E). destruct Hwf as (Hv & Hr & Hi).
  unfold wf. rewrite reduce_columns_eq. cbn [vars mat index]. rewrite E in *. cbn [select]. repeat split.
  - discriminate.
  - rewrite Forall_map. eapply Forall_impl; [|exact Hr]. intros r Hl. unfold row_sub, keep. cbn [List.length] in *.
    f_equal. apply select_length_eq. destruct r; cbn in *; lia.
  - rewrite map_length. auto.
Qed.

(* --- solution sets --- *)
Lemma reduce_columns_sol_fwd P cs x :
  wf P -> List.length cs = ncols P -> sol P x -> agrees cs x -> sol (reduce_columns P cs) (keep cs x).
Proof.
  intros Hwf Hl [Hb Hr] Hag. split.
  - rewrite bounds_of_reduce_columns by assumption. apply in_box_keep; auto.
  - unfold rows_hold in *. rewrite reduce_columns_eq. cbn [mat]. rewrite Forall_map.
    rewrite Forall_forall in *. intros r Hin. apply row_holds_sub; auto.
    rewrite (wf_row_length P r Hwf Hin), <- ncols_bounds. lia.
Qed.
Lemma reduce_columns_sol_bwd P cs y :
  wf P -> List.length cs = ncols P -> cs_in_bounds cs (bounds_of P) ->
  sol (reduce_columns P cs) y -> sol P (fill cs y).
Proof.
  intros Hwf Hl Hcb [Hb Hr]. rewrite bounds_of_reduce_columns in Hb by assumption.
  assert (Hy : keep cs (fill cs y) = y).
  { apply keep_fill. rewrite <- (Forall2_length' _ _ _ Hb). unfold keep. apply select_length_eq.
    rewrite <- ncols_bounds. lia. }
  split.
  - apply in_box_fill; auto.
  - unfold rows_hold in *. rewrite reduce_columns_eq in Hr. cbn [mat] in Hr. rewrite Forall_map in Hr.
    rewrite Forall_forall in *. intros r Hin. specialize (Hr r Hin).
    rewrite <- Hy in Hr. apply row_holds_sub in Hr; auto using agrees_fill.
    rewrite (wf_row_length P r Hwf Hin), <- ncols_bounds. lia.
Qed.

Lemma reduce_rows_sol_fwd P rs x : sol P x -> sol (reduce_rows P rs) x.
Proof. intros [Hb Hr]. split; auto. unfold rows_hold, reduce_rows in *. cbn [mat]. apply Forall_select; auto. Qed.

Lemma Forall_unselect {A} (Q : A -> Prop) l rs :
  Forall2 (fun r f => f = true -> Q r) l rs -> Forall Q (select (map negb rs) l) -> Forall Q l.
Proof.
  induction 1 as [|r f l rs Hf H IH]; intros Hs; [constructor|]. cbn [map select] in Hs.
  destruct f; cbn [negb] in Hs.
  - constructor; auto.
  - inversion Hs; subst. constructor; auto.
Qed.
Lemma reduce_rows_sol_bwd P rs x :
  Forall2 (fun r f => f = true -> row_holds r x) (mat P) rs -> sol (reduce_rows P rs) x -> sol P x.
Proof. intros H [Hb Hr]. split; auto. unfold rows_hold, reduce_rows in *. cbn [mat] in Hr. eapply Forall_unselect; eauto. Qed.

(* The general statement: whenever cs only reports values that every solution has (and that lie
   within the bounds), and rs only flags rows that hold at every in-bounds point agreeing with cs,
   the reduced polyhedron's solutions are exactly the projections of the original solutions. *)
Definition cols_forced (P : poly) (cs : list (option Z)) : Prop := forall x, sol P x -> agrees cs x.
Definition rows_redundant (P : poly) (rs : list bool) (cs : list (option Z)) : Prop :=
  forall x, in_box (bounds_of P) x -> agrees cs x ->
            Forall2 (fun r f => f = true -> row_holds r x) (mat P) rs.

Theorem reduce_projection P rs cs :
  wf P -> List.length cs = ncols P -> cs_in_bounds cs (bounds_of P) ->
  cols_forced P cs -> rows_redundant P rs cs ->
  (forall y, sol (reduce P (Some rs) (Some cs)) y -> sol P (fill cs y)) /\
  (forall x, sol P x -> sol (reduce P (Some rs) (Some cs)) (keep cs x) /\ fill cs (keep cs x) = x).
Proof.
  intros Hwf Hl Hcb Hf Hrr. cbn [reduce]. split.
  - intros y Hy. apply reduce_columns_sol_bwd in Hy; auto using wf_reduce_rows.
    eapply reduce_rows_sol_bwd; [|exact Hy]. apply Hrr; [apply Hy | apply agrees_fill].
  - intros x Hx. pose proof (Hf x Hx) as Hag. split; [|apply fill_keep; auto].
    apply reduce_columns_sol_fwd; auto using wf_reduce_rows, reduce_rows_sol_fwd.
Qed.

Lemma Forall2_map_l {A B C} (R : B -> C -> Prop) (g : A -> B) l l' :
  Forall2 R (map g l) l' -> Forall2 (fun a c => R (g a) c) l l'.
Proof. revert l'; induction l; intros l' H; inversion H; subst; constructor; auto. Qed.
Lemma Forall2_impl_In {A B} (R R' : A -> B -> Prop) l l' :
  Forall2 R l l' -> (forall a c, In a l -> R a c -> R' a c) -> Forall2 R' l l'.
Proof. induction 1; intros HI; constructor; [apply HI; [left; auto|auto] | apply IHForall2; intros; apply HI; [right; auto|auto]]. Qed.
Lemma In_select {A} m : forall (l : list A) x, In x (select m l) -> In x l.
Proof.
  induction m as [|c m IH]; intros l x H; [destruct l; destruct H|]. destruct l as [|y l]; [destruct H|].
  cbn [select] in H. destruct c.
  - destruct H as [H|H]; [left; auto|right; apply IH; auto].
  - right; apply IH; auto.
Qed.


(* ---------------- one step: reducable_rows + reducable_columns_approx of the same matrix -------- *)
Lemma cs_in_bounds_of_tight bs : forall lb ub,
  Forall2 (fun bd l => fst bd <= l) bs lb -> Forall2 (fun bd u => u <= snd bd) bs ub ->
  cs_in_bounds (zipw (fun l u => if l =? u then Some l else None) lb ub) bs.
Proof.
  unfold cs_in_bounds. induction bs as [|bd bs IH]; intros lb ub H1 H2; inversion H1; inversion H2; subst; cbn [zipw]; constructor.
  - intros k. case_if; intros E; inversion E; subst. lia.
  - apply IH; auto.
Qed.
Lemma rca_core_in_bounds P : wf P -> mat P <> [] -> cs_in_bounds (rca_core P) (bounds_of P).
Proof.
  intros Hwf Hne. destruct (tcb_core_no_widen P Hwf Hne) as [H1 H2]. unfold rca_core.
  destruct (tcb_core P) as [lb ub]. cbn [fst snd] in *. apply cs_in_bounds_of_tight; auto.
Qed.
Lemma rca_core_length P : wf P -> mat P <> [] -> List.length (rca_core P) = ncols P.
Proof. intros Hwf Hne. rewrite ncols_bounds. apply (Forall2_length' _ _ _ (rca_core_in_bounds P Hwf Hne)). Qed.
Lemma rr_core_length P : List.length (rr_core P) = nrows P.
Proof. rewrite rr_core_eq, map_length. reflexivity. Qed.

Lemma rr_core_redundant P cs : rows_redundant P (rr_core P) cs.
Proof.
  intros x Hx _. eapply Forall2_impl_In; [apply rr_core_sound|]. cbn beta. intros r f _ H Hf. apply H; auto.
Qed.

Theorem reduce_step_projection P :
  wf P -> default_range (bounds_of P) -> mat P <> [] ->
  (forall y, sol (reduce P (Some (rr_core P)) (Some (rca_core P))) y -> sol P (fill (rca_core P) y)) /\
  (forall x, sol P x -> sol (reduce P (Some (rr_core P)) (Some (rca_core P))) (keep (rca_core P) x)
                        /\ fill (rca_core P) (keep (rca_core P) x) = x).
Proof.
  intros Hwf Hr Hne. apply reduce_projection; auto using rca_core_length, rca_core_in_bounds, rr_core_redundant.
  intros x Hx. apply rca_core_forced; auto.
Qed.

(* ---------------- the loop: merging reductions ---------------- *)
Definition merge_cols (c1 c2 : list (option Z)) : list (option Z) := assign_mask (map is_nan c1) c1 c2.
Definition merge_rows (r1 r2 : list bool) : list bool := assign_mask (map negb r1) r1 r2.

Lemma assign_mask_length {A} m : forall (f v : list A), List.length (assign_mask m f v) = List.length f.
Proof.
  induction m as [|c m IH]; intros [|x f] v; cbn [assign_mask]; try reflexivity.
  destruct c; [destruct v|]; cbn [List.length]; rewrite IH; reflexivity.
Qed.

Lemma select_assign {A B} (kp : A -> bool) (f : list A) : forall (v : list A) (l : list B),
  List.length l = List.length f -> List.length v = List.length (select (map kp f) l) ->
  select (map kp (assign_mask (map kp f) f v)) l = select (map kp v) (select (map kp f) l).
Proof.
  induction f as [|a f IH]; intros v l Hl Hv.
  - destruct l; [|discriminate]. cbn in *. destruct v; [reflexivity|discriminate].
  - destruct l as [|b0 l]; [discriminate|]. cbn [map assign_mask select] in *. destruct (kp a) eqn:E.
    + destruct v as [|v0 v]; [discriminate|]. cbn [map select List.length] in *. rewrite (IH v l) by lia. reflexivity.
    + cbn [map select]. rewrite E. apply IH; cbn in *; lia.
Qed.

Lemma merge_cols_some k c1 c2 : merge_cols (Some k :: c1) c2 = Some k :: merge_cols c1 c2.
Proof. reflexivity. Qed.
Lemma merge_cols_none_cons c1 v c2 : merge_cols (None :: c1) (v :: c2) = v :: merge_cols c1 c2.
Proof. reflexivity. Qed.
Lemma merge_cols_none_nil c1 : merge_cols (None :: c1) [] = None :: merge_cols c1 [].
Proof. reflexivity. Qed.

Lemma subst_sum_merge c1 : forall c2 a,
  List.length a = List.length c1 -> List.length c2 = List.length (keep c1 c1) ->
  subst_sum (merge_cols c1 c2) a = subst_sum c1 a + subst_sum c2 (keep c1 a).
Proof.
  induction c1 as [|[k|] c1 IH]; intros c2 a Ha Hc.
  - destruct a; [|discriminate]. destruct c2; [reflexivity|discriminate].
  - destruct a as [|a0 a]; [discriminate|]. rewrite merge_cols_some, !subst_sum_some, !keep_some in *.
    rewrite IH by (cbn in *; lia). lia.
  - destruct a as [|a0 a]; [discriminate|]. rewrite keep_none in Hc. destruct c2 as [|v c2]; [discriminate|].
    rewrite merge_cols_none_cons, subst_sum_none, keep_none. cbn [List.length] in *.
    destruct v as [k|].
    + rewrite !subst_sum_some. rewrite IH by lia. lia.
    + rewrite !subst_sum_none. rewrite IH by lia. lia.
Qed.

Lemma keep_merge {B} c1 c2 (l : list B) :
  List.length l = List.length c1 -> List.length c2 = List.length (keep c1 c1) ->
  keep (merge_cols c1 c2) l = keep c2 (keep c1 l).
Proof.
  intros Hl Hc. unfold keep, keepm, merge_cols. apply select_assign; auto.
  rewrite Hc. unfold keep, keepm. apply select_length_eq. lia.
Qed.

Lemma Forall2_merge {B} (R : option Z -> B -> Prop) c1 l :
  Forall2 R c1 l -> forall c2, Forall2 R c2 (keep c1 l) -> Forall2 R (merge_cols c1 c2) l.
Proof.
  induction 1 as [|c b0 c1 l Hc H IH]; intros c2 H2.
  - constructor.
  - destruct c as [k|].
    + rewrite keep_some in H2. rewrite merge_cols_some. constructor; auto.
    + rewrite keep_none in H2. inversion H2; subst. rewrite merge_cols_none_cons. constructor; auto.
Qed.

Lemma agrees_merge_inv c1 : forall c2 x, agrees (merge_cols c1 c2) x -> agrees c1 x.
Proof.
  unfold agrees. induction c1 as [|[k|] c1 IH]; intros c2 x H.
  - cbn in H. exact H.
  - rewrite merge_cols_some in H. inversion H; subst. constructor; eauto.
  - destruct c2 as [|v c2]; [rewrite merge_cols_none_nil in H | rewrite merge_cols_none_cons in H];
      inversion H; subst; constructor; eauto; intros k E; discriminate.
Qed.

Lemma row_sub_compose c1 c2 r :
  List.length (tl r) = List.length c1 -> List.length c2 = List.length (keep c1 c1) ->
  row_sub c2 (row_sub c1 r) = row_sub (merge_cols c1 c2) r.
Proof.
  intros Hl Hc. unfold row_sub. cbn [hd tl]. rewrite subst_sum_merge, keep_merge by assumption. f_equal. lia.
Qed.

Lemma reduce_columns_compose Q c1 c2 :
  wf Q -> List.length c1 = ncols Q -> List.length c2 = List.length (keep c1 c1) ->
  reduce_columns (reduce_columns Q c1) c2 = reduce_columns Q (merge_cols c1 c2).
Proof.
  intros Hwf H1 H2. rewrite !reduce_columns_eq. cbn [mat vars index]. f_equal.
  - rewrite map_map. apply map_ext_in. intros r Hin. apply row_sub_compose; auto.
    rewrite (wf_row_length Q r Hwf Hin), <- ncols_bounds. lia.
  - destruct (wf_vars Q Hwf) as (v & vs & E). unfold ncols in H1. rewrite E in *. cbn [select tl] in *. f_equal.
    symmetry. apply (keep_merge c1 c2 vs); auto.
Qed.

Lemma reduce_rows_columns_comm Q c r :
  reduce_rows (reduce_columns Q c) r = reduce_columns (reduce_rows Q r) c.
Proof. rewrite !reduce_columns_eq. unfold reduce_rows. cbn [mat vars index]. rewrite select_map. reflexivity. Qed.

Lemma reduce_rows_compose Q r1 r2 :
  List.length (mat Q) = List.length r1 -> List.length (index Q) = List.length r1 ->
  List.length r2 = List.length (select (map negb r1) (mat Q)) ->
  reduce_rows (reduce_rows Q r1) r2 = reduce_rows Q (merge_rows r1 r2).
Proof.
  intros H1 H2 H3. unfold reduce_rows, merge_rows. cbn [mat vars index]. f_equal.
  - symmetry. apply select_assign; auto.
  - symmetry. apply select_assign; auto. rewrite H3. apply select_length_eq. lia.
Qed.

Lemma Forall2_assign_rows {A} (Q : A -> Prop) l fr :
  Forall2 (fun r f => f = true -> Q r) l fr -> forall rr,
  Forall2 (fun r f => f = true -> Q r) (select (map negb fr) l) rr ->
  Forall2 (fun r f => f = true -> Q r) l (merge_rows fr rr).
Proof.
  unfold merge_rows. induction 1 as [|r f l fr Hf H IH]; intros rr Hrr.
  - constructor.
  - cbn [map select assign_mask] in *. destruct f; cbn [negb] in *.
    + constructor; auto.
    + inversion Hrr; subst. constructor; auto.
Qed.

(* ---------------- the loop invariant ---------------- *)
Record loop_inv (P : poly) (fc : list (option Z)) (fr : list bool) : Prop := mkInv {
  li_lenc : List.length fc = ncols P;
  li_lenr : List.length fr = nrows P;
  li_inb : cs_in_bounds fc (bounds_of P);
  li_forced : cols_forced P fc;
  li_rows : rows_redundant P fr fc }.

Lemma rrc_loop_S fuel M rc rw fc fr :
  rrc_loop (S fuel) M rc rw fc fr =
  if existsb (fun c => negb (is_nan c)) rc || existsb (fun r => r) rw then
    if Nat.eqb (ncols (reduce_columns M rc)) 0 then LoopOk fr (merge_cols fc rc) else
    if Nat.eqb (nrows (reduce_rows (reduce_columns M rc) (rr_core (reduce_columns M rc)))) 0
    then LoopOk (merge_rows fr (rr_core (reduce_columns M rc))) (merge_cols fc rc)
    else rrc_loop fuel (reduce_rows (reduce_columns M rc) (rr_core (reduce_columns M rc)))
           (rca_core (reduce_rows (reduce_columns M rc) (rr_core (reduce_columns M rc))))
           (rr_core (reduce_rows (reduce_columns M rc) (rr_core (reduce_columns M rc))))
           (merge_cols fc rc) (merge_rows fr (rr_core (reduce_columns M rc)))
  else LoopOk fr fc.
Proof. reflexivity. Qed.

Lemma default_range_keep cs bs : default_range bs -> default_range (keep cs bs).
Proof. apply Forall_select. Qed.

Lemma degenerate_iff P : degenerate P = false <-> (nrows P <> 0 /\ ncols P <> 0)%nat.
Proof. unfold degenerate. destruct (Nat.eqb_spec (nrows P) 0), (Nat.eqb_spec (ncols P) 0); cbn; split; try tauto; try discriminate; intros [? ?]; congruence. Qed.

Lemma loop_step_cols P M fc fr :
  wf P -> default_range (bounds_of P) ->
  M = reduce P (Some fr) (Some fc) -> degenerate M = false -> loop_inv P fc fr ->
  loop_inv P (merge_cols fc (rca_core M)) fr /\
  reduce_columns M (rca_core M) = reduce P (Some fr) (Some (merge_cols fc (rca_core M))).
Proof.
  intros Hwf Hr HM Hd [Hlc Hlr Hinb Hforced Hrows].
  assert (HwfQ : wf (reduce_rows P fr)) by (apply wf_reduce_rows; auto).
  assert (HwfM : wf M) by (subst M; apply wf_reduce_columns; auto).
  assert (HbM : bounds_of M = keep fc (bounds_of P)).
  { subst M. cbn [reduce]. rewrite bounds_of_reduce_columns by auto. reflexivity. }
  destruct (degenerate_false M Hd) as [HneM _].
  assert (HrM : default_range (bounds_of M)) by (rewrite HbM; apply default_range_keep; auto).
  pose proof (rca_core_in_bounds M HwfM HneM) as Hred_inb. rewrite HbM in Hred_inb.
  assert (Hred_len : List.length (rca_core M) = List.length (keep fc fc)).
  { rewrite (rca_core_length M HwfM HneM), ncols_bounds, HbM. unfold keep. apply select_length_eq.
    rewrite <- ncols_bounds. lia. }
  destruct (reduce_projection P fr fc Hwf Hlc Hinb Hforced Hrows) as [_ Hproj]. rewrite <- HM in Hproj.
  split.
  - constructor; auto.
    + unfold merge_cols. rewrite assign_mask_length. auto.
    + apply Forall2_merge; auto.
    + intros x Hx. destruct (Hproj x Hx) as [HsM _]. apply Forall2_merge; [apply Hforced; auto|].
      apply rca_core_forced; auto.
    + intros x Hx Hag. apply Hrows; auto. eapply agrees_merge_inv; eauto.
  - subst M. cbn [reduce]. apply reduce_columns_compose; auto.
Qed.

Lemma loop_step_rows P fc fr :
  wf P -> loop_inv P fc fr ->
  let M1 := reduce P (Some fr) (Some fc) in
  loop_inv P fc (merge_rows fr (rr_core M1)) /\
  reduce_rows M1 (rr_core M1) = reduce P (Some (merge_rows fr (rr_core M1))) (Some fc).
Proof.
  intros Hwf [Hlc Hlr Hinb Hforced Hrows] M1.
  assert (Hmat : mat M1 = map (row_sub fc) (select (map negb fr) (mat P))) by reflexivity.
  assert (HbM : bounds_of M1 = keep fc (bounds_of P)).
  { unfold M1. cbn [reduce]. rewrite bounds_of_reduce_columns by (apply wf_reduce_rows; auto). reflexivity. }
  pose proof Hwf as (Hv & Hrw & Hix).
  split.
  - constructor; auto.
    + unfold merge_rows. rewrite assign_mask_length. auto.
    + intros x Hx Hag. apply Forall2_assign_rows; [apply Hrows; auto|].
      pose proof (rr_core_sound M1) as Hs. rewrite Hmat in Hs. apply Forall2_map_l in Hs.
      eapply Forall2_impl_In; [exact Hs|]. cbn beta. intros r f Hin H Hf.
      specialize (H Hf (keep fc x)). rewrite HbM in H. specialize (H (in_box_keep fc _ _ Hx)).
      apply row_holds_sub in H; auto. apply In_select in Hin.
      rewrite (wf_row_length P r Hwf Hin), <- ncols_bounds. lia.
  - unfold M1. cbn [reduce]. rewrite reduce_rows_columns_comm. f_equal.
    apply reduce_rows_compose; unfold nrows in *; try lia.
    rewrite rr_core_length. unfold nrows. change (reduce_columns (reduce_rows P fr) fc) with M1. rewrite Hmat, map_length. reflexivity.
Qed.

Lemma rrc_loop_inv P :
  wf P -> default_range (bounds_of P) -> forall fuel M fc fr rs cs,
  M = reduce P (Some fr) (Some fc) -> degenerate M = false -> loop_inv P fc fr ->
  rrc_loop fuel M (rca_core M) (rr_core M) fc fr = LoopOk rs cs -> loop_inv P cs rs.
Proof.
  intros Hwf Hr. induction fuel as [|fuel IH]; intros M fc fr rs cs HM Hd Hinv Hloop.
  - cbn [rrc_loop] in Hloop. case_if_in Hloop; [discriminate|]. inversion Hloop; subst; auto.
  - rewrite rrc_loop_S in Hloop. case_if_in Hloop; [|inversion Hloop; subst; auto].
    destruct (loop_step_cols P M fc fr Hwf Hr HM Hd Hinv) as [Hinv1 HM1].
    destruct (Nat.eqb (ncols (reduce_columns M (rca_core M))) 0) eqn:E1; [inversion Hloop; subst; auto|].
    rewrite HM1 in *.
    destruct (loop_step_rows P _ fr Hwf Hinv1) as [Hinv2 HM2]. cbv zeta in Hinv2, HM2.
    destruct (Nat.eqb (nrows (reduce_rows _ _)) 0) eqn:E2 in Hloop; [inversion Hloop; subst; auto|].
    eapply IH; [exact HM2| |exact Hinv2|exact Hloop].
    apply degenerate_iff. apply Nat.eqb_neq in E1, E2. split; auto.
Qed.

(* ---------------- entering the loop: nothing reduced yet ---------------- *)
Lemma select_all_true {A} (l : list A) : forall n, List.length l = n -> select (repeat true n) l = l.
Proof. induction l as [|x l IH]; intros [|n] H; try discriminate; cbn [repeat select]; [reflexivity|]. f_equal. apply IH. cbn in H; lia. Qed.
Lemma subst_sum_all_none n : forall a, subst_sum (repeat None n) a = 0.
Proof. induction n as [|n IH]; intros [|a0 a]; try reflexivity. cbn [repeat]. rewrite subst_sum_none. apply IH. Qed.
Lemma keepm_all_none n : keepm (repeat None n) = repeat true n.
Proof. unfold keepm. induction n; cbn; congruence. Qed.
Lemma map_negb_all_false n : map negb (repeat false n) = repeat true n.
Proof. induction n; cbn; congruence. Qed.

Lemma reduce_columns_all_none P : wf P -> reduce_columns P (repeat None (ncols P)) = P.
Proof.
  intros Hwf. destruct (wf_vars P Hwf) as (v & vs & E). rewrite reduce_columns_eq. rewrite keepm_all_none.
  destruct P as [m vr ix]. cbn [mat vars index ncols] in *. subst vr. cbn [tl select]. f_equal.
  - transitivity (map (fun r : list Z => r) m); [|apply map_id]. apply map_ext_in. intros r Hin.
    pose proof (wf_row_length _ r Hwf Hin) as Hl. unfold bounds_of in Hl. cbn [vars tl] in Hl. rewrite map_length in Hl.
    destruct Hwf as (_ & Hr & _). cbn [mat vars] in Hr. rewrite Forall_forall in Hr. specialize (Hr r Hin).
    destruct r as [|b0 a]; [discriminate|]. unfold row_sub, keep. cbn [hd tl] in *.
    rewrite subst_sum_all_none, keepm_all_none, select_all_true by assumption. f_equal. lia.
  - f_equal. apply select_all_true. reflexivity.
Qed.
Lemma reduce_rows_all_false P : wf P -> reduce_rows P (repeat false (nrows P)) = P.
Proof.
  intros (_ & _ & Hi). unfold reduce_rows. rewrite map_negb_all_false. destruct P as [m vr ix]. cbn [mat vars index nrows] in *.
  rewrite !select_all_true by auto. reflexivity.
Qed.

Lemma loop_inv_init P : wf P -> loop_inv P (repeat None (ncols P)) (repeat false (nrows P)).
Proof.
  intros Hwf. constructor.
  - apply repeat_length.
  - apply repeat_length.
  - unfold cs_in_bounds. rewrite ncols_bounds. induction (bounds_of P); cbn; constructor; auto. intros k E; discriminate.
  - intros x [Hb _]. unfold agrees. apply Forall2_length' in Hb. rewrite ncols_bounds, Hb. clear.
    induction x; cbn; constructor; auto. intros k E; discriminate.
  - intros x _ _. unfold nrows. induction (mat P); cbn; constructor; auto. intros E; discriminate.
Qed.

Theorem rrc_sound P rs cs :
  wf P -> default_range (bounds_of P) -> reducable_rows_and_columns P = LoopOk rs cs -> loop_inv P cs rs.
Proof.
  unfold reducable_rows_and_columns. intros Hwf Hr H. destruct (degenerate P) eqn:Hd; [discriminate|].
  eapply (rrc_loop_inv P Hwf Hr); [ |exact Hd|apply loop_inv_init; auto|exact H].
  cbn [reduce]. rewrite reduce_rows_all_false, reduce_columns_all_none; auto.
Qed.

(* what the caller sees *)
Theorem rrc_cols_forced P rs cs :
  wf P -> default_range (bounds_of P) -> reducable_rows_and_columns P = LoopOk rs cs ->
  List.length cs = ncols P /\ cs_in_bounds cs (bounds_of P) /\ forall x, sol P x -> agrees cs x.
Proof. intros Hwf Hr H. destruct (rrc_sound P rs cs Hwf Hr H). auto. Qed.

Theorem rrc_rows_redundant P rs cs :
  wf P -> default_range (bounds_of P) -> reducable_rows_and_columns P = LoopOk rs cs ->
  List.length rs = nrows P /\
  forall x, in_box (bounds_of P) x -> agrees cs x -> Forall2 (fun r f => f = true -> row_holds r x) (mat P) rs.
Proof. intros Hwf Hr H. destruct (rrc_sound P rs cs Hwf Hr H). auto. Qed.

Theorem rrc_reduce_projection P rs cs :
  wf P -> default_range (bounds_of P) -> reducable_rows_and_columns P = LoopOk rs cs ->
  (forall y, sol (reduce P (Some rs) (Some cs)) y -> sol P (fill cs y)) /\
  (forall x, sol P x -> sol (reduce P (Some rs) (Some cs)) (keep cs x) /\ fill cs (keep cs x) = x).
Proof. intros Hwf Hr H. destruct (rrc_sound P rs cs Hwf Hr H). apply reduce_projection; auto. Qed.

Corollary rrc_reduce_empty_iff P rs cs :
  wf P -> default_range (bounds_of P) -> reducable_rows_and_columns P = LoopOk rs cs ->
  ((exists x, sol P x) <-> (exists y, sol (reduce P (Some rs) (Some cs)) y)).
Proof.
  intros Hwf Hr H. destruct (rrc_reduce_projection P rs cs Hwf Hr H) as [H1 H2]. split.
  - intros [x Hx]. exists (keep cs x). apply H2; auto.
  - intros [y Hy]. exists (fill cs y). apply H1; auto.
Qed.

(* ---------------- bookkeeping: index and variables of the reduced polyhedron ---------------- *)
Theorem reduce_bookkeeping P rs cs :
  wf P ->
  let R := reduce P (Some rs) (Some cs) in
  wf R /\
  index R = select (map negb rs) (index P) /\
  mat R = map (row_sub cs) (select (map negb rs) (mat P)) /\
  vars R = firstn 1 (vars P) ++ keep cs (tl (vars P)) /\
  bounds_of R = keep cs (bounds_of P).
Proof.
  intros Hwf R. assert (HwfQ : wf (reduce_rows P rs)) by (apply wf_reduce_rows; auto).
  repeat split; try reflexivity.
  - apply wf_reduce_columns; auto.
  - apply wf_reduce_columns; auto.
  - apply wf_reduce_columns; auto.
  - destruct (wf_vars P Hwf) as (v & vs & E). unfold R. cbn [reduce]. rewrite reduce_columns_eq. cbn [vars reduce_rows].
    rewrite E. reflexivity.
  - unfold R. cbn [reduce]. rewrite bounds_of_reduce_columns by auto. reflexivity.
Qed.

(* ---------------- C11_fuel: the loop never runs out of fuel ---------------- *)
Lemma existsb_map {A B} (f : A -> B) (g : B -> bool) l : existsb g (map f l) = existsb (fun x => g (f x)) l.
Proof. induction l; cbn; congruence. Qed.
Lemma select_shorter {A} m : forall (l : list A),
  List.length m = List.length l -> existsb negb m = true -> (List.length (select m l) < List.length l)%nat.
Proof.
  induction m as [|c m IH]; intros [|x l] Hl He; try discriminate. cbn [existsb select List.length] in *.
  destruct c; cbn [negb orb List.length] in *.
  - specialize (IH l ltac:(lia) He). lia.
  - pose proof (select_length_le m l). lia.
Qed.
Lemma all_none_repeat (cs : list (option Z)) : existsb (fun c => negb (is_nan c)) cs = false -> cs = repeat None (List.length cs).
Proof. induction cs as [|[k|] cs IH]; cbn; intros H; try discriminate; [reflexivity|]. f_equal. auto. Qed.

Lemma ncols_reduce_columns P cs : wf P -> ncols (reduce_columns P cs) = List.length (keep cs (bounds_of P)).
Proof. intros Hwf. rewrite ncols_bounds, bounds_of_reduce_columns; auto. Qed.

Lemma rrc_loop_fuel : forall fuel M fc fr,
  wf M -> degenerate M = false -> (nrows M + ncols M < fuel)%nat ->
  rrc_loop fuel M (rca_core M) (rr_core M) fc fr <> LoopFuel.
Proof.
  induction fuel as [|fuel IH]; intros M fc fr Hwf Hd Hlt; [lia|].
  rewrite rrc_loop_S. destruct (degenerate_false M Hd) as [Hne _].
  pose proof (rca_core_length M Hwf Hne) as Hlen.
  case_if; [|discriminate].
  set (M1 := reduce_columns M (rca_core M)) in *.
  case_if; [discriminate|].
  set (M2 := reduce_rows M1 (rr_core M1)) in *.
  case_if; [discriminate|].
  assert (HwfM1 : wf M1) by (apply wf_reduce_columns; auto).
  assert (HwfM2 : wf M2) by (apply wf_reduce_rows; auto).
  assert (Hc1 : (ncols M1 <= ncols M)%nat).
  { unfold M1. rewrite ncols_reduce_columns, ncols_bounds by auto. apply select_length_le. }
  assert (Hr1 : nrows M1 = nrows M) by (unfold M1, nrows; rewrite reduce_columns_eq; cbn [mat]; apply map_length).
  assert (Hc2 : ncols M2 = ncols M1) by reflexivity.
  assert (Hr2 : (nrows M2 <= nrows M1)%nat) by (unfold M2, nrows, reduce_rows; cbn [mat]; apply select_length_le).
  apply IH; auto.
  - apply degenerate_iff. split; [apply Nat.eqb_neq; assumption | rewrite Hc2; apply Nat.eqb_neq; assumption].
  - enough (nrows M2 + ncols M2 < nrows M + ncols M)%nat by lia.
    destruct (existsb (fun c => negb (is_nan c)) (rca_core M)) eqn:Ec.
    + assert (ncols M1 < ncols M)%nat; [|lia].
      unfold M1. rewrite ncols_reduce_columns, ncols_bounds by auto. unfold keep. apply select_shorter.
      * unfold keepm. rewrite map_length, <- ncols_bounds. auto.
      * unfold keepm. rewrite existsb_map. exact Ec.
    + assert (HM1 : M1 = M).
      { unfold M1. rewrite (all_none_repeat _ Ec), Hlen. apply reduce_columns_all_none; auto. }
      assert (nrows M2 < nrows M1)%nat; [|lia].
      unfold M2, nrows, reduce_rows. cbn [mat]. apply select_shorter.
      * rewrite map_length, rr_core_length. reflexivity.
      * rewrite existsb_map. rewrite HM1. cbn [orb] in *.
        match goal with H : existsb (fun r => r) (rr_core M) = true |- _ => rewrite <- H end.
        clear. induction (rr_core M) as [|c l IHl]; cbn; [reflexivity|]. rewrite IHl. destruct c; reflexivity.
Qed.

Theorem rrc_never_out_of_fuel P : wf P -> reducable_rows_and_columns P <> LoopFuel.
Proof.
  unfold reducable_rows_and_columns. intros Hwf. destruct (degenerate P) eqn:Hd; [discriminate|].
  apply rrc_loop_fuel; auto; unfold rrc_fuel; lia.
Qed.

Lemma rrc_loop_no_raise : forall n M rc rw fc fr, rrc_loop n M rc rw fc fr <> LoopRaise.
Proof.
  induction n as [|n IH]; intros M rc rw fc fr; cbn [rrc_loop].
  - repeat case_if; discriminate.
  - repeat case_if; try discriminate. apply IH.
Qed.

(* it raises exactly on matrices without rows or without columns, otherwise it returns *)
Theorem rrc_total P : wf P -> degenerate P = false -> exists rs cs, reducable_rows_and_columns P = LoopOk rs cs.
Proof.
  intros Hwf Hd. pose proof (rrc_never_out_of_fuel P Hwf) as H. unfold reducable_rows_and_columns in *. rewrite Hd in *.
  destruct (rrc_loop _ _ _ _ _ _) as [rs cs| |] eqn:E; [eauto| |congruence].
  exfalso. eapply rrc_loop_no_raise; eauto.
Qed.

Theorem reducable_rows_exact P rs :
  Forall (fun bd => fst bd <= snd bd) (bounds_of P) -> reducable_rows P = Some rs ->
  Forall2 (fun r flag => flag = true <-> forall x, in_box (bounds_of P) x -> row_holds r x) (mat P) rs.
Proof. unfold reducable_rows. intros Hp. case_if; intros E; inversion E; subst. apply rr_core_exact; auto. Qed.

Theorem rrc_loop_summary P rs cs :
  wf P -> default_range (bounds_of P) -> reducable_rows_and_columns P = LoopOk rs cs ->
  (List.length cs = ncols P /\ cs_in_bounds cs (bounds_of P) /\ forall x, sol P x -> agrees cs x) /\
  (List.length rs = nrows P /\
   forall x, in_box (bounds_of P) x -> agrees cs x -> Forall2 (fun r f => f = true -> row_holds r x) (mat P) rs).
Proof. intros Hwf Hr H. split; [eapply rrc_cols_forced | eapply rrc_rows_redundant]; eauto. Qed.

Theorem rrc_reduce_full P rs cs :
  wf P -> default_range (bounds_of P) -> reducable_rows_and_columns P = LoopOk rs cs ->
  (forall y, sol (reduce P (Some rs) (Some cs)) y -> sol P (fill cs y)) /\
  (forall x, sol P x -> sol (reduce P (Some rs) (Some cs)) (keep cs x) /\ fill cs (keep cs x) = x) /\
  ((exists x, sol P x) <-> (exists y, sol (reduce P (Some rs) (Some cs)) y)).
Proof.
  intros Hwf Hr H. destruct (rrc_reduce_projection P rs cs Hwf Hr H) as [H1 H2].
  split; [exact H1|]. split; [exact H2|]. exact (rrc_reduce_empty_iff P rs cs Hwf Hr H).
Qed.

Theorem rrc_fuel_total P :
  wf P -> reducable_rows_and_columns P <> LoopFuel /\
          (degenerate P = false -> exists rs cs, reducable_rows_and_columns P = LoopOk rs cs).
Proof. intros Hwf. split; [apply rrc_never_out_of_fuel | apply rrc_total]; auto. Qed.

(* ---------------- A_max / A_min / column_bounds by their meaning ---------------- *)
Theorem extremes_spec P :
  Forall (fun bd => fst bd <= snd bd) (bounds_of P) ->
  column_bounds P = (map fst (bounds_of P), map snd (bounds_of P)) /\
  A_max P = map (fun r => zipw (fun bd c => Z.max (fst bd * c) (snd bd * c)) (bounds_of P) (tl r)) (mat P) /\
  A_min P = map (fun r => zipw (fun bd c => Z.min (fst bd * c) (snd bd * c)) (bounds_of P) (tl r)) (mat P).
Proof.
  intros Hp. unfold column_bounds. rewrite cb_lo_eq, cb_hi_eq, A_max_eq, A_min_eq. repeat split.
  - apply map_ext; intros r. generalize (tl r). induction Hp as [|bd bs Hb Hbs IH]; intros [|c a]; cbn [zipw]; try reflexivity.
    rewrite IH, amax_t_eq by assumption. reflexivity.
  - apply map_ext; intros r. generalize (tl r). induction Hp as [|bd bs Hb Hbs IH]; intros [|c a]; cbn [zipw]; try reflexivity.
    rewrite IH, amin_t_eq by assumption. reflexivity.
Qed.

(* ---------------- reduce with only one of the two vectors ---------------- *)
Theorem reduce_rows_only P rs :
  (forall x, in_box (bounds_of P) x -> Forall2 (fun r f => f = true -> row_holds r x) (mat P) rs) ->
  forall x, sol (reduce P (Some rs) None) x <-> sol P x.
Proof.
  intros H x. cbn [reduce]. split.
  - intros Hs. eapply reduce_rows_sol_bwd; [|exact Hs]. apply H. apply Hs.
  - apply reduce_rows_sol_fwd.
Qed.

Theorem reduce_columns_only P cs :
  wf P -> List.length cs = ncols P -> cs_in_bounds cs (bounds_of P) -> (forall x, sol P x -> agrees cs x) ->
  (forall y, sol (reduce P None (Some cs)) y -> sol P (fill cs y)) /\
  (forall x, sol P x -> sol (reduce P None (Some cs)) (keep cs x) /\ fill cs (keep cs x) = x).
Proof.
  intros Hwf Hl Hcb Hf. cbn [reduce]. split.
  - intros y Hy. apply reduce_columns_sol_bwd; auto.
  - intros x Hx. split; [apply reduce_columns_sol_fwd; auto | apply fill_keep; auto].
Qed.
