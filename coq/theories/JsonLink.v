(* JsonLink.v — since fix D16 (All counts every operand) no All(...) rebuilt by from_json can have two
   arguments merged: the guards all_unmerged / stingy_unmerged of the C16 theorems hold for EVERY document. *)
Require Import Puan.Base Puan.Plog Puan.Sem Puan.Cons Puan.Json Puan.JsonFacts.

Lemma set_len_eqb ps : (set_len ps =? Z.of_nat (List.length ps)) = true.
Proof. unfold set_len. apply Z.eqb_refl. Qed.

Theorem all_unmerged_true genid cfg n : forall j, all_unmerged genid cfg n j = true.
Proof.
  induction n as [|n IH]; intros j; [reflexivity|]. cbn [all_unmerged].
  destruct j as [z|s|l0|f]; try reflexivity.
  assert (Hsub : forall k, match alookup k f with Some x => all_unmerged genid cfg n x | None => true end = true).
  { intros k. destruct (alookup k f); auto. }
  rewrite !Hsub, !andb_true_r.
  destruct (alookup "propositions" f) as [[z|s|l|f0]|]; try reflexivity.
  apply andb_true_iff. split.
  - apply forallb_forall. intros x _. apply IH.
  - destruct (alookup "type" f) as [[z|t|l1|f1]|]; try reflexivity.
    destruct (String.eqb t "All"); [|reflexivity].
    destruct (mapM (from_json genid cfg n) l); [apply set_len_eqb|reflexivity].
Qed.

Theorem stingy_unmerged_true genid n j : stingy_unmerged genid n j = true.
Proof.
  unfold stingy_unmerged. destruct j as [z|s|l0|f]; try reflexivity.
  destruct (alookup "propositions" f) as [[z|s|l|f0]|]; try reflexivity.
  apply andb_true_iff. split.
  - apply forallb_forall. intros x _. apply all_unmerged_true.
  - destruct (mapM (from_json genid true n) l); [apply set_len_eqb|reflexivity].
Qed.
