(* ConfigObjFacts.v — proofs for C14: the objective shadow [default_prio_vector; user prios]
   ranks 0/1 points lexicographically; which columns the constructors tag with -2. *)
Require Import Puan.Base Puan.Plog Puan.Sem Puan.SemFacts Puan.Compress Puan.CompressSpec Puan.CompressFacts Puan.ConfigObj.

(* ---------------------------------------------------------------- the levels of a 2-row priority array *)
Lemma column_two dpv u j : column [dpv; u] j = [nth j dpv 0; nth j u 0].
Proof. reflexivity. Qed.
Theorem objective_levels dpv u j :
  key_of (column [dpv; u] j) =
    (if nth j u 0 =? 0 then if nth j dpv 0 =? 0 then None else Some (0%nat, Z.abs (nth j dpv 0))
     else Some (1%nat, Z.abs (nth j u 0))) /\
  sgn_of (column [dpv; u] j) =
    (if nth j u 0 =? 0 then Z.sgn (nth j dpv 0) else Z.sgn (nth j u 0)).
Proof.
  rewrite column_two. unfold key_of, sgn_of, eff. cbn [eff_from].
  destruct (nth j u 0 =? 0) eqn:Eu; destruct (nth j dpv 0 =? 0) eqn:Ed; split; try reflexivity.
  assert (nth j dpv 0 = 0) as -> by lia. reflexivity.
Qed.
Lemma rect_two n dpv u : List.length dpv = n -> List.length u = n -> rect n [dpv; u].
Proof. intros H1 H2. unfold rect. repeat constructor; assumption. Qed.

(* C14_lex for the objective handed to the solver *)
Theorem objective_lex n dpv u x y k :
  List.length dpv = n -> List.length u = n -> List.length x = n -> List.length y = n -> is01 x -> is01 y ->
  level_score n [dpv; u] k x > level_score n [dpv; u] k y ->
  (forall k', key_lt k k' -> level_score n [dpv; u] k' x = level_score n [dpv; u] k' y) ->
  dot (objective dpv u) x > dot (objective dpv u) y.
Proof.
  intros Hd Hu. unfold objective. apply shadow_lex; [apply rect_two; assumption|discriminate].
Qed.

(* a default-level column with a larger magnitude costs more than ALL columns of the lower
   default levels together; in particular a -2 column outweighs any number of -1 columns *)
Theorem objective_default_cost n dpv u j :
  List.length dpv = n -> List.length u = n -> (j < n)%nat ->
  nth j u 0 = 0 -> nth j dpv 0 = -2 ->
  Z.abs (nth j (objective dpv u) 0) >
  zsum (map (fun j' => if (nth j' u 0 =? 0) && (nth j' dpv 0 =? -1) then 1 else 0) (seq 0 n)).
Proof.
  intros Hd Hu Hj Huj Hdj. unfold objective.
  pose proof (shadow_cost_count n [dpv; u] j (0%nat, 2) (rect_two n dpv u Hd Hu) Hj) as H.
  destruct (objective_levels dpv u j) as [Hk _]. rewrite Huj, Hdj in Hk. cbn in Hk.
  specialize (H Hk).
  assert (zsum (map (fun j' => if (nth j' u 0 =? 0) && (nth j' dpv 0 =? -1) then 1 else 0) (seq 0 n)) <=
          zsum (map (fun j0 => match key_of (column [dpv; u] j0) with Some kj => if key_ltb kj (0%nat, 2) then 1 else 0 | None => 0 end) (seq 0 n))); [|lia].
  apply zsum_map_le. intros j' _. destruct (objective_levels dpv u j') as [Hk' _]. rewrite Hk'.
  destruct (nth j' u 0 =? 0) eqn:E1; cbn [andb]; [|destruct (key_ltb _ _); lia].
  destruct (nth j' dpv 0 =? -1) eqn:E2.
  - assert (nth j' dpv 0 = -1) as -> by lia. cbn. lia.
  - destruct (nth j' dpv 0 =? 0); [lia|]. destruct (key_ltb _ _); lia.
Qed.

(* with nothing prioritised and every default priority -1, the objective counts the ones:
   fewer selected variables win *)
Theorem objective_stingy n dpv u x :
  List.length dpv = n -> List.length u = n -> List.length x = n ->
  Forall (fun v => v = 0) u -> Forall (fun v => v = -1) dpv ->
  dot (objective dpv u) x = - zsum x.
Proof.
  intros Hd Hu Hx Zu Zd. unfold objective.
  assert (Hr : rect n [dpv; u]) by (apply rect_two; assumption).
  assert (Lw : List.length (shadow2d [dpv; u]) = n) by (rewrite shadow2d_length; exact Hd).
  rewrite dot_nth by lia. rewrite Lw.
  assert (Hnth : forall (l : list Z) (c : Z) j, Forall (fun v => v = c) l -> (j < List.length l)%nat -> nth j l 0 = c).
  { intros l c j Hl Hj. rewrite Forall_forall in Hl. apply Hl, nth_In, Hj. }
  assert (Hw : forall j, (j < n)%nat -> nth j (shadow2d [dpv; u]) 0 = -1).
  { intros j Hj.
    assert (Hk : key_of (column [dpv; u] j) = Some (0%nat, 1)).
    { destruct (objective_levels dpv u j) as [Hk _]. rewrite Hk, (Hnth u 0 j Zu) by lia. rewrite (Hnth dpv (-1) j Zd) by lia. reflexivity. }
    pose proof (shadow_exact n [dpv; u] j (0%nat, 1) Hr Hj Hk) as He.
    assert (lower_sum n [dpv; u] (shadow2d [dpv; u]) (0%nat, 1) = 0) as Hz.
    { unfold lower_sum. apply zsum_map_zero. intros j' Hj'. apply in_seq in Hj'.
      destruct (objective_levels dpv u j') as [Hk' _]. rewrite Hk', (Hnth u 0 j' Zu) by lia. rewrite (Hnth dpv (-1) j' Zd) by lia. reflexivity. }
    rewrite Hz in He.
    destruct (shadow_sign_zero n [dpv; u] j Hr Hj) as [_ Hs].
    assert (last_nonzero (column [dpv; u] j) 0 (-1)) as Hl.
    { rewrite column_two, (Hnth u 0 j Zu), (Hnth dpv (-1) j Zd) by lia. repeat split; [lia|]. intros [|[|i']] Hi; try lia; [reflexivity|destruct i'; reflexivity]. }
    destruct (Hs 0%nat (-1) Hl) as [_ Hneg]. specialize (Hneg ltac:(lia)). lia. }
  rewrite (zsum_map_ext _ (fun j => - nth j x 0)) by (intros j Hj; apply in_seq in Hj; rewrite Hw by lia; lia).
  clear -Hx. subst n. induction x as [|a x IH]; [reflexivity|]. cbn [List.length seq map zsum nth].
  rewrite <- seq_shift, map_map. cbn [nth]. rewrite IH. lia.
Qed.

(* ---------------------------------------------------------------- which branch is tagged -2 *)
Section CtorFacts.
Variable genid : genid_t.

Lemma mk_node_meta m v args idarg sarg : meta_of (mk_node genid m v args idarg sarg) = m.
Proof. unfold mk_node. destruct idarg as [[i [lo hi]]|]; reflexivity. Qed.
Lemma mk_node_children m v args idarg sarg : children (mk_node genid m v args idarg sarg) = py_sorted id_of args.
Proof. unfold mk_node. destruct idarg as [[i [lo hi]]|]; reflexivity. Qed.

(* cc.Any: the rule itself is never tagged; when the (first) default is one of several
   alternatives, the children are the default alternative(s) plus ONE fresh Any node tagged -2
   that collects exactly the other alternatives; otherwise the rule is a plain Any. *)
Theorem cc_any_structure args default idarg :
  let r := cc_any genid args default idarg in
  prio_of r = -1 /\
  match default with
  | [] => children r = py_sorted id_of args
  | (d, _) :: _ =>
      let comp := filter (fun x => negb (is_default d x)) args in
      if ((1 <? List.length args) && negb (List.length comp =? List.length args) && negb (List.length comp =? 0))%nat
      then exists inner,
             children r = py_sorted id_of (filter (is_default d) args ++ [inner]) /\
             prio_of inner = -2 /\ children inner = py_sorted id_of comp /\
             value_of inner = 1 /\ sign_of inner = 1
      else children r = py_sorted id_of args
  end.
Proof.
  cbn zeta. unfold cc_any. destruct default as [|[d b] rest].
  - split; [unfold prio_of; rewrite mk_node_meta; reflexivity|apply mk_node_children].
  - destruct (1 <? List.length args)%nat eqn:E1; cbn [andb].
    + destruct (List.length (filter (fun x => negb (is_default d x)) args) =? List.length args)%nat eqn:E2; cbn [orb negb andb].
      * split; [unfold prio_of; rewrite mk_node_meta; reflexivity|apply mk_node_children].
      * destruct (List.length (filter (fun x => negb (is_default d x)) args) =? 0)%nat eqn:E3; cbn [negb].
        -- split; [unfold prio_of; rewrite mk_node_meta; reflexivity|apply mk_node_children].
        -- split; [unfold prio_of; rewrite mk_node_meta; reflexivity|].
           eexists. split; [apply mk_node_children|]. split; [unfold prio_of; rewrite mk_node_meta; reflexivity|].
           split; [apply mk_node_children|]. unfold mk_node. split; reflexivity.
    + split; [unfold prio_of; rewrite mk_node_meta; reflexivity|apply mk_node_children].
Qed.
End CtorFacts.

(* every entry of the default priority vector is the `prio` of a node of the configurator
   carrying the column's id (-1 unless that node is tagged) *)
Lemma alookup_in {B} k (l : list (ident * B)) v : alookup k l = Some v -> In (k, v) l.
Proof.
  induction l as [|[k' v'] l IH]; cbn [alookup]; [discriminate|]. destruct (String.eqb k k') eqn:E.
  - intros H; inversion H; subst. apply String.eqb_eq in E. subst. left. reflexivity.
  - intros H. right. apply IH. exact H.
Qed.
Lemma alookup_none_notin {B} k (l : list (ident * B)) : alookup k l = None -> ~ In k (map fst l).
Proof.
  induction l as [|[k' v] l IH]; cbn [alookup map In fst]; intros E Hin; [exact Hin|].
  destruct (String.eqb k k') eqn:Ek; [discriminate|]. destruct Hin as [->|Hin]; [rewrite String.eqb_refl in Ek; discriminate|].
  apply IH; assumption.
Qed.
(* the tag of an id: at most -1, below the prio of every occurrence, and attained *)
Lemma fold_min_spec (l : list Z) (a : Z) :
  fold_left Z.min l a <= a /\ (forall x, In x l -> fold_left Z.min l a <= x) /\
  (fold_left Z.min l a = a \/ In (fold_left Z.min l a) l).
Proof.
  revert a; induction l as [|x l IH]; intros a; cbn [fold_left]; [split; [lia|split; [intros x []|left; reflexivity]]|].
  destruct (IH (Z.min a x)) as [I1 [I2 I3]]. split; [lia|]. split.
  - intros y [<-|Hy]; [lia|apply I2, Hy].
  - destruct I3 as [E|Hin]; [|right; right; exact Hin].
    destruct (Z.min_spec a x) as [[_ Em]|[_ Em]]; [left; rewrite E; exact Em|right; left; rewrite E; symmetry; exact Em].
Qed.
Theorem tag_of_spec p i :
  tag_of p i <= -1 /\
  (forall q, In q (tree_nodes p) -> id_of q = i -> tag_of p i <= prio_of q) /\
  (tag_of p i = -1 \/ exists q, In q (tree_nodes p) /\ id_of q = i /\ tag_of p i = prio_of q).
Proof.
  unfold tag_of. destruct (fold_min_spec (map prio_of (filter (fun q => String.eqb (id_of q) i) (tree_nodes p))) (-1)) as [H1 [H2 H3]].
  split; [exact H1|]. split.
  - intros q Hq Hi. apply H2. apply in_map. apply filter_In. split; [exact Hq|]. apply String.eqb_eq. exact Hi.
  - destruct H3 as [E|Hin]; [left; exact E|right]. apply in_map_iff in Hin. destruct Hin as [q [E Hq]].
    apply filter_In in Hq. destruct Hq as [Hq Hi]. apply String.eqb_eq in Hi. exists q. repeat split; [exact Hq|exact Hi|symmetry; exact E].
Qed.
Theorem default_prio_vector_spec p j c :
  nth_error (columns true p) j = Some c -> nth j (default_prio_vector p) 0 = tag_of p (fst c).
Proof.
  intros Hj. unfold default_prio_vector.
  rewrite (nth_error_nth _ _ 0 (map_nth_error _ _ _ Hj)). cbn beta.
  assert (Hc : In c (columns true p)) by (eapply nth_error_In; exact Hj).
  unfold columns in Hc. apply in_map_iff in Hc. destruct Hc as [q0 [Eq Hq0]]. apply filter_In in Hq0. destruct Hq0 as [Hq0 _]. apply dict_by_id_in in Hq0.
  unfold dict_get, alookup_last.
  match goal with |- context [match ?X with Some _ => _ | None => _ end] => destruct X as [v|] eqn:E end.
  - apply alookup_in in E. apply in_rev in E. unfold default_prios in E. apply in_map_iff in E. destruct E as [q [Eq' Hq]].
    inversion Eq' as [[H0 H1]]. rewrite H0. reflexivity.
  - exfalso. assert (In (fst c) (map fst (rev (default_prios p)))) as Hin.
    { rewrite map_rev, <- in_rev. unfold default_prios. rewrite map_map. cbn [fst].
      apply in_map_iff. exists q0. split; [rewrite <- Eq; reflexivity|exact Hq0]. }
    exact (alookup_none_notin _ _ E Hin).
Qed.

(* ---------------------------------------------------------------- the restructuring keeps the meaning *)
Section CtorMeaning.
Variable genid : genid_t.
Variable env : ident -> Z.

Lemma zsum_eval_sorted (l : list prop) : zsum (map (eval env) (py_sorted id_of l)) = zsum (map (eval env) l).
Proof. apply zsum_perm. apply Permutation_map. apply py_sorted_perm. Qed.
Lemma zsum_filter_split {A} (f : A -> bool) (g : A -> Z) l :
  zsum (map g l) = zsum (map g (filter f l)) + zsum (map g (filter (fun x => negb (f x)) l)).
Proof. induction l as [|a l IH]; cbn [filter map zsum]; [reflexivity|]. destruct (f a); cbn [negb map zsum]; lia. Qed.
Lemma eval_mk_node m v args idarg :
  eval env (mk_node genid m v args idarg None) =
  if v <=? default_sign v * zsum (map (eval env) args) then 1 else 0.
Proof. unfold mk_node. destruct idarg as [[i [lo hi]]|]; cbn [eval]; rewrite zsum_eval_sorted; reflexivity. Qed.

(* cc.Any with a default means the same as the plain Any over the same alternatives, as long
   as no alternative evaluates to a negative number (boolean items, 0/1 sub-propositions) *)
Theorem cc_any_eval args default idarg :
  Forall (fun a => 0 <= eval env a) args ->
  eval env (cc_any genid args default idarg) = if 1 <=? zsum (map (eval env) args) then 1 else 0.
Proof.
  intros Hnn. unfold cc_any.
  assert (Hplain : eval env (mk_node genid (ccany_meta default) 1 args idarg None) = if 1 <=? zsum (map (eval env) args) then 1 else 0).
  { rewrite eval_mk_node. unfold default_sign. cbn [Z.ltb Z.compare]. rewrite Z.mul_1_l. reflexivity. }
  destruct default as [|[d b] rest]; [exact Hplain|].
  destruct (1 <? List.length args)%nat; [|exact Hplain].
  destruct ((List.length (filter (fun x => negb (is_default d x)) args) =? List.length args)%nat || (List.length (filter (fun x => negb (is_default d x)) args) =? 0)%nat); [exact Hplain|].
  rewrite eval_mk_node. unfold default_sign. cbn [Z.ltb Z.compare]. rewrite Z.mul_1_l.
  rewrite map_app, zsum_app. cbn [map zsum]. rewrite eval_mk_node. unfold default_sign. cbn [Z.ltb Z.compare]. rewrite Z.mul_1_l.
  rewrite (zsum_filter_split (is_default d) (eval env) args).
  assert (H1 : 0 <= zsum (map (eval env) (filter (is_default d) args))).
  { apply zsum_map_nonneg. intros a Ha. apply filter_In in Ha. rewrite Forall_forall in Hnn. apply Hnn, Ha. }
  assert (H2 : 0 <= zsum (map (eval env) (filter (fun x => negb (is_default d x)) args))).
  { apply zsum_map_nonneg. intros a Ha. apply filter_In in Ha. rewrite Forall_forall in Hnn. apply Hnn, Ha. }
  destruct (1 <=? zsum (map (eval env) (filter (fun x => negb (is_default d x)) args))) eqn:E; repeat case_if; lia.
Qed.

Lemma eval_replace_first (f : prop -> bool) (g : prop -> prop) ch :
  (forall c, In c ch -> f c = true -> eval env (g c) = eval env c) ->
  zsum (map (eval env) (replace_first f g ch)) = zsum (map (eval env) ch).
Proof.
  induction ch as [|c ch IH]; intros H; [reflexivity|]. cbn [replace_first].
  destruct (f c) eqn:E; cbn [map zsum].
  - rewrite (H c (or_introl eq_refl) E). reflexivity.
  - rewrite IH; [reflexivity|]. intros c' Hc'. apply H. right. exact Hc'.
Qed.
(* cc.Xor with a default means the same as the plain Xor: exactly one alternative *)
Theorem cc_xor_eval args default idarg :
  Forall (fun a => 0 <= eval env a) args ->
  eval env (cc_xor genid args default idarg) =
  if 2 <=? (if 1 <=? zsum (map (eval env) args) then 1 else 0) + (if -1 <=? - zsum (map (eval env) args) then 1 else 0) then 1 else 0.
Proof.
  intros Hnn. unfold cc_xor.
  set (al := mk_node genid m0 1 args None None). set (am := mk_node genid (mk KAtMost) (-1) args None (Some (-1))).
  assert (Hal : eval env al = if 1 <=? zsum (map (eval env) args) then 1 else 0).
  { subst al. rewrite eval_mk_node. unfold default_sign. cbn [Z.ltb Z.compare]. rewrite Z.mul_1_l. reflexivity. }
  assert (Ham : eval env am = if -1 <=? - zsum (map (eval env) args) then 1 else 0).
  { subst am. unfold mk_node. cbn [eval]. rewrite zsum_eval_sorted. replace (-1 * zsum (map (eval env) args)) with (- zsum (map (eval env) args)) by lia. reflexivity. }
  assert (Htop : forall top, top = mk_node genid (mkMeta KCcXor None default 0) 2 [al; am] idarg None ->
                 eval env top = if 2 <=? eval env al + eval env am then 1 else 0).
  { intros top ->. rewrite eval_mk_node. unfold default_sign. cbn [Z.ltb Z.compare map zsum]. rewrite Z.mul_1_l, Z.add_0_r. reflexivity. }
  destruct default as [|d0 rest].
  - rewrite (Htop _ eq_refl), Hal, Ham. reflexivity.
  - pose proof (Htop _ eq_refl) as Ht. unfold mk_node in Ht |- *. destruct idarg as [[i [lo hi]]|]; cbn [eval] in Ht |- *;
    (rewrite eval_replace_first; [rewrite Ht, Hal, Ham; reflexivity|]);
    intros c Hc Hv; (apply (Permutation_in _ (py_sorted_perm id_of [al; am])) in Hc);
    (destruct Hc as [<-|[<-|[]]]; [|subst am; unfold mk_node in Hv; cbn [value_of] in Hv; lia]);
    (rewrite cc_any_eval; [subst al; unfold mk_node; cbn [children eval]; rewrite zsum_eval_sorted; rewrite Z.mul_1_l; reflexivity|]);
    subst al; unfold mk_node; cbn [children]; apply Forall_forall; intros a Ha;
    apply (Permutation_in _ (py_sorted_perm id_of args)) in Ha; rewrite Forall_forall in Hnn; apply Hnn, Ha.
Qed.
End CtorMeaning.
