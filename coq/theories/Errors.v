(* Errors.v — corrected executable model of AtLeast.errors() (puan/logic/plog/__init__.py
   341-497, after fix D8) and of the flatten() it is built on.  No proofs here.

   Differences to the first model in Plog.v (`bsum`, `hkey_of`, `pyeq`, `same_elt`, `py_set`,
   `flatten`, `errors`), both found by the C10 correspondence check:
   (1) AtLeast.__eq__ starts with `type(self) == type(other)`, so two sub-propositions of
       different classes are never merged by flatten()'s set(), even when id, equation bounds,
       value and hash agree (All('x','y',variable='A') next to AtLeast(2,['x','y'],variable='A')
       stay two entries of flatten(), and the duplicate-edge check then fires).  The first
       Plog.pyeq ignored the class.
   (2) hash(Bounds) is not hash(lower)+hash(upper) but CPython's hash() OF that sum: a
       __hash__ result of -1 is turned into -2.  So bounds whose sum is -1 collide with bounds
       whose sum is -2: x:(-3,2) and x:(-4,2) are one element for set() and for the hash
       comparison (All(Any(u, x:(-3,2)), x:(-4,2)).errors() == []).  Plog.bsum is the bare sum.
   Everything else is the Plog.v definition with the suffix 2. *)
Require Import Puan.Base Puan.Plog.

(* hash(Bounds(lo, hi)) *)
Definition bhash (lo hi : Z) : Z := pyhash (pyhash lo + pyhash hi).
(* the hash key of a variable / proposition (Plog.hkey_of with bhash) *)
Fixpoint hkey_of2 (p : prop) : hkey :=
  match p with
  | Var i lo hi => HVar i (bhash lo hi)
  | Node _ i _ lo hi s v ch => HNode i (bhash lo hi) s (pyhash v) (map hkey_of2 ch)
  end.

(* __eq__ : variable compares ids; AtLeast compares type, id, equation bounds and value *)
Definition pyeq2 (a b : prop) : bool :=
  match a, b with
  | Var i _ _, Var j _ _ => String.eqb i j
  | Node m i _ _ _ _ v _, Node m' j _ _ _ _ v' _ =>
      cls_eqb (m_cls m) (m_cls m') && String.eqb i j
      && bounds_eqb (equation_bounds a) (equation_bounds b) && (v =? v')
  | _, _ => false
  end.
(* a Python set keeps one of two elements iff their hashes and they themselves compare equal *)
Definition same_elt2 (a b : prop) : bool := hkey_eqb (hkey_of2 a) (hkey_of2 b) && pyeq2 a b.
Definition set_add2 (x : prop) (l : list prop) : list prop :=
  if existsb (same_elt2 x) l then l else l ++ [x].
Definition py_set2 (l : list prop) : list prop := fold_left (fun acc x => set_add2 x acc) l [].
(* sorted(set(chain([self], *flatten(compounds), atoms))); the relative order of entries with
   equal ids is hash-order dependent in the implementation and not modelled *)
Definition flatten2 (p : prop) : list prop := py_sorted id_of (py_set2 (flat_raw p)).

Definition errors2 (p : prop) : list err :=
  let fl := flatten2 p in
  (* 1: graphlib.TopologicalSorter(dict(_dependencies())).prepare() raises *)
  let c1 := has_cycle (dependencies p) in
  (* 2: #hashes of the leaf variables and of the compounds' own variables <> #ids *)
  let vhash := map (fun q => HVar (id_of q) (bhash (lo_of q) (hi_of q))) fl in
  let c2 := negb (Nat.eqb (List.length (dedup_hkey vhash)) (List.length (dedup_str (map id_of fl)))) in
  (* 3: #hashes of the compounds <> #ids of the compounds *)
  let cs := comps fl in
  let c3 := negb (Nat.eqb (List.length (dedup_hkey (map hkey_of2 cs))) (List.length (dedup_str (map id_of cs)))) in
  (* 4: some (parent id, child id) pair occurs twice (fix D8: keyed by the pair) *)
  let edges := flat_map (fun x => map (fun y => (id_of x, id_of y)) (children x)) cs in
  let c4 := has_dup_edge edges in
  (if c1 then [CIRCULAR] else []) ++ (if c2 then [AMBIVALENT] else []) ++
  (if c3 then [AMBIVALENT] else []) ++ (if c4 then [NON_UNIQUE] else []).
