(* PresentFacts.v — C03 completeness: every sub-proposition that is not hidden below a fixed or
   named compound is reported by evaluate_propositions. *)
Require Import Puan.Base Puan.Plog Puan.Sem Puan.SemFacts Puan.AssumeFacts.

(* SPEC: the ids a total interpretation d makes visible.  The model itself; below a compound whose
   own variable is fixed (by d or by its declaration) nothing; a child compound that d names is
   visible but hides its own sub-tree (it is replaced by its bare variable). *)
Fixpoint visible_ids (d : interp) (p : prop) : list ident :=
  match p with
  | Var i _ _ => [i]
  | Node _ i _ lo hi _ _ ch =>
      i :: (if fst (dbounds d i lo hi) =? snd (dbounds d i lo hi) then []
            else flat_map (fun c => match c with
                                    | Var j _ _ => [j]
                                    | Node _ j _ _ _ _ _ _ =>
                                        match alookup j d with Some _ => [j] | None => visible_ids d c end
                                    end) ch)
  end.

Lemma same_elt_id' a b : same_elt a b = true -> id_of a = id_of b.
Proof.
  unfold same_elt. intros H. apply andb_true_iff in H. destruct H as [_ H].
  destruct a, b; cbn [pyeq id_of] in *; try discriminate.
  - apply String.eqb_eq; auto.
  - rewrite !andb_true_iff in H. destruct H as [[[_ H] _] _]. apply String.eqb_eq; auto.
Qed.
(* the set() keeps an element with the id of every element it was given *)
Lemma py_set_ids l : forall acc i, (In i (map id_of acc) \/ In i (map id_of l)) ->
  In i (map id_of (fold_left (fun acc x => set_add x acc) l acc)).
Proof.
  induction l as [|x xs IH]; cbn [fold_left map]; intros acc i H.
  - destruct H as [H|[]]. exact H.
  - apply IH. destruct H as [H|[H|H]]; [left|left|right; exact H].
    + unfold set_add. destruct (existsb (same_elt x) acc); [exact H|]. rewrite map_app. apply in_or_app. left. exact H.
    + subst i. unfold set_add. destruct (existsb (same_elt x) acc) eqn:E.
      * apply existsb_exists in E. destruct E as (y & Hy & Hs). apply same_elt_id' in Hs. rewrite Hs. apply in_map. exact Hy.
      * rewrite map_app. apply in_or_app. right. cbn. auto.
Qed.
Lemma flatten_ids p i : In i (map id_of (flat_raw p)) -> In i (map id_of (flatten p)).
Proof.
  intros H. unfold flatten, py_set.
  apply (Permutation_in _ (Permutation_map id_of (Permutation_sym (py_sorted_perm id_of _)))).
  apply py_set_ids. right. exact H.
Qed.
Lemma flat_raw_self p : In (id_of p) (map id_of (flat_raw p)).
Proof. destruct p; cbn [flat_raw map id_of]; left; reflexivity. Qed.
Lemma flat_raw_child m i g lo hi s v ch c j : In c ch -> In j (map id_of (flat_raw c)) ->
  In j (map id_of (flat_raw (Node m i g lo hi s v ch))).
Proof.
  intros Hc Hj. cbn [flat_raw map]. right. rewrite map_app. apply in_or_app.
  destruct c as [k lo' hi' | m' k g' lo' hi' s' v' ch'].
  - right. cbn [flat_raw map id_of] in Hj. destruct Hj as [<-|[]]. apply in_map_iff. exists (Var k lo' hi'). split; [reflexivity|].
    unfold atoms. apply filter_In. split; [exact Hc|reflexivity].
  - left. apply in_map_iff in Hj. destruct Hj as (r & Hr & Hin). apply in_map_iff. exists r. split; [exact Hr|].
    apply in_flat_map. exists (Node m' k g' lo' hi' s' v' ch'). split; [exact Hc|]. cbn [is_var]. exact Hin.
Qed.

Section P.
Variable d : interp.

Lemma visible_in_raw p : total d p -> forall i, In i (visible_ids d p) -> In i (map id_of (flat_raw (assume d p))).
Proof.
  induction p as [j lo hi | m j g lo hi s v ch IH] using prop_ind'; intros Ht i Hi.
  - cbn [visible_ids assume flat_raw map id_of] in *. exact Hi.
  - apply total_node in Ht. cbn [visible_ids] in Hi. cbn [assume].
    destruct (fst (dbounds d j lo hi) =? snd (dbounds d j lo hi)) eqn:E.
    + cbn [flat_raw map id_of]. destruct Hi as [<-|[]]. left. reflexivity.
    + destruct Hi as [<-|Hi]; [cbn [flat_raw map id_of]; left; reflexivity|].
      apply in_flat_map in Hi. destruct Hi as (c & Hc & Hi).
      (* the child of the assumed node that stands for c *)
      assert (Hk : In (keep_child d (assume d c)) (py_sorted id_of (map (keep_child d) (map (assume d) ch)))).
      { apply (Permutation_in _ (Permutation_sym (py_sorted_perm id_of _))). apply in_map. apply in_map. exact Hc. }
      eapply flat_raw_child; [exact Hk|].
      rewrite Forall_forall in IH, Ht.
      destruct c as [k lo' hi' | m' k g' lo' hi' s' v' ch'].
      * destruct Hi as [<-|[]]. unfold keep_child. cbn [assume id_of lo_of hi_of].
        destruct (alookup k d); [case_if|]; cbn [var_of flat_raw map id_of lo_of hi_of]; left; reflexivity.
      * set (cn := Node m' k g' lo' hi' s' v' ch') in *.
        assert (Hidc : id_of (assume d cn) = k) by (rewrite assume_id; reflexivity).
        unfold keep_child. rewrite Hidc.
        destruct (alookup k d) eqn:Ek.
        -- destruct Hi as [<-|[]].
           (* named compound: under a total interpretation its assumed bounds are constant, so it is its bare variable *)
           pose proof (assume_total_const d cn (Ht _ Hc)) as Hconst.
           assert (Hc0 : lo_of (assume d cn) = hi_of (assume d cn)).
           { rewrite Forall_forall in Hconst. apply Hconst. apply in_nodes_self. }
           assert ((lo_of (assume d cn) =? hi_of (assume d cn)) = true) as -> by lia.
           cbn [var_of flat_raw map]. left. exact Hidc.
        -- apply (IH _ Hc (Ht _ Hc)). exact Hi.
Qed.

(* C03 completeness at the level of the returned dictionary *)
Theorem evalprops_complete p : total d p ->
  forall i, In i (visible_ids d p) -> exists b, In (i, b) (evaluate_propositions d p).
Proof.
  intros Ht i Hi. pose proof (flatten_ids _ _ (visible_in_raw p Ht i Hi)) as H.
  apply in_map_iff in H. destruct H as (r & Hr & Hin). exists (lo_of r, hi_of r).
  unfold evaluate_propositions. apply in_map_iff. exists r. split; [rewrite Hr; reflexivity|exact Hin].
Qed.
End P.
