(* AssumeFacts.v — interval soundness of assume / evaluate_propositions (C06), exactness on
   total interpretations (C03), assume-then-evaluate = evaluate on the union (C07). *)
Require Import Puan.Base Puan.Plog Puan.Sem Puan.SemFacts.

Lemma refines_node d env m i g lo hi s v ch :
  refines d env (Node m i g lo hi s v ch) <-> Forall (refines d env) ch.
Proof.
  cbn [refines]. split; intros H.
  - induction ch as [|x xs IH]; constructor; destruct H; auto.
  - induction H; cbn; auto.
Qed.
Lemma total_node d m i g lo hi s v ch :
  total d (Node m i g lo hi s v ch) <-> Forall (total d) ch.
Proof.
  cbn [total]. split; intros H.
  - induction ch as [|x xs IH]; constructor; destruct H; auto.
  - induction H; cbn; auto.
Qed.
Lemma ok_signs_node m i g lo hi s v ch :
  ok_signs (Node m i g lo hi s v ch) = true <-> (s = 1 \/ s = -1) /\ Forall (fun c => ok_signs c = true) ch.
Proof.
  cbn [ok_signs]. rewrite andb_true_iff, orb_true_iff, !Z.eqb_eq, forallb_forall, Forall_forall. tauto.
Qed.

Lemma in_nodes_self p : In p (nodes p).
Proof. destruct p; cbn; auto. Qed.
Lemma in_nodes_child m i g lo hi s v ch c r : In c ch -> In r (nodes c) -> In r (nodes (Node m i g lo hi s v ch)).
Proof. intros Hc Hr. cbn [nodes]. right. apply in_flat_map. eauto. Qed.

Section Sound.
Variable d : interp.
Variable env : ident -> Z.

(* bounds of the signed sum from sound child bounds *)
Lemma sum_bounds (f : prop -> prop) (val : prop -> Z) s ch : (s = 1 \/ s = -1) ->
  Forall (fun c => lo_of (f c) <= val c <= hi_of (f c)) ch ->
  sum_lo s (map f ch) <= s * zsum (map val ch) <= sum_hi s (map f ch).
Proof.
  intros Hs H. unfold sum_lo, sum_hi.
  destruct Hs as [-> | ->]; [change (0 <? 1) with true | change (0 <? -1) with false]; cbn iota;
    induction H as [|c cs Hc Hcs IH]; cbn [map zsum]; lia.
Qed.

Lemma assume_head p : ok_signs p = true -> refines d env p ->
  lo_of (assume d p) <= eval_d d env p <= hi_of (assume d p).
Proof.
  induction p as [i lo hi | m i g lo hi s v ch IH] using prop_ind'; intros Hsg Href.
  - cbn [assume lo_of hi_of eval_d]. exact Href.
  - apply ok_signs_node in Hsg. destruct Hsg as [Hs Hsg]. apply refines_node in Href.
    cbn [assume eval_d]. destruct (fst (dbounds d i lo hi) =? snd (dbounds d i lo hi)) eqn:E.
    + cbn [lo_of hi_of]. lia.
    + cbn [lo_of hi_of].
      assert (Hsum := sum_bounds (assume d) (eval_d d env) s ch Hs).
      assert (Hc : Forall (fun c => lo_of (assume d c) <= eval_d d env c <= hi_of (assume d c)) ch).
      { rewrite Forall_forall in *. intros c Hin. apply IH; auto. }
      specialize (Hsum Hc). unfold b2z. repeat case_if; lia.
Qed.

Definition sound_for (p : prop) (r : prop) : Prop :=
  exists p', In p' (nodes p) /\ id_of r = id_of p' /\ lo_of r <= eval_d d env p' <= hi_of r.

Lemma keep_child_nodes c r : In r (nodes (keep_child d c)) ->
  In r (nodes c) \/ (id_of r = id_of c /\ lo_of r = lo_of c /\ hi_of r = hi_of c).
Proof.
  unfold keep_child. destruct (alookup (id_of c) d); [|auto].
  destruct (lo_of c =? hi_of c); [|auto].
  cbn [var_of nodes]. intros [<-|[]]. right. cbn. auto.
Qed.

(* C06: every node of the assumed tree carries bounds that contain the value of an original
   sub-proposition with the same id. *)
Theorem assume_nodes_sound p : ok_signs p = true -> refines d env p ->
  Forall (sound_for p) (nodes (assume d p)).
Proof.
  induction p as [i lo hi | m i g lo hi s v ch IH] using prop_ind'; intros Hsg Href.
  - cbn [assume nodes]. constructor; [|constructor].
    exists (Var i lo hi). split; [cbn; auto|]. split; [reflexivity|]. cbn [lo_of hi_of eval_d]. exact Href.
  - pose proof (assume_head _ Hsg Href) as Hhead.
    set (p := Node m i g lo hi s v ch) in *.
    assert (Hself : sound_for p (assume d p)).
    { exists p. split; [apply in_nodes_self|]. split; [|exact Hhead].
      subst p. cbn [assume]. case_if; reflexivity. }
    apply ok_signs_node in Hsg. destruct Hsg as [Hs Hsg]. apply refines_node in Href.
    subst p. cbn [assume] in *. destruct (fst (dbounds d i lo hi) =? snd (dbounds d i lo hi)) eqn:E.
    + cbn [nodes]. constructor; [exact Hself|constructor].
    + cbn [nodes]. constructor; [exact Hself|].
      apply Forall_forall. intros r Hr. apply in_flat_map in Hr. destruct Hr as (k & Hk & Hr).
      apply (Permutation_in _ (py_sorted_perm id_of _)) in Hk.
      apply in_map_iff in Hk. destruct Hk as (ac & <- & Hac).
      apply in_map_iff in Hac. destruct Hac as (c & <- & Hc).
      rewrite Forall_forall in *.
      apply keep_child_nodes in Hr. destruct Hr as [Hr | (Hid & Hlo & Hhi)].
      * pose proof (IH c Hc (Hsg c Hc) (Href c Hc)) as Hall. rewrite Forall_forall in Hall.
        destruct (Hall r Hr) as (p' & Hp' & Hid & Hb).
        exists p'. split; [|auto]. eapply in_nodes_child; eauto.
      * exists c. split; [eapply in_nodes_child; eauto using in_nodes_self|].
        split.
        -- rewrite Hid. destruct c; cbn [assume id_of]; [reflexivity|]. case_if; reflexivity.
        -- rewrite Hlo, Hhi. apply assume_head; auto.
Qed.

(* C03: when the interpretation fixes every leaf to a point, every node of the assumed tree
   is a constant. *)
Lemma sum_point (f : prop -> prop) s ch :
  Forall (fun c => lo_of (f c) = hi_of (f c)) ch -> sum_lo s (map f ch) = sum_hi s (map f ch).
Proof.
  unfold sum_lo, sum_hi. induction 1 as [|c cs Hc Hcs IH]; cbn [map zsum]; [reflexivity|].
  rewrite IH, Hc. destruct (0 <? s); lia.
Qed.

Theorem assume_total_const p : total d p -> Forall (fun r => lo_of r = hi_of r) (nodes (assume d p)).
Proof.
  induction p as [i lo hi | m i g lo hi s v ch IH] using prop_ind'; intros Ht.
  - cbn [assume nodes]. constructor; [exact Ht|constructor].
  - apply total_node in Ht. cbn [assume].
    destruct (fst (dbounds d i lo hi) =? snd (dbounds d i lo hi)) eqn:E.
    + cbn [nodes]. constructor; [cbn; lia|constructor].
    + assert (Hheads : Forall (fun c => lo_of (assume d c) = hi_of (assume d c)) ch).
      { rewrite Forall_forall in *. intros c Hc. specialize (IH c Hc (Ht c Hc)).
        inversion IH as [|x xs Hx Hxs Heq]; [destruct (assume d c); discriminate|].
        destruct (assume d c); cbn [nodes] in Heq; inversion Heq; subst; exact Hx. }
      cbn [nodes]. constructor.
      * cbn [lo_of hi_of]. rewrite (sum_point (assume d) s ch Hheads). reflexivity.
      * apply Forall_forall. intros r Hr. apply in_flat_map in Hr. destruct Hr as (k & Hk & Hr).
        apply (Permutation_in _ (py_sorted_perm id_of _)) in Hk.
        apply in_map_iff in Hk. destruct Hk as (ac & <- & Hac).
        apply in_map_iff in Hac. destruct Hac as (c & <- & Hc).
        rewrite Forall_forall in *.
        apply keep_child_nodes in Hr. destruct Hr as [Hr | (Hid & Hlo & Hhi)].
        -- pose proof (IH c Hc (Ht c Hc)) as Hall. rewrite Forall_forall in Hall. apply Hall; auto.
        -- rewrite Hlo, Hhi. apply Hheads; auto.
Qed.

End Sound.
