(* AssumeFacts.v — interval soundness of assume / evaluate_propositions (C06), exactness on
   total interpretations (C03), assume-then-evaluate = evaluate on the union (C07). *)
Require Import Puan.Base Puan.Plog Puan.Sem Puan.SemFacts.

Lemma refines_node d env m i g lo hi s v ch :
  refines d env (Node m i g lo hi s v ch) <-> Forall (refines d env) ch.
Proof.
  cbn [refines]. split; intros H.
  - induction ch as [|x xs IH]; constructor; destruct H; auto.
  - induction H; cbn; auto.
Qed.
Lemma total_node d m i g lo hi s v ch :
  total d (Node m i g lo hi s v ch) <-> Forall (total d) ch.
Proof.
  cbn [total]. split; intros H.
  - induction ch as [|x xs IH]; constructor; destruct H; auto.
  - induction H; cbn; auto.
Qed.
Lemma ok_signs_node m i g lo hi s v ch :
  ok_signs (Node m i g lo hi s v ch) = true <-> (s = 1 \/ s = -1) /\ Forall (fun c => ok_signs c = true) ch.
Proof.
  cbn [ok_signs]. rewrite andb_true_iff, orb_true_iff, !Z.eqb_eq, forallb_forall, Forall_forall. tauto.
Qed.

Lemma in_nodes_self p : In p (nodes p).
Proof. destruct p; cbn; auto. Qed.
Lemma in_nodes_child m i g lo hi s v ch c r : In c ch -> In r (nodes c) -> In r (nodes (Node m i g lo hi s v ch)).
Proof. intros Hc Hr. cbn [nodes]. right. apply in_flat_map. eauto. Qed.

Section Sound.
Variable d : interp.
Variable env : ident -> Z.

(* bounds of the signed sum from sound child bounds *)
Lemma sum_bounds (f : prop -> prop) (val : prop -> Z) s ch : (s = 1 \/ s = -1) ->
  Forall (fun c => lo_of (f c) <= val c <= hi_of (f c)) ch ->
  sum_lo s (map f ch) <= s * zsum (map val ch) <= sum_hi s (map f ch).
Proof.
  intros Hs H. unfold sum_lo, sum_hi.
  destruct Hs as [-> | ->]; [change (0 <? 1) with true | change (0 <? -1) with false]; cbn iota;
    induction H as [|c cs Hc Hcs IH]; cbn [map zsum]; lia.
Qed.

Lemma assume_head p : ok_signs p = true -> refines d env p ->
  lo_of (assume d p) <= eval_d d env p <= hi_of (assume d p).
Proof.
  induction p as [i lo hi | m i g lo hi s v ch IH] using prop_ind'; intros Hsg Href.
  - cbn [assume lo_of hi_of eval_d refines] in *. cbn zeta in *. case_if; lia.
  - apply ok_signs_node in Hsg. destruct Hsg as [Hs Hsg]. apply refines_node in Href.
    cbn [assume eval_d]. destruct (fst (dbounds d i lo hi) =? snd (dbounds d i lo hi)) eqn:E.
    + cbn [lo_of hi_of]. lia.
    + cbn [lo_of hi_of].
      assert (Hsum := sum_bounds (assume d) (eval_d d env) s ch Hs).
      assert (Hc : Forall (fun c => lo_of (assume d c) <= eval_d d env c <= hi_of (assume d c)) ch).
      { rewrite Forall_forall in *. intros c Hin. apply IH; auto. }
      specialize (Hsum Hc). unfold b2z. repeat case_if; lia.
Qed.

Definition sound_for (p : prop) (r : prop) : Prop :=
  exists p', In p' (nodes p) /\ id_of r = id_of p' /\ lo_of r <= eval_d d env p' <= hi_of r.

Lemma keep_child_nodes c r : In r (nodes (keep_child d c)) ->
  In r (nodes c) \/ (id_of r = id_of c /\ lo_of r = lo_of c /\ hi_of r = hi_of c).
Proof.
  unfold keep_child. destruct (alookup (id_of c) d); [|auto].
  destruct (lo_of c =? hi_of c); [|auto].
  cbn [var_of nodes]. intros [<-|[]]. right. cbn. auto.
Qed.

(* C06: every node of the assumed tree carries bounds that contain the value of an original
   sub-proposition with the same id. *)
Theorem assume_nodes_sound p : ok_signs p = true -> refines d env p ->
  Forall (sound_for p) (nodes (assume d p)).
Proof.
  induction p as [i lo hi | m i g lo hi s v ch IH] using prop_ind'; intros Hsg Href.
  - cbn [assume nodes]. constructor; [|constructor].
    exists (Var i lo hi). split; [cbn; auto|]. split; [reflexivity|]. cbn [lo_of hi_of eval_d refines] in *. cbn zeta in *. case_if; lia.
  - pose proof (assume_head _ Hsg Href) as Hhead.
    set (p := Node m i g lo hi s v ch) in *.
    assert (Hself : sound_for p (assume d p)).
    { exists p. split; [apply in_nodes_self|]. split; [|exact Hhead].
      subst p. cbn [assume]. case_if; reflexivity. }
    apply ok_signs_node in Hsg. destruct Hsg as [Hs Hsg]. apply refines_node in Href.
    subst p. cbn [assume] in *. destruct (fst (dbounds d i lo hi) =? snd (dbounds d i lo hi)) eqn:E.
    + cbn [nodes]. constructor; [exact Hself|constructor].
    + cbn [nodes]. constructor; [exact Hself|].
      apply Forall_forall. intros r Hr. apply in_flat_map in Hr. destruct Hr as (k & Hk & Hr).
      apply (Permutation_in _ (py_sorted_perm id_of _)) in Hk.
      apply in_map_iff in Hk. destruct Hk as (ac & <- & Hac).
      apply in_map_iff in Hac. destruct Hac as (c & <- & Hc).
      rewrite Forall_forall in *.
      apply keep_child_nodes in Hr. destruct Hr as [Hr | (Hid & Hlo & Hhi)].
      * pose proof (IH c Hc (Hsg c Hc) (Href c Hc)) as Hall. rewrite Forall_forall in Hall.
        destruct (Hall r Hr) as (p' & Hp' & Hid & Hb).
        exists p'. split; [|auto]. eapply in_nodes_child; eauto.
      * exists c. split; [eapply in_nodes_child; eauto using in_nodes_self|].
        split.
        -- rewrite Hid. destruct c; cbn [assume id_of]; [reflexivity|]. case_if; reflexivity.
        -- rewrite Hlo, Hhi. apply assume_head; auto.
Qed.

(* C03: when the interpretation fixes every leaf to a point, every node of the assumed tree
   is a constant. *)
Lemma sum_point (f : prop -> prop) s ch :
  Forall (fun c => lo_of (f c) = hi_of (f c)) ch -> sum_lo s (map f ch) = sum_hi s (map f ch).
Proof.
  unfold sum_lo, sum_hi. induction 1 as [|c cs Hc Hcs IH]; cbn [map zsum]; [reflexivity|].
  rewrite IH, Hc. destruct (0 <? s); lia.
Qed.

Theorem assume_total_const p : total d p -> Forall (fun r => lo_of r = hi_of r) (nodes (assume d p)).
Proof.
  induction p as [i lo hi | m i g lo hi s v ch IH] using prop_ind'; intros Ht.
  - cbn [assume nodes]. constructor; [exact Ht|constructor].
  - apply total_node in Ht. cbn [assume].
    destruct (fst (dbounds d i lo hi) =? snd (dbounds d i lo hi)) eqn:E.
    + cbn [nodes]. constructor; [cbn; lia|constructor].
    + assert (Hheads : Forall (fun c => lo_of (assume d c) = hi_of (assume d c)) ch).
      { rewrite Forall_forall in *. intros c Hc. specialize (IH c Hc (Ht c Hc)).
        inversion IH as [|x xs Hx Hxs Heq]; [destruct (assume d c); discriminate|].
        destruct (assume d c); cbn [nodes] in Heq; inversion Heq; subst; exact Hx. }
      cbn [nodes]. constructor.
      * cbn [lo_of hi_of]. rewrite (sum_point (assume d) s ch Hheads). reflexivity.
      * apply Forall_forall. intros r Hr. apply in_flat_map in Hr. destruct Hr as (k & Hk & Hr).
        apply (Permutation_in _ (py_sorted_perm id_of _)) in Hk.
        apply in_map_iff in Hk. destruct Hk as (ac & <- & Hac).
        apply in_map_iff in Hac. destruct Hac as (c & <- & Hc).
        rewrite Forall_forall in *.
        apply keep_child_nodes in Hr. destruct Hr as [Hr | (Hid & Hlo & Hhi)].
        -- pose proof (IH c Hc (Ht c Hc)) as Hall. rewrite Forall_forall in Hall. apply Hall; auto.
        -- rewrite Hlo, Hhi. apply Hheads; auto.
Qed.

End Sound.

(* ---------- flatten only returns nodes of the tree ---------- *)
Lemma flat_raw_nodes p r : In r (flat_raw p) -> In r (nodes p).
Proof.
  induction p as [i lo hi | m i g lo hi s v ch IH] using prop_ind'; cbn [flat_raw nodes]; [auto|].
  intros [<-|H]; [left; reflexivity|]. right. apply in_app_or in H. destruct H as [H|H].
  - apply in_flat_map in H. destruct H as (c & Hc & H). apply in_flat_map. exists c. split; auto.
    destruct (is_var c); [destruct H|]. rewrite Forall_forall in IH. auto.
  - unfold atoms in H. apply filter_In in H. destruct H as [H Hv]. apply in_flat_map. exists r. split; auto. apply in_nodes_self.
Qed.
Lemma set_add_in x acc y : In y (set_add x acc) -> In y acc \/ y = x.
Proof. unfold set_add. destruct (existsb (same_elt x) acc); auto. intros H. apply in_app_or in H. destruct H as [H|[H|[]]]; auto. Qed.
Lemma py_set_in l : forall acc y, In y (fold_left (fun acc x => set_add x acc) l acc) -> In y acc \/ In y l.
Proof.
  induction l as [|x xs IH]; cbn [fold_left]; intros acc y H; [auto|].
  apply IH in H. destruct H as [H|H]; [|right; right; auto].
  apply set_add_in in H. destruct H as [H| ->]; [auto|right; left; auto].
Qed.
Lemma flatten_nodes p r : In r (flatten p) -> In r (nodes p).
Proof.
  unfold flatten, py_set. intros H. apply (Permutation_in _ (py_sorted_perm id_of _)) in H.
  apply py_set_in in H. destruct H as [[]|H]. apply flat_raw_nodes; auto.
Qed.
(* the top node is always in flatten *)
Lemma set_add_keeps x acc y : In y acc -> In y (set_add x acc).
Proof. unfold set_add. destruct (existsb (same_elt x) acc); auto. intros. apply in_or_app; auto. Qed.
Lemma py_set_keeps l : forall acc y, In y acc -> In y (fold_left (fun acc x => set_add x acc) l acc).
Proof. induction l as [|x xs IH]; cbn [fold_left]; intros; auto. apply IH. apply set_add_keeps; auto. Qed.
Lemma flatten_top p : In p (flatten p).
Proof.
  unfold flatten, py_set. apply (Permutation_in _ (Permutation_sym (py_sorted_perm id_of _))).
  assert (Hh : exists rest, flat_raw p = p :: rest) by (destruct p; cbn [flat_raw]; eauto).
  destruct Hh as (rest & ->). cbn [fold_left]. apply py_set_keeps. unfold set_add. cbn. auto.
Qed.

(* association list helpers *)
Lemma alookup_in {B} k (l : list (string * B)) v : alookup k l = Some v -> In (k, v) l.
Proof.
  induction l as [|[k' v'] r IH]; cbn [alookup]; [discriminate|].
  destruct (String.eqb k k') eqn:E; [apply String.eqb_eq in E; subst; intros [= ->]; left; auto | intros; right; auto].
Qed.
Lemma alookup_some {B} k (l : list (string * B)) v : In (k, v) l -> exists v', alookup k l = Some v'.
Proof.
  induction l as [|[k' v'] r IH]; cbn [alookup In]; [tauto|].
  intros [[= -> ->]|H]; [rewrite String.eqb_refl; eauto|]. destruct (String.eqb k k'); eauto.
Qed.
Lemma alookup_last_in {B} k (l : list (string * B)) v : alookup_last k l = Some v -> In (k, v) l.
Proof. unfold alookup_last. intros H. apply alookup_in in H. apply in_rev in H. auto. Qed.
Lemma alookup_last_some {B} k (l : list (string * B)) v : In (k, v) l -> exists v', alookup_last k l = Some v'.
Proof. unfold alookup_last. intros H. apply (alookup_some k (rev l) v). apply -> in_rev. auto. Qed.

(* core equality implies equal meaning *)
Lemma eval_d_core d env a : forall b, core_eqb a b = true -> eval_d d env a = eval_d d env b.
Proof.
  induction a as [i lo hi | m i g lo hi s v ch IH] using prop_ind'; intros [j lo' hi' | m' j g' lo' hi' s' v' ch']; cbn [core_eqb]; try discriminate.
  - intros H. rewrite !andb_true_iff in H. destruct H as [[H1 H2] H3]. apply String.eqb_eq in H1. subst. assert (lo = lo') by lia. assert (hi = hi') by lia. subst. reflexivity.
  - intros H. rewrite !andb_true_iff in H. destruct H as [[[[[[H1 H2] H3] H4] H5] H6] H7].
    apply String.eqb_eq in H1. subst j. assert (lo = lo') by lia. assert (hi = hi') by lia. assert (s = s') by lia. assert (v = v') by lia. subst.
    cbn [eval_d]. case_if; [reflexivity|].
    assert (Hm : map (eval_d d env) ch = map (eval_d d env) ch').
    { clear - IH H7. revert ch' H7. induction ch as [|x xs IHx]; intros [|y ys] H; try discriminate; [reflexivity|].
      apply andb_true_iff in H. destruct H as [Hx Hxs]. inversion IH; subst. cbn [map]. f_equal; auto. }
    rewrite Hm. reflexivity.
Qed.

Section EvalProps.
Variable d : interp.
Variable env : ident -> Z.

(* C06 at the level of the returned dictionary *)
Theorem evalprops_sound p : ok_signs p = true -> refines d env p ->
  forall i lo hi, In (i, (lo, hi)) (evaluate_propositions d p) ->
  exists p', In p' (nodes p) /\ id_of p' = i /\ lo <= eval_d d env p' <= hi.
Proof.
  intros Hs Hr i lo hi Hin. unfold evaluate_propositions in Hin. apply in_map_iff in Hin.
  destruct Hin as (r & Heq & Hr'). inversion Heq; subst. apply flatten_nodes in Hr'.
  pose proof (assume_nodes_sound d env p Hs Hr) as Hall. rewrite Forall_forall in Hall.
  destruct (Hall r Hr') as (p' & Hp' & Hid & Hb). exists p'. auto.
Qed.

(* C03 at the level of the returned dictionary *)
Theorem evalprops_exact p : ok_signs p = true -> refines d env p -> total d p ->
  forall i lo hi, In (i, (lo, hi)) (evaluate_propositions d p) ->
  exists p', In p' (nodes p) /\ id_of p' = i /\ lo = eval_d d env p' /\ hi = eval_d d env p'.
Proof.
  intros Hs Hr Ht i lo hi Hin.
  assert (Hc : lo = hi).
  { unfold evaluate_propositions in Hin. apply in_map_iff in Hin. destruct Hin as (r & Heq & Hr'). inversion Heq; subst.
    apply flatten_nodes in Hr'. pose proof (assume_total_const d p Ht) as Hall. rewrite Forall_forall in Hall. apply Hall; auto. }
  destruct (evalprops_sound p Hs Hr i lo hi Hin) as (p' & Hp' & Hid & Hb). exists p'. repeat split; auto; lia.
Qed.

Lemma assume_id p : id_of (assume d p) = id_of p.
Proof. destruct p; cbn [assume id_of]; [reflexivity|]. case_if; reflexivity. Qed.

(* evaluate() is the top entry and, when ids have single definitions, it is the top's value *)
Theorem evaluate_exact p : ok_signs p = true -> refines d env p -> total d p -> single_def p ->
  evaluate d p = Some (eval_d d env p, eval_d d env p).
Proof.
  intros Hs Hr Ht Hsd. unfold evaluate.
  assert (Htop : In (id_of p, (lo_of (assume d p), hi_of (assume d p))) (evaluate_propositions d p)).
  { unfold evaluate_propositions. apply in_map_iff. exists (assume d p). split; [rewrite assume_id; reflexivity|apply flatten_top]. }
  destruct (alookup_last_some _ _ _ Htop) as ([lo hi] & Hl). rewrite Hl.
  apply alookup_last_in in Hl.
  destruct (evalprops_exact p Hs Hr Ht _ _ _ Hl) as (p' & Hp' & Hid & -> & ->).
  rewrite (eval_d_core d env p' p); [reflexivity|]. apply Hsd; auto. apply in_nodes_self.
Qed.
End EvalProps.

(* ---------- C07: assume d1 then evaluate with d2 = evaluate with d1 ++ d2 ---------- *)
Lemma compat_node d1 d2 env m i g lo hi s v ch :
  compat d1 d2 env (Node m i g lo hi s v ch) <-> alookup i d2 = None /\ Forall (compat d1 d2 env) ch.
Proof.
  cbn [compat]. split; intros [H1 H2]; split; auto.
  - induction ch as [|x xs IH]; constructor; destruct H2; auto.
  - induction H2; cbn; auto.
Qed.
Lemma alookup_app {B} k (a b : list (string * B)) :
  alookup k (a ++ b) = match alookup k a with Some v => Some v | None => alookup k b end.
Proof. induction a as [|[k' v'] r IH]; cbn [alookup app]; [reflexivity|]. destruct (String.eqb k k'); auto. Qed.
Lemma dbounds_app d1 d2 i lo hi :
  dbounds (d1 ++ d2) i lo hi = match alookup i d1 with Some b => b | None => dbounds d2 i lo hi end.
Proof. unfold dbounds. rewrite alookup_app. destruct (alookup i d1); reflexivity. Qed.
Lemma zsum_map_perm {A} (f : A -> Z) l l' : Permutation l l' -> zsum (map f l) = zsum (map f l').
Proof. intros H. apply zsum_perm. apply Permutation_map. exact H. Qed.
Lemma sum_lo_hi_perm s l l' : Permutation l l' -> sum_lo s l = sum_lo s l' /\ sum_hi s l = sum_hi s l'.
Proof. intros H. unfold sum_lo, sum_hi. split; apply zsum_map_perm; auto. Qed.
Lemma b2z_01 b : b2z b = 0 \/ b2z b = 1.
Proof. destruct b; cbn; auto. Qed.

Lemma dbounds_none d i lo hi : alookup i d = None -> dbounds d i lo hi = (lo, hi).
Proof. unfold dbounds. intros ->. reflexivity. Qed.

Section Compose.
Variables d1 d2 : interp.
Variable env : ident -> Z.

Lemma compat_unnamed p : compat d1 d2 env p -> alookup (id_of p) d1 <> None -> alookup (id_of p) d2 = None.
Proof. destruct p; cbn [compat id_of]; tauto. Qed.

(* the value of keep_child q equals the value of q whenever q's value lies in its own bounds *)
Lemma keep_child_val q : (alookup (id_of q) d1 <> None -> alookup (id_of q) d2 = None) ->
  lo_of q <= eval_d d2 env q <= hi_of q -> eval_d d2 env (keep_child d1 q) = eval_d d2 env q.
Proof.
  intros Hun Hb. unfold keep_child. destruct (alookup (id_of q) d1) eqn:E; [|reflexivity].
  destruct (lo_of q =? hi_of q) eqn:Ec; [|reflexivity].
  unfold var_of. cbn [eval_d]. rewrite (dbounds_none d2) by (apply Hun; congruence). cbn [fst snd]. rewrite Ec. lia.
Qed.

Lemma own_bounds p : ok_signs p = true -> compat d1 d2 env p ->
  lo_of (assume d1 p) <= eval_d d2 env (assume d1 p) <= hi_of (assume d1 p).
Proof.
  induction p as [i lo hi | m i g lo hi s v ch IH] using prop_ind'; intros Hsg Hc.
  - cbn [assume lo_of hi_of eval_d compat] in *. destruct Hc as (_ & H1 & H2 & H3). case_if; lia.
  - apply ok_signs_node in Hsg. destruct Hsg as [Hs Hsg]. apply compat_node in Hc. destruct Hc as [Hi Hc].
    cbn [assume]. destruct (fst (dbounds d1 i lo hi) =? snd (dbounds d1 i lo hi)) eqn:E.
    + cbn [lo_of hi_of eval_d]. rewrite (dbounds_none d2) by auto. cbn [fst snd]. rewrite E. lia.
    + cbn [lo_of hi_of eval_d]. rewrite (dbounds_none d2) by auto. cbn [fst snd].
      set (ach := map (assume d1) ch).
      assert (Hch : Forall (fun c => lo_of (assume d1 c) <= eval_d d2 env (assume d1 c) <= hi_of (assume d1 c)) ch).
      { rewrite Forall_forall in *. intros c Hin. apply IH; auto. }
      assert (Hsum := sum_bounds (assume d1) (fun c => eval_d d2 env (assume d1 c)) s ch Hs Hch). fold ach in Hsum.
      assert (Hk : zsum (map (eval_d d2 env) (py_sorted id_of (map (keep_child d1) ach))) = zsum (map (fun c => eval_d d2 env (assume d1 c)) ch)).
      { rewrite (zsum_map_perm _ _ _ (py_sorted_perm id_of _)). unfold ach. rewrite !map_map.
        f_equal. apply map_ext_in. intros c Hin. rewrite Forall_forall in *. apply keep_child_val; [|apply Hch; auto].
        rewrite assume_id. apply compat_unnamed; auto. }
      rewrite Hk. unfold b2z. repeat case_if; lia.
Qed.

Theorem assume_compose p : ok_signs p = true -> compat d1 d2 env p ->
  eval_d d2 env (assume d1 p) = eval_d (d1 ++ d2) env p.
Proof.
  induction p as [i lo hi | m i g lo hi s v ch IH] using prop_ind'; intros Hsg Hc.
  - cbn [assume eval_d compat] in *. destruct Hc as (Hun & H1 & H2 & H3). rewrite dbounds_app.
    destruct (alookup i d1) as [b1|] eqn:E.
    + assert (Hd1 : dbounds d1 i lo hi = b1) by (unfold dbounds; rewrite E; reflexivity). rewrite Hd1 in *.
      rewrite (dbounds_none d2) by (apply Hun; congruence). cbn [fst snd]. reflexivity.
    + rewrite (dbounds_none d1) by auto. cbn [fst snd]. reflexivity.
  - pose proof (own_bounds _ Hsg Hc) as Hown.
    apply ok_signs_node in Hsg. destruct Hsg as [Hs Hsg]. apply compat_node in Hc. destruct Hc as [Hi Hc].
    cbn [assume] in *. cbn [eval_d]. rewrite dbounds_app.
    assert (Hb : match alookup i d1 with Some b => b | None => dbounds d2 i lo hi end = dbounds d1 i lo hi).
    { unfold dbounds. rewrite Hi. destruct (alookup i d1); reflexivity. }
    rewrite Hb.
    destruct (fst (dbounds d1 i lo hi) =? snd (dbounds d1 i lo hi)) eqn:E.
    + cbn [eval_d]. rewrite (dbounds_none d2) by auto. cbn [fst snd]. rewrite E. reflexivity.
    + cbn [lo_of hi_of eval_d] in *. rewrite (dbounds_none d2) in * by auto. cbn [fst snd] in *.
      set (ach := map (assume d1) ch) in *.
      assert (Hch : Forall (fun c => lo_of (assume d1 c) <= eval_d d2 env (assume d1 c) <= hi_of (assume d1 c)) ch).
      { rewrite Forall_forall in *. intros c Hin. apply own_bounds; auto. }
      assert (Hk : zsum (map (eval_d d2 env) (py_sorted id_of (map (keep_child d1) ach))) = zsum (map (eval_d (d1 ++ d2) env) ch)).
      { rewrite (zsum_map_perm _ _ _ (py_sorted_perm id_of _)). unfold ach. rewrite !map_map.
        f_equal. apply map_ext_in. intros c Hin. rewrite Forall_forall in *. rewrite keep_child_val; [apply IH; auto| |apply Hch; auto].
        rewrite assume_id. apply compat_unnamed; auto. }
      rewrite Hk in *.
      assert (Hsum := sum_bounds (assume d1) (fun c => eval_d d2 env (assume d1 c)) s ch Hs Hch). fold ach in Hsum.
      assert (Hk2 : zsum (map (fun c => eval_d d2 env (assume d1 c)) ch) = zsum (map (eval_d (d1 ++ d2) env) ch)).
      { f_equal. apply map_ext_in. intros c Hin. rewrite Forall_forall in *. apply IH; auto. }
      rewrite Hk2 in Hsum.
      clear Hown. destruct (v <=? sum_lo s ach) eqn:E1; destruct (v <=? sum_hi s ach) eqn:E2; cbn [b2z]; repeat case_if; lia.
Qed.
End Compose.

(* ---------- eval_d is the plain truth function when d is the point interpretation ---------- *)
Lemma agrees_node d env m i g lo hi s v ch :
  agrees d env (Node m i g lo hi s v ch) <-> fst (dbounds d i lo hi) <> snd (dbounds d i lo hi) /\ Forall (agrees d env) ch.
Proof.
  cbn [agrees]. split; intros [H1 H2]; split; auto.
  - induction ch as [|x xs IH]; constructor; destruct H2; auto.
  - induction H2; cbn; auto.
Qed.
Theorem eval_d_eval d env p : agrees d env p -> eval_d d env p = eval env p.
Proof.
  induction p as [i lo hi | m i g lo hi s v ch IH] using prop_ind'; intros Ha.
  - cbn [agrees eval_d eval] in *. rewrite Ha. cbn [fst snd]. rewrite Z.eqb_refl. reflexivity.
  - apply agrees_node in Ha. destruct Ha as [Hn Hc]. cbn [eval_d eval].
    destruct (fst (dbounds d i lo hi) =? snd (dbounds d i lo hi)) eqn:E; [lia|].
    assert (Hm : map (eval_d d env) ch = map (eval env) ch).
    { apply map_ext_in. intros c Hin. rewrite Forall_forall in *. auto. }
    rewrite Hm. reflexivity.
Qed.
Lemma agrees_total_refines d env p : agrees d env p -> total d p /\ refines d env p.
Proof.
  induction p as [i lo hi | m i g lo hi s v ch IH] using prop_ind'; intros Ha.
  - cbn [agrees total refines] in *. rewrite Ha. cbn. auto.
  - apply agrees_node in Ha. destruct Ha as [_ Hc]. split; [apply total_node|apply refines_node];
      rewrite Forall_forall in *; intros c Hin; apply IH; auto.
Qed.

(* ---------- the assumed tree is again a well-formed input for the second evaluation ---------- *)
Lemma Forall_sorted_keep (P : prop -> Prop) d (l : list prop) :
  Forall (fun q => P (keep_child d q)) l -> Forall P (py_sorted id_of (map (keep_child d) l)).
Proof.
  intros H. apply Forall_forall. intros x Hx. apply (Permutation_in _ (py_sorted_perm id_of _)) in Hx.
  apply in_map_iff in Hx. destruct Hx as (q & <- & Hq). rewrite Forall_forall in H. auto.
Qed.

Section Wf.
Variables d1 d2 : interp.
Variable env : ident -> Z.
Lemma compat_refines p : compat d1 d2 env p -> refines (d1 ++ d2) env p.
Proof.
  induction p as [i lo hi | m i g lo hi s v ch IH] using prop_ind'; intros Hc.
  - cbn [compat refines] in *. cbn zeta in *. destruct Hc as (Hun & H1 & H2 & H3). rewrite dbounds_app. right.
    destruct (alookup i d1) as [b1|] eqn:E.
    + assert (Hd1 : dbounds d1 i lo hi = b1) by (unfold dbounds; rewrite E; reflexivity). rewrite Hd1 in *.
      rewrite (dbounds_none d2) in * by (apply Hun; congruence). cbn [fst snd] in *. lia.
    + rewrite (dbounds_none d1) in * by auto. cbn [fst snd] in *. lia.
  - apply compat_node in Hc. destruct Hc as [_ Hc]. apply refines_node. rewrite Forall_forall in *. auto.
Qed.
Lemma assume_wf p : ok_signs p = true -> compat d1 d2 env p -> total (d1 ++ d2) p ->
  ok_signs (assume d1 p) = true /\ refines d2 env (assume d1 p) /\ total d2 (assume d1 p).
Proof.
  induction p as [i lo hi | m i g lo hi s v ch IH] using prop_ind'; intros Hsg Hc Ht.
  - cbn [assume ok_signs refines total compat] in *. cbn zeta in *. destruct Hc as (Hun & H1 & H2 & H3).
    rewrite dbounds_app in Ht. split; [reflexivity|].
    destruct (alookup i d1) as [b1|] eqn:E.
    + assert (Hd1 : dbounds d1 i lo hi = b1) by (unfold dbounds; rewrite E; reflexivity). rewrite Hd1 in *.
      rewrite (dbounds_none d2) in * by (apply Hun; congruence). cbn [fst snd] in *. auto.
    + rewrite (dbounds_none d1) in * by auto. cbn [fst snd] in *. auto.
  - apply ok_signs_node in Hsg. destruct Hsg as [Hs Hsg]. apply compat_node in Hc. destruct Hc as [Hi Hc]. apply total_node in Ht.
    cbn [assume]. destruct (fst (dbounds d1 i lo hi) =? snd (dbounds d1 i lo hi)) eqn:E.
    + cbn [ok_signs refines total]. cbn zeta. rewrite (dbounds_none d2) by auto. cbn [fst snd]. split; [reflexivity|]. split; [left|]; lia.
    + assert (Hk : Forall (fun q => ok_signs (keep_child d1 q) = true /\ refines d2 env (keep_child d1 q) /\ total d2 (keep_child d1 q)) (map (assume d1) ch)).
      { apply Forall_forall. intros q Hq. apply in_map_iff in Hq. destruct Hq as (c & <- & Hin).
        rewrite Forall_forall in *. specialize (IH c Hin (Hsg c Hin) (Hc c Hin) (Ht c Hin)).
        unfold keep_child. destruct (alookup (id_of (assume d1 c)) d1) eqn:E1; [|exact IH].
        destruct (lo_of (assume d1 c) =? hi_of (assume d1 c)) eqn:E2; [|exact IH].
        unfold var_of. cbn [ok_signs refines total]. cbn zeta.
        rewrite (dbounds_none d2) by (rewrite assume_id in *; apply compat_unnamed with (env := env) (d1 := d1); auto; congruence).
        cbn [fst snd]. split; [reflexivity|]. split; [left|]; lia. }
      split; [|split].
      * apply ok_signs_node. split; [exact Hs|]. apply (Forall_sorted_keep (fun q => ok_signs q = true)).
        eapply Forall_impl; [|exact Hk]. cbn. tauto.
      * apply refines_node. apply (Forall_sorted_keep (refines d2 env)). eapply Forall_impl; [|exact Hk]. cbn. tauto.
      * apply total_node. apply (Forall_sorted_keep (total d2)). eapply Forall_impl; [|exact Hk]. cbn. tauto.
Qed.

(* C07 at the level of evaluate() *)
Theorem assume_then_evaluate p : ok_signs p = true -> compat d1 d2 env p -> total (d1 ++ d2) p ->
  single_def p -> single_def (assume d1 p) ->
  evaluate d2 (assume d1 p) = evaluate (d1 ++ d2) p /\
  evaluate (d1 ++ d2) p = Some (eval_d (d1 ++ d2) env p, eval_d (d1 ++ d2) env p).
Proof.
  intros Hsg Hc Ht Hs1 Hs2. destruct (assume_wf p Hsg Hc Ht) as (Ha & Hb & Hd).
  rewrite (evaluate_exact d2 env (assume d1 p) Ha Hb Hd Hs2).
  rewrite (evaluate_exact (d1 ++ d2) env p Hsg (compat_refines p Hc) Ht Hs1).
  rewrite (assume_compose d1 d2 env p Hsg Hc). auto.
Qed.
End Wf.

(* ---------- C06: tautology / contradiction flags and equation bounds ---------- *)
Definition in_box (ch : list prop) (vals : list Z) : Prop :=
  Forall2 (fun c x => lo_of c <= x <= hi_of c) ch vals.
Lemma eq_mm_bounds s ch vals : (s = 1 \/ s = -1) -> in_box ch vals ->
  fst (eq_mm s ch) <= s * zsum vals <= snd (eq_mm s ch).
Proof.
  intros Hs H. unfold eq_mm. cbn [fst snd].
  assert (zsum (map (fun c => Z.min (lo_of c) (hi_of c) * s) ch) <= s * zsum vals <= zsum (map (fun c => Z.max (lo_of c) (hi_of c) * s) ch)
          \/ zsum (map (fun c => Z.max (lo_of c) (hi_of c) * s) ch) <= s * zsum vals <= zsum (map (fun c => Z.min (lo_of c) (hi_of c) * s) ch)).
  { destruct Hs as [-> | ->]; [left|right]; induction H as [|c x cs xs Hcx Hrest IH]; cbn [map zsum]; lia. }
  lia.
Qed.
(* the bounds are attained: all children at their lower (upper) bounds *)
Lemma eq_mm_attained s ch : (s = 1 \/ s = -1) -> Forall (fun c => lo_of c <= hi_of c) ch ->
  exists vlo vhi, in_box ch vlo /\ in_box ch vhi /\ s * zsum vlo = fst (eq_mm s ch) /\ s * zsum vhi = snd (eq_mm s ch).
Proof.
  intros Hs Hb.
  assert (Hmin : zsum (map (fun c => Z.min (lo_of c) (hi_of c) * s) ch) = s * zsum (map lo_of ch)).
  { clear Hs. induction Hb as [|c cs Hc Hcs IH]; cbn [map zsum]; [lia|]. rewrite IH, Z.min_l by lia. lia. }
  assert (Hmax : zsum (map (fun c => Z.max (lo_of c) (hi_of c) * s) ch) = s * zsum (map hi_of ch)).
  { clear Hs Hmin. induction Hb as [|c cs Hc Hcs IH]; cbn [map zsum]; [lia|]. rewrite IH, Z.max_r by lia. lia. }
  assert (Hle : zsum (map lo_of ch) <= zsum (map hi_of ch)).
  { clear Hs Hmin Hmax. induction Hb as [|c cs Hc Hcs IH]; cbn [map zsum]; lia. }
  assert (Hbox1 : in_box ch (map lo_of ch)).
  { unfold in_box. clear Hs Hmin Hmax Hle. induction Hb as [|c cs Hc Hcs IH]; cbn [map]; [apply Forall2_nil|apply Forall2_cons; [lia|exact IH]]. }
  assert (Hbox2 : in_box ch (map hi_of ch)).
  { unfold in_box. clear Hs Hmin Hmax Hle Hbox1. induction Hb as [|c cs Hc Hcs IH]; cbn [map]; [apply Forall2_nil|apply Forall2_cons; [lia|exact IH]]. }
  unfold eq_mm. cbn [fst snd]. rewrite Hmin, Hmax.
  destruct Hs as [-> | ->].
  - exists (map lo_of ch), (map hi_of ch). repeat split; auto; lia.
  - exists (map hi_of ch), (map lo_of ch). repeat split; auto; lia.
Qed.

Lemma equation_bounds_node m i g lo hi s v ch :
  equation_bounds (Node m i g lo hi s v ch) = (fst (eq_mm s ch) - v, snd (eq_mm s ch) - v).
Proof. unfold equation_bounds. cbn [sign_of children value_of]. destruct (eq_mm s ch). reflexivity. Qed.

Theorem taut_sound m i g lo hi s v ch vals : (s = 1 \/ s = -1) ->
  is_tautology (Node m i g lo hi s v ch) = true -> in_box ch vals -> v <= s * zsum vals.
Proof.
  intros Hs Ht Hb. unfold is_tautology in Ht. rewrite equation_bounds_node in Ht. cbn [fst] in Ht.
  pose proof (eq_mm_bounds s ch vals Hs Hb). lia.
Qed.
Theorem contra_sound m i g lo hi s v ch vals : (s = 1 \/ s = -1) ->
  is_contradiction (Node m i g lo hi s v ch) = true -> in_box ch vals -> s * zsum vals < v.
Proof.
  intros Hs Ht Hb. unfold is_contradiction in Ht. rewrite equation_bounds_node in Ht. cbn [snd] in Ht.
  pose proof (eq_mm_bounds s ch vals Hs Hb). lia.
Qed.
Theorem equation_bounds_exact m i g lo hi s v ch : (s = 1 \/ s = -1) -> Forall (fun c => lo_of c <= hi_of c) ch ->
  let eb := equation_bounds (Node m i g lo hi s v ch) in
  (forall vals, in_box ch vals -> fst eb <= s * zsum vals - v <= snd eb) /\
  (exists vals, in_box ch vals /\ s * zsum vals - v = fst eb) /\
  (exists vals, in_box ch vals /\ s * zsum vals - v = snd eb).
Proof.
  intros Hs Hb. rewrite equation_bounds_node. cbn [fst snd]. split; [|split].
  - intros vals Hv. pose proof (eq_mm_bounds s ch vals Hs Hv). lia.
  - destruct (eq_mm_attained s ch Hs Hb) as (vlo & vhi & H1 & H2 & H3 & H4). exists vlo. split; auto. lia.
  - destruct (eq_mm_attained s ch Hs Hb) as (vlo & vhi & H1 & H2 & H3 & H4). exists vhi. split; auto. lia.
Qed.

(* evaluate on the point interpretation of env is the arithmetic truth function *)
Theorem evaluate_point d env p : ok_signs p = true -> agrees d env p -> single_def p ->
  evaluate d p = Some (eval env p, eval env p).
Proof.
  intros Hs Ha Hsd. destruct (agrees_total_refines d env p Ha) as [Ht Hr].
  rewrite (evaluate_exact d env p Hs Hr Ht Hsd), (eval_d_eval d env p Ha). reflexivity.
Qed.
