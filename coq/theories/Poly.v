(* Poly.v — executable model of puan.ndarray.ge_polyhedron (puan/ndarray/__init__.py):
   A, b, column_bounds, A_max/A_min, row_bounds, n_row_combinations, tighten_column_bounds,
   reducable_rows, reducable_columns_approx, reduce_columns / reduce_rows / reduce,
   reducable_rows_and_columns (fuelled loop), ineqs_satisfied / separable / ineq_separate_points
   for points of rank 1, 2, 3.

   MODEL ONLY: no lemmas here (they live in PolyFacts.v), so the model still runs when a proof
   breaks.  numpy arrays are lists (matrices: list of rows); int64/float64 arithmetic is
   unbounded Z; numpy.floor(x / y) on float64 is Z.div (floor division; exact while
   |x| < 2^52); numpy.nan in a float vector is None.  Python exceptions are None / LoopRaise. *)
Require Import Puan.Base.

(* ------------------------------------------------------------------ generic array helpers *)
Fixpoint zipw {A B C} (f : A -> B -> C) (l1 : list A) (l2 : list B) : list C :=
  match l1, l2 with
  | a :: l1', b :: l2' => f a b :: zipw f l1' l2'
  | _, _ => []
  end.

Fixpoint zipw3 {A B C D} (f : A -> B -> C -> D) (l1 : list A) (l2 : list B) (l3 : list C) : list D :=
  match l1, l2, l3 with
  | a :: l1', b :: l2', c :: l3' => f a b c :: zipw3 f l1' l2' l3'
  | _, _, _ => []
  end.

(* arr[mask] for a boolean mask of the same length *)
Fixpoint select {A} (m : list bool) (l : list A) : list A :=
  match m, l with
  | c :: m', x :: l' => if c then x :: select m' l' else select m' l'
  | _, _ => []
  end.

(* arr[mask] = vals : the positions where mask is true receive the values of vals in order *)
Fixpoint assign_mask {A} (mask : list bool) (full : list A) (vals : list A) : list A :=
  match mask, full with
  | c :: mask', x :: full' =>
      if c then match vals with
                | v :: vals' => v :: assign_mask mask' full' vals'
                | [] => x :: assign_mask mask' full' []
                end
      else x :: assign_mask mask' full' vals
  | _, _ => full
  end.

Definition b2z (c : bool) : Z := if c then 1 else 0.
Definition is_nan (c : option Z) : bool := match c with None => true | Some _ => false end.

(* numpy.dot / matmul of two vectors *)
Fixpoint dot (a x : list Z) : Z :=
  match a, x with
  | c :: a', v :: x' => c * v + dot a' x'
  | _, _ => 0
  end.

Fixpoint zprod (l : list Z) : Z := match l with [] => 1 | x :: xs => x * zprod xs end.

(* reduction over axis 0 of a matrix given as list of rows: x.max(axis=0), x.min(axis=0).
   numpy raises on zero rows; the callers below guard that case. *)
Definition reduce_axis0 (op : Z -> Z -> Z) (m : list (list Z)) : list Z :=
  match m with
  | [] => []
  | r :: rs => fold_left (zipw op) rs r
  end.

(* x.any(axis=0) / x.all(axis=0) on an (m x width) boolean matrix; well defined for m = 0 *)
Definition bool_axis0 (op : bool -> bool -> bool) (unit : bool) (width : nat) (m : list (list bool)) : list bool :=
  fold_right (zipw op) (repeat unit width) m.
(* x.any(axis=1) / x.all(axis=1) *)
Definition bool_axis1 (op : bool -> bool -> bool) (unit : bool) (m : list (list bool)) : list bool :=
  map (fold_right op unit) m.

(* ------------------------------------------------------------------ the polyhedron *)
(* mat   : the int64 matrix, every row = b_i :: a_i1 .. a_in   (A x >= b)
   vars  : self.variables — (id, (lower, upper)) per column of mat, position 0 is the support
           vector variable of the b column
   index : self.index — ids of the rows *)
Record poly := mkPoly { mat : list (list Z); vars : list (ident * (Z * Z)); index : list ident }.

Definition nrows (P : poly) : nat := List.length (mat P).
Definition ncols (P : poly) : nat := List.length (tl (vars P)).          (* columns of A *)

(* self[..., 1:] and self.T[0] *)
Definition A (P : poly) : list (list Z) := map (@tl Z) (mat P).
Definition b (P : poly) : list Z := map (hd 0) (mat P).
Definition A_variables (P : poly) : list (ident * (Z * Z)) := tl (vars P).

(* column_bounds(): 2 x n array (lower bounds; upper bounds) of self.A.variables *)
Definition cb_lo (P : poly) : list Z := map (fun v => fst (snd v)) (A_variables P).
Definition cb_hi (P : poly) : list Z := map (fun v => snd (snd v)) (A_variables P).
Definition column_bounds (P : poly) : list Z * list Z := (cb_lo P, cb_hi P).

(* A_max = init[0]*(A<0)*A + init[1]*(A>0)*A   (row vector broadcast over the rows of A) *)
Definition A_max (P : poly) : list (list Z) :=
  map (zipw3 (fun l u c => l * b2z (c <? 0) * c + u * b2z (0 <? c) * c) (cb_lo P) (cb_hi P)) (A P).
(* A_min = init[0]*(A>0)*A + init[1]*(A<0)*A *)
Definition A_min (P : poly) : list (list Z) :=
  map (zipw3 (fun l u c => l * b2z (0 <? c) * c + u * b2z (c <? 0) * c) (cb_lo P) (cb_hi P)) (A P).

(* row_bounds(): A_ = [lo*A, hi*A]; (A_.min(axis=0).sum(axis=1) - b, A_.max(axis=0).sum(axis=1) - b).T *)
Definition row_bounds (P : poly) : list (Z * Z) :=
  zipw3 (fun mn mx bi => (mn - bi, mx - bi))
    (map (fun a => zsum (zipw3 (fun l u c => Z.min (l * c) (u * c)) (cb_lo P) (cb_hi P) a)) (A P))
    (map (fun a => zsum (zipw3 (fun l u c => Z.max (l * c) (u * c)) (cb_lo P) (cb_hi P) a)) (A P))
    (b P).

(* n_row_combinations: prod((A != 0)*(hi-lo+1) + (A == 0)*1, axis=1) *)
Definition n_row_combinations (P : poly) : list Z :=
  map (fun a => zprod (zipw3 (fun l u c => b2z (negb (c =? 0)) * (u - l + 1) + b2z (c =? 0) * 1) (cb_lo P) (cb_hi P) a)) (A P).

(* puan.default_min_int / default_max_int = int16 range *)
Definition min_value : Z := -32768.
Definition max_value : Z := 32767.

(* one entry of  numpy.floor(-(rw_ub - A_max) / A)  followed by res[res==inf]=max, res[res==-inf]=min.
   For a = 0 the float quotient is +inf / -inf / nan (nan shown as 0 here); such entries are
   overwritten by both masks below, exactly as in the code. *)
Definition tcb_entry (rub am a : Z) : Z :=
  let num := - (rub - am) in
  if a =? 0 then (if 0 <? num then max_value else if num <? 0 then min_value else 0)
  else num / a.

Definition tcb_res (P : poly) : list (list Z) :=
  zipw3 (fun rub amr ar => zipw (tcb_entry rub) amr ar) (map snd (row_bounds P)) (A_max P) (A P).

(* lbs = res.copy(); lbs[A <= 0] = min_value       ubs = res.copy(); ubs[A >= 0] = max_value *)
Definition tcb_lbs (P : poly) : list (list Z) :=
  zipw (zipw (fun r a => if a <=? 0 then min_value else r)) (tcb_res P) (A P).
Definition tcb_ubs (P : poly) : list (list Z) :=
  zipw (zipw (fun r a => if 0 <=? a then max_value else r)) (tcb_res P) (A P).

(* lb_mx = max(lbs, axis=0); lb_msk = lb_mx > cm[0]; cm[0, lb_msk] = lb_mx[lb_msk]  (same for ub) *)
Definition tcb_core (P : poly) : list Z * list Z :=
  (zipw (fun mx l => if l <? mx then mx else l) (reduce_axis0 Z.max (tcb_lbs P)) (cb_lo P),
   zipw (fun mn u => if mn <? u then mn else u) (reduce_axis0 Z.min (tcb_ubs P)) (cb_hi P)).

(* raises (IndexError / ValueError: zero-size reduction) when A has no columns or no rows *)
Definition degenerate (P : poly) : bool := (Nat.eqb (nrows P) 0) || (Nat.eqb (ncols P) 0).

Definition tighten_column_bounds (P : poly) : option (list Z * list Z) :=
  if degenerate P then None else Some (tcb_core P).

(* reducable_columns_approx: nan vector, res[lb == ub] = lb[lb == ub] *)
Definition rca_core (P : poly) : list (option Z) :=
  let '(lb, ub) := tcb_core P in zipw (fun l u => if l =? u then Some l else None) lb ub.
Definition reducable_columns_approx (P : poly) : option (list (option Z)) :=
  if degenerate P then None else Some (rca_core P).

(* reducable_rows: A_min.sum(axis=1) >= b ; A_min raises when A has no column *)
Definition rr_core (P : poly) : list bool :=
  zipw (fun s bi => bi <=? s) (map zsum (A_min P)) (b P).
Definition reducable_rows (P : poly) : option (list bool) :=
  if Nat.eqb (ncols P) 0 then None else Some (rr_core P).

(* reduce_columns: active = ~isnan(cv); _b = b - (A[:,active]*cv[active]).sum(axis=1);
   _A = delete(A, active, 1); variables[[True] + isnan(cv)] ; index unchanged *)
Definition col_value (c : option Z) : Z := match c with Some v => v | None => 0 end.
Definition reduce_columns (P : poly) (cv : list (option Z)) : poly :=
  let active := map (fun c => negb (is_nan c)) cv in
  let keep := map is_nan cv in
  mkPoly
    (map (fun r => (hd 0 r - zsum (zipw Z.mul (select active (tl r)) (map col_value (select active cv))))
                   :: select keep (tl r)) (mat P))
    (select (true :: keep) (vars P))
    (index P).

(* reduce_rows: msk = rows_vector == 0; self[msk]; index[msk] *)
Definition reduce_rows (P : poly) (rv : list bool) : poly :=
  let msk := map negb rv in
  mkPoly (select msk (mat P)) (vars P) (select msk (index P)).

(* reduce(rows_vector, columns_vector): rows first, then columns (either may be absent) *)
Definition reduce (P : poly) (rv : option (list bool)) (cv : option (list (option Z))) : poly :=
  let P1 := match rv with Some r => reduce_rows P r | None => P end in
  match cv with Some c => reduce_columns P1 c | None => P1 end.

(* reducable_rows_and_columns — the while loop, with explicit fuel.
     while (~isnan(red_cols)).any() | red_rows.any():
        _M = reduce_columns(_M, red_cols); full_cols[isnan(full_cols)] = red_cols
        if _M.shape[1] <= 1: break
        red_rows = reducable_rows(_M); _M = reduce_rows(_M, red_rows); full_rows[full_rows == 0] = red_rows
        if _M.shape[0] == 0: break
        red_cols = reducable_columns_approx(_M); red_rows = reducable_rows(_M)
   The two breaks are what keeps the calls inside the loop away from the raising cases. *)
Inductive loop_result :=
| LoopOk (rows : list bool) (cols : list (option Z))
| LoopRaise            (* the Python code raises: no rows or no columns at entry *)
| LoopFuel.            (* the model ran out of fuel; C11_fuel shows this never happens *)

Fixpoint rrc_loop (fuel : nat) (M : poly) (red_cols : list (option Z)) (red_rows : list bool)
         (full_cols : list (option Z)) (full_rows : list bool) : loop_result :=
  if existsb (fun c => negb (is_nan c)) red_cols || existsb (fun r => r) red_rows then
    match fuel with
    | O => LoopFuel
    | S fuel' =>
        let M1 := reduce_columns M red_cols in
        let fc := assign_mask (map is_nan full_cols) full_cols red_cols in
        if Nat.eqb (ncols M1) 0 then LoopOk full_rows fc else
        let rr := rr_core M1 in
        let M2 := reduce_rows M1 rr in
        let fr := assign_mask (map negb full_rows) full_rows rr in
        if Nat.eqb (nrows M2) 0 then LoopOk fr fc else
        rrc_loop fuel' M2 (rca_core M2) (rr_core M2) fc fr
    end
  else LoopOk full_rows full_cols.

Definition rrc_fuel (P : poly) : nat := S (nrows P + ncols P).

Definition reducable_rows_and_columns (P : poly) : loop_result :=
  if degenerate P then LoopRaise
  else rrc_loop (rrc_fuel P) P (rca_core P) (rr_core P) (repeat None (ncols P)) (repeat false (nrows P)).

(* ------------------------------------------------------------------ point classification *)
(* matmul(A, points.T): entry (i,k) = A_i . points_k *)
Definition matmul_T (a : list (list Z)) (pts : list (list Z)) : list (list Z) :=
  map (fun ai => map (fun p => dot ai p) pts) a.

(* (matmul(A, points.T) < b.reshape(-1,1)) : rows x points *)
Definition lt_matrix (P : poly) (pts : list (list Z)) : list (list bool) :=
  zipw (fun row bi => map (fun v => v <? bi) row) (matmul_T (A P) pts) (b P).
(* (dot(A, points.T) >= b[:,None]) *)
Definition ge_matrix (P : poly) (pts : list (list Z)) : list (list bool) :=
  zipw (fun row bi => map (fun v => bi <=? v) row) (matmul_T (A P) pts) (b P).

(* points.ndim == 2 *)
Definition separable2 (P : poly) (pts : list (list Z)) : list bool :=
  bool_axis0 orb false (List.length pts) (lt_matrix P pts).
Definition ineq_separate_points2 (P : poly) (pts : list (list Z)) : list bool :=
  bool_axis1 orb false (lt_matrix P pts).
Definition ineqs_satisfied2 (P : poly) (pts : list (list Z)) : list bool :=
  bool_axis0 andb true (List.length pts) (ge_matrix P pts).

(* points.ndim == 1: wrap in a one-point matrix; separable and ineqs_satisfied take element [0],
   ineq_separate_points keeps the per-row vector *)
Definition separable1 (P : poly) (pt : list Z) : bool := hd false (separable2 P [pt]).
Definition ineq_separate_points1 (P : poly) (pt : list Z) : list bool := ineq_separate_points2 P [pt].
Definition ineqs_satisfied1 (P : poly) (pt : list Z) : bool := hd false (ineqs_satisfied2 P [pt]).

(* points.ndim == 3: map over the leading axis *)
Definition separable3 (P : poly) (g : list (list (list Z))) : list (list bool) := map (separable2 P) g.
Definition ineq_separate_points3 (P : poly) (g : list (list (list Z))) : list (list bool) := map (ineq_separate_points2 P) g.
Definition ineqs_satisfied3 (P : poly) (g : list (list (list Z))) : list (list bool) := map (ineqs_satisfied2 P) g.

(* numpy int64 wrap-around (two's complement).  The model above computes in unbounded Z; the
   numeric range guard of the generators keeps every value below 2^63, where wrap64 is the
   identity.  Known finding D11: numpy.prod in n_row_combinations wraps for rows whose count
   reaches 2^63 (four int16-wide columns) — n_row_combinations_int64 is what numpy returns. *)
Definition wrap64 (z : Z) : Z := ((z + 2 ^ 63) mod 2 ^ 64) - 2 ^ 63.
Definition n_row_combinations_int64 (P : poly) : list Z := map wrap64 (n_row_combinations P).
