(* Json.v — executable model of to_json / from_json of every class in puan.logic.plog and
   puan.modules.configurator (after fixes D5, D7, D9).  json.dumps/loads is the identity on this
   AST (trusted base).  Both directions use explicit fuel (Imply.to_json serialises the negation of
   its stored condition, which is not a sub-term); fuel exhaustion and malformed documents give
   None, which the theorems exclude.  No proofs here. *)
Require Import Puan.Base Puan.Plog Puan.Cons.
Open Scope string_scope.
Open Scope list_scope.
Open Scope Z_scope.

Inductive json :=
| JInt (z : Z)
| JStr (s : string)
| JList (l : list json)
| JObj (f : list (string * json)).

Fixpoint mapM {A B} (f : A -> option B) (l : list A) : option (list B) :=
  match l with
  | [] => Some []
  | x :: xs => match f x, mapM f xs with Some y, Some ys => Some (y :: ys) | _, _ => None end
  end.

Definition var_json (i : ident) (lo hi : Z) : json :=
  JObj (("id", JStr i) ::
        (if (lo =? 0) && (hi =? 1) then [] else [("bounds", JObj [("lower", JInt lo); ("upper", JInt hi)])])).
Definition dflt_json (d : dflt_t) : json := JList (map (fun e => var_json (fst e) (fst (snd e)) (snd (snd e))) d).
Definition idf (g : bool) (i : ident) : list (string * json) := if g then [] else [("id", JStr i)].
Definition has_prio (p : prop) : bool := match m_prio (meta_of p) with Some _ => true | None => false end.

Section WithGenid.
Variable genid : genid_t.

Fixpoint to_json (n : nat) (p : prop) : option json :=
  match n with
  | O => None
  | S n' =>
    match p with
    | Var i lo hi => Some (var_json i lo hi)
    | Node m i g lo hi s v ch =>
      let base (tname : string) (withvalue : option Z) (withsign : bool) :=
        match mapM (to_json n') ch with
        | Some js =>
            Some (JObj ([("type", JStr tname); ("propositions", JList js)]
                        ++ (match withvalue with Some x => [("value", JInt x)] | None => [] end)
                        ++ idf g i
                        ++ (if withsign && negb (s =? default_sign v) then [("sign", JInt s)] else [])))
        | None => None
        end in
      (* Xor-like: the children of the first (sorted) child *)
      let first_children (tname : string) (extra : list (string * json)) :=
        match ch with
        | [] => Some (JObj ([("type", JStr tname); ("propositions", JList [])] ++ extra ++ idf g i))
        | c :: _ => match mapM (to_json n') (children c) with
                    | Some js => Some (JObj ([("type", JStr tname); ("propositions", JList js)] ++ extra ++ idf g i))
                    | None => None
                    end
        end in
      match m_cls m with
      | KAtLeast => base "AtLeast" (Some v) true
      | KAtMost => base "AtMost" (Some (- v)) false
      | KAll => base "All" None true
      | KAny => base "Any" None true
      | KStingy => base "StingyConfigurator" None true
      | KImply =>
          match nth_error ch (m_cond m), nth_error ch (1 - m_cond m)%nat with
          | Some c, Some q =>
              match to_json n' (negate genid c), to_json n' q with
              | Some jc, Some jq => Some (JObj ([("type", JStr "Imply"); ("condition", jc); ("consequence", jq)] ++ idf g i))
              | _, _ => None
              end
          | _, _ => None
          end
      | KXor => first_children "Xor" []
      | KXNor =>
          match ch with
          | [] => Some (JObj ([("type", JStr "XNor"); ("propositions", JList [])] ++ idf g i))
          | c :: _ => match mapM (to_json n') (children (negate genid c)) with
                      | Some js => Some (JObj ([("type", JStr "XNor"); ("propositions", JList js)] ++ idf g i))
                      | None => None
                      end
          end
      | KCcAny =>
          if Nat.eqb (List.length ch) 2 && existsb has_prio ch then
            match mapM (to_json n') (filter (fun x => negb (has_prio x)) ch),
                  mapM (to_json n') (match find has_prio ch with Some x => children x | None => [] end) with
            | Some j1, Some j2 =>
                Some (JObj ([("type", JStr "Any"); ("propositions", JList (j1 ++ j2))] ++ idf g i ++ [("default", dflt_json (m_default m))]))
            | _, _ => None
            end
          else
            match base "Any" None true with
            | Some (JObj f) => Some (JObj (f ++ [("default", dflt_json (m_default m))]))
            | _ => None
            end
      | KCcXor =>
          match m_default m with
          | [] => first_children "Xor" []
          | _ =>
              match find (fun x => cls_eqb (m_cls (meta_of x)) KAtMost) ch with
              | Some am => match mapM (to_json n') (children am) with
                           | Some js => Some (JObj ([("type", JStr "Xor"); ("propositions", JList js); ("default", dflt_json (m_default m))] ++ idf g i))
                           | None => None
                           end
              | None => None
              end
          end
      end
    end
  end.

(* ---------- from_json ---------- *)
Definition jget (k : string) (f : list (string * json)) : option json := alookup k f.
Definition jid (f : list (string * json)) : option oid_t :=
  match jget "id" f with
  | None => Some None
  | Some (JStr i) => Some (Some (i, (0, 1)))
  | Some _ => None
  end.
Definition var_of_json (f : list (string * json)) : option prop :=
  match jget "id" f with
  | Some (JStr i) =>
      match jget "bounds" f with
      | None => Some (Var i 0 1)
      | Some (JObj b) => match jget "lower" b, jget "upper" b with
                         | Some (JInt lo), Some (JInt hi) => if lo <=? hi then Some (Var i lo hi) else None
                         | _, _ => None
                         end
      | Some _ => None
      end
  | _ => None
  end.
Definition dflt_of_json (j : option json) : option dflt_t :=
  match j with
  | None => Some []
  | Some (JList l) =>
      mapM (fun x => match x with
                     | JObj f => match var_of_json f with Some (Var i lo hi) => Some (i, (lo, hi)) | _ => None end
                     | _ => None end) l
  | Some _ => None
  end.

(* cfg = true: the class map of StingyConfigurator.from_json ("Any"/"Xor" are the configurator
   classes, no ExactlyOne) *)
Fixpoint from_json (cfg : bool) (n : nat) (j : json) : option prop :=
  match n with
  | O => None
  | S n' =>
    match j with
    | JObj f =>
      let props := match jget "propositions" f with
                   | None => Some []
                   | Some (JList l) => mapM (from_json cfg n') l
                   | Some _ => None
                   end in
      let with_props (k : oid_t -> list prop -> option prop) :=
        match props, jid f with Some ps, Some o => k o ps | _, _ => None end in
      let atleast :=
        with_props (fun o ps =>
          match (match jget "value" f with None => Some 1 | Some (JInt v) => Some v | Some _ => None end),
                (match jget "sign" f with None => Some None | Some (JInt s) => if (s =? 1) || (s =? -1) then Some (Some s) else None | Some _ => None end) with
          | Some v, Some s => Some (c_atleast genid o v s ps)
          | _, _ => None
          end) in
      match jget "type" f with
      | None => match jget "propositions" f with Some _ => atleast | None => var_of_json f end
      | Some (JStr t) =>
          if String.eqb t "Proposition" || String.eqb t "Variable" || String.eqb t "variable" then var_of_json f
          else if String.eqb t "AtLeast" then atleast
          else if String.eqb t "AtMost" then
            with_props (fun o ps => match (match jget "value" f with None => Some 1 | Some (JInt v) => Some v | Some _ => None end) with
                                    | Some v => Some (c_atmost genid o v ps) | None => None end)
          else if String.eqb t "All" then with_props (fun o ps => Some (c_all genid o ps))
          else if String.eqb t "Any" then
            if cfg then
              match dflt_of_json (jget "default" f) with
              | Some [] => with_props (fun o ps => Some (c_any genid o ps))
              | Some d => with_props (fun o ps => Some (c_ccany genid o d ps))
              | None => None
              end
            else with_props (fun o ps => Some (c_any genid o ps))
          else if String.eqb t "Xor" || (negb cfg && String.eqb t "ExactlyOne") then
            if cfg then
              match dflt_of_json (jget "default" f) with
              | Some d => with_props (fun o ps => Some (c_ccxor genid o d ps))
              | None => None
              end
            else with_props (fun o ps => Some (c_xor_m genid (mk KXor) o ps))
          else if String.eqb t "XNor" then with_props (fun o ps => Some (c_xnor genid o ps))
          else if String.eqb t "Not" then
            match jget "proposition" f with
            | Some jp => match from_json cfg n' jp with Some p => Some (c_not genid p) | None => None end
            | None => None
            end
          else if String.eqb t "Imply" then
            match jget "consequence" f with
            | None => None
            | Some jq =>
                match jget "condition" f with
                | Some jc =>
                    match from_json cfg n' jc, from_json cfg n' jq, jid f with
                    | Some c, Some q, Some o => Some (c_imply genid o c q)
                    | _, _, _ => None
                    end
                | None => from_json cfg n' jq
                end
            end
          else None
      | Some _ => None
      end
    | _ => None
    end
  end.

Definition stingy_from_json (n : nat) (j : json) : option prop :=
  match j with
  | JObj f =>
      match (match jget "propositions" f with None => Some [] | Some (JList l) => mapM (from_json true n) l | Some _ => None end), jid f with
      | Some ps, Some o => Some (c_stingy genid o ps)
      | _, _ => None
      end
  | _ => None
  end.
End WithGenid.

(* order-insensitive comparison of documents (dict field order is irrelevant to from_json) *)
Fixpoint json_eqb (a b : json) {struct a} : bool :=
  match a, b with
  | JInt x, JInt y => x =? y
  | JStr x, JStr y => String.eqb x y
  | JList l, JList l' =>
      (fix go (l l' : list json) : bool :=
         match l, l' with [], [] => true | x :: xs, y :: ys => json_eqb x y && go xs ys | _, _ => false end) l l'
  | JObj f, JObj f' =>
      Nat.eqb (List.length f) (List.length f') &&
      (fix go (f : list (string * json)) : bool :=
         match f with
         | [] => true
         | (k, v) :: r => (match alookup k f' with Some v' => json_eqb v v' | None => false end) && go r
         end) f
  | _, _ => false
  end.
