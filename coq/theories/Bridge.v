(* Bridge.v — executable model of the id/position bridges of puan.ndarray
   (variable_ndarray.construct, from_list / to_list, variable_indices, ge_polyhedron.A / b /
   to_linalg) and of the solver bridge (AtLeast.solve custom-solver branch,
   ge_polyhedron_config._vectors_from_prios / select, StingyConfigurator.select).
   No proofs here (BridgeFacts.v), no specification-side definitions either. *)
Require Import Puan.Base.

(* ------------------------------------------------------------------ ids and variables *)
(* the ndarray layer uses both str ids and int ids (default variable lists, support column) *)
Inductive vid := IdS (s : string) | IdZ (z : Z).
(* Python ==/hash on keys: a str never equals an int *)
Definition vid_eqb (a b : vid) : bool :=
  match a, b with
  | IdS x, IdS y => String.eqb x y
  | IdZ x, IdZ y => x =? y
  | _, _ => false
  end.

(* puan.variable: id and Bounds(lower, upper) *)
Record var := mkVar { v_id : vid; v_lo : Z; v_hi : Z }.
Definition var_eqb (a b : var) : bool :=
  vid_eqb (v_id a) (v_id b) && (v_lo a =? v_lo b) && (v_hi a =? v_hi b).

(* a Python dict {id: int} as its items() list (keys unique when it comes from Python);
   `k in d` / d.get(k) = first match *)
Definition dict := list (vid * Z).
Fixpoint dlookup (k : vid) (d : dict) : option Z :=
  match d with
  | [] => None
  | (k', v) :: r => if vid_eqb k k' then Some v else dlookup k r
  end.

(* dict(iterable of pairs): a later pair with an already present key overwrites the value
   and keeps the position (and key object) of the first insertion *)
Fixpoint dict_set (k : vid) (v : Z) (d : dict) : dict :=
  match d with
  | [] => [(k, v)]
  | (k', v') :: r => if vid_eqb k k' then (k', v) :: r else (k', v') :: dict_set k v r
  end.
Definition pydict (l : list (vid * Z)) : dict :=
  fold_left (fun d kv => dict_set (fst kv) (snd kv) d) l [].

(* ------------------------------------------------------------------ construct *)
(* dtype argument of construct: issubclass(dtype, (int, numpy.integer)) or not *)
Inductive dtype := DInt | DFloat.
(* one entry of the resulting numpy array; None = NaN (only possible for float dtypes) *)
Definition cell := option Z.

(* the three-way maz.ifttt: value from the dict, else callable default, else by dtype.
   [inj] embeds a dictionary value into the result's cell type. *)
Definition construct_gen {C : Type} (inj : Z -> C) (dflt : var -> C) (vars : list var) (d : dict) : list C :=
  map (fun v => match dlookup (v_id v) d with Some x => inj x | None => dflt v end) vars.

(* default_value: Some f when callable(default_value) (f returns an integer), None otherwise *)
Definition default_cell (dv : option (var -> Z)) (dt : dtype) (v : var) : cell :=
  match dv with
  | Some f => Some (f v)
  | None => match dt with DInt => Some (v_lo v) | DFloat => None end
  end.

Definition construct (vars : list var) (d : dict) (dv : option (var -> Z)) (dt : dtype) : list cell :=
  construct_gen (fun x => Some x) (default_cell dv dt) vars d.

(* ------------------------------------------------------------------ from_list / to_list *)
Definition mem_vid (x : vid) (l : list vid) : bool := existsb (vid_eqb x) l.
(* lst.index(x), 0-based; only called when x in lst *)
Fixpoint first_index (x : vid) (l : list vid) : Z :=
  match l with
  | [] => 0
  | y :: r => if vid_eqb y x then 0 else 1 + first_index x r
  end.

(* boolean_ndarray.from_list, flat list: len(lst)==0 gives the EMPTY array (not zeros) *)
Definition bool_from_list (l ctx : list vid) : list Z :=
  match l with
  | [] => []
  | _ => map (fun x => if mem_vid x l then 1 else 0) ctx
  end.
(* integer_ndarray.from_list: 1*(x in lst) and (1+lst.index(x)) *)
Definition int_from_list (l ctx : list vid) : list Z :=
  match l with
  | [] => []
  | _ => map (fun x => if mem_vid x l then 1 + first_index x l else 0) ctx
  end.
(* list of lists: one row per inner list *)
Definition bool_from_lists (ll : list (list vid)) (ctx : list vid) : list (list Z) :=
  map (fun l => bool_from_list l ctx) ll.
Definition int_from_lists (ll : list (list vid)) (ctx : list vid) : list (list Z) :=
  map (fun l => int_from_list l ctx) ll.

(* variable_ndarray._default_variable_list(n): support variable then ids 1..n-1, all int ids *)
Definition default_variable_list (n : nat) : list var :=
  match n with
  | O => []
  | S k => mkVar (IdZ 0) 1 1 :: map (fun i => mkVar (IdZ i) 0 1) (zrange 1 k)
  end.
(* default index: variable(i, bounds=(0,1)) for i in range(rows) *)
Definition default_index (n : nat) : list var := map (fun i => mkVar (IdZ i) 0 1) (zrange 0 n).

(* boolean_ndarray.to_list, ndim 1: numpy.array(self.variables)[self == 1].tolist() *)
Definition to_list1 {A : Type} (vars : list A) (row : list Z) : list A :=
  map fst (filter (fun p => snd p =? 1) (combine vars row)).
Definition to_list2 {A : Type} (vars : list A) (rows : list (list Z)) : list (list A) :=
  map (to_list1 vars) rows.

(* ------------------------------------------------------------------ variable_indices *)
Inductive vdtype := VBool | VInt | VOther.
Definition is_bool_var (v : var) : bool := (v_lo v =? 0) && (v_hi v =? 1).
Definition enumerate {A : Type} (l : list A) : list (Z * A) := combine (zrange 0 (List.length l)) l.
(* None = ValueError("Unrecognized variable type") *)
Definition variable_indices (vars : list var) (dt : vdtype) : option (list Z) :=
  let is_bool := match dt with VBool => 1 | _ => 0 end in
  let is_int := match dt with VInt => 1 | _ => 0 end in
  if negb (is_bool + is_int =? 1) then None
  else Some (map fst (filter (fun jv => (if is_bool_var (snd jv) then 0 else 1) + is_bool =? 1) (enumerate vars))).
Definition boolean_variable_indices vars := variable_indices vars VBool.
Definition integer_variable_indices vars := variable_indices vars VInt.

(* ------------------------------------------------------------------ 2-D variable arrays *)
Record vnd := mkVnd { mat : list (list Z); vars : list var; idx : list var }.

(* variable_ndarray.__new__ for a 2-D array of the given shape: empty variables / index are
   replaced by the defaults; None = ValueError("array shape mismatch") *)
Definition vnd_new (nrows ncols : nat) (m : list (list Z)) (variables index : list var) : option vnd :=
  let variables := match variables with [] => default_variable_list ncols | _ => variables end in
  let index := match index with [] => default_index nrows | _ => index end in
  if Nat.eqb (List.length index) nrows && Nat.eqb (List.length variables) ncols
  then Some (mkVnd m variables index) else None.

(* ge_polyhedron.A = integer_ndarray(self[:, 1:], self.variables[1:], self.index) *)
Definition poly_A (p : vnd) : option vnd :=
  vnd_new (List.length (mat p)) (Nat.pred (List.length (vars p)))
          (map (skipn 1) (mat p)) (skipn 1 (vars p)) (idx p).
(* ge_polyhedron.b = integer_ndarray(self.T[0]); None = IndexError when there is no column *)
Definition poly_b (p : vnd) : option (list Z) :=
  match vars p with
  | [] => None
  | _ => Some (map (fun row => nth 0 row 0) (mat p))
  end.
Definition to_linalg (p : vnd) : option (vnd * list Z) :=
  match poly_A p, poly_b p with
  | Some a, Some b => Some (a, b)
  | _, _ => None
  end.

(* ------------------------------------------------------------------ solver bridge *)
(* one entry of polyhedron.A.variables as the bridge sees it:
   c_compound : not issubclass(type, puan.variable)   (an AtLeast object sits in the list)
   c_gen      : its generated_id attribute
   c_leaf     : type(x) == puan.variable              (what StingyConfigurator.leafs() keeps) *)
Record column := mkCol { c_id : vid; c_lo : Z; c_hi : Z; c_compound : bool; c_gen : bool; c_leaf : bool }.
Definition col_var (c : column) : var := mkVar (c_id c) (c_lo c) (c_hi c).

Inductive exn := ExSolver | ExInfeasible.
Inductive outcome (A : Type) := Ok (a : A) | Raised (e : exn).
Arguments Ok {A} a.
Arguments Raised {A} e.

(* what a solver returns per objective: (vector or None, objective value, status code) *)
Record answer := mkAns { a_sol : option (list Z); a_obj : option Z; a_status : Z }.
Definition solver_t := vnd -> list (list Z) -> outcome (list answer).

(* AtLeast.solve, solver given: objectives = polyhedron.A.construct(objective, lambda x: 0) *)
Definition solve_objective (cols : list column) (o : dict) : list Z :=
  construct_gen (fun x => x) (fun _ => 0) (map col_var cols) o.
Definition solve_args (P : vnd) (cols : list column) (objs : list dict) : vnd * list (list Z) :=
  (P, map (solve_objective cols) objs).

(* the nested maz.ifttt filter on zip(polyhedron.A.variables, solution) *)
Definition keep_solve (incl : bool) (c : column) : bool :=
  if negb (c_compound c) then true else if c_gen c then incl else true.
Definition decode_solve (cols : list column) (incl : bool) (sol : option (list Z)) : dict :=
  match sol with
  | None => []
  | Some s => pydict (map (fun cx => (c_id (fst cx), snd cx))
                          (filter (fun cx => keep_solve incl (fst cx)) (combine cols s)))
  end.

(* solve(): the solver is called while the arguments of starmap are evaluated, outside any
   try: its exception propagates unchanged *)
Definition solve (solver : solver_t) (P : vnd) (cols : list column) (objs : list dict) (incl : bool)
  : outcome (list (dict * option Z * Z)) :=
  let '(P', os) := solve_args P cols objs in
  match solver P' os with
  | Raised e => Raised e
  | Ok answers => Ok (map (fun a => (decode_solve cols incl (a_sol a), a_obj a, a_status a)) answers)
  end.

(* ge_polyhedron_config._vectors_from_prios: per priority dict the pair
   [default_prio_vector, [y.get(v.id, 0) for v in A.variables]], then ndint_compress(shadow, axis 0)
   (modelled elsewhere: passed in as [compress]) *)
Definition prio_row (cols : list column) (y : dict) : list Z :=
  map (fun c => match dlookup (c_id c) y with Some w => w | None => 0 end) cols.
Definition select_stack (cols : list column) (dpv : list Z) (prios : list dict) : list (list (list Z)) :=
  map (fun y => [dpv; prio_row cols y]) prios.
Definition select_objectives (compress : list (list (list Z)) -> list (list Z))
           (cols : list column) (dpv : list Z) (prios : list dict) : list (list Z) :=
  compress (select_stack cols dpv prios).

(* dict(zip(map(id, variables), solution)) if solution is not None else {} — no filter *)
Definition decode_select (cols : list column) (sol : option (list Z)) : dict :=
  match sol with
  | None => []
  | Some s => pydict (combine (map c_id cols) s)
  end.

(* ge_polyhedron_config.select: everything up to the solver call sits in try/except
   Exception -> InfeasibleError *)
Definition select (compress : list (list (list Z)) -> list (list Z)) (solver : solver_t) (P : vnd)
           (cols : list column) (dpv : list Z) (prios : list dict)
  : outcome (list (dict * option Z * Z)) :=
  match solver P (select_objectives compress cols dpv prios) with
  | Raised _ => Raised ExInfeasible
  | Ok answers => Ok (map (fun a => (decode_select cols (a_sol a), a_obj a, a_status a)) answers)
  end.

(* StingyConfigurator.select(only_leafs=True): keeps the entries whose key is the id of a leaf
   item, and returns the dictionaries only *)
Definition leaf_ids (cols : list column) : list vid := map c_id (filter c_leaf cols).
Definition only_leafs_filter (leafs : list vid) (d : dict) : dict :=
  filter (fun kv => mem_vid (fst kv) leafs) d.
Definition stingy_select_leafs (compress : list (list (list Z)) -> list (list Z)) (solver : solver_t) (P : vnd)
           (cols : list column) (dpv : list Z) (prios : list dict) : outcome (list dict) :=
  match select compress solver P cols dpv prios with
  | Raised e => Raised e
  | Ok rs => Ok (map (fun r => only_leafs_filter (leaf_ids cols) (fst (fst r))) rs)
  end.
