(* ErrorsSpec.v — the SPECIFICATION side of C10: what "well-defined model" means.
   Nothing here mentions how errors() computes (no flatten, no hashes of objects, no
   dependency dictionary); everything is stated over `nodes m`, the list of all node and leaf
   occurrences of the tree.  The only implementation-related notions are `pyhash` (CPython's
   integer hash, Base.v) and `bhash lo hi = pyhash (pyhash lo + pyhash hi)` (= hash(Bounds),
   Errors.v) in the two guards that delimit the known findings D4 / D12. *)
Require Import Puan.Base Puan.Plog Puan.Sem Puan.Errors.

(* ---------- the id dependency graph ---------- *)
(* "a compound with id a has a child with id b", over all occurrences in m *)
Definition id_edge (m : prop) (a b : ident) : Prop :=
  exists n c, In n (nodes m) /\ is_var n = false /\ id_of n = a /\ In c (children n) /\ id_of c = b.
(* a non-empty path a -> ... -> b *)
Inductive id_path (m : prop) : ident -> ident -> Prop :=
| id_path_one a b : id_edge m a b -> id_path m a b
| id_path_step a b c : id_edge m a b -> id_path m b c -> id_path m a c.
Definition acyclic (m : prop) : Prop := forall i, ~ id_path m i i.

(* ---------- no node lists two children with the same id ---------- *)
Definition no_dup_child (m : prop) : Prop :=
  forall n, In n (nodes m) -> NoDup (map id_of (children n)).

(* ---------- one definition per id ---------- *)
(* the definition carried by an occurrence: everything except the class-level metadata and the
   "id was generated" flag: id, bounds, and for a compound sign, value and the definitions of
   its children, recursively and in order *)
Fixpoint erase (p : prop) : prop :=
  match p with
  | Var i lo hi => Var i lo hi
  | Node _ i _ lo hi s v ch => Node m0 i false lo hi s v (map erase ch)
  end.
(* all occurrences of an id carry the same bounds; two compounds with the same id carry the
   same definition.  (A leaf that refers to a compound's id with the same bounds is allowed.) *)
Definition one_def (m : prop) : Prop :=
  forall a b, In a (nodes m) -> In b (nodes m) -> id_of a = id_of b ->
    (lo_of a = lo_of b /\ hi_of a = hi_of b) /\
    (is_var a = false -> is_var b = false -> erase a = erase b).

Definition well_defined (m : prop) : Prop := acyclic m /\ no_dup_child m /\ one_def m.

(* ---------- guards delimiting the known findings ---------- *)
(* D4: two occurrences of an id whose bounds hash alike have equal bounds *)
Definition no_bounds_hash_collision (m : prop) : Prop :=
  forall a b, In a (nodes m) -> In b (nodes m) -> id_of a = id_of b ->
    bhash (lo_of a) (hi_of a) = bhash (lo_of b) (hi_of b) -> lo_of a = lo_of b /\ hi_of a = hi_of b.
(* D12: two compounds with the same id whose values hash alike have equal values
   (hash(-1) = hash(-2) in CPython) *)
Definition no_value_hash_collision (m : prop) : Prop :=
  forall a b, In a (nodes m) -> In b (nodes m) -> is_var a = false -> is_var b = false ->
    id_of a = id_of b -> pyhash (value_of a) = pyhash (value_of b) -> value_of a = value_of b.

(* ---------- the models the converse direction speaks about ---------- *)
(* tree-shaped with pairwise distinct ids: every id occurs once among all occurrences *)
Definition tree_distinct_ids (m : prop) : Prop := NoDup (map id_of (nodes m)).
(* the model merely shares identical sub-propositions: occurrences with equal ids are the same
   definition (in particular a leaf and a compound never share an id) of the same class, and no
   node lists two children with the same id.  (That ids along a root path are distinct follows,
   see ErrorsFacts.share_acyclic.) *)
Definition shares_only_identical (m : prop) : Prop :=
  (forall a b, In a (nodes m) -> In b (nodes m) -> id_of a = id_of b ->
      erase a = erase b /\ m_cls (meta_of a) = m_cls (meta_of b))
  /\ (forall n, In n (nodes m) -> NoDup (map id_of (children n))).

(* two compounds with the same id are of the same class (AtLeast.__eq__ compares types, so a
   model mixing classes under one id is rejected even when the definitions agree) *)
Definition class_coherent (m : prop) : Prop :=
  forall a b, In a (nodes m) -> In b (nodes m) -> is_var a = false -> is_var b = false ->
    id_of a = id_of b -> m_cls (meta_of a) = m_cls (meta_of b).
