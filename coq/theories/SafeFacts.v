(* SafeFacts.v — the constructors keep solver-safe form (C02, "negation pushes inwards to
   re-establish this form"): a constructor expression that uses positively signed connectives
   (All, Any, AtLeast with sign +1) and the connectives built from negate() (Not, Imply, XNor)
   over arguments of the same kind, and negatively signed connectives (AtMost, Xor, AtLeast
   with sign -1) only over atoms, builds a model in solver-safe form with signs in {+1,-1}. *)
Require Import Puan.Base Puan.Plog Puan.Sem Puan.SemFacts Puan.NegateFacts Puan.Cons Puan.ConsFacts.

Definition is_fleaf (f : form) : bool := match f with FLeaf _ _ _ => true | _ => false end.

Fixpoint keeps_safe (f : form) : bool :=
  match f with
  | FLeaf _ _ _ => true
  | FAtLeast _ v (Some s) l =>
      if s =? 1 then forallb keeps_safe l else if s =? -1 then forallb is_fleaf l else false
  | FAtLeast _ v None l => if 0 <? v then forallb keeps_safe l else forallb is_fleaf l
  | FAtMost _ _ l => forallb is_fleaf l
  | FAll _ l => forallb keeps_safe l
  | FAny _ l => forallb keeps_safe l
  | FXor _ l => forallb is_fleaf l
  | FXNor _ l => forallb keeps_safe l
  | FImply _ a b => keeps_safe a && keeps_safe b
  | FNot a => keeps_safe a
  | FCcAny _ _ _ => false
  | FCcXor _ _ _ => false
  | FStingy _ l => forallb keeps_safe l
  end.

Definition good (p : prop) : Prop := solver_safe p = true /\ ok_signs p = true.

Section S.
Variable genid : genid_t.

(* ---- negate keeps signs in {+1,-1} *)
Lemma forallb_flat_map_pairs (P : prop -> bool) (f : prop -> prop) ch :
  Forall (fun c => is_var c = false -> P (f c) = true) ch ->
  forallb P (flat_map (fun c => if is_var c then [] else [f c]) ch) = true.
Proof.
  induction 1 as [|x xs Hx Hxs IH]; cbn; auto.
  destruct (is_var x) eqn:E; cbn; auto. rewrite Hx, IH; auto.
Qed.

Lemma ok_signs_leaves ch : forallb is_var ch = true -> forallb ok_signs ch = true.
Proof.
  induction ch as [|x xs IH]; cbn; auto. intros H. apply andb_true_iff in H. destruct H as [Hx Hxs].
  destruct x; [|discriminate]. cbn. auto.
Qed.

Lemma thr_ok_signs ats t : forallb is_var ats = true -> ok_signs (thr_node genid ats t) = true.
Proof. intros H. unfold thr_node. cbn [negate_flat ok_signs]. cbn. apply ok_signs_leaves; auto. Qed.

Theorem negate_ok_signs p : ok_signs p = true -> ok_signs (negate genid p) = true.
Proof.
  induction p as [i lo hi | m i g lo hi s v ch0 IH] using prop_ind'; intros Hsg; [reflexivity|].
  cbn [ok_signs] in Hsg. apply andb_true_iff in Hsg. destruct Hsg as [Hs Hsg].
  cbn [negate]. rewrite pairs_fst. set (ch := py_sorted id_of ch0).
  assert (Hperm : Permutation ch ch0) by apply py_sorted_perm.
  destruct ((s =? 1) && negb (Nat.eqb (List.length (comps ch)) 0)) eqn:Hb.
  - cbn [ok_signs]. replace ((1 =? 1) || (1 =? -1)) with true by reflexivity. cbn [andb].
    rewrite forallb_app. apply andb_true_iff. split.
    + rewrite (forallb_perm _ _ _ (Permutation_flat_map _ (py_sorted_perm pkey _))).
      rewrite flat_pairs.
      apply forallb_flat_map_pairs. rewrite Forall_forall in *. intros c Hc Ec.
      rewrite forallb_forall in Hsg. apply IH; auto.
    + case_if; [reflexivity|]. rewrite forallb_forall. intros x Hx. apply in_map_iff in Hx.
      destruct Hx as (t & <- & _). fold (thr_node genid (atoms ch) t). apply thr_ok_signs. apply atoms_all_var.
  - cbn [ok_signs]. rewrite (forallb_perm ok_signs _ _ Hperm), Hsg.
    apply orb_true_iff in Hs. destruct Hs as [Hs | Hs]; apply Z.eqb_eq in Hs; subst s; reflexivity.
Qed.

(* ---- negate re-establishes solver-safe form even for a negatively signed node over
        sub-propositions (which is not itself solver safe): only the children have to be *)
Theorem negate_reestablishes p : ok_signs p = true -> is_var p = false ->
  (sign_of p = 1 -> solver_safe p = true) -> forallb solver_safe (children p) = true ->
  solver_safe (negate genid p) = true.
Proof.
  intros Hsg Hv Hpos Hch.
  destruct p as [i lo hi | m i g lo hi s v ch0]; [discriminate|].
  destruct (s =? 1) eqn:Es.
  - apply negate_solver_safe; auto. apply Hpos. cbn. lia.
  - cbn [ok_signs] in Hsg. apply andb_true_iff in Hsg. destruct Hsg as [Hs _].
    rewrite Es in Hs. cbn in Hs. apply Z.eqb_eq in Hs. subst s.
    cbn [negate]. rewrite pairs_fst. replace (-1 =? 1) with false by reflexivity. cbn [andb].
    cbn [solver_safe]. replace (- -1 =? -1) with false by reflexivity. cbn [andb].
    cbn [children] in Hch. rewrite (forallb_perm solver_safe _ _ (py_sorted_perm id_of ch0)). exact Hch.
Qed.

(* ---- constructors *)
Lemma mk_node_good m v args o sarg :
  (sarg = None \/ sarg = Some 1 \/ sarg = Some (-1)) ->
  (sign_of (mk_node genid m v args o sarg) = -1 -> forallb is_var args = true) ->
  Forall good args -> good (mk_node genid m v args o sarg).
Proof.
  intros Hsarg Hneg Hargs.
  assert (Hsafe : forallb solver_safe args = true).
  { apply forallb_forall. rewrite Forall_forall in Hargs. intros x Hx. apply Hargs; auto. }
  assert (Hok : forallb ok_signs args = true).
  { apply forallb_forall. rewrite Forall_forall in Hargs. intros x Hx. apply Hargs; auto. }
  assert (Hsign : let s := match sarg with Some s => s | None => default_sign v end in s = 1 \/ s = -1).
  { destruct Hsarg as [-> | [-> | ->]]; cbn; auto. unfold default_sign. case_if; auto. }
  unfold mk_node in *. cbn zeta in Hsign.
  set (s := match sarg with Some s => s | None => default_sign v end) in *.
  pose proof (py_sorted_perm id_of args) as Hperm.
  assert (Hgoal : forall i g lo hi, good (Node m i g lo hi s v (py_sorted id_of args))).
  { intros i g lo hi. split.
    - cbn [solver_safe]. rewrite (forallb_perm solver_safe _ _ Hperm), Hsafe, andb_true_r.
      destruct (s =? -1) eqn:E; [|reflexivity]. rewrite (forallb_perm is_var _ _ Hperm).
      apply Hneg. destruct o as [[i' [lo' hi']]|]; cbn [sign_of]; lia.
    - cbn [ok_signs]. rewrite (forallb_perm ok_signs _ _ Hperm), Hok, andb_true_r.
      destruct Hsign as [-> | ->]; reflexivity. }
  destruct o as [[i' [lo' hi']]|]; apply Hgoal.
Qed.

Lemma sign_mk_node m v args o sarg :
  sign_of (mk_node genid m v args o sarg) = match sarg with Some s => s | None => default_sign v end.
Proof. unfold mk_node. destruct o as [[i [lo hi]]|]; reflexivity. Qed.

Lemma children_mk_node m v args o sarg : children (mk_node genid m v args o sarg) = py_sorted id_of args.
Proof. unfold mk_node. destruct o as [[i [lo hi]]|]; reflexivity. Qed.

Lemma set_add_len x l : (List.length l <= List.length (set_add x l))%nat.
Proof. unfold set_add. destruct (existsb _ _); [lia|]. rewrite app_length. cbn. lia. Qed.

Lemma py_set_fold_len l : forall acc, (List.length acc <= List.length (fold_left (fun a x => set_add x a) l acc))%nat.
Proof.
  induction l as [|x xs IH]; intros acc; cbn [fold_left]; [lia|].
  etransitivity; [apply (set_add_len x acc)|apply IH].
Qed.

Lemma set_len_pos a args : 0 < set_len (a :: args).
Proof. unfold set_len. cbn [List.length]. lia. Qed.

Lemma leaves_good l : forallb is_var l = true -> Forall good l.
Proof.
  intros H. apply Forall_forall. intros x Hx. rewrite forallb_forall in H. specialize (H x Hx).
  destruct x; [split; reflexivity|discriminate].
Qed.

Lemma c_all_m_good m o args : Forall good args -> good (c_all_m genid m o args).
Proof.
  intros H. unfold c_all_m. apply mk_node_good; auto.
  rewrite sign_mk_node. destruct args as [|a args]; [reflexivity|].
  pose proof (set_len_pos a args). unfold default_sign. case_if; lia.
Qed.

Lemma c_any_m_good m o args : Forall good args -> good (c_any_m genid m o args).
Proof.
  intros H. unfold c_any_m. apply mk_node_good; auto.
  rewrite sign_mk_node. unfold default_sign. cbn. discriminate.
Qed.

Lemma set_meta_good m p : good p -> good (set_meta m p).
Proof. destruct p; cbn; auto. Qed.

Lemma as_comp_good p : good p -> good (as_comp genid p).
Proof.
  intros H. unfold as_comp. destruct (is_var p) eqn:E; [|exact H].
  apply c_all_m_good. constructor; auto.
Qed.

Lemma negate_good p : good p -> is_var p = false -> good (negate genid p).
Proof.
  intros [Hs Ho] Hv. split; [apply negate_solver_safe; auto|apply negate_ok_signs; auto].
Qed.

Lemma safe_children p : solver_safe p = true -> forallb solver_safe (children p) = true.
Proof. destruct p; cbn; [reflexivity|]. intros H. apply andb_true_iff in H. apply H. Qed.

Lemma build_leaf_var f : is_fleaf f = true -> is_var (build genid f) = true.
Proof. destruct f; cbn; congruence. Qed.

Lemma map_build_leaves l : forallb is_fleaf l = true -> forallb is_var (map (build genid) l) = true.
Proof.
  induction l as [|x xs IH]; cbn; auto. intros H. apply andb_true_iff in H. destruct H as [Hx Hxs].
  rewrite build_leaf_var, IH; auto.
Qed.

Lemma Forall_good_map l :
  Forall (fun f => keeps_safe f = true -> good (build genid f)) l -> forallb keeps_safe l = true ->
  Forall good (map (build genid) l).
Proof.
  induction 1 as [|x xs Hx Hxs IH]; cbn; intros H; constructor.
  - apply andb_true_iff in H. apply Hx, H.
  - apply andb_true_iff in H. apply IH, H.
Qed.

Theorem build_keeps_safe f : keeps_safe f = true -> good (build genid f).
Proof.
  induction f as [i lo hi | o v s l IH | o v l IH | o l IH | o l IH | o l IH | o l IH | o a b IHa IHb | a IHa
                 | o d l IH | o d l IH | o l IH] using form_ind'; cbn [keeps_safe build]; intros Hk.
  - split; reflexivity.
  - (* AtLeast *)
    unfold c_atleast. destruct s as [s|].
    + destruct (s =? 1) eqn:E1.
      * apply Z.eqb_eq in E1. subst s. apply mk_node_good; auto.
        { rewrite sign_mk_node. discriminate. }
        apply Forall_good_map; auto.
      * destruct (s =? -1) eqn:E2; [|discriminate]. apply Z.eqb_eq in E2. subst s.
        apply mk_node_good; auto.
        { intros _. apply map_build_leaves; auto. }
        apply leaves_good, map_build_leaves; auto.
    + destruct (0 <? v) eqn:Ev.
      * apply mk_node_good; auto.
        { rewrite sign_mk_node. unfold default_sign. rewrite Ev. discriminate. }
        apply Forall_good_map; auto.
      * apply mk_node_good; auto.
        { intros _. apply map_build_leaves; auto. }
        apply leaves_good, map_build_leaves; auto.
  - (* AtMost *)
    unfold c_atmost. apply mk_node_good; auto.
    { intros _. apply map_build_leaves; auto. }
    apply leaves_good, map_build_leaves; auto.
  - apply c_all_m_good, Forall_good_map; auto.
  - apply c_any_m_good, Forall_good_map; auto.
  - (* Xor over atoms *)
    unfold c_xor_m. apply c_all_m_good. pose proof (map_build_leaves l Hk) as Hl.
    constructor; [|constructor; [|constructor]].
    + unfold c_atleast. apply mk_node_good; [auto|intros _; exact Hl|apply leaves_good; exact Hl].
    + unfold c_atmost. apply mk_node_good; [auto|intros _; exact Hl|apply leaves_good; exact Hl].
  - (* XNor: both parts come out of negate() *)
    unfold c_xnor. pose proof (Forall_good_map l IH Hk) as Hl.
    assert (Hsafe : forallb solver_safe (map (build genid) l) = true).
    { apply forallb_forall. rewrite Forall_forall in Hl. intros x Hx. apply Hl; auto. }
    apply c_any_m_good. constructor; [|constructor; [|constructor]].
    + apply negate_good; [|apply is_var_mk_node].
      unfold c_atleast. apply mk_node_good; auto. rewrite sign_mk_node. cbn. discriminate.
    + (* AtMost(1, args) is NOT solver safe when args contains sub-propositions; its negation is *)
      assert (Hok : ok_signs (c_atmost genid None 1 (map (build genid) l)) = true).
      { unfold c_atmost, mk_node. cbn [ok_signs]. cbn [orb andb].
        rewrite (forallb_perm ok_signs _ _ (py_sorted_perm id_of _)).
        apply forallb_forall. rewrite Forall_forall in Hl. intros x Hx. apply Hl; auto. }
      split; [|apply negate_ok_signs; exact Hok].
      apply negate_reestablishes; [exact Hok|apply is_var_mk_node| |].
      * unfold c_atmost. rewrite sign_mk_node. discriminate.
      * unfold c_atmost. rewrite children_mk_node.
        rewrite (forallb_perm solver_safe _ _ (py_sorted_perm id_of _)). exact Hsafe.
  - (* Imply *)
    apply andb_true_iff in Hk. destruct Hk as [Ha Hb].
    unfold c_imply. apply set_meta_good. apply c_any_m_good.
    constructor; [|constructor; [|constructor]]; auto.
    apply negate_good; [apply as_comp_good; auto|apply is_var_as_comp].
  - (* Not *)
    unfold c_not. apply negate_good; [apply as_comp_good; auto|apply is_var_as_comp].
  - discriminate.
  - discriminate.
  - unfold c_stingy. apply c_all_m_good, Forall_good_map; auto.
Qed.

End S.

(* ---------- Not(...) : the constructor route to negation (C05) ---------- *)
Section NotFacts.
Variable genid : genid_t.
Variable env : ident -> Z.

(* the proposition Not() negates: the argument itself, an atom wrapped into All(atom) *)
Lemma as_comp_var_eval i lo hi : eval env (as_comp genid (Var i lo hi)) = if 1 <=? env i then 1 else 0.
Proof.
  unfold as_comp. cbn [is_var]. unfold c_all, c_all_m. rewrite eval_mk_node. cbn [map zsum eval].
  change (set_len [Var i lo hi]) with 1. change (default_sign 1) with 1.
  replace (1 * (env i + 0)) with (env i) by lia. reflexivity.
Qed.
Lemma as_comp_ok p : ok env p -> ok env (as_comp genid p).
Proof.
  intros H. unfold as_comp. destruct (is_var p) eqn:E; [|exact H].
  unfold c_all, c_all_m. apply ok_mk_node; auto.
Qed.

(* Not(p) evaluates to 1 exactly when p (an atom read as "value >= 1") evaluates to 0 *)
Theorem not_complement p : ok env p ->
  eval env (c_not genid p) = 1 - eval env (as_comp genid p).
Proof.
  intros H. unfold c_not. apply negate_complement; [apply as_comp_ok; exact H|apply is_var_as_comp].
Qed.
Theorem not_atom i lo hi : lo <= env i <= hi ->
  eval env (c_not genid (Var i lo hi)) = if env i <=? 0 then 1 else 0.
Proof.
  intros H. rewrite not_complement by (cbn; exact H). rewrite as_comp_var_eval.
  destruct (1 <=? env i) eqn:E1, (env i <=? 0) eqn:E2; lia.
Qed.
Theorem not_compound p : ok env p -> is_var p = false -> eval env (c_not genid p) = 1 - eval env p.
Proof. intros H Hv. rewrite not_complement by exact H. unfold as_comp. rewrite Hv. reflexivity. Qed.
End NotFacts.
