(* Compress.v — executable model of puan.ndarray.integer_ndarray.reduce2d / ranking /
   ndint_compress (seven methods; 1-D, 2-D on either axis, batched 3-D) and of the binary
   wheel function puan_rspy.py_optimized_bit_allocation_64 (`oba`, DESIGN 3.4 item 2), plus
   the configurator objective (ge_polyhedron_config._vectors_from_prios).
   Model only: no proofs here (they are in CompressFacts.v). *)
Require Import Puan.Base.

(* ---------------------------------------------------------------- arrays as lists *)
Definition nzb (x : Z) : bool := negb (x =? 0).
Definition col (M : list (list Z)) (j : nat) : list Z := map (fun r => nth j r 0) M.
Definition width (M : list (list Z)) : nat := match M with [] => O | r :: _ => List.length r end.
(* numpy.swapaxes(M, 0, 1) of a 2-D array *)
Definition transpose (M : list (list Z)) : list (list Z) := map (col M) (seq 0 (width M)).
Definition enum {A} (l : list A) : list (nat * A) := combine (seq 0 (List.length l)) l.
(* numpy.max / numpy.min of a non-empty list *)
Fixpoint lmax (l : list Z) : Z :=
  match l with [] => 0 | x :: xs => match xs with [] => x | _ => Z.max x (lmax xs) end end.
Fixpoint lmin (l : list Z) : Z :=
  match l with [] => 0 | x :: xs => match xs with [] => x | _ => Z.min x (lmin xs) end end.

(* ---------------------------------------------------------------- puan_rspy.py_optimized_bit_allocation_64
   Consecutive runs of equal values form groups; the weight of a group is 1 + the sum of the
   weights of all elements before it; every element gets its group's weight.
   prev = previous element, w = weight of the running group, total = sum of weights so far. *)
Fixpoint oba_go (prev : option Z) (w total : Z) (l : list Z) : list Z :=
  match l with
  | [] => []
  | x :: xs =>
      let same := match prev with Some p => p =? x | None => false end in
      let w' := if same then w else 1 + total in
      w' :: oba_go (Some x) w' (total + w') xs
  end.
Definition oba (l : list Z) : list Z := oba_go None 0 0 l.

(* ---------------------------------------------------------------- numpy.argsort + fancy indexing
   stable insertion sort of (index, value) pairs by value; `unsort` is indexing with
   argsort(argsort): position j receives what the sorted position holding index j carries. *)
Fixpoint ins_p (p : nat * Z) (l : list (nat * Z)) : list (nat * Z) :=
  match l with
  | [] => [p]
  | q :: qs => if snd q <? snd p then q :: ins_p p qs else p :: q :: qs
  end.
Fixpoint sort_p (l : list (nat * Z)) : list (nat * Z) :=
  match l with [] => [] | p :: ps => ins_p p (sort_p ps) end.
Fixpoint plookup (j : nat) (l : list (nat * Z)) : Z :=
  match l with [] => 0 | p :: r => if Nat.eqb (fst p) j then snd p else plookup j r end.
Definition unsort (n : nat) (l : list (nat * Z)) : list Z := map (fun j => plookup j l) (seq 0 n).

(* ---------------------------------------------------------------- reduce2d (axis 0)
   The code builds a 0/1 mask holding a single 1 per column at the first (last) non-zero
   entry and multiplies; entry-wise: an entry survives iff every entry above (below) it in its
   column is zero. *)
Definition all_zero (l : list Z) : bool := forallb (fun x => x =? 0) l.
Fixpoint reduce_last (M : list (list Z)) : list (list Z) :=
  match M with
  | [] => []
  | row :: rest =>
      map (fun jx => if all_zero (col rest (fst jx)) then snd jx else 0) (enum row) :: reduce_last rest
  end.
Definition reduce_first (M : list (list Z)) : list (list Z) := rev (reduce_last (rev M)).
Inductive rmethod := RFirst | RLast.
Definition reduce2d (m : rmethod) (axis : nat) (M : list (list Z)) : list (list Z) :=
  let f := match m with RFirst => reduce_first | RLast => reduce_last end in
  match axis with O => f M | _ => transpose (f (transpose M)) end.

(* ---------------------------------------------------------------- ranking (1-D; n-D maps over rows) *)
Fixpoint rank_walk (cur_rank cur_val : Z) (l : list (nat * Z)) : list (nat * Z) :=
  match l with
  | [] => []
  | p :: r => let rk := if cur_val =? snd p then cur_rank else cur_rank + 1 in
              (fst p, rk) :: rank_walk rk (snd p) r
  end.
Definition ranking1 (l : list Z) : list Z :=
  match sort_p (enum l) with
  | [] => []
  | (p0 :: _) as s => unsort (List.length l) (rank_walk (if 0 <? snd p0 then 1 else 0) (snd p0) s)
  end.

(* ---------------------------------------------------------------- the 2-D kernels (axis 0) *)
(* (c != 0).argmax() : index of the first non-zero entry, 0 when there is none *)
Fixpoint argmax_nz (c : list Z) : nat :=
  match c with [] => O | x :: xs => if nzb x then O else if existsb nzb xs then S (argmax_nz xs) else O end.
Definition first2d (M : list (list Z)) : list Z :=
  map (fun j => let c := col M j in nth (argmax_nz c) c 0) (seq 0 (width M)).
Definition last2d (M : list (list Z)) : list Z := first2d (rev M).

(* rows that survive `x[~numpy.all(x == 0, axis=1)]` *)
Definition kept_rows (M : list (list Z)) : list (list Z) :=
  filter (existsb nzb) (map (map Z.abs) (reduce_last M)).

(* sign-alternated, zero-free, row-major input of the bit allocation *)
Fixpoint alt_rows (s : Z) (rows : list (list (nat * Z))) : list Z :=
  match rows with [] => [] | r :: rs => map (fun p => s * snd p) r ++ alt_rows (- s) rs end.
(* x_sorted[x_sorted != 0] = values : consume the values row by row *)
Fixpoint assign (rows : list (list (nat * Z))) (vals : list Z) : list (list (nat * Z)) :=
  match rows with
  | [] => []
  | r :: rs => combine (map fst r) (firstn (List.length r) vals) :: assign rs (skipn (List.length r) vals)
  end.
Definition sorted_nz (row : list Z) : list (nat * Z) := filter (fun p => nzb (snd p)) (sort_p (enum row)).

Definition shadow2d (M : list (list Z)) : list Z :=
  let n := width M in
  let red := reduce_last M in
  let kept := kept_rows M in
  match kept with
  | [] => repeat 0 n
  | _ =>
      let srt := map sorted_nz kept in
      let values := oba (alt_rows 1 srt) in
      let back := map (unsort n) (assign srt values) in
      let compressed := map (fun j => lmax (col back j)) (seq 0 n) in
      let neg := map (fun j => lmin (col red j)) (seq 0 n) in
      map (fun cn => if snd cn <? 0 then fst cn * -1 else fst cn) (combine compressed neg)
  end.

(* numpy.concatenate(([0], numpy.cumsum(v)))[:-1] *)
Fixpoint offsets_from (acc : Z) (v : list Z) : list Z :=
  match v with [] => [] | x :: xs => acc :: offsets_from (acc + x) xs end.
Definition prio2d (M : list (list Z)) : list Z :=
  let n := width M in
  let kept := kept_rows M in
  match kept with
  | [] => repeat 0 n
  | _ =>
      let rk := map ranking1 kept in
      let offs := offsets_from 0 (map lmax rk) in
      let rk2 := map (fun ro => map (fun x => x + (if 0 <? x then snd ro else 0)) (fst ro)) (combine rk offs) in
      let prio := first2d rk2 in
      map (fun pl => if snd pl <? 0 then fst pl * -1 else fst pl) (combine prio (last2d M))
  end.
Definition rank2d (M : list (list Z)) : list Z := ranking1 (prio2d M).

Definition maxsize : Z := 9223372036854775807.
Definition min_nz (l : list Z) : Z :=
  if all_zero l then 0 else lmin (map (fun x => if x =? 0 then maxsize else x) l).

(* ---------------------------------------------------------------- ndint_compress *)
Inductive nd := Sc (z : Z) | V1 (l : list Z) | M2 (m : list (list Z)) | T3 (t : list (list (list Z))).
Inductive method := Shadow | Prio | Rank | First | Last | Min | Max.

(* numpy.swapaxes(t, 0, 1) of a 3-D array *)
Definition swap01 (t : list (list (list Z))) : list (list (list Z)) :=
  match t with [] => [] | m :: _ => map (fun b => map (fun m' => nth b m' []) t) (seq 0 (List.length m)) end.

(* first / last / prio / rank / shadow: `swapaxes(self,0,axis)`, then 3-D = map the 2-D kernel
   over the leading axis and swap back, 2-D = the kernel, 1-D = f1 *)
Definition batched (f2 : list (list Z) -> list Z) (f1 : list Z -> list Z) (axis : nat) (a : nd) : option nd :=
  match a, axis with
  | V1 l, O => Some (V1 (f1 l))
  | M2 m, O => Some (V1 (f2 m))
  | M2 m, S O => Some (V1 (f2 (transpose m)))
  | T3 t, O => Some (M2 (map f2 t))
  | T3 t, S O => Some (M2 (transpose (map f2 (swap01 t))))
  | _, _ => None
  end.
(* min / max: a plain numpy reduction along `axis` *)
Definition reduce_axis (g : list Z -> Z) (axis : nat) (a : nd) : option nd :=
  match a, axis with
  | V1 l, O => Some (Sc (g l))
  | M2 m, O => Some (V1 (map g (transpose m)))
  | M2 m, S O => Some (V1 (map g m))
  | T3 t, O => Some (M2 (map (fun r => map (fun c => g (map (fun m => nth c (nth r m []) 0) t))
                                          (seq 0 (width (hd [] t)))) (seq 0 (List.length (hd [] t)))))
  | T3 t, S O => Some (M2 (map (fun m => map g (transpose m)) t))
  | T3 t, S (S O) => Some (M2 (map (map g) t))
  | _, _ => None
  end.
Definition flat (a : nd) : list Z :=
  match a with Sc z => [z] | V1 l => l | M2 m => concat m | T3 t => concat (concat t) end.

Definition ndint_compress (m : method) (axis : option nat) (a : nd) : option nd :=
  let '(a, ax) := match axis with None => (M2 [flat a], O) | Some k => (a, k) end in
  match m with
  | Shadow => batched shadow2d (fun l => shadow2d [l]) ax a
  | Prio => batched prio2d ranking1 ax a
  | Rank => batched rank2d ranking1 ax a
  | First => batched first2d (fun l => l) ax a
  | Last => batched last2d (fun l => l) ax a
  | Min => reduce_axis min_nz ax a
  | Max => reduce_axis lmax ax a
  end.

(* ---------------------------------------------------------------- the configurator objective
   ge_polyhedron_config._vectors_from_prios: one [default_prio_vector; user prios] pair per
   priority dictionary, shadow-compressed as a batched 3-D array along axis 0. *)
Definition objective (dpv prios : list Z) : list Z := shadow2d [dpv; prios].
Definition vectors_from_prios (dpv : list Z) (prios : list (list Z)) : option nd :=
  ndint_compress Shadow (Some O) (T3 (map (fun u => [dpv; u]) prios)).
