(* ReduceFacts.v — reduce() preserves meaning and removes every fixed variable (C08). *)
Require Import Puan.Base Puan.Plog Puan.Sem Puan.SemFacts Puan.AssumeFacts.

Lemma inb_c_node env m i g lo hi s v ch : inb_c env (Node m i g lo hi s v ch) <-> Forall (inb_c env) ch.
Proof.
  cbn [inb_c]. split; intros H.
  - induction ch as [|x xs IH]; constructor; destruct H; auto.
  - induction H; cbn; auto.
Qed.
Lemma flat_map_comps {B} (f : prop -> B) ch :
  flat_map (fun c => if is_var c then [] else [f c]) ch = map f (comps ch).
Proof. unfold comps. induction ch as [|x xs IH]; cbn [flat_map filter map]; [reflexivity|]. destruct (is_var x); cbn [negb app map]; rewrite IH; reflexivity. Qed.

Definition clean (p : prop) : Prop := Forall (fun r => lo_of r <> hi_of r) (nodes p).

Section Reduce.
Variable env : ident -> Z.

Lemma eval_c_const q : lo_of q = hi_of q -> eval_c env q = lo_of q.
Proof. destruct q; cbn [lo_of hi_of eval_c]; intros ->; rewrite Z.eqb_refl; reflexivity. Qed.

Lemma split_consts sub :
  zsum (map (eval_c env) sub) =
  zsum (map (fun c => match const_of c with Some k => k | None => 0 end) sub)
  + zsum (map (eval_c env) (filter (fun c => match const_of c with Some _ => false | None => true end) sub)).
Proof.
  induction sub as [|q qs IH]; cbn [map zsum filter]; [reflexivity|].
  unfold const_of at 1 3. destruct (lo_of q =? hi_of q) eqn:E.
  - rewrite eval_c_const by lia. lia.
  - cbn [map zsum]. lia.
Qed.

Lemma reduce_ok p : ok_signs p = true -> inb_c env p ->
  eval_c env (reduce p) = eval_c env p /\ lo_of (reduce p) <= eval_c env p <= hi_of (reduce p).
Proof.
  induction p as [i lo hi | m i g lo hi s v ch IH] using prop_ind'; intros Hsg Hin.
  - cbn [reduce eval_c lo_of hi_of inb_c] in *. split; [reflexivity|]. case_if; lia.
  - apply ok_signs_node in Hsg. destruct Hsg as [Hs Hsg]. apply inb_c_node in Hin.
    cbn [reduce]. destruct (lo =? hi) eqn:Ec.
    + cbn [eval_c lo_of hi_of]. rewrite Ec. split; [reflexivity|lia].
    + rewrite flat_map_comps.
      set (sub := map reduce (comps ch) ++ atoms ch).
      assert (Hsub : Forall (fun q => lo_of q <= eval_c env q <= hi_of q) sub).
      { apply Forall_app. split.
        - apply Forall_forall. intros q Hq. apply in_map_iff in Hq. destruct Hq as (c & <- & Hc).
          unfold comps in Hc. apply filter_In in Hc. destruct Hc as [Hc _]. rewrite Forall_forall in *.
          destruct (IH c Hc (Hsg c Hc) (Hin c Hc)) as [H1 H2]. rewrite H1. exact H2.
        - apply Forall_forall. intros q Hq. unfold atoms in Hq. apply filter_In in Hq. destruct Hq as [Hc Hv].
          rewrite Forall_forall in *. specialize (Hin q Hc). destruct q; [|discriminate].
          cbn [inb_c lo_of hi_of eval_c] in *. case_if; lia. }
      assert (Hsum : zsum (map (eval_c env) sub) = zsum (map (eval_c env) ch)).
      { unfold sub. rewrite map_app, zsum_app, map_map. rewrite (zsum_partition (eval_c env) ch). f_equal.
        f_equal. apply map_ext_in. intros c Hc. unfold comps in Hc. apply filter_In in Hc. destruct Hc as [Hc _].
        rewrite Forall_forall in *. apply IH; auto. }
      assert (Hb := sum_bounds (fun x => x) (eval_c env) s sub Hs Hsub). rewrite map_id in Hb. rewrite Hsum in Hb.
      cbn [eval_c]. rewrite Ec.
      destruct (v <=? sum_lo s sub) eqn:E1; destruct (v <=? sum_hi s sub) eqn:E2; cbn [b2z];
        match goal with |- context [?a =? ?b] => destruct (a =? b) eqn:En end; try lia.
      1,3: cbn [eval_c lo_of hi_of]; rewrite En; split; repeat case_if; lia.
      * cbn [eval_c lo_of hi_of]. rewrite En. split; [|repeat case_if; lia].
        rewrite (zsum_map_perm _ _ _ (py_sorted_perm id_of _)).
        pose proof (split_consts sub) as Hsp. rewrite Hsum in Hsp.
        set (K := zsum (map (fun c => match const_of c with Some k => k | None => 0 end) sub)) in *.
        set (F := zsum (map (eval_c env) (filter (fun c => match const_of c with Some _ => false | None => true end) sub))) in *.
        destruct Hs as [-> | ->]; repeat case_if; lia.
Qed.

Theorem reduce_sem p : ok_signs p = true -> inb_c env p -> eval_c env (reduce p) = eval_c env p.
Proof. intros. apply reduce_ok; auto. Qed.
End Reduce.

Theorem reduce_clean p : clean (reduce p) \/ exists i b, reduce p = Var i b b.
Proof.
  induction p as [i lo hi | m i g lo hi s v ch IH] using prop_ind'.
  - cbn [reduce]. destruct (Z.eq_dec lo hi) as [->|Hne]; [right; eauto|].
    left. unfold clean. cbn [nodes]. constructor; [cbn; auto|constructor].
  - cbn [reduce]. destruct (lo =? hi) eqn:Ec; [right; assert (lo = hi) by lia; subst; eauto|].
    rewrite flat_map_comps. set (sub := map reduce (comps ch) ++ atoms ch).
    destruct (b2z (v <=? sum_lo s sub) =? b2z (v <=? sum_hi s sub)) eqn:En.
    + right. assert (b2z (v <=? sum_lo s sub) = b2z (v <=? sum_hi s sub)) as -> by lia. eauto.
    + left. unfold clean. cbn [nodes]. constructor; [cbn [lo_of hi_of]; lia|].
      apply Forall_forall. intros r Hr. apply in_flat_map in Hr. destruct Hr as (q & Hq & Hr).
      apply (Permutation_in _ (py_sorted_perm id_of _)) in Hq. apply filter_In in Hq. destruct Hq as [Hq Hfree].
      unfold const_of in Hfree. destruct (lo_of q =? hi_of q) eqn:Eq; [discriminate|].
      unfold sub in Hq. apply in_app_or in Hq. destruct Hq as [Hq|Hq].
      * apply in_map_iff in Hq. destruct Hq as (c & <- & Hc). unfold comps in Hc. apply filter_In in Hc. destruct Hc as [Hc _].
        rewrite Forall_forall in IH. destruct (IH c Hc) as [Hcl|(j & b & Hv)].
        -- unfold clean in Hcl. rewrite Forall_forall in Hcl. auto.
        -- rewrite Hv in Eq. cbn [lo_of hi_of] in Eq. lia.
      * unfold atoms in Hq. apply filter_In in Hq. destruct Hq as [_ Hv]. destruct q; [|discriminate].
        cbn [nodes] in Hr. destruct Hr as [<-|[]]. cbn [lo_of hi_of] in *. lia.
Qed.
