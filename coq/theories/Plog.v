(* Plog.v — executable model of puan.logic.plog (AtLeast and friends) and of the puan-rspy
   row generation used by AtLeast.to_ge_polyhedron.  No proofs here. *)
Require Import Puan.Base.

Inductive cls := KAtLeast | KAtMost | KAll | KAny | KImply | KXor | KXNor | KCcAny | KCcXor | KStingy.
Definition cls_eqb (a b : cls) : bool :=
  match a, b with
  | KAtLeast, KAtLeast | KAtMost, KAtMost | KAll, KAll | KAny, KAny | KImply, KImply
  | KXor, KXor | KXNor, KXNor | KCcAny, KCcAny | KCcXor, KCcXor | KStingy, KStingy => true
  | _, _ => false
  end.

(* class-level attributes that only matter for serialisation and the configurator:
   m_prio    : the `prio` instance attribute (set on the inner Any of a defaulted cc.Any)
   m_default : the `default` list of cc.Any / cc.Xor (variables: id, lower, upper)
   m_cond    : for Imply, the position of the (negated) condition among the children, and
               whether the stored consequence was given as a bare str *)
Record meta := mkMeta { m_cls : cls; m_prio : option Z; m_default : list (ident * (Z * Z)); m_cond : nat }.
Definition m0 : meta := mkMeta KAtLeast None [] 0.
Definition mk (c : cls) : meta := mkMeta c None [] 0.

Inductive prop :=
| Var (i : ident) (lo hi : Z)
| Node (m : meta) (i : ident) (g : bool) (lo hi : Z) (s v : Z) (ch : list prop).

Section Ind.
  Variable P : prop -> Prop.
  Hypothesis HV : forall i lo hi, P (Var i lo hi).
  Hypothesis HN : forall m i g lo hi s v ch, Forall P ch -> P (Node m i g lo hi s v ch).
  Fixpoint prop_ind' (p : prop) : P p :=
    match p with
    | Var i lo hi => HV i lo hi
    | Node m i g lo hi s v ch =>
        HN m i g lo hi s v ch
          ((fix go (l : list prop) : Forall P l :=
              match l with [] => Forall_nil _ | x :: xs => Forall_cons _ (prop_ind' x) (go xs) end) ch)
    end.
End Ind.

Definition is_var (p : prop) := match p with Var _ _ _ => true | _ => false end.
Definition id_of p := match p with Var i _ _ => i | Node _ i _ _ _ _ _ _ => i end.
Definition lo_of p := match p with Var _ lo _ => lo | Node _ _ _ lo _ _ _ _ => lo end.
Definition hi_of p := match p with Var _ _ hi => hi | Node _ _ _ _ hi _ _ _ => hi end.
Definition children p := match p with Var _ _ _ => [] | Node _ _ _ _ _ _ _ ch => ch end.
Definition sign_of p := match p with Var _ _ _ => 1 | Node _ _ _ _ _ s _ _ => s end.
Definition value_of p := match p with Var _ _ _ => 0 | Node _ _ _ _ _ _ v _ => v end.
Definition gen_of p := match p with Var _ _ _ => false | Node _ _ g _ _ _ _ _ => g end.
Definition meta_of p := match p with Var _ _ _ => m0 | Node m _ _ _ _ _ _ _ => m end.
Definition atoms (ch : list prop) := filter is_var ch.
Definition comps (ch : list prop) := filter (fun c => negb (is_var c)) ch.
(* the variable object of a proposition (for a compound: its own 0/1 variable) *)
Definition var_of p := Var (id_of p) (lo_of p) (hi_of p).

(* ---------- structural equality ---------- *)
Definition bounds_eqb (a b : Z * Z) := (fst a =? fst b) && (snd a =? snd b).
Definition meta_eqb (a b : meta) : bool :=
  cls_eqb (m_cls a) (m_cls b) && opt_eqb Z.eqb (m_prio a) (m_prio b)
  && list_eqb (pair_eqb String.eqb bounds_eqb) (m_default a) (m_default b)
  && Nat.eqb (m_cond a) (m_cond b).
Fixpoint prop_eqb (a b : prop) {struct a} : bool :=
  match a, b with
  | Var i lo hi, Var j lo' hi' => String.eqb i j && (lo =? lo') && (hi =? hi')
  | Node m i g lo hi s v ch, Node m' j g' lo' hi' s' v' ch' =>
      meta_eqb m m' && String.eqb i j && Bool.eqb g g' && (lo =? lo') && (hi =? hi') && (s =? s') && (v =? v')
      && (fix go (l l' : list prop) : bool :=
            match l, l' with
            | [], [] => true
            | x :: xs, y :: ys => prop_eqb x y && go xs ys
            | _, _ => false
            end) ch ch'
  | _, _ => false
  end.
(* equality ignoring class-level metadata (what every query except serialisation sees) *)
Fixpoint core_eqb (a b : prop) {struct a} : bool :=
  match a, b with
  | Var i lo hi, Var j lo' hi' => String.eqb i j && (lo =? lo') && (hi =? hi')
  | Node _ i g lo hi s v ch, Node _ j g' lo' hi' s' v' ch' =>
      String.eqb i j && Bool.eqb g g' && (lo =? lo') && (hi =? hi') && (s =? s') && (v =? v')
      && (fix go (l l' : list prop) : bool :=
            match l, l' with
            | [], [] => true
            | x :: xs, y :: ys => core_eqb x y && go xs ys
            | _, _ => false
            end) ch ch'
  | _, _ => false
  end.

(* ---------- the id generator: an oracle ---------- *)
(* AtLeast._id_generator hashes "".join(atom ids ++ compound ids) + str(value) + str(sign)
   where sign is the *argument* (None when not given).  The model only assumes it is some
   function of (that id list, value, sign argument). *)
Definition genid_t := list ident -> Z -> option Z -> ident.

Section WithGenid.
Variable genid : genid_t.

Definition gen_key (ch : list prop) : list ident := map id_of (atoms ch) ++ map id_of (comps ch).

(* AtLeast.__init__ : children are sorted by id (stable); non-str arguments come first, the
   harness passes them in that order already.  idarg = None means "generate". *)
Definition default_sign (v : Z) : Z := if 0 <? v then 1 else -1.
Definition mk_node (m : meta) (v : Z) (args : list prop) (idarg : option (ident * (Z * Z))) (sarg : option Z) : prop :=
  let ch := py_sorted id_of args in
  let s := match sarg with Some s => s | None => default_sign v end in
  match idarg with
  | None => Node m (genid (gen_key ch) v sarg) true 0 1 s v ch
  | Some (i, (lo, hi)) => Node m i false lo hi s v ch
  end.

(* ---------- negate (model of the code AFTER fix D1; see DESIGN 5.2) ---------- *)
(* negation of a node without compound children, or of a negative node: never pushes inward *)
Definition negate_flat (p : prop) : prop :=
  match p with
  | Var _ _ _ => p
  | Node _ i g lo hi s v ch =>
      Node m0 (if g then genid (gen_key ch) (1 - v) (Some (- s)) else i) g lo hi (- s) (1 - v) ch
  end.

(* NB: the constructor call inside negate() re-sorts the children (they are unsorted when
   the node is itself the result of an inward push), hence the sort on (child, negated child)
   pairs. *)
Definition pkey (pc : prop * prop) : ident := id_of (fst pc).
Fixpoint negate (p : prop) : prop :=
  match p with
  | Var _ _ _ => p
  | Node _ i g lo hi s v ch0 =>
      let pairs := py_sorted pkey (map (fun c => (c, negate c)) ch0) in
      let ch := map fst pairs in
      let ni := if g then genid (gen_key ch) (1 - v) (Some (- s)) else i in
      let ats := atoms ch in
      let ncomp := List.length (comps ch) in
      if (s =? 1) && negb (Nat.eqb ncomp 0) then
        let alo := Z.max (zsum (map lo_of ats)) (v - Z.of_nat ncomp - 1) in
        let ahi := zsum (map hi_of ats) in
        let top := Z.max (alo + 1) (Z.min ahi v) in
        let groups :=
          if Nat.eqb (List.length ats) 0 then []
          else map (fun t => negate_flat (Node m0 (genid (gen_key ats) t (Some 1)) true 0 1 1 t ats))
                   (zrange (alo + 1) (Z.to_nat (top - alo))) in
        let ch' := flat_map (fun pc => if is_var (fst pc) then [] else [snd pc]) pairs ++ groups in
        Node m0 ni g lo hi 1
             (1 - v + Z.of_nat (List.length ch') + (if Nat.eqb (List.length ats) 0 then 0 else alo)) ch'
      else Node m0 ni g lo hi (- s) (1 - v) ch
  end.

End WithGenid.

(* ---------- equation bounds, tautology, contradiction ---------- *)
Definition eq_mm (s : Z) (ch : list prop) : Z * Z :=
  let cmin := zsum (map (fun c => Z.min (lo_of c) (hi_of c) * s) ch) in
  let cmax := zsum (map (fun c => Z.max (lo_of c) (hi_of c) * s) ch) in
  (Z.min cmin cmax, Z.max cmin cmax).
Definition equation_bounds (p : prop) : Z * Z :=
  let '(mn, mx) := eq_mm (sign_of p) (children p) in (mn - value_of p, mx - value_of p).
Definition is_tautology p := 0 <=? fst (equation_bounds p).
Definition is_contradiction p := snd (equation_bounds p) <? 0.

(* ---------- assume / evaluate ---------- *)
Definition interp := list (ident * (Z * Z)).   (* normalised: int v -> (v,v) *)

(* bounds of the sum  sign * Σ children  from the children's bounds *)
Definition sum_lo (s : Z) (ch : list prop) : Z := zsum (map (fun c => if 0 <? s then lo_of c else hi_of c * s) ch).
Definition sum_hi (s : Z) (ch : list prop) : Z := zsum (map (fun c => if 0 <? s then hi_of c else lo_of c * s) ch).
Definition b2z (b : bool) : Z := if b then 1 else 0.

Definition dbounds (d : interp) (i : ident) (lo hi : Z) : Z * Z :=
  match alookup i d with Some b => b | None => (lo, hi) end.

(* (after fix D10) an assumed child is replaced by its bare variable only when its id is in the
   dictionary AND its bounds are constant; order is kept, then the constructor sorts. *)
Definition keep_child (d : interp) (c : prop) : prop :=
  match alookup (id_of c) d with
  | Some _ => if lo_of c =? hi_of c then var_of c else c
  | None => c
  end.

Fixpoint assume (d : interp) (p : prop) : prop :=
  match p with
  | Var i lo hi => Var i (fst (dbounds d i lo hi)) (snd (dbounds d i lo hi))
  | Node _ i g lo hi s v ch =>
      let b := dbounds d i lo hi in
      if fst b =? snd b then Var i (fst b) (snd b)
      else
        let ach := map (assume d) ch in
        Node m0 i false (b2z (v <=? sum_lo s ach)) (b2z (v <=? sum_hi s ach)) s v
             (py_sorted id_of (map (keep_child d) ach))
  end.

(* flatten: every node and leaf reachable, deduplicated the way a Python set does
   (equal __hash__ and __eq__), sorted by id.  The relative order of entries with equal ids
   is hash-order dependent in the implementation and is NOT modelled (see DESIGN 3.3). *)
Inductive hkey := HVar (i : ident) (bs : Z) | HNode (i : ident) (bs : Z) (s v : Z) (ch : list hkey).
Fixpoint hkey_eqb (a b : hkey) {struct a} : bool :=
  match a, b with
  | HVar i x, HVar j y => String.eqb i j && (x =? y)
  | HNode i x s v ch, HNode j y s' v' ch' =>
      String.eqb i j && (x =? y) && (s =? s') && (v =? v')
      && (fix go (l l' : list hkey) : bool :=
            match l, l' with
            | [], [] => true
            | p :: ps, q :: qs => hkey_eqb p q && go ps qs
            | _, _ => false
            end) ch ch'
  | _, _ => false
  end.
(* hash(Bounds) is CPython's hash() OF __hash__'s result hash(lower)+hash(upper): a result of -1
   becomes -2, so sums -1 and -2 collide as well *)
Definition bsum (lo hi : Z) : Z := pyhash (pyhash lo + pyhash hi).
Fixpoint hkey_of (p : prop) : hkey :=
  match p with
  | Var i lo hi => HVar i (bsum lo hi)
  | Node _ i _ lo hi s v ch => HNode i (bsum lo hi) s (pyhash v) (map hkey_of ch)
  end.
(* __eq__ : variable compares ids; AtLeast compares class (type(self) == type(other)), id, equation
   bounds and value *)
Definition pyeq (a b : prop) : bool :=
  match a, b with
  | Var i _ _, Var j _ _ => String.eqb i j
  | Node m i _ _ _ _ v _, Node m' j _ _ _ _ v' _ =>
      cls_eqb (m_cls m) (m_cls m') && String.eqb i j && bounds_eqb (equation_bounds a) (equation_bounds b) && (v =? v')
  | _, _ => false
  end.
Definition same_elt (a b : prop) : bool := hkey_eqb (hkey_of a) (hkey_of b) && pyeq a b.
Definition set_add (x : prop) (l : list prop) : list prop :=
  if existsb (same_elt x) l then l else l ++ [x].
Definition py_set (l : list prop) : list prop := fold_left (fun acc x => set_add x acc) l [].

Fixpoint flat_raw (p : prop) : list prop :=
  match p with
  | Var _ _ _ => [p]
  | Node _ _ _ _ _ _ _ ch =>
      p :: flat_map (fun c => if is_var c then [] else flat_raw c) ch ++ atoms ch
  end.
Definition flatten (p : prop) : list prop := py_sorted id_of (py_set (flat_raw p)).

Definition evaluate_propositions (d : interp) (p : prop) : list (ident * (Z * Z)) :=
  map (fun q => (id_of q, (lo_of q, hi_of q))) (flatten (assume d p)).
Definition evaluate (d : interp) (p : prop) : option (Z * Z) :=
  alookup_last (id_of p) (evaluate_propositions d p).

(* ---------- reduce ---------- *)
Definition const_of (p : prop) : option Z := if lo_of p =? hi_of p then Some (lo_of p) else None.
Fixpoint reduce (p : prop) : prop :=
  match p with
  | Var _ _ _ => p
  | Node _ i g lo hi s v ch =>
      if lo =? hi then Var i lo hi
      else
        let sub := flat_map (fun c => if is_var c then [] else [reduce c]) ch ++ atoms ch in
        let nlo := b2z (v <=? sum_lo s sub) in
        let nhi := b2z (v <=? sum_hi s sub) in
        if nlo =? nhi then Var i nlo nhi
        else
          let consts := zsum (map (fun c => match const_of c with Some k => k | None => 0 end) sub) in
          let free := filter (fun c => match const_of c with Some _ => false | None => true end) sub in
          Node m0 i false nlo nhi s (v - consts * s) (py_sorted id_of free)
  end.

(* ---------- errors() ---------- *)
Fixpoint dependencies (p : prop) : list (ident * list ident) :=
  match p with
  | Var _ _ _ => []
  | Node _ i _ _ _ _ _ ch =>
      (i, map id_of (atoms ch) ++ map id_of (comps ch))
        :: flat_map (fun c => if is_var c then [] else dependencies c) ch
  end.
(* dict(...) keeps the LAST entry of a key; graphlib raises CycleError iff the graph
   (node -> predecessors) has a cycle. *)
Definition succs (g : list (ident * list ident)) (k : ident) : list ident :=
  match alookup_last k g with Some l => l | None => [] end.
Fixpoint union_str (a b : list ident) : list ident :=
  match a with [] => b | x :: xs => if mem_str x b then union_str xs b else union_str xs (b ++ [x]) end.
Fixpoint closure (g : list (ident * list ident)) (fuel : nat) (front : list ident) : list ident :=
  match fuel with
  | O => front
  | S n => closure g n (union_str (flat_map (succs g) front) front)
  end.
Definition has_cycle (g : list (ident * list ident)) : bool :=
  let keys := dedup_str (map fst g) in
  existsb (fun k => mem_str k (closure g (List.length keys) (succs g k))) keys.

Fixpoint dedup_hkey (l : list hkey) : list hkey :=
  match l with [] => [] | x :: xs => if existsb (hkey_eqb x) xs then dedup_hkey xs else x :: dedup_hkey xs end.

Inductive err := CIRCULAR | AMBIVALENT | NON_UNIQUE.
Definition err_eqb a b := match a, b with CIRCULAR, CIRCULAR | AMBIVALENT, AMBIVALENT | NON_UNIQUE, NON_UNIQUE => true | _, _ => false end.

Definition edge_t := (ident * ident)%type.
Definition edge_eqb (a b : edge_t) := String.eqb (fst a) (fst b) && String.eqb (snd a) (snd b).
Fixpoint has_dup_edge (l : list edge_t) : bool :=
  match l with [] => false | x :: xs => existsb (edge_eqb x) xs || has_dup_edge xs end.

Definition errors (p : prop) : list err :=
  let fl := flatten p in
  let c1 := has_cycle (dependencies p) in
  (* hashes of leaf variables and of the compounds' own variables vs distinct ids *)
  let vhash := map (fun q => HVar (id_of q) (bsum (lo_of q) (hi_of q))) fl in
  let c2 := negb (Nat.eqb (List.length (dedup_hkey vhash)) (List.length (dedup_str (map id_of fl)))) in
  let cs := comps fl in
  let c3 := negb (Nat.eqb (List.length (dedup_hkey (map hkey_of cs))) (List.length (dedup_str (map id_of cs)))) in
  let edges := flat_map (fun x => map (fun y => (id_of x, id_of y)) (children x)) cs in
  let c4 := has_dup_edge edges in
  (if c1 then [CIRCULAR] else []) ++ (if c2 then [AMBIVALENT] else []) ++
  (if c3 then [AMBIVALENT] else []) ++ (if c4 then [NON_UNIQUE] else []).

(* ---------- to_ge_polyhedron (incl. the puan-rspy row generation, DESIGN 3.4) ---------- *)
(* a row:  b <= Σ coef * x(id) ; columns are identified by id *)
Definition row := (Z * list (ident * Z))%type.
Definition minterm (s : Z) (c : prop) := Z.min (s * lo_of c) (s * hi_of c).
Definition direct_row (s v : Z) (ch : list prop) : row := (v, map (fun c => (id_of c, s)) ch).
Definition bigm_row (i : ident) (s v : Z) (ch : list prop) : row :=
  let M := v - zsum (map (minterm s) ch) in
  (v - M, (i, - M) :: map (fun c => (id_of c, s)) ch).
Fixpoint rows (p : prop) : list row :=
  match p with
  | Var _ _ _ => []
  | Node _ i _ _ _ s v ch => bigm_row i s v ch :: concat (rev (map rows ch))
  end.
Definition encode (active : bool) (p : prop) : list row :=
  match p with
  | Var _ _ _ => []
  | Node _ i _ _ _ s v ch => if active then direct_row s v ch :: concat (rev (map rows ch)) else rows p
  end.
(* dict(zip(ids, flatten)): one entry per id, at the position of the id's first occurrence, holding
   its last occurrence (flatten() lists an id twice only when two occurrences differ as set elements) *)
Definition dict_put (acc : list prop) (q : prop) : list prop :=
  if existsb (fun r => String.eqb (id_of r) (id_of q)) acc
  then map (fun r => if String.eqb (id_of r) (id_of q) then q else r) acc
  else acc ++ [q].
Definition dict_by_id (l : list prop) : list prop := fold_left dict_put l [].
(* columns: flatten order (one per id), top removed when active; with declared bounds *)
Definition columns (active : bool) (p : prop) : list (ident * (Z * Z)) :=
  map (fun q => (id_of q, (lo_of q, hi_of q)))
      (filter (fun q => negb (active && String.eqb (id_of q) (id_of p))) (dict_by_id (flatten p))).
(* dense matrix row over the column list: coefficient = sum of the row's entries for that id *)
Definition coef_of (r : row) (i : ident) : Z :=
  zsum (map (fun e => if String.eqb (fst e) i then snd e else 0) (snd r)).
Definition dense (cols : list ident) (r : row) : list Z := fst r :: map (coef_of r) cols.
Definition to_ge_polyhedron (active : bool) (p : prop) : list (ident * (Z * Z)) * list (list Z) :=
  let cols := columns active p in
  (cols, map (dense (map fst cols)) (encode active p)).
