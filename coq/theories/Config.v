(* Config.v — executable model of StingyConfigurator.add (puan/modules/configurator) on top of the
   constructor model Cons.v.  No proofs here. *)
Require Import Puan.Base Puan.Plog Puan.Cons.

Section WithGenid.
Variable genid : genid_t.

(* add(): refuse a proposition whose id names an existing top-level child, otherwise build
   StingyConfigurator(self.propositions + [proposition] unpacked, id=self.id) — the id is passed as a
   str, so the new configurator's id is explicit even if the old one was generated *)
Definition stingy_add (cfg r : prop) : option prop :=
  match cfg with
  | Var _ _ _ => None
  | Node _ i _ _ _ _ _ ch =>
      if existsb (fun c => String.eqb (id_of c) (id_of r)) ch then None
      else Some (c_stingy genid (Some (i, (0, 1))) (ch ++ [r]))
  end.
Definition stingy_adds (cfg : prop) (rs : list prop) : option prop :=
  fold_left (fun acc r => match acc with Some c => stingy_add c r | None => None end) rs (Some cfg).
End WithGenid.
