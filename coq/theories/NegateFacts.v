(* NegateFacts.v — negate is the exact complement (C05), keeps explicit ids, and keeps
   boolean-leaf models in solver-safe form. *)
Require Import Puan.Base Puan.Plog Puan.Sem Puan.SemFacts.

Section P.
Variable genid : genid_t.
Variable env : ident -> Z.

Lemma thr_sum_zero S n : forall st, S < st -> zsum (map (fun t => if t <=? S then 1 else 0) (zrange st n)) = 0.
Proof.
  induction n as [|n IH]; intros st Hst; cbn [zrange map zsum]; [lia|].
  destruct (st <=? S) eqn:E2; [lia|]. rewrite IH; lia.
Qed.

(* number of thresholds t in start .. start+n-1 that S reaches = clamp (S+1-start) 0 n *)
Lemma thr_sum S start n :
  zsum (map (fun t => if t <=? S then 1 else 0) (zrange start n)) = Z.max 0 (Z.min (Z.of_nat n) (S + 1 - start)).
Proof.
  revert start. induction n as [|n IH]; intros start; cbn [zrange map zsum].
  - lia.
  - destruct (start <=? S) eqn:E.
    + rewrite IH. lia.
    + rewrite thr_sum_zero by lia. lia.
Qed.

Definition thr_node (ats : list prop) (t : Z) : prop :=
  negate_flat genid (Node m0 (genid (gen_key ats) t (Some 1)) true 0 1 1 t ats).

Lemma eval_thr_node t ats :
  eval env (thr_node ats t) = 1 - (if t <=? zsum (map (eval env) ats) then 1 else 0).
Proof.
  unfold thr_node. cbn [negate_flat eval]. set (S := zsum _).
  repeat case_if; lia.
Qed.

Lemma groups_sum ats start n :
  zsum (map (eval env) (map (thr_node ats) (zrange start n)))
  = Z.of_nat n - zsum (map (fun t => if t <=? zsum (map (eval env) ats) then 1 else 0) (zrange start n)).
Proof.
  revert start; induction n as [|n IH]; intros start; cbn [zrange map zsum]; [lia|].
  rewrite IH, eval_thr_node. lia.
Qed.

Lemma comps_sum (f : prop -> prop) ch :
  Forall (fun c => is_var c = false -> eval env (f c) = 1 - eval env c) ch ->
  zsum (map (eval env) (flat_map (fun c => if is_var c then [] else [f c]) ch))
  = Z.of_nat (List.length (comps ch)) - zsum (map (eval env) (comps ch)).
Proof.
  unfold comps. induction 1 as [|x xs Hx Hxs IH]; cbn [flat_map filter map zsum List.length]; [lia|].
  destruct (is_var x) eqn:E; cbn [negb app map zsum List.length].
  - exact IH.
  - rewrite IH, Hx by reflexivity. lia.
Qed.

Lemma flat_map_len (f : prop -> prop) ch :
  List.length (flat_map (fun c => if is_var c then [] else [f c]) ch) = List.length (comps ch).
Proof. unfold comps. induction ch as [|x xs IH]; cbn; [reflexivity|]. destruct (is_var x); cbn; lia. Qed.

Lemma pairs_fst (f : prop -> prop) ch0 :
  map fst (py_sorted pkey (map (fun c => (c, f c)) ch0)) = py_sorted id_of ch0.
Proof.
  unfold pkey. rewrite (py_sorted_map (@fst prop prop) id_of). rewrite map_map. cbn [fst]. rewrite map_id. reflexivity.
Qed.

Lemma flat_pairs (f : prop -> prop) ch0 :
  flat_map (fun pc : prop * prop => if is_var (fst pc) then [] else [snd pc]) (map (fun c => (c, f c)) ch0)
  = flat_map (fun c => if is_var c then [] else [f c]) ch0.
Proof. induction ch0 as [|x xs IH]; cbn [map flat_map fst snd]; [reflexivity|]. rewrite IH. reflexivity. Qed.

Lemma sorted_sum (f : prop -> Z) ch0 : zsum (map f (py_sorted id_of ch0)) = zsum (map f ch0).
Proof. apply zsum_perm. apply Permutation_map. apply py_sorted_perm. Qed.
Lemma sorted_comps_perm ch0 : Permutation (comps (py_sorted id_of ch0)) (comps ch0).
Proof. apply filter_perm. apply py_sorted_perm. Qed.
Lemma sorted_atoms_perm ch0 : Permutation (atoms (py_sorted id_of ch0)) (atoms ch0).
Proof. apply filter_perm. apply py_sorted_perm. Qed.

Lemma comps_le_len ch : zsum (map (eval env) (comps ch)) <= Z.of_nat (List.length (comps ch)).
Proof.
  unfold comps. induction ch as [|x xs IHx]; cbn [filter map zsum List.length]; [lia|].
  destruct x as [|m i g lo hi s v c]; cbn [is_var negb map zsum List.length]; [exact IHx|].
  pose proof (eval_node_01 env m i g lo hi s v c). lia.
Qed.

(* C05, first sentence: for every tree, every integer bounds, every id generator. *)
Theorem negate_complement p : ok env p -> is_var p = false -> eval env (negate genid p) = 1 - eval env p.
Proof.
  induction p as [i lo hi | m i g lo hi s v ch0 IH] using prop_ind'; intros Hok Hv; [discriminate|].
  apply ok_node_forall in Hok. destruct Hok as [Hs Hch0].
  cbn [negate]. rewrite pairs_fst.
  set (ch := py_sorted id_of ch0).
  assert (Hch : Forall (ok env) ch).
  { rewrite Forall_forall in *. intros c Hc. apply Hch0. eapply Permutation_in; [apply py_sorted_perm|exact Hc]. }
  cbn [eval]. rewrite <- (sorted_sum (eval env) ch0). fold ch.
  destruct ((s =? 1) && negb (Nat.eqb (List.length (comps ch)) 0)) eqn:Hb.
  - apply andb_true_iff in Hb. destruct Hb as [Hs1 Hc]. apply Z.eqb_eq in Hs1. subst s.
    cbn [eval]. rewrite map_app, zsum_app.
    assert (Hneg : zsum (map (eval env) (flat_map (fun pc : prop * prop => if is_var (fst pc) then [] else [snd pc])
                     (py_sorted pkey (map (fun c => (c, negate genid c)) ch0))))
                   = Z.of_nat (List.length (comps ch)) - zsum (map (eval env) (comps ch))).
    { rewrite (zsum_perm _ (map (eval env) (flat_map (fun pc : prop * prop => if is_var (fst pc) then [] else [snd pc])
                     (map (fun c => (c, negate genid c)) ch0)))).
      2:{ apply Permutation_map. apply Permutation_flat_map. apply py_sorted_perm. }
      rewrite flat_pairs. rewrite (comps_sum (negate genid) ch0).
      2:{ rewrite Forall_forall in *. intros c Hin Hcv. apply IH; auto. }
      unfold ch. rewrite (Permutation_length (sorted_comps_perm ch0)).
      rewrite (zsum_perm _ _ (Permutation_map (eval env) (sorted_comps_perm ch0))). reflexivity. }
    rewrite Hneg. rewrite app_length.
    assert (Hlen : List.length (flat_map (fun pc : prop * prop => if is_var (fst pc) then [] else [snd pc])
                     (py_sorted pkey (map (fun c => (c, negate genid c)) ch0))) = List.length (comps ch)).
    { rewrite (Permutation_length (Permutation_flat_map _ (py_sorted_perm pkey _))).
      rewrite flat_pairs, flat_map_len. unfold ch. symmetry. apply Permutation_length. apply sorted_comps_perm. }
    rewrite Hlen.
    rewrite (zsum_partition (eval env) ch).
    pose proof (comps_nonneg env ch) as Hc0.
    pose proof (comps_le_len ch) as Hck.
    pose proof (atoms_bounds env ch Hch) as Hab.
    set (SC := zsum (map (eval env) (comps ch))) in *.
    set (SA := zsum (map (eval env) (atoms ch))) in *.
    destruct (Nat.eqb (List.length (atoms ch)) 0) eqn:Ha.
    + apply Nat.eqb_eq in Ha. destruct (atoms ch) eqn:Eat; [|discriminate]. cbn [map zsum List.length] in *.
      subst SA. cbn [map zsum] in *.
      repeat case_if; lia.
    + set (k := Z.of_nat (List.length (comps ch))) in *.
      set (alo := Z.max (zsum (map lo_of (atoms ch))) (v - k - 1)) in *.
      set (ahi := zsum (map hi_of (atoms ch))) in *.
      fold (thr_node (atoms ch)).
      rewrite map_length, groups_sum. fold SA.
      rewrite zrange_length. rewrite thr_sum.
      repeat case_if; lia.
  - cbn [eval].
    destruct Hs as [-> | ->].
    + repeat case_if; lia.
    + repeat case_if; lia.
Qed.

(* an explicitly given id is kept *)
Theorem negate_keeps_id p : gen_of p = false -> id_of (negate genid p) = id_of p.
Proof. destruct p as [|m i g lo hi s v ch]; cbn [negate gen_of id_of]; [reflexivity|]. intros ->. case_if; reflexivity. Qed.

(* own bounds and generated flag are kept *)
Lemma negate_keeps_bounds p : lo_of (negate genid p) = lo_of p /\ hi_of (negate genid p) = hi_of p /\ gen_of (negate genid p) = gen_of p.
Proof. destruct p as [|m i g lo hi s v ch]; cbn [negate]; [auto|]. case_if; cbn; auto. Qed.

(* negation of a solver-safe model over boolean leaves is solver-safe *)
Lemma thr_safe ats t : forallb is_var ats = true -> solver_safe (thr_node ats t) = true.
Proof.
  intros H. unfold thr_node. cbn [negate_flat solver_safe]. rewrite H. cbn.
  apply solver_safe_leaves; auto.
Qed.

Lemma forallb_flat_map_safe (f : prop -> prop) ch :
  Forall (fun c => is_var c = false -> solver_safe (f c) = true) ch ->
  forallb solver_safe (flat_map (fun c => if is_var c then [] else [f c]) ch) = true.
Proof.
  induction 1 as [|x xs Hx Hxs IH]; cbn; auto.
  destruct (is_var x) eqn:E; cbn; auto. rewrite Hx, IH; auto.
Qed.

Lemma forallb_perm {A} (f : A -> bool) l l' : Permutation l l' -> forallb f l = forallb f l'.
Proof. induction 1; cbn; try congruence. destruct (f x), (f y); reflexivity. Qed.

Theorem negate_solver_safe p : ok_signs p = true -> solver_safe p = true -> is_var p = false ->
  solver_safe (negate genid p) = true.
Proof.
  induction p as [i lo hi | m i g lo hi s v ch0 IH] using prop_ind'; intros Hsg Hsafe Hv; [discriminate|].
  cbn [solver_safe] in Hsafe. apply andb_true_iff in Hsafe. destruct Hsafe as [Hneg Hsafe].
  cbn [ok_signs] in Hsg. apply andb_true_iff in Hsg. destruct Hsg as [Hs Hsg].
  cbn [negate]. rewrite pairs_fst. set (ch := py_sorted id_of ch0).
  assert (Hperm : Permutation ch ch0) by apply py_sorted_perm.
  destruct ((s =? 1) && negb (Nat.eqb (List.length (comps ch)) 0)) eqn:Hb.
  - cbn [solver_safe]. replace (1 =? -1) with false by reflexivity. cbn [andb].
    rewrite forallb_app. apply andb_true_iff. split.
    + rewrite (forallb_perm _ _ _ (Permutation_flat_map _ (py_sorted_perm pkey _))).
      rewrite flat_pairs.
      apply forallb_flat_map_safe. rewrite Forall_forall in *. intros c Hc Ec.
      rewrite forallb_forall in Hsafe, Hsg. apply IH; auto.
    + case_if; [reflexivity|]. rewrite forallb_forall. intros x Hx. apply in_map_iff in Hx.
      destruct Hx as (t & <- & _). fold (thr_node (atoms ch) t). apply thr_safe. apply atoms_all_var.
  - cbn [solver_safe]. rewrite (forallb_perm solver_safe _ _ Hperm), (forallb_perm is_var _ _ Hperm).
    apply orb_true_iff in Hs. destruct Hs as [Hs | Hs]; apply Z.eqb_eq in Hs; subst s.
    + (* s = 1 and no compounds: result has sign -1 over leaves only *)
      cbn in Hb. apply negb_false_iff in Hb. apply Nat.eqb_eq in Hb.
      replace (- (1) =? -1) with true by reflexivity.
      assert (forallb is_var ch = true) as Hall.
      { unfold comps in Hb. clear -Hb. induction ch as [|x xs IHx]; cbn in *; auto.
        destruct (is_var x); cbn in *; [auto|discriminate]. }
      rewrite <- (forallb_perm is_var _ _ Hperm). rewrite Hall. cbn. apply solver_safe_leaves; auto.
      rewrite <- (forallb_perm is_var _ _ Hperm). exact Hall.
    + replace (- -1 =? -1) with false by reflexivity. cbn. exact Hsafe.
Qed.

End P.
