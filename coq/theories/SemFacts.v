(* SemFacts.v — basic lemmas about eval / ok shared by the property proofs. *)
Require Import Puan.Base Puan.Plog Puan.Sem.

Section Facts.
Variable env : ident -> Z.

Lemma ok_node_forall m i g lo hi s v ch :
  ok env (Node m i g lo hi s v ch) <-> (s = 1 \/ s = -1) /\ Forall (ok env) ch.
Proof.
  cbn [ok]. split; intros [H1 H2]; split; auto.
  - induction ch as [|x xs IH]; constructor; destruct H2; auto.
  - induction H2; cbn; auto.
Qed.

Lemma eval_node_01 m i g lo hi s v ch :
  eval env (Node m i g lo hi s v ch) = 0 \/ eval env (Node m i g lo hi s v ch) = 1.
Proof. cbn [eval]. destruct (_ <=? _); auto. Qed.

Lemma eval_comp_01 p : is_var p = false -> 0 <= eval env p <= 1.
Proof. destruct p; [discriminate|]. intros _. cbn [eval]. case_if; lia. Qed.

Lemma zsum_partition (f : prop -> Z) ch :
  zsum (map f ch) = zsum (map f (comps ch)) + zsum (map f (atoms ch)).
Proof.
  unfold comps, atoms. induction ch as [|x xs IH]; cbn [filter map zsum]; [lia|].
  destruct (is_var x); cbn [negb map zsum] in *; lia.
Qed.

Lemma atoms_bounds ch : Forall (ok env) ch ->
  zsum (map lo_of (atoms ch)) <= zsum (map (eval env) (atoms ch)) <= zsum (map hi_of (atoms ch)).
Proof.
  unfold atoms. induction 1 as [|x xs Hx Hxs IH]; cbn [filter map zsum]; [lia|].
  destruct x; cbn [is_var map zsum lo_of hi_of eval ok] in *; lia.
Qed.

Lemma comps_nonneg ch : 0 <= zsum (map (eval env) (comps ch)).
Proof.
  unfold comps. induction ch as [|x xs IH]; cbn [filter map zsum]; [lia|].
  destruct x as [|m i g lo hi s v c]; cbn [is_var negb map zsum]; [exact IH|].
  pose proof (eval_node_01 m i g lo hi s v c). lia.
Qed.

Lemma atoms_all_var ch : forallb is_var (atoms ch) = true.
Proof. unfold atoms. induction ch as [|x xs IH]; cbn; auto. destruct (is_var x) eqn:E; cbn; auto. rewrite E; auto. Qed.

Lemma forallb_var_comps_nil ch : forallb is_var ch = true -> comps ch = [].
Proof. unfold comps. induction ch as [|x xs IH]; cbn; auto. intros H. apply andb_true_iff in H. destruct H as [-> H]. cbn. auto. Qed.

End Facts.

Lemma solver_safe_leaves ch : forallb is_var ch = true -> forallb solver_safe ch = true.
Proof. induction ch as [|x xs IH]; cbn; auto. intros H. apply andb_true_iff in H. destruct H as [Hx H]. destruct x; [|discriminate]. cbn. auto. Qed.

(* ---------- dict_by_id (the id -> entry dictionary built from flatten()) ---------- *)
Lemma dict_put_in acc q r : In r (dict_put acc q) -> In r acc \/ r = q.
Proof.
  unfold dict_put. destruct (existsb _ acc).
  - intros H. apply in_map_iff in H. destruct H as (x & E & Hx). destruct (String.eqb (id_of x) (id_of q)); subst; auto.
  - intros H. apply in_app_or in H. destruct H as [H|[<-|[]]]; auto.
Qed.
Lemma dict_by_id_in l r : In r (dict_by_id l) -> In r l.
Proof.
  unfold dict_by_id. assert (G : forall acc, In r (fold_left dict_put l acc) -> In r acc \/ In r l).
  { induction l as [|q qs IH]; intros acc H; cbn [fold_left] in H; [auto|].
    destruct (IH _ H) as [H1|H1]; [|right; right; exact H1].
    destruct (dict_put_in _ _ _ H1) as [H2| ->]; [auto|right; left; reflexivity]. }
  intros H. destruct (G [] H) as [[]|H']. exact H'.
Qed.
Lemma dict_put_fresh acc q : ~ In (id_of q) (map id_of acc) -> dict_put acc q = (acc ++ [q])%list.
Proof.
  intros H. unfold dict_put. destruct (existsb _ acc) eqn:E; [|reflexivity].
  exfalso. apply existsb_exists in E. destruct E as (x & Hx & Ex). apply String.eqb_eq in Ex.
  apply H. rewrite <- Ex. apply in_map. exact Hx.
Qed.
(* a list without repeated ids is its own dictionary *)
Lemma dict_by_id_nodup l : NoDup (map id_of l) -> dict_by_id l = l.
Proof.
  unfold dict_by_id. assert (G : forall acc, NoDup (map id_of (acc ++ l)) -> fold_left dict_put l acc = (acc ++ l)%list).
  { induction l as [|q qs IH]; intros acc H; cbn [fold_left]; [rewrite app_nil_r; reflexivity|].
    rewrite dict_put_fresh.
    - rewrite IH; rewrite <- app_assoc; [reflexivity|exact H].
    - rewrite map_app in H. cbn [map] in H. apply NoDup_remove_2 in H. intros Hin. apply H. apply in_or_app. auto. }
  intros H. apply (G [] H).
Qed.
