(* CorrCons.v — correspondence checkers for the constructors (Cons.v). *)
Require Import Puan.Base Puan.Plog Puan.Sem Puan.Corr Puan.Cons.

Definition check_build (c : idtable * form * prop) : bool :=
  let '(t, f, obs) := c in prop_eqb (build (genid_of t) f) obs.
