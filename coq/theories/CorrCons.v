(* CorrCons.v — correspondence checkers for the constructors (Cons.v). *)
Require Import Puan.Base Puan.Plog Puan.Sem Puan.Corr Puan.Cons.

Definition check_build (c : idtable * form * prop) : bool :=
  let '(t, f, obs) := c in prop_eqb (build (genid_of t) f) obs.

Require Import Puan.Config.
(* StingyConfigurator.add: observed = Some result, or None when the implementation raised *)
Definition check_add (c : idtable * prop * prop * option prop) : bool :=
  let '(t, cfg, r, obs) := c in opt_eqb prop_eqb (stingy_add (genid_of t) cfg r) obs.

Require Import Puan.Cic.
Definition check_cic (c : idtable * cic * prop) : bool :=
  let '(t, d, obs) := c in prop_eqb (from_cic (genid_of t) d) obs.
