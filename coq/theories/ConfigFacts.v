(* ConfigFacts.v — add() equals direct construction with the extra rule (C18). *)
Require Import Puan.Base Puan.Plog Puan.Sem Puan.Cons Puan.Config Puan.SortFacts.

Lemma same_elt_id a b : same_elt a b = true -> id_of a = id_of b.
Proof.
  unfold same_elt. intros H. apply andb_true_iff in H. destruct H as [_ H].
  destruct a, b; cbn [pyeq id_of] in *; try discriminate.
  - apply String.eqb_eq; auto.
  - rewrite !andb_true_iff in H. destruct H as [[[_ H] _] _]. apply String.eqb_eq; auto.
Qed.
Lemma py_set_nodup_aux l : forall acc, NoDup (map id_of (acc ++ l)) ->
  fold_left (fun acc x => set_add x acc) l acc = acc ++ l.
Proof.
  induction l as [|x xs IH]; intros acc Hnd; cbn [fold_left]; [rewrite app_nil_r; reflexivity|].
  assert (Hx : existsb (same_elt x) acc = false).
  { destruct (existsb (same_elt x) acc) eqn:E; [|reflexivity]. apply existsb_exists in E. destruct E as (y & Hy & Hs).
    apply same_elt_id in Hs. exfalso. rewrite map_app in Hnd. cbn [map] in Hnd. apply NoDup_remove_2 in Hnd.
    apply Hnd. apply in_or_app. left. rewrite Hs. apply in_map. exact Hy. }
  unfold set_add at 2. rewrite Hx. rewrite IH; [rewrite <- app_assoc; reflexivity|]. rewrite <- app_assoc. exact Hnd.
Qed.
Lemma set_len_nodup l : NoDup (map id_of l) -> set_len l = Z.of_nat (List.length l).
Proof. intros _. reflexivity. Qed.

Lemma NoDup_app_l {A} (a b : list A) : NoDup (a ++ b) -> NoDup a.
Proof. induction a as [|x xs IH]; cbn; intros H; [constructor|]. inversion H; subst. constructor; auto. intros Hin. apply H2. apply in_or_app. auto. Qed.

Section C.
Variable genid : genid_t.

Lemma mk_node_sorted_snoc m v v' args r o s : v = v' ->
  mk_node genid m v (py_sorted id_of args ++ [r]) o s = mk_node genid m v' (args ++ [r]) o s.
Proof. intros <-. unfold mk_node. rewrite sorted_prefix_snoc. reflexivity. Qed.

Theorem stingy_sorted_prefix o args r : NoDup (map id_of (args ++ [r])) ->
  c_stingy genid o (py_sorted id_of args ++ [r]) = c_stingy genid o (args ++ [r]).
Proof.
  intros Hnd. unfold c_stingy, c_all_m. apply mk_node_sorted_snoc.
  rewrite !set_len_nodup; auto.
  - rewrite !app_length, (Permutation_length (py_sorted_perm id_of args)). reflexivity.
  - eapply Permutation_NoDup; [|exact Hnd]. apply Permutation_map. apply Permutation_app_tail. apply Permutation_sym. apply py_sorted_perm.
Qed.

Lemma children_stingy o args : children (c_stingy genid o args) = py_sorted id_of args.
Proof. unfold c_stingy, c_all_m, mk_node. destruct o as [[i [lo hi]]|]; reflexivity. Qed.
Lemma is_node_stingy o args : exists m i g lo hi s v, c_stingy genid o args = Node m i g lo hi s v (py_sorted id_of args).
Proof. unfold c_stingy, c_all_m, mk_node. destruct o as [[i [lo hi]]|]; repeat eexists. Qed.

(* one addition *)
Theorem add_is_direct o args r : NoDup (map id_of (args ++ [r])) ->
  stingy_add genid (c_stingy genid o args) r =
  Some (c_stingy genid (Some (id_of (c_stingy genid o args), (0, 1))) (args ++ [r])).
Proof.
  intros Hnd. destruct (is_node_stingy o args) as (m & i & g & lo & hi & s & v & Heq). rewrite Heq. cbn [stingy_add id_of].
  assert (Hex : existsb (fun c => String.eqb (id_of c) (id_of r)) (py_sorted id_of args) = false).
  { destruct (existsb _ _) eqn:E; [|reflexivity]. apply existsb_exists in E. destruct E as (c & Hc & He). apply String.eqb_eq in He.
    apply (Permutation_in _ (py_sorted_perm id_of args)) in Hc. exfalso. rewrite map_app in Hnd. cbn [map] in Hnd.
    apply NoDup_remove_2 in Hnd. apply Hnd. rewrite app_nil_r. rewrite <- He. apply in_map. exact Hc. }
  rewrite Hex. f_equal. apply stingy_sorted_prefix. exact Hnd.
Qed.

Theorem add_rejects cfg r : is_var cfg = false ->
  (stingy_add genid cfg r = None <-> In (id_of r) (map id_of (children cfg))).
Proof.
  destruct cfg as [|m i g lo hi s v ch]; [discriminate|]. intros _. cbn [stingy_add children].
  destruct (existsb (fun c => String.eqb (id_of c) (id_of r)) ch) eqn:E.
  - split; [|reflexivity]. intros _. apply existsb_exists in E. destruct E as (c & Hc & He). apply String.eqb_eq in He. rewrite <- He. apply in_map. exact Hc.
  - split; [discriminate|]. intros Hin. apply in_map_iff in Hin. destruct Hin as (c & He & Hc).
    assert (existsb (fun c => String.eqb (id_of c) (id_of r)) ch = true); [|congruence].
    apply existsb_exists. exists c. split; auto. apply String.eqb_eq. exact He.
Qed.

Lemma id_stingy_explicit i b args : id_of (c_stingy genid (Some (i, b)) args) = i.
Proof. unfold c_stingy, c_all_m, mk_node. destruct b. reflexivity. Qed.

(* any sequence of additions *)
Theorem adds_is_direct rs : forall o args, rs <> [] -> NoDup (map id_of (args ++ rs)) ->
  stingy_adds genid (c_stingy genid o args) rs =
  Some (c_stingy genid (Some (id_of (c_stingy genid o args), (0, 1))) (args ++ rs)).
Proof.
  induction rs as [|r rs IH]; intros o args Hne Hnd; [congruence|].
  unfold stingy_adds. cbn [fold_left].
  assert (Hnd1 : NoDup (map id_of (args ++ [r]))).
  { rewrite !map_app in *. cbn [map] in *. apply NoDup_app_l with (b := map id_of rs).
    rewrite <- app_assoc. exact Hnd. }
  rewrite (add_is_direct o args r Hnd1).
  destruct rs as [|r2 rs2]; [cbn [fold_left]; reflexivity|].
  fold (stingy_adds genid (c_stingy genid (Some (id_of (c_stingy genid o args), (0, 1))) (args ++ [r])) (r2 :: rs2)).
  rewrite IH; [|discriminate|rewrite <- app_assoc; exact Hnd].
  rewrite id_stingy_explicit, <- app_assoc. reflexivity.
Qed.
End C.
