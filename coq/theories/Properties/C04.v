(* C04 — Connectives have their documented truth functions.
   Only statements, `exact`, non-vacuity examples and Print Assumptions live here.
   Model side: Cons.build (the Python constructors AtLeast, AtMost, All, Any, Xor/ExactlyOne, XNor,
   Imply, Not, applied to arbitrarily nested arguments; ids through an ARBITRARY id generator).
   Spec side: ConsFacts.fsem — conjunction, disjunction, at-least-k (sign * count >= k; the
   default sign is + for k >= 1), at-most-k, exactly-one, not-exactly-one, material implication,
   negation of the arguments' truth values; Sem.eval — the arithmetic truth function. *)
Require Import Puan.Base Puan.Plog Puan.Sem Puan.Cons Puan.ConsFacts Puan.Cic Puan.ConsAll.

(* for every id generator, every 0/1 environment and every well-formed constructor tree (boolean
   leaves; All's arguments are not merged by its set(): true whenever sibling ids are distinct) *)
Theorem C04_truth_functions :
  forall (genid : genid_t) (env : ident -> Z),
    (forall i, env i = 0 \/ env i = 1) ->
    forall f : form, wf genid f -> eval env (build genid f) = fsem env f.
Proof. intros genid env Hb f Hw. exact (proj1 (build_sem genid env Hb f Hw)). Qed.
Print Assumptions C04_truth_functions.

(* the documented truth functions, spelled out per connective (definitional unfoldings of fsem) *)
Theorem C04_spec :
  forall env o l a b,
    fsem env (FAll o l) = b2z (forallb (fun x => fsem env x =? 1) l) /\
    fsem env (FAny o l) = b2z (existsb (fun x => fsem env x =? 1) l) /\
    (forall k, fsem env (FAtLeast o k (Some 1) l) = b2z (k <=? zsum (map (fsem env) l))) /\
    (forall k, 0 < k -> fsem env (FAtLeast o k None l) = b2z (k <=? zsum (map (fsem env) l))) /\
    (forall k, fsem env (FAtMost o k l) = b2z (zsum (map (fsem env) l) <=? k)) /\
    fsem env (FXor o l) = b2z (zsum (map (fsem env) l) =? 1) /\
    fsem env (FXNor o l) = b2z (negb (zsum (map (fsem env) l) =? 1)) /\
    fsem env (FImply o a b) = b2z (negb (fsem env a =? 1) || (fsem env b =? 1)) /\
    fsem env (FNot a) = 1 - fsem env a.
Proof.
  intros. cbn [fsem]. unfold count, default_sign. repeat split; intros; try reflexivity.
  - replace (1 * zsum (map (fsem env) l)) with (zsum (map (fsem env) l)) by lia. reflexivity.
  - assert ((0 <? k) = true) as -> by lia. replace (1 * zsum (map (fsem env) l)) with (zsum (map (fsem env) l)) by lia. reflexivity.
Qed.
Print Assumptions C04_spec.

(* the rule-dictionary constructor Imply.from_cicJE: the document is translated (Cic.form_of_cic:
   ruleType REQUIRES_ALL / REQUIRES_ANY / ONE_OR_NONE / FORBIDS_ALL / REQUIRES_EXCLUSIVELY for the
   consequence; sub-conditions combined by the outer relation; a single sub-condition is used as
   is; no sub-condition => just the consequence) and evaluates like that formula *)
Theorem C04_rule_dictionary :
  forall (genid : genid_t) (env : ident -> Z),
    (forall i, env i = 0 \/ env i = 1) ->
    forall d : cic, wf genid (form_of_cic d) -> eval env (from_cic genid d) = fsem env (form_of_cic d).
Proof. intros genid env Hb d Hw. exact (proj1 (build_sem genid env Hb (form_of_cic d) Hw)). Qed.
Print Assumptions C04_rule_dictionary.

(* Non-vacuity: Imply(All(x, Any(a,b)), y) — the witness of defect D1 (a tautology before the
   fix) — is well formed for the constant id generator and evaluates like x∧(a∨b) → y. *)
Open Scope string_scope.
Definition c04_g : genid_t := fun ids v s => "G".
Definition c04_f : form := FImply None (FAll None [FLeaf "x" 0 1; FAny None [FLeaf "a" 0 1; FLeaf "b" 0 1]]) (FLeaf "y" 0 1).
Definition c04_env : ident -> Z := fun i => if String.eqb i "y" then 0 else if String.eqb i "b" then 0 else 1.
Example C04_nonvacuous :
  wf c04_g c04_f /\ fsem c04_env c04_f = 0 /\ eval c04_env (build c04_g c04_f) = 0.
Proof. vm_compute. repeat split; reflexivity. Qed.
Print Assumptions C04_nonvacuous.

(* the same for EVERY formula, without the side condition about All: since fix D16 (All counts every operand it was
   given) nothing but syntax is asked — boolean leaves, explicit signs +1 / -1 — so repeated operands, operands whose
   ids collide and formulas that errors() rejects are covered too *)
Theorem C04_truth_functions_every_formula :
  forall (genid : genid_t) (env : ident -> Z),
    (forall i, env i = 0 \/ env i = 1) ->
    forall f : form, wf0 f -> eval env (build genid f) = fsem env f.
Proof. exact build_sem_all. Qed.
Print Assumptions C04_truth_functions_every_formula.

(* non-vacuity / regression for D16: All(a, b, a) with the constant id generator is the conjunction a /\ b
   (before the fix its threshold was 2 and it was true at a = 1, b = 0) *)
Example C04_repeated_operand :
  let f := FAll None [FLeaf "a" 0 1; FLeaf "b" 0 1; FLeaf "a" 0 1] in
  let env := fun i => if String.eqb i "a" then 1 else 0 in
  wf0 f /\ value_of (build (fun _ _ _ => "G") f) = 3 /\ eval env (build (fun _ _ _ => "G") f) = 0 /\ fsem env f = 0.
Proof. vm_compute. repeat split; reflexivity. Qed.
Print Assumptions C04_repeated_operand.
