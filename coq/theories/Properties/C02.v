(* C02 — Integer solutions of the polyhedron are exactly the satisfying configurations.
   Only statements, `exact`, non-vacuity examples and Print Assumptions live here. *)
Require Import Puan.Base Puan.Plog Puan.Sem Puan.EncodeFacts Puan.NegateFacts Puan.Errors Puan.ErrorsSpec Puan.Validated Puan.Link Puan.Cons Puan.SafeFacts Puan.ColsFacts.
Open Scope string_scope.

(* no valid configuration is lost: a satisfying leaf assignment extends to a point of the
   asserted polyhedron inside the column bounds that agrees with it on every leaf *)
Theorem C02_complete :
  forall (env : ident -> Z) (m : prop),
    single_def m -> leaves_apart m -> plain_inb env m -> is_var m = false -> eval env m = 1 ->
    exists x, inb x m /\
      (forall q, In q (nodes m) -> is_var q = true -> x (id_of q) = env (id_of q)) /\
      Forall (sat x) (encode true m).
Proof. exact encode_complete. Qed.
Print Assumptions C02_complete.

(* completeness stated from validation itself (see C01_validated for the hypotheses) *)
Theorem C02_complete_validated :
  forall (env : ident -> Z) (m : prop),
    errors2 m = [] -> no_bounds_hash_collision m -> no_value_hash_collision m ->
    leaves_apart m -> gen_coherent m -> plain_inb env m -> is_var m = false -> eval env m = 1 ->
    exists x, inb x m /\
      (forall q, In q (nodes m) -> is_var q = true -> x (id_of q) = env (id_of q)) /\
      Forall (sat x) (encode true m).
Proof. intros env m He Hb Hv Hla Hgc. exact (validated_complete m (conj He (conj Hb Hv)) Hla Hgc env). Qed.
Print Assumptions C02_complete_validated.

(* solver-safe form: every in-bounds integer point x of the asserted polyhedron (auxiliary
   columns free in {0,1}) makes the model true on its leaf part (eval only reads leaf ids of x) *)
Theorem C02_sound :
  forall (x : ident -> Z) (p : prop),
    inb x p -> solver_safe p = true -> is_var p = false ->
    Forall (sat x) (encode true p) -> eval x p = 1.
Proof. exact encode_sound. Qed.
Print Assumptions C02_sound.

(* the same at the level of what to_ge_polyhedron hands out — the dense matrix and the column list
   (ids with bounds): any integer vector within the column bounds that satisfies every row makes
   the model true at the leaf values it assigns.  `cols_cover` (every occurrence below the root is
   a column with its own bounds) and distinct column ids hold for validated models (one definition
   per id); the root is not a column of the asserted polyhedron. *)
Theorem C02_sound_dense :
  forall (p : prop) (cols : list (ident * (Z * Z))) (x : list Z),
    is_var p = false -> plain_shape p -> solver_safe p = true ->
    NoDup (map fst cols) -> cols_cover p cols -> ~ In (id_of p) (map fst cols) ->
    Forall2 (fun b v => fst b <= v <= snd b) (map snd cols) x ->
    Forall (sat_dense x) (map (dense (map fst cols)) (encode true p)) ->
    eval (col_lookup (map fst cols) x) p = 1.
Proof. exact dense_sound. Qed.
Print Assumptions C02_sound_dense.

(* ... and stated from validation itself: for a validated model (no by-id leaf references to
   sub-propositions, generated flags coherent, every compound has a child) the column list that
   to_ge_polyhedron(active=True) hands out has pairwise distinct ids, does not contain the root and
   covers every occurrence below the root with its declared bounds *)
Theorem C02_columns_validated :
  forall m : prop,
    errors2 m = [] -> no_bounds_hash_collision m -> no_value_hash_collision m ->
    leaves_apart m -> gen_coherent m -> no_childless m ->
    NoDup (map fst (columns true m)) /\ cols_cover m (columns true m) /\ ~ In (id_of m) (map fst (columns true m)).
Proof. intros m He Hb Hv. exact (validated_columns m (conj He (conj Hb Hv))). Qed.
Print Assumptions C02_columns_validated.

(* the column ids of the polyhedron are pairwise distinct for EVERY model, validated or not, asserted or not: the columns
   come out of a dictionary keyed by id (Plog.dict_by_id, the model of dict(zip(ids, flatten))) *)
Theorem C02_columns_distinct :
  forall (active : bool) (m : prop), NoDup (map fst (columns active m)).
Proof. exact columns_distinct. Qed.
Print Assumptions C02_columns_distinct.

(* so soundness holds of the polyhedron exactly as handed out, with no hypothesis about columns left:
   any integer vector x within the column bounds that satisfies every row of the matrix makes a
   validated solver-safe model true at the leaf values x assigns *)
Theorem C02_sound_validated :
  forall (m : prop) (x : list Z),
    errors2 m = [] -> no_bounds_hash_collision m -> no_value_hash_collision m ->
    leaves_apart m -> gen_coherent m -> no_childless m ->
    is_var m = false -> plain_shape m -> solver_safe m = true ->
    Forall2 (fun b v => fst b <= v <= snd b) (map snd (fst (to_ge_polyhedron true m))) x ->
    Forall (sat_dense x) (snd (to_ge_polyhedron true m)) ->
    eval (col_lookup (map fst (fst (to_ge_polyhedron true m))) x) m = 1.
Proof. intros m x He Hb Hv. exact (validated_dense_sound m x (conj He (conj Hb Hv))). Qed.
Print Assumptions C02_sound_validated.

(* non-vacuity: S = Any(B = All(a,b), c) meets every hypothesis, with the vector [B;a;b;c] = [1;1;1;0] *)
Example C02_sound_validated_nonvacuous :
  (errors2 cols_s = [] /\ no_bounds_hash_collision cols_s /\ no_value_hash_collision cols_s) /\
  leaves_apart cols_s /\ gen_coherent cols_s /\ no_childless cols_s /\
  is_var cols_s = false /\ plain_shape cols_s /\ solver_safe cols_s = true /\
  to_ge_polyhedron true cols_s = ([("B",(0,1)); ("a",(0,1)); ("b",(0,1)); ("c",(0,1))], [[1; 1; 0; 0; 1]; [0; -2; 1; 1; 0]]) /\
  Forall2 (fun b v => fst b <= v <= snd b) (map snd (fst (to_ge_polyhedron true cols_s))) [1; 1; 1; 0] /\
  Forall (sat_dense [1; 1; 1; 0]) (snd (to_ge_polyhedron true cols_s)).
Proof. exact cols_example. Qed.
Print Assumptions C02_sound_validated_nonvacuous.

(* negation re-establishes solver-safe form (so C02_sound applies to Not(...) models) *)
Theorem C02_negate_safe :
  forall (genid : genid_t) (p : prop),
    ok_signs p = true -> solver_safe p = true -> is_var p = false -> solver_safe (negate genid p) = true.
Proof. exact negate_solver_safe. Qed.
Print Assumptions C02_negate_safe.

(* ... also where the negated node is itself NOT solver safe: a negatively signed node over
   sub-propositions (AtMost(k, compounds)) — only its children have to be in solver-safe form *)
Theorem C02_negate_reestablishes :
  forall (genid : genid_t) (p : prop),
    ok_signs p = true -> is_var p = false ->
    (sign_of p = 1 -> solver_safe p = true) -> forallb solver_safe (children p) = true ->
    solver_safe (negate genid p) = true.
Proof. exact negate_reestablishes. Qed.
Print Assumptions C02_negate_reestablishes.

(* the constructors keep solver-safe form: a constructor expression that uses the positively
   signed connectives (All, Any, AtLeast with sign +1 — the default for value > 0 —, the
   configurator's top-level conjunction) and the connectives built from negate() (Not, Imply,
   XNor) over arguments of the same kind, and the negatively signed connectives (AtMost, Xor,
   AtLeast with sign -1) over atoms only, builds a model in solver-safe form whose signs are
   all +1 / -1 — whatever ids the id generator hands out *)
Theorem C02_constructors_keep_safe_form :
  forall (genid : genid_t) (f : form),
    keeps_safe f = true ->
    solver_safe (build genid f) = true /\ ok_signs (build genid f) = true.
Proof. exact build_keeps_safe. Qed.
Print Assumptions C02_constructors_keep_safe_form.

(* non-vacuity: XNor(Any(a,b), All(c,d), e) under All(., f) is such an expression, and the model
   built from it contains sub-propositions under the two negate()-built parts *)
Definition c02_gid : genid_t := fun k v s => String.concat "," k.
Definition c02_f : form :=
  FAll None [FXNor None [FAny None [FLeaf "a" 0 1; FLeaf "b" 0 1]; FAll None [FLeaf "c" 0 1; FLeaf "d" 0 1]; FLeaf "e" 0 1]; FLeaf "f" 0 1].
Example C02_constructors_nonvacuous :
  keeps_safe c02_f = true /\ solver_safe (build c02_gid c02_f) = true /\
  (2 <= List.length (filter (fun q => negb (is_var q) && negb (forallb is_var (children q))) (nodes (build c02_gid c02_f))))%nat.
Proof. vm_compute. repeat split; lia. Qed.
Print Assumptions C02_constructors_nonvacuous.

(* the solver-safe guard is needed: an unsafe model whose polyhedron has a point that is not a
   model.  U = AtMost(0, [B = Any(a,b)]) i.e. -(B) >= 0: x = {a=1, b=0, B=0} satisfies every row. *)
Definition c02_u : prop := Node (mk KAtMost) "U" false 0 1 (-1) 0 [Node (mk KAny) "B" false 0 1 1 1 [Var "a" 0 1; Var "b" 0 1]].
Definition c02_x : ident -> Z := fun i => if String.eqb i "a" then 1 else 0.
Example C02_unsafe_needs_guard :
  inb c02_x c02_u /\ solver_safe c02_u = false /\ Forall (sat c02_x) (encode true c02_u) /\ eval c02_x c02_u = 0.
Proof. cbn. repeat split; try lia; repeat (first [apply Forall_nil | apply Forall_cons]); unfold sat, lhs; cbn; lia. Qed.
Print Assumptions C02_unsafe_needs_guard.

(* Non-vacuity of C02_sound: S = Any(B = All(a,b), c) is solver safe; x = {a=b=B=1, c=0}. *)
Definition c02_s : prop := Node (mk KAny) "S" false 0 1 1 1 [Node (mk KAll) "B" false 0 1 1 2 [Var "a" 0 1; Var "b" 0 1]; Var "c" 0 1].
Definition c02_y : ident -> Z := fun i => if String.eqb i "c" then 0 else 1.
(* ... and of C02_sound_dense: the model's own column list and matrix for S, the vector [B;a;b;c] = [1;1;1;0] *)
Example C02_dense_nonvacuous :
  let cols := columns true c02_s in
  map fst cols = ["B"; "a"; "b"; "c"] /\ NoDup (map fst cols) /\ ~ In (id_of c02_s) (map fst cols) /\
  plain_shape c02_s /\
  Forall2 (fun b v => fst b <= v <= snd b) (map snd cols) [1; 1; 1; 0] /\
  Forall (sat_dense [1; 1; 1; 0]) (map (dense (map fst cols)) (encode true c02_s)) /\
  snd (to_ge_polyhedron true c02_s) = [[1; 1; 0; 0; 1]; [0; -2; 1; 1; 0]].
Proof.
  intros cols. assert (Hc : cols = [("B",(0,1)); ("a",(0,1)); ("b",(0,1)); ("c",(0,1))]) by (vm_compute; reflexivity).
  rewrite Hc. cbn [map fst snd].
  split; [reflexivity|]. split.
  { repeat constructor; cbn; intuition discriminate. }
  split. { cbn. intuition discriminate. }
  split. { cbn. intuition. }
  split. { repeat constructor; cbn; lia. }
  split. { vm_compute. repeat constructor; discriminate. }
  vm_compute. reflexivity.
Qed.
Print Assumptions C02_dense_nonvacuous.

Example C02_nonvacuous :
  inb c02_y c02_s /\ solver_safe c02_s = true /\ Forall (sat c02_y) (encode true c02_s) /\ eval c02_y c02_s = 1.
Proof. cbn. repeat split; try lia; repeat (first [apply Forall_nil | apply Forall_cons]); unfold sat, lhs; cbn; lia. Qed.
Print Assumptions C02_nonvacuous.
