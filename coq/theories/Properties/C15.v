(* C15 — Solver bridge: objectives, solutions and ids stay aligned (AtLeast.solve custom-solver
   branch, ge_polyhedron_config.select / _vectors_from_prios, StingyConfigurator.select).
   Only statements, `exact`, non-vacuity examples and Print Assumptions live here.
   `cols` describes polyhedron.A.variables (id, bounds, is it a compound, is its id generated, is
   it a leaf item); a dictionary is its items() list; the priority compression is a function
   argument [compress] (its own properties are C13/C14); the built-in solver is not modelled. *)
Require Import Puan.Base Puan.Bridge Puan.BridgeFacts.
Require Import Puan.Plog Puan.Sem Puan.Link Puan.Link15 Puan.Errors Puan.ErrorsSpec Puan.Validated Puan.ColsFacts.
Open Scope string_scope.

(* ---- what the solver receives.  The solver is consulted exactly once, on the polyhedron it
   was given and the aligned vectors: the outcome depends on the solver through that call only. *)
Theorem C15_solver_call :
  forall (s1 s2 : solver_t) (P : vnd) (cols : list column) (objs : list dict) (incl : bool),
    s1 P (map (solve_objective cols) objs) = s2 P (map (solve_objective cols) objs) ->
    solve s1 P cols objs incl = solve s2 P cols objs incl.
Proof. exact solve_calls_solver. Qed.
Print Assumptions C15_solver_call.

Theorem C15_solver_call_select :
  forall (compress : list (list (list Z)) -> list (list Z)) (s1 s2 : solver_t) (P : vnd) (cols : list column)
         (dpv : list Z) (prios : list dict),
    s1 P (compress (select_stack cols dpv prios)) = s2 P (compress (select_stack cols dpv prios)) ->
    select compress s1 P cols dpv prios = select compress s2 P cols dpv prios /\
    stingy_select_leafs compress s1 P cols dpv prios = stingy_select_leafs compress s2 P cols dpv prios.
Proof. exact select_calls_solver. Qed.
Print Assumptions C15_solver_call_select.

(* solve(): entry j of an objective vector is the weight given for column j's id, 0 when the id
   is not named; one entry per column *)
Theorem C15_objective :
  forall (cols : list column) (o : dict) (j : nat) (c : column),
    NoDup (keys o) -> nth_error cols j = Some c ->
    (forall w, In (c_id c, w) o -> nth_error (solve_objective cols o) j = Some w) /\
    (~ In (c_id c) (keys o) -> nth_error (solve_objective cols o) j = Some 0).
Proof. exact solve_objective_entry. Qed.
Print Assumptions C15_objective.

Theorem C15_objective_length :
  forall cols o, List.length (solve_objective cols o) = List.length cols.
Proof. exact solve_objective_length. Qed.
Print Assumptions C15_objective_length.

(* ids that are not columns are ignored *)
Theorem C15_objective_ignores_unknown :
  forall (cols : list column) (o o' : dict),
    NoDup (keys o) -> NoDup (keys o') ->
    (forall k w, In k (map c_id cols) -> (In (k, w) o <-> In (k, w) o')) ->
    solve_objective cols o = solve_objective cols o'.
Proof. exact solve_objective_ignores_unknown. Qed.
Print Assumptions C15_objective_ignores_unknown.

(* select(): what is compressed is, per priority dictionary, the default priority vector and the
   row aligned by column id (0 when absent) *)
Theorem C15_select_objective :
  forall (cols : list column) (dpv : list Z) (prios : list dict) (k : nat) (y : dict),
    NoDup (keys y) -> nth_error prios k = Some y ->
    exists r, nth_error (select_stack cols dpv prios) k = Some [dpv; r] /\ List.length r = List.length cols /\
      forall j c, nth_error cols j = Some c ->
        (forall w, In (c_id c, w) y -> nth_error r j = Some w) /\ (~ In (c_id c) (keys y) -> nth_error r j = Some 0).
Proof. exact select_stack_spec. Qed.
Print Assumptions C15_select_objective.

(* ---- how answers are reported.  One result per answer, value and status passed through *)
Theorem C15_results :
  forall (solver : solver_t) (P : vnd) (cols : list column) (objs : list dict) (incl : bool) (answers : list answer),
    solver P (map (solve_objective cols) objs) = Ok answers ->
    exists rs, solve solver P cols objs incl = Ok rs /\ List.length rs = List.length answers /\
      forall k a, nth_error answers k = Some a ->
        nth_error rs k = Some (decode_solve cols incl (a_sol a), a_obj a, a_status a).
Proof. exact solve_results. Qed.
Print Assumptions C15_results.

Theorem C15_results_select :
  forall (compress : list (list (list Z)) -> list (list Z)) (solver : solver_t) (P : vnd) (cols : list column)
         (dpv : list Z) (prios : list dict) (answers : list answer),
    solver P (select_objectives compress cols dpv prios) = Ok answers ->
    exists rs, select compress solver P cols dpv prios = Ok rs /\ List.length rs = List.length answers /\
      (forall k a, nth_error answers k = Some a -> nth_error rs k = Some (decode_select cols (a_sol a), a_obj a, a_status a)) /\
      exists ds, stingy_select_leafs compress solver P cols dpv prios = Ok ds /\
        forall k a, nth_error answers k = Some a ->
          nth_error ds k = Some (only_leafs_filter (leaf_ids cols) (decode_select cols (a_sol a))).
Proof. exact select_results. Qed.
Print Assumptions C15_results_select.

(* solve(): the dictionary maps every column's id to the vector's entry at that column, omitting
   auto-generated helper variables (generated compound columns) unless include_virtual_variables;
   it has no other keys *)
Theorem C15_decode :
  forall (cols : list column) (incl : bool) (s : list Z),
    NoDup (map c_id cols) ->
    (forall j c x, nth_error cols j = Some c -> nth_error s j = Some x ->
       ((c_compound c = false \/ c_gen c = false \/ incl = true) ->
          dlookup (c_id c) (decode_solve cols incl (Some s)) = Some x) /\
       (~ (c_compound c = false \/ c_gen c = false \/ incl = true) ->
          dlookup (c_id c) (decode_solve cols incl (Some s)) = None)) /\
    (forall i x, In (i, x) (decode_solve cols incl (Some s)) ->
       exists j c, nth_error cols j = Some c /\ c_id c = i /\ nth_error s j = Some x /\
                   (c_compound c = false \/ c_gen c = false \/ incl = true)) /\
    NoDup (keys (decode_solve cols incl (Some s))).
Proof. exact decode_solve_spec. Qed.
Print Assumptions C15_decode.

(* select(): every column is reported *)
Theorem C15_decode_select :
  forall (cols : list column) (s : list Z),
    NoDup (map c_id cols) ->
    (forall j c x, nth_error cols j = Some c -> nth_error s j = Some x ->
       dlookup (c_id c) (decode_select cols (Some s)) = Some x) /\
    (forall i x, In (i, x) (decode_select cols (Some s)) ->
       exists j c, nth_error cols j = Some c /\ c_id c = i /\ nth_error s j = Some x) /\
    NoDup (keys (decode_select cols (Some s))).
Proof. exact decode_select_spec. Qed.
Print Assumptions C15_decode_select.

(* only_leafs keeps exactly the leaf items *)
Theorem C15_only_leafs :
  forall (cols : list column) (s : list Z),
    NoDup (map c_id cols) ->
    (forall j c x, nth_error cols j = Some c -> nth_error s j = Some x ->
       dlookup (c_id c) (only_leafs_filter (leaf_ids cols) (decode_select cols (Some s))) = if c_leaf c then Some x else None) /\
    (forall i x, In (i, x) (only_leafs_filter (leaf_ids cols) (decode_select cols (Some s))) ->
       exists j c, nth_error cols j = Some c /\ c_id c = i /\ nth_error s j = Some x /\ c_leaf c = true).
Proof. exact only_leafs_spec. Qed.
Print Assumptions C15_only_leafs.

(* a None solution becomes an empty result *)
Theorem C15_none :
  forall (cols : list column) (incl : bool),
    decode_solve cols incl None = [] /\ decode_select cols None = [] /\
    only_leafs_filter (leaf_ids cols) (decode_select cols None) = [].
Proof. exact decode_none. Qed.
Print Assumptions C15_none.

(* a solver exception surfaces as InfeasibleError from select() (solve() lets it through) *)
Theorem C15_exception :
  forall (compress : list (list (list Z)) -> list (list Z)) (solver : solver_t) (P : vnd) (cols : list column)
         (dpv : list Z) (prios objs : list dict) (incl : bool) (e : exn),
    (solver P (select_objectives compress cols dpv prios) = Raised e ->
       select compress solver P cols dpv prios = Raised ExInfeasible /\
       stingy_select_leafs compress solver P cols dpv prios = Raised ExInfeasible) /\
    (solver P (map (solve_objective cols) objs) = Raised e -> solve solver P cols objs incl = Raised e).
Proof. exact solver_raises. Qed.
Print Assumptions C15_exception.

(* ---- with an exact solver.  [is_argmax solver]: whenever the solver answers, each answer is an
   integer point of the polyhedron (in-bounds entry per column, every row a.x >= b holds) that
   maximises its objective vector, or None when there is no such point.  [model_true] stands for
   "the model is satisfied by this assignment of ids"; it may only look at leaf columns, and
   [sound] is what C02 provides for solver-safe models.  Then every reported solution is the
   visible part of an integer point that is optimal for the REQUESTED weights (score = sum over
   columns of weight-of-id times entry) and satisfies the model; an empty result means the
   polyhedron has no integer point. *)
Theorem C15_exact :
  forall (solver : solver_t), is_argmax solver ->
  forall (P : vnd) (cols : list column), NoDup (map c_id cols) ->
  forall (model_true : (vid -> option Z) -> Prop),
    (forall e e', (forall c, In c cols -> c_compound c = false -> e (c_id c) = e' (c_id c)) -> model_true e -> model_true e') ->
    (forall x, feasible P x -> model_true (col_value cols x)) ->
  forall (objs : list dict) (incl : bool) (rs : list (dict * option Z * Z)),
    solve solver P cols objs incl = Ok rs ->
    Forall2 (fun o r =>
      (exists x, feasible P x /\ (forall y, feasible P y -> score cols o y <= score cols o x) /\
                 fst (fst r) = decode_solve cols incl (Some x) /\
                 (forall c, In c cols -> (c_compound c = false \/ c_gen c = false \/ incl = true) ->
                            dlookup (c_id c) (fst (fst r)) = col_value cols x (c_id c)) /\
                 model_true (fun i => dlookup i (fst (fst r))))
      \/ (fst (fst r) = [] /\ forall y, ~ feasible P y)) objs rs.
Proof. exact solve_exact. Qed.
Print Assumptions C15_exact.

(* select(): optimal for the vectors the solver was given (the compressed priorities) *)
Theorem C15_exact_select :
  forall (solver : solver_t), is_argmax solver ->
  forall (P : vnd) (cols : list column), NoDup (map c_id cols) ->
  forall (model_true : (vid -> option Z) -> Prop),
    (forall e e', (forall c, In c cols -> c_compound c = false -> e (c_id c) = e' (c_id c)) -> model_true e -> model_true e') ->
    (forall x, feasible P x -> model_true (col_value cols x)) ->
  forall (compress : list (list (list Z)) -> list (list Z)) (dpv : list Z) (prios : list dict) (rs : list (dict * option Z * Z)),
    select compress solver P cols dpv prios = Ok rs ->
    Forall2 (fun o r =>
      (exists x, feasible P x /\ (forall y, feasible P y -> bdot o y <= bdot o x) /\
                 fst (fst r) = decode_select cols (Some x) /\
                 (forall c, In c cols -> dlookup (c_id c) (fst (fst r)) = col_value cols x (c_id c)) /\
                 model_true (fun i => dlookup i (fst (fst r))))
      \/ (fst (fst r) = [] /\ forall y, ~ feasible P y)) (select_objectives compress cols dpv prios) rs.
Proof. exact select_exact. Qed.
Print Assumptions C15_exact_select.

Theorem C15_exact_select_leafs :
  forall (solver : solver_t), is_argmax solver ->
  forall (P : vnd) (cols : list column), NoDup (map c_id cols) ->
  forall (model_true : (vid -> option Z) -> Prop),
    (forall e e', (forall c, In c cols -> c_compound c = false -> e (c_id c) = e' (c_id c)) -> model_true e -> model_true e') ->
    (forall x, feasible P x -> model_true (col_value cols x)) ->
  forall (compress : list (list (list Z)) -> list (list Z)),
    (forall c, In c cols -> c_compound c = false -> c_leaf c = true) ->
  forall (dpv : list Z) (prios : list dict) (ds : list dict),
    stingy_select_leafs compress solver P cols dpv prios = Ok ds ->
    Forall2 (fun o d =>
      (exists x, feasible P x /\ (forall y, feasible P y -> bdot o y <= bdot o x) /\
                 d = only_leafs_filter (leaf_ids cols) (decode_select cols (Some x)) /\
                 (forall c, In c cols -> c_leaf c = true -> dlookup (c_id c) d = col_value cols x (c_id c)) /\
                 model_true (fun i => dlookup i d))
      \/ (d = [] /\ forall y, ~ feasible P y)) (select_objectives compress cols dpv prios) ds.
Proof. exact select_leafs_exact. Qed.
Print Assumptions C15_exact_select_leafs.

(* "integer point of the polyhedron" above reads the raw rows [b; a_1 .. a_n]; in terms of the
   A and b of C20 it is  A x >= b  row by row *)
Theorem C15_feasible_rows_Ab :
  forall (p a : vnd) (b x : list Z),
    poly_A p = Some a -> poly_b p = Some b ->
    (Forall (fun row => nth 0 row 0 <= bdot (skipn 1 row) x) (mat p) <->
     Forall2 (fun arow bi => bi <= bdot arow x) (mat a) b).
Proof. exact feasible_rows_Ab. Qed.
Print Assumptions C15_feasible_rows_Ab.

(* the hypothesis is satisfiable: an enumerating solver is exact *)
Theorem C15_exact_solver_exists : is_argmax bf_solver.
Proof. exact bf_solver_exact. Qed.
Print Assumptions C15_exact_solver_exists.

(* Non-vacuity: the asserted polyhedron of  top = All(Any("a","b"), "c")  as puan produces it
   (rows  g + c >= 2,  -g + a + b >= 0;  g is the generated helper of the inner Any), the
   objective {a:-1, b:-1, c:2, zz:9} naming an unknown id, the enumerating solver: all hypotheses
   of C15_exact hold, the helper column is hidden, the reported solution is optimal and satisfies
   the model (a or b, and c). *)
Definition c15_P : vnd :=
  mkVnd [[2; 1; 0; 0; 1]; [0; -1; 1; 1; 0]]
        [mkVar (IdZ 0) 1 1; mkVar (IdS "VARbe8d") 0 1; mkVar (IdS "a") 0 1; mkVar (IdS "b") 0 1; mkVar (IdS "c") 0 1]
        [mkVar (IdZ 0) 0 1; mkVar (IdZ 1) 0 1].
Definition c15_cols : list column :=
  [mkCol (IdS "VARbe8d") 0 1 true true false; mkCol (IdS "a") 0 1 false false true;
   mkCol (IdS "b") 0 1 false false true; mkCol (IdS "c") 0 1 false false true].
Definition c15_obj : dict := [(IdS "a", -1); (IdS "b", -1); (IdS "c", 2); (IdS "zz", 9)].
Definition c15_true (e : vid -> option Z) : Prop :=
  (e (IdS "a") = Some 1 \/ e (IdS "b") = Some 1) /\ e (IdS "c") = Some 1.
Example C15_nonvacuous :
  is_argmax bf_solver /\ NoDup (map c_id c15_cols) /\ NoDup (keys c15_obj) /\
  map col_var c15_cols = skipn 1 (vars c15_P) /\
  (forall e e', (forall c, In c c15_cols -> c_compound c = false -> e (c_id c) = e' (c_id c)) -> c15_true e -> c15_true e') /\
  (forall x, feasible c15_P x -> c15_true (col_value c15_cols x)) /\
  feasible c15_P [1; 0; 1; 1] /\
  map (solve_objective c15_cols) [c15_obj] = [[0; -1; -1; 2]] /\
  solve bf_solver c15_P c15_cols [c15_obj] false = Ok [([(IdS "a", 0); (IdS "b", 1); (IdS "c", 1)], None, 0)] /\
  solve bf_solver c15_P c15_cols [c15_obj] true = Ok [([(IdS "VARbe8d", 1); (IdS "a", 0); (IdS "b", 1); (IdS "c", 1)], None, 0)] /\
  solve (fun _ _ => Ok [mkAns None None 3]) c15_P c15_cols [c15_obj] false = Ok [([], None, 3)] /\
  select (fun s => map (fun p => nth 1 p []) s) (fun _ _ => Raised ExSolver) c15_P c15_cols [-1; -1; -1; -1] [c15_obj] = Raised ExInfeasible.
Proof.
  split; [exact bf_solver_exact|].
  split; [cbn; repeat constructor; cbn [In]; intuition discriminate|].
  split; [cbn; repeat constructor; cbn [In]; intuition discriminate|].
  split; [reflexivity|].
  split.
  { intros e e' H [Hab Hc]. unfold c15_true.
    assert (Ea := H (mkCol (IdS "a") 0 1 false false true)). assert (Eb := H (mkCol (IdS "b") 0 1 false false true)).
    assert (Ec := H (mkCol (IdS "c") 0 1 false false true)). cbn in Ea, Eb, Ec.
    rewrite <- Ea, <- Eb, <- Ec by auto 10. auto. }
  split.
  { intros x [Hb Hr]. cbn in Hb.
    inversion Hb as [|? g ? x1 Hg H1]; subst. inversion H1 as [|? a ? x2 Ha H2]; subst.
    inversion H2 as [|? b ? x3 Hbb H3]; subst. inversion H3 as [|? c ? x4 Hc H4]; subst. inversion H4; subst.
    inversion Hr as [|? ? R1 Hr']; subst. inversion Hr' as [|? ? R2 _]; subst.
    unfold row_sat, bdot in R1, R2. cbn [nth skipn combine map zsum fst snd] in R1, R2. cbn [v_lo v_hi] in Hg, Ha, Hbb, Hc.
    unfold c15_true, col_value. cbn.
    assert (c = 1) by lia. assert (g = 1) by lia. assert (a = 1 \/ b = 1) by lia. subst c.
    intuition congruence. }
  split.
  { split; [cbn [skipn vars c15_P]; repeat constructor; cbn [v_lo v_hi]; lia|]. repeat constructor; unfold row_sat, bdot; cbn [nth skipn combine map zsum fst snd]; lia. }
  repeat split; vm_compute; reflexivity.
Qed.
Print Assumptions C15_nonvacuous.


(* C15_exact with its soundness hypothesis DISCHARGED by C02 (Link.v / Link15.v): for a model m of
   the proposition layer in solver-safe form (no sub-proposition pre-fixed, signs +-1), take the
   columns and dense rows that Plog.to_ge_polyhedron hands out for it (`bpoly`, `bcols`; distinct
   column ids, every occurrence below the root is a column with its own bounds, the root is not a
   column, no by-id leaf references — all true of validated models).  Whatever solve() reports
   from ANY exact solver run on that polyhedron is an optimal point whose reported values make the
   model evaluate to 1 (unreported helper columns are irrelevant: eval reads leaf ids only), or
   the empty dictionary when the polyhedron has no integer point. *)
Theorem C15_exact_puan :
  forall (gens : ident -> bool) (m : prop),
    is_var m = false -> plain_shape m -> solver_safe m = true ->
    NoDup (map fst (columns true m)) -> cols_cover m (columns true m) ->
    ~ In (id_of m) (map fst (columns true m)) -> leaves_apart m ->
  forall (solver : solver_t), is_argmax solver ->
  forall (objs : list dict) (incl : bool) (rs : list (dict * option Z * Z)),
    solve solver (bpoly gens m) (bcols gens m) objs incl = Ok rs ->
    Forall2 (fun o r =>
      (exists x, feasible (bpoly gens m) x /\
                 (forall y, feasible (bpoly gens m) y -> score (bcols gens m) o y <= score (bcols gens m) o x) /\
                 fst (fst r) = decode_solve (bcols gens m) incl (Some x) /\
                 eval (fun i => match dlookup (IdS i) (fst (fst r)) with Some z => z | None => 0 end) m = 1)
      \/ (fst (fst r) = [] /\ forall y, ~ feasible (bpoly gens m) y)) objs rs.
Proof. intros gens m H1 H2 H3 H4 H5 H6 H7 solver Hex. exact (solve_exact_puan gens m H1 H2 H3 H4 H5 H6 H7 solver Hex). Qed.
Print Assumptions C15_exact_puan.

(* the same from validation: the three column hypotheses are what C10 establishes *)
Theorem C15_exact_validated :
  forall (gens : ident -> bool) (m : prop),
    errors2 m = [] -> no_bounds_hash_collision m -> no_value_hash_collision m ->
    leaves_apart m -> gen_coherent m -> no_childless m ->
    is_var m = false -> plain_shape m -> solver_safe m = true ->
  forall (solver : solver_t), is_argmax solver ->
  forall (objs : list dict) (incl : bool) (rs : list (dict * option Z * Z)),
    solve solver (bpoly gens m) (bcols gens m) objs incl = Ok rs ->
    Forall2 (fun o r =>
      (exists x, feasible (bpoly gens m) x /\
                 (forall y, feasible (bpoly gens m) y -> score (bcols gens m) o y <= score (bcols gens m) o x) /\
                 fst (fst r) = decode_solve (bcols gens m) incl (Some x) /\
                 eval (fun i => match dlookup (IdS i) (fst (fst r)) with Some z => z | None => 0 end) m = 1)
      \/ (fst (fst r) = [] /\ forall y, ~ feasible (bpoly gens m) y)) objs rs.
Proof.
  intros gens m He Hb Hv Hla Hgc Hnc H1 H2 H3 solver Hex.
  destruct (validated_columns m (conj He (conj Hb Hv)) Hla Hgc Hnc) as (H4 & H5 & H6).
  exact (solve_exact_puan gens m H1 H2 H3 H4 H5 H6 Hla solver Hex).
Qed.
Print Assumptions C15_exact_validated.

(* Non-vacuity of its hypotheses: S = Any(B = All(a,b), c) with puan's own columns [B; a; b; c] *)
Open Scope string_scope.
Definition c15_s : prop := Node (mk KAny) "S" false 0 1 1 1 [Node (mk KAll) "B" false 0 1 1 2 [Var "a" 0 1; Var "b" 0 1]; Var "c" 0 1].
Example C15_exact_puan_nonvacuous :
  is_var c15_s = false /\ plain_shape c15_s /\ solver_safe c15_s = true /\
  NoDup (map fst (columns true c15_s)) /\ cols_cover c15_s (columns true c15_s) /\
  ~ In (id_of c15_s) (map fst (columns true c15_s)) /\ leaves_apart c15_s /\
  mat (bpoly (fun _ => false) c15_s) = [[1; 1; 0; 0; 1]; [0; -2; 1; 1; 0]] /\
  solve bf_solver (bpoly (fun _ => false) c15_s) (bcols (fun _ => false) c15_s) [[(IdS "a", -1); (IdS "b", -1); (IdS "c", -3)]] false
    = Ok [([(IdS "B", 1); (IdS "a", 1); (IdS "b", 1); (IdS "c", 0)], None, 0)].
Proof.
  assert (Hc : columns true c15_s = [("B",(0,1)); ("a",(0,1)); ("b",(0,1)); ("c",(0,1))]) by (vm_compute; reflexivity).
  rewrite Hc. cbn [map fst].
  split; [reflexivity|]. split; [cbn; intuition|]. split; [reflexivity|].
  split. { repeat constructor; cbn; intuition discriminate. }
  split. { intros c n Hcin Hn. cbn [children c15_s] in Hcin. destruct Hcin as [<-|[<-|[]]]; cbn in Hn; intuition; subst; cbn; auto 10. }
  split. { cbn. intuition discriminate. }
  split. { intros a b Ha Hb Hva Hvb. cbn in Ha, Hb. intuition; subst; cbn in *; try discriminate; intro; discriminate. }
  split; vm_compute; reflexivity.
Qed.
Print Assumptions C15_exact_puan_nonvacuous.
