(* C10 — validation accepts exactly the well-defined models.
   Only statements, `exact`, non-vacuity examples and Print Assumptions live here.

   Reading guide.  `errors2 m` (Errors.v) is the model of `m.errors()` (AtLeast.errors after
   fix D8); it is the first model Plog.errors with two corrections found by the correspondence
   check (class test of AtLeast.__eq__; hash(Bounds) = hash OF the sum), see Errors.v.  Spec side (ErrorsSpec.v, nothing
   there mentions flatten / hashes of objects / the dependency dictionary):
     nodes m          all node and leaf occurrences of the tree (Sem.v)
     id_path m a b    a non-empty path a -> ... -> b in "a compound with id a has a child with id b"
     erase p          the definition an occurrence carries: id, bounds, and for a compound sign,
                      value and its children's definitions (class metadata / generated flag erased)
     bhash lo hi      pyhash (pyhash lo + pyhash hi) = hash(Bounds(lo,hi));  pyhash = CPython's int hash
                      (hash(-1) = -2, also for the -1 a __hash__ method returns)
   The soundness direction is FALSE for the code as it is (known findings D4 and D12, theorems
   C10_sound_refuted and C10_sound_refuted_value): the acyclicity and no-repeated-child conjuncts hold unconditionally, the
   single-definition conjunct under the two guards that exclude exactly D4 and D12. *)
Require Import Puan.Base Puan.Plog Puan.Sem Puan.Errors Puan.ErrorsSpec Puan.ErrorsFacts Puan.Validated Puan.ColsFacts.
Open Scope string_scope.

(* ------------------------------------------------------------------ soundness, conjunct 1 *)
(* accepted => the id dependency graph is acyclic (no guard needed) *)
Theorem C10_sound_acyclic :
  forall m : prop, errors2 m = [] -> forall i : ident, ~ id_path m i i.
Proof. exact sound_acyclic. Qed.
Print Assumptions C10_sound_acyclic.

(* ------------------------------------------------------------------ soundness, conjunct 2 *)
(* accepted => no node lists two children with the same id (no guard needed) *)
Theorem C10_sound_no_dup_child :
  forall m : prop, errors2 m = [] ->
  forall n : prop, In n (nodes m) -> NoDup (map id_of (children n)).
Proof. exact sound_no_dup_child. Qed.
Print Assumptions C10_sound_no_dup_child.

(* ------------------------------------------------------------------ soundness, conjunct 3 *)
(* accepted => every id carries one definition — PARTIAL: under the guards excluding D4
   (same id, different bounds with equal hash(Bounds)) and D12 (same id, values
   -1 / -2, whose hashes coincide).  Bounds need the first guard only. *)
Theorem C10_sound_bounds_partial :
  forall m : prop,
    (forall a b, In a (nodes m) -> In b (nodes m) -> id_of a = id_of b ->
       bhash (lo_of a) (hi_of a) = bhash (lo_of b) (hi_of b) -> lo_of a = lo_of b /\ hi_of a = hi_of b) ->
    errors2 m = [] ->
    forall a b, In a (nodes m) -> In b (nodes m) -> id_of a = id_of b -> lo_of a = lo_of b /\ hi_of a = hi_of b.
Proof. exact (fun m HB He => sound_one_bounds m He HB). Qed.
Print Assumptions C10_sound_bounds_partial.

Theorem C10_sound_single_def_partial :
  forall m : prop,
    (forall a b, In a (nodes m) -> In b (nodes m) -> id_of a = id_of b ->
       bhash (lo_of a) (hi_of a) = bhash (lo_of b) (hi_of b) -> lo_of a = lo_of b /\ hi_of a = hi_of b) ->
    (forall a b, In a (nodes m) -> In b (nodes m) -> is_var a = false -> is_var b = false ->
       id_of a = id_of b -> pyhash (value_of a) = pyhash (value_of b) -> value_of a = value_of b) ->
    errors2 m = [] ->
    forall a b, In a (nodes m) -> In b (nodes m) -> id_of a = id_of b ->
      (lo_of a = lo_of b /\ hi_of a = hi_of b) /\
      (is_var a = false -> is_var b = false -> erase a = erase b).
Proof. exact (fun m HB HV He => sound_one_def m He HB HV). Qed.
Print Assumptions C10_sound_single_def_partial.

(* the three conjuncts together *)
Theorem C10_sound_partial :
  forall m : prop,
    no_bounds_hash_collision m -> no_value_hash_collision m -> errors2 m = [] -> well_defined m.
Proof. exact sound_partial. Qed.
Print Assumptions C10_sound_partial.

(* ------------------------------------------------------------------ the guards are needed *)
(* D4: All(AtLeast(1,[x:(0,3)],variable=B), AtLeast(1,[x:(1,2)],variable=C)) is accepted although
   x has two definitions (and it satisfies the other guard) *)
Definition c10_d4 : prop :=
  Node (mk KAll) "T" true 0 1 1 2
    [Node m0 "B" false 0 1 1 1 [Var "x" 0 3]; Node m0 "C" false 0 1 1 1 [Var "x" 1 2]].
Theorem C10_sound_refuted :
  exists m : prop, errors2 m = [] /\ no_value_hash_collision m /\ ~ well_defined m.
Proof. exact (ex_intro _ c10_d4 d4_witness). Qed.
Print Assumptions C10_sound_refuted.

(* D12: two childless compounds with id A and values -1 / -2 (both tautologies) are accepted
   although A has two definitions (and the model satisfies the D4 guard) *)
Definition c10_d12 : prop :=
  Node (mk KAny) "T" false 0 1 1 1
    [Node (mk KAny) "P" false 0 1 1 1 [Node m0 "A" false 0 1 1 (-1) []; Var "p" 0 1];
     Node (mk KAny) "Q" false 0 1 1 1 [Node m0 "A" false 0 1 1 (-2) []; Var "q" 0 1]].
Theorem C10_sound_refuted_value :
  exists m : prop, errors2 m = [] /\ no_bounds_hash_collision m /\ ~ well_defined m.
Proof. exact (ex_intro _ c10_d12 d12_witness). Qed.
Print Assumptions C10_sound_refuted_value.

(* ------------------------------------------------------------------ converse direction *)
(* every tree-shaped model with pairwise distinct ids is accepted (after fix D8) *)
Theorem C10_tree :
  forall m : prop, NoDup (map id_of (nodes m)) -> errors2 m = [].
Proof. exact tree_accepted. Qed.
Print Assumptions C10_tree.

(* every model that merely shares identical sub-propositions is accepted: occurrences with equal
   ids carry the same definition and class (so leaf ids and compound ids are apart), and no node
   lists two children with the same id *)
Theorem C10_share :
  forall m : prop,
    (forall a b, In a (nodes m) -> In b (nodes m) -> id_of a = id_of b ->
        erase a = erase b /\ m_cls (meta_of a) = m_cls (meta_of b)) ->
    (forall n, In n (nodes m) -> NoDup (map id_of (children n))) ->
    errors2 m = [].
Proof. exact (fun m H1 H2 => share_accepted m (conj H1 H2)). Qed.
Print Assumptions C10_share.

(* ... such models have distinct ids along every root path (acyclic id graph), leaf ids apart
   from compound ids, and they are well-defined: nothing else had to be assumed *)
Theorem C10_share_well_defined :
  forall m : prop, shares_only_identical m -> well_defined m /\ leaves_apart m.
Proof. exact share_well_defined. Qed.
Print Assumptions C10_share_well_defined.

(* STRENGTHENING (the full converse): every well-defined model whose same-id compounds are of one
   class is accepted — this also covers by-id leaf references to sub-propositions *)
Theorem C10_complete :
  forall m : prop,
    well_defined m ->
    (forall a b, In a (nodes m) -> In b (nodes m) -> is_var a = false -> is_var b = false ->
       id_of a = id_of b -> m_cls (meta_of a) = m_cls (meta_of b)) ->
    errors2 m = [].
Proof. exact complete_accepted. Qed.
Print Assumptions C10_complete.

(* so, outside D4 / D12 and for class-coherent models, validation accepts EXACTLY the
   well-defined models *)
Theorem C10_exact_partial :
  forall m : prop,
    no_bounds_hash_collision m -> no_value_hash_collision m -> class_coherent m ->
    (errors2 m = [] <-> well_defined m).
Proof. exact exact_partial. Qed.
Print Assumptions C10_exact_partial.

(* a tree with distinct ids is a special case of sharing *)
Theorem C10_tree_is_share :
  forall m : prop, tree_distinct_ids m -> shares_only_identical m.
Proof. exact tree_is_share. Qed.
Print Assumptions C10_tree_is_share.

(* ------------------------------------------------------------------ non-vacuity *)
(* the D8 regression tree: ids "A-b" -> "c" and "A" -> "b-c" (equal "parent-child" strings) *)
Definition c10_tree : prop :=
  Node (mk KAll) "T" false 0 1 1 2
    [Node (mk KAll) "A" false 0 1 1 1 [Var "b-c" 0 1];
     Node (mk KAll) "A-b" false 0 1 1 1 [Var "c" 0 1]].
Example C10_tree_nonvacuous :
  NoDup (map id_of (nodes c10_tree)) /\ errors2 c10_tree = [].
Proof. exact tree_example. Qed.
Print Assumptions C10_tree_nonvacuous.

(* A = All(x, y:(-1..2)) shared by P and Q, once as an equal copy under a generated-looking flag *)
Definition c10_share : prop :=
  Node (mk KAny) "T" false 0 1 1 1
    [Node (mk KAny) "P" false 0 1 1 1 [Node (mk KAll) "A" false 0 1 1 2 [Var "x" 0 1; Var "y" (-1) 2]; Var "p" 0 1];
     Node m0 "Q" false 0 1 (-1) (-1) [Node (mk KAll) "A" true 0 1 1 2 [Var "x" 0 1; Var "y" (-1) 2]; Var "x" 0 1]].
Example C10_share_nonvacuous :
  shares_only_identical c10_share /\ ~ tree_distinct_ids c10_share /\ errors2 c10_share = [] /\
  no_bounds_hash_collision c10_share /\ no_value_hash_collision c10_share /\ well_defined c10_share.
Proof. exact share_example. Qed.
Print Assumptions C10_share_nonvacuous.

(* by-id leaf reference: the leaf B (same bounds) refers to the sub-proposition B; not a tree, not
   mere sharing, but well-defined and accepted *)
Definition c10_byid : prop :=
  Node (mk KAll) "T" false 0 1 1 2
    [Node (mk KAny) "B" false 0 1 1 1 [Var "x" 0 1; Var "y" 0 3];
     Node m0 "C" false 0 1 (-1) (-1) [Var "B" 0 1; Var "y" 0 3]].
Example C10_complete_nonvacuous :
  well_defined c10_byid /\ class_coherent c10_byid /\ ~ shares_only_identical c10_byid /\ errors2 c10_byid = [].
Proof. exact byid_example. Qed.
Print Assumptions C10_complete_nonvacuous.

(* validation does reject: self reference, two definitions of x, a child listed twice, and
   (class-sensitive __eq__) All(x,y) next to AtLeast(2,[x,y]) under one id *)
Example C10_rejects :
  errors2 (Node (mk KAll) "A" false 0 1 1 1 [Var "A" 0 1]) = [CIRCULAR] /\
  errors2 (Node (mk KAll) "T" false 0 1 1 2
             [Node m0 "B" false 0 1 1 1 [Var "x" 0 1]; Node m0 "C" false 0 1 1 1 [Var "x" 0 2]]) = [AMBIVALENT] /\
  errors2 (Node (mk KAll) "T" false 0 1 1 1 [Var "x" 0 1; Var "x" 0 1]) = [NON_UNIQUE] /\
  errors2 (Node (mk KAny) "T" false 0 1 1 1
             [Node (mk KAny) "P" false 0 1 1 1 [Node (mk KAll) "A" false 0 1 1 2 [Var "x" 0 1; Var "y" 0 1]; Var "p" 0 1];
              Node (mk KAny) "Q" false 0 1 1 1 [Node m0 "A" false 0 1 1 2 [Var "x" 0 1; Var "y" 0 1]; Var "q" 0 1]]) = [NON_UNIQUE].
Proof. exact rejects_example. Qed.
Print Assumptions C10_rejects.

(* D4 has a second face: hash(Bounds) maps the sum -1 to -2, so z:(-3,2) and z:(-4,2) collide *)
Example C10_d4_minus_one :
  bhash (-3) 2 = bhash (-4) 2 /\
  errors2 (Node (mk KAll) "N" false 0 1 1 2
             [Node (mk KAny) "M" false 0 1 1 1 [Var "u" 2 2; Var "z" (-3) 2]; Var "z" (-4) 2]) = [].
Proof. exact d4_minus_one_example. Qed.
Print Assumptions C10_d4_minus_one.

(* the validation model used here (Errors.errors2, compared with AtLeast.errors() on every run) and
   the one written next to the polyhedron / evaluation model (Plog.errors, over Plog.flatten) are the
   same function: what validation establishes is established about the very flatten() list whose
   entries become the polyhedron's columns *)
Theorem C10_one_validation_model :
  forall m : prop, errors2 m = errors m /\ flatten2 m = flatten m.
Proof. intros m. split; [exact (errors2_eq m)|exact (flatten2_eq m)]. Qed.
Print Assumptions C10_one_validation_model.

(* for validated models whose compounds all have a child, flatten() lists every id once *)
Theorem C10_flatten_distinct_ids :
  forall m : prop,
    errors2 m = [] -> no_bounds_hash_collision m -> no_value_hash_collision m ->
    leaves_apart m -> gen_coherent m -> no_childless m ->
    NoDup (map id_of (flatten m)).
Proof. intros m He Hb Hv. exact (validated_flatten_ids m (conj He (conj Hb Hv))). Qed.
Print Assumptions C10_flatten_distinct_ids.
