(* C05 — Negation is the exact complement and stays in solver-safe form.
   Only statements, `exact`, non-vacuity examples and Print Assumptions live here. *)
Require Import Puan.Base Puan.Plog Puan.Sem Puan.NegateFacts Puan.Cons Puan.SafeFacts.
Open Scope string_scope.

(* For EVERY id generator, every tree (any nesting, any value/sign, mixed atom/compound
   children, integer leaves) and every assignment within the leaf bounds, the negated model
   evaluates to 1 exactly when the original evaluates to 0. *)
Theorem C05_complement :
  forall (genid : genid_t) (env : ident -> Z) (p : prop),
    ok env p -> is_var p = false -> eval env (negate genid p) = 1 - eval env p.
Proof. exact negate_complement. Qed.
Print Assumptions C05_complement.

(* Negating a solver-safe model yields a solver-safe model (no boolean-leaf restriction is
   needed for the model of the repaired code). *)
Theorem C05_safe :
  forall (genid : genid_t) (p : prop),
    ok_signs p = true -> solver_safe p = true -> is_var p = false -> solver_safe (negate genid p) = true.
Proof. exact negate_solver_safe. Qed.
Print Assumptions C05_safe.

(* an explicitly given id is kept *)
Theorem C05_id : forall (genid : genid_t) (p : prop), gen_of p = false -> id_of (negate genid p) = id_of p.
Proof. exact negate_keeps_id. Qed.
Print Assumptions C05_id.

(* Non-vacuity: All("x", Any("a","b")) — the witness of defect D1 — meets the hypotheses, takes
   the mixed inward-push branch, and its negation is 0 at x=a=1 (it was 1 before the fix). *)
Definition c05_g : genid_t := fun ids v s => "G".
Definition c05_m : prop :=
  Node (mk KAll) "A" false 0 1 1 2 [Node (mk KAny) "B" false 0 1 1 1 [Var "a" 0 1; Var "b" 0 1]; Var "x" 0 1].
Definition c05_env : ident -> Z := fun i => if String.eqb i "b" then 0 else 1.
Example C05_nonvacuous :
  ok c05_env c05_m /\ is_var c05_m = false /\ ok_signs c05_m = true /\ solver_safe c05_m = true /\
  eval c05_env c05_m = 1 /\ eval c05_env (negate c05_g c05_m) = 0 /\
  List.length (children (negate c05_g c05_m)) = 2%nat.
Proof. cbn. repeat split; lia. Qed.
Print Assumptions C05_nonvacuous.

(* Not(...), the constructor route (Cons.c_not is the model of Not.__new__, compared with the code on every run):
   on a sub-proposition it is the complement of that sub-proposition; on an atom — str or puan.variable, whatever
   its integer bounds — it is the complement of All(atom), i.e. true exactly when the atom's value is <= 0 *)
Theorem C05_not_compound :
  forall (genid : genid_t) (env : ident -> Z) (p : prop),
    ok env p -> is_var p = false -> eval env (c_not genid p) = 1 - eval env p.
Proof. exact not_compound. Qed.
Print Assumptions C05_not_compound.

Theorem C05_not_atom :
  forall (genid : genid_t) (env : ident -> Z) (i : ident) (lo hi : Z),
    (lo <= env i <= hi)%Z ->
    eval env (c_not genid (Var i lo hi)) = (if (env i <=? 0)%Z then 1 else 0) /\
    eval env (c_not genid (Var i lo hi)) = 1 - eval env (c_all genid None [Var i lo hi]).
Proof.
  intros genid env i lo hi H. split; [exact (not_atom genid env i lo hi H)|].
  exact (not_complement genid env (Var i lo hi) H).
Qed.
Print Assumptions C05_not_atom.

(* non-vacuity: x in (-2,3): Not(x) is 1 at x = -1 and x = 0, and 0 at x = 1 *)
Example C05_not_atom_nonvacuous :
  let n := c_not c05_g (Var "x" (-2) 3) in
  eval (fun _ => -1) n = 1 /\ eval (fun _ => 0) n = 1 /\ eval (fun _ => 1) n = 0 /\ eval (fun _ => 3) n = 0.
Proof. vm_compute. repeat split; reflexivity. Qed.
Print Assumptions C05_not_atom_nonvacuous.
