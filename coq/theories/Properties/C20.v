(* C20 — Id/position bridges are faithful (puan.ndarray: construct, from_list / to_list,
   boolean / integer variable indices, ge_polyhedron.A / b / to_linalg).
   Only statements, `exact`, non-vacuity examples and Print Assumptions live here.
   Ids are `vid` (str | int); a dictionary is its items() list; a cell `None` is NaN. *)
Require Import Puan.Base Puan.Bridge Puan.BridgeFacts.
From Coq Require Import Sorted.
Open Scope string_scope.

(* ---- construct: every given value sits at the column of the variable with that id ... *)
Theorem C20_construct_value :
  forall (vs : list var) (d : dict) (dv : option (var -> Z)) (dt : dtype) (j : nat) (v : var) (x : Z),
    NoDup (keys d) -> nth_error vs j = Some v -> In (v_id v, x) d ->
    nth_error (construct vs d dv dt) j = Some (Some x).
Proof. exact construct_value. Qed.
Print Assumptions C20_construct_value.

(* ... the vector has one entry per variable ... *)
Theorem C20_construct_length :
  forall vs d dv dt, List.length (construct vs d dv dt) = List.length vs.
Proof. exact construct_length. Qed.
Print Assumptions C20_construct_length.

(* ... unknown ids are ignored: dictionaries agreeing on the variables' ids give the same vector *)
Theorem C20_construct_ignores_unknown :
  forall (vs : list var) (d d' : dict) (dv : option (var -> Z)) (dt : dtype),
    NoDup (keys d) -> NoDup (keys d') ->
    (forall k x, In k (map v_id vs) -> (In (k, x) d <-> In (k, x) d')) ->
    construct vs d dv dt = construct vs d' dv dt.
Proof. exact construct_ignores_unknown. Qed.
Print Assumptions C20_construct_ignores_unknown.

(* ... and a column whose id is not in the dictionary gets the declared default:
   the callable's result, *)
Theorem C20_construct_default_callable :
  forall (vs : list var) (d : dict) (f : var -> Z) (dt : dtype) (j : nat) (v : var),
    nth_error vs j = Some v -> ~ In (v_id v) (keys d) ->
    nth_error (construct vs d (Some f) dt) j = Some (Some (f v)).
Proof. exact construct_default_callable. Qed.
Print Assumptions C20_construct_default_callable.

(* the variable's lower bound for integer dtypes, *)
Theorem C20_construct_default_int :
  forall (vs : list var) (d : dict) (j : nat) (v : var),
    nth_error vs j = Some v -> ~ In (v_id v) (keys d) ->
    nth_error (construct vs d None DInt) j = Some (Some (v_lo v)).
Proof. exact construct_default_int. Qed.
Print Assumptions C20_construct_default_int.

(* NaN for float dtypes (and an integer dtype never produces NaN). *)
Theorem C20_construct_default_float :
  forall (vs : list var) (d : dict) (j : nat) (v : var),
    nth_error vs j = Some v -> ~ In (v_id v) (keys d) ->
    nth_error (construct vs d None DFloat) j = Some None.
Proof. exact construct_default_float. Qed.
Print Assumptions C20_construct_default_float.

Theorem C20_construct_int_no_nan :
  forall vs d dv, Forall (fun c => c <> None) (construct vs d dv DInt).
Proof. exact construct_int_no_nan. Qed.
Print Assumptions C20_construct_int_no_nan.

(* ---- from_list: exactly the listed ids are marked (boolean arrays) ... *)
Theorem C20_bool_from_list :
  forall (l ctx : list vid) (j : nat) (x : vid),
    l <> [] -> nth_error ctx j = Some x ->
    (In x l -> nth_error (bool_from_list l ctx) j = Some 1) /\
    (~ In x l -> nth_error (bool_from_list l ctx) j = Some 0).
Proof. exact bool_from_list_spec. Qed.
Print Assumptions C20_bool_from_list.

(* ... with their 1-based (first) position for integer arrays; one entry per context element;
   an empty list gives the empty array (the implementation does not produce zeros there) *)
Theorem C20_int_from_list :
  forall (l ctx : list vid) (j : nat) (x : vid),
    l <> [] -> nth_error ctx j = Some x ->
    (forall p, nth_error l p = Some x -> (forall p', (p' < p)%nat -> nth_error l p' <> Some x) ->
               nth_error (int_from_list l ctx) j = Some (Z.of_nat p + 1)) /\
    (~ In x l -> nth_error (int_from_list l ctx) j = Some 0).
Proof. exact int_from_list_spec. Qed.
Print Assumptions C20_int_from_list.

Theorem C20_from_list_shape :
  forall (l ctx : list vid),
    (l <> [] -> List.length (bool_from_list l ctx) = List.length ctx /\ List.length (int_from_list l ctx) = List.length ctx) /\
    bool_from_list [] ctx = [] /\ int_from_list [] ctx = [].
Proof.
  exact (fun l ctx => conj (fun H => conj (bool_from_list_length l ctx H) (int_from_list_length l ctx H))
                           (conj (bool_from_list_empty ctx) (int_from_list_empty ctx))).
Qed.
Print Assumptions C20_from_list_shape.

(* list of lists: row i is the conversion of the i-th inner list *)
Theorem C20_from_lists_rows :
  forall (ll : list (list vid)) (ctx : list vid) (i : nat) (l : list vid),
    nth_error ll i = Some l ->
    nth_error (bool_from_lists ll ctx) i = Some (bool_from_list l ctx) /\
    nth_error (int_from_lists ll ctx) i = Some (int_from_list l ctx).
Proof. exact (fun ll ctx i l H => conj (bool_from_lists_row ll ctx i l H) (int_from_lists_row ll ctx i l H)). Qed.
Print Assumptions C20_from_lists_rows.

(* ---- to_list returns exactly the variables at the 1-entries, in column order *)
Theorem C20_to_list :
  forall (vs : list var) (row : list Z),
    List.length vs = List.length row ->
    exists js, StronglySorted lt js /\ (forall j, In j js <-> nth_error row j = Some 1) /\
               map Some (to_list1 vs row) = map (nth_error vs) js.
Proof. exact (@to_list1_spec var). Qed.
Print Assumptions C20_to_list.

Theorem C20_to_list_rows :
  forall (vs : list var) (rows : list (list Z)) (i : nat) (row : list Z),
    nth_error rows i = Some row -> nth_error (to_list2 vs rows) i = Some (to_list1 vs row).
Proof. exact (@to_list2_row var). Qed.
Print Assumptions C20_to_list_rows.

(* reading a from_list row back against its own context gives the listed context entries *)
Theorem C20_to_list_from_list :
  forall (l ctx : list vid), l <> [] ->
    to_list1 ctx (bool_from_list l ctx) = filter (fun x => mem_vid x l) ctx.
Proof. exact to_list_from_list. Qed.
Print Assumptions C20_to_list_from_list.

(* ---- boolean and integer variable index sets: membership by bounds (0,1), ascending ... *)
Theorem C20_indices :
  forall (vs : list var),
  exists bi ii,
    boolean_variable_indices vs = Some bi /\ integer_variable_indices vs = Some ii /\
    (forall j, In j bi <-> 0 <= j /\ exists v, nth_error vs (Z.to_nat j) = Some v /\ (v_lo v, v_hi v) = (0, 1)) /\
    (forall j, In j ii <-> 0 <= j /\ exists v, nth_error vs (Z.to_nat j) = Some v /\ ~ (v_lo v, v_hi v) = (0, 1)) /\
    StronglySorted Z.lt bi /\ StronglySorted Z.lt ii.
Proof. exact variable_indices_spec. Qed.
Print Assumptions C20_indices.

(* ... and they partition the columns *)
Theorem C20_indices_partition :
  forall (vs : list var) (bi ii : list Z),
    boolean_variable_indices vs = Some bi -> integer_variable_indices vs = Some ii ->
    (forall j, 0 <= j < Z.of_nat (List.length vs) -> (In j bi /\ ~ In j ii) \/ (In j ii /\ ~ In j bi)) /\
    (forall j, In j bi \/ In j ii -> 0 <= j < Z.of_nat (List.length vs)).
Proof. exact variable_indices_partition. Qed.
Print Assumptions C20_indices_partition.

(* ---- A is the matrix without the first column, with matching variables and index ... *)
Theorem C20_A :
  forall (p : vnd),
    (List.length (idx p) = List.length (mat p) /\ Forall (fun r => List.length r = List.length (vars p)) (mat p)) ->
    vars p <> [] ->
    exists a, poly_A p = Some a /\
      (List.length (idx a) = List.length (mat a) /\ Forall (fun r => List.length r = List.length (vars a)) (mat a)) /\
      List.length (mat a) = List.length (mat p) /\
      S (List.length (vars a)) = List.length (vars p) /\
      (forall i j, nth j (nth i (mat a) []) 0 = nth (S j) (nth i (mat p) []) 0) /\
      (forall j, nth_error (vars a) j = nth_error (vars p) (S j)) /\
      idx a = idx p.
Proof. exact poly_A_spec. Qed.
Print Assumptions C20_A.

(* ... b is the first column, to_linalg is the pair *)
Theorem C20_b :
  forall (p : vnd), vars p <> [] ->
    exists b, poly_b p = Some b /\ List.length b = List.length (mat p) /\
              forall i, nth i b 0 = nth 0 (nth i (mat p) []) 0.
Proof. exact poly_b_spec. Qed.
Print Assumptions C20_b.

Theorem C20_to_linalg :
  forall (p a : vnd) (b : list Z), to_linalg p = Some (a, b) <-> poly_A p = Some a /\ poly_b p = Some b.
Proof. exact to_linalg_spec. Qed.
Print Assumptions C20_to_linalg.

(* the constructor keeps given variables / index and fills in the default lists otherwise *)
Theorem C20_constructor :
  forall (nr nc : nat) (m : list (list Z)) (vs ix : list var) (p : vnd),
    vnd_new nr nc m vs ix = Some p ->
    mat p = m /\ List.length (vars p) = nc /\ List.length (idx p) = nr /\
    (vs <> [] -> vars p = vs) /\ (vs = [] -> vars p = default_variable_list nc) /\
    (ix <> [] -> idx p = ix) /\ (ix = [] -> idx p = default_index nr).
Proof. exact vnd_new_spec. Qed.
Print Assumptions C20_constructor.

(* Non-vacuity: a variable list with str, unicode and int ids and non-boolean bounds, a
   dictionary with a known id, an unknown id and a str look-alike "7" of the int id 7; every
   hypothesis above is met and every default kind occurs. *)
Definition c20_vs : list var :=
  [mkVar (IdZ 0) 1 1; mkVar (IdS "a") 0 1; mkVar (IdS "b") (-3) 5; mkVar (IdZ 7) 0 1; mkVar (IdS "y") 2 2].
Definition c20_d : dict := [(IdS "a", 5); (IdS "7", 3); (IdS "zz", 9)].
Definition c20_p : vnd := mkVnd [[1; 2; 3; 4; 5]; [6; 7; 8; 9; 10]] c20_vs [mkVar (IdS "r0") 0 1; mkVar (IdS "r1") 0 1].
Example C20_nonvacuous :
  NoDup (keys c20_d) /\ nth_error c20_vs 1 = Some (mkVar (IdS "a") 0 1) /\ In (IdS "a", 5) c20_d /\
  ~ In (IdZ 7) (keys c20_d) /\
  construct c20_vs c20_d None DInt = [Some 1; Some 5; Some (-3); Some 0; Some 2] /\
  construct c20_vs c20_d None DFloat = [None; Some 5; None; None; None] /\
  construct c20_vs c20_d (Some (fun v => 10 + v_hi v)) DInt = [Some 11; Some 5; Some 15; Some 11; Some 12] /\
  int_from_list [IdS "c"; IdS "a"; IdS "c"] [IdS "a"; IdS "b"; IdS "c"; IdS "d"] = [2; 0; 1; 0] /\
  bool_from_list [IdS "c"; IdS "a"] [IdS "a"; IdS "b"; IdS "c"; IdZ 1] = [1; 0; 1; 0] /\
  to_list1 c20_vs [1; 0; 1; 2; 1] = [mkVar (IdZ 0) 1 1; mkVar (IdS "b") (-3) 5; mkVar (IdS "y") 2 2] /\
  boolean_variable_indices c20_vs = Some [1; 3] /\ integer_variable_indices c20_vs = Some [0; 2; 4] /\
  (List.length (idx c20_p) = List.length (mat c20_p) /\ Forall (fun r => List.length r = List.length (vars c20_p)) (mat c20_p)) /\
  vars c20_p <> [] /\
  option_map mat (poly_A c20_p) = Some [[2; 3; 4; 5]; [7; 8; 9; 10]] /\ poly_b c20_p = Some [1; 6].
Proof.
  repeat split; try reflexivity; try (repeat constructor; fail); try discriminate.
  - unfold keys, c20_d. cbn [map fst]. repeat constructor; cbn [In]; intuition discriminate.
  - cbn. intuition discriminate.
Qed.
Print Assumptions C20_nonvacuous.
