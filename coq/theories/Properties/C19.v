(* C19 — Point classification agrees with A x >= b in every input shape.
   Only statements, `exact`, a non-vacuity example and Print Assumptions live here.

   A polyhedron is `mat P`, rows  b_i :: a_i1 .. a_in  (meaning a_i . x >= b_i); `dot` is the
   inner product.  The model functions mirror the numpy code (matmul against the transposed
   points, comparison with the broadcast b column, any/all over an axis); the theorems say that
   this is, per point / per row, exactly the quantified statement over rows / points.
   Forall2 also states the shape: the output has one entry per point (rank 2), per group and
   point (rank 3), resp. one entry per row (ineq_separate_points). *)
Require Import Puan.Base Puan.Poly Puan.PolyFacts.

(* ---- points.ndim = 2 : a matrix of points ---- *)
Theorem C19_satisfied_2 :
  forall (P : poly) (pts : list (list Z)),
    Forall2 (fun x o => o = true <-> Forall (fun r => hd 0 r <= dot (tl r) x) (mat P))
            pts (ineqs_satisfied2 P pts).
Proof. exact ineqs_satisfied2_spec. Qed.
Print Assumptions C19_satisfied_2.

Theorem C19_separable_2 :
  forall (P : poly) (pts : list (list Z)),
    Forall2 (fun x o => o = true <-> Exists (fun r => dot (tl r) x < hd 0 r) (mat P))
            pts (separable2 P pts)
    /\ separable2 P pts = map negb (ineqs_satisfied2 P pts).
Proof. exact (fun P pts => conj (separable2_spec P pts) (separable2_negb P pts)). Qed.
Print Assumptions C19_separable_2.

Theorem C19_separate_points_2 :
  forall (P : poly) (pts : list (list Z)),
    Forall2 (fun r o => o = true <-> Exists (fun x => dot (tl r) x < hd 0 r) pts)
            (mat P) (ineq_separate_points2 P pts).
Proof. exact ineq_separate_points2_spec. Qed.
Print Assumptions C19_separate_points_2.

(* ---- points.ndim = 1 : one point ---- *)
Theorem C19_satisfied_1 :
  forall (P : poly) (x : list Z),
    ineqs_satisfied1 P x = true <-> Forall (fun r => hd 0 r <= dot (tl r) x) (mat P).
Proof. exact ineqs_satisfied1_spec. Qed.
Print Assumptions C19_satisfied_1.

Theorem C19_separable_1 :
  forall (P : poly) (x : list Z),
    (separable1 P x = true <-> Exists (fun r => dot (tl r) x < hd 0 r) (mat P))
    /\ separable1 P x = negb (ineqs_satisfied1 P x).
Proof. exact (fun P x => conj (separable1_spec P x) (separable1_negb P x)). Qed.
Print Assumptions C19_separable_1.

Theorem C19_separate_points_1 :
  forall (P : poly) (x : list Z),
    Forall2 (fun r o => o = true <-> dot (tl r) x < hd 0 r) (mat P) (ineq_separate_points1 P x).
Proof. exact ineq_separate_points1_spec. Qed.
Print Assumptions C19_separate_points_1.

(* ---- points.ndim = 3 : a stack of point matrices (groups) ---- *)
Theorem C19_satisfied_3 :
  forall (P : poly) (g : list (list (list Z))),
    Forall2 (Forall2 (fun x o => o = true <-> Forall (fun r => hd 0 r <= dot (tl r) x) (mat P)))
            g (ineqs_satisfied3 P g).
Proof. exact ineqs_satisfied3_spec. Qed.
Print Assumptions C19_satisfied_3.

Theorem C19_separable_3 :
  forall (P : poly) (g : list (list (list Z))),
    Forall2 (Forall2 (fun x o => o = true <-> Exists (fun r => dot (tl r) x < hd 0 r) (mat P)))
            g (separable3 P g)
    /\ separable3 P g = map (map negb) (ineqs_satisfied3 P g).
Proof. exact (fun P g => conj (separable3_spec P g) (separable3_negb P g)). Qed.
Print Assumptions C19_separable_3.

Theorem C19_separate_points_3 :
  forall (P : poly) (g : list (list (list Z))),
    Forall2 (fun pts out => Forall2 (fun r o => o = true <-> Exists (fun x => dot (tl r) x < hd 0 r) pts) (mat P) out)
            g (ineq_separate_points3 P g).
Proof. exact ineq_separate_points3_spec. Qed.
Print Assumptions C19_separate_points_3.

(* Non-vacuity: x + y >= 1, x - 2y >= -1 with points (1,0) ok, (0,0) violates row 0, (0,1) violates
   row 1: both truth values occur in every output, and the rank-3 output keeps the nesting. *)
Definition c19_P : poly := mkPoly [[1; 1; 1]; [-1; 1; -2]] [("0"%string, (1, 1)); ("x"%string, (0, 1)); ("y"%string, (0, 1))] ["r0"%string; "r1"%string].
Example C19_nonvacuous :
  ineqs_satisfied2 c19_P [[1; 0]; [0; 0]; [0; 1]] = [true; false; false] /\
  separable2 c19_P [[1; 0]; [0; 0]; [0; 1]] = [false; true; true] /\
  ineq_separate_points2 c19_P [[1; 0]; [0; 0]] = [true; false] /\
  ineqs_satisfied1 c19_P [1; 0] = true /\ separable1 c19_P [0; 1] = true /\
  ineq_separate_points1 c19_P [0; 1] = [false; true] /\
  ineqs_satisfied3 c19_P [[[1; 0]; [0; 0]]; [[0; 1]]] = [[true; false]; [false]] /\
  ineq_separate_points3 c19_P [[[1; 0]; [0; 0]]; [[0; 1]]] = [[true; false]; [false; true]].
Proof. vm_compute. repeat split. Qed.
Print Assumptions C19_nonvacuous.
