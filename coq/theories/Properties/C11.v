(* C11 — Polyhedron reduction preserves the integer solution set.
   Only statements, `exact`, a non-vacuity example and Print Assumptions live here.

   Specification vocabulary (PolyFacts.v; none of it mentions how the code computes):
     mat P            rows  b_i :: a_i1 .. a_in ,  meaning  a_i . x >= b_i        (row_holds r x)
     bounds_of P      declared (lower, upper) per column of A
     in_box bs x      := Forall2 (fun bd v => fst bd <= v <= snd bd) bs x
     sol P x          := in_box (bounds_of P) x /\ Forall (fun r => hd 0 r <= dot (tl r) x) (mat P)
     agrees cs x      := Forall2 (fun c v => forall k, c = Some k -> v = k) cs x
                         (x has the reported value wherever the column vector cs reports one; None = nan)
     cs_in_bounds cs bs  every reported value lies within the declared bounds of its column
     keep cs x        the coordinates of x at the columns that are NOT fixed by cs  (the projection)
     fill cs y        y with the fixed values re-inserted                            (its inverse)
     wf P             rectangular matrix matching variables / index (numpy guarantees it)
     default_range bs every bound pair satisfies -32768 <= lo <= hi <= 32767
   Some _ / LoopOk _ _ = "the call returned"; None / LoopRaise = the exception numpy raises on a
   matrix without rows or columns; LoopFuel = the model's fuel ran out (C11_fuel: never). *)
Require Import Puan.Base Puan.Poly Puan.PolyFacts.

(* rows reported by reducable_rows hold at every in-bounds point *)
Theorem C11_rows :
  forall (P : poly) (rs : list bool),
    reducable_rows P = Some rs ->
    Forall2 (fun r flag => flag = true -> forall x, in_box (bounds_of P) x -> hd 0 r <= dot (tl r) x)
            (mat P) rs.
Proof. exact reducable_rows_sound. Qed.
Print Assumptions C11_rows.

(* ... and (stronger than the property asks) only those rows *)
Theorem C11_rows_exact :
  forall (P : poly) (rs : list bool),
    Forall (fun bd => fst bd <= snd bd) (bounds_of P) ->
    reducable_rows P = Some rs ->
    Forall2 (fun r flag => flag = true <-> forall x, in_box (bounds_of P) x -> hd 0 r <= dot (tl r) x)
            (mat P) rs.
Proof. exact reducable_rows_exact. Qed.
Print Assumptions C11_rows_exact.

(* a column reported with a value by reducable_columns_approx has it in every in-bounds solution *)
Theorem C11_cols :
  forall (P : poly) (cs : list (option Z)) (x : list Z),
    wf P -> default_range (bounds_of P) ->
    reducable_columns_approx P = Some cs ->
    sol P x ->
    Forall2 (fun c v => forall k, c = Some k -> v = k) cs x.
Proof. exact rca_forced. Qed.
Print Assumptions C11_cols.

(* the fixpoint loop: the columns it reports are forced (and within bounds), the rows it reports
   hold at every in-bounds point that has the forced values *)
Theorem C11_loop :
  forall (P : poly) (rs : list bool) (cs : list (option Z)),
    wf P -> default_range (bounds_of P) ->
    reducable_rows_and_columns P = LoopOk rs cs ->
    (List.length cs = ncols P /\ cs_in_bounds cs (bounds_of P) /\
     forall x, sol P x -> Forall2 (fun c v => forall k, c = Some k -> v = k) cs x) /\
    (List.length rs = nrows P /\
     forall x, in_box (bounds_of P) x -> agrees cs x ->
               Forall2 (fun r f => f = true -> hd 0 r <= dot (tl r) x) (mat P) rs).
Proof. exact rrc_loop_summary. Qed.
Print Assumptions C11_loop.

(* reduce applied to the answer of reducable_rows_and_columns has exactly the projection of the solution set: every
   solution of the reduced system extends (by the fixed values) to a solution of the original,
   every solution of the original projects to a solution of the reduced one and is recovered from
   its projection; hence empty stays empty *)
Theorem C11_reduce :
  forall (P : poly) (rs : list bool) (cs : list (option Z)),
    wf P -> default_range (bounds_of P) ->
    reducable_rows_and_columns P = LoopOk rs cs ->
    (forall y, sol (reduce P (Some rs) (Some cs)) y -> sol P (fill cs y)) /\
    (forall x, sol P x -> sol (reduce P (Some rs) (Some cs)) (keep cs x) /\ fill cs (keep cs x) = x) /\
    ((exists x, sol P x) <-> (exists y, sol (reduce P (Some rs) (Some cs)) y)).
Proof. exact rrc_reduce_full. Qed.
Print Assumptions C11_reduce.

(* the same for ANY row / column vectors that are sound in the sense of C11_loop's conclusion
   (so also for vectors a caller assembles from reducable_rows / reducable_columns_approx) *)
Theorem C11_reduce_general :
  forall (P : poly) (rs : list bool) (cs : list (option Z)),
    wf P -> List.length cs = ncols P -> cs_in_bounds cs (bounds_of P) ->
    (forall x, sol P x -> agrees cs x) ->
    (forall x, in_box (bounds_of P) x -> agrees cs x ->
               Forall2 (fun r f => f = true -> hd 0 r <= dot (tl r) x) (mat P) rs) ->
    (forall y, sol (reduce P (Some rs) (Some cs)) y -> sol P (fill cs y)) /\
    (forall x, sol P x -> sol (reduce P (Some rs) (Some cs)) (keep cs x) /\ fill cs (keep cs x) = x).
Proof. exact reduce_projection. Qed.
Print Assumptions C11_reduce_general.

(* one pass: reduce(reducable_rows(), reducable_columns_approx()) *)
Theorem C11_reduce_step :
  forall (P : poly),
    wf P -> default_range (bounds_of P) -> mat P <> [] ->
    (forall y, sol (reduce P (Some (rr_core P)) (Some (rca_core P))) y -> sol P (fill (rca_core P) y)) /\
    (forall x, sol P x -> sol (reduce P (Some (rr_core P)) (Some (rca_core P))) (keep (rca_core P) x)
                          /\ fill (rca_core P) (keep (rca_core P) x) = x).
Proof. exact reduce_step_projection. Qed.
Print Assumptions C11_reduce_step.

(* reduce with only a row vector (same solution set) or only a column vector (projection) *)
Theorem C11_reduce_rows_only :
  forall (P : poly) (rs : list bool),
    (forall x, in_box (bounds_of P) x -> Forall2 (fun r f => f = true -> hd 0 r <= dot (tl r) x) (mat P) rs) ->
    forall x, sol (reduce P (Some rs) None) x <-> sol P x.
Proof. exact reduce_rows_only. Qed.
Print Assumptions C11_reduce_rows_only.

Theorem C11_reduce_columns_only :
  forall (P : poly) (cs : list (option Z)),
    wf P -> List.length cs = ncols P -> cs_in_bounds cs (bounds_of P) -> (forall x, sol P x -> agrees cs x) ->
    (forall y, sol (reduce P None (Some cs)) y -> sol P (fill cs y)) /\
    (forall x, sol P x -> sol (reduce P None (Some cs)) (keep cs x) /\ fill cs (keep cs x) = x).
Proof. exact reduce_columns_only. Qed.
Print Assumptions C11_reduce_columns_only.

(* row index and column variables of the result describe its rows and columns: the result is
   well-formed, its index is the index of the kept rows, its variables are the support variable
   followed by the kept columns' variables (so its bounds are the kept columns' bounds), and its
   rows are the kept rows with the fixed columns substituted into b *)
Theorem C11_bookkeeping :
  forall (P : poly) (rs : list bool) (cs : list (option Z)),
    wf P ->
    let R := reduce P (Some rs) (Some cs) in
    wf R /\
    index R = select (map negb rs) (index P) /\
    mat R = map (row_sub cs) (select (map negb rs) (mat P)) /\
    vars R = firstn 1 (vars P) ++ keep cs (tl (vars P)) /\
    bounds_of R = keep cs (bounds_of P).
Proof. exact reduce_bookkeeping. Qed.
Print Assumptions C11_bookkeeping.

(* the fuel (rows + columns + 1) is never exhausted; on a matrix with at least one row and one
   column the loop returns *)
Theorem C11_fuel :
  forall (P : poly),
    wf P ->
    reducable_rows_and_columns P <> LoopFuel /\
    (degenerate P = false -> exists rs cs, reducable_rows_and_columns P = LoopOk rs cs).
Proof. exact rrc_fuel_total. Qed.
Print Assumptions C11_fuel.

(* Non-vacuity: x >= 1, x + y >= 1, y + z >= 1, -2y - 3z >= -4 with x,y boolean and z in [-1,2].
   The first pass fixes x = 1 (no row is reducible on its own); after substituting, rows 0 and 1 become
   reducible — the loop reports rows [1;1;0;0] and columns [1;nan;nan]; the reduced polyhedron keeps
   rows r2, r3 and variables y, z.  (1,1,0) is a solution, its projection (1,0) solves the reduced
   system, and the in-bounds point (0,0,0) violates the reported row 0: the "agrees" guard in C11_loop
   is necessary. *)
Open Scope string_scope.
Definition c11_P : poly :=
  mkPoly [[1; 1; 0; 0]; [1; 1; 1; 0]; [1; 0; 1; 1]; [-4; 0; -2; -3]]
         [("0", (1, 1)); ("x", (0, 1)); ("y", (0, 1)); ("z", (-1, 2))] ["r0"; "r1"; "r2"; "r3"].
Example C11_nonvacuous :
  wf c11_P /\ default_range (bounds_of c11_P) /\
  reducable_rows c11_P = Some [false; false; false; false] /\
  reducable_columns_approx c11_P = Some [Some 1; None; None] /\
  reducable_rows_and_columns c11_P = LoopOk [true; true; false; false] [Some 1; None; None] /\
  reduce c11_P (Some [true; true; false; false]) (Some [Some 1; None; None])
    = mkPoly [[1; 1; 1]; [-4; -2; -3]] [("0", (1, 1)); ("y", (0, 1)); ("z", (-1, 2))] ["r2"; "r3"] /\
  sol c11_P [1; 1; 0] /\ keep [Some 1; None; None] [1; 1; 0] = [1; 0] /\
  in_box (bounds_of c11_P) [0; 0; 0] /\ ~ row_holds [1; 1; 0; 0] [0; 0; 0].
Proof.
  unfold wf, default_range, sol, in_box, rows_hold, row_holds, bounds_of, min_value, max_value.
  repeat split; try (vm_compute; reflexivity); try discriminate; repeat constructor; cbn; lia.
Qed.
Print Assumptions C11_nonvacuous.
