(* C09 — Queries are pure and results are independent of call history.
   Only statements, `exact`, non-vacuity examples and Print Assumptions live here.

   LEVEL: partial.  The full statement is FALSE of the code (finding D2: AtLeast.assume assigns
   self.variable; C09_refuted below).  What is proved for ALL histories / pools / dictionaries:
   the frame (what a call can write, and what it writes), purity under the guard that excludes
   exactly D2, and that even a leaking call returns the pure function of the current state.
   The configurator half is about the code AFTER fix D3 (no cache), with the old cached
   behaviour modelled separately and refuted.

   Model (Heap.v): labelled trees (equal label = same Python object), store σ : label -> bounds
   for the only field the code overwrites (variable.bounds of a compound object), `step`
   threading σ exactly where AtLeast.assume assigns. *)
Require Import Puan.Base Puan.Plog Puan.Heap Puan.HeapFacts.
Open Scope string_scope.

(* Frame.  A call changes the store at label k only if k labels a compound occurrence of the
   operand whose id the call's dictionary names; calls without a dictionary (reduce, negate,
   errors, flatten, dump/to_json/to_b64, equation bounds, to_ge_polyhedron) change nothing.
   The object graph itself (pool) is never changed. *)
Theorem C09_frame :
  forall (genid : genid_t) (s : state) (o : op) (k : nat),
    (forall p d i, nth_error (pool s) (operand o) = Some p -> op_dict o = Some d ->
                   In (k, i) (clabels p) -> alookup i d = None) ->
    sto (fst (step genid s o)) k = sto s k /\ pool (fst (step genid s o)) = pool s.
Proof. exact frame_spelled. Qed.
Print Assumptions C09_frame.

(* ... and what is written at a changed label is exactly the dictionary's entry for the id of
   an occurrence carrying that label. *)
Theorem C09_written :
  forall (genid : genid_t) (s : state) (o : op) (k : nat),
    sto (fst (step genid s o)) k = sto s k \/
    exists p d i, nth_error (pool s) (operand o) = Some p /\ op_dict o = Some d /\
                  In (k, i) (clabels p) /\ alookup i d = Some (sto (fst (step genid s o)) k).
Proof. exact step_written. Qed.
Print Assumptions C09_written.

(* Purity (partial: under the guard that excludes D2).  For EVERY history whose dictionaries name
   no compound id of the object they are applied to — over any pool, with any sharing, any
   initial store — the final state IS the initial state and every output equals the output of
   the same call on the initial state (= on a freshly built identical object). *)
Theorem C09_pure_partial :
  forall (genid : genid_t) (s : state) (h : list op),
    Forall (fun o => forall d p l i, op_dict o = Some d -> nth_error (pool s) (operand o) = Some p ->
                                     In (l, i) (clabels p) -> alookup i d = None) h ->
    fst (run genid s h) = s /\ snd (run genid s h) = map (fun o => snd (step genid s o)) h.
Proof. exact pure_spelled. Qed.
Print Assumptions C09_pure_partial.

(* The guard is sharp in the other direction too: strike from every dictionary the entries that
   name a compound id of the object the call is applied to (strip_op) and ANY history becomes
   pure.  This is what the harness replays to decide whether an observed history dependence is
   explained by finding D2 (it must disappear) or is something new (VIOLATION). *)
Theorem C09_stripped_pure :
  forall (genid : genid_t) (s : state) (h : list op),
    fst (run genid s (map (strip_op (pool s)) h)) = s /\
    snd (run genid s (map (strip_op (pool s)) h)) = map (fun o => snd (step genid s o)) (map (strip_op (pool s)) h).
Proof. exact stripped_history_pure. Qed.
Print Assumptions C09_stripped_pure.

(* Even a leaking call returns the pure function (Plog.assume / evaluate / ... of what the object
   graph looks like when the call starts): the leak only shows in LATER calls.  Needs labels to
   be used consistently (a label always carries the same id), which holds for real objects. *)
Theorem C09_call_output :
  forall (genid : genid_t) (ι : nat -> ident) (s : state) (o : op) (p : lprop),
    nth_error (pool s) (operand o) = Some p -> consistent ι p ->
    snd (step genid s o) =
      match o with
      | OEvaluate _ d => RBounds (evaluate d (resolve (sto s) p))
      | OEvalProps _ d => RDict (evaluate_propositions d (resolve (sto s) p))
      | OAssume _ d => RProp (assume d (resolve (sto s) p))
      | _ => pure_out genid o (resolve (sto s) p)
      end.
Proof. exact step_output. Qed.
Print Assumptions C09_call_output.

(* The FULL statement fails in the faithful model (finding D2):
   m = All("x","y",variable="A"); m.evaluate({"A":1}); m.evaluate({"x":0,"y":0}) -> (1,1),
   a fresh m gives (0,0); and the object's own bounds are left at (1,1).
   The harness replays this history on the implementation on every run. *)
Theorem C09_refuted :
  exists (genid : genid_t) (s0 : state) (h : list op),
    snd (run genid s0 h) <> map (fun o => snd (step genid s0 o)) h /\
    sto (fst (run genid s0 h)) 0%nat <> sto s0 0%nat.
Proof. exact refuted_spelled. Qed.
Print Assumptions C09_refuted.

(* Configurator half, code after fix D3: whatever was queried before, the n-th answer is the
   polyhedron of the queried configurator's own definition. *)
Theorem C09_cache :
  forall (cfgs : list prop) (h : list cop) (n k : nat) (c : prop),
    nth_error h n = Some (CPoly k) -> nth_error cfgs k = Some c ->
    nth_error (crun cfgs h) n = Some (CRPoly (config_polyhedron c)).
Proof. exact crun_own_definition. Qed.
Print Assumptions C09_cache.

(* ... which was false before the fix (lru_cache keyed by __hash__/__eq__ of the instance):
   StingyConfigurator(AtMost(1,["a","b"],variable="B"), id="c") then the same with AtMost(2,..):
   the second query is answered with the FIRST configurator's polyhedron. *)
Theorem C09_cache_refuted_before :
  exists (cfgs : list prop) (h : list cop) (n k : nat) (c : prop),
    nth_error h n = Some (CPoly k) /\ nth_error cfgs k = Some c /\
    nth_error (crun_cached cfgs (mkCache [] []) h) n <> Some (CRPoly (config_polyhedron c)) /\
    nth_error (crun_cached cfgs (mkCache [] []) h) n = nth_error (crun_cached cfgs (mkCache [] []) h) 0.
Proof. exact cache_refuted_before. Qed.
Print Assumptions C09_cache_refuted_before.

(* Non-vacuity: a pool of two objects sharing a sub-proposition OBJECT (label 1), a 9-call
   history of leaf-only dictionaries (evaluate, evaluate_propositions, assume, reduce, negate,
   errors, to_ge_polyhedron, re-query): the guard holds, the outputs are non-trivial (the first
   and last call return (1,1), the re-query of object 1 returns (0,0)) and equal the fresh ones;
   the same pool DOES leak as soon as a dictionary names the shared compound "B" through the
   other object. *)
Example C09_nonvacuous :
  Forall (fun o => forall d p l i, op_dict o = Some d -> nth_error (pool nv_s0) (operand o) = Some p ->
                                   In (l, i) (clabels p) -> alookup i d = None) nv_h /\
  nth_error (snd (run d2_genid nv_s0 nv_h)) 0 = Some (RBounds (Some (1, 1))) /\
  nth_error (snd (run d2_genid nv_s0 nv_h)) 5 = Some (RBounds (Some (0, 0))) /\
  nth_error (snd (run d2_genid nv_s0 nv_h)) 8 = Some (RBounds (Some (1, 1))) /\
  snd (run d2_genid nv_s0 nv_h) = map (fun o => snd (step d2_genid nv_s0 o)) nv_h /\
  snd (run d2_genid nv_s0 [OEvaluate 1 [("B", (0, 0))]; OEvaluate 0 [("a", (1, 1)); ("b", (0, 0)); ("x", (1, 1))]])
    = [RBounds (Some (1, 1)); RBounds (Some (0, 0))].
Proof. split; [exact nv_guard|]. vm_compute. repeat split. Qed.
Print Assumptions C09_nonvacuous.
