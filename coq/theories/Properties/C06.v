(* C06 — Partial evaluation and tautology/contradiction flags are sound.
   Only statements, `exact`, non-vacuity examples and Print Assumptions live here. *)
Require Import Puan.Base Puan.Plog Puan.Sem Puan.AssumeFacts.
Open Scope string_scope.

(* For every partial / interval-valued interpretation d and EVERY completion env of the leaves
   inside the intervals d (or the declaration) allows, each returned entry (id,(lo,hi)) contains
   the value of a sub-proposition with that id under env. A returned constant (lo = hi) is
   therefore the node's value under every completion. *)
Theorem C06_sound :
  forall (d : interp) (env : ident -> Z) (p : prop),
    ok_signs p = true -> refines d env p ->
    forall i lo hi, In (i, (lo, hi)) (evaluate_propositions d p) ->
    exists p', In p' (nodes p) /\ id_of p' = i /\ lo <= eval_d d env p' <= hi.
Proof. exact evalprops_sound. Qed.
Print Assumptions C06_sound.

(* the same for every node of the tree returned by assume() — "variables not mentioned keep
   bounds that still contain every value they can take" (also used by C07) *)
Theorem C06_assume_nodes :
  forall (d : interp) (env : ident -> Z) (p : prop),
    ok_signs p = true -> refines d env p ->
    Forall (fun r => exists p', In p' (nodes p) /\ id_of r = id_of p' /\ lo_of r <= eval_d d env p' <= hi_of r)
           (nodes (assume d p)).
Proof. exact assume_nodes_sound. Qed.
Print Assumptions C06_assume_nodes.

(* A node reported as tautology is true for every valuation of its children within their bounds *)
Theorem C06_tautology :
  forall m i g lo hi s v ch vals, (s = 1 \/ s = -1) ->
    is_tautology (Node m i g lo hi s v ch) = true ->
    Forall2 (fun c x => lo_of c <= x <= hi_of c) ch vals -> v <= s * zsum vals.
Proof. exact taut_sound. Qed.
Print Assumptions C06_tautology.

Theorem C06_contradiction :
  forall m i g lo hi s v ch vals, (s = 1 \/ s = -1) ->
    is_contradiction (Node m i g lo hi s v ch) = true ->
    Forall2 (fun c x => lo_of c <= x <= hi_of c) ch vals -> s * zsum vals < v.
Proof. exact contra_sound. Qed.
Print Assumptions C06_contradiction.

(* the reported equation bounds are the exact attainable range of sign*Σchildren - value *)
Theorem C06_equation_bounds_exact :
  forall m i g lo hi s v ch, (s = 1 \/ s = -1) -> Forall (fun c => lo_of c <= hi_of c) ch ->
    let eb := equation_bounds (Node m i g lo hi s v ch) in
    (forall vals, Forall2 (fun c x => lo_of c <= x <= hi_of c) ch vals -> fst eb <= s * zsum vals - v <= snd eb) /\
    (exists vals, Forall2 (fun c x => lo_of c <= x <= hi_of c) ch vals /\ s * zsum vals - v = fst eb) /\
    (exists vals, Forall2 (fun c x => lo_of c <= x <= hi_of c) ch vals /\ s * zsum vals - v = snd eb).
Proof. exact equation_bounds_exact. Qed.
Print Assumptions C06_equation_bounds_exact.

(* Non-vacuity: A = Any(B = All(x, y), z:(−1,2)) with only x fixed to 0: B becomes the constant 0
   (derived from a non-constant input), A stays open; the completion y=1, z=2 refines d. *)
Definition c06_m : prop :=
  Node (mk KAny) "A" false 0 1 1 1 [Node (mk KAll) "B" false 0 1 1 2 [Var "x" 0 1; Var "y" 0 1]; Var "z" (-1) 2].
Definition c06_d : interp := [("x", (0, 0))].
Definition c06_env : ident -> Z := fun i => if String.eqb i "x" then 0 else if String.eqb i "y" then 1 else 2.
Example C06_nonvacuous :
  ok_signs c06_m = true /\ refines c06_d c06_env c06_m /\
  evaluate_propositions c06_d c06_m = [("A", (0, 1)); ("B", (0, 0)); ("x", (0, 0)); ("y", (0, 1)); ("z", (-1, 2))] /\
  is_tautology (Node m0 "T" false 0 1 1 (-1) [Var "z" (-1) 2]) = true.
Proof. cbn. repeat split; try lia; try (right; lia); try (left; lia). Qed.
Print Assumptions C06_nonvacuous.
