(* C13 — Priority compression yields strictly dominating weights.
   Only statements, `exact`, non-vacuity examples and Print Assumptions live here.

   Reading guide.  `shadow2d M` is the model of
       integer_ndarray(M).ndint_compress(method="shadow", axis=0)
   for a 2-D array M given as its list of rows (every row has n entries: `rect n M`).
   `column M j` is column j; `last_nonzero c i v` says v is the last non-zero entry of c and
   sits at index i; `key_of c` = Some (i, |v|) for that entry, None for an all-zero column;
   keys are ordered lexicographically (`key_lt`: later rows above earlier rows, then larger
   magnitude above smaller).  All numbers are unbounded integers: the theorems hold for
   arrays of any size; the implementation agrees with the model as long as the result fits
   in 64 bits (C13_total tells which single number has to fit). *)
Require Import Puan.Base Puan.Compress Puan.CompressSpec Puan.CompressFacts.

(* what "the priority of a column" means: the specification predicates and the computable
   key agree *)
Theorem C13_key_spec :
  forall c : list Z,
    (forall i v, last_nonzero c i v -> key_of c = Some (i, Z.abs v)) /\
    (all_zeros c -> key_of c = None) /\
    (forall kk, key_of c = Some kk -> exists i v, last_nonzero c i v /\ kk = (i, Z.abs v)).
Proof. exact key_of_spec. Qed.
Print Assumptions C13_key_spec.

(* zeros stay zero, signs are kept *)
Theorem C13_sign_zero :
  forall (n : nat) (M : list (list Z)) (j : nat),
    rect n M -> (j < n)%nat ->
    (all_zeros (column M j) -> nth j (shadow2d M) 0 = 0) /\
    (forall i v, last_nonzero (column M j) i v ->
       (0 < v -> 0 < nth j (shadow2d M) 0) /\ (v < 0 -> nth j (shadow2d M) 0 < 0)).
Proof. exact shadow_sign_zero. Qed.
Print Assumptions C13_sign_zero.

(* equal priorities <-> equal weights (in magnitude) *)
Theorem C13_ties :
  forall (n : nat) (M : list (list Z)) (j k : nat) (kj kk : key),
    rect n M -> (j < n)%nat -> (k < n)%nat ->
    key_of (column M j) = Some kj -> key_of (column M k) = Some kk ->
    (kj = kk <-> Z.abs (nth j (shadow2d M) 0) = Z.abs (nth k (shadow2d M) 0)).
Proof. exact shadow_ties. Qed.
Print Assumptions C13_ties.

(* weights are ordered like priorities: later rows above earlier rows, then by magnitude *)
Theorem C13_order :
  forall (n : nat) (M : list (list Z)) (j k : nat) (kj kk : key),
    rect n M -> (j < n)%nat -> (k < n)%nat ->
    key_of (column M j) = Some kj -> key_of (column M k) = Some kk ->
    ((fst kj < fst kk)%nat \/ (fst kj = fst kk /\ snd kj < snd kk)) ->
    Z.abs (nth j (shadow2d M) 0) < Z.abs (nth k (shadow2d M) 0).
Proof. exact shadow_order. Qed.
Print Assumptions C13_order.

(* DOMINANCE: every weight is strictly larger than the sum of the absolute weights of ALL
   columns of strictly lower priority (lower_sum spelled out) *)
Theorem C13_dominance :
  forall (n : nat) (M : list (list Z)) (k : nat) (kk : key),
    rect n M -> (k < n)%nat -> key_of (column M k) = Some kk ->
    Z.abs (nth k (shadow2d M) 0) >
    zsum (map (fun j => match key_of (column M j) with
                        | Some kj => if key_ltb kj kk then Z.abs (nth j (shadow2d M) 0) else 0
                        | None => 0
                        end) (seq 0 n)).
Proof. exact shadow_dominance. Qed.
Print Assumptions C13_dominance.

(* ... in fact it is exactly one more than that sum (the tightest dominating weights) *)
Theorem C13_exact :
  forall (n : nat) (M : list (list Z)) (k : nat) (kk : key),
    rect n M -> (k < n)%nat -> key_of (column M k) = Some kk ->
    Z.abs (nth k (shadow2d M) 0) = 1 + lower_sum n M (shadow2d M) kk.
Proof. exact shadow_exact. Qed.
Print Assumptions C13_exact.

(* the 64-bit side condition: the largest number formed by the bit allocation — the running
   total of all weights it handed out — is the sum of the absolute values of the result *)
Theorem C13_total :
  forall (n : nat) (M : list (list Z)),
    rect n M ->
    zsum (oba (alt_rows 1 (map sorted_nz (kept_rows M)))) =
    zsum (map (fun j => Z.abs (nth j (shadow2d M) 0)) (seq 0 n)).
Proof. exact shadow_total. Qed.
Print Assumptions C13_total.

(* the other shapes: axis 1 is the transpose, a batched 3-D array is compressed slice by
   slice, axis=None flattens to one row, a 1-D array is one row — for every method that is
   defined through a 2-D kernel; so the theorems above and below cover them *)
Theorem C13_shapes :
  forall f : method,
    match f with Min | Max => True | _ =>
    let k := match f with Shadow => shadow2d | Prio => prio2d | Rank => rank2d | First => first2d | _ => last2d end in
    (forall M, ndint_compress f (Some 0%nat) (M2 M) = Some (V1 (k M))) /\
    (forall M, ndint_compress f (Some 1%nat) (M2 M) = Some (V1 (k (transpose M)))) /\
    (forall t, ndint_compress f (Some 0%nat) (T3 t) = Some (M2 (map k t))) /\
    (forall t, ndint_compress f (Some 1%nat) (T3 t) = Some (M2 (transpose (map k (swap01 t))))) /\
    (forall a, ndint_compress f None a = Some (V1 (k [flat a]))) /\
    (forall l, ndint_compress Shadow (Some 0%nat) (V1 l) = Some (V1 (shadow2d [l])))
    end.
Proof. exact compress_shapes. Qed.
Print Assumptions C13_shapes.

(* 'first' / 'last': the first / last non-zero entry along the axis (0 when there is none) *)
Theorem C13_first_last :
  forall (n : nat) (M : list (list Z)) (j : nat),
    rect n M -> M <> [] -> (j < n)%nat ->
    (forall i v, first_nonzero (column M j) i v -> nth j (first2d M) 0 = v) /\
    (forall i v, last_nonzero (column M j) i v -> nth j (last2d M) 0 = v) /\
    (all_zeros (column M j) -> nth j (first2d M) 0 = 0 /\ nth j (last2d M) 0 = 0).
Proof. exact first_last_spec. Qed.
Print Assumptions C13_first_last.

(* 'min': the smallest non-zero entry, 0 when all entries are zero (entries within int64) *)
Theorem C13_min :
  forall l : list Z,
    Forall (fun x => x <= 9223372036854775807) l ->
    (Forall (fun x => x = 0) l -> min_nz l = 0) /\
    (~ Forall (fun x => x = 0) l ->
       In (min_nz l) l /\ min_nz l <> 0 /\ forall x, In x l -> x <> 0 -> min_nz l <= x).
Proof. exact min_nz_spec. Qed.
Print Assumptions C13_min.

(* 'max': the largest entry *)
Theorem C13_max :
  forall l : list Z, l <> [] -> In (lmax l) l /\ forall x, In x l -> x <= lmax l.
Proof. exact lmax_spec. Qed.
Print Assumptions C13_max.

(* 'prio' (2-D, axis 0): zeros stay zero and signs are kept; the magnitudes are an
   ORDER-PRESERVING, TIE-EXACT, DENSE ranking 1..d of the same key ordering as 'shadow' *)
Theorem C13_prio_sign_zero :
  forall (n : nat) (M : list (list Z)) (j : nat),
    rect n M -> (j < n)%nat ->
    (all_zeros (column M j) -> nth j (prio2d M) 0 = 0) /\
    (forall i v, last_nonzero (column M j) i v ->
       (0 < v -> 0 < nth j (prio2d M) 0) /\ (v < 0 -> nth j (prio2d M) 0 < 0)).
Proof. exact prio_sign_zero. Qed.
Print Assumptions C13_prio_sign_zero.

Theorem C13_prio_order :
  forall (n : nat) (M : list (list Z)) (j k : nat) (kj kk : key),
    rect n M -> (j < n)%nat -> (k < n)%nat ->
    key_of (column M j) = Some kj -> key_of (column M k) = Some kk ->
    ((fst kj < fst kk)%nat \/ (fst kj = fst kk /\ snd kj < snd kk)) ->
    Z.abs (nth j (prio2d M) 0) < Z.abs (nth k (prio2d M) 0).
Proof. exact prio_order. Qed.
Print Assumptions C13_prio_order.

Theorem C13_prio_ties :
  forall (n : nat) (M : list (list Z)) (j k : nat) (kj kk : key),
    rect n M -> (j < n)%nat -> (k < n)%nat ->
    key_of (column M j) = Some kj -> key_of (column M k) = Some kk ->
    (kj = kk <-> Z.abs (nth j (prio2d M) 0) = Z.abs (nth k (prio2d M) 0)).
Proof. exact prio_ties. Qed.
Print Assumptions C13_prio_ties.

Theorem C13_prio_dense :
  forall (n : nat) (M : list (list Z)) (j : nat) (kj : key),
    rect n M -> (j < n)%nat -> key_of (column M j) = Some kj ->
    1 <= Z.abs (nth j (prio2d M) 0) /\
    forall v, 1 <= v <= Z.abs (nth j (prio2d M) 0) -> exists k, (k < n)%nat /\ Z.abs (nth k (prio2d M) 0) = v.
Proof. exact prio_dense. Qed.
Print Assumptions C13_prio_dense.

(* ranking() of a vector (this is also 'rank' and — a quirk of the code — 'prio' on a 1-D
   array with an integer axis): order preserving, tie exact, consecutive from 0 (from 1 when
   every entry is positive).  NB it ranks SIGNED values: a negative entry ranks below zero. *)
Theorem C13_ranking :
  forall (l : list Z) (i j : nat),
    (i < List.length l)%nat -> (j < List.length l)%nat ->
    (nth i l 0 < nth j l 0 <-> nth i (ranking1 l) 0 < nth j (ranking1 l) 0) /\
    (nth i l 0 = nth j l 0 <-> nth i (ranking1 l) 0 = nth j (ranking1 l) 0).
Proof. exact ranking1_order. Qed.
Print Assumptions C13_ranking.

Theorem C13_ranking_dense :
  forall (l : list Z) (i : nat),
    (i < List.length l)%nat ->
    let start := if 0 <? lmin l then 1 else 0 in
    start <= nth i (ranking1 l) 0 /\
    forall v, start <= v <= nth i (ranking1 l) 0 -> exists j, (j < List.length l)%nat /\ nth j (ranking1 l) 0 = v.
Proof. exact ranking1_dense. Qed.
Print Assumptions C13_ranking_dense.

(* 'rank' (2-D, axis 0) = ranking() of the signed 'prio' vector *)
Theorem C13_rank :
  forall (n : nat) (M : list (list Z)) (i j : nat),
    rect n M -> M <> [] -> (i < n)%nat -> (j < n)%nat ->
    (nth i (prio2d M) 0 < nth j (prio2d M) 0 <-> nth i (rank2d M) 0 < nth j (rank2d M) 0) /\
    (nth i (prio2d M) 0 = nth j (prio2d M) 0 <-> nth i (rank2d M) 0 = nth j (rank2d M) 0) /\
    (let start := if 0 <? lmin (prio2d M) then 1 else 0 in
     start <= nth i (rank2d M) 0 /\
     forall v, start <= v <= nth i (rank2d M) 0 -> exists k, (k < n)%nat /\ nth k (rank2d M) 0 = v).
Proof. exact rank2d_spec. Qed.
Print Assumptions C13_rank.

(* Non-vacuity: 4 rows (one of them all zero), ties within and across rows, mixed signs, an
   all-zero column.  Keys: col0 (0,1) col1 (3,2) col2 (3,2) col3 none col4 (2,5) col5 (2,5)
   col6 (0,1) col7 (2,1). *)
Definition c13_M : list (list Z) :=
  [[ 1; -2;  0; 0;  0; 0; -1; 3];
   [ 0;  0;  0; 0;  0; 0;  0; 0];
   [ 0;  7;  0; 0; -5; 5;  0; 1];
   [ 0; -2;  2; 0;  0; 0;  0; 0]].
Example C13_nonvacuous :
  rect 8 c13_M /\
  map (fun j => key_of (column c13_M j)) (seq 0 8) =
    [Some (0%nat, 1); Some (3%nat, 2); Some (3%nat, 2); None; Some (2%nat, 5); Some (2%nat, 5); Some (0%nat, 1); Some (2%nat, 1)] /\
  shadow2d c13_M = [1; -18; 18; 0; -6; 6; -1; 3] /\
  lower_sum 8 c13_M (shadow2d c13_M) (3%nat, 2) = 17 /\
  ndint_compress Shadow (Some 0%nat) (M2 c13_M) = Some (V1 [1; -18; 18; 0; -6; 6; -1; 3]) /\
  ndint_compress Shadow (Some 1%nat) (M2 (transpose c13_M)) = Some (V1 [1; -18; 18; 0; -6; 6; -1; 3]) /\
  first2d c13_M = [1; -2; 2; 0; -5; 5; -1; 3] /\ last2d c13_M = [1; -2; 2; 0; -5; 5; -1; 1] /\
  prio2d c13_M = [1; -4; 4; 0; -3; 3; -1; 2] /\ rank2d c13_M = [4; 0; 7; 3; 1; 6; 2; 5].
Proof. vm_compute. repeat split; repeat constructor. Qed.
Print Assumptions C13_nonvacuous.
