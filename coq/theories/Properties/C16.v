(* placeholder until the proofs land *)
Require Import Puan.Base Puan.Plog Puan.Sem Puan.Cons Puan.Json.
Example C16_placeholder : True. Proof. exact I. Qed.
Print Assumptions C16_placeholder.
