(* C16 — JSON round trip preserves meaning, leaves, explicit ids, signs and defaults.
   Only statements, `exact`, non-vacuity examples, refutation witnesses and Print Assumptions live here.
   Model side: Json.to_json / Json.from_json / Json.stingy_from_json (every class of puan.logic.plog and
   puan.modules.configurator, after fixes D5, D7, D9; fuelled: a `Some` result excludes fuel exhaustion and
   malformed documents), Cons.build (the constructors), for an ARBITRARY id generator genid.
   Spec side: Sem.eval / Sem.ok (arithmetic truth function, leaf values within bounds) and
   JsonFacts.jsem — the arithmetic meaning of a DOCUMENT, which mentions neither to_json nor from_json:
     variable            -> env id           (defined only when the value is within the documented bounds)
     AtLeast             -> [value <= sign * S]   (sign absent: + if value > 0 else -)
     AtMost              -> [S <= value]
     All / Stingy        -> [number of operands <= S]
     Any                 -> [1 <= S]
     Xor / ExactlyOne    -> [S = 1]
     XNor                -> [S <> 1]
     Not                 -> 1 - operand       (a bare variable operand x stands for All(x) = [1 <= x])
     Imply               -> [1 <= (1 - condition) + consequence]   (same convention for a bare variable condition)
   where S is the sum of the meanings of the "propositions"; JsonFacts.jleaves — the (id, bounds) of the
   variables a document mentions; JsonFacts.pleaves — the (id, bounds) of every leaf occurrence of a model.
   Shape predicates (JsonFacts): cls_inv_g cc p — every class tag of p keeps its promise (AtMost has sign -1,
   All has value = number of children and the default sign, Any is [1 <= S], Xor is All over
   [AtLeast 1 X; AtMost 1 X], Imply has two children with its stored condition a compound, cc.Any is
   Any(default, Any(rest)) or a plain Any, cc.Xor with a default is All over [cc.Any X; AtMost 1 X]);
   cc = false (notation cls_inv): plog classes only, cc = true: configurator classes allowed;
   xnor_flat p — the operands of every XNor are leaves (excludes finding D6);
   all_unmerged genid cfg n j / stingy_unmerged — no All(...) rebuilt by from_json has two arguments merged by
   the set() in All.__init__ (true whenever rebuilt sibling ids are distinct; needed because the id generator is
   arbitrary here, so generated ids of rebuilt siblings may collide).
   For configurators the assignment is non-negative (forall i, 0 <= env i): cc.Any's nested form
   Any(default, Any(rest)) equals the flat disjunction the document states only over non-negative operands. *)
Require Import Puan.Base Puan.Plog Puan.Sem Puan.Cons Puan.Json Puan.JsonFacts Puan.JsonLink.
Open Scope list_scope.
Open Scope string_scope.
Open Scope Z_scope.

(* ---- ids: for every class, the document carries an "id" exactly when the id was given explicitly ---- *)
Theorem C16_ids :
  forall (genid : genid_t) (n : nat) (p : prop) (f : list (string * json)),
    to_json genid n p = Some (JObj f) ->
    alookup "id" f = if gen_of p then None else Some (JStr (id_of p)).
Proof. exact to_json_ids. Qed.
Print Assumptions C16_ids.

(* ---- signs (fix D5): an AtLeast node's document carries "sign" exactly when the sign is not the
   default one for its value, and from_json reads sign and value back ---- *)
Theorem C16_sign :
  forall (genid : genid_t) (cfg : bool) (n n' : nat) m i g lo hi s v ch,
    m_cls m = KAtLeast ->
    (forall f, to_json genid n (Node m i g lo hi s v ch) = Some (JObj f) ->
       alookup "sign" f = (if s =? default_sign v then None else Some (JInt s)) /\
       alookup "value" f = Some (JInt v) /\ alookup "type" f = Some (JStr "AtLeast")) /\
    (forall j p', to_json genid n (Node m i g lo hi s v ch) = Some j -> from_json genid cfg n' j = Some p' ->
       sign_of p' = s /\ value_of p' = v).
Proof.
  intros genid cfg n n' m i g lo hi s v ch Ec. split.
  - intros f. exact (to_json_sign genid n m i g lo hi s v ch f Ec).
  - intros j p'. exact (roundtrip_sign genid cfg n n' m i g lo hi s v ch j p' Ec).
Qed.
Print Assumptions C16_sign.

(* ---- the document of a model means what the model evaluates to ---- *)
Theorem C16_to_json_sem :
  forall (genid : genid_t) (cc : bool) (env : ident -> Z),
    (cc = true -> forall i : ident, 0 <= env i) ->
    forall (n : nat) (p : prop) (j : json),
    to_json genid n p = Some j -> cls_inv_g cc p -> xnor_flat p -> ok env p ->
    jsem env n j = Some (eval env p).
Proof. exact to_json_sem. Qed.
Print Assumptions C16_to_json_sem.

(* ---- the model rebuilt from a document evaluates to what the document means (any document, not
   only to_json outputs; cfg = false: class map of plog.from_json, cfg = true: of StingyConfigurator.from_json) ---- *)
Theorem C16_from_json_sem :
  forall (genid : genid_t) (env : ident -> Z) (cfg : bool),
    (cfg = true -> forall i : ident, 0 <= env i) ->
    forall (n m : nat) (j : json) (p' : prop) (v : Z),
    from_json genid cfg n j = Some p' -> jsem env m j = Some v -> all_unmerged genid cfg n j = true ->
    eval env p' = v /\ ok env p'.
Proof.
  intros genid env cfg Hc n m j p' v H1 H2 H3. destruct (from_json_sem genid env cfg Hc n m j p' v H1 H2 H3) as (E & O & _). exact (conj E O).
Qed.
Print Assumptions C16_from_json_sem.

(* ---- semantic round trip, every plog class, any nesting, integer leaves, explicit signs, any id generator.
   The explicit guard all_unmerged is exactly what excludes the evaluation-changing face of finding D15 (two valid
   siblings of an All that get the same generated id after the round trip and are merged by All's set(); witness
   C16_merge_refuted); xnor_flat excludes finding D6 (witness C16_xnor_refuted). ---- *)
Theorem C16_sem :
  forall (genid : genid_t) (env : ident -> Z) (n n' : nat) (p : prop) (j : json) (p' : prop),
    to_json genid n p = Some j -> from_json genid false n' j = Some p' ->
    cls_inv p -> xnor_flat p -> ok env p -> all_unmerged genid false n' j = true ->
    eval env p' = eval env p /\ ok env p'.
Proof. intros genid env n n' p j p'. exact (roundtrip_sem genid env n n' p j p'). Qed.
Print Assumptions C16_sem.

(* ---- ids through the round trip (both class maps; and the configurator's own id): a generated id stays
   generated, an explicit id is kept ---- *)
Theorem C16_id_roundtrip :
  forall (genid : genid_t) (cfg : bool) (n n' : nat) (p : prop) (j : json) (p' : prop),
    to_json genid n p = Some j -> from_json genid cfg n' j = Some p' ->
    gen_of p' = gen_of p /\ (gen_of p = false -> id_of p' = id_of p).
Proof. exact roundtrip_id_g. Qed.
Print Assumptions C16_id_roundtrip.
Theorem C16_cfg_id :
  forall (genid : genid_t) (n n' : nat) m i g lo hi s v ch (j : json) (p' : prop),
    m_cls m = KStingy ->
    to_json genid n (Node m i g lo hi s v ch) = Some j -> stingy_from_json genid n' j = Some p' ->
    gen_of p' = g /\ (g = false -> id_of p' = i).
Proof. exact roundtrip_id_stingy. Qed.
Print Assumptions C16_cfg_id.

(* ---- same leaf variables with the same bounds (pleaves: the (id, bounds) of every leaf occurrence) ---- *)
Theorem C16_leaves :
  forall (genid : genid_t) (cc cfg : bool) (n n' : nat) (p : prop) (j : json) (p' : prop),
    to_json genid n p = Some j -> from_json genid cfg n' j = Some p' -> cls_inv_g cc p -> xnor_flat p ->
    forall x : ident * (Z * Z), In x (pleaves p') <-> In x (pleaves p).
Proof. exact roundtrip_leaves. Qed.
Print Assumptions C16_leaves.

(* ---- the constructors produce models that satisfy the shape hypotheses of C16_sem ---- *)
Theorem C16_shapes :
  forall (genid : genid_t) (cc : bool) (env : ident -> Z) (f : form),
    (jwf genid cc f -> cls_inv_g cc (build genid f)) /\
    (xnor_leaves f -> xnor_flat (build genid f)) /\
    (fok env f -> ok env (build genid f)).
Proof.
  intros genid cc env f. split; [exact (build_cls_inv genid cc f)|]. split; [exact (build_xnor_flat genid f)|exact (build_ok genid env f)].
Qed.
Print Assumptions C16_shapes.

(* ---- hence: semantic round trip of every constructor output ---- *)
Theorem C16_sem_build :
  forall (genid : genid_t) (env : ident -> Z) (n n' : nat) (f : form) (j : json) (p' : prop),
    jwf genid false f -> xnor_leaves f -> fok env f ->
    to_json genid n (build genid f) = Some j -> from_json genid false n' j = Some p' ->
    all_unmerged genid false n' j = true ->
    eval env p' = eval env (build genid f).
Proof.
  intros genid env n n' f j p' Hw Hx Ho H1 H2 Hg.
  exact (proj1 (roundtrip_sem genid env n n' (build genid f) j p' H1 H2 (build_cls_inv genid false f Hw) (build_xnor_flat genid f Hx) (build_ok genid env f Ho) Hg)).
Qed.
Print Assumptions C16_sem_build.

(* ---- configurators ---- *)
(* a rule of a configurator (class map of StingyConfigurator.from_json: "Any"/"Xor" are cc.Any/cc.Xor) *)
Theorem C16_cfg_rule :
  forall (genid : genid_t) (env : ident -> Z), (forall i : ident, 0 <= env i) ->
    forall (n n' : nat) (p : prop) (j : json) (p' : prop),
    to_json genid n p = Some j -> from_json genid true n' j = Some p' ->
    cls_inv_g true p -> xnor_flat p -> ok env p -> all_unmerged genid true n' j = true ->
    eval env p' = eval env p /\ ok env p'.
Proof. exact roundtrip_sem_cfg. Qed.
Print Assumptions C16_cfg_rule.

(* a whole StingyConfigurator through to_json / StingyConfigurator.from_json: same evaluation, same leaves.
   The full statement of DESIGN's C16_cfg would add
     default_prios p' = default_prios p  and  to_ge_polyhedron true p' = to_ge_polyhedron true p;
   that part is FALSE of the model (and of the code: finding D15) — see C16_cfg_ids_refuted below — hence `_partial`.
   It can only hold "up to the renaming of generated ids"; that weaker form is NOT proved here (it needs a structural
   isomorphism between p and p', which fails across Imply conditions and inward-pushed negations). *)
Theorem C16_cfg_partial :
  forall (genid : genid_t) (env : ident -> Z), (forall i : ident, 0 <= env i) ->
    forall (n n' : nat) m i g lo hi s v ch (j : json) (p' : prop),
    m_cls m = KStingy ->
    to_json genid n (Node m i g lo hi s v ch) = Some j -> stingy_from_json genid n' j = Some p' ->
    cls_inv_g true (Node m i g lo hi s v ch) -> xnor_flat (Node m i g lo hi s v ch) -> ok env (Node m i g lo hi s v ch) ->
    stingy_unmerged genid n' j = true ->
    (eval env p' = eval env (Node m i g lo hi s v ch) /\ ok env p') /\
    (forall x : ident * (Z * Z), In x (pleaves p') <-> In x (pleaves (Node m i g lo hi s v ch))).
Proof.
  intros genid env Hn n n' m i g lo hi s v ch j p' Ec H1 H2 Hc Hx Ho Hg. split.
  - exact (roundtrip_stingy genid env Hn n n' m i g lo hi s v ch j p' Ec H1 H2 Hc Hx Ho Hg).
  - exact (roundtrip_stingy_leaves genid n n' m i g lo hi s v ch j p' Ec H1 H2 Hc Hx).
Qed.
Print Assumptions C16_cfg_partial.

(* the default list of every cc.Any / cc.Xor rule is kept (dflt_valid: lower <= upper for each default variable) *)
Theorem C16_cfg_default :
  forall (genid : genid_t) (n n' : nat) m i g lo hi s v ch (j : json) (p' : prop),
    m_cls m = KCcAny \/ m_cls m = KCcXor -> dflt_valid (m_default m) ->
    to_json genid n (Node m i g lo hi s v ch) = Some j -> from_json genid true n' j = Some p' ->
    m_default (meta_of p') = m_default m.
Proof. exact roundtrip_default. Qed.
Print Assumptions C16_cfg_default.

(* the same for every configurator built by the constructors (jwf genid true: All/Stingy arguments are not merged,
   at most one operand of a cc.Xor is its default variable) *)
Theorem C16_cfg_build :
  forall (genid : genid_t) (env : ident -> Z), (forall i : ident, 0 <= env i) ->
    forall (n n' : nat) (o : oid_t) (l : list form) (j : json) (p' : prop),
    jwf genid true (FStingy o l) -> xnor_leaves (FStingy o l) -> fok env (FStingy o l) ->
    to_json genid n (build genid (FStingy o l)) = Some j -> stingy_from_json genid n' j = Some p' ->
    stingy_unmerged genid n' j = true ->
    eval env p' = eval env (build genid (FStingy o l)) /\
    (forall x : ident * (Z * Z), In x (pleaves p') <-> In x (pleaves (build genid (FStingy o l)))).
Proof. exact roundtrip_stingy_build. Qed.
Print Assumptions C16_cfg_build.

(* What is missing for the property text "same default priorities and polyhedron": both are keyed by the ids of the
   sub-propositions, and the id of a GENERATED node is not stable under the round trip when its sign was passed
   explicitly but equals the default for its value (to_json omits it, from_json rebuilds with the sign argument
   absent, and _id_generator hashes the sign ARGUMENT) — every negate() / Not(...) result is such a node.
   This is finding D15; C16_cfg_ids_refuted is the witness; evaluation, leaves and bounds, explicit ids and default
   lists are proved. *)

(* ---- witnesses ---- *)
Definition c16_ones (p : positive) : string := String.concat "" (map (fun _ => "i") (seq 0 (Pos.to_nat p))).
Definition c16_zs (z : Z) : string := match z with Z0 => "0" | Zpos p => "p" ++ c16_ones p | Zneg p => "n" ++ c16_ones p end.
(* an injective id generator *)
Definition c16_g : genid_t :=
  fun ids v s => "V" ++ String.concat "_" ids ++ "#" ++ c16_zs v ++ match s with None => "N" | Some s => c16_zs s end.

(* finding D6: XNor(Any(a,b), c, d).  XNor.to_json serialises propositions[0].negate().propositions; with a
   compound operand that list is not the operand list: the document reads XNor(AtLeast(1,[a,b]), AtLeast(1,[c,d]))
   and at a=b=0, c=d=1 the original is 1 (two operands true) while the round-tripped model is 0. *)
Definition c16_x : form := FXNor None [FAny None [FLeaf "a" 0 1; FLeaf "b" 0 1]; FLeaf "c" 0 1; FLeaf "d" 0 1].
Definition c16_xenv : ident -> Z := fun i => if String.eqb i "c" then 1 else if String.eqb i "d" then 1 else 0.
Theorem C16_xnor_refuted :
  exists (genid : genid_t) (f : form) (env : ident -> Z) (j : json) (p' : prop),
    jwf genid false f /\ fok env f /\ cls_inv (build genid f) /\
    to_json genid 10 (build genid f) = Some j /\ from_json genid false 10 j = Some p' /\
    all_unmerged genid false 10 j = true /\
    eval env (build genid f) = 1 /\ eval env p' = 0.
Proof.
  exists c16_g, c16_x, c16_xenv. eexists. eexists.
  split; [vm_compute; tauto|]. split; [vm_compute; repeat split; discriminate|].
  split; [apply build_cls_inv; vm_compute; tauto|].
  split; [vm_compute; reflexivity|]. split; [vm_compute; reflexivity|].
  vm_compute. auto.
Qed.
Print Assumptions C16_xnor_refuted.

(* finding D13: the bounds of a compound's own variable are not serialised: AtLeast(1,[a], variable=(N1,(1,1)))
   comes back with bounds (0,1), so the value fixed by the declaration (Sem.eval_c) is lost *)
Definition c16_pf : form := FAtLeast (Some ("N1", (1, 1))) 1 None [FLeaf "a" 0 1].
Theorem C16_prefixed_refuted :
  exists (genid : genid_t) (f : form) (env : ident -> Z) (j : json) (p' : prop),
    to_json genid 10 (build genid f) = Some j /\ from_json genid false 10 j = Some p' /\
    id_of p' = id_of (build genid f) /\
    (lo_of (build genid f), hi_of (build genid f)) = (1, 1) /\ (lo_of p', hi_of p') = (0, 1) /\
    eval_c env (build genid f) = 1 /\ eval_c env p' = 0.
Proof.
  exists c16_g, c16_pf, (fun _ => 0). eexists. eexists.
  split; [vm_compute; reflexivity|]. split; [vm_compute; reflexivity|].
  vm_compute. auto.
Qed.
Print Assumptions C16_prefixed_refuted.

(* finding D15, id face (generated ids are not stable): StingyConfigurator(Not(All(a,b)), id="cfg").  The Not result carries
   sign -1 = the default for value -1, so the document has no "sign"; the rebuilt node asks the id generator with
   sign None instead of -1 and (for any generator that looks at the sign argument, as SHA-256 of the string does)
   gets another id: the column ids of the polyhedron of the round-tripped configurator differ. *)
Definition c16_nf : form := FStingy (Some ("cfg", (0, 1))) [FNot (FAll None [FLeaf "a" 0 1; FLeaf "b" 0 1])].
Theorem C16_cfg_ids_refuted :
  exists (genid : genid_t) (f : form) (j : json) (p' : prop),
    jwf genid true f /\ xnor_leaves f /\
    to_json genid 10 (build genid f) = Some j /\ stingy_from_json genid 10 j = Some p' /\
    stingy_unmerged genid 10 j = true /\
    map fst (columns true (build genid f)) = ["Va_b#nini"; "a"; "b"] /\
    map fst (columns true p') = ["Va_b#niN"; "a"; "b"] /\
    snd (to_ge_polyhedron true p') = snd (to_ge_polyhedron true (build genid f)).
Proof.
  exists c16_g, c16_nf. eexists. eexists.
  split; [unfold c16_nf; cbn [jwf]; repeat split; vm_compute; reflexivity|]. split; [vm_compute; tauto|].
  split; [vm_compute; reflexivity|]. split; [vm_compute; reflexivity|].
  vm_compute. auto 10.
Qed.
Print Assumptions C16_cfg_ids_refuted.

(* the guards all_unmerged / stingy_unmerged hold for EVERY document since fix D16 (All counts every operand it was
   given; before, All.__init__ used len(set(..)) and two arguments rebuilt with equal ids lowered the threshold):
   the hypotheses `all_unmerged .. = true` / `stingy_unmerged .. = true` of the theorems above can always be discharged *)
Theorem C16_guards_hold :
  forall (genid : genid_t) (cfg : bool) (n : nat) (j : json),
    all_unmerged genid cfg n j = true /\ stingy_unmerged genid n j = true.
Proof. intros genid cfg n j. split; [exact (all_unmerged_true genid cfg n j)|exact (stingy_unmerged_true genid n j)]. Qed.
Print Assumptions C16_guards_hold.

(* regression for the evaluation-changing face finding D15 had before fix D16:
   T = All(AtLeast(2,[a,b],sign=+), AtLeast(2,[a,b]), y).  The two AtLeast children have different generated ids (the
   sign argument differs); after the round trip both are rebuilt without a sign argument and get the same id (that is
   still finding D15: generated ids are not stable), but the value of T stays 3 and the evaluation is unchanged
   (with len(set(..)) it dropped to 2 and the round-tripped model was 1 at a=b=1, y=0 where the original is 0). *)
Definition c16_mf : form :=
  FAll (Some ("T", (0, 1))) [FAtLeast None 2 (Some 1) [FLeaf "a" 0 1; FLeaf "b" 0 1]; FAtLeast None 2 None [FLeaf "a" 0 1; FLeaf "b" 0 1]; FLeaf "y" 0 1].
Definition c16_menv : ident -> Z := fun i => if String.eqb i "y" then 0 else 1.
Example C16_merge_repaired :
  exists (j : json) (p' : prop),
    to_json c16_g 10 (build c16_g c16_mf) = Some j /\ from_json c16_g false 10 j = Some p' /\
    value_of (build c16_g c16_mf) = 3 /\ value_of p' = 3 /\
    map id_of (children (build c16_g c16_mf)) <> map id_of (children p') /\
    eval c16_menv (build c16_g c16_mf) = 0 /\ eval c16_menv p' = 0.
Proof.
  eexists. eexists. split; [vm_compute; reflexivity|]. split; [vm_compute; reflexivity|].
  vm_compute. repeat split; try reflexivity. intros H; discriminate.
Qed.
Print Assumptions C16_merge_repaired.

(* Non-vacuity: R = Imply(All(x, Any(a,b)), AtLeast(1, [k:(-3,3), Xor(a,b), XNor(c,d)], sign=-1), id="R") — nested,
   explicit non-default sign, integer leaf, explicit and generated ids — meets every hypothesis of C16_sem_build; the
   document carries "sign" and only the explicit id; the rebuilt model evaluates like the original (0 at x=a=c=d=1,
   b=0, k=3; 1 at k=-3). *)
Definition c16_f : form :=
  FImply (Some ("R", (0, 1)))
    (FAll None [FLeaf "x" 0 1; FAny None [FLeaf "a" 0 1; FLeaf "b" 0 1]])
    (FAtLeast None 1 (Some (-1)) [FLeaf "k" (-3) 3; FXor None [FLeaf "a" 0 1; FLeaf "b" 0 1]; FXNor None [FLeaf "c" 0 1; FLeaf "d" 0 1]]).
Definition c16_env (k : Z) : ident -> Z := fun i => if String.eqb i "k" then k else if String.eqb i "b" then 0 else 1.
Definition c16_rt : option prop :=
  match to_json c16_g 10 (build c16_g c16_f) with Some j => from_json c16_g false 10 j | None => None end.
Example C16_nonvacuous :
  jwf c16_g false c16_f /\ xnor_leaves c16_f /\ fok (c16_env 3) c16_f /\ fok (c16_env (-3)) c16_f /\
  (exists j p', to_json c16_g 10 (build c16_g c16_f) = Some j /\ from_json c16_g false 10 j = Some p' /\
     all_unmerged c16_g false 10 j = true /\
     (exists f, j = JObj f /\ alookup "id" f = Some (JStr "R") /\
        exists fq, alookup "consequence" f = Some (JObj fq) /\ alookup "sign" fq = Some (JInt (-1)) /\ alookup "id" fq = None) /\
     eval (c16_env 3) (build c16_g c16_f) = 0 /\ eval (c16_env 3) p' = 0 /\
     eval (c16_env (-3)) (build c16_g c16_f) = 1 /\ eval (c16_env (-3)) p' = 1).
Proof.
  split; [vm_compute; tauto|]. split; [vm_compute; tauto|].
  split; [unfold c16_f; cbn [fok]; repeat split; try (vm_compute; discriminate); auto|].
  split; [unfold c16_f; cbn [fok]; repeat split; try (vm_compute; discriminate); auto|].
  eexists. eexists. split; [vm_compute; reflexivity|]. split; [vm_compute; reflexivity|].
  split; [vm_compute; reflexivity|]. split; [|vm_compute; auto].
  eexists. split; [reflexivity|]. split; [reflexivity|]. eexists. split; [reflexivity|]. split; reflexivity.
Qed.
Print Assumptions C16_nonvacuous.

(* Non-vacuity (configurator): StingyConfigurator(cc.Xor(x,y,z, default=[x]), Imply(All(x), cc.Any(p,q,Any(r,s), default=[q], id=R)),
   cc.Any(u,w), id=cfg) — cc.Xor with a default, the nested form of cc.Any under an Imply — meets every hypothesis of
   C16_cfg_build; the documents carry the defaults; it evaluates to 0 at x=y=1 (two of the Xor) and to 1 at x=q=u=1. *)
Definition c16_L (i : string) : form := FLeaf i 0 1.
Definition c16_cf_rules : list form :=
  [FCcXor None [("x", (0, 1))] [c16_L "x"; c16_L "y"; c16_L "z"];
   FImply None (FAll None [c16_L "x"]) (FCcAny (Some ("R", (0, 1))) [("q", (0, 1))] [c16_L "p"; c16_L "q"; FAny None [c16_L "r"; c16_L "s"]]);
   FCcAny None [] [c16_L "u"; c16_L "w"]].
Definition c16_cf : form := FStingy (Some ("cfg", (0, 1))) c16_cf_rules.
Definition c16_cenv (y : Z) : ident -> Z := fun i => if String.eqb i "y" then y else if String.eqb i "x" then 1 else if String.eqb i "q" then 1 else if String.eqb i "u" then 1 else 0.
Example C16_cfg_nonvacuous :
  jwf c16_g true c16_cf /\ xnor_leaves c16_cf /\ fok (c16_cenv 1) c16_cf /\ fok (c16_cenv 0) c16_cf /\
  (forall i, 0 <= c16_cenv 1 i) /\ (forall i, 0 <= c16_cenv 0 i) /\
  (exists j p', to_json c16_g 10 (build c16_g c16_cf) = Some j /\ stingy_from_json c16_g 10 j = Some p' /\
     stingy_unmerged c16_g 10 j = true /\
     eval (c16_cenv 1) (build c16_g c16_cf) = 0 /\ eval (c16_cenv 1) p' = 0 /\
     eval (c16_cenv 0) (build c16_g c16_cf) = 1 /\ eval (c16_cenv 0) p' = 1 /\
     map (fun c => m_default (meta_of c)) (children p') = map (fun c => m_default (meta_of c)) (children (build c16_g c16_cf))).
Proof.
  split; [unfold c16_cf, c16_cf_rules; cbn [jwf]; repeat split; try (vm_compute; lia); vm_compute; reflexivity|].
  split; [vm_compute; tauto|].
  split; [unfold c16_cf, c16_cf_rules, c16_L; cbn [fok]; repeat split; try (vm_compute; discriminate); auto|].
  split; [unfold c16_cf, c16_cf_rules, c16_L; cbn [fok]; repeat split; try (vm_compute; discriminate); auto|].
  split; [intros i; unfold c16_cenv; repeat case_if; lia|]. split; [intros i; unfold c16_cenv; repeat case_if; lia|].
  eexists. eexists. split; [vm_compute; reflexivity|]. split; [vm_compute; reflexivity|].
  vm_compute. auto 10.
Qed.
Print Assumptions C16_cfg_nonvacuous.
