(* C07 — Assuming values is equivalent to evaluating with them.
   Only statements, `exact`, non-vacuity examples and Print Assumptions live here.
   d1 = the assumption dictionary, d2 = the further interpretation, d1 ++ d2 = their union
   (Python {**d2, **d1}; the two are disjoint under `compat`).  `compat d1 d2 env p` says: d2
   names no sub-proposition and nothing d1 names; every leaf's interval after d2 lies within
   its interval after d1 and contains env's value. *)
Require Import Puan.Base Puan.Plog Puan.Sem Puan.AssumeFacts.
Open Scope string_scope.

(* the assumed model means, under the further interpretation, what the original means under
   the union — for EVERY tree, assumption (leaf and sub-proposition ids, any value form) and
   compatible further interpretation, total or not *)
Theorem C07_value :
  forall (d1 d2 : interp) (env : ident -> Z) (p : prop),
    ok_signs p = true -> compat d1 d2 env p ->
    eval_d d2 env (assume d1 p) = eval_d (d1 ++ d2)%list env p.
Proof. exact assume_compose. Qed.
Print Assumptions C07_value.

(* at the level of evaluate(): when the union fixes every leaf, both calls return the same
   constant *)
Theorem C07_evaluate :
  forall (d1 d2 : interp) (env : ident -> Z) (p : prop),
    ok_signs p = true -> compat d1 d2 env p -> total (d1 ++ d2)%list p ->
    single_def p -> single_def (assume d1 p) ->
    evaluate d2 (assume d1 p) = evaluate (d1 ++ d2)%list p /\
    evaluate (d1 ++ d2)%list p = Some (eval_d (d1 ++ d2)%list env p, eval_d (d1 ++ d2)%list env p).
Proof. exact assume_then_evaluate. Qed.
Print Assumptions C07_evaluate.

(* variables not mentioned keep bounds that contain every value they can take *)
Theorem C07_bounds :
  forall (d : interp) (env : ident -> Z) (p : prop),
    ok_signs p = true -> refines d env p ->
    Forall (fun r => exists p', In p' (nodes p) /\ id_of r = id_of p' /\ lo_of r <= eval_d d env p' <= hi_of r)
           (nodes (assume d p)).
Proof. exact assume_nodes_sound. Qed.
Print Assumptions C07_bounds.

(* Non-vacuity: A = All(B = Any(x,y), z), assumption {B: 1, z: (0,1)} (names a compound),
   further interpretation {x: 0, y: 0, z: 1}: B stays 1 although x = y = 0. *)
Definition c07_m : prop :=
  Node (mk KAll) "A" false 0 1 1 2 [Node (mk KAny) "B" false 0 1 1 1 [Var "x" 0 1; Var "y" 0 1]; Var "z" 0 1].
Definition c07_d1 : interp := [("B", (1, 1))].
Definition c07_d2 : interp := [("x", (0, 0)); ("y", (0, 0)); ("z", (1, 1))].
Definition c07_env : ident -> Z := fun i => if String.eqb i "z" then 1 else 0.
Example C07_nonvacuous :
  ok_signs c07_m = true /\ compat c07_d1 c07_d2 c07_env c07_m /\ total (c07_d1 ++ c07_d2)%list c07_m /\
  evaluate c07_d2 (assume c07_d1 c07_m) = Some (1, 1) /\ evaluate (c07_d1 ++ c07_d2)%list c07_m = Some (1, 1).
Proof. cbn. repeat split; try lia; try discriminate; try reflexivity; try (intros H; exfalso; apply H; reflexivity). Qed.
Print Assumptions C07_nonvacuous.
