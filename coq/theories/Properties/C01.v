(* C01 — Logic-to-polyhedron encoding agrees with evaluation on every assignment.
   Only statements, `exact`, non-vacuity examples and Print Assumptions live here.
   Model side: Plog.encode (model of AtLeast.to_ge_polyhedron INCLUDING the puan-rspy big-M row
   generation, validated against the wheel by the correspondence check on every run).
   Spec side: Sem.eval (arithmetic truth function), Sem.sat (row b <= Σ coef * x(id)),
   Sem.extend (leaf assignment extended with each sub-proposition's evaluated truth value). *)
Require Import Puan.Base Puan.Plog Puan.Sem Puan.EncodeFacts Puan.Errors Puan.ErrorsSpec Puan.Validated.
Open Scope string_scope.

(* Validated model (ids have single definitions, leaf ids apart from sub-proposition ids — both
   follow from errors() = [] outside finding D4, see C10), no sub-proposition pre-fixed, leaves in
   bounds (any integer bounds): the asserted system holds at the extended assignment iff the model
   evaluates to 1; the non-asserted system always holds there. *)
Theorem C01_encoding_agrees :
  forall (env : ident -> Z) (m : prop),
    single_def m -> leaves_apart m -> plain_inb env m -> is_var m = false ->
    (Forall (sat (extend env m)) (encode true m) <-> eval env m = 1) /\
    Forall (sat (extend env m)) (encode false m).
Proof. exact encode_agrees. Qed.
Print Assumptions C01_encoding_agrees.

(* the same, stated from validation itself: errors() returned nothing (Errors.errors2, the model of
   AtLeast.errors(); C10), outside the hash-collision findings D4 / D12, no leaf refers to a
   sub-proposition by id, and occurrences of an id agree on whether it was generated *)
Theorem C01_validated :
  forall (env : ident -> Z) (m : prop),
    errors2 m = [] -> no_bounds_hash_collision m -> no_value_hash_collision m ->
    leaves_apart m -> gen_coherent m -> plain_inb env m -> is_var m = false ->
    (Forall (sat (extend env m)) (encode true m) <-> eval env m = 1) /\
    Forall (sat (extend env m)) (encode false m).
Proof. intros env m He Hb Hv Hla Hgc. exact (validated_encoding_agrees m (conj He (conj Hb Hv)) Hla Hgc env). Qed.
Print Assumptions C01_validated.

(* the same two facts for ANY column assignment that carries the evaluated truth values
   (no validity hypothesis at all: shared and repeated nodes are covered occurrence by occurrence) *)
Theorem C01_active :
  forall (x : ident -> Z) (p : prop), inb x p -> consistent x p -> is_var p = false ->
    (Forall (sat x) (encode true p) <-> eval x p = 1).
Proof. exact encode_active. Qed.
Print Assumptions C01_active.
Theorem C01_inactive :
  forall (x : ident -> Z) (p : prop), inb x p -> consistent x p -> Forall (sat x) (encode false p).
Proof. exact encode_inactive. Qed.
Print Assumptions C01_inactive.

(* the dense matrix row handed out means the same as the sparse row of the model *)
Theorem C01_dense :
  forall (x : ident -> Z) (r : row) (cols : list ident),
    NoDup cols -> (forall e, In e (snd r) -> In (fst e) cols) ->
    (sat_dense (map x cols) (dense cols r) <-> sat x r).
Proof. exact dense_row. Qed.
Print Assumptions C01_dense.

(* Non-vacuity: A = All(B = AtMost(1,[x:(-2,3), y]), z): integer leaf with negative lower bound
   under a negative node, depth 2. *)
Definition c01_m : prop :=
  Node (mk KAll) "A" false 0 1 1 2 [Node (mk KAtMost) "B" false 0 1 (-1) (-1) [Var "x" (-2) 3; Var "y" 0 1]; Var "z" 0 1].
Definition c01_env : ident -> Z := fun i => if String.eqb i "x" then -1 else 1.
Example C01_nonvacuous :
  plain_inb c01_env c01_m /\ is_var c01_m = false /\ eval c01_env c01_m = 1 /\
  encode true c01_m = [(2, [("B", 1); ("z", 1)]); (-4, [("B", -3); ("x", -1); ("y", -1)])] /\
  extend c01_env c01_m "B" = 1.
Proof. cbn. repeat split; lia. Qed.
Print Assumptions C01_nonvacuous.
