(* C17 — Base64 round trip reproduces propositions and configured polyhedra exactly.
   Only statements, `exact`, non-vacuity examples and Print Assumptions live here.

   LEVEL: partial — honestly.  The codec is pickle ∘ gzip ∘ base64, runtime-library behaviour that
   no Gallina model can say anything about; it enters ONLY as the explicit hypothesis
   `forall x, dec (enc x) = Some x` of C17_roundtrip / C17_roundtrip_prop (trusted base: "codec
   round trip").  What is proved is the part that is logic in /repo: the list of fields
   ge_polyhedron_config.to_b64 packs is sufficient and is re-applied to the constructor in the right
   positions, including the constructor's default filling and shape check.  A pickle-level failure
   (an attribute lost by numpy's or pickle's protocol) cannot be exhibited by these theorems; the
   differential check in harness/props/c17.py (structural dump, to_text, classes, generated-id
   flags, defaults, prio tags, matrix, variables, index, default prio vector, dtype, and a fixed
   query set incl. select with a recording solver, before vs after) carries that weight. *)
Require Import Puan.Base Puan.Plog Puan.Pack Puan.PackFacts.
Open Scope string_scope.

(* the fields packed by to_b64, re-applied positionally to the constructor, give back the
   polyhedron: array, default prio vector, variables, index and dtype — for every well-shaped
   polyhedron (any size, any contents) *)
Theorem C17_fields :
  forall c : config,
    (Forall (fun r => List.length r = c_ncols c) (c_rows c) /\
     List.length (c_vars c) = c_ncols c /\ List.length (c_index c) = List.length (c_rows c)) ->
    unpack (pack c) = Some c.
Proof. exact unpack_pack. Qed.
Print Assumptions C17_fields.

(* from_b64 (to_b64 p) = p for polyhedra, for ANY codec that round-trips field lists *)
Theorem C17_roundtrip :
  forall (blob : Type) (enc : list field -> blob) (dec : blob -> option (list field)),
    (forall x, dec (enc x) = Some x) ->            (* codec_ok: pickle/gzip/base64, trusted *)
    forall c : config,
      (Forall (fun r => List.length r = c_ncols c) (c_rows c) /\
       List.length (c_vars c) = c_ncols c /\ List.length (c_index c) = List.length (c_rows c)) ->
      config_from_b64 blob dec (config_to_b64 blob enc c) = Some c.
Proof. exact config_roundtrip. Qed.
Print Assumptions C17_roundtrip.

(* propositions: the whole object goes through the codec, nothing else happens *)
Theorem C17_roundtrip_prop :
  forall (blob : Type) (enc : prop -> blob) (dec : blob -> option prop),
    (forall x, dec (enc x) = Some x) ->            (* codec_ok *)
    forall p : prop, prop_from_b64 blob dec (prop_to_b64 blob enc p) = Some p.
Proof. exact prop_roundtrip. Qed.
Print Assumptions C17_roundtrip_prop.

(* no field is redundant: different polyhedra pack differently *)
Theorem C17_pack_injective : forall c c' : config, pack c = pack c' -> c = c'.
Proof. exact pack_injective. Qed.
Print Assumptions C17_pack_injective.

(* Non-vacuity: a concrete 2x4 int32 polyhedron with a non-default prio vector, integer column
   bounds and a non-default row index is well shaped and round-trips; dropping the dtype or the
   index from the packed list makes the constructor fall back to defaults and the result differs. *)
Example C17_nonvacuous :
  (Forall (fun r => List.length r = c_ncols ex_config) (c_rows ex_config) /\
   List.length (c_vars ex_config) = c_ncols ex_config /\ List.length (c_index ex_config) = List.length (c_rows ex_config)) /\
  unpack (pack ex_config) = Some ex_config /\
  unpack (removelast (pack ex_config)) <> Some ex_config /\
  unpack (removelast (removelast (pack ex_config))) <> Some ex_config.
Proof. exact dropping_a_field_is_lossy. Qed.
Print Assumptions C17_nonvacuous.
