(* C12 — Bound tightening never cuts off a feasible point; row bounds are exact.
   Only statements, `exact`, a non-vacuity example and Print Assumptions live here.

   Specification vocabulary (PolyFacts.v, none of it mentions how the code computes):
     mat P            rows  b_i :: a_i1 .. a_in ,  meaning  a_i . x >= b_i
     bounds_of P      declared (lower, upper) per column of A
     in_box bs x      := Forall2 (fun bd v => fst bd <= v <= snd bd) bs x
     sol P x          := in_box (bounds_of P) x /\ Forall (fun r => hd 0 r <= dot (tl r) x) (mat P)
     wf P             the matrix is rectangular and matches variables / index (numpy guarantees it)
     default_range bs := every bound pair satisfies  -32768 <= lo <= hi <= 32767  (puan.default_min_int /
                         default_max_int; puan.Bounds enforces lo <= hi)
   tighten_column_bounds P = Some (lb, ub) is "the call returned (lb, ub)"; None models the
   exception numpy raises on a matrix without rows or columns. *)
Require Import Puan.Base Puan.Poly Puan.PolyFacts.

(* every in-bounds integer solution lies inside the tightened box *)
Theorem C12_sound :
  forall (P : poly) (lb ub x : list Z),
    wf P -> default_range (bounds_of P) ->
    tighten_column_bounds P = Some (lb, ub) ->
    in_box (bounds_of P) x /\ Forall (fun r => hd 0 r <= dot (tl r) x) (mat P) ->
    Forall2 (fun lu v => fst lu <= v <= snd lu) (combine lb ub) x.
Proof. exact tighten_sound. Qed.
Print Assumptions C12_sound.

(* a lower bound above an upper bound is reported only when there is no solution at all *)
Theorem C12_empty :
  forall (P : poly) (lb ub : list Z),
    wf P -> default_range (bounds_of P) ->
    tighten_column_bounds P = Some (lb, ub) ->
    Exists (fun lu => snd lu < fst lu) (combine lb ub) ->
    forall x, ~ sol P x.
Proof. exact tighten_empty. Qed.
Print Assumptions C12_empty.

(* the declared bounds are never widened (and the result has one entry per column) *)
Theorem C12_no_widen :
  forall (P : poly) (lb ub : list Z),
    wf P -> tighten_column_bounds P = Some (lb, ub) ->
    Forall2 (fun bd l => fst bd <= l) (bounds_of P) lb /\
    Forall2 (fun bd u => u <= snd bd) (bounds_of P) ub.
Proof. exact tighten_no_widen. Qed.
Print Assumptions C12_no_widen.

(* row_bounds: per row, a lower and an upper bound of  a_i . x - b_i  over the box, both attained *)
Theorem C12_row_bounds :
  forall (P : poly),
    Forall (fun bd => fst bd <= snd bd) (bounds_of P) ->
    Forall2 (fun r mm =>
               (forall x, in_box (bounds_of P) x -> fst mm <= dot (tl r) x - hd 0 r <= snd mm)
               /\ (exists x, in_box (bounds_of P) x /\ dot (tl r) x - hd 0 r = fst mm)
               /\ (exists x, in_box (bounds_of P) x /\ dot (tl r) x - hd 0 r = snd mm))
            (mat P) (row_bounds P).
Proof. exact row_bounds_exact. Qed.
Print Assumptions C12_row_bounds.

(* n_row_combinations: per row, the number of points of the box of the variables occurring in the
   row (zero-coefficient columns pinned), counted by explicit enumeration ... *)
Theorem C12_ncomb :
  forall (P : poly),
    Forall (fun bd => fst bd <= snd bd) (bounds_of P) ->
    Forall2 (fun r n => n = Z.of_nat (List.length (enum_box (restrict_box (bounds_of P) (tl r)))))
            (mat P) (n_row_combinations P).
Proof. exact n_row_combinations_spec. Qed.
Print Assumptions C12_ncomb.

(* ... where the enumeration lists exactly the points of a box, each once *)
Theorem C12_enum :
  forall (bs : list (Z * Z)),
    (forall x, In x (enum_box bs) <-> Forall2 (fun bd v => fst bd <= v <= snd bd) bs x) /\ NoDup (enum_box bs).
Proof. exact (fun bs => conj (enum_box_spec bs) (enum_box_NoDup bs)). Qed.
Print Assumptions C12_enum.

(* column_bounds / A_max / A_min are, entry by entry, the declared bounds and the larger / smaller of
   lo * a_ij and hi * a_ij *)
Theorem C12_extremes :
  forall (P : poly),
    Forall (fun bd => fst bd <= snd bd) (bounds_of P) ->
    column_bounds P = (map fst (bounds_of P), map snd (bounds_of P)) /\
    A_max P = map (fun r => zipw (fun bd c => Z.max (fst bd * c) (snd bd * c)) (bounds_of P) (tl r)) (mat P) /\
    A_min P = map (fun r => zipw (fun bd c => Z.min (fst bd * c) (snd bd * c)) (bounds_of P) (tl r)) (mat P).
Proof. exact extremes_spec. Qed.
Print Assumptions C12_extremes.

(* Non-vacuity: 2x - 3y >= 3, 5x + y >= 5, 2x >= 3 with x in [0,5], y in [-2,3].  Row 0 gives
   y <= floor((3-10)/-3) = 2 (a remainder with a negative non-unit coefficient), row 2 gives
   x >= floor(3/2) = 1 (floor where ceil would give 2: weaker but sound).  The hypotheses hold,
   (3,1) is a solution inside the tightened box, and the row bounds / combination counts are the
   enumerated ones (row 2 mentions only x: 6 combinations). *)
Definition c12_P : poly :=
  mkPoly [[3; 2; -3]; [5; 5; 1]; [3; 2; 0]]
         [("0"%string, (1, 1)); ("x"%string, (0, 5)); ("y"%string, (-2, 3))] ["r0"%string; "r1"%string; "r2"%string].
Example C12_nonvacuous :
  wf c12_P /\ default_range (bounds_of c12_P) /\
  tighten_column_bounds c12_P = Some ([1; -2], [5; 2]) /\
  sol c12_P [3; 1] /\
  row_bounds c12_P = [(-12, 13); (-7, 23); (-3, 7)] /\
  n_row_combinations c12_P = [36; 36; 6].
Proof.
  unfold wf, default_range, sol, in_box, rows_hold, row_holds, bounds_of, min_value, max_value.
  repeat split; try (vm_compute; reflexivity); try discriminate; repeat constructor; cbn; lia.
Qed.
Print Assumptions C12_nonvacuous.

(* Known finding D11 (refutation of the count clause for the int64 implementation): with four
   columns of the default int16 range the exact count is 2^64 while numpy's int64 product is 0. *)
Definition c12_wide : poly :=
  mkPoly [[0; 1; 1; 1; 1]]
         [("0"%string, (1, 1)); ("a"%string, (-32768, 32767)); ("b"%string, (-32768, 32767));
          ("c"%string, (-32768, 32767)); ("d"%string, (-32768, 32767))] ["r0"%string].
Example C12_ncomb_refuted_int64 :
  wf c12_wide /\ default_range (bounds_of c12_wide) /\
  n_row_combinations c12_wide = [2 ^ 64] /\ n_row_combinations_int64 c12_wide = [0].
Proof.
  unfold wf, default_range, bounds_of, min_value, max_value.
  repeat split; try (vm_compute; reflexivity); try discriminate; repeat constructor; cbn; lia.
Qed.
Print Assumptions C12_ncomb_refuted_int64.

(* The range hypothesis of C12_sound is necessary: the code clips masked entries at the int16 limits,
   so a declared lower bound below -32768 is RAISED to -32768 even by a row that says nothing
   (0 * x >= 0), cutting off the in-bounds solution x = -40000. *)
Definition c12_out_of_range : poly :=
  mkPoly [[0; 0]] [("0"%string, (1, 1)); ("x"%string, (-40000, 0))] ["r0"%string].
Example C12_range_guard_needed :
  wf c12_out_of_range /\ sol c12_out_of_range [-40000] /\
  tighten_column_bounds c12_out_of_range = Some ([-32768], [0]).
Proof.
  unfold wf, sol, in_box, rows_hold, row_holds, bounds_of.
  repeat split; try (vm_compute; reflexivity); try discriminate; repeat constructor; cbn; lia.
Qed.
Print Assumptions C12_range_guard_needed.
