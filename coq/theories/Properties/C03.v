(* C03 — Evaluation computes the arithmetic truth function of every node.
   Only statements, `exact`, non-vacuity examples and Print Assumptions live here.
   Model side: Plog.assume / Plog.flatten / Plog.evaluate_propositions / Plog.evaluate (models of
   AtLeast.assume, flatten, evaluate_propositions, evaluate).  Spec side: Sem.eval (the
   arithmetic truth function) and Sem.eval_d (same, but a node whose own variable is fixed by the
   interpretation or by its declared bounds takes that fixed value). *)
Require Import Puan.Base Puan.Plog Puan.Sem Puan.AssumeFacts Puan.Errors Puan.ErrorsSpec Puan.Validated Puan.PresentFacts Puan.ChildlessFacts.
Open Scope string_scope.

(* Every entry (id, (lo,hi)) of the dictionary returned for a total interpretation is the
   constant lo = hi = value of a sub-proposition with that id, computed bottom-up. *)
Theorem C03_nodes :
  forall (d : interp) (env : ident -> Z) (p : prop),
    ok_signs p = true -> refines d env p -> total d p ->
    forall i lo hi, In (i, (lo, hi)) (evaluate_propositions d p) ->
    exists p', In p' (nodes p) /\ id_of p' = i /\ lo = eval_d d env p' /\ hi = eval_d d env p'.
Proof. exact evalprops_exact. Qed.
Print Assumptions C03_nodes.

(* Completeness: the dictionary has an entry for the model and for each of its sub-propositions and
   leaves that the interpretation leaves visible (PresentFacts.visible_ids: nothing below a compound
   whose own variable is fixed; a sub-proposition that the interpretation names is reported itself
   but hides its sub-tree, because it is replaced by its bare variable). *)
Theorem C03_complete :
  forall (d : interp) (p : prop), total d p ->
    forall i, In i (visible_ids d p) -> exists b, In (i, b) (evaluate_propositions d p).
Proof. exact evalprops_complete. Qed.
Print Assumptions C03_complete.

(* evaluate() is the top entry of evaluate_propositions(); on a model whose ids have single
   definitions it is the top node's value. *)
Theorem C03_top :
  forall (d : interp) (env : ident -> Z) (p : prop),
    ok_signs p = true -> refines d env p -> total d p -> single_def p ->
    evaluate d p = alookup_last (id_of p) (evaluate_propositions d p) /\
    evaluate d p = Some (eval_d d env p, eval_d d env p).
Proof. intros. split; [reflexivity|]. apply evaluate_exact; assumption. Qed.
Print Assumptions C03_top.

(* with no override and no pre-fixed sub-proposition, the fixed-aware value is the plain
   arithmetic truth function:  1 if value <= sign * Σ children, else 0 *)
Theorem C03_truth_function :
  forall (d : interp) (env : ident -> Z) (p : prop), agrees d env p -> eval_d d env p = eval env p.
Proof. exact eval_d_eval. Qed.
Print Assumptions C03_truth_function.

Theorem C03_evaluate :
  forall (d : interp) (env : ident -> Z) (p : prop),
    ok_signs p = true -> agrees d env p -> single_def p -> evaluate d p = Some (eval env p, eval env p).
Proof. exact evaluate_point. Qed.
Print Assumptions C03_evaluate.

(* stated from validation itself: errors() returned nothing (Errors.errors2; C10), outside the
   hash-collision findings D4 / D12, no leaf refers to a sub-proposition by id *)
Theorem C03_evaluate_validated :
  forall (d : interp) (env : ident -> Z) (m : prop),
    errors2 m = [] -> no_bounds_hash_collision m -> no_value_hash_collision m ->
    leaves_apart m -> gen_coherent m -> ok_signs m = true -> agrees d env m ->
    evaluate d m = Some (eval env m, eval env m).
Proof. intros d env m He Hb Hv Hla Hgc. exact (validated_evaluate m (conj He (conj Hb Hv)) Hla Hgc d env). Qed.
Print Assumptions C03_evaluate_validated.

(* Non-vacuity: A = All(B = AtMost(1, [x:(-2,3), y]), z) with x=-1, y=1, z=1 and override-free
   total interpretation: hypotheses hold; B's negative sign with a non-zero sum is exercised. *)
Definition c03_m : prop :=
  Node (mk KAll) "A" false 0 1 1 2 [Node (mk KAtMost) "B" false 0 1 (-1) (-1) [Var "x" (-2) 3; Var "y" 0 1]; Var "z" 0 1].
Definition c03_d : interp := [("x", (-1, -1)); ("y", (1, 1)); ("z", (1, 1))].
Definition c03_env : ident -> Z := fun i => if String.eqb i "x" then -1 else 1.
Example C03_nonvacuous :
  ok_signs c03_m = true /\ agrees c03_d c03_env c03_m /\ total c03_d c03_m /\ refines c03_d c03_env c03_m /\
  evaluate_propositions c03_d c03_m = [("A", (1, 1)); ("B", (1, 1)); ("x", (-1, -1)); ("y", (1, 1)); ("z", (1, 1))] /\
  eval c03_env c03_m = 1 /\ errors2 c03_m = [] /\ visible_ids c03_d c03_m = ["A"; "B"; "x"; "y"; "z"].
Proof. split; [|split; [|split; [|split; [|split; [|split; [|split]]]]]]; try (vm_compute; reflexivity); cbn; repeat split; try lia; try (right; lia); try discriminate. Qed.
Print Assumptions C03_nonvacuous.

(* A compound without sub-propositions (All(), Any(), AtLeast(k, []), a configurator without rules): the sum over no operand
   is 0, so unless its own variable is fixed (by the interpretation or by its declared bounds) it evaluates to the constant
   [value <= 0] - All() to 1, Any() to 0 - whatever the interpretation holds. *)
Theorem C03_childless :
  forall (d : interp) (m : meta) (i : ident) (g : bool) (lo hi s v : Z),
    let p := Node m i g lo hi s v [] in
    ok_signs p = true -> single_def p ->
    fst (dbounds d i lo hi) <> snd (dbounds d i lo hi) ->
    evaluate d p = Some (if (v <=? 0)%Z then 1%Z else 0%Z, if (v <=? 0)%Z then 1%Z else 0%Z).
Proof. exact childless_evaluate. Qed.
Print Assumptions C03_childless.

(* Non-vacuity: All() = +()>=0 evaluates to (1,1) and Any() = +()>=1 to (0,0), under an interpretation that names other ids. *)
Example C03_childless_nonvacuous :
  evaluate [("x", (1, 1))] (Node (mk KAll) "A" false 0 1 1 0 []) = Some (1, 1)%Z /\
  evaluate [("x", (1, 1))] (Node (mk KAny) "B" false 0 1 1 1 []) = Some (0, 0)%Z.
Proof. split; vm_compute; reflexivity. Qed.
Print Assumptions C03_childless_nonvacuous.
