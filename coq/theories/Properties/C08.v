(* C08 — reduce() preserves meaning and removes every fixed variable.
   Only statements, `exact`, non-vacuity examples and Print Assumptions live here.
   Spec side: Sem.eval_c — the arithmetic truth function in which every variable or
   sub-proposition with constant bounds (fixed by declaration or by a previous assume())
   stands for its constant; Sem.inb_c — free leaves are within their bounds. *)
Require Import Puan.Base Puan.Plog Puan.Sem Puan.ReduceFacts Puan.ReduceLink.
Open Scope string_scope.

Theorem C08_sem :
  forall (env : ident -> Z) (p : prop),
    ok_signs p = true -> inb_c env p -> eval_c env (reduce p) = eval_c env p.
Proof. exact reduce_sem. Qed.
Print Assumptions C08_sem.

(* the reduced model has no node or leaf with constant bounds, unless it is a single constant *)
Theorem C08_clean :
  forall p : prop,
    Forall (fun r => lo_of r <> hi_of r) (nodes (reduce p)) \/ exists i b, reduce p = Var i b b.
Proof. exact reduce_clean. Qed.
Print Assumptions C08_clean.

(* Non-vacuity: A = AtMost-like negative node -(x, B, y:2..2) >= -3 with B = All(u, w:1..1):
   y and w are constants; the reduced model is -(x, B') >= -1 with B' = +(u) >= 1. *)
Definition c08_m : prop :=
  Node m0 "A" false 0 1 (-1) (-3)
    [Node (mk KAll) "B" false 0 1 1 2 [Var "u" 0 1; Var "w" 1 1]; Var "x" 0 1; Var "y" 2 2].
Definition c08_env : ident -> Z := fun i => if String.eqb i "x" then 1 else 0.
Example C08_nonvacuous :
  ok_signs c08_m = true /\ inb_c c08_env c08_m /\
  reduce c08_m = Node m0 "A" false 0 1 (-1) (-1) [Node m0 "B" false 0 1 1 1 [Var "u" 0 1]; Var "x" 0 1] /\
  eval_c c08_env c08_m = 1 /\ eval_c c08_env (reduce c08_m) = 1.
Proof. cbn. repeat split; lia. Qed.
Print Assumptions C08_nonvacuous.

(* "possibly after assumptions": reduce(assume(d)) composed with C07 — for EVERY tree, every assumption d (leaf and
   sub-proposition ids, points and ranges) and every environment of the leaves inside the assumed intervals, the
   reduced assumed model evaluates to what the ORIGINAL model evaluates to under the assumption (Sem.eval_d d) *)
Theorem C08_after_assume :
  forall (d : interp) (env : ident -> Z) (p : prop),
    ok_signs p = true -> compat d [] env p ->
    eval_c env (reduce (assume d p)) = eval_d d env p.
Proof. exact reduce_after_assume. Qed.
Print Assumptions C08_after_assume.

(* non-vacuity: A = All(B = Any(x,y), z) with {B: 1} assumed: the reduction is the single leaf constraint on z *)
Definition c08_a : prop :=
  Node (mk KAll) "A" false 0 1 1 2 [Node (mk KAny) "B" false 0 1 1 1 [Var "x" 0 1; Var "y" 0 1]; Var "z" 0 1].
Definition c08_d : interp := [("B", (1, 1))].
Definition c08_env2 : ident -> Z := fun i => if String.eqb i "z" then 1 else 0.
Example C08_after_assume_nonvacuous :
  ok_signs c08_a = true /\ compat c08_d [] c08_env2 c08_a /\
  reduce (assume c08_d c08_a) = Node m0 "A" false 0 1 1 1 [Var "z" 0 1] /\
  eval_c c08_env2 (reduce (assume c08_d c08_a)) = 1 /\ eval_d c08_d c08_env2 c08_a = 1 /\ eval c08_env2 c08_a = 0.
Proof. cbn. repeat split; try lia; try discriminate; try reflexivity; try (intros H; exfalso; apply H; reflexivity). Qed.
Print Assumptions C08_after_assume_nonvacuous.
