(* C14 — Configurator objectives realise choices over defaults over stinginess.
   Only statements, `exact`, non-vacuity examples and Print Assumptions live here.

   Reading guide.  select() hands the solver, per priority dictionary, the vector
       objective dpv u = shadow2d [dpv; u]
   (ge_polyhedron_config._vectors_from_prios: the 2-row array [default_prio_vector; user
   priorities laid out over the columns], shadow-compressed along axis 0; C13 is about that
   compression).  A column's LEVEL (its key) is (1, |u_j|) when the user prioritised it,
   else (0, |dpv_j|): user levels by magnitude lie above the default level 2 (dpv = -2: the
   non-default branch of a defaulted Any/Xor) which lies above the default level 1 (dpv = -1:
   everything else); the SIGN of a column is the sign of the deciding entry (+ wants 1,
   - wants 0).  `level_score n M k x` is the signed count of the ones of x among the columns
   of level k; `dot obj x` is the objective value of x. *)
Require Import Puan.Base Puan.Plog Puan.Sem Puan.Compress Puan.CompressSpec Puan.CompressFacts
               Puan.ConfigObj Puan.ConfigObjFacts.

(* the levels and signs of the objective's columns, spelled out *)
Theorem C14_levels :
  forall (dpv u : list Z) (j : nat),
    key_of (column [dpv; u] j) =
      (if nth j u 0 =? 0 then if nth j dpv 0 =? 0 then None else Some (0%nat, Z.abs (nth j dpv 0))
       else Some (1%nat, Z.abs (nth j u 0))) /\
    sgn_of (column [dpv; u] j) =
      (if nth j u 0 =? 0 then Z.sgn (nth j dpv 0) else Z.sgn (nth j u 0)).
Proof. exact objective_levels. Qed.
Print Assumptions C14_levels.

(* LEXICOGRAPHIC RANKING: for 0/1 vectors x, y — if at the highest level where their level
   scores differ x is better, then the single objective vector ranks x strictly above y.
   (level_score spelled out: sum over the columns of level k of sign_j * x_j) *)
Theorem C14_lex :
  forall (n : nat) (dpv u x y : list Z) (k : key),
    List.length dpv = n -> List.length u = n -> List.length x = n -> List.length y = n ->
    Forall (fun v => v = 0 \/ v = 1) x -> Forall (fun v => v = 0 \/ v = 1) y ->
    level_score n [dpv; u] k x > level_score n [dpv; u] k y ->
    (forall k' : key, ((fst k < fst k')%nat \/ (fst k = fst k' /\ snd k < snd k')) ->
                      level_score n [dpv; u] k' x = level_score n [dpv; u] k' y) ->
    zsum (map (fun p => fst p * snd p) (combine (objective dpv u) x)) >
    zsum (map (fun p => fst p * snd p) (combine (objective dpv u) y)).
Proof. exact objective_lex. Qed.
Print Assumptions C14_lex.

(* the same for ANY priority array (any number of rows), which is what C13's dominance buys *)
Theorem C14_lex_general :
  forall (n : nat) (M : list (list Z)) (x y : list Z) (k : key),
    rect n M -> M <> [] -> List.length x = n -> List.length y = n -> is01 x -> is01 y ->
    level_score n M k x > level_score n M k y ->
    (forall k', key_lt k k' -> level_score n M k' x = level_score n M k' y) ->
    dot (shadow2d M) x > dot (shadow2d M) y.
Proof. exact shadow_lex. Qed.
Print Assumptions C14_lex_general.

(* hence an optimal feasible point is never beaten lexicographically by a feasible point *)
Theorem C14_optimum :
  forall (n : nat) (M : list (list Z)) (feasible : list Z -> Prop) (x : list Z),
    rect n M -> M <> [] ->
    (forall z, feasible z -> List.length z = n /\ is01 z) ->
    feasible x -> (forall y, feasible y -> dot (shadow2d M) y <= dot (shadow2d M) x) ->
    forall y k, feasible y ->
      level_score n M k y > level_score n M k x ->
      ~ (forall k', key_lt k k' -> level_score n M k' y = level_score n M k' x).
Proof. exact shadow_optimum_lex. Qed.
Print Assumptions C14_optimum.

(* DEFAULT COST: the non-default branch (default priority -2, not prioritised by the user)
   costs more than ANY NUMBER of plain selections (columns with default priority -1) *)
Theorem C14_default_cost :
  forall (n : nat) (dpv u : list Z) (j : nat),
    List.length dpv = n -> List.length u = n -> (j < n)%nat ->
    nth j u 0 = 0 -> nth j dpv 0 = -2 ->
    Z.abs (nth j (objective dpv u) 0) >
    zsum (map (fun j' => if (nth j' u 0 =? 0) && (nth j' dpv 0 =? -1) then 1 else 0) (seq 0 n)).
Proof. exact objective_default_cost. Qed.
Print Assumptions C14_default_cost.

(* more generally every column outweighs the NUMBER of columns of all lower levels *)
Theorem C14_level_cost :
  forall (n : nat) (M : list (list Z)) (k : nat) (kk : key),
    rect n M -> (k < n)%nat -> key_of (column M k) = Some kk ->
    Z.abs (nth k (shadow2d M) 0) >
    zsum (map (fun j => match key_of (column M j) with Some kj => if key_ltb kj kk then 1 else 0 | None => 0 end) (seq 0 n)).
Proof. exact shadow_cost_count. Qed.
Print Assumptions C14_level_cost.

(* STINGINESS: nothing prioritised, no defaults: the objective is minus the number of ones *)
Theorem C14_stingy :
  forall (n : nat) (dpv u x : list Z),
    List.length dpv = n -> List.length u = n -> List.length x = n ->
    Forall (fun v => v = 0) u -> Forall (fun v => v = -1) dpv ->
    dot (objective dpv u) x = - zsum x.
Proof. exact objective_stingy. Qed.
Print Assumptions C14_stingy.

(* STRUCTURE 1: the entry of default_prio_vector for a column is the TAG of the column's id: the
   smallest `prio` carried by ANY node of the configurator tree with that id, and -1 when no
   such node is tagged.  So it is -2 exactly for the ids of tagged (non-default) branches, even
   when an identical untagged proposition occurs elsewhere in the model (the code after fix
   8d06f82; before it the tag could be lost, see DESIGN/known findings). *)
Theorem C14_dpv :
  forall (p : prop) (j : nat) (c : ident * (Z * Z)),
    nth_error (columns true p) j = Some c ->
    nth j (default_prio_vector p) 0 = tag_of p (fst c).
Proof. exact default_prio_vector_spec. Qed.
Print Assumptions C14_dpv.

Theorem C14_tag :
  forall (p : prop) (i : ident),
    tag_of p i <= -1 /\
    (forall q, In q (tree_nodes p) -> id_of q = i ->
               tag_of p i <= (match m_prio (meta_of q) with Some z => z | None => -1 end)) /\
    (tag_of p i = -1 \/
     exists q, In q (tree_nodes p) /\ id_of q = i /\
               tag_of p i = (match m_prio (meta_of q) with Some z => z | None => -1 end)).
Proof. exact tag_of_spec. Qed.
Print Assumptions C14_tag.

(* STRUCTURE 2: cc.Any never tags itself; when its (first) default is one of several
   alternatives its children are the default alternative plus ONE fresh Any node tagged -2
   collecting exactly the other alternatives; otherwise it is a plain Any (for EVERY id
   generator).  cc.Xor with a default builds exactly this cc.Any in place of its AtLeast(1,..). *)
Theorem C14_any_structure :
  forall (genid : genid_t) (args : list prop) (default : list (ident * (Z * Z))) (idarg : option (ident * (Z * Z))),
    let r := cc_any genid args default idarg in
    prio_of r = -1 /\
    match default with
    | [] => children r = py_sorted id_of args
    | (d, _) :: _ =>
        let comp := filter (fun x => negb (is_default d x)) args in
        if ((1 <? List.length args) && negb (List.length comp =? List.length args) && negb (List.length comp =? 0))%nat
        then exists inner,
               children r = py_sorted id_of (filter (is_default d) args ++ [inner]) /\
               prio_of inner = -2 /\ children inner = py_sorted id_of comp /\
               value_of inner = 1 /\ sign_of inner = 1
        else children r = py_sorted id_of args
    end.
Proof. exact cc_any_structure. Qed.
Print Assumptions C14_any_structure.

(* "a feasible prioritised item is selected / a default is chosen when nothing overrides it":
   the unique column of the highest level takes its preferred value (1 for a positive sign,
   0 for a negative one) in EVERY optimum of the objective, if some feasible point does *)
Theorem C14_top_column :
  forall (n : nat) (M : list (list Z)) (feasible : list Z -> Prop) (x : list Z) (j : nat) (kj : key),
    rect n M -> M <> [] -> (j < n)%nat ->
    (forall z, feasible z -> List.length z = n /\ is01 z) ->
    key_of (column M j) = Some kj ->
    (forall j' kj', (j' < n)%nat -> key_of (column M j') = Some kj' -> j' <> j -> key_lt kj' kj) ->
    feasible x -> (forall y, feasible y -> dot (shadow2d M) y <= dot (shadow2d M) x) ->
    (sgn_of (column M j) = 1 -> (exists y, feasible y /\ nth j y 0 = 1) -> nth j x 0 = 1) /\
    (sgn_of (column M j) = -1 -> (exists y, feasible y /\ nth j y 0 = 0) -> nth j x 0 = 0).
Proof. exact shadow_top_column. Qed.
Print Assumptions C14_top_column.

(* STRUCTURE 3: restructuring around the default does not change what the rule MEANS (for every
   id generator and every assignment under which no alternative evaluates below 0 — boolean
   items, 0/1 sub-propositions): cc.Any is "at least one alternative", cc.Xor "exactly one" *)
Theorem C14_any_meaning :
  forall (genid : genid_t) (env : ident -> Z) (args : list prop) (default : list (ident * (Z * Z))) (idarg : option (ident * (Z * Z))),
    Forall (fun a => 0 <= eval env a) args ->
    eval env (cc_any genid args default idarg) = if 1 <=? zsum (map (eval env) args) then 1 else 0.
Proof. exact cc_any_eval. Qed.
Print Assumptions C14_any_meaning.

Theorem C14_xor_meaning :
  forall (genid : genid_t) (env : ident -> Z) (args : list prop) (default : list (ident * (Z * Z))) (idarg : option (ident * (Z * Z))),
    Forall (fun a => 0 <= eval env a) args ->
    eval env (cc_xor genid args default idarg) =
    if 2 <=? (if 1 <=? zsum (map (eval env) args) then 1 else 0) + (if -1 <=? - zsum (map (eval env) args) then 1 else 0) then 1 else 0.
Proof. exact cc_xor_eval. Qed.
Print Assumptions C14_xor_meaning.

(* Non-vacuity: 7 columns; the user prioritises column 5 (+2), column 2 (-1) and column 6 (+1,
   a tie in magnitude with column 2); column 3 is a non-default branch (-2).
   x selects the +2 item and the non-default branch, y neither: x wins at the top level. *)
Definition c14_dpv : list Z := [-1; -1; -1; -2; -1; -1; -1].
Definition c14_u   : list Z := [ 0;  0; -1;  0;  0;  2;  1].
Definition c14_x   : list Z := [ 1;  0;  0;  1;  0;  1;  0].
Definition c14_y   : list Z := [ 0;  0;  0;  0;  1;  0;  1].
Example C14_nonvacuous :
  objective c14_dpv c14_u = [-1; -1; -8; -4; -1; 24; 8] /\
  level_score 7 [c14_dpv; c14_u] (1%nat, 2) c14_x = 1 /\ level_score 7 [c14_dpv; c14_u] (1%nat, 2) c14_y = 0 /\
  level_score 7 [c14_dpv; c14_u] (1%nat, 1) c14_x = 0 /\ level_score 7 [c14_dpv; c14_u] (1%nat, 1) c14_y = 1 /\
  level_score 7 [c14_dpv; c14_u] (0%nat, 2) c14_x = -1 /\
  dot (objective c14_dpv c14_u) c14_x = 19 /\ dot (objective c14_dpv c14_u) c14_y = 7 /\
  Z.abs (nth 3 (objective c14_dpv c14_u) 0) = 4 /\
  zsum (map (fun j' => if (nth j' c14_u 0 =? 0) && (nth j' c14_dpv 0 =? -1) then 1 else 0) (seq 0 7)) = 3 /\
  (let g : genid_t := fun ids v s => "G"%string in
   let r := cc_any g [Var "a"%string 0 1; Var "b"%string 0 1; Var "c"%string 0 1] [("a"%string, (0, 1))] (Some ("A"%string, (0, 1))) in
   map id_of (children r) = ["G"; "a"]%string /\ map prio_of (children r) = [-2; -1] /\
   map id_of (flat_map children (children r)) = ["b"; "c"]%string).
Proof. vm_compute. repeat split; reflexivity. Qed.
Print Assumptions C14_nonvacuous.
