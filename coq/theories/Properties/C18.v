(* C18 — Extending a configurator equals building it with the extra rule.
   Only statements, `exact`, non-vacuity examples and Print Assumptions live here.
   Model side: Config.stingy_add / stingy_adds (StingyConfigurator.add), Cons.c_stingy (the
   constructor: All over the rules with id).  Every structural observable (children, order,
   value, ids, generated flags, class tags, defaults, prio tags) is part of the `prop` term, so
   equality of terms is "indistinguishable": default priorities, polyhedron and solutions are
   functions of the term (the aliasing / purity aspect — "leaves the original unchanged" — is
   property C09; in this functional model the original is a value and cannot change). *)
Require Import Puan.Base Puan.Plog Puan.Sem Puan.Cons Puan.Config Puan.ConfigFacts Puan.ConfigAll.
Open Scope string_scope.

(* one addition: the result of add() on the configurator built from `args` is the configurator
   built directly from the same arguments followed by the new rule, under the old id *)
Theorem C18_add :
  forall (genid : genid_t) (o : oid_t) (args : list prop) (r : prop),
    NoDup (map id_of (args ++ [r])) ->
    stingy_add genid (c_stingy genid o args) r =
    Some (c_stingy genid (Some (id_of (c_stingy genid o args), (0, 1))) (args ++ [r])).
Proof. exact add_is_direct. Qed.
Print Assumptions C18_add.

(* any sequence of additions *)
Theorem C18_seq :
  forall (genid : genid_t) (rs : list prop) (o : oid_t) (args : list prop),
    rs <> [] -> NoDup (map id_of (args ++ rs)) ->
    stingy_adds genid (c_stingy genid o args) rs =
    Some (c_stingy genid (Some (id_of (c_stingy genid o args), (0, 1))) (args ++ rs)).
Proof. exact adds_is_direct. Qed.
Print Assumptions C18_seq.

(* add() refuses exactly the rules whose id names an existing top-level rule or item *)
Theorem C18_reject :
  forall (genid : genid_t) (cfg r : prop), is_var cfg = false ->
    (stingy_add genid cfg r = None <-> In (id_of r) (map id_of (children cfg))).
Proof. exact add_rejects. Qed.
Print Assumptions C18_reject.

(* the fact behind C18_add: the constructor sorts its arguments stably, and sorting an already
   sorted prefix plus one element equals sorting the original list plus that element *)
Theorem C18_sorted_prefix :
  forall (l : list prop) (r : prop), py_sorted id_of (py_sorted id_of l ++ [r]) = py_sorted id_of (l ++ [r]).
Proof. exact (SortFacts.sorted_prefix_snoc id_of). Qed.
Print Assumptions C18_sorted_prefix.

(* Non-vacuity: configurator over rules "q" < "z" given in the order z, q; adding rule "m". *)
Definition c18_g : genid_t := fun ids v s => "G".
Definition c18_z : prop := Node (mk KAny) "z" false 0 1 1 1 [Var "a" 0 1; Var "b" 0 1].
Definition c18_q : prop := Node (mk KAtMost) "q" false 0 1 (-1) (-1) [Var "a" 0 1; Var "c" 0 1].
Definition c18_m : prop := Node (mk KAll) "m" false 0 1 1 1 [Var "c" 0 1].
Example C18_nonvacuous :
  NoDup (map id_of ([c18_z; c18_q] ++ [c18_m])) /\
  map id_of (children (c_stingy c18_g (Some ("cfg", (0, 1))) [c18_z; c18_q])) = ["q"; "z"] /\
  option_map (fun c => (map id_of (children c), value_of c)) (stingy_add c18_g (c_stingy c18_g (Some ("cfg", (0, 1))) [c18_z; c18_q]) c18_m)
    = Some (["m"; "q"; "z"], 3) /\
  stingy_add c18_g (c_stingy c18_g (Some ("cfg", (0, 1))) [c18_z; c18_q]) c18_q = None.
Proof.
  split; [|vm_compute; repeat split; reflexivity].
  cbn. repeat constructor; cbn; intuition discriminate.
Qed.
Print Assumptions C18_nonvacuous.

(* the same with the weakest guard — exactly what add() itself checks (since fix D16 the configurator counts every rule it
   was given, so the OLD rules need not have pairwise distinct ids): each new rule's id names none of the rules present
   when it is added *)
Theorem C18_add_every :
  forall (genid : genid_t) (o : oid_t) (args : list prop) (r : prop),
    ~ In (id_of r) (map id_of args) ->
    stingy_add genid (c_stingy genid o args) r =
    Some (c_stingy genid (Some (id_of (c_stingy genid o args), (0, 1))) (args ++ [r])).
Proof. exact add_is_direct_all. Qed.
Print Assumptions C18_add_every.

Theorem C18_seq_every :
  forall (genid : genid_t) (rs : list prop) (o : oid_t) (args : list prop),
    rs <> [] -> each_new args rs ->
    stingy_adds genid (c_stingy genid o args) rs =
    Some (c_stingy genid (Some (id_of (c_stingy genid o args), (0, 1))) (args ++ rs)).
Proof. exact adds_is_direct_all. Qed.
Print Assumptions C18_seq_every.

(* ... and a chain in which some rule is not new is refused as a whole: the two theorems decide every chain *)
Theorem C18_seq_refused :
  forall (genid : genid_t) (rs : list prop) (o : oid_t) (args : list prop),
    ~ each_new args rs -> stingy_adds genid (c_stingy genid o args) rs = None.
Proof. exact adds_refused_all. Qed.
Print Assumptions C18_seq_refused.

(* non-vacuity: the old rules z and z' share the id "z" (not NoDup, so C18_seq does not apply); adding m then q *)
Definition c18_z2 : prop := Node (mk KAll) "z" false 0 1 1 2 [Var "a" 0 1; Var "c" 0 1].
Example C18_every_nonvacuous :
  ~ NoDup (map id_of ([c18_z; c18_z2] ++ [c18_m; c18_q])) /\ each_new [c18_z; c18_z2] [c18_m; c18_q] /\
  option_map (fun c => (map id_of (children c), value_of c)) (stingy_adds c18_g (c_stingy c18_g None [c18_z; c18_z2]) [c18_m; c18_q])
    = Some (["m"; "q"; "z"; "z"], 4) /\
  ~ each_new [c18_z; c18_z2] [c18_m; c18_z] /\ stingy_adds c18_g (c_stingy c18_g None [c18_z; c18_z2]) [c18_m; c18_z] = None.
Proof.
  split. { cbn. intros H. inversion H as [|? ? Hn _]; subst. apply Hn. cbn. auto. }
  split. { cbn. repeat split; intuition discriminate. }
  split; [vm_compute; reflexivity|]. split; [|vm_compute; reflexivity].
  cbn. intros (_ & H & _). apply H. auto.
Qed.
Print Assumptions C18_every_nonvacuous.
