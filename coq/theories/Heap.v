(* Heap.v — C09: the one piece of mutable state of puan.logic.plog, and the (former) process-wide
   cache of the configurator.  Executable model only; proofs are in HeapFacts.v.

   What is mutable in /repo:  AtLeast.assume (puan/logic/plog/__init__.py, `if self.id in
   new_variable_bounds: self.variable = puan.variable(id=self.id, bounds=...)`) ASSIGNS the field
   `variable` of the object it is called on (and, recursively, of every compound object it visits).
   Nothing else in the anchored code writes to an existing object: `propositions`, `value`, `sign`
   are only written inside constructors (cc.Xor.__init__ replaces an element of the list it has
   just built itself; negate() writes to the fresh object it has just constructed).

   Model.  Every compound OCCURRENCE of a labelled tree carries an object label (the harness maps
   Python id() to small naturals while it keeps the objects alive): equal labels = same Python
   object.  The own bounds of a compound object are NOT in the tree but in a store
   σ : label -> bounds, the current value of `obj.variable.bounds`.  Leaves are immutable values
   (variable.assume returns a new variable and never writes).  *)
Require Import Puan.Base Puan.Plog.

Inductive lprop :=
| LVar (i : ident) (lo hi : Z)
| LNode (l : nat) (m : meta) (i : ident) (g : bool) (s v : Z) (ch : list lprop).

Section LInd.
  Variable P : lprop -> Prop.
  Hypothesis HV : forall i lo hi, P (LVar i lo hi).
  Hypothesis HN : forall l m i g s v ch, Forall P ch -> P (LNode l m i g s v ch).
  Fixpoint lprop_ind' (p : lprop) : P p :=
    match p with
    | LVar i lo hi => HV i lo hi
    | LNode l m i g s v ch =>
        HN l m i g s v ch
          ((fix go (k : list lprop) : Forall P k :=
              match k with [] => Forall_nil _ | x :: xs => Forall_cons _ (lprop_ind' x) (go xs) end) ch)
    end.
End LInd.

Definition store := nat -> Z * Z.
Definition upd (σ : store) (l : nat) (b : Z * Z) : store := fun k => if Nat.eqb k l then b else σ k.
(* the store described by a finite table (initial state printed by the harness); objects that
   were never touched have the constructor's default (0,1) *)
Definition store_of (t : list (nat * (Z * Z))) : store :=
  fun k => match find (fun e => Nat.eqb (fst e) k) t with Some e => snd e | None => (0, 1) end.

(* what any reader of the object graph sees at this moment *)
Fixpoint resolve (σ : store) (p : lprop) : prop :=
  match p with
  | LVar i lo hi => Var i lo hi
  | LNode l m i g s v ch => Node m i g (fst (σ l)) (snd (σ l)) s v (map (resolve σ) ch)
  end.

(* every compound occurrence: (object label, id) *)
Fixpoint clabels (p : lprop) : list (nat * ident) :=
  match p with
  | LVar _ _ _ => []
  | LNode l _ i _ _ _ ch => (l, i) :: flat_map clabels ch
  end.

(* left-to-right threading of the store through a list of calls (Python: list(map(f, xs))) *)
Section Thread.
  Context {A B : Type} (f : A -> store -> store * B).
  Fixpoint thread (xs : list A) (σ : store) : store * list B :=
    match xs with
    | [] => (σ, [])
    | x :: r => let '(σ1, y) := f x σ in let '(σ2, ys) := thread r σ1 in (σ2, y :: ys)
    end.
End Thread.

(* AtLeast.assume, statement by statement:
     if self.id in d: self.variable = variable(self.id, d[self.id])        -- the assignment
     if self.bounds.constant is not None: return self.variable             -- children NOT visited
     assumed = [c.assume(d) for c in self.propositions]                    -- left to right
     return AtLeast(value, keep-or-collapse(assumed), variable(id, computed bounds), sign)      *)
Fixpoint assume_h (d : interp) (p : lprop) (σ : store) {struct p} : store * prop :=
  match p with
  | LVar i lo hi => (σ, Var i (fst (dbounds d i lo hi)) (snd (dbounds d i lo hi)))
  | LNode l _ i _ s v ch =>
      let σ1 := match alookup i d with Some b => upd σ l b | None => σ end in
      let b := σ1 l in
      if fst b =? snd b then (σ1, Var i (fst b) (snd b))
      else
        let '(σ2, ach) := thread (assume_h d) ch σ1 in
        (σ2, Node m0 i false (b2z (v <=? sum_lo s ach)) (b2z (v <=? sum_hi s ach)) s v
                  (py_sorted id_of (map (keep_child d) ach)))
  end.

(* evaluate_propositions = dict(zip(ids, bounds)) of self.assume(d).flatten(); evaluate = [self.id] *)
Definition evaluate_propositions_h (d : interp) (p : lprop) (σ : store) : store * list (ident * (Z * Z)) :=
  let '(σ', r) := assume_h d p σ in (σ', map (fun q => (id_of q, (lo_of q, hi_of q))) (flatten r)).
Definition lid_of (p : lprop) : ident := match p with LVar i _ _ => i | LNode _ _ i _ _ _ _ => i end.
Definition evaluate_h (d : interp) (p : lprop) (σ : store) : store * option (Z * Z) :=
  let '(σ', e) := evaluate_propositions_h d p σ in (σ', alookup_last (lid_of p) e).

(* ---------- histories over an object pool ---------- *)
Inductive op :=
| OEvaluate (o : nat) (d : interp)
| OEvalProps (o : nat) (d : interp)
| OAssume (o : nat) (d : interp)
| OReduce (o : nat)
| ONegate (o : nat)
| OErrors (o : nat)
| OFlatten (o : nat)
| ODump (o : nat)                     (* to_json / to_b64 / to_text seen as a dump of the structure *)
| OEqBounds (o : nat)                 (* equation_bounds, is_tautology, is_contradiction *)
| OPoly (o : nat) (active : bool).    (* to_ge_polyhedron(active) *)

Inductive out :=
| RNoObject
| RBounds (b : option (Z * Z))
| RDict (e : list (ident * (Z * Z)))
| RProp (p : prop)
| RErrs (e : list err)
| RProps (l : list prop)
| REq (b : Z * Z) (taut contra : bool)
| RPoly (cols : list (ident * (Z * Z))) (rows : list (list Z)).

Record state := mkState { pool : list lprop; sto : store }.

Definition operand (o : op) : nat :=
  match o with
  | OEvaluate k _ | OEvalProps k _ | OAssume k _ | OReduce k | ONegate k | OErrors k | OFlatten k
  | ODump k | OEqBounds k | OPoly k _ => k
  end.
Definition op_dict (o : op) : option interp :=
  match o with
  | OEvaluate _ d | OEvalProps _ d | OAssume _ d => Some d
  | _ => None
  end.

Section WithGenid.
Variable genid : genid_t.

(* negate() on an object whose own bounds were overwritten by an earlier assume():
   `AtLeast(..., variable=None if self.generated_id else self.variable, ...)` — a node with a
   GENERATED id gets a brand-new variable (default bounds (0,1)), a node with an explicit id keeps
   its (possibly overwritten) variable.  On objects nobody has assumed on, generated ids always
   carry (0,1) and this is Plog.negate (HeapFacts.negate_m_fresh); Plog.negate itself keeps lo/hi
   in both cases, which is only distinguishable after the D2 leak.  Only the nodes negate()
   re-constructs are affected; children that are re-used keep what they have. *)
Definition nlo (g : bool) (lo : Z) : Z := if g then 0 else lo.
Definition nhi (g : bool) (hi : Z) : Z := if g then 1 else hi.
Fixpoint negate_m (p : prop) : prop :=
  match p with
  | Var _ _ _ => p
  | Node _ i g lo hi s v ch0 =>
      let pairs := py_sorted pkey (map (fun c => (c, negate_m c)) ch0) in
      let ch := map fst pairs in
      let ni := if g then genid (gen_key ch) (1 - v) (Some (- s)) else i in
      let ats := atoms ch in
      let ncomp := List.length (comps ch) in
      if (s =? 1) && negb (Nat.eqb ncomp 0) then
        let alo := Z.max (zsum (map lo_of ats)) (v - Z.of_nat ncomp - 1) in
        let ahi := zsum (map hi_of ats) in
        let top := Z.max (alo + 1) (Z.min ahi v) in
        let groups :=
          if Nat.eqb (List.length ats) 0 then []
          else map (fun t => negate_flat genid (Node m0 (genid (gen_key ats) t (Some 1)) true 0 1 1 t ats))
                   (zrange (alo + 1) (Z.to_nat (top - alo))) in
        let ch' := flat_map (fun pc => if is_var (fst pc) then [] else [snd pc]) pairs ++ groups in
        Node m0 ni g (nlo g lo) (nhi g hi) 1
             (1 - v + Z.of_nat (List.length ch') + (if Nat.eqb (List.length ats) 0 then 0 else alo)) ch'
      else Node m0 ni g (nlo g lo) (nhi g hi) (- s) (1 - v) ch
  end.

(* the queries that never assign: functions of what the object graph looks like now *)
Definition pure_out (o : op) (q : prop) : out :=
  match o with
  | OReduce _ => RProp (reduce q)
  | ONegate _ => RProp (negate_m q)
  | OErrors _ => RErrs (errors q)
  | OFlatten _ => RProps (flatten q)
  | ODump _ => RProp q
  | OEqBounds _ => REq (equation_bounds q) (is_tautology q) (is_contradiction q)
  | OPoly _ a => let '(c, r) := to_ge_polyhedron a q in RPoly c r
  | _ => RNoObject
  end.

Definition step (s : state) (o : op) : state * out :=
  match nth_error (pool s) (operand o) with
  | None => (s, RNoObject)
  | Some p =>
      match o with
      | OEvaluate _ d => let '(σ', r) := evaluate_h d p (sto s) in (mkState (pool s) σ', RBounds r)
      | OEvalProps _ d => let '(σ', r) := evaluate_propositions_h d p (sto s) in (mkState (pool s) σ', RDict r)
      | OAssume _ d => let '(σ', r) := assume_h d p (sto s) in (mkState (pool s) σ', RProp r)
      | _ => (s, pure_out o (resolve (sto s) p))
      end
  end.

(* a history: the outputs in call order, and the final state *)
Fixpoint run (s : state) (h : list op) : state * list out :=
  match h with
  | [] => (s, [])
  | o :: r => let '(s1, x) := step s o in let '(s2, xs) := run s1 r in (s2, x :: xs)
  end.

(* the reference the property compares with: the same call on a freshly built identical
   object, i.e. on the initial state *)
Definition fresh_outs (s0 : state) (h : list op) : list out := map (fun o => snd (step s0 o)) h.

(* states after every step (the harness compares the per-label bounds after each call) *)
Fixpoint trace (s : state) (h : list op) : list (state * out) :=
  match h with
  | [] => []
  | o :: r => let so := step s o in so :: trace (fst so) r
  end.

End WithGenid.

(* the guard of the partial theorem: the dictionary of the call names no compound id of the
   object it is applied to *)
Definition names_no_compound (pl : list lprop) (o : op) : Prop :=
  match op_dict o with
  | None => True
  | Some d => forall p, nth_error pl (operand o) = Some p ->
                forall l i, In (l, i) (clabels p) -> alookup i d = None
  end.
Definition names_no_compound_b (pl : list lprop) (o : op) : bool :=
  match op_dict o, nth_error pl (operand o) with
  | Some d, Some p => forallb (fun li => match alookup (snd li) d with None => true | Some _ => false end) (clabels p)
  | _, _ => true
  end.

(* the call with the dictionary entries naming a compound id of its operand removed (what the
   harness replays to decide whether an observed history dependence is explained by finding D2) *)
Definition strip_dict (p : lprop) (d : interp) : interp :=
  filter (fun e => negb (mem_str (fst e) (map snd (clabels p)))) d.
Definition strip_op (pl : list lprop) (o : op) : op :=
  match nth_error pl (operand o) with
  | None => o
  | Some p =>
      match o with
      | OEvaluate k d => OEvaluate k (strip_dict p d)
      | OEvalProps k d => OEvalProps k (strip_dict p d)
      | OAssume k d => OAssume k (strip_dict p d)
      | _ => o
      end
  end.

(* labels are used consistently: a label always carries the same id (equal labels = same object) *)
Fixpoint consistent (ι : nat -> ident) (p : lprop) : Prop :=
  match p with
  | LVar _ _ _ => True
  | LNode l _ i _ _ _ ch => ι l = i /\ (fix go k := match k with [] => True | x :: xs => consistent ι x /\ go xs end) ch
  end.

(* ---------- the configurator half ---------- *)
(* StingyConfigurator.default_prios : dict(zip(ids of flatten(), getattr(p, "prio", -1)));
   ge_polyhedron = to_ge_polyhedron(True) + default_prio_vector = A.construct(default_prios) *)
Definition prio_of (p : prop) : Z := match m_prio (meta_of p) with Some z => z | None => -1 end.
(* (after fix 8d06f82) flatten() keeps ONE object per id/hash, and the non-default branch of a
   defaulted Any is tagged by a `prio` attribute only, so the tag is collected from EVERY
   occurrence in the tree:  prios[id] = min(-1, prio of every node carrying that id) *)
Fixpoint occurrences (p : prop) : list prop :=
  match p with
  | Var _ _ _ => [p]
  | Node _ _ _ _ _ _ _ ch => p :: flat_map occurrences ch
  end.
Definition prio_min (c : prop) (i : ident) : Z :=
  fold_right Z.min (-1) (map prio_of (filter (fun q => String.eqb (id_of q) i) (occurrences c))).
Definition default_prios (c : prop) : list (ident * Z) := map (fun q => (id_of q, prio_min c (id_of q))) (flatten c).
Record cpoly := mkCPoly { cp_cols : list (ident * (Z * Z)); cp_rows : list (list Z); cp_dpv : list Z }.
Definition config_polyhedron (c : prop) : cpoly :=
  let '(cols, rows) := to_ge_polyhedron true c in
  mkCPoly cols rows
          (map (fun col => match alookup_last (fst col) (default_prios c) with Some z => z | None => fst (snd col) end) cols).
Definition leafs (c : prop) : list prop := filter is_var (flatten c).

Inductive cop := CPoly (k : nat) | CLeafs (k : nat) | CPrios (k : nat).
Inductive cout := CNone | CRPoly (p : cpoly) | CRLeafs (l : list prop) | CRPrios (l : list (ident * Z)).

(* (a) the code after fix D3 (commit d878428): no cache; a query is a function of the
   configurator's own definition *)
Definition cstep (cfgs : list prop) (o : cop) : cout :=
  match o with
  | CPoly k => match nth_error cfgs k with Some c => CRPoly (config_polyhedron c) | None => CNone end
  | CLeafs k => match nth_error cfgs k with Some c => CRLeafs (leafs c) | None => CNone end
  | CPrios k => match nth_error cfgs k with Some c => CRPrios (default_prios c) | None => CNone end
  end.

(* (b) the code BEFORE the fix: @functools.lru_cache on ge_polyhedron and leafs keyed on `self`;
   a lookup hits when __hash__ and __eq__ agree, modelled by Plog.same_elt (hash keys with
   pyhash(-1) = pyhash(-2), Bounds hashed as lower+upper; __eq__ = id, equation bounds, value) *)
Record ccache := mkCache { k_poly : list (prop * cpoly); k_leafs : list (prop * list prop) }.
Definition cache_find {V} (c : prop) (t : list (prop * V)) : option V :=
  match find (fun e => same_elt (fst e) c) t with Some e => Some (snd e) | None => None end.
Definition cstep_cached (cfgs : list prop) (k : ccache) (o : cop) : ccache * cout :=
  match o with
  | CPoly n =>
      match nth_error cfgs n with
      | None => (k, CNone)
      | Some c => match cache_find c (k_poly k) with
                  | Some r => (k, CRPoly r)
                  | None => let r := config_polyhedron c in (mkCache (k_poly k ++ [(c, r)]) (k_leafs k), CRPoly r)
                  end
      end
  | CLeafs n =>
      match nth_error cfgs n with
      | None => (k, CNone)
      | Some c => match cache_find c (k_leafs k) with
                  | Some r => (k, CRLeafs r)
                  | None => let r := leafs c in (mkCache (k_poly k) (k_leafs k ++ [(c, r)]), CRLeafs r)
                  end
      end
  | CPrios n => (k, cstep cfgs o)
  end.
Fixpoint crun_cached (cfgs : list prop) (k : ccache) (h : list cop) : list cout :=
  match h with
  | [] => []
  | o :: r => let '(k1, x) := cstep_cached cfgs k o in x :: crun_cached cfgs k1 r
  end.
Definition crun (cfgs : list prop) (h : list cop) : list cout := map (cstep cfgs) h.
