(* Cons.v — executable model of the constructors of puan.logic.plog (AtLeast, AtMost, All, Any,
   Xor/ExactlyOne, XNor, Imply, Not) and puan.modules.configurator (Any, Xor, StingyConfigurator)
   as a function from constructor-call trees (`form`) to proposition trees.  No proofs here.
   Arguments are listed in the order the Python constructor chains them (non-str arguments in
   call order, then the str arguments turned into boolean variables); the constructor sorts
   them by id (stable). *)
Require Import Puan.Base Puan.Plog.

Definition oid_t := option (ident * (Z * Z)).     (* explicit id with the variable's bounds *)
Definition dflt_t := list (ident * (Z * Z)).      (* the `default` list of cc.Any / cc.Xor *)

Inductive form :=
| FLeaf (i : ident) (lo hi : Z)
| FAtLeast (o : oid_t) (v : Z) (s : option Z) (l : list form)
| FAtMost (o : oid_t) (v : Z) (l : list form)
| FAll (o : oid_t) (l : list form)
| FAny (o : oid_t) (l : list form)
| FXor (o : oid_t) (l : list form)
| FXNor (o : oid_t) (l : list form)
| FImply (o : oid_t) (a b : form)
| FNot (a : form)
| FCcAny (o : oid_t) (d : dflt_t) (l : list form)
| FCcXor (o : oid_t) (d : dflt_t) (l : list form)
| FStingy (o : oid_t) (l : list form).

Section Ind.
  Variable P : form -> Prop.
  Hypothesis HLeaf : forall i lo hi, P (FLeaf i lo hi).
  Hypothesis HAtLeast : forall o v s l, Forall P l -> P (FAtLeast o v s l).
  Hypothesis HAtMost : forall o v l, Forall P l -> P (FAtMost o v l).
  Hypothesis HAll : forall o l, Forall P l -> P (FAll o l).
  Hypothesis HAny : forall o l, Forall P l -> P (FAny o l).
  Hypothesis HXor : forall o l, Forall P l -> P (FXor o l).
  Hypothesis HXNor : forall o l, Forall P l -> P (FXNor o l).
  Hypothesis HImply : forall o a b, P a -> P b -> P (FImply o a b).
  Hypothesis HNot : forall a, P a -> P (FNot a).
  Hypothesis HCcAny : forall o d l, Forall P l -> P (FCcAny o d l).
  Hypothesis HCcXor : forall o d l, Forall P l -> P (FCcXor o d l).
  Hypothesis HStingy : forall o l, Forall P l -> P (FStingy o l).
  Fixpoint form_ind' (f : form) : P f :=
    let go := (fix go (l : list form) : Forall P l :=
                 match l with [] => Forall_nil _ | x :: xs => Forall_cons _ (form_ind' x) (go xs) end) in
    match f with
    | FLeaf i lo hi => HLeaf i lo hi
    | FAtLeast o v s l => HAtLeast o v s l (go l)
    | FAtMost o v l => HAtMost o v l (go l)
    | FAll o l => HAll o l (go l)
    | FAny o l => HAny o l (go l)
    | FXor o l => HXor o l (go l)
    | FXNor o l => HXNor o l (go l)
    | FImply o a b => HImply o a b (form_ind' a) (form_ind' b)
    | FNot a => HNot a (form_ind' a)
    | FCcAny o d l => HCcAny o d l (go l)
    | FCcXor o d l => HCcXor o d l (go l)
    | FStingy o l => HStingy o l (go l)
    end.
End Ind.

Section WithGenid.
Variable genid : genid_t.

Definition set_meta (m : meta) (p : prop) : prop :=
  match p with Var _ _ _ => p | Node _ i g lo hi s v ch => Node m i g lo hi s v ch end.
Definition with_default (c : cls) (d : dflt_t) : meta := mkMeta c None d 0.

(* the threshold of All.__init__: len(propositions) — every operand counts, repeated ones too (since fix D16; before
   it was len(set(propositions)) under the hash/eq model of DESIGN 3.3, which a repeated operand lowered).  The name is
   kept from that time. *)
Definition set_len (args : list prop) : Z := Z.of_nat (List.length args).

Definition c_atleast (o : oid_t) (v : Z) (s : option Z) (args : list prop) := mk_node genid (mk KAtLeast) v args o s.
Definition c_atmost (o : oid_t) (v : Z) (args : list prop) := mk_node genid (mk KAtMost) (- v) args o (Some (-1)).
Definition c_all_m (m : meta) (o : oid_t) (args : list prop) := mk_node genid m (set_len args) args o None.
Definition c_all := c_all_m (mk KAll).
Definition c_any_m (m : meta) (o : oid_t) (args : list prop) := mk_node genid m 1 args o None.
Definition c_any := c_any_m (mk KAny).
Definition c_xor_m (m : meta) (o : oid_t) (args : list prop) :=
  c_all_m m o [c_atleast None 1 None args; c_atmost None 1 args].
Definition c_xnor (o : oid_t) (args : list prop) :=
  c_any_m (mk KXNor) o [negate genid (c_atleast None 1 None args); negate genid (c_atmost None 1 args)].
(* Not / the condition of Imply: a bare variable is wrapped into All(.) first *)
Definition as_comp (p : prop) : prop := if is_var p then c_all None [p] else p.
Definition c_not (p : prop) : prop := negate genid (as_comp p).
Fixpoint index_of_id (i : ident) (l : list prop) (n : nat) : nat :=
  match l with [] => 0%nat | x :: xs => if String.eqb (id_of x) i then n else index_of_id i xs (S n) end.
Definition c_imply (o : oid_t) (cond cons : prop) : prop :=
  let nc := negate genid (as_comp cond) in
  let r := c_any_m (mk KImply) o [nc; cons] in
  set_meta (mkMeta KImply None [] (index_of_id (id_of nc) (children r) 0)) r.

(* configurator *)
Definition matches_default (d0 : ident) (x : prop) : bool := is_var x && String.eqb (id_of x) d0.
Definition c_ccany (o : oid_t) (d : dflt_t) (args : list prop) : prop :=
  let plain := c_any_m (with_default KCcAny d) o args in
  match d with
  | (d0, _) :: _ =>
      if (1 <? Z.of_nat (List.length args)) then
        let comp := filter (fun x => negb (matches_default d0 x)) args in
        if Nat.eqb (List.length comp) (List.length args) || Nat.eqb (List.length comp) 0 then plain
        else
          let inner := set_meta (mkMeta KAny (Some (-2)) [] 0) (c_any None comp) in
          c_any_m (with_default KCcAny d) o (filter (matches_default d0) args ++ [inner])
      else plain
  | [] => plain
  end.
Fixpoint replace_first_value1 (d : dflt_t) (l : list prop) : list prop :=
  match l with
  | [] => []
  | x :: xs => if (value_of x =? 1) && negb (is_var x)
               then c_ccany (Some (id_of x, (lo_of x, hi_of x))) d (children x) :: xs
               else x :: replace_first_value1 d xs
  end.
Definition c_ccxor (o : oid_t) (d : dflt_t) (args : list prop) : prop :=
  let base := c_xor_m (with_default KCcXor d) o args in
  match d with
  | [] => base
  | _ => match base with
         | Var _ _ _ => base
         | Node m i g lo hi s v ch => Node m i g lo hi s v (replace_first_value1 d ch)
         end
  end.
Definition c_stingy (o : oid_t) (args : list prop) := c_all_m (mk KStingy) o args.

Fixpoint build (f : form) : prop :=
  match f with
  | FLeaf i lo hi => Var i lo hi
  | FAtLeast o v s l => c_atleast o v s (map build l)
  | FAtMost o v l => c_atmost o v (map build l)
  | FAll o l => c_all o (map build l)
  | FAny o l => c_any o (map build l)
  | FXor o l => c_xor_m (mk KXor) o (map build l)
  | FXNor o l => c_xnor o (map build l)
  | FImply o a b => c_imply o (build a) (build b)
  | FNot a => c_not (build a)
  | FCcAny o d l => c_ccany o d (map build l)
  | FCcXor o d l => c_ccxor o d (map build l)
  | FStingy o l => c_stingy o (map build l)
  end.
End WithGenid.
