(* CorrPack.v — correspondence checkers for C17 (the packing logic of ge_polyhedron_config). *)
Require Import Puan.Base Puan.Plog Puan.Pack.

Definition field_eqb (a b : field) : bool :=
  match a, b with
  | FArr n r, FArr n' r' => Nat.eqb n n' && list_eqb (list_eqb Z.eqb) r r'
  | FVec v, FVec v' => list_eqb Z.eqb v v'
  | FVars l, FVars l' => list_eqb vdesc_eqb l l'
  | FDtype d, FDtype d' => dtype_eqb d d'
  | _, _ => false
  end.

(* input: the polyhedron handed to to_b64;  observed: (a) the list found inside the blob (the
   harness undoes base64/gzip/pickle with the LIBRARY functions), (b) the polyhedron from_b64 returned *)
Definition pack_case := (config * list field * config)%type.
Definition check_pack (c : pack_case) : bool :=
  let '(inp, fields, outp) := c in
  wf_config_b inp
  && list_eqb field_eqb (pack inp) fields
  && match unpack fields with Some r => config_eqb r outp | None => false end
  && match unpack (pack inp) with Some r => config_eqb r inp && config_eqb r outp | None => false end.

(* the constructor alone (default filling and the shape check): input fields, observed result
   (None = the implementation raised) *)
Definition ctor_case := (list field * option config)%type.
Definition check_ctor (c : ctor_case) : bool :=
  let '(fs, obs) := c in
  match unpack fs, obs with
  | Some r, Some o => config_eqb r o
  | None, None => true
  | _, _ => false
  end.
