(* ErrorsFacts.v — proofs for C10 about the model Errors.errors2 of AtLeast.errors(). *)
Require Import Puan.Base Puan.Plog Puan.Sem Puan.Errors Puan.ErrorsSpec Puan.AssumeFacts Puan.EncodeFacts.
From Coq Require Import ListDec.

(* ====================================================================================== *)
(* Part 0: generic list facts                                                              *)
(* ====================================================================================== *)
Section Dedup.
  Context {A : Type} (eqb : A -> A -> bool).
  Hypothesis eqb_eq : forall x y, eqb x y = true <-> x = y.

  Fixpoint dedupb (l : list A) : list A :=
    match l with [] => [] | x :: xs => if existsb (eqb x) xs then dedupb xs else x :: dedupb xs end.

  Lemma existsb_eqb_in x l : existsb (eqb x) l = true <-> In x l.
  Proof.
    rewrite existsb_exists. split.
    - intros (y & Hy & E). apply eqb_eq in E. subst. auto.
    - intros H. exists x. split; auto. apply eqb_eq. reflexivity.
  Qed.
  Lemma dedupb_in x l : In x (dedupb l) <-> In x l.
  Proof.
    induction l as [|y ys IH]; cbn [dedupb]; [tauto|].
    destruct (existsb (eqb y) ys) eqn:E.
    - rewrite IH. cbn [In]. split; auto. intros [<-|H]; auto. apply existsb_eqb_in. auto.
    - cbn [In]. rewrite IH. tauto.
  Qed.
  Lemma dedupb_nodup l : NoDup (dedupb l).
  Proof.
    induction l as [|y ys IH]; cbn [dedupb]; [constructor|].
    destruct (existsb (eqb y) ys) eqn:E; auto. constructor; auto.
    rewrite dedupb_in. intros H. apply existsb_eqb_in in H. congruence.
  Qed.
  Lemma dedupb_length_le l : (List.length (dedupb l) <= List.length l)%nat.
  Proof. induction l as [|y ys IH]; cbn [dedupb]; auto. destruct (existsb (eqb y) ys); cbn [List.length]; lia. Qed.
  Lemma dedupb_length_nodup l : List.length (dedupb l) = List.length l -> NoDup l.
  Proof.
    induction l as [|y ys IH]; cbn [dedupb]; [constructor|].
    pose proof (dedupb_length_le ys).
    destruct (existsb (eqb y) ys) eqn:E; cbn [List.length]; intros Hl; [lia|].
    constructor; [|apply IH; lia]. intros H1. apply existsb_eqb_in in H1. congruence.
  Qed.
  Lemma nodup_dedupb l : NoDup l -> dedupb l = l.
  Proof.
    induction 1 as [|y ys Hn Hd IH]; cbn [dedupb]; auto.
    destruct (existsb (eqb y) ys) eqn:E; [apply existsb_eqb_in in E; contradiction|]. rewrite IH. reflexivity.
  Qed.
End Dedup.

Lemma nodup_same_length {A} (l l' : list A) :
  NoDup l -> NoDup l' -> (forall x, In x l <-> In x l') -> List.length l = List.length l'.
Proof.
  intros H1 H2 H. apply Nat.le_antisymm; apply NoDup_incl_length; auto; intros x Hx; apply H; auto.
Qed.

Lemma nodup_map_inj {A B} (f : A -> B) l : NoDup (map f l) -> forall x y, In x l -> In y l -> f x = f y -> x = y.
Proof.
  induction l as [|a r IH]; cbn [map]; intros Hn x y Hx Hy E; [destruct Hx|].
  inversion Hn as [|? ? Hni Hnr]; subst.
  destruct Hx as [<-|Hx], Hy as [<-|Hy]; auto.
  - exfalso. apply Hni. rewrite E. apply in_map. auto.
  - exfalso. apply Hni. rewrite <- E. apply in_map. auto.
Qed.

(* THE COUNTING LEMMA: if a list has as many distinct elements as it has distinct keys, every
   key belongs to one element *)
Section Counting.
  Context {A B : Type} (eqa : A -> A -> bool) (eqb : B -> B -> bool) (f : A -> B).
  Hypothesis eqa_eq : forall x y, eqa x y = true <-> x = y.
  Hypothesis eqb_eq : forall x y, eqb x y = true <-> x = y.
  Lemma counting l :
    List.length (dedupb eqa l) = List.length (dedupb eqb (map f l)) ->
    forall x y, In x l -> In y l -> f x = f y -> x = y.
  Proof.
    intros Hlen x y Hx Hy E.
    set (D := dedupb eqa l) in *.
    assert (Hsame : List.length (dedupb eqb (map f l)) = List.length (dedupb eqb (map f D))).
    { apply nodup_same_length; try apply dedupb_nodup; auto.
      intros z. rewrite !dedupb_in by auto. rewrite !in_map_iff. unfold D.
      split; intros (w & <- & Hw); exists w; (split; [reflexivity|]).
      - apply dedupb_in; auto.
      - eapply dedupb_in; eauto. }
    assert (Hnd : NoDup (map f D)).
    { apply (dedupb_length_nodup eqb eqb_eq). rewrite map_length. congruence. }
    apply (nodup_map_inj f D Hnd); auto; unfold D; apply dedupb_in; auto.
  Qed.
End Counting.

Lemma dedup_str_dedupb l : dedup_str l = dedupb String.eqb l.
Proof. induction l as [|x xs IH]; cbn [dedup_str dedupb]; [reflexivity|]. unfold mem_str. rewrite IH. reflexivity. Qed.
Lemma dedup_hkey_dedupb l : dedup_hkey l = dedupb hkey_eqb l.
Proof. induction l as [|x xs IH]; cbn [dedup_hkey dedupb]; [reflexivity|]. rewrite IH. reflexivity. Qed.

Lemma nodup_app_intro {A} (a b : list A) : NoDup a -> NoDup b -> (forall x, In x a -> ~ In x b) -> NoDup (a ++ b).
Proof.
  induction 1 as [|x xs Hn Hd IH]; cbn [app]; auto. intros Hb Hdis. constructor.
  - intros H. apply in_app_or in H. destruct H as [H|H]; [contradiction|]. apply (Hdis x); cbn; auto.
  - apply IH; auto. intros y Hy. apply Hdis. cbn. auto.
Qed.
Lemma nodup_snoc {A} (a : list A) x : NoDup a -> ~ In x a -> NoDup (a ++ [x]).
Proof. intros. apply nodup_app_intro; auto. - repeat constructor; auto. - intros y Hy [<-|[]]. contradiction. Qed.
Lemma nodup_map_filter {A B} (f : A -> B) (p : A -> bool) l : NoDup (map f l) -> NoDup (map f (filter p l)).
Proof.
  induction l as [|x xs IH]; cbn [map filter]; auto. intros H. inversion H; subst.
  destruct (p x); cbn [map]; auto. constructor; auto. intros Hi. apply H2.
  apply in_map_iff in Hi. destruct Hi as (w & E & Hw). apply filter_In in Hw. rewrite <- E. apply in_map. tauto.
Qed.
Lemma nodup_map_comp {A B C} (f : A -> B) (g : B -> C) l : NoDup (map (fun x => g (f x)) l) -> NoDup (map f l).
Proof. intros H. rewrite <- map_map in H. apply NoDup_map_inv in H. exact H. Qed.

(* ====================================================================================== *)
(* Part 1: hash keys                                                                       *)
(* ====================================================================================== *)
Section HkeyInd.
  Variable P : hkey -> Prop.
  Hypothesis HV : forall i x, P (HVar i x).
  Hypothesis HN : forall i x s v ch, Forall P ch -> P (HNode i x s v ch).
  Fixpoint hkey_ind' (k : hkey) : P k :=
    match k with
    | HVar i x => HV i x
    | HNode i x s v ch =>
        HN i x s v ch ((fix go (l : list hkey) : Forall P l :=
                         match l with [] => Forall_nil _ | a :: r => Forall_cons _ (hkey_ind' a) (go r) end) ch)
    end.
End HkeyInd.

Lemma hkey_eqb_eq a : forall b, hkey_eqb a b = true <-> a = b.
Proof.
  induction a as [i x | i x s v ch IH] using hkey_ind'; intros [j y | j y s' v' ch']; cbn [hkey_eqb];
    try (split; [discriminate|congruence]).
  - rewrite andb_true_iff, String.eqb_eq, Z.eqb_eq. split; [intros [-> ->]; auto | intros [= -> ->]; auto].
  - rewrite !andb_true_iff, String.eqb_eq, !Z.eqb_eq.
    assert (Hl : (fix go (l l' : list hkey) : bool :=
                    match l, l' with [] , [] => true | p :: ps, q :: qs => hkey_eqb p q && go ps qs | _, _ => false end) ch ch' = true
                 <-> ch = ch').
    { clear -IH. revert ch'. induction ch as [|p ps IHp]; intros [|q qs]; try (split; [discriminate|congruence]); [tauto|].
      inversion IH; subst. rewrite andb_true_iff, IHp, H1 by auto. split; [intros [-> ->]; auto | intros [= -> ->]; auto]. }
    rewrite Hl. split; [intros [[[[-> ->] ->] ->] ->]; auto | intros [= -> -> -> -> ->]; auto].
Qed.

Definition hkey_id (k : hkey) : ident := match k with HVar i _ => i | HNode i _ _ _ _ => i end.
Lemma hkey_id_of p : hkey_id (hkey_of2 p) = id_of p.
Proof. destruct p; reflexivity. Qed.
Lemma hkey_is_var a b : hkey_of2 a = hkey_of2 b -> is_var a = is_var b.
Proof. destruct a, b; cbn; congruence. Qed.
Lemma hkey_child_ids a b : hkey_of2 a = hkey_of2 b -> map id_of (children a) = map id_of (children b).
Proof.
  destruct a as [|? ? ? ? ? ? ? ch], b as [|? ? ? ? ? ? ? ch']; cbn [hkey_of2 children]; try congruence; auto.
  intros [= _ _ _ _ H]. revert ch' H. induction ch as [|c cs IH]; intros [|d ds]; cbn [map]; try congruence.
  intros [= H1 H2]. f_equal; auto. rewrite <- !hkey_id_of. congruence.
Qed.
Lemma hkey_bhash a b : hkey_of2 a = hkey_of2 b -> bhash (lo_of a) (hi_of a) = bhash (lo_of b) (hi_of b).
Proof. destruct a, b; cbn; congruence. Qed.

(* ====================================================================================== *)
(* Part 2: flatten2 = the nodes of the tree up to set()-merging                            *)
(* ====================================================================================== *)
Lemma nodes_flat_raw p r : In r (nodes p) -> In r (flat_raw p).
Proof.
  induction p as [i lo hi | m i g lo hi s v ch IH] using prop_ind'; cbn [flat_raw nodes]; [auto|].
  intros [<-|H]; [left; reflexivity|]. right. apply in_flat_map in H. destruct H as (c & Hc & H).
  apply in_or_app. destruct (is_var c) eqn:E.
  - right. destruct c; [|discriminate]. cbn in H. destruct H as [<-|[]]. unfold atoms. apply filter_In. auto.
  - left. apply in_flat_map. exists c. split; auto. rewrite E. rewrite Forall_forall in IH. auto.
Qed.

Lemma hkey_eqb_refl k : hkey_eqb k k = true.
Proof. apply hkey_eqb_eq. reflexivity. Qed.
Lemma cls_eqb_refl c : cls_eqb c c = true.
Proof. destruct c; reflexivity. Qed.
Lemma bounds_eqb_refl b : bounds_eqb b b = true.
Proof. unfold bounds_eqb. rewrite !Z.eqb_refl. reflexivity. Qed.
Lemma pyeq2_refl a : pyeq2 a a = true.
Proof.
  destruct a; cbn [pyeq2]; [apply String.eqb_refl|].
  rewrite cls_eqb_refl, String.eqb_refl, bounds_eqb_refl, Z.eqb_refl. reflexivity.
Qed.
Lemma same_elt2_refl a : same_elt2 a a = true.
Proof. unfold same_elt2. rewrite hkey_eqb_refl, pyeq2_refl. reflexivity. Qed.
Lemma same_elt2_hkey a b : same_elt2 a b = true -> hkey_of2 a = hkey_of2 b.
Proof. unfold same_elt2. intros H. apply andb_true_iff in H. apply hkey_eqb_eq. tauto. Qed.

Lemma set_add2_rep x acc : exists y, In y (set_add2 x acc) /\ same_elt2 x y = true.
Proof.
  unfold set_add2. destruct (existsb (same_elt2 x) acc) eqn:E.
  - apply existsb_exists in E. exact E.
  - exists x. split; [apply in_or_app; right; left; reflexivity | apply same_elt2_refl].
Qed.
Lemma set_add2_keeps x acc y : In y acc -> In y (set_add2 x acc).
Proof. unfold set_add2. destruct (existsb (same_elt2 x) acc); auto. intros. apply in_or_app; auto. Qed.
Lemma fold_set2_keeps l : forall acc y, In y acc -> In y (fold_left (fun acc x => set_add2 x acc) l acc).
Proof. induction l as [|x xs IH]; cbn [fold_left]; intros; auto. apply IH. apply set_add2_keeps; auto. Qed.
Lemma fold_set2_rep l : forall acc x, In x l ->
  exists y, In y (fold_left (fun acc x => set_add2 x acc) l acc) /\ same_elt2 x y = true.
Proof.
  induction l as [|a r IH]; intros acc x Hx; [destruct Hx|]. cbn [fold_left]. destruct Hx as [<-|Hx]; [|apply IH; auto].
  destruct (set_add2_rep a acc) as (y & Hy & E). exists y. split; auto. apply fold_set2_keeps; auto.
Qed.
Lemma set_add2_in x acc y : In y (set_add2 x acc) -> In y acc \/ y = x.
Proof. unfold set_add2. destruct (existsb (same_elt2 x) acc); auto. intros H. apply in_app_or in H. destruct H as [H|[H|[]]]; auto. Qed.
Lemma fold_set2_in l : forall acc y, In y (fold_left (fun acc x => set_add2 x acc) l acc) -> In y acc \/ In y l.
Proof.
  induction l as [|x xs IH]; cbn [fold_left]; intros acc y H; [auto|].
  apply IH in H. destruct H as [H|H]; [|right; right; auto].
  apply set_add2_in in H. destruct H as [H| ->]; [auto|right; left; auto].
Qed.

Lemma flatten2_nodes p r : In r (flatten2 p) -> In r (nodes p).
Proof.
  unfold flatten2, py_set2. intros H. apply (Permutation_in _ (py_sorted_perm id_of _)) in H.
  apply fold_set2_in in H. destruct H as [[]|H]. apply flat_raw_nodes; auto.
Qed.
Lemma flatten2_rep p r : In r (nodes p) -> exists r', In r' (flatten2 p) /\ hkey_of2 r = hkey_of2 r'.
Proof.
  intros H. apply nodes_flat_raw in H. destruct (fold_set2_rep (flat_raw p) [] r H) as (y & Hy & E).
  exists y. split; [|apply same_elt2_hkey; auto].
  unfold flatten2, py_set2. apply (Permutation_in _ (Permutation_sym (py_sorted_perm id_of _))). exact Hy.
Qed.
Lemma flatten2_rep_comp p r : In r (nodes p) -> is_var r = false ->
  exists r', In r' (comps (flatten2 p)) /\ hkey_of2 r = hkey_of2 r'.
Proof.
  intros H Hv. destruct (flatten2_rep p r H) as (r' & Hr & E). exists r'. split; auto.
  unfold comps. apply filter_In. split; auto. rewrite <- (hkey_is_var _ _ E), Hv. reflexivity.
Qed.

(* ====================================================================================== *)
(* Part 3: what errors2 m = [] says                                                        *)
(* ====================================================================================== *)
Definition vhash_of (fl : list prop) : list hkey := map (fun q => HVar (id_of q) (bhash (lo_of q) (hi_of q))) fl.
Definition edges_of (cs : list prop) : list edge_t := flat_map (fun x => map (fun y => (id_of x, id_of y)) (children x)) cs.

Lemma four_checks (c1 c2 c3 c4 : bool) :
  (if c1 then [CIRCULAR] else []) ++ (if c2 then [AMBIVALENT] else []) ++
  (if c3 then [AMBIVALENT] else []) ++ (if c4 then [NON_UNIQUE] else []) = []
  <-> c1 = false /\ c2 = false /\ c3 = false /\ c4 = false.
Proof. destruct c1, c2, c3, c4; cbn; split; try discriminate; try tauto; intros (?&?&?&?); discriminate. Qed.

Lemma errors2_nil_iff p : errors2 p = [] <->
  has_cycle (dependencies p) = false /\
  List.length (dedup_hkey (vhash_of (flatten2 p))) = List.length (dedup_str (map id_of (flatten2 p))) /\
  List.length (dedup_hkey (map hkey_of2 (comps (flatten2 p)))) = List.length (dedup_str (map id_of (comps (flatten2 p)))) /\
  has_dup_edge (edges_of (comps (flatten2 p))) = false.
Proof.
  unfold errors2. cbv zeta. fold (vhash_of (flatten2 p)). fold (edges_of (comps (flatten2 p))).
  rewrite four_checks. rewrite !negb_false_iff, !Nat.eqb_eq. tauto.
Qed.

Lemma edge_eqb_eq a b : edge_eqb a b = true <-> a = b.
Proof.
  destruct a, b. unfold edge_eqb. cbn [fst snd]. rewrite andb_true_iff, !String.eqb_eq.
  split; [intros [-> ->]; auto | intros [= -> ->]; auto].
Qed.
Lemma has_dup_edge_nodup l : has_dup_edge l = false <-> NoDup l.
Proof.
  induction l as [|x xs IH]; cbn [has_dup_edge]; [split; auto; constructor|].
  rewrite orb_false_iff, IH. split.
  - intros [H1 H2]. constructor; auto. intros H. apply (existsb_eqb_in edge_eqb edge_eqb_eq) in H. congruence.
  - intros H. inversion H; subst. split; auto. destruct (existsb (edge_eqb x) xs) eqn:E; auto.
    apply (existsb_eqb_in edge_eqb edge_eqb_eq) in E. contradiction.
Qed.
Lemma nodup_app_l {A} (a b : list A) : NoDup (a ++ b) -> NoDup a.
Proof. induction a as [|x xs IH]; cbn [app]; [constructor|]. intros H. inversion H; subst. constructor; auto. intros Hi. apply H2. apply in_or_app. auto. Qed.
Lemma nodup_app_r {A} (a b : list A) : NoDup (a ++ b) -> NoDup b.
Proof. induction a as [|x xs IH]; cbn [app]; auto. intros H. inversion H; auto. Qed.
Lemma nodup_flat_map_in {A B} (f : A -> list B) l x : NoDup (flat_map f l) -> In x l -> NoDup (f x).
Proof.
  induction l as [|a r IH]; cbn [flat_map]; intros Hn Hx; [destruct Hx|].
  destruct Hx as [<-|Hx]; [eapply nodup_app_l; eauto | apply IH; auto; eapply nodup_app_r; eauto].
Qed.

Section Sound.
Variable m : prop.
Hypothesis He : errors2 m = [].

Lemma sound_bsum a b : In a (nodes m) -> In b (nodes m) -> id_of a = id_of b ->
  bhash (lo_of a) (hi_of a) = bhash (lo_of b) (hi_of b).
Proof.
  intros Ha Hb E. apply errors2_nil_iff in He. destruct He as (_ & H2 & _).
  destruct (flatten2_rep m a Ha) as (a' & Ha' & Ea). destruct (flatten2_rep m b Hb) as (b' & Hb' & Eb).
  rewrite (hkey_bhash _ _ Ea), (hkey_bhash _ _ Eb).
  rewrite dedup_hkey_dedupb, dedup_str_dedupb in H2.
  assert (Hm : map id_of (flatten2 m) = map hkey_id (vhash_of (flatten2 m))).
  { unfold vhash_of. rewrite map_map. reflexivity. }
  rewrite Hm in H2.
  pose proof (counting hkey_eqb String.eqb hkey_id hkey_eqb_eq String.eqb_eq _ H2
                (HVar (id_of a') (bhash (lo_of a') (hi_of a'))) (HVar (id_of b') (bhash (lo_of b') (hi_of b')))) as Hc.
  assert (Hid : id_of a' = id_of b').
  { rewrite <- (hkey_id_of a'), <- (hkey_id_of b'), <- Ea, <- Eb, !hkey_id_of. exact E. }
  assert (Hx : HVar (id_of a') (bhash (lo_of a') (hi_of a')) = HVar (id_of b') (bhash (lo_of b') (hi_of b'))).
  { apply Hc; [| |exact Hid]; unfold vhash_of; apply in_map_iff; eauto. }
  congruence.
Qed.

Lemma sound_hkey a b : In a (nodes m) -> In b (nodes m) -> is_var a = false -> is_var b = false ->
  id_of a = id_of b -> hkey_of2 a = hkey_of2 b.
Proof.
  intros Ha Hb Va Vb E. apply errors2_nil_iff in He. destruct He as (_ & _ & H3 & _).
  destruct (flatten2_rep_comp m a Ha Va) as (a' & Ha' & Ea). destruct (flatten2_rep_comp m b Hb Vb) as (b' & Hb' & Eb).
  rewrite Ea, Eb.
  rewrite dedup_hkey_dedupb, dedup_str_dedupb in H3.
  assert (Hm : map id_of (comps (flatten2 m)) = map hkey_id (map hkey_of2 (comps (flatten2 m)))).
  { rewrite map_map. apply map_ext. intros. rewrite hkey_id_of. reflexivity. }
  rewrite Hm in H3.
  apply (counting hkey_eqb String.eqb hkey_id hkey_eqb_eq String.eqb_eq _ H3); try (apply in_map; assumption).
  rewrite <- Ea, <- Eb, !hkey_id_of. exact E.
Qed.

Theorem sound_no_dup_child : no_dup_child m.
Proof.
  intros n Hn. destruct (is_var n) eqn:Vn; [destruct n; [constructor|discriminate]|].
  pose proof He as He'. apply errors2_nil_iff in He'. destruct He' as (_ & _ & _ & H4).
  destruct (flatten2_rep_comp m n Hn Vn) as (n' & Hn' & En).
  rewrite (hkey_child_ids _ _ En).
  apply has_dup_edge_nodup in H4. unfold edges_of in H4.
  pose proof (nodup_flat_map_in _ _ n' H4 Hn') as Hnd. cbv beta in Hnd.
  apply (nodup_map_comp id_of (fun b => (id_of n', b))). exact Hnd.
Qed.

Lemma hkey_erase : no_bounds_hash_collision m -> no_value_hash_collision m ->
  forall a, In a (nodes m) -> forall b, In b (nodes m) -> hkey_of2 a = hkey_of2 b -> erase a = erase b.
Proof.
  intros HB HV. induction a as [i lo hi | mm i g lo hi s v ch IH] using prop_ind';
    intros Ha [j lo' hi' | mm' j g' lo' hi' s' v' ch'] Hb E; cbn [hkey_of2] in E; try discriminate.
  - injection E as -> Hs. destruct (HB _ _ Ha Hb eq_refl Hs) as [H1 H2]. cbn in H1, H2. subst. reflexivity.
  - injection E as -> Hs -> Hpv Hch.
    destruct (HB _ _ Ha Hb eq_refl Hs) as [H1 H2]. cbn [lo_of hi_of] in H1, H2. subst lo' hi'.
    assert (v = v') by (apply (HV _ _ Ha Hb eq_refl eq_refl eq_refl Hpv)). subst v'.
    cbn [erase]. f_equal.
    assert (Hin : forall c, In c ch -> In c (nodes m)) by (intros; eapply child_in_nodes; [exact Ha|assumption]).
    assert (Hin' : forall c, In c ch' -> In c (nodes m)) by (intros; eapply child_in_nodes; [exact Hb|assumption]).
    clear - IH Hch Hin Hin'. revert ch' Hch Hin'.
    induction ch as [|c cs IHc]; intros [|d ds]; cbn [map]; try discriminate; auto.
    intros [= H1 H2] Hin'. inversion IH; subst. f_equal.
    + apply H3; auto with datatypes.
    + apply IHc; auto with datatypes.
Qed.

Theorem sound_one_def : no_bounds_hash_collision m -> no_value_hash_collision m -> one_def m.
Proof.
  intros HB HV a b Ha Hb E. split.
  - apply HB; auto. apply sound_bsum; auto.
  - intros Va Vb. apply hkey_erase; auto. apply sound_hkey; auto.
Qed.

(* the bounds half needs the D4 guard only *)
Theorem sound_one_bounds : no_bounds_hash_collision m ->
  forall a b, In a (nodes m) -> In b (nodes m) -> id_of a = id_of b -> lo_of a = lo_of b /\ hi_of a = hi_of b.
Proof. intros HB a b Ha Hb E. apply HB; auto. apply sound_bsum; auto. Qed.

End Sound.

(* ====================================================================================== *)
(* Part 4: the fuelled closure decides cycles of the dependency dictionary                 *)
(* ====================================================================================== *)
Lemma mem_str_in k l : mem_str k l = true <-> In k l.
Proof. unfold mem_str. apply (existsb_eqb_in String.eqb String.eqb_eq). Qed.
Lemma dedup_str_in x l : In x (dedup_str l) <-> In x l.
Proof. rewrite dedup_str_dedupb. apply (dedupb_in String.eqb String.eqb_eq). Qed.
Lemma dedup_str_nodup l : NoDup (dedup_str l).
Proof. rewrite dedup_str_dedupb. apply (dedupb_nodup String.eqb String.eqb_eq). Qed.
Lemma union_str_in x a : forall b, In x (union_str a b) <-> In x a \/ In x b.
Proof.
  induction a as [|y ys IH]; intros b; cbn [union_str]; [cbn [In]; tauto|].
  destruct (mem_str y b) eqn:E; rewrite IH; cbn [In].
  - apply mem_str_in in E. split; [tauto|]. intros [[<-|H]|H]; auto.
  - rewrite in_app_iff. cbn [In]. tauto.
Qed.

Lemma not_nodup_split (l : list ident) : ~ NoDup l -> exists a l1 l2 l3, l = l1 ++ a :: l2 ++ a :: l3.
Proof.
  induction l as [|x xs IH]; intros H; [exfalso; apply H; constructor|].
  destruct (in_dec string_dec x xs) as [Hi|Hi].
  - apply in_split in Hi. destruct Hi as (l2 & l3 & ->). exists x, [], l2, l3. reflexivity.
  - destruct IH as (a & l1 & l2 & l3 & ->); [intros Hn; apply H; constructor; auto|].
    exists a, (x :: l1), l2, l3. reflexivity.
Qed.

Section Graph.
Variable g : list (ident * list ident).
Definition gedge (a b : ident) : Prop := In b (succs g a).
Inductive gpath : ident -> ident -> Prop :=
| gp_one a b : gedge a b -> gpath a b
| gp_step a b c : gedge a b -> gpath b c -> gpath a c.

(* consecutive elements are edges *)
Fixpoint consec (l : list ident) : Prop :=
  match l with
  | a :: r => match r with b :: _ => gedge a b | [] => True end /\ consec r
  | [] => True
  end.
Lemma consec_app_inv l1 : forall l2, consec (l1 ++ l2) -> consec l1 /\ consec l2.
Proof.
  induction l1 as [|a r IH]; intros l2 H; cbn [app] in *; [cbn; auto|].
  cbn [consec] in H. destruct H as [H1 H2]. apply IH in H2. destruct H2 as [H2 H3]. split; auto.
  cbn [consec]. split; auto. destruct r; cbn [app] in H1; auto.
Qed.
Lemma consec_sources l z : consec (l ++ [z]) -> forall x, In x l -> exists y, gedge x y.
Proof.
  induction l as [|a r IH]; intros H x Hx; [destruct Hx|]. cbn [app consec] in H. destruct H as [H1 H2].
  destruct Hx as [<-|Hx]; [|apply IH; auto]. destruct r; cbn [app] in H1; eauto.
Qed.

Lemma gedge_key a b : gedge a b -> In a (dedup_str (map fst g)).
Proof.
  unfold gedge, succs. destruct (alookup_last a g) eqn:E; [|intros []]. intros _.
  apply alookup_last_in in E. apply dedup_str_in. apply (in_map fst) in E. exact E.
Qed.

Lemma closure_mono n : forall front x, In x front -> In x (closure g n front).
Proof. induction n as [|n IH]; intros front x H; cbn [closure]; auto. apply IH. apply union_str_in. auto. Qed.
Lemma closure_reach n : forall front x l, In x front -> consec (x :: l) -> (List.length l <= n)%nat ->
  forall y, In y (x :: l) -> In y (closure g n front).
Proof.
  induction n as [|n IH]; intros front x l Hx Hc Hl y Hy.
  - destruct l; [|cbn in Hl; lia]. destruct Hy as [<-|[]]. exact Hx.
  - cbn [closure]. destruct l as [|x1 l'].
    + destruct Hy as [<-|[]]. apply closure_mono. apply union_str_in. auto.
    + cbn [consec] in Hc. destruct Hc as [He Hc].
      destruct Hy as [<-|Hy]; [apply closure_mono; apply union_str_in; auto|].
      apply (IH _ x1 l'); auto; [|cbn [List.length] in Hl; lia].
      apply union_str_in. left. apply in_flat_map. exists x. auto.
Qed.
Lemma closure_sound n : forall front y, In y (closure g n front) -> In y front \/ exists x, In x front /\ gpath x y.
Proof.
  induction n as [|n IH]; intros front y H; cbn [closure] in H; [auto|].
  apply IH in H. destruct H as [H|(x & Hx & Hp)].
  - apply union_str_in in H. destruct H as [H|H]; auto.
    apply in_flat_map in H. destruct H as (x & Hx & H). right. exists x. split; auto. apply gp_one. exact H.
  - apply union_str_in in Hx. destruct Hx as [Hx|Hx]; [|right; eauto].
    apply in_flat_map in Hx. destruct Hx as (x0 & Hx0 & Hx). right. exists x0. split; auto. eapply gp_step; eauto.
Qed.

Definition cyc (vs : list ident) : Prop := vs <> [] /\ consec (vs ++ [hd EmptyString vs]).

Lemma cyc_detect vs : cyc vs -> NoDup vs -> has_cycle g = true.
Proof.
  intros [Hne Hc] Hnd. destruct vs as [|v0 rest]; [congruence|]. cbn [hd] in Hc.
  pose proof (consec_sources _ _ Hc) as Hsrc.
  assert (Hlen : (List.length (v0 :: rest) <= List.length (dedup_str (map fst g)))%nat).
  { apply NoDup_incl_length; auto. intros x Hx. destruct (Hsrc x Hx) as (y & Hy). eapply gedge_key; eauto. }
  unfold has_cycle. apply existsb_exists. exists v0. split.
  - destruct (Hsrc v0) as (y & Hy); [left; auto|]. eapply gedge_key; eauto.
  - apply mem_str_in. cbn [app consec] in Hc. destruct Hc as [H1 H2].
    destruct rest as [|r1 rest']; cbn [app] in H1, H2.
    + apply closure_mono. exact H1.
    + apply (closure_reach _ _ r1 (rest' ++ [v0])); [exact H1|exact H2| |].
      * cbn [List.length] in Hlen. rewrite app_length. cbn [List.length]. lia.
      * right. apply in_or_app. right. left. reflexivity.
Qed.

Lemma cyc_shorten n : forall vs, (List.length vs <= n)%nat -> cyc vs -> exists vs', cyc vs' /\ NoDup vs'.
Proof.
  induction n as [|n IH]; intros vs Hl Hc.
  - destruct vs; [destruct Hc; congruence|cbn in Hl; lia].
  - destruct (NoDup_dec string_dec vs) as [Hn|Hn]; [eauto|].
    apply not_nodup_split in Hn. destruct Hn as (a & l1 & l2 & l3 & ->).
    apply (IH (a :: l2)).
    + rewrite app_length in Hl. cbn [List.length] in *. rewrite app_length in Hl. cbn [List.length] in Hl. lia.
    + split; [discriminate|]. cbn [hd]. destruct Hc as [_ Hc].
      replace ((l1 ++ a :: l2 ++ a :: l3) ++ [hd EmptyString (l1 ++ a :: l2 ++ a :: l3)])
        with (l1 ++ ((a :: l2) ++ [a]) ++ (l3 ++ [hd EmptyString (l1 ++ a :: l2 ++ a :: l3)])) in Hc.
      * apply consec_app_inv in Hc. destruct Hc as [_ Hc]. apply consec_app_inv in Hc. tauto.
      * rewrite <- !app_assoc. cbn [app]. rewrite <- !app_assoc. reflexivity.
Qed.

Lemma gpath_consec a b : gpath a b -> exists l, consec (a :: l ++ [b]).
Proof.
  induction 1 as [a b H | a b c H Hp (l & IH)].
  - exists []. cbn. auto.
  - exists (b :: l). cbn [app consec] in *. auto.
Qed.

Theorem gpath_cycle_detected k : gpath k k -> has_cycle g = true.
Proof.
  intros H. apply gpath_consec in H. destruct H as (l & Hl).
  assert (Hc : cyc (k :: l)) by (split; [discriminate|exact Hl]).
  destruct (cyc_shorten _ _ (Nat.le_refl _) Hc) as (vs' & Hc' & Hn). eapply cyc_detect; eauto.
Qed.
Theorem has_cycle_gpath : has_cycle g = true -> exists k, gpath k k.
Proof.
  unfold has_cycle. intros H. apply existsb_exists in H. destruct H as (k & _ & H). apply mem_str_in in H.
  apply closure_sound in H. exists k. destruct H as [H|(x & Hx & Hp)]; [apply gp_one; exact H|eapply gp_step; eauto].
Qed.
End Graph.

(* ---------- the dependency dictionary lists exactly the compounds' child ids ---------- *)
Definition dep_ids (ch : list prop) : list ident := map id_of (atoms ch) ++ map id_of (comps ch).
Lemma dep_ids_in ch b : In b (dep_ids ch) <-> In b (map id_of ch).
Proof.
  unfold dep_ids, atoms, comps. rewrite in_app_iff, !in_map_iff. split.
  - intros [(c & E & H)|(c & E & H)]; apply filter_In in H; exists c; tauto.
  - intros (c & E & H). destruct (is_var c) eqn:V; [left|right]; exists c; split; auto; apply filter_In; rewrite V; auto.
Qed.
Lemma deps_complete p n : In n (nodes p) -> is_var n = false -> In (id_of n, dep_ids (children n)) (dependencies p).
Proof.
  induction p as [i lo hi | m i g lo hi s v ch IH] using prop_ind'; cbn [nodes dependencies].
  - intros [<-|[]]. discriminate.
  - intros [<-|H] V; [left; reflexivity|]. right. apply in_flat_map in H. destruct H as (c & Hc & H).
    apply in_flat_map. exists c. split; auto. rewrite Forall_forall in IH.
    destruct (is_var c) eqn:Vc; [|apply IH; auto].
    destruct c; [|discriminate]. cbn in H. destruct H as [<-|[]]. discriminate.
Qed.
Lemma deps_sound p i l : In (i, l) (dependencies p) ->
  exists n, In n (nodes p) /\ is_var n = false /\ id_of n = i /\ l = dep_ids (children n).
Proof.
  induction p as [j lo hi | m j g lo hi s v ch IH] using prop_ind'; cbn [dependencies]; [intros []|].
  intros [[= <- <-]|H].
  - eexists. split; [apply in_nodes_self|]. cbn. auto.
  - apply in_flat_map in H. destruct H as (c & Hc & H). destruct (is_var c) eqn:Vc; [destruct H|].
    rewrite Forall_forall in IH. destruct (IH c Hc H) as (n & Hn & Hv & Hi & Hl).
    exists n. split; [eapply in_nodes_child; eauto|auto].
Qed.

Lemma gedge_id_edge m a b : gedge (dependencies m) a b -> id_edge m a b.
Proof.
  unfold gedge, succs. destruct (alookup_last a (dependencies m)) eqn:E; [|intros []]. intros H.
  apply alookup_last_in in E. apply deps_sound in E. destruct E as (n & Hn & Hv & Hi & ->).
  apply dep_ids_in in H. apply in_map_iff in H. destruct H as (c & Hc & Hin).
  exists n, c. auto.
Qed.
Lemma gpath_id_path m a b : gpath (dependencies m) a b -> id_path m a b.
Proof. induction 1; [apply id_path_one|eapply id_path_step]; eauto using gedge_id_edge. Qed.

Lemma id_edge_gedge m : errors2 m = [] -> forall a b, id_edge m a b -> gedge (dependencies m) a b.
Proof.
  intros He a b (n & c & Hn & Vn & Hi & Hc & Hb).
  pose proof (deps_complete m n Hn Vn) as Hd. rewrite Hi in Hd.
  destruct (alookup_last_some _ _ _ Hd) as (l' & El).
  unfold gedge, succs. rewrite El.
  apply alookup_last_in in El. apply deps_sound in El. destruct El as (n2 & Hn2 & Vn2 & Hi2 & ->).
  apply dep_ids_in. rewrite <- (hkey_child_ids n n2).
  - subst b. apply in_map. exact Hc.
  - apply (sound_hkey m He); auto. congruence.
Qed.
Lemma id_path_gpath m : errors2 m = [] -> forall a b, id_path m a b -> gpath (dependencies m) a b.
Proof. intros He a b H. induction H; [apply gp_one|eapply gp_step]; eauto using id_edge_gedge. Qed.

Theorem sound_acyclic m : errors2 m = [] -> acyclic m.
Proof.
  intros He i Hp. apply (id_path_gpath m He) in Hp. apply gpath_cycle_detected in Hp.
  apply errors2_nil_iff in He. destruct He as (H1 & _). congruence.
Qed.

Theorem sound_partial m : no_bounds_hash_collision m -> no_value_hash_collision m -> errors2 m = [] -> well_defined m.
Proof.
  intros HB HV He. split; [apply sound_acyclic; auto|]. split; [apply sound_no_dup_child; auto|apply sound_one_def; auto].
Qed.

(* ====================================================================================== *)
(* Part 5: the converse — models that only share identical sub-propositions are accepted   *)
(* ====================================================================================== *)
Lemma hkey_of_erase p : hkey_of2 (erase p) = hkey_of2 p.
Proof.
  induction p as [i lo hi | m i g lo hi s v ch IH] using prop_ind'; cbn [erase hkey_of2]; [reflexivity|].
  f_equal. rewrite map_map. apply map_ext_in. rewrite Forall_forall in IH. exact IH.
Qed.
Lemma lo_of_erase p : lo_of (erase p) = lo_of p. Proof. destruct p; reflexivity. Qed.
Lemma hi_of_erase p : hi_of (erase p) = hi_of p. Proof. destruct p; reflexivity. Qed.
Lemma equation_bounds_erase p : equation_bounds (erase p) = equation_bounds p.
Proof.
  destruct p as [|m i g lo hi s v ch]; [reflexivity|]. unfold equation_bounds, eq_mm. cbn [erase sign_of children value_of].
  rewrite !map_map.
  rewrite (map_ext (fun x => Z.min (lo_of (erase x)) (hi_of (erase x)) * s) (fun c => Z.min (lo_of c) (hi_of c) * s))
    by (intros; rewrite lo_of_erase, hi_of_erase; reflexivity).
  rewrite (map_ext (fun x => Z.max (lo_of (erase x)) (hi_of (erase x)) * s) (fun c => Z.max (lo_of c) (hi_of c) * s))
    by (intros; rewrite lo_of_erase, hi_of_erase; reflexivity).
  reflexivity.
Qed.
Lemma erase_same_elt2 a b : erase a = erase b -> m_cls (meta_of a) = m_cls (meta_of b) -> same_elt2 a b = true.
Proof.
  intros E C. unfold same_elt2. rewrite <- (hkey_of_erase a), <- (hkey_of_erase b), E, hkey_eqb_refl. cbn [andb].
  pose proof (equation_bounds_erase a) as Ea. pose proof (equation_bounds_erase b) as Eb. rewrite E in Ea.
  destruct a as [i lo hi|m i g lo hi s v ch], b as [j lo' hi'|m' j g' lo' hi' s' v' ch']; cbn [erase] in E; try discriminate.
  - injection E as -> _ _. cbn. apply String.eqb_refl.
  - cbn [meta_of] in C. cbn [pyeq2]. rewrite <- Ea, Eb, C, cls_eqb_refl, bounds_eqb_refl.
    injection E as -> _ _ _ -> _. rewrite String.eqb_refl, Z.eqb_refl. reflexivity.
Qed.

Lemma nodes_erase_len p : List.length (nodes (erase p)) = List.length (nodes p).
Proof.
  induction p as [i lo hi | m i g lo hi s v ch IH] using prop_ind'; cbn [erase nodes List.length]; [reflexivity|].
  f_equal. induction ch as [|c cs IHc]; cbn [map flat_map]; [reflexivity|].
  inversion IH; subst. rewrite !app_length. f_equal; auto.
Qed.
Lemma flat_map_len_le {A B} (f : A -> list B) l x : In x l -> (List.length (f x) <= List.length (flat_map f l))%nat.
Proof.
  induction l as [|a r IH]; intros H; [destruct H|]. cbn [flat_map]. rewrite app_length.
  destruct H as [<-|H]; [lia|]. apply IH in H. lia.
Qed.
Lemma child_smaller n c : In c (children n) -> (List.length (nodes c) < List.length (nodes n))%nat.
Proof.
  destruct n as [|m i g lo hi s v ch]; cbn [children nodes List.length]; [intros []|].
  intros H. apply (flat_map_len_le nodes) in H. lia.
Qed.

Section Share.
Variable m : prop.
Hypothesis Hs : shares_only_identical m.

Lemma share_size a b : In a (nodes m) -> In b (nodes m) -> id_of a = id_of b ->
  List.length (nodes a) = List.length (nodes b).
Proof.
  intros Ha Hb E. destruct Hs as [H _]. destruct (H a b Ha Hb E) as [He _].
  rewrite <- (nodes_erase_len a), <- (nodes_erase_len b), He. reflexivity.
Qed.
Lemma share_path_smaller a b : id_path m a b ->
  forall na nb, In na (nodes m) -> In nb (nodes m) -> id_of na = a -> id_of nb = b ->
    (List.length (nodes nb) < List.length (nodes na))%nat.
Proof.
  assert (Hedge : forall a b, id_edge m a b -> forall na nb, In na (nodes m) -> In nb (nodes m) -> id_of na = a -> id_of nb = b ->
            (List.length (nodes nb) < List.length (nodes na))%nat).
  { intros a0 b0 (n & c & Hn & Vn & Hi & Hc & Hb) na nb Hna Hnb Ea Eb.
    assert (Hcm : In c (nodes m)) by (eapply nodes_trans; [exact Hn|]; destruct n; [destruct Hc|]; eapply in_nodes_child; [exact Hc|apply in_nodes_self]).
    rewrite (share_size na n), (share_size nb c); auto; try congruence. apply child_smaller; auto. }
  induction 1 as [a b He | a b c He Hp IH]; intros na nb Hna Hnb Ea Eb.
  - eapply Hedge; eauto.
  - destruct He as (n & c0 & Hn & Vn & Hi & Hc & Hb).
    assert (Hcm : In c0 (nodes m)) by (eapply nodes_trans; [exact Hn|]; destruct n; [destruct Hc|]; eapply in_nodes_child; [exact Hc|apply in_nodes_self]).
    assert (H1 : (List.length (nodes c0) < List.length (nodes na))%nat).
    { apply (Hedge a b); auto. exists n, c0. auto. }
    assert (H2 := IH c0 nb Hcm Hnb Hb Eb). lia.
Qed.
(* ids along any root path are distinct: the id graph of such a model has no cycle *)
Theorem share_acyclic : acyclic m.
Proof.
  intros i Hp.
  assert (Hsrc : exists n, In n (nodes m) /\ id_of n = i).
  { inversion Hp as [a b (n & c & Hn & _ & Hi & _) | a b c (n & c0 & Hn & _ & Hi & _) _]; subst; eauto. }
  destruct Hsrc as (n & Hn & Hi). pose proof (share_path_smaller _ _ Hp n n Hn Hn Hi Hi). lia.
Qed.
(* a leaf and a compound never share an id *)
Theorem share_leaves_apart : leaves_apart m.
Proof.
  intros a b Ha Hb Va Vb E. destruct Hs as [H _]. destruct (H a b Ha Hb E) as [He _].
  destruct a, b; cbn in *; discriminate.
Qed.

Lemma share_same_elt a b : In a (nodes m) -> In b (nodes m) -> id_of a = id_of b -> same_elt2 a b = true.
Proof. intros Ha Hb E. destruct Hs as [H _]. destruct (H a b Ha Hb E). apply erase_same_elt2; auto. Qed.

Lemma share_fold_nodup l : (forall x, In x l -> In x (nodes m)) ->
  forall acc, (forall x, In x acc -> In x (nodes m)) -> NoDup (map id_of acc) ->
  NoDup (map id_of (fold_left (fun acc x => set_add2 x acc) l acc)).
Proof.
  induction l as [|x xs IH]; intros Hl acc Hacc Hn; cbn [fold_left]; auto.
  apply IH; [intros; apply Hl; right; auto| |]; unfold set_add2; destruct (existsb (same_elt2 x) acc) eqn:E; auto.
  - intros y Hy. apply in_app_or in Hy. destruct Hy as [Hy|[<-|[]]]; auto. apply Hl. left. reflexivity.
  - rewrite map_app. cbn [map]. apply nodup_snoc; auto. intros Hi. apply in_map_iff in Hi. destruct Hi as (y & Ey & Hy).
    assert (same_elt2 x y = true) by (apply share_same_elt; auto; apply Hl; left; reflexivity).
    assert (existsb (same_elt2 x) acc = true) by (apply existsb_exists; eauto). congruence.
Qed.
Lemma share_flatten_nodup : NoDup (map id_of (flatten2 m)).
Proof.
  unfold flatten2. eapply Permutation_NoDup; [apply Permutation_map; apply Permutation_sym; apply py_sorted_perm|].
  unfold py_set2. apply share_fold_nodup; [intros; apply flat_raw_nodes; auto|intros ? []|constructor].
Qed.

Lemma share_no_cycle : has_cycle (dependencies m) = false.
Proof.
  destruct (has_cycle (dependencies m)) eqn:E; auto. apply has_cycle_gpath in E. destruct E as (k & Hk).
  apply gpath_id_path in Hk. exfalso. exact (share_acyclic k Hk).
Qed.

Theorem share_accepted : errors2 m = [].
Proof.
  apply errors2_nil_iff. pose proof share_flatten_nodup as Hn.
  assert (Hnc : NoDup (map id_of (comps (flatten2 m)))) by (apply nodup_map_filter; exact Hn).
  split; [exact share_no_cycle|]. split; [|split].
  - rewrite dedup_hkey_dedupb, dedup_str_dedupb.
    rewrite (nodup_dedupb hkey_eqb hkey_eqb_eq), (nodup_dedupb String.eqb String.eqb_eq); auto.
    + unfold vhash_of. rewrite !map_length. reflexivity.
    + unfold vhash_of. apply (nodup_map_comp _ hkey_id). exact Hn.
  - rewrite dedup_hkey_dedupb, dedup_str_dedupb.
    rewrite (nodup_dedupb hkey_eqb hkey_eqb_eq), (nodup_dedupb String.eqb String.eqb_eq); auto.
    + rewrite !map_length. reflexivity.
    + apply (nodup_map_comp _ hkey_id). erewrite map_ext; [exact Hnc|]. intros. apply hkey_id_of.
  - apply has_dup_edge_nodup. unfold edges_of.
    assert (Hch : forall x, In x (comps (flatten2 m)) -> NoDup (map id_of (children x))).
    { intros x Hx. destruct Hs as [_ H]. apply H. apply flatten2_nodes. unfold comps in Hx. apply filter_In in Hx. tauto. }
    revert Hnc Hch. generalize (comps (flatten2 m)). intros cs. induction cs as [|x xs IH]; cbn [flat_map map]; intros Hnc Hch; [constructor|].
    inversion Hnc; subst. apply nodup_app_intro.
    + rewrite <- (map_map id_of (fun b => (id_of x, b))). apply FinFun.Injective_map_NoDup; [intros ? ? [= ->]; reflexivity|].
      apply Hch. left. reflexivity.
    + apply IH; auto. intros. apply Hch. right. auto.
    + intros e He Hf. apply in_map_iff in He. destruct He as (y & <- & Hy).
      apply in_flat_map in Hf. destruct Hf as (x' & Hx' & Hf). apply in_map_iff in Hf. destruct Hf as (y' & [= E1 E2] & Hy').
      apply H1. rewrite <- E1. apply in_map. exact Hx'.
Qed.
End Share.

(* ---------- tree-shaped models with pairwise distinct ids ---------- *)
Lemma nodes_split p n : In n (nodes p) -> exists l1 l2, nodes p = l1 ++ nodes n ++ l2.
Proof.
  induction p as [i lo hi | m i g lo hi s v ch IH] using prop_ind'.
  - cbn [nodes]. intros [<-|[]]. exists [], []. reflexivity.
  - intros H. cbn [nodes] in H. destruct H as [<-|H]; [exists [], []; rewrite app_nil_r; reflexivity|].
    cbn [nodes]. apply in_flat_map in H. destruct H as (c & Hc & H). rewrite Forall_forall in IH.
    destruct (IH c Hc H) as (l1 & l2 & E). apply in_split in Hc. destruct Hc as (a & b & ->).
    rewrite flat_map_app. cbn [flat_map]. rewrite E.
    exists (Node m i g lo hi s v (a ++ c :: b) :: flat_map nodes a ++ l1), (l2 ++ flat_map nodes b).
    cbn [app]. rewrite <- !app_assoc. reflexivity.
Qed.
Lemma children_ids_nodup n : NoDup (map id_of (nodes n)) -> NoDup (map id_of (children n)).
Proof.
  destruct n as [|m i g lo hi s v ch]; cbn [children nodes map]; [constructor|]. intros H. inversion H as [|? ? _ Hn]; subst. clear H.
  induction ch as [|c cs IH]; cbn [map flat_map] in *; [constructor|].
  rewrite map_app in Hn. constructor.
  - intros Hi. apply in_map_iff in Hi. destruct Hi as (d & E & Hd).
    assert (Hc : In (id_of c) (map id_of (nodes c))) by (apply in_map; apply in_nodes_self).
    apply in_split in Hc. destruct Hc as (l1 & l2 & Ec). rewrite Ec in Hn. rewrite <- app_assoc in Hn. cbn [app] in Hn.
    apply NoDup_remove_2 in Hn. apply Hn. apply in_or_app. right. apply in_or_app. right.
    rewrite <- E. apply in_map. apply in_flat_map. exists d. split; auto. apply in_nodes_self.
  - apply IH. eapply nodup_app_r; eauto.
Qed.
Theorem tree_is_share m : tree_distinct_ids m -> shares_only_identical m.
Proof.
  unfold tree_distinct_ids. intros H. split.
  - intros a b Ha Hb E. assert (a = b) by (eapply nodup_map_inj; eauto). subst. auto.
  - intros n Hn. apply children_ids_nodup. destruct (nodes_split m n Hn) as (l1 & l2 & E).
    rewrite E, !map_app in H. apply nodup_app_r in H. apply nodup_app_l in H. exact H.
Qed.
Theorem tree_accepted m : tree_distinct_ids m -> errors2 m = [].
Proof. intros H. apply share_accepted. apply tree_is_share. exact H. Qed.

Theorem share_well_defined m : shares_only_identical m -> well_defined m /\ leaves_apart m.
Proof.
  intros Hs. split; [|apply share_leaves_apart; exact Hs]. split; [apply share_acyclic; exact Hs|].
  destruct Hs as [H1 H2]. split; [exact H2|].
  intros a b Ha Hb E. destruct (H1 a b Ha Hb E) as [He _]. split; [|auto].
  rewrite <- (lo_of_erase a), <- (hi_of_erase a), He, lo_of_erase, hi_of_erase. auto.
Qed.

(* ====================================================================================== *)
(* Part 5b: the full converse — every well-defined, class-coherent model is accepted       *)
(* ====================================================================================== *)
Lemma nodup_map_in_inj {A B} (f : A -> B) l :
  NoDup l -> (forall x y, In x l -> In y l -> f x = f y -> x = y) -> NoDup (map f l).
Proof.
  induction 1 as [|x xs Hx Hn IH]; intros Hinj; cbn [map]; constructor.
  - intros Hi. apply in_map_iff in Hi. destruct Hi as (y & E & Hy).
    assert (y = x) by (apply Hinj; cbn; auto). subst. contradiction.
  - apply IH. intros; apply Hinj; cbn; auto.
Qed.
Section CountingConv.
  Context {A B : Type} (eqa : A -> A -> bool) (eqb : B -> B -> bool) (f : A -> B).
  Hypothesis eqa_eq : forall x y, eqa x y = true <-> x = y.
  Hypothesis eqb_eq : forall x y, eqb x y = true <-> x = y.
  Lemma counting_conv l :
    (forall x y, In x l -> In y l -> f x = f y -> x = y) ->
    List.length (dedupb eqa l) = List.length (dedupb eqb (map f l)).
  Proof.
    intros Hinj. set (D := dedupb eqa l).
    assert (HD : NoDup (map f D)).
    { apply nodup_map_in_inj; [apply dedupb_nodup; auto|]. intros x y Hx Hy. apply Hinj; eapply dedupb_in; eauto. }
    rewrite <- (map_length f D). apply nodup_same_length; auto; [apply dedupb_nodup; auto|].
    intros z. rewrite dedupb_in by auto. rewrite !in_map_iff. unfold D.
    split; intros (w & <- & Hw); exists w; (split; [reflexivity|]).
    - eapply dedupb_in; eauto.
    - apply dedupb_in; auto.
  Qed.
End CountingConv.

Lemma edges_nodup cs : NoDup (map id_of cs) -> (forall x, In x cs -> NoDup (map id_of (children x))) -> NoDup (edges_of cs).
Proof.
  unfold edges_of. induction cs as [|x xs IH]; cbn [flat_map map]; intros Hnc Hch; [constructor|].
  inversion Hnc; subst. apply nodup_app_intro.
  - rewrite <- (map_map id_of (fun b => (id_of x, b))). apply FinFun.Injective_map_NoDup; [intros ? ? [= ->]; reflexivity|].
    apply Hch. left. reflexivity.
  - apply IH; auto. intros. apply Hch. right. auto.
  - intros e He Hf. apply in_map_iff in He. destruct He as (y & <- & Hy).
    apply in_flat_map in Hf. destruct Hf as (x' & Hx' & Hf). apply in_map_iff in Hf. destruct Hf as (y' & [= E1 E2] & Hy').
    apply H1. rewrite <- E1. apply in_map. exact Hx'.
Qed.

Definition key2 (q : prop) : bool * ident := (is_var q, id_of q).

Section Complete.
Variable m : prop.
Hypothesis Hw : well_defined m.
Hypothesis Hc : class_coherent m.

Lemma wd_same_elt a b : In a (nodes m) -> In b (nodes m) -> key2 a = key2 b -> same_elt2 a b = true.
Proof.
  intros Ha Hb E. unfold key2 in E. injection E as Ev Ei.
  destruct Hw as (_ & _ & Hd). destruct (Hd a b Ha Hb Ei) as [[Hlo Hhi] He].
  destruct (is_var a) eqn:Va.
  - destruct a as [i lo hi|]; [|discriminate]. destruct b as [j lo' hi'|]; [|discriminate].
    cbn in Hlo, Hhi, Ei. subst. apply same_elt2_refl.
  - symmetry in Ev. apply erase_same_elt2; auto.
Qed.
Lemma wd_fold_nodup l : (forall x, In x l -> In x (nodes m)) ->
  forall acc, (forall x, In x acc -> In x (nodes m)) -> NoDup (map key2 acc) ->
  NoDup (map key2 (fold_left (fun acc x => set_add2 x acc) l acc)).
Proof.
  induction l as [|x xs IH]; intros Hl acc Hacc Hn; cbn [fold_left]; auto.
  apply IH; [intros; apply Hl; right; auto| |]; unfold set_add2; destruct (existsb (same_elt2 x) acc) eqn:E; auto.
  - intros y Hy. apply in_app_or in Hy. destruct Hy as [Hy|[<-|[]]]; auto. apply Hl. left. reflexivity.
  - rewrite map_app. cbn [map]. apply nodup_snoc; auto. intros Hi. apply in_map_iff in Hi. destruct Hi as (y & Ey & Hy).
    assert (same_elt2 x y = true) by (apply wd_same_elt; auto; apply Hl; left; reflexivity).
    assert (existsb (same_elt2 x) acc = true) by (apply existsb_exists; eauto). congruence.
Qed.
Lemma wd_flatten_nodup : NoDup (map key2 (flatten2 m)).
Proof.
  unfold flatten2. eapply Permutation_NoDup; [apply Permutation_map; apply Permutation_sym; apply py_sorted_perm|].
  unfold py_set2. apply wd_fold_nodup; [intros; apply flat_raw_nodes; auto|intros ? []|constructor].
Qed.
Lemma wd_comps_nodup : NoDup (map id_of (comps (flatten2 m))).
Proof.
  pose proof (nodup_map_filter key2 (fun c => negb (is_var c)) _ wd_flatten_nodup) as H. fold (comps (flatten2 m)) in H.
  assert (E : map key2 (comps (flatten2 m)) = map (pair false) (map id_of (comps (flatten2 m)))).
  { rewrite map_map. apply map_ext_in. intros q Hq. unfold comps in Hq. apply filter_In in Hq. destruct Hq as [_ Hq].
    unfold key2. destruct (is_var q); [discriminate|reflexivity]. }
  rewrite E in H. apply NoDup_map_inv in H. exact H.
Qed.

Theorem complete_accepted : errors2 m = [].
Proof.
  apply errors2_nil_iff. pose proof Hw as (Hacyc & Hdup & Hdef).
  split; [|split; [|split]].
  - destruct (has_cycle (dependencies m)) eqn:E; auto. apply has_cycle_gpath in E. destruct E as (k & Hk).
    apply gpath_id_path in Hk. exfalso. exact (Hacyc k Hk).
  - rewrite dedup_hkey_dedupb, dedup_str_dedupb.
    assert (Hm : map id_of (flatten2 m) = map hkey_id (vhash_of (flatten2 m))) by (unfold vhash_of; rewrite map_map; reflexivity).
    rewrite Hm. apply (counting_conv hkey_eqb String.eqb hkey_id hkey_eqb_eq String.eqb_eq).
    unfold vhash_of. intros x y Hx Hy E. apply in_map_iff in Hx. destruct Hx as (q & <- & Hq).
    apply in_map_iff in Hy. destruct Hy as (q' & <- & Hq'). cbn [hkey_id] in E.
    destruct (Hdef q q' (flatten2_nodes _ _ Hq) (flatten2_nodes _ _ Hq') E) as [[-> ->] _]. rewrite E. reflexivity.
  - rewrite dedup_hkey_dedupb, dedup_str_dedupb.
    assert (Hm : map id_of (comps (flatten2 m)) = map hkey_id (map hkey_of2 (comps (flatten2 m)))).
    { rewrite map_map. apply map_ext. intros. rewrite hkey_id_of. reflexivity. }
    rewrite Hm. apply (counting_conv hkey_eqb String.eqb hkey_id hkey_eqb_eq String.eqb_eq).
    intros x y Hx Hy E. apply in_map_iff in Hx. destruct Hx as (q & <- & Hq).
    apply in_map_iff in Hy. destruct Hy as (q' & <- & Hq'). rewrite !hkey_id_of in E.
    unfold comps in Hq, Hq'. apply filter_In in Hq, Hq'. destruct Hq as [Hq Vq], Hq' as [Hq' Vq'].
    apply negb_true_iff in Vq, Vq'.
    destruct (Hdef q q' (flatten2_nodes _ _ Hq) (flatten2_nodes _ _ Hq') E) as [_ He].
    rewrite <- (hkey_of_erase q), <- (hkey_of_erase q'), (He Vq Vq'). reflexivity.
  - apply has_dup_edge_nodup. apply edges_nodup; [exact wd_comps_nodup|].
    intros x Hx. apply Hdup. apply flatten2_nodes. unfold comps in Hx. apply filter_In in Hx. tauto.
Qed.
End Complete.

(* under the guards and class coherence, validation accepts EXACTLY the well-defined models *)
Theorem exact_partial m : no_bounds_hash_collision m -> no_value_hash_collision m -> class_coherent m ->
  (errors2 m = [] <-> well_defined m).
Proof. intros HB HV HC. split; [apply sound_partial; auto|intros; apply complete_accepted; auto]. Qed.

(* ====================================================================================== *)
(* Part 6: witnesses and examples                                                          *)
(* ====================================================================================== *)
Open Scope string_scope.
(* enumerate the occurrences of a concrete model *)
Ltac enum H := cbn in H; repeat (destruct H as [<-|H]); try contradiction.

Definition ex_d4 : prop :=
  Node (mk KAll) "T" true 0 1 1 2
    [Node m0 "B" false 0 1 1 1 [Var "x" 0 3]; Node m0 "C" false 0 1 1 1 [Var "x" 1 2]].
Lemma d4_witness : errors2 ex_d4 = [] /\ no_value_hash_collision ex_d4 /\ ~ well_defined ex_d4.
Proof.
  split; [vm_compute; reflexivity|]. split.
  - intros a b Ha Hb. enum Ha; enum Hb; cbn; intros; auto; discriminate.
  - intros (_ & _ & H). destruct (H (Var "x" 0 3) (Var "x" 1 2)) as [[H1 _] _]; cbn; auto 10. discriminate.
Qed.

Definition ex_d12 : prop :=
  Node (mk KAny) "T" false 0 1 1 1
    [Node (mk KAny) "P" false 0 1 1 1 [Node m0 "A" false 0 1 1 (-1) []; Var "p" 0 1];
     Node (mk KAny) "Q" false 0 1 1 1 [Node m0 "A" false 0 1 1 (-2) []; Var "q" 0 1]].
Lemma d12_witness : errors2 ex_d12 = [] /\ no_bounds_hash_collision ex_d12 /\ ~ well_defined ex_d12.
Proof.
  split; [vm_compute; reflexivity|]. split.
  - intros a b Ha Hb. enum Ha; enum Hb; cbn; intros; auto; discriminate.
  - intros (_ & _ & H).
    destruct (H (Node m0 "A" false 0 1 1 (-1) []) (Node m0 "A" false 0 1 1 (-2) [])) as [_ H2]; cbn; auto 10.
    specialize (H2 eq_refl eq_refl). discriminate.
Qed.

Definition ex_tree : prop :=
  Node (mk KAll) "T" false 0 1 1 2
    [Node (mk KAll) "A" false 0 1 1 1 [Var "b-c" 0 1];
     Node (mk KAll) "A-b" false 0 1 1 1 [Var "c" 0 1]].
Lemma tree_example : NoDup (map id_of (nodes ex_tree)) /\ errors2 ex_tree = [].
Proof.
  split; [|vm_compute; reflexivity].
  apply (dedupb_length_nodup String.eqb String.eqb_eq). vm_compute. reflexivity.
Qed.

Definition ex_share : prop :=
  Node (mk KAny) "T" false 0 1 1 1
    [Node (mk KAny) "P" false 0 1 1 1 [Node (mk KAll) "A" false 0 1 1 2 [Var "x" 0 1; Var "y" (-1) 2]; Var "p" 0 1];
     Node m0 "Q" false 0 1 (-1) (-1) [Node (mk KAll) "A" true 0 1 1 2 [Var "x" 0 1; Var "y" (-1) 2]; Var "x" 0 1]].
Lemma share_example :
  shares_only_identical ex_share /\ ~ tree_distinct_ids ex_share /\ errors2 ex_share = [] /\
  no_bounds_hash_collision ex_share /\ no_value_hash_collision ex_share /\ well_defined ex_share.
Proof.
  assert (Hs : shares_only_identical ex_share).
  { split.
    - intros a b Ha Hb. enum Ha; enum Hb; cbn; intros; auto; discriminate.
    - intros n Hn. enum Hn; cbn; apply (dedupb_length_nodup String.eqb String.eqb_eq); vm_compute; reflexivity. }
  split; [exact Hs|]. split.
  - unfold tree_distinct_ids. intros H. apply (nodup_dedupb String.eqb String.eqb_eq) in H. vm_compute in H. discriminate.
  - split; [vm_compute; reflexivity|]. split; [|split].
    + intros a b Ha Hb. enum Ha; enum Hb; cbn; intros; auto; discriminate.
    + intros a b Ha Hb. enum Ha; enum Hb; cbn; intros; auto; discriminate.
    + apply share_well_defined. exact Hs.
Qed.

Lemma rejects_example :
  errors2 (Node (mk KAll) "A" false 0 1 1 1 [Var "A" 0 1]) = [CIRCULAR] /\
  errors2 (Node (mk KAll) "T" false 0 1 1 2
             [Node m0 "B" false 0 1 1 1 [Var "x" 0 1]; Node m0 "C" false 0 1 1 1 [Var "x" 0 2]]) = [AMBIVALENT] /\
  errors2 (Node (mk KAll) "T" false 0 1 1 1 [Var "x" 0 1; Var "x" 0 1]) = [NON_UNIQUE] /\
  errors2 (Node (mk KAny) "T" false 0 1 1 1
             [Node (mk KAny) "P" false 0 1 1 1 [Node (mk KAll) "A" false 0 1 1 2 [Var "x" 0 1; Var "y" 0 1]; Var "p" 0 1];
              Node (mk KAny) "Q" false 0 1 1 1 [Node m0 "A" false 0 1 1 2 [Var "x" 0 1; Var "y" 0 1]; Var "q" 0 1]]) = [NON_UNIQUE].
Proof. vm_compute. repeat split. Qed.

Lemma d4_minus_one_example :
  bhash (-3) 2 = bhash (-4) 2 /\
  errors2 (Node (mk KAll) "N" false 0 1 1 2
             [Node (mk KAny) "M" false 0 1 1 1 [Var "u" 2 2; Var "z" (-3) 2]; Var "z" (-4) 2]) = [].
Proof. vm_compute. split; reflexivity. Qed.

Definition ex_byid : prop :=
  Node (mk KAll) "T" false 0 1 1 2
    [Node (mk KAny) "B" false 0 1 1 1 [Var "x" 0 1; Var "y" 0 3];
     Node m0 "C" false 0 1 (-1) (-1) [Var "B" 0 1; Var "y" 0 3]].
Lemma byid_example :
  well_defined ex_byid /\ class_coherent ex_byid /\ ~ shares_only_identical ex_byid /\ errors2 ex_byid = [].
Proof.
  assert (He : errors2 ex_byid = []) by (vm_compute; reflexivity).
  assert (HB : no_bounds_hash_collision ex_byid) by (intros a b Ha Hb; enum Ha; enum Hb; cbn; intros; auto; discriminate).
  assert (HV : no_value_hash_collision ex_byid) by (intros a b Ha Hb; enum Ha; enum Hb; cbn; intros; auto; discriminate).
  split; [apply sound_partial; auto|]. split; [|split; [|exact He]].
  - intros a b Ha Hb. enum Ha; enum Hb; cbn; intros; auto; discriminate.
  - intros [H _]. destruct (H (Var "B" 0 1) (Node (mk KAny) "B" false 0 1 1 1 [Var "x" 0 1; Var "y" 0 3])) as [E _]; cbn; auto 10.
    discriminate.
Qed.
