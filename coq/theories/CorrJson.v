(* CorrJson.v — correspondence checkers for to_json / from_json (Json.v). *)
Require Import Puan.Base Puan.Plog Puan.Sem Puan.Corr Puan.Cons Puan.Json.

Definition FUEL : nat := 60.
Definition check_to_json (c : idtable * prop * json) : bool :=
  let '(t, p, obs) := c in
  match to_json (genid_of t) FUEL p with Some j => json_eqb j obs && json_eqb obs j | None => false end.
(* mode 0: pg.from_json, 1: StingyConfigurator.from_json; obs = None when the implementation raised *)
Definition check_from_json (c : idtable * nat * json * option prop) : bool :=
  let '(t, mode, j, obs) := c in
  let r := match mode with O => from_json (genid_of t) false FUEL j | _ => stingy_from_json (genid_of t) FUEL j end in
  opt_eqb prop_eqb r obs.
