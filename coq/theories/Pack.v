(* Pack.v — C17: the LOGIC of the base64 round trips.  Executable model only (proofs: PackFacts.v).

   The codec itself is pickle ∘ gzip ∘ base64: runtime-library behaviour that a Gallina model can
   say nothing about.  It appears below only as an abstract pair (enc, dec) with the hypothesis
   `dec (enc x) = Some x` (named in the trusted base).  What IS logic in /repo:

   * AtLeast.to_b64 / plog.from_b64 (puan/logic/plog/__init__.py): the whole object is handed to
     the codec — the identity on the record.
   * ge_polyhedron_config.to_b64 (puan/ndarray/__init__.py): numpy's pickling of an ndarray
     subclass drops instance attributes (variables, index, default_prio_vector live in __dict__
     and are re-created by __array_finalize__ only from a template object), therefore the code
     packs the LIST  [self, self.default_prio_vector, self.variables, self.index, self.dtype]
     and from_b64 applies the constructor POSITIONALLY:  ge_polyhedron_config( *fields )  with
     signature (input_array, default_prio_vector=None, variables=[], index=[], dtype=int64).
     The constructor (variable_ndarray.__new__) fills in default variables / index when the given
     lists are empty and raises ValueError when (len(index), len(variables)) differs from the
     last two dimensions of the array. *)
Require Import Puan.Base Puan.Plog.

Inductive dtype := DInt64 | DInt32 | DInt16 | DInt8 | DFloat64 | DOther.
Definition dtype_eqb (a b : dtype) : bool :=
  match a, b with
  | DInt64, DInt64 | DInt32, DInt32 | DInt16, DInt16 | DInt8, DInt8 | DFloat64, DFloat64 | DOther, DOther => true
  | _, _ => false
  end.

(* a puan.variable as the polyhedron sees it: id (str, or int for the support vector variable
   and default row indices) and bounds *)
Inductive vid := VStr (s : ident) | VInt (n : Z).
Definition vid_eqb (a b : vid) : bool :=
  match a, b with VStr s, VStr t => String.eqb s t | VInt n, VInt m => n =? m | _, _ => false end.
Definition vdesc := (vid * (Z * Z))%type.
Definition vdesc_eqb (a b : vdesc) : bool :=
  vid_eqb (fst a) (fst b) && (fst (snd a) =? fst (snd b)) && (snd (snd a) =? snd (snd b)).

(* a configured polyhedron: 2-D integer array (first column = b) + the three attributes *)
Record config := mkConfig {
  c_ncols : nat;                 (* shape[-1]; shape[-2] = length c_rows *)
  c_rows : list (list Z);
  c_dpv : list Z;                (* default_prio_vector *)
  c_vars : list vdesc;           (* variables, one per column *)
  c_index : list vdesc;          (* index, one per row *)
  c_dtype : dtype }.

Definition config_eqb (a b : config) : bool :=
  Nat.eqb (c_ncols a) (c_ncols b) && list_eqb (list_eqb Z.eqb) (c_rows a) (c_rows b)
  && list_eqb Z.eqb (c_dpv a) (c_dpv b) && list_eqb vdesc_eqb (c_vars a) (c_vars b)
  && list_eqb vdesc_eqb (c_index a) (c_index b) && dtype_eqb (c_dtype a) (c_dtype b).

(* what travels through the codec *)
Inductive field :=
| FArr (ncols : nat) (rows : list (list Z))     (* the bare array: attributes are lost by pickling *)
| FVec (v : list Z)
| FVars (l : list vdesc)
| FDtype (d : dtype).

(* to_b64:  [self, self.default_prio_vector, self.variables, self.index, self.dtype] *)
Definition pack (c : config) : list field :=
  [FArr (c_ncols c) (c_rows c); FVec (c_dpv c); FVars (c_vars c); FVars (c_index c); FDtype (c_dtype c)].

(* variable_ndarray._default_variable_list n : support vector variable (id 0, bounds (1,1)) then
   boolean variables 1..n-1;  default index: boolean variables 0..nrows-1 *)
Fixpoint count_from (start : Z) (n : nat) : list vdesc :=
  match n with O => [] | S k => (VInt start, (0, 1)) :: count_from (start + 1) k end.
Definition default_vars (n : nat) : list vdesc :=
  match n with O => [] | S k => (VInt 0, (1, 1)) :: count_from 1 k end.
Definition default_index (n : nat) : list vdesc := count_from 0 n.

(* ge_polyhedron_config.__new__ / variable_ndarray.__new__.  None = ValueError (shape mismatch).
   dpv = None stands for "-numpy.ones(ncols-1)" (a float vector; never taken by from_b64). *)
Definition construct (ncols : nat) (rows : list (list Z)) (dpv : option (list Z))
           (vars index : list vdesc) (dt : dtype) : option config :=
  let vars' := match vars with [] => default_vars ncols | _ => vars end in
  let index' := match index with [] => default_index (List.length rows) | _ => index end in
  if Nat.eqb (List.length index') (List.length rows) && Nat.eqb (List.length vars') ncols then
    Some (mkConfig ncols rows
                   (match dpv with Some d => d | None => repeat (-1) (Nat.pred ncols) end)
                   vars' index' dt)
  else None.

(* from_b64:  ge_polyhedron_config( *fields ) — Python binds the list POSITIONALLY to
   (input_array, default_prio_vector, variables, index, dtype); missing trailing arguments take
   their defaults, a wrong kind of value in a position is a failure (None). *)
Definition unpack (fs : list field) : option config :=
  match fs with
  | [FArr n r] => construct n r None [] [] DInt64
  | [FArr n r; FVec d] => construct n r (Some d) [] [] DInt64
  | [FArr n r; FVec d; FVars v] => construct n r (Some d) v [] DInt64
  | [FArr n r; FVec d; FVars v; FVars i] => construct n r (Some d) v i DInt64
  | [FArr n r; FVec d; FVars v; FVars i; FDtype t] => construct n r (Some d) v i t
  | _ => None
  end.

(* a polyhedron as the library builds it: rectangular, one variable per column, one index entry
   per row (this is the constructor's own shape check) *)
Definition wf_config (c : config) : Prop :=
  Forall (fun r => List.length r = c_ncols c) (c_rows c) /\
  List.length (c_vars c) = c_ncols c /\ List.length (c_index c) = List.length (c_rows c).
Definition wf_config_b (c : config) : bool :=
  forallb (fun r => Nat.eqb (List.length r) (c_ncols c)) (c_rows c)
  && Nat.eqb (List.length (c_vars c)) (c_ncols c) && Nat.eqb (List.length (c_index c)) (List.length (c_rows c)).

(* ---------- the two round trips, over an abstract codec ---------- *)
Section Codec.
  Variable blob : Type.
  (* pickle+gzip+base64 on proposition objects and on field lists *)
  Variable encP : prop -> blob.
  Variable decP : blob -> option prop.
  Variable encF : list field -> blob.
  Variable decF : blob -> option (list field).

  Definition prop_to_b64 (p : prop) : blob := encP p.
  Definition prop_from_b64 (s : blob) : option prop := decP s.

  Definition config_to_b64 (c : config) : blob := encF (pack c).
  Definition config_from_b64 (s : blob) : option config :=
    match decF s with Some fs => unpack fs | None => None end.
End Codec.
