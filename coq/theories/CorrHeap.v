(* CorrHeap.v — correspondence checkers for C09: a whole history is run through Heap.step and
   every observed output AND the observed per-object bounds after every call are compared. *)
Require Import Puan.Base Puan.Plog Puan.Corr Puan.Heap.

Definition zz_eqb (a b : Z * Z) : bool := (fst a =? fst b) && (snd a =? snd b).
Definition col_eqb (a b : ident * (Z * Z)) : bool := String.eqb (fst a) (fst b) && zz_eqb (snd a) (snd b).

(* evaluate_propositions builds dict(zip(ids, bounds)) over flatten(): when two DIFFERENT objects
   carry the same id (only possible here after the D2 leak has made two equal definitions differ)
   the dict keeps one of them and which one depends on the hash order inside flatten()'s set —
   not modelled (DESIGN 3.3).  So: same keys in the same order; the observed value of a key must be
   one of the model's values for that key (exact equality whenever the key is unique). *)
Definition dict_agrees (model obs : list (ident * (Z * Z))) : bool :=
  list_eqb String.eqb (dedup_str (map fst model)) (dedup_str (map fst obs))
  && forallb (fun e => existsb (col_eqb e) model) obs
  && Nat.eqb (List.length obs) (List.length (dedup_str (map fst obs))).
(* flatten(): same ids in the same order, same elements (tie order among equal ids not modelled) *)
Definition props_agree (model obs : list prop) : bool :=
  list_eqb String.eqb (map id_of model) (map id_of obs)
  && forallb (fun x => existsb (prop_eqb x) model) obs && forallb (fun x => existsb (prop_eqb x) obs) model.

Definition out_eqb (a b : out) : bool :=          (* a: model, b: observed *)
  match a, b with
  | RNoObject, RNoObject => true
  | RBounds x, RBounds y => opt_eqb zz_eqb x y
  | RDict x, RDict y => dict_agrees x y
  | RProp x, RProp y => prop_eqb x y
  | RErrs x, RErrs y => list_eqb err_eqb x y
  | RProps x, RProps y => props_agree x y
  | REq x t c, REq y t' c' => zz_eqb x y && Bool.eqb t t' && Bool.eqb c c'
  | RPoly c r, RPoly c' r' => list_eqb col_eqb c c' && list_eqb (list_eqb Z.eqb) r r'
  | _, _ => false
  end.

(* one history: id oracle, object pool, initial store (label -> bounds), and per call the observed
   output and the observed bounds of every labelled object after the call *)
Definition obs_step := (op * out * list (nat * (Z * Z)))%type.
Definition hist_case := (idtable * list lprop * list (nat * (Z * Z)) * list obs_step)%type.

Definition store_agrees (σ : store) (obs : list (nat * (Z * Z))) : bool :=
  forallb (fun e => zz_eqb (σ (fst e)) (snd e)) obs.

Fixpoint check_steps (g : genid_t) (s : state) (l : list obs_step) : bool :=
  match l with
  | [] => true
  | (o, x, obs) :: r =>
      let '(s1, y) := step g s o in
      out_eqb y x && store_agrees (sto s1) obs && check_steps g s1 r
  end.

Definition check_history (c : hist_case) : bool :=
  let '(t, pl, st, steps) := c in
  check_steps (genid_of t) (mkState pl (store_of st)) steps.

(* index of the first disagreeing call (for replays / diagnostics): (index, is_output_mismatch) *)
Fixpoint first_bad (g : genid_t) (s : state) (l : list obs_step) (n : nat) : option (nat * bool * out) :=
  match l with
  | [] => None
  | (o, x, obs) :: r =>
      let '(s1, y) := step g s o in
      if negb (out_eqb y x) then Some (n, true, y)
      else if negb (store_agrees (sto s1) obs) then Some (n, false, y)
      else first_bad g s1 r (S n)
  end.
Definition diagnose (c : hist_case) :=
  let '(t, pl, st, steps) := c in first_bad (genid_of t) (mkState pl (store_of st)) steps 0.

(* the guard of C09_pure_partial, evaluated on a concrete history *)
Definition guard_holds (c : hist_case) : bool :=
  let '(_, pl, _, steps) := c in forallb (fun e => names_no_compound_b pl (fst (fst e))) steps.

(* main stream: the guard holds, so by C09_pure_partial outputs must ALSO equal the fresh ones
   and the store must not move; checked here on the observed data as well *)
Definition check_history_pure (c : hist_case) : bool :=
  let '(t, pl, st, steps) := c in
  let s0 := mkState pl (store_of st) in
  guard_holds c && check_history c &&
  forallb (fun e => let '(o, x, obs) := e in out_eqb (snd (step (genid_of t) s0 o)) x && store_agrees (sto s0) obs) steps.

(* ---------- configurators ---------- *)
Definition cpoly_eqb (a b : cpoly) : bool :=
  list_eqb col_eqb (cp_cols a) (cp_cols b) && list_eqb (list_eqb Z.eqb) (cp_rows a) (cp_rows b)
  && list_eqb Z.eqb (cp_dpv a) (cp_dpv b).
Definition cout_eqb (a b : cout) : bool :=
  match a, b with
  | CNone, CNone => true
  | CRPoly x, CRPoly y => cpoly_eqb x y
  | CRLeafs x, CRLeafs y => list_eqb prop_eqb x y
  | CRPrios x, CRPrios y => list_eqb (pair_eqb String.eqb Z.eqb) x y
  | _, _ => false
  end.
Definition cfg_case := (list prop * list (cop * cout))%type.
Definition check_cfg (c : cfg_case) : bool :=
  let '(cfgs, steps) := c in forallb (fun e => cout_eqb (cstep cfgs (fst e)) (snd e)) steps.
(* what the OLD (cached) code would have answered on the same history: used by the harness only
   to report whether an observed regression is explained by the lru_cache coming back *)
Definition check_cfg_cached (c : cfg_case) : bool :=
  let '(cfgs, steps) := c in
  list_eqb cout_eqb (crun_cached cfgs (mkCache [] []) (map fst steps)) (map snd steps).
