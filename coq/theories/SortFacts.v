(* SortFacts.v — py_sorted (Base.v) is THE stable sort by id: its result is sorted, keeps the
   relative order of equal keys, and any two sorted lists with the same per-key sub-lists are
   equal.  Consequence used by C18: sorting an already sorted prefix plus one element gives the
   same list as sorting the original list plus that element. *)
Require Import Puan.Base.
From Coq Require Import OrderedTypeEx Sorting.Sorted.

Lemma sltb_irrefl a : String.ltb a a = false.
Proof. unfold String.ltb. pose proof (String.compare_antisym a a) as H. destruct (String.compare a a); cbn in H; try discriminate; reflexivity. Qed.
Lemma sltb_lt a b : String.ltb a b = true <-> String_as_OT.lt a b.
Proof.
  unfold String.ltb. rewrite <- String_as_OT.cmp_lt. unfold String_as_OT.cmp.
  destruct (String.compare a b); split; intros; congruence.
Qed.
Lemma sltb_trans a b c : String.ltb a b = true -> String.ltb b c = true -> String.ltb a c = true.
Proof. rewrite !sltb_lt. apply String_as_OT.lt_trans. Qed.
Lemma sltb_total a b : String.ltb a b = false -> String.ltb b a = false -> a = b.
Proof.
  unfold String.ltb. pose proof (String.compare_antisym a b) as H.
  destruct (String.compare a b) eqn:E, (String.compare b a) eqn:E2; cbn in H; intros; try discriminate.
  apply String.compare_eq_iff in E. exact E.
Qed.
Lemma sltb_asym a b : String.ltb a b = true -> String.ltb b a = false.
Proof.
  intros H. destruct (String.ltb b a) eqn:E; [|reflexivity].
  pose proof (sltb_trans _ _ _ H E) as Hc. rewrite sltb_irrefl in Hc. discriminate.
Qed.

Section Sort.
Context {A : Type} (key : A -> string).
Definition nlt (a b : A) : Prop := String.ltb (key b) (key a) = false.     (* b is not before a *)
Definition sorted (l : list A) : Prop := StronglySorted nlt l.
Definition fk (k : string) (l : list A) : list A := filter (fun x => String.eqb (key x) k) l.

Lemma ins_in x l y : In y (ins key x l) <-> y = x \/ In y l.
Proof.
  split; intros H.
  - apply (Permutation_in _ (ins_perm key x l)) in H. destruct H; auto.
  - apply (Permutation_in _ (Permutation_sym (ins_perm key x l))). destruct H; [left|right]; auto.
Qed.
Lemma ins_sorted x l : sorted l -> sorted (ins key x l).
Proof.
  unfold sorted. induction 1 as [|y ys Hs IH Hall]; cbn [ins]; [repeat constructor|].
  destruct (String.ltb (key y) (key x)) eqn:E.
  - constructor; [exact IH|]. apply Forall_forall. intros z Hz. apply ins_in in Hz. destruct Hz as [->|Hz].
    + unfold nlt. apply sltb_asym. exact E.
    + rewrite Forall_forall in Hall. apply Hall; auto.
  - constructor; [constructor; auto|]. constructor; [exact E|].
    apply Forall_forall. intros z Hz. rewrite Forall_forall in Hall. specialize (Hall z Hz). unfold nlt in *.
    destruct (String.ltb (key z) (key x)) eqn:Ez; [|reflexivity]. exfalso.
    destruct (String.ltb (key x) (key y)) eqn:Exy.
    + pose proof (sltb_trans _ _ _ Ez Exy). congruence.
    + pose proof (sltb_total _ _ Exy E) as Heq. rewrite Heq in Ez. congruence.
Qed.
Lemma py_sorted_sorted l : sorted (py_sorted key l).
Proof. induction l as [|x xs IH]; cbn [py_sorted]; [constructor|apply ins_sorted; exact IH]. Qed.

Lemma ins_fk k x l : fk k (ins key x l) = fk k (x :: l).
Proof.
  unfold fk. induction l as [|y ys IH]; cbn [ins]; [reflexivity|].
  destruct (String.ltb (key y) (key x)) eqn:E; [|reflexivity].
  cbn [filter] in *. rewrite IH.
  destruct (String.eqb (key x) k) eqn:Ex, (String.eqb (key y) k) eqn:Ey; try reflexivity.
  apply String.eqb_eq in Ex, Ey. rewrite Ex, Ey, sltb_irrefl in E. discriminate.
Qed.
Lemma py_sorted_fk k l : fk k (py_sorted key l) = fk k l.
Proof. induction l as [|x xs IH]; cbn [py_sorted]; [reflexivity|]. rewrite ins_fk. unfold fk in *. cbn [filter]. rewrite IH. reflexivity. Qed.

Lemma fk_nil_of_nlt k l x : Forall (nlt x) l -> String.ltb k (key x) = true -> fk k l = [].
Proof.
  intros Hall Hk. unfold fk. induction Hall as [|y ys Hy Hys IH]; cbn [filter]; [reflexivity|].
  destruct (String.eqb (key y) k) eqn:E; [|exact IH]. apply String.eqb_eq in E. unfold nlt in Hy. rewrite E in Hy. congruence.
Qed.
Lemma sorted_unique l1 : forall l2, sorted l1 -> sorted l2 -> (forall k, fk k l1 = fk k l2) -> l1 = l2.
Proof.
  induction l1 as [|x xs IH]; intros l2 H1 H2 Hf.
  - destruct l2 as [|y ys]; [reflexivity|]. specialize (Hf (key y)). unfold fk in Hf. cbn [filter] in Hf. rewrite String.eqb_refl in Hf. discriminate.
  - destruct l2 as [|y ys].
    + specialize (Hf (key x)). unfold fk in Hf. cbn [filter] in Hf. rewrite String.eqb_refl in Hf. discriminate.
    + inversion H1 as [|? ? Hs1 Ha1]; inversion H2 as [|? ? Hs2 Ha2]; subst.
      assert (Hk : key x = key y).
      { destruct (String.ltb (key x) (key y)) eqn:E1.
        - exfalso. pose proof (Hf (key x)) as Hx. unfold fk in Hx. cbn [filter] in Hx. rewrite String.eqb_refl in Hx.
          assert (String.eqb (key y) (key x) = false) as Hne.
          { destruct (String.eqb (key y) (key x)) eqn:Ee; [|reflexivity]. apply String.eqb_eq in Ee. rewrite Ee, sltb_irrefl in E1. discriminate. }
          rewrite Hne in Hx. fold (fk (key x) ys) in Hx. rewrite (fk_nil_of_nlt (key x) ys y Ha2 E1) in Hx. discriminate.
        - destruct (String.ltb (key y) (key x)) eqn:E2; [|apply sltb_total; auto].
          exfalso. pose proof (Hf (key y)) as Hy. unfold fk in Hy. cbn [filter] in Hy. rewrite String.eqb_refl in Hy.
          assert (String.eqb (key x) (key y) = false) as Hne.
          { destruct (String.eqb (key x) (key y)) eqn:Ee; [|reflexivity]. apply String.eqb_eq in Ee. rewrite Ee, sltb_irrefl in E2. discriminate. }
          rewrite Hne in Hy. fold (fk (key y) xs) in Hy. rewrite (fk_nil_of_nlt (key y) xs x Ha1 E2) in Hy. discriminate. }
      assert (Hxy : x = y).
      { pose proof (Hf (key x)) as Hx. unfold fk in Hx. cbn [filter] in Hx. rewrite <- Hk in Hx. rewrite String.eqb_refl in Hx. congruence. }
      subst y. f_equal. apply IH; auto. intros k. specialize (Hf k). unfold fk in *. cbn [filter] in Hf.
      destruct (String.eqb (key x) k); congruence.
Qed.

(* sorting a sorted prefix plus one element = sorting the original list plus that element *)
Theorem sorted_prefix_snoc l r : py_sorted key (py_sorted key l ++ [r]) = py_sorted key (l ++ [r]).
Proof.
  apply sorted_unique; try apply py_sorted_sorted. intros k. rewrite !py_sorted_fk. unfold fk. rewrite !filter_app.
  fold (fk k (py_sorted key l)). rewrite py_sorted_fk. reflexivity.
Qed.
Theorem py_sorted_idem l : py_sorted key (py_sorted key l) = py_sorted key l.
Proof. apply sorted_unique; try apply py_sorted_sorted. intros k. rewrite !py_sorted_fk. reflexivity. Qed.
End Sort.
