(* Base.v — shared helpers: tactics, sums, stable insertion sort (= Python sorted()),
   association lists, Python int hash.  Stdlib only. *)
From Coq Require Export String ZArith List Bool Lia ZifyBool.
Export ListNotations.
Open Scope Z_scope.

Ltac case_if := match goal with |- context [if ?c then _ else _] => destruct c eqn:? end.
Ltac case_if_in H := match type of H with context [if ?c then _ else _] => destruct c eqn:? end.

Definition ident := string.

Fixpoint zsum (l : list Z) : Z := match l with [] => 0 | x :: xs => x + zsum xs end.

Lemma zsum_app a b : zsum (a ++ b) = zsum a + zsum b.
Proof. induction a; cbn [zsum app] in *; lia. Qed.

Fixpoint zrange (start : Z) (n : nat) : list Z :=
  match n with O => [] | S k => start :: zrange (start + 1) k end.

Lemma zrange_length start n : List.length (zrange start n) = n.
Proof. revert start; induction n; intros; cbn; auto. Qed.

(* ---------- stable insertion sort on a string key: Python's sorted() on objects whose
   __lt__ compares ids (Python's sort is stable and only uses <). ---------- *)
Section PySort.
  Context {A : Type} (key : A -> string).
  (* x is inserted in front of an already sorted tail; it must stay before elements with an
     equal key (it came first in the input). *)
  Fixpoint ins (x : A) (l : list A) : list A :=
    match l with
    | [] => [x]
    | y :: ys => if String.ltb (key y) (key x) then y :: ins x ys else x :: y :: ys
    end.
  Fixpoint py_sorted (l : list A) : list A :=
    match l with [] => [] | x :: xs => ins x (py_sorted xs) end.
End PySort.

From Coq Require Export Permutation.
Section PySortFacts.
  Context {A : Type} (key : A -> string).
  Lemma ins_perm x l : Permutation (ins key x l) (x :: l).
  Proof.
    induction l as [|y ys IH]; cbn [ins]; [reflexivity|].
    destruct (String.ltb (key y) (key x)); [|reflexivity].
    rewrite IH. apply perm_swap.
  Qed.
  Lemma py_sorted_perm l : Permutation (py_sorted key l) l.
  Proof. induction l as [|x xs IH]; cbn [py_sorted]; [reflexivity|]. rewrite ins_perm. constructor. exact IH. Qed.
End PySortFacts.

Lemma ins_map {A B} (f : A -> B) (kb : B -> string) x l :
  map f (ins (fun a => kb (f a)) x l) = ins kb (f x) (map f l).
Proof. induction l as [|y ys IH]; cbn [ins map]; [reflexivity|]. destruct (String.ltb _ _); cbn [map]; [rewrite IH|]; reflexivity. Qed.
Lemma py_sorted_map {A B} (f : A -> B) (kb : B -> string) l :
  map f (py_sorted (fun a => kb (f a)) l) = py_sorted kb (map f l).
Proof. induction l as [|x xs IH]; cbn [py_sorted map]; [reflexivity|]. rewrite ins_map, IH. reflexivity. Qed.

Lemma zsum_perm l l' : Permutation l l' -> zsum l = zsum l'.
Proof. induction 1; cbn [zsum]; lia. Qed.
Lemma filter_perm {A} (f : A -> bool) l l' : Permutation l l' -> Permutation (filter f l) (filter f l').
Proof.
  induction 1; cbn [filter].
  - reflexivity.
  - destruct (f x); [constructor|]; assumption.
  - destruct (f x), (f y); try reflexivity. apply perm_swap.
  - etransitivity; eassumption.
Qed.

(* association lists keyed by strings; first match wins *)
Fixpoint alookup {B} (k : string) (l : list (string * B)) : option B :=
  match l with
  | [] => None
  | (k', v) :: r => if String.eqb k k' then Some v else alookup k r
  end.
(* Python dict(zip(keys, values)): later entries overwrite earlier ones *)
Definition alookup_last {B} (k : string) (l : list (string * B)) : option B := alookup k (rev l).

Definition mem_str (k : string) (l : list string) : bool := existsb (String.eqb k) l.

Fixpoint dedup_str (l : list string) : list string :=
  match l with [] => [] | x :: xs => if mem_str x xs then dedup_str xs else x :: dedup_str xs end.

(* CPython hash of a (small) int: identity, except hash(-1) = -2.  Valid for |z| < 2^61-1. *)
Definition pyhash (z : Z) : Z := if z =? -1 then -2 else z.

Fixpoint list_eqb {A} (eqb : A -> A -> bool) (a b : list A) : bool :=
  match a, b with
  | [], [] => true
  | x :: xs, y :: ys => eqb x y && list_eqb eqb xs ys
  | _, _ => false
  end.

Definition opt_eqb {A} (eqb : A -> A -> bool) (a b : option A) : bool :=
  match a, b with Some x, Some y => eqb x y | None, None => true | _, _ => false end.

Definition pair_eqb {A B} (ea : A -> A -> bool) (eb : B -> B -> bool) (a b : A * B) : bool :=
  ea (fst a) (fst b) && eb (snd a) (snd b).

Lemma list_eqb_spec {A} (eqb : A -> A -> bool) :
  (forall x y, eqb x y = true <-> x = y) -> forall a b, list_eqb eqb a b = true <-> a = b.
Proof.
  intros H a. induction a as [|x xs IH]; intros [|y ys]; cbn; split; try congruence; intros E.
  - apply andb_true_iff in E. destruct E as [E1 E2]. apply H in E1. apply IH in E2. congruence.
  - inversion E; subst. apply andb_true_iff. split; [apply H|apply IH]; auto.
Qed.

(* count / positions of failures, used by generated case files *)
Fixpoint failing_from (n : nat) (l : list bool) : list nat :=
  match l with [] => [] | b :: r => if b then failing_from (S n) r else n :: failing_from (S n) r end.
Definition summary (l : list bool) : nat * list nat := (List.length l, failing_from 0 l).
