(* Sem.v — the SPECIFICATION side: the arithmetic truth function and the side conditions
   the properties speak about.  Nothing here mentions how the implementation computes. *)
Require Import Puan.Base Puan.Plog.

(* value of a proposition under a leaf environment *)
Fixpoint eval (env : ident -> Z) (p : prop) : Z :=
  match p with
  | Var i _ _ => env i
  | Node _ _ _ _ _ s v ch => if v <=? s * zsum (map (eval env) ch) then 1 else 0
  end.

(* every leaf value within its declared bounds, signs are +1/-1 *)
Fixpoint ok (env : ident -> Z) (p : prop) : Prop :=
  match p with
  | Var i lo hi => lo <= env i <= hi
  | Node _ _ _ _ _ s _ ch => (s = 1 \/ s = -1) /\
      (fix go l := match l with [] => True | x :: xs => ok env x /\ go xs end) ch
  end.

(* solver-safe form: no sub-proposition sits under a negatively signed parent *)
Fixpoint solver_safe (p : prop) : bool :=
  match p with
  | Var _ _ _ => true
  | Node _ _ _ _ _ s _ ch => (if s =? -1 then forallb is_var ch else true) && forallb solver_safe ch
  end.

(* every node's sign is +1 or -1 (the constructor rejects anything else) *)
Fixpoint ok_signs (p : prop) : bool :=
  match p with
  | Var _ _ _ => true
  | Node _ _ _ _ _ s _ ch => ((s =? 1) || (s =? -1)) && forallb ok_signs ch
  end.

(* every leaf is boolean *)
Fixpoint bool_leaves (p : prop) : bool :=
  match p with
  | Var _ lo hi => (lo =? 0) && (hi =? 1)
  | Node _ _ _ _ _ _ _ ch => forallb bool_leaves ch
  end.

(* all nodes and leaves of a tree, with repetitions *)
Fixpoint nodes (p : prop) : list prop :=
  p :: match p with Var _ _ _ => [] | Node _ _ _ _ _ _ _ ch => flat_map nodes ch end.

(* C03/C06/C07 spec: the value of a proposition under a leaf environment and an interpretation
   d.  A node whose own variable is fixed by d (or by its declared bounds) takes that fixed
   value instead of the computed one; non-constant bounds given for a node do not fix it. *)
Fixpoint eval_d (d : interp) (env : ident -> Z) (p : prop) : Z :=
  match p with
  | Var i lo hi => let b := dbounds d i lo hi in if fst b =? snd b then fst b else env i
  | Node _ i _ lo hi s v ch =>
      let b := dbounds d i lo hi in
      if fst b =? snd b then fst b
      else if v <=? s * zsum (map (eval_d d env) ch) then 1 else 0
  end.

(* the leaf environment respects the interval the interpretation (or the declaration) gives *)
Fixpoint refines (d : interp) (env : ident -> Z) (p : prop) : Prop :=
  match p with
  | Var i lo hi => let b := dbounds d i lo hi in fst b = snd b \/ fst b <= env i <= snd b
  | Node _ _ _ _ _ _ _ ch => (fix go l := match l with [] => True | x :: xs => refines d env x /\ go xs end) ch
  end.

(* the interpretation fixes every leaf to a point *)
Fixpoint total (d : interp) (p : prop) : Prop :=
  match p with
  | Var i lo hi => fst (dbounds d i lo hi) = snd (dbounds d i lo hi)
  | Node _ _ _ _ _ _ _ ch => (fix go l := match l with [] => True | x :: xs => total d x /\ go xs end) ch
  end.

(* C08 spec: fixed variables (constant bounds) stand for their constants *)
Fixpoint eval_c (env : ident -> Z) (p : prop) : Z :=
  match p with
  | Var i lo hi => if lo =? hi then lo else env i
  | Node _ i _ lo hi s v ch =>
      if lo =? hi then lo else if v <=? s * zsum (map (eval_c env) ch) then 1 else 0
  end.
Fixpoint inb_c (env : ident -> Z) (p : prop) : Prop :=
  match p with
  | Var i lo hi => lo <= hi /\ (lo < hi -> lo <= env i <= hi)
  | Node _ _ _ _ _ _ _ ch => (fix go l := match l with [] => True | x :: xs => inb_c env x /\ go xs end) ch
  end.

(* every id occurring in the model has a single definition (C10's conclusion), up to the
   class-level metadata that no query except serialisation looks at *)
Definition single_def (m : prop) : Prop :=
  forall a b, In a (nodes m) -> In b (nodes m) -> id_of a = id_of b -> core_eqb a b = true.

(* no interpretation entry and no declared bound fixes a compound: eval_d is then plain eval *)
Fixpoint no_fixed (d : interp) (p : prop) : Prop :=
  match p with
  | Var i lo hi => True
  | Node _ i _ lo hi _ _ ch => fst (dbounds d i lo hi) <> snd (dbounds d i lo hi) /\
      (fix go l := match l with [] => True | x :: xs => no_fixed d x /\ go xs end) ch
  end.

(* compound ids are not named by the dictionary *)
Fixpoint comps_unnamed (d : interp) (p : prop) : Prop :=
  match p with
  | Var _ _ _ => True
  | Node _ i _ _ _ _ _ ch => alookup i d = None /\
      (fix go l := match l with [] => True | x :: xs => comps_unnamed d x /\ go xs end) ch
  end.

(* C07: d1 is the assumption, d2 the further interpretation, env the leaf environment.
   d2 names no compound and no id already named by d1; for every leaf the final interval
   (declared, narrowed by d1, then by d2) lies inside the interval after d1 and contains env. *)
Fixpoint compat (d1 d2 : interp) (env : ident -> Z) (p : prop) : Prop :=
  match p with
  | Var i lo hi =>
      (alookup i d1 <> None -> alookup i d2 = None) /\
      let b1 := dbounds d1 i lo hi in
      let b := dbounds d2 i (fst b1) (snd b1) in
      fst b1 <= fst b /\ snd b <= snd b1 /\ fst b <= env i <= snd b
  | Node _ i _ _ _ _ _ ch => alookup i d2 = None /\
      (fix go l := match l with [] => True | x :: xs => compat d1 d2 env x /\ go xs end) ch
  end.

(* the interpretation is exactly the point environment on the leaves and fixes no compound:
   then eval_d is the plain arithmetic truth function eval *)
Fixpoint agrees (d : interp) (env : ident -> Z) (p : prop) : Prop :=
  match p with
  | Var i lo hi => dbounds d i lo hi = (env i, env i)
  | Node _ i _ lo hi _ _ ch => fst (dbounds d i lo hi) <> snd (dbounds d i lo hi) /\
      (fix go l := match l with [] => True | x :: xs => agrees d env x /\ go xs end) ch
  end.

(* ---------- C01 / C02: column assignments of the polyhedron ---------- *)
(* x assigns a value to every column id (leaves and compounds).  inb: every column value within
   its declared bounds at every occurrence; compounds are not pre-fixed (own bounds (0,1)) and
   signs are +-1.  consistent: every compound column carries the evaluated truth value. *)
Fixpoint inb (x : ident -> Z) (p : prop) : Prop :=
  match p with
  | Var i lo hi => lo <= x i <= hi
  | Node _ i _ lo hi s _ ch => lo = 0 /\ hi = 1 /\ 0 <= x i <= 1 /\ (s = 1 \/ s = -1) /\
      (fix go l := match l with [] => True | c :: cs => inb x c /\ go cs end) ch
  end.
Fixpoint consistent (x : ident -> Z) (p : prop) : Prop :=
  match p with
  | Var _ _ _ => True
  | Node _ i _ _ _ _ _ ch => x i = eval x p /\
      (fix go l := match l with [] => True | c :: cs => consistent x c /\ go cs end) ch
  end.
Definition lhs (x : ident -> Z) (cs : list (ident * Z)) := zsum (map (fun c => snd c * x (fst c)) cs).
Definition sat (x : ident -> Z) (r : row) := fst r <= lhs x (snd r).

(* the leaf assignment env extended with each sub-proposition's evaluated truth value *)
Definition is_comp_with (i : ident) (n : prop) : bool := negb (is_var n) && String.eqb (id_of n) i.
Definition extend (env : ident -> Z) (m : prop) : ident -> Z :=
  fun i => match find (is_comp_with i) (nodes m) with Some n => eval env n | None => env i end.
(* leaf ids are disjoint from compound ids (no by-id references to sub-propositions) *)
Definition leaves_apart (m : prop) : Prop :=
  forall a b, In a (nodes m) -> In b (nodes m) -> is_var a = true -> is_var b = false -> id_of a <> id_of b.
(* leaf values within bounds; compounds not pre-fixed; signs +-1 *)
Fixpoint plain_inb (env : ident -> Z) (p : prop) : Prop :=
  match p with
  | Var i lo hi => lo <= env i <= hi
  | Node _ i _ lo hi s _ ch => lo = 0 /\ hi = 1 /\ (s = 1 \/ s = -1) /\
      (fix go l := match l with [] => True | c :: cs => plain_inb env c /\ go cs end) ch
  end.

(* dense matrix rows as produced by to_ge_polyhedron: b first, then one coefficient per column *)
Fixpoint dot (a v : list Z) : Z :=
  match a, v with x :: xs, y :: ys => x * y + dot xs ys | _, _ => 0 end.
Definition sat_dense (v : list Z) (r : list Z) : Prop :=
  match r with [] => True | b :: a => b <= dot a v end.
