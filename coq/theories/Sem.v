(* Sem.v — the SPECIFICATION side: the arithmetic truth function and the side conditions
   the properties speak about.  Nothing here mentions how the implementation computes. *)
Require Import Puan.Base Puan.Plog.

(* value of a proposition under a leaf environment *)
Fixpoint eval (env : ident -> Z) (p : prop) : Z :=
  match p with
  | Var i _ _ => env i
  | Node _ _ _ _ _ s v ch => if v <=? s * zsum (map (eval env) ch) then 1 else 0
  end.

(* every leaf value within its declared bounds, signs are +1/-1 *)
Fixpoint ok (env : ident -> Z) (p : prop) : Prop :=
  match p with
  | Var i lo hi => lo <= env i <= hi
  | Node _ _ _ _ _ s _ ch => (s = 1 \/ s = -1) /\
      (fix go l := match l with [] => True | x :: xs => ok env x /\ go xs end) ch
  end.

(* solver-safe form: no sub-proposition sits under a negatively signed parent *)
Fixpoint solver_safe (p : prop) : bool :=
  match p with
  | Var _ _ _ => true
  | Node _ _ _ _ _ s _ ch => (if s =? -1 then forallb is_var ch else true) && forallb solver_safe ch
  end.

(* every node's sign is +1 or -1 (the constructor rejects anything else) *)
Fixpoint ok_signs (p : prop) : bool :=
  match p with
  | Var _ _ _ => true
  | Node _ _ _ _ _ s _ ch => ((s =? 1) || (s =? -1)) && forallb ok_signs ch
  end.

(* every leaf is boolean *)
Fixpoint bool_leaves (p : prop) : bool :=
  match p with
  | Var _ lo hi => (lo =? 0) && (hi =? 1)
  | Node _ _ _ _ _ _ _ ch => forallb bool_leaves ch
  end.

(* evaluation with overrides: a node named in d, or whose own bounds are constant, takes
   that value instead of the computed one (C03).  d maps ids to point values. *)
Fixpoint eval_over (d : list (ident * Z)) (p : prop) : Z :=
  match p with
  | Var i lo hi => match alookup i d with Some z => z | None => lo end
  | Node _ i _ lo hi s v ch =>
      match alookup i d with
      | Some z => z
      | None => if lo =? hi then lo
                else if v <=? s * zsum (map (eval_over d) ch) then 1 else 0
      end
  end.
