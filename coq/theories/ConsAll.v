(* ConsAll.v — C04 without the "All's arguments are not merged" side condition.  Since fix D16 All counts every operand
   it was given, so the truth-function theorem holds for EVERY plog formula over boolean leaves whose explicit signs
   are +1 / -1: repeated operands, operands with colliding ids and formulas that errors() rejects included. *)
Require Import Puan.Base Puan.Plog Puan.Sem Puan.Cons Puan.ConsFacts.

(* syntactic well-formedness only: boolean leaves, explicit signs +-1, no configurator classes *)
Fixpoint wf0 (f : form) : Prop :=
  match f with
  | FLeaf _ lo hi => lo = 0 /\ hi = 1
  | FAtLeast _ _ s l => (s = None \/ s = Some 1 \/ s = Some (-1)) /\ (fix go l := match l with [] => True | x :: xs => wf0 x /\ go xs end) l
  | FAtMost _ _ l | FAny _ l | FXor _ l | FXNor _ l | FAll _ l => (fix go l := match l with [] => True | x :: xs => wf0 x /\ go xs end) l
  | FImply _ a b => wf0 a /\ wf0 b
  | FNot a => wf0 a
  | FCcAny _ _ _ | FCcXor _ _ _ | FStingy _ _ => False
  end.

Lemma wf0_list l : (fix go l := match l with [] => True | x :: xs => wf0 x /\ go xs end) l <-> Forall wf0 l.
Proof. split; intros H; [induction l as [|x xs IH]; constructor; destruct H; auto | induction H; cbn; auto]. Qed.

Lemma wf0_wf genid f : wf0 f -> wf genid f.
Proof.
  induction f as [i lo hi | o v s l IH | o v l IH | o l IH | o l IH | o l IH | o l IH | o a b IHa IHb | a IHa
                 | o d l IH | o d l IH | o l IH] using form_ind'; cbn [wf0 wf]; intros H; auto.
  - destruct H as [Hs H]. split; [exact Hs|]. apply wf_list. apply wf0_list in H. rewrite Forall_forall in *. auto.
  - apply wf_list. apply wf0_list in H. rewrite Forall_forall in *. auto.
  - split; [unfold set_len; rewrite map_length; reflexivity|].
    apply wf_list. apply wf0_list in H. rewrite Forall_forall in *. auto.
  - apply wf_list. apply wf0_list in H. rewrite Forall_forall in *. auto.
  - apply wf_list. apply wf0_list in H. rewrite Forall_forall in *. auto.
  - apply wf_list. apply wf0_list in H. rewrite Forall_forall in *. auto.
  - destruct H; split; auto.
Qed.

Theorem build_sem_all genid env : (forall i, env i = 0 \/ env i = 1) ->
  forall f, wf0 f -> eval env (build genid f) = fsem env f.
Proof. intros Hb f Hw. exact (proj1 (build_sem genid env Hb f (wf0_wf genid f Hw))). Qed.
