(* CorrErrors.v — correspondence checker for AtLeast.errors(): the input model as the
   implementation holds it (children in the object's order) and the list of errors it
   returned, in order. *)
Require Import Puan.Base Puan.Plog Puan.Errors.

Definition check_errors (c : prop * list err) : bool :=
  let '(m, obs) := c in list_eqb err_eqb (errors2 m) obs.

(* the first model (Plog.errors): kept only to show where it differs *)
Definition check_errors_plog (c : prop * list err) : bool :=
  let '(m, obs) := c in list_eqb err_eqb (errors m) obs.
