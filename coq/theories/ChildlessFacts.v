(* ChildlessFacts.v — compounds without sub-propositions (All(), Any(), AtLeast(k, []), a StingyConfigurator without rules,
   from_json of a document without "propositions").  The documentation says the list cannot be empty; the constructors and
   errors() accept it, and evaluation is defined on it: the sum over no operand is 0, so the node is the constant [value <= 0]
   unless its own variable is fixed.  Proofs only; the statements are restated in Properties/C03.v. *)
Require Import Puan.Base Puan.Plog Puan.Sem Puan.AssumeFacts Puan.Errors Puan.ErrorsSpec Puan.Validated Puan.PresentFacts.
Open Scope string_scope. Open Scope Z_scope.

Lemma childless_value :
  forall (d : interp) (env : ident -> Z) (m : meta) (i : ident) (g : bool) (lo hi s v : Z),
    fst (dbounds d i lo hi) <> snd (dbounds d i lo hi) ->
    eval_d d env (Node m i g lo hi s v []) = (if v <=? 0 then 1 else 0).
Proof.
  intros d env m i g lo hi s v H. cbn [eval_d map zsum].
  destruct (fst (dbounds d i lo hi) =? snd (dbounds d i lo hi)) eqn:E.
  - apply Z.eqb_eq in E. contradiction.
  - replace (s * 0) with 0 by lia. reflexivity.
Qed.

Lemma childless_evaluate :
  forall (d : interp) (m : meta) (i : ident) (g : bool) (lo hi s v : Z),
    let p := Node m i g lo hi s v [] in
    ok_signs p = true -> single_def p ->
    fst (dbounds d i lo hi) <> snd (dbounds d i lo hi) ->
    evaluate d p = Some (if v <=? 0 then 1 else 0, if v <=? 0 then 1 else 0).
Proof.
  intros d m i g lo hi s v p Hs Hd Hf.
  pose (env := fun _ : ident => 0).
  rewrite <- (childless_value d env m i g lo hi s v Hf).
  apply evaluate_exact; try assumption.
  - cbn. auto.
  - cbn. auto.
Qed.
