(* EncodeFacts.v — the big-M encoding agrees with evaluation (C01) and its integer points are
   exactly the satisfying configurations (C02). *)
Require Import Puan.Base Puan.Plog Puan.Sem Puan.SemFacts Puan.AssumeFacts.

Section S.
Variable x : ident -> Z.

Lemma inb_node m i g lo hi s v ch : inb x (Node m i g lo hi s v ch) <->
  lo = 0 /\ hi = 1 /\ 0 <= x i <= 1 /\ (s = 1 \/ s = -1) /\ Forall (inb x) ch.
Proof.
  cbn [inb]. split; intros (A & B & C & D & E); repeat split; auto; try lia.
  - induction ch as [|c cs IH]; constructor; destruct E; auto.
  - induction E; cbn; auto.
Qed.
Lemma consistent_node m i g lo hi s v ch : consistent x (Node m i g lo hi s v ch) <->
  x i = eval x (Node m i g lo hi s v ch) /\ Forall (consistent x) ch.
Proof.
  cbn [consistent]. split; intros [A B]; split; auto; clear A.
  - induction ch as [|c cs IH]; constructor; destruct B; auto.
  - induction B; cbn; auto.
Qed.

Lemma lhs_map s ch : lhs x (map (fun c => (id_of c, s)) ch) = s * zsum (map (fun c => x (id_of c)) ch).
Proof. unfold lhs. induction ch as [|c cs IH]; cbn [map zsum fst snd] in *; lia. Qed.

Lemma sat_all_flat (l : list prop) :
  Forall (sat x) (concat (rev (map rows l))) <-> Forall (fun c => Forall (sat x) (rows c)) l.
Proof.
  rewrite Forall_concat. rewrite !Forall_forall. split.
  - intros H c Hc.
    assert (In (rows c) (rev (map rows l))) as Hin by (apply -> in_rev; apply in_map; auto).
    exact (H _ Hin).
  - intros H rs Hrs. apply in_rev in Hrs. apply in_map_iff in Hrs. destruct Hrs as (c & <- & Hc). auto.
Qed.

Lemma min_le_term s c : inb x c -> (s = 1 \/ s = -1) -> minterm s c <= s * x (id_of c).
Proof.
  unfold minterm. destruct c as [i lo hi | m i g lo hi s' v ch]; cbn [lo_of hi_of id_of].
  - cbn [inb]. intros H [-> | ->]; lia.
  - intros H. apply inb_node in H. destruct H as (-> & -> & Hx & _). intros [-> | ->]; lia.
Qed.
Lemma min_le_sum s ch : Forall (inb x) ch -> (s = 1 \/ s = -1) ->
  zsum (map (minterm s) ch) <= s * zsum (map (fun c => x (id_of c)) ch).
Proof.
  intros H Hs. induction H as [|c cs Hc Hcs IH]; cbn [map zsum]; [lia|].
  pose proof (min_le_term s c Hc Hs). lia.
Qed.

Lemma leaf_exact c : is_var c = true -> eval x c = x (id_of c).
Proof. destruct c; cbn; congruence. Qed.

Lemma sum_le ch :
  Forall (fun c => is_var c = false -> x (id_of c) = 1 -> eval x c = 1) ch -> Forall (inb x) ch ->
  zsum (map (fun c => x (id_of c)) ch) <= zsum (map (eval x) ch).
Proof.
  intros H Hin. induction H as [|c cs Hc Hcs IH]; cbn [map zsum]; [lia|].
  inversion Hin as [|? ? Hic Hics]; subst. specialize (IH Hics).
  assert (x (id_of c) <= eval x c); [|lia].
  destruct (is_var c) eqn:Ec; [rewrite leaf_exact; auto; lia|].
  pose proof (eval_comp_01 x c Ec).
  destruct c as [|cm ci cg clo chi cs' cv cch]; [discriminate|].
  apply inb_node in Hic. destruct Hic as (_ & _ & Hcx & _). cbn [id_of] in *.
  destruct (Z.eq_dec (x ci) 1) as [E1|E1]; [rewrite Hc; auto; lia | lia].
Qed.

Lemma sum_eq_leaves ch : forallb is_var ch = true ->
  zsum (map (fun c => x (id_of c)) ch) = zsum (map (eval x) ch).
Proof.
  induction ch as [|c cs IH]; cbn [forallb map zsum]; [reflexivity|].
  intros H. apply andb_true_iff in H. destruct H as [Hc Hcs]. rewrite leaf_exact, IH; auto.
Qed.

Lemma bigm_row_sat i s v ch : sat x (bigm_row i s v ch) <->
  (v - zsum (map (minterm s) ch)) * x i + zsum (map (minterm s) ch) <= s * zsum (map (fun c => x (id_of c)) ch).
Proof.
  unfold sat, bigm_row. cbn [fst snd]. unfold lhs. cbn [map zsum fst snd].
  fold (lhs x (map (fun c => (id_of c, s)) ch)). rewrite lhs_map. lia.
Qed.

Lemma sound_node p : inb x p -> solver_safe p = true -> is_var p = false ->
  Forall (sat x) (rows p) -> x (id_of p) = 1 -> eval x p = 1.
Proof.
  induction p as [i lo hi | m i g lo hi s v ch IH] using prop_ind'; intros Hin Hsafe Hv Hsat Hx; [discriminate|].
  apply inb_node in Hin. destruct Hin as (-> & -> & Hxi & Hs & Hch).
  cbn [solver_safe] in Hsafe. apply andb_true_iff in Hsafe. destruct Hsafe as [Hneg Hsafe].
  cbn [rows] in Hsat. inversion Hsat as [|r rs Hrow Hrest]; subst. apply sat_all_flat in Hrest.
  cbn [id_of] in Hx. apply bigm_row_sat in Hrow. rewrite Hx in Hrow.
  assert (Hrow' : v <= s * zsum (map (fun c => x (id_of c)) ch)) by lia. clear Hrow.
  cbn [eval].
  assert (Hcmp : s * zsum (map (fun c => x (id_of c)) ch) <= s * zsum (map (eval x) ch)).
  { destruct Hs as [-> | ->].
    - assert (zsum (map (fun c => x (id_of c)) ch) <= zsum (map (eval x) ch)); [|lia].
      apply sum_le; auto. rewrite forallb_forall in Hsafe. rewrite Forall_forall in *.
      intros c Hc Ec E1. apply IH; auto.
    - cbn in Hneg. rewrite (sum_eq_leaves ch Hneg). lia. }
  case_if; lia.
Qed.

Theorem encode_sound p : inb x p -> solver_safe p = true -> is_var p = false ->
  Forall (sat x) (encode true p) -> eval x p = 1.
Proof.
  destruct p as [|m i g lo hi s v ch]; [discriminate|]. intros Hin Hsafe _ Hsat.
  apply inb_node in Hin. destruct Hin as (-> & -> & Hxi & Hs & Hch).
  cbn [solver_safe] in Hsafe. apply andb_true_iff in Hsafe. destruct Hsafe as [Hneg Hsafe].
  cbn [encode] in Hsat. inversion Hsat as [|r rs Hrow Hrest]; subst. apply sat_all_flat in Hrest.
  unfold sat, direct_row in Hrow. cbn [fst snd] in Hrow. rewrite lhs_map in Hrow.
  cbn [eval].
  assert (Hcmp : s * zsum (map (fun c => x (id_of c)) ch) <= s * zsum (map (eval x) ch)).
  { destruct Hs as [-> | ->].
    - assert (zsum (map (fun c => x (id_of c)) ch) <= zsum (map (eval x) ch)); [|lia].
      apply sum_le; auto. rewrite forallb_forall in Hsafe. rewrite Forall_forall in *.
      intros c Hc Ec E1. apply sound_node; auto.
    - cbn in Hneg. rewrite (sum_eq_leaves ch Hneg). lia. }
  case_if; lia.
Qed.

Lemma sum_consistent ch : Forall (consistent x) ch -> zsum (map (fun c => x (id_of c)) ch) = zsum (map (eval x) ch).
Proof.
  induction 1 as [|c cs Hc Hcs IH]; cbn [map zsum]; [reflexivity|]. rewrite IH.
  destruct c as [|cm ci cg clo chi cs' cv cch]; [reflexivity|]. apply consistent_node in Hc. cbn [id_of]. destruct Hc as [-> _]. reflexivity.
Qed.
Theorem rows_feasible p : inb x p -> consistent x p -> Forall (sat x) (rows p).
Proof.
  induction p as [i lo hi | m i g lo hi s v ch IH] using prop_ind'; intros Hin Hc; [constructor|].
  apply inb_node in Hin. destruct Hin as (-> & -> & Hxi & Hs & Hch).
  apply consistent_node in Hc. destruct Hc as [Hxe Hcc].
  cbn [rows]. constructor.
  - apply bigm_row_sat. rewrite (sum_consistent ch Hcc).
    pose proof (min_le_sum s ch Hch Hs) as Hm. rewrite (sum_consistent ch Hcc) in Hm.
    rewrite Hxe. cbn [eval]. case_if; lia.
  - apply sat_all_flat. rewrite Forall_forall in *. intros c Hcin. apply IH; auto.
Qed.
Theorem encode_inactive p : inb x p -> consistent x p -> Forall (sat x) (encode false p).
Proof. destruct p; [constructor|]. apply rows_feasible. Qed.
Theorem encode_active p : inb x p -> consistent x p -> is_var p = false ->
  (Forall (sat x) (encode true p) <-> eval x p = 1).
Proof.
  destruct p as [|m i g lo hi s v ch]; [discriminate|]. intros Hin Hc _.
  pose proof Hin as Hin0. apply inb_node in Hin. destruct Hin as (-> & -> & Hxi & Hs & Hch).
  pose proof Hc as Hc0. apply consistent_node in Hc. destruct Hc as [Hxe Hcc].
  cbn [encode eval]. split.
  - intros Hsat. inversion Hsat as [|r rs Hrow Hrest]; subst.
    unfold sat, direct_row in Hrow. cbn [fst snd] in Hrow. rewrite lhs_map, (sum_consistent ch Hcc) in Hrow. case_if; lia.
  - intros He. constructor.
    + unfold sat, direct_row. cbn [fst snd]. rewrite lhs_map, (sum_consistent ch Hcc). case_if_in He; lia.
    + pose proof (rows_feasible _ Hin0 Hc0) as Hr. cbn [rows] in Hr. inversion Hr; auto.
Qed.
End S.

(* ---------- the extended assignment is consistent and in bounds ---------- *)
Lemma eval_ext x env p : (forall q, In q (nodes p) -> is_var q = true -> x (id_of q) = env (id_of q)) -> eval x p = eval env p.
Proof.
  induction p as [i lo hi | m i g lo hi s v ch IH] using prop_ind'; intros H.
  - cbn [eval]. apply (H (Var i lo hi)); cbn; auto.
  - cbn [eval]. assert (Hm : map (eval x) ch = map (eval env) ch).
    { apply map_ext_in. intros c Hc. rewrite Forall_forall in IH. apply IH; auto.
      intros q Hq Hv. apply H; auto. eapply in_nodes_child; eauto. }
    rewrite Hm. reflexivity.
Qed.
Lemma eval_core env a : forall b, core_eqb a b = true -> eval env a = eval env b.
Proof.
  induction a as [i lo hi | m i g lo hi s v ch IH] using prop_ind'; intros [j lo' hi' | m' j g' lo' hi' s' v' ch']; cbn [core_eqb]; try discriminate.
  - intros H. rewrite !andb_true_iff in H. destruct H as [[H1 H2] H3]. apply String.eqb_eq in H1. subst. reflexivity.
  - intros H. rewrite !andb_true_iff in H. destruct H as [[[[[[H1 H2] H3] H4] H5] H6] H7].
    assert (s = s') by lia. assert (v = v') by lia. subst. cbn [eval].
    assert (Hm : map (eval env) ch = map (eval env) ch').
    { clear - IH H7. revert ch' H7. induction ch as [|y ys IHy]; intros [|z zs] H; try discriminate; [reflexivity|].
      apply andb_true_iff in H. destruct H as [Hy Hys]. inversion IH; subst. cbn [map]. f_equal; auto. }
    rewrite Hm. reflexivity.
Qed.
Lemma nodes_trans p q r : In q (nodes p) -> In r (nodes q) -> In r (nodes p).
Proof.
  induction p as [i lo hi | m i g lo hi s v ch IH] using prop_ind'; cbn [nodes]; intros [<-|Hq] Hr; auto; [destruct Hq|].
  right. apply in_flat_map in Hq. destruct Hq as (c & Hc & Hq). apply in_flat_map. exists c. split; auto.
  rewrite Forall_forall in IH. eapply IH; eauto.
Qed.

Lemma child_in_nodes m mm i g lo hi s v ch c : In (Node mm i g lo hi s v ch) (nodes m) -> In c ch -> In c (nodes m).
Proof. intros Hp Hc. eapply nodes_trans; [exact Hp|]. eapply in_nodes_child; [exact Hc|apply in_nodes_self]. Qed.

Section Extend.
Variable env : ident -> Z.
Variable m : prop.
Hypothesis Hsd : single_def m.
Hypothesis Hla : leaves_apart m.

Lemma extend_leaf q : In q (nodes m) -> is_var q = true -> extend env m (id_of q) = env (id_of q).
Proof.
  intros Hq Hv. unfold extend. destruct (find (is_comp_with (id_of q)) (nodes m)) as [n|] eqn:E; [|reflexivity].
  apply find_some in E. destruct E as [Hn Hc]. unfold is_comp_with in Hc. apply andb_true_iff in Hc. destruct Hc as [Hc1 Hc2].
  apply String.eqb_eq in Hc2. exfalso. apply (Hla q n Hq Hn Hv); [destruct (is_var n); [discriminate|reflexivity]|congruence].
Qed.
Lemma extend_eval p : In p (nodes m) -> eval (extend env m) p = eval env p.
Proof. intros Hp. apply eval_ext. intros q Hq Hv. apply extend_leaf; auto. eapply nodes_trans; eauto. Qed.
Lemma extend_comp p : In p (nodes m) -> is_var p = false -> extend env m (id_of p) = eval env p.
Proof.
  intros Hp Hv. unfold extend. destruct (find (is_comp_with (id_of p)) (nodes m)) as [n|] eqn:E.
  - apply find_some in E. destruct E as [Hn Hc]. unfold is_comp_with in Hc. apply andb_true_iff in Hc. destruct Hc as [Hc1 Hc2].
    apply String.eqb_eq in Hc2. apply eval_core. apply Hsd; auto.
  - pose proof (find_none _ _ E p Hp) as Hf. unfold is_comp_with in Hf. rewrite Hv, String.eqb_refl in Hf. discriminate.
Qed.
Lemma extend_consistent p : In p (nodes m) -> consistent (extend env m) p.
Proof.
  induction p as [i lo hi | mm i g lo hi s v ch IH] using prop_ind'; intros Hp; [exact I|].
  apply consistent_node. split.
  - rewrite (extend_eval _ Hp). apply (extend_comp _ Hp). reflexivity.
  - rewrite Forall_forall in *. intros c Hc. apply IH; auto. eapply child_in_nodes; eauto.
Qed.
Lemma plain_inb_node e mm i g lo hi s v ch : plain_inb e (Node mm i g lo hi s v ch) <->
  lo = 0 /\ hi = 1 /\ (s = 1 \/ s = -1) /\ Forall (plain_inb e) ch.
Proof.
  cbn [plain_inb]. split; intros (A & B & C & D); repeat split; auto.
  - induction ch as [|c cs IH]; constructor; destruct D; auto.
  - induction D; cbn; auto.
Qed.
Lemma extend_inb p : In p (nodes m) -> plain_inb env p -> inb (extend env m) p.
Proof.
  induction p as [i lo hi | mm i g lo hi s v ch IH] using prop_ind'; intros Hp Hpl.
  - cbn [inb plain_inb] in *. pose proof (extend_leaf (Var i lo hi) Hp eq_refl) as He. cbn [id_of] in He. rewrite He. exact Hpl.
  - apply plain_inb_node in Hpl. destruct Hpl as (-> & -> & Hs & Hch). apply inb_node. repeat split; auto.
    + pose proof (extend_comp _ Hp eq_refl) as He. cbn [id_of] in He. rewrite He. pose proof (eval_node_01 env mm i g 0 1 s v ch). lia.
    + pose proof (extend_comp _ Hp eq_refl) as He. cbn [id_of] in He. rewrite He. pose proof (eval_node_01 env mm i g 0 1 s v ch). lia.
    + rewrite Forall_forall in *. intros c Hc. apply IH; auto. eapply child_in_nodes; eauto.
Qed.

(* C01, stated with the extended assignment *)
Theorem encode_agrees : plain_inb env m -> is_var m = false ->
  (Forall (sat (extend env m)) (encode true m) <-> eval env m = 1) /\ Forall (sat (extend env m)) (encode false m).
Proof.
  intros Hpl Hv. pose proof (extend_inb m (in_nodes_self m) Hpl) as Hin. pose proof (extend_consistent m (in_nodes_self m)) as Hc.
  split; [|apply encode_inactive; auto].
  rewrite <- (extend_eval m (in_nodes_self m)). apply encode_active; auto.
Qed.
(* C02 completeness *)
Theorem encode_complete : plain_inb env m -> is_var m = false -> eval env m = 1 ->
  exists x, inb x m /\ (forall q, In q (nodes m) -> is_var q = true -> x (id_of q) = env (id_of q)) /\ Forall (sat x) (encode true m).
Proof.
  intros Hpl Hv He. exists (extend env m). split; [apply extend_inb; auto using in_nodes_self|]. split.
  - intros q Hq Hqv. apply extend_leaf; auto.
  - apply (proj1 (encode_agrees Hpl Hv)). exact He.
Qed.
End Extend.

(* ---------- dense rows (the matrix handed out by to_ge_polyhedron) ---------- *)
Lemma dot_single (x : ident -> Z) k w cols : NoDup cols -> In k cols ->
  dot (map (fun c => if String.eqb k c then w else 0) cols) (map x cols) = w * x k.
Proof.
  induction cols as [|c cs IH]; intros Hnd Hin; [destruct Hin|]. inversion Hnd as [|? ? Hnc Hnd']; subst.
  cbn [map dot]. destruct (String.eqb k c) eqn:E.
  - apply String.eqb_eq in E. subst c.
    assert (Hz : dot (map (fun c => if String.eqb k c then w else 0) cs) (map x cs) = 0).
    { clear - Hnc. induction cs as [|d ds IHd]; cbn [map dot]; [reflexivity|].
      destruct (String.eqb k d) eqn:E; [apply String.eqb_eq in E; subst; exfalso; apply Hnc; left; reflexivity|].
      rewrite IHd; [lia|]. intros H. apply Hnc. right. exact H. }
    rewrite Hz. lia.
  - destruct Hin as [->|Hin]; [rewrite String.eqb_refl in E; discriminate|]. rewrite IH by auto. lia.
Qed.
Lemma dot_add (f g : ident -> Z) (x : ident -> Z) cols :
  dot (map (fun c => f c + g c) cols) (map x cols) = dot (map f cols) (map x cols) + dot (map g cols) (map x cols).
Proof. induction cols as [|c cs IH]; cbn [map dot]; lia. Qed.
Theorem dense_row (x : ident -> Z) (r : row) cols : NoDup cols -> (forall e, In e (snd r) -> In (fst e) cols) ->
  (sat_dense (map x cols) (dense cols r) <-> sat x r).
Proof.
  intros Hnd Hin. unfold dense, sat_dense, sat.
  assert (H : dot (map (coef_of r) cols) (map x cols) = lhs x (snd r)); [|rewrite H; tauto].
  destruct r as [b es]. cbn [snd] in *. unfold coef_of, lhs. cbn [snd]. clear b.
  induction es as [|e es IH]; cbn [map zsum].
  - clear. induction cols as [|c cs IHc]; cbn [map dot zsum]; [reflexivity|]. cbn [map zsum] in IHc. rewrite IHc. lia.
  - rewrite (dot_add (fun i => if String.eqb (fst e) i then snd e else 0) (fun i => zsum (map (fun e0 => if String.eqb (fst e0) i then snd e0 else 0) es))).
    rewrite IH by (intros; apply Hin; right; auto). rewrite dot_single; auto. apply Hin. left. reflexivity.
Qed.
