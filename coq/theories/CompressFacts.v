(* CompressFacts.v — proofs about the model Compress.v against the specification
   CompressSpec.v (C13), for lists of ANY length and unbounded Z. *)
Require Import Puan.Base Puan.Compress Puan.CompressSpec.
From Coq Require Import Sorting.Sorted.

(* ================================================================= generic list lemmas *)
Lemma zsum_map_add {A} (f g : A -> Z) l :
  zsum (map (fun a => f a + g a) l) = zsum (map f l) + zsum (map g l).
Proof. induction l; cbn [map zsum]; lia. Qed.
Lemma zsum_map_ext {A} (f g : A -> Z) l :
  (forall a, In a l -> f a = g a) -> zsum (map f l) = zsum (map g l).
Proof.
  induction l as [|a l IH]; intros H; cbn [map zsum]; [reflexivity|].
  rewrite (H a (or_introl eq_refl)), IH; [reflexivity|]. intros; apply H; right; assumption.
Qed.
Lemma zsum_map_zero {A} (f : A -> Z) l : (forall a, In a l -> f a = 0) -> zsum (map f l) = 0.
Proof. induction l as [|a l IH]; intros H; cbn [map zsum]; [reflexivity|]. rewrite (H a (or_introl eq_refl)), IH; [reflexivity|]. intros; apply H; right; assumption. Qed.
Lemma zsum_map_nonneg {A} (f : A -> Z) l : (forall a, In a l -> 0 <= f a) -> 0 <= zsum (map f l).
Proof. induction l as [|a l IH]; intros H; cbn [map zsum]; [lia|]. pose proof (H a (or_introl eq_refl)). assert (0 <= zsum (map f l)) by (apply IH; intros; apply H; right; assumption). lia. Qed.
Lemma zsum_map_le {A} (f g : A -> Z) l :
  (forall a, In a l -> f a <= g a) -> zsum (map f l) <= zsum (map g l).
Proof.
  induction l as [|a l IH]; intros H; cbn [map zsum]; [lia|].
  pose proof (H a (or_introl eq_refl)). assert (zsum (map f l) <= zsum (map g l)) by (apply IH; intros; apply H; right; assumption). lia.
Qed.
(* one term of a sum of non-negative terms *)
Lemma zsum_map_ge_term {A} (f : A -> Z) l a :
  In a l -> (forall b, In b l -> 0 <= f b) -> f a <= zsum (map f l).
Proof.
  induction l as [|b l IH]; intros Hin H; [destruct Hin|]. cbn [map zsum].
  assert (0 <= zsum (map f l)) by (apply zsum_map_nonneg; intros; apply H; right; assumption).
  destruct Hin as [->|Hin].
  - lia.
  - pose proof (H b (or_introl eq_refl)). assert (f a <= zsum (map f l)) by (apply IH; [assumption|intros; apply H; right; assumption]). lia.
Qed.
Lemma zsum_exchange {A B} (f : A -> B -> Z) la lb :
  zsum (map (fun a => zsum (map (fun b => f a b) lb)) la) = zsum (map (fun b => zsum (map (fun a => f a b) la)) lb).
Proof.
  induction la as [|a la IH]; cbn [map zsum].
  - symmetry. apply zsum_map_zero. reflexivity.
  - rewrite IH. rewrite <- zsum_map_add. reflexivity.
Qed.
Lemma zsum_rev l : zsum (rev l) = zsum l.
Proof. apply zsum_perm. apply Permutation_sym, Permutation_rev. Qed.
Lemma zsum_flat_map {A} (f : A -> list Z) l : zsum (flat_map f l) = zsum (map (fun a => zsum (f a)) l).
Proof. induction l; cbn [flat_map map zsum]; [reflexivity|]. rewrite zsum_app. lia. Qed.

(* ================================================================= A. the bit allocation *)
Definition last_opt (l : list Z) (d : option Z) : option Z := fold_left (fun _ x => Some x) l d.

Lemma oba_go_length p w t l : List.length (oba_go p w t l) = List.length l.
Proof. revert p w t; induction l; intros; cbn [oba_go List.length]; [reflexivity|]. rewrite IHl. reflexivity. Qed.
Lemma oba_length l : List.length (oba l) = List.length l.
Proof. apply oba_go_length. Qed.

(* the state reached after a prefix *)
Fixpoint oba_state (prev : option Z) (w total : Z) (l : list Z) : option Z * Z * Z :=
  match l with
  | [] => (prev, w, total)
  | x :: xs =>
      let same := match prev with Some p => p =? x | None => false end in
      let w' := if same then w else 1 + total in
      oba_state (Some x) w' (total + w') xs
  end.
Lemma oba_go_app p w t l1 l2 :
  oba_go p w t (l1 ++ l2) =
  oba_go p w t l1 ++ (let '(p', w', t') := oba_state p w t l1 in oba_go p' w' t' l2).
Proof.
  revert p w t; induction l1 as [|x l1 IH]; intros; cbn [app oba_go oba_state]; [reflexivity|].
  rewrite IH. reflexivity.
Qed.
Lemma last_cons_indep {A} (a : A) l d d' : last (a :: l) d = last (a :: l) d'.
Proof. revert a; induction l as [|b l IH]; intros; [reflexivity|]. change (last (b :: l) d = last (b :: l) d'). apply IH. Qed.
Lemma last_cons2 {A} (a b : A) l d : last (a :: b :: l) d = last (b :: l) d.
Proof. reflexivity. Qed.
Lemma oba_state_spec p w t l :
  oba_state p w t l = (last_opt l p, last (oba_go p w t l) w, t + zsum (oba_go p w t l)).
Proof.
  revert p w t; induction l as [|x l IH]; intros; cbn [oba_state oba_go last_opt fold_left zsum].
  - rewrite Z.add_0_r. reflexivity.
  - rewrite IH. unfold last_opt. f_equal; [f_equal|].
    + set (w' := if match p with Some p0 => p0 =? x | None => false end then w else 1 + t).
      destruct l as [|y l]; [reflexivity|]. cbn [oba_go]. rewrite last_cons2. apply last_cons_indep.
    + lia.
Qed.
Lemma oba_snoc l x :
  oba (l ++ [x]) =
  oba l ++ [if match last_opt l None with Some y => y =? x | None => false end
            then last (oba l) 0 else 1 + zsum (oba l)].
Proof.
  unfold oba. rewrite oba_go_app, oba_state_spec. cbn [oba_go]. do 3 f_equal.
Qed.

(* all weights are at least 1 *)
Lemma oba_go_pos p w t l :
  0 <= t -> (p = None \/ 1 <= w) -> Forall (fun v => 1 <= v) (oba_go p w t l).
Proof.
  revert p w t; induction l as [|x l IH]; intros p w t Ht Hw; cbn [oba_go]; constructor.
  - destruct p as [p|]; [|lia]. destruct (p =? x); [destruct Hw; [discriminate|lia]|lia].
  - apply IH.
    + destruct p as [p|]; [destruct (p =? x); [destruct Hw; [discriminate|lia]|lia]|lia].
    + right. destruct p as [p|]; [destruct (p =? x); [destruct Hw; [discriminate|lia]|lia]|lia].
Qed.
Lemma oba_pos l : Forall (fun v => 1 <= v) (oba l).
Proof. apply oba_go_pos; [lia|left; reflexivity]. Qed.

(* ---- keys: a strict total order on (row, magnitude) ---- *)
Lemma key_ltb_irrefl k : key_ltb k k = false.
Proof. unfold key_ltb. lia. Qed.
Lemma key_ltb_lt a b : key_ltb a b = true <-> key_lt a b.
Proof. unfold key_ltb, key_lt. lia. Qed.
Lemma key_ltb_trans a b c : key_ltb a b = true -> key_ltb b c = true -> key_ltb a c = true.
Proof. unfold key_ltb. lia. Qed.
Lemma key_le_lt_trans a b c : key_ltb b a = false -> key_ltb b c = true -> key_ltb a c = true.
Proof. unfold key_ltb. lia. Qed.
Lemma key_lt_le_trans a b c : key_ltb a b = true -> key_ltb c b = false -> key_ltb a c = true.
Proof. unfold key_ltb. lia. Qed.
Lemma key_le_trans a b c : key_ltb b a = false -> key_ltb c b = false -> key_ltb c a = false.
Proof. unfold key_ltb. lia. Qed.
Lemma key_trichotomy a b : key_ltb a b = true \/ a = b \/ key_ltb b a = true.
Proof. destruct a as [r x], b as [r' x']. unfold key_ltb; cbn [fst snd]. assert ((r < r')%nat \/ (r' < r)%nat \/ (r = r' /\ (x < x' \/ x' < x \/ x = x'))) as H by lia. destruct H as [H|[H|[H [H'|[H'|H']]]]]; try (left; lia); try (right; right; lia). right; left; subst; reflexivity. Qed.
Lemma key_eqb_eq a b : key_eqb a b = true <-> a = b.
Proof. destruct a, b; unfold key_eqb; cbn [fst snd]. split; [intros H; f_equal; lia|intros H; inversion H; subst; lia]. Qed.

Definition sumlt (kw : list (key * Z)) (k : key) : Z :=
  zsum (map (fun e => if key_ltb (fst e) k then snd e else 0) kw).

(* ---- the allocation read from the end of the list ---- *)
Fixpoint wrev (r : list (key * Z)) : list Z :=
  match r with
  | [] => []
  | x :: r' =>
      let ws := wrev r' in
      (match r' with
       | y :: _ => if snd y =? snd x then hd 0 ws else 1 + zsum ws
       | [] => 1
       end) :: ws
  end.
Lemma wrev_length r : List.length (wrev r) = List.length r.
Proof. induction r; cbn [wrev List.length]; [reflexivity|]. rewrite IHr; reflexivity. Qed.
Lemma last_opt_snoc l x d : last_opt (l ++ [x]) d = Some x.
Proof. unfold last_opt. rewrite fold_left_app. reflexivity. Qed.
Lemma oba_rev (r : list (key * Z)) : oba (map snd (rev r)) = rev (wrev r).
Proof.
  induction r as [|x r IH]; [reflexivity|].
  cbn [rev]. rewrite map_app. cbn [map]. rewrite oba_snoc, IH. cbn [wrev rev]. f_equal. f_equal.
  destruct r as [|y r]; [reflexivity|].
  cbn [rev]. rewrite map_app. cbn [map]. rewrite last_opt_snoc.
  rewrite zsum_rev.
  destruct (snd y =? snd x); [|reflexivity].
  cbn [wrev rev hd]. apply last_last.
Qed.

Definition adjacent {A} (P : A -> A -> Prop) (l : list A) : Prop :=
  forall l1 a b l2, l = l1 ++ a :: b :: l2 -> P a b.
Lemma adjacent_tl {A} (P : A -> A -> Prop) x l : adjacent P (x :: l) -> adjacent P l.
Proof. intros H l1 a b l2 E. apply (H (x :: l1) a b l2). rewrite E. reflexivity. Qed.
Lemma adjacent_rev {A} (P : A -> A -> Prop) l : adjacent P l -> adjacent (fun a b => P b a) (rev l).
Proof.
  intros H l1 a b l2 E. apply (H (rev l2) b a (rev l1)).
  rewrite <- (rev_involutive l), E. rewrite rev_app_distr. cbn [rev]. rewrite <- !app_assoc. reflexivity.
Qed.

Lemma map_snd_combine {A B} (a : list A) (b : list B) :
  List.length a = List.length b -> map snd (combine a b) = b.
Proof. revert b; induction a; intros [|y b] H; cbn in *; try discriminate; [reflexivity|]. f_equal. apply IHa. lia. Qed.
Lemma map_fst_combine {A B} (a : list A) (b : list B) :
  List.length a = List.length b -> map fst (combine a b) = a.
Proof. revert b; induction a; intros [|y b] H; cbn in *; try discriminate; [reflexivity|]. f_equal. apply IHa. lia. Qed.

(* r lists the items LAST FIRST: keys are non-increasing along r; neighbours carry equal
   encodings exactly when they carry equal keys *)
Definition desc (r : list (key * Z)) : Prop :=
  StronglySorted (fun a b => key_ltb a b = false) (map fst r).
Definition enc_ok (y x : key * Z) : Prop := snd y = snd x <-> fst y = fst x.

Lemma wrev_keys r :
  desc r -> adjacent (fun x y => enc_ok y x) r ->
  let KW := combine (map fst r) (wrev r) in
  Forall (fun e => snd e = 1 + sumlt KW (fst e)) KW.
Proof.
  induction r as [|x r IH]; intros Hd Ha; [constructor|].
  unfold desc in Hd. cbn [map] in Hd. apply StronglySorted_inv in Hd. destruct Hd as [Hd Hx].
  specialize (IH Hd (adjacent_tl _ _ _ Ha)). cbn zeta in IH.
  cbn [map wrev combine]. set (KW' := combine (map fst r) (wrev r)) in *.
  set (wx := match r with y :: _ => if snd y =? snd x then hd 0 (wrev r) else 1 + zsum (wrev r) | [] => 1 end).
  assert (Hsum : forall k, sumlt ((fst x, wx) :: KW') k = (if key_ltb (fst x) k then wx else 0) + sumlt KW' k) by reflexivity.
  assert (Hin : forall e, In e KW' -> key_ltb (fst x) (fst e) = false).
  { intros [k w] He. rewrite Forall_forall in Hx. apply Hx. apply in_combine_l in He. exact He. }
  constructor.
  - cbn [fst snd]. rewrite Hsum, key_ltb_irrefl.
    destruct r as [|y r].
    + subst wx KW'. reflexivity.
    + pose proof (Ha [] x y r eq_refl) as Hxy. unfold enc_ok in Hxy.
      subst wx. destruct (snd y =? snd x) eqn:E.
      * assert (fst y = fst x) as Hk by (apply Hxy; lia).
        subst KW'. cbn [map wrev combine] in IH. apply Forall_inv in IH. cbn [fst snd] in IH.
        cbn [wrev hd]. rewrite <- Hk. rewrite IH at 1. reflexivity.
      * assert (fst y <> fst x) as Hk by (intros Hk; apply Hxy in Hk; lia).
        assert (key_ltb (fst y) (fst x) = true) as Hlt.
        { assert (key_ltb (fst x) (fst y) = false) as H1.
          { apply (Hin (fst y, hd 0 (wrev (y :: r)))). subst KW'. cbn [map wrev combine hd]. left. reflexivity. }
          destruct (key_trichotomy (fst y) (fst x)) as [H|[H|H]]; [exact H|contradiction|].
          rewrite H1 in H; discriminate. }
        assert (sumlt KW' (fst x) = zsum (wrev (y :: r))) as ->; [|lia].
        assert (Hs : zsum (wrev (y :: r)) = zsum (map snd KW')).
        { subst KW'. rewrite map_snd_combine; [reflexivity|]. rewrite map_length, wrev_length; reflexivity. }
        rewrite Hs. unfold sumlt. f_equal. apply map_ext_in. intros [k w] He. cbn [fst snd].
        assert (key_ltb k (fst x) = true) as ->; [|reflexivity].
        apply in_combine_l in He. cbn [map] in He.
        apply StronglySorted_inv in Hd. destruct Hd as [_ Hy]. rewrite Forall_forall in Hy.
        destruct He as [He|He].
        -- rewrite <- He. exact Hlt.
        -- eapply key_le_lt_trans; [|exact Hlt]. apply Hy. exact He.
  - rewrite Forall_forall in IH |- *. intros e He. rewrite Hsum, (Hin e He). rewrite (IH e He) at 1. lia.
Qed.

Lemma SS_app {A} (R : A -> A -> Prop) l1 l2 :
  StronglySorted R l1 -> StronglySorted R l2 -> (forall a b, In a l1 -> In b l2 -> R a b) ->
  StronglySorted R (l1 ++ l2).
Proof.
  induction l1 as [|x l1 IH]; intros H1 H2 H; [exact H2|].
  apply StronglySorted_inv in H1. destruct H1 as [H1 Hx]. cbn [app]. constructor.
  - apply IH; [assumption..|]. intros; apply H; [right|]; assumption.
  - apply Forall_app. split; [exact Hx|]. apply Forall_forall. intros b Hb. apply H; [left; reflexivity|exact Hb].
Qed.
Lemma SS_rev {A} (R : A -> A -> Prop) l :
  StronglySorted R l -> StronglySorted (fun a b => R b a) (rev l).
Proof.
  induction 1 as [|x l Hl IH Hx]; [constructor|]. cbn [rev]. apply SS_app; [exact IH|repeat constructor|].
  intros a b Ha [<-|[]]. rewrite Forall_forall in Hx. apply Hx. apply in_rev. exact Ha.
Qed.
Lemma combine_rev {A B} (a : list A) (b : list B) :
  List.length a = List.length b -> combine (rev a) (rev b) = rev (combine a b).
Proof.
  revert b; induction a as [|x a IH]; intros [|y b] H; cbn [List.length] in H; try discriminate; [reflexivity|].
  cbn [rev combine]. rewrite <- IH by lia. clear IH.
  assert (List.length (rev a) = List.length (rev b)) as L by (rewrite !rev_length; lia).
  revert L. generalize (rev a) (rev b). intros u; induction u as [|p u IHu]; intros [|q v] L; cbn in *; try discriminate; [reflexivity|].
  f_equal. apply IHu. lia.
Qed.
Lemma sumlt_rev kw k : sumlt (rev kw) k = sumlt kw k.
Proof. unfold sumlt. rewrite map_rev. apply zsum_rev. Qed.
Lemma combine_pointwise {A} (F : A -> Z) (a : list A) (b : list Z) :
  List.length a = List.length b -> Forall (fun e => snd e = F (fst e)) (combine a b) -> b = map F a.
Proof.
  revert b; induction a as [|x a IH]; intros [|y b] H HF; cbn [List.length] in H; try discriminate; [reflexivity|].
  cbn [combine] in HF. apply Forall_cons_iff in HF. destruct HF as [H1 H2]. cbn [fst snd] in H1. cbn [map]. f_equal; [exact H1|].
  apply IH; [lia|exact H2].
Qed.

(* THE ALLOCATION THEOREM.  If the items arrive sorted by key and neighbouring items have
   equal encodings exactly when they have equal keys, the weight of every item is one more
   than the total weight of all items with a strictly smaller key. *)
Definition weight_fn (ks : list key) (vals : list Z) (k : key) : Z := 1 + sumlt (combine ks vals) k.
Theorem oba_keys (its : list (key * Z)) :
  StronglySorted (fun a b => key_ltb b a = false) (map fst its) ->
  adjacent enc_ok its ->
  oba (map snd its) = map (weight_fn (map fst its) (oba (map snd its))) (map fst its).
Proof.
  intros Hs Ha.
  assert (L : List.length (map fst its) = List.length (oba (map snd its))) by (rewrite oba_length, !map_length; reflexivity).
  apply combine_pointwise; [exact L|]. unfold weight_fn.
  pose proof (wrev_keys (rev its)) as H. cbn zeta in H.
  assert (E1 : oba (map snd its) = rev (wrev (rev its))) by (rewrite <- oba_rev, rev_involutive; reflexivity).
  assert (E2 : combine (map fst its) (oba (map snd its)) = rev (combine (map fst (rev its)) (wrev (rev its)))).
  { rewrite E1, <- combine_rev by (rewrite map_length, wrev_length; reflexivity). rewrite map_rev, rev_involutive. reflexivity. }
  rewrite E2. apply Forall_rev.
  eapply Forall_impl; [|apply H].
  - intros e He. rewrite sumlt_rev. exact He.
  - unfold desc. rewrite map_rev. apply SS_rev in Hs. exact Hs.
  - apply adjacent_rev in Ha. exact Ha.
Qed.

(* ================================================================= B. list plumbing *)
Lemma nth_map_seq {A} (h : nat -> A) s n j d : (j < n)%nat -> nth j (map h (seq s n)) d = h (s + j)%nat.
Proof.
  revert s j; induction n as [|n IH]; intros s j H; [lia|]. cbn [seq map]. destruct j as [|j]; cbn [nth].
  - f_equal. lia.
  - rewrite IH by lia. f_equal. lia.
Qed.
Lemma combine_seq_map (l : list Z) s :
  combine (seq s (List.length l)) l = map (fun j => (j, nth (j - s) l 0)) (seq s (List.length l)).
Proof.
  revert s; induction l as [|x l IH]; intros s; [reflexivity|]. cbn [List.length seq combine map].
  f_equal; [rewrite Nat.sub_diag; reflexivity|]. rewrite IH. apply map_ext_in. intros j Hj. apply in_seq in Hj.
  replace (j - s)%nat with (S (j - S s)) by lia. reflexivity.
Qed.
Lemma enum_as_map (l : list Z) : enum l = map (fun j => (j, nth j l 0)) (seq 0 (List.length l)).
Proof. unfold enum. rewrite combine_seq_map. apply map_ext. intros j. rewrite Nat.sub_0_r. reflexivity. Qed.
Lemma map_snd_enum {A} (l : list A) : map snd (enum l) = l.
Proof. unfold enum. apply map_snd_combine. rewrite seq_length. reflexivity. Qed.
Lemma map_fst_enum {A} (l : list A) : map fst (enum l) = seq 0 (List.length l).
Proof. unfold enum. apply map_fst_combine. rewrite seq_length. reflexivity. Qed.
Lemma in_combine_seq {A} (l : list A) d i x s :
  In (i, x) (combine (seq s (List.length l)) l) <-> (s <= i < s + List.length l)%nat /\ nth (i - s) l d = x.
Proof.
  revert s; induction l as [|y l IH]; intros s; cbn [List.length seq combine In].
  - split; [intros []|lia].
  - rewrite IH. split.
    + intros [H|[H1 H2]].
      * inversion H; subst. rewrite Nat.sub_diag. split; [lia|reflexivity].
      * split; [lia|]. replace (i - s)%nat with (S (i - S s)) by lia. exact H2.
    + intros [H1 H2]. destruct (Nat.eq_dec s i) as [->|Hne].
      * left. rewrite Nat.sub_diag in H2. cbn in H2. subst; reflexivity.
      * right. split; [lia|]. replace (i - s)%nat with (S (i - S s)) in H2 by lia. exact H2.
Qed.
Lemma in_enum {A} (l : list A) d i x : In (i, x) (enum l) <-> (i < List.length l)%nat /\ nth i l d = x.
Proof. unfold enum. rewrite (in_combine_seq l d i x 0). rewrite Nat.sub_0_r. split; intros [H1 H2]; (split; [lia|exact H2]). Qed.
Lemma filter_map_snd {A B} (f : B -> bool) (l : list (A * B)) :
  map snd (filter (fun p => f (snd p)) l) = filter f (map snd l).
Proof. induction l as [|p l IH]; cbn [filter map]; [reflexivity|]. destruct (f (snd p)); cbn [map]; rewrite IH; reflexivity. Qed.
Lemma zsum_filter {A} (f : A -> bool) (g : A -> Z) l :
  zsum (map g (filter f l)) = zsum (map (fun a => if f a then g a else 0) l).
Proof. induction l as [|a l IH]; cbn [filter map zsum]; [reflexivity|]. destruct (f a); cbn [map zsum]; rewrite IH; reflexivity. Qed.
Lemma zsum_single (n i0 : nat) (X : Z) :
  (i0 < n)%nat -> zsum (map (fun i => if (i =? i0)%nat then X else 0) (seq 0 n)) = X.
Proof.
  assert (G : forall s n, zsum (map (fun i => if (i =? i0)%nat then X else 0) (seq s n)) = if ((s <=? i0) && (i0 <? s + n))%nat then X else 0).
  { intros s m; revert s; induction m as [|m IH]; intros s; cbn [seq map zsum].
    - destruct ((s <=? i0)%nat && (i0 <? s + 0)%nat) eqn:E; [lia|reflexivity].
    - rewrite IH. destruct (s =? i0)%nat eqn:E1, ((S s <=? i0)%nat && (i0 <? S s + m)%nat) eqn:E2, ((s <=? i0)%nat && (i0 <? s + S m)%nat) eqn:E3; lia. }
  intros H. rewrite G. destruct ((0 <=? i0)%nat && (i0 <? 0 + n)%nat) eqn:E; [reflexivity|lia].
Qed.

(* numpy max / min of lists whose entries are 0 except (possibly) one value *)
Lemma lmax_zero_or (l : list Z) (W : Z) :
  0 <= W -> (forall x, In x l -> x = 0 \/ x = W) -> In W l -> lmax l = W.
Proof.
  intros HW. induction l as [|x l IH]; intros H Hin; [destruct Hin|].
  cbn [lmax]. destruct l as [|y l].
  - destruct Hin as [->|[]]. reflexivity.
  - assert (Hx : x = 0 \/ x = W) by (apply H; left; reflexivity).
    destruct Hin as [->|Hin].
    + assert (lmax (y :: l) = 0 \/ lmax (y :: l) = W) as Hm.
      { clear IH Hx. assert (Hl : forall z, In z (y :: l) -> z = 0 \/ z = W) by (intros; apply H; right; assumption).
        clear H. revert Hl. generalize (y :: l) as u. induction u as [|a u IHu]; intros Hl; [left; reflexivity|].
        cbn [lmax]. destruct u as [|b u]; [apply Hl; left; reflexivity|].
        destruct (Hl a (or_introl eq_refl)), IHu as [E|E]; try (intros; apply Hl; right; assumption); rewrite E; lia. }
      lia.
    + rewrite IH; [lia| |exact Hin]. intros; apply H; right; assumption.
Qed.
Lemma lmax_all_zero (l : list Z) : (forall x, In x l -> x = 0) -> lmax l = 0.
Proof.
  induction l as [|x l IH]; intros H; [reflexivity|]. cbn [lmax]. destruct l as [|y l].
  - apply H; left; reflexivity.
  - rewrite IH by (intros; apply H; right; assumption). rewrite (H x) by (left; reflexivity). reflexivity.
Qed.
Lemma lmin_all_zero (l : list Z) : (forall x, In x l -> x = 0) -> lmin l = 0.
Proof.
  induction l as [|x l IH]; intros H; [reflexivity|]. cbn [lmin]. destruct l as [|y l].
  - apply H; left; reflexivity.
  - rewrite IH by (intros; apply H; right; assumption). rewrite (H x) by (left; reflexivity). reflexivity.
Qed.
Lemma lmin_zero_or (l : list Z) (v : Z) :
  (forall x, In x l -> x = 0 \/ x = v) -> In v l -> (lmin l <? 0) = (v <? 0).
Proof.
  induction l as [|x l IH]; intros H Hin; [destruct Hin|].
  cbn [lmin]. destruct l as [|y l].
  - destruct Hin as [->|[]]. reflexivity.
  - assert (Hx : x = 0 \/ x = v) by (apply H; left; reflexivity).
    assert (Hl : forall z, In z (y :: l) -> z = 0 \/ z = v) by (intros; apply H; right; assumption).
    assert (lmin (y :: l) = 0 \/ lmin (y :: l) = v) as Hm.
    { clear IH Hx H Hin. revert Hl. generalize (y :: l) as u. induction u as [|a u IHu]; intros Hl; [left; reflexivity|].
      cbn [lmin]. destruct u as [|b u]; [apply Hl; left; reflexivity|].
      destruct (Hl a (or_introl eq_refl)), IHu as [E|E]; try (intros; apply Hl; right; assumption); rewrite E; lia. }
    destruct Hin as [->|Hin].
    + lia.
    + specialize (IH Hl Hin). lia.
Qed.

(* ---- the stable sort ---- *)
Lemma ins_p_perm p l : Permutation (ins_p p l) (p :: l).
Proof.
  induction l as [|q l IH]; cbn [ins_p]; [reflexivity|]. destruct (snd q <? snd p); [|reflexivity].
  rewrite IH. apply perm_swap.
Qed.
Lemma sort_p_perm l : Permutation (sort_p l) l.
Proof. induction l as [|p l IH]; cbn [sort_p]; [reflexivity|]. rewrite ins_p_perm. constructor. exact IH. Qed.
Definition ple (a b : nat * Z) : Prop := snd a <= snd b.
Lemma ins_p_sorted p l : StronglySorted ple l -> StronglySorted ple (ins_p p l).
Proof.
  induction 1 as [|q l Hl IH Hq]; cbn [ins_p]; [repeat constructor|].
  destruct (snd q <? snd p) eqn:E.
  - constructor; [exact IH|]. rewrite Forall_forall in Hq |- *. intros x Hx.
    apply (Permutation_in _ (ins_p_perm p l)) in Hx. destruct Hx as [<-|Hx]; [unfold ple; lia|apply Hq; exact Hx].
  - constructor; [constructor; assumption|]. constructor; [unfold ple; lia|].
    rewrite Forall_forall in Hq |- *. intros x Hx. specialize (Hq x Hx). unfold ple in *. lia.
Qed.
Lemma sort_p_sorted l : StronglySorted ple (sort_p l).
Proof. induction l as [|p l IH]; cbn [sort_p]; [constructor|]. apply ins_p_sorted. exact IH. Qed.
Lemma SS_filter {A} (R : A -> A -> Prop) f l : StronglySorted R l -> StronglySorted R (filter f l).
Proof.
  induction 1 as [|x l Hl IH Hx]; cbn [filter]; [constructor|]. destruct (f x); [|exact IH].
  constructor; [exact IH|]. rewrite Forall_forall in Hx |- *. intros y Hy. apply filter_In in Hy. apply Hx, Hy.
Qed.
Lemma SS_map {A B} (R : A -> A -> Prop) (R' : B -> B -> Prop) (f : A -> B) l :
  (forall a b, R a b -> R' (f a) (f b)) -> StronglySorted R l -> StronglySorted R' (map f l).
Proof.
  intros H. induction 1 as [|x l Hl IH Hx]; cbn [map]; [constructor|]. constructor; [exact IH|].
  rewrite Forall_forall in Hx |- *. intros y Hy. apply in_map_iff in Hy. destruct Hy as [a [<- Ha]]. apply H, Hx, Ha.
Qed.

Lemma sorted_nz_in row j a :
  In (j, a) (sorted_nz row) <-> (j < List.length row)%nat /\ nth j row 0 = a /\ a <> 0.
Proof.
  unfold sorted_nz. rewrite filter_In. cbn [snd]. unfold nzb.
  split.
  - intros [H1 H2]. apply (Permutation_in _ (sort_p_perm _)) in H1. apply (in_enum row 0) in H1. destruct H1; repeat split; try assumption. lia.
  - intros [H1 [H2 H3]]. split; [|lia]. apply (Permutation_in _ (Permutation_sym (sort_p_perm _))). apply (in_enum row 0). split; assumption.
Qed.
Lemma NoDup_map_fst_filter {A B} (f : A * B -> bool) l : NoDup (map fst l) -> NoDup (map fst (filter f l)).
Proof.
  induction l as [|p l IH]; cbn [map filter]; intros H; [constructor|]. inversion H as [|? ? Hn Hd]; subst.
  destruct (f p); cbn [map]; [|apply IH; exact Hd]. constructor; [|apply IH; exact Hd].
  intros Hin. apply Hn. apply in_map_iff in Hin. destruct Hin as [q [E Hq]]. apply filter_In in Hq. apply in_map_iff. exists q. split; [exact E|apply Hq].
Qed.
Lemma sorted_nz_nodup row : NoDup (map fst (sorted_nz row)).
Proof.
  unfold sorted_nz. apply NoDup_map_fst_filter.
  eapply Permutation_NoDup; [apply Permutation_map, Permutation_sym, sort_p_perm|].
  rewrite map_fst_enum. apply seq_NoDup.
Qed.

Lemma plookup_in j w l : NoDup (map fst l) -> In (j, w) l -> plookup j l = w.
Proof.
  induction l as [|p l IH]; intros Hn Hin; [destruct Hin|]. cbn [map] in Hn. inversion Hn as [|? ? Hx Hd]; subst.
  cbn [plookup]. destruct Hin as [->|Hin].
  - cbn [fst snd]. rewrite Nat.eqb_refl. reflexivity.
  - destruct (Nat.eqb (fst p) j) eqn:E.
    + exfalso. apply Hx. apply Nat.eqb_eq in E. rewrite E. apply in_map_iff. exists (j, w). split; [reflexivity|exact Hin].
    + apply IH; assumption.
Qed.
Lemma plookup_notin j l : ~ In j (map fst l) -> plookup j l = 0.
Proof.
  induction l as [|p l IH]; intros H; [reflexivity|]. cbn [plookup map In] in *.
  destruct (Nat.eqb (fst p) j) eqn:E; [apply Nat.eqb_eq in E; exfalso; apply H; left; exact E|].
  apply IH. intros Hin. apply H. right. exact Hin.
Qed.

(* unsorting a row of (index, G value) pairs *)
Lemma unsort_sorted_nz (G : Z -> Z) row n :
  unsort n (map (fun p => (fst p, G (snd p))) (sorted_nz row)) =
  map (fun j => let a := nth j row 0 in if a =? 0 then 0 else G a) (seq 0 n).
Proof.
  unfold unsort. apply map_ext. intros j. cbn zeta.
  assert (Hnd : NoDup (map fst (map (fun p => (fst p, G (snd p))) (sorted_nz row)))).
  { rewrite map_map. cbn [fst]. apply sorted_nz_nodup. }
  destruct (nth j row 0 =? 0) eqn:E.
  - apply plookup_notin. rewrite map_map. cbn [fst]. intros Hin. apply in_map_iff in Hin. destruct Hin as [[j' a] [Ej Hin]].
    cbn [fst] in Ej. subst j'. apply sorted_nz_in in Hin. lia.
  - apply plookup_in; [exact Hnd|]. apply in_map_iff. exists (j, nth j row 0). split; [reflexivity|].
    apply sorted_nz_in. repeat split; [|lia].
    destruct (Nat.lt_ge_cases j (List.length row)) as [H|H]; [exact H|]. rewrite nth_overflow in E by lia. lia.
Qed.

(* ================================================================= C. the input of the allocation *)
Definition trow := (nat * list (nat * Z))%type.      (* (original row index, sorted non-zero (column, |value|) pairs) *)
Fixpoint trips (s : Z) (rows : list trow) : list (nat * Z * Z) :=
  match rows with
  | [] => []
  | tr :: rs => map (fun p => (fst tr, s, snd p)) (snd tr) ++ trips (- s) rs
  end.
Definition item_of (x : nat * Z * Z) : key * Z := let '(t, s, a) := x in ((t, a), s * a).
Definition keys_of (rows : list trow) : list key :=
  flat_map (fun tr => map (fun p => (fst tr, snd p)) (snd tr)) rows.
Lemma trips_enc s rows : map snd (map item_of (trips s rows)) = alt_rows s (map snd rows).
Proof.
  revert s; induction rows as [|tr rs IH]; intros s; [reflexivity|]. cbn [trips map alt_rows].
  rewrite !map_app, IH. f_equal. rewrite !map_map. reflexivity.
Qed.
Lemma trips_keys s rows : map fst (map item_of (trips s rows)) = keys_of rows.
Proof.
  revert s; induction rows as [|tr rs IH]; intros s; [reflexivity|]. cbn [trips map keys_of flat_map].
  rewrite !map_app, IH. f_equal. rewrite !map_map. reflexivity.
Qed.

Definition trel (x y : nat * Z * Z) : Prop :=
  let '(t, s, a) := x in let '(t', s', a') := y in
  (s = 1 \/ s = -1) /\ 0 < a /\ 0 < a' /\ ((t' = t /\ s' = s /\ a <= a') \/ ((t < t')%nat /\ s' = - s)).
Definition row_ok (tr : trow) : Prop :=
  snd tr <> [] /\ StronglySorted ple (snd tr) /\ Forall (fun p => 0 < snd p) (snd tr).
Definition rows_ok (rows : list trow) : Prop :=
  Forall row_ok rows /\ StronglySorted (fun a b : trow => (fst a < fst b)%nat) rows.

Lemma Sorted_app_hd {A} (R : A -> A -> Prop) l1 l2 :
  Sorted R l1 -> Sorted R l2 -> (forall a, In a l1 -> HdRel R a l2) -> Sorted R (l1 ++ l2).
Proof.
  induction l1 as [|x l1 IH]; intros H1 H2 H; [exact H2|]. cbn [app]. apply Sorted_inv in H1. destruct H1 as [H1 Hx].
  constructor.
  - apply IH; [assumption..|]. intros; apply H; right; assumption.
  - destruct l1 as [|y l1]; cbn [app]; [apply H; left; reflexivity|]. constructor. inversion Hx; assumption.
Qed.
Lemma trips_sorted s rows : (s = 1 \/ s = -1) -> rows_ok rows -> Sorted trel (trips s rows).
Proof.
  revert s; induction rows as [|tr rs IH]; intros s Hs [Hr Ht]; [constructor|].
  apply Forall_cons_iff in Hr. destruct Hr as [[Hne [Hsrt Hpos]] Hr]. apply StronglySorted_inv in Ht. destruct Ht as [Ht Hlt].
  cbn [trips]. apply Sorted_app_hd.
  - (* inside the row *)
    clear Hne. induction (snd tr) as [|p ps IHp]; cbn [map]; [constructor|].
    apply StronglySorted_inv in Hsrt. destruct Hsrt as [Hsrt Hp]. apply Forall_cons_iff in Hpos. destruct Hpos as [Hp0 Hpos].
    constructor; [apply IHp; assumption|]. destruct ps as [|q ps]; cbn [map]; constructor.
    apply Forall_inv in Hp. apply Forall_inv in Hpos. unfold ple in Hp. unfold trel. repeat split; try assumption. left. repeat split; lia.
  - apply IH; [lia|]. split; assumption.
  - intros x Hx. apply in_map_iff in Hx. destruct Hx as [p [<- Hp]].
    destruct rs as [|tr' rs']; cbn [trips]; [constructor|].
    apply Forall_inv in Hr. destruct Hr as [Hne' [_ Hpos']]. destruct (snd tr') as [|p' ps'] eqn:E; [contradiction|].
    cbn [map app]. constructor. unfold trel. rewrite Forall_forall in Hpos. apply Forall_inv in Hpos'. apply Forall_inv in Hlt.
    repeat split; try assumption; [apply Hpos; exact Hp|]. right. split; [exact Hlt|reflexivity].
Qed.

Lemma Sorted_adjacent {A} (R : A -> A -> Prop) l : Sorted R l -> adjacent R l.
Proof.
  intros H l1. revert l H. induction l1 as [|x l1 IH]; intros l H a b l2 E; subst l.
  - apply Sorted_inv in H. destruct H as [_ H]. inversion H; assumption.
  - apply Sorted_inv in H. destruct H as [H _]. eapply IH; [exact H|reflexivity].
Qed.
Lemma adjacent_map {A B} (R : A -> A -> Prop) (P : B -> B -> Prop) (f : A -> B) l :
  (forall a b, R a b -> P (f a) (f b)) -> adjacent R l -> adjacent P (map f l).
Proof.
  intros H Ha l1 a b l2 E. apply map_eq_app in E. destruct E as [u [v [-> [E1 E2]]]].
  apply map_eq_cons in E2. destruct E2 as [a' [v' [-> [<- E2]]]]. apply map_eq_cons in E2. destruct E2 as [b' [v'' [-> [<- E2]]]].
  apply H. eapply Ha. reflexivity.
Qed.
Lemma trel_enc x y : trel x y -> enc_ok (item_of x) (item_of y).
Proof.
  destruct x as [[t s] a], y as [[t' s'] a']. unfold trel, enc_ok, item_of. cbn [fst snd].
  intros [Hs [Ha [Ha' [[-> [-> Hle]]|[Hlt ->]]]]].
  - split; [intros H; f_equal; destruct Hs; subst s; lia|intros H; inversion H; reflexivity].
  - split; [intros H; exfalso; destruct Hs; subst s; lia|intros H; inversion H; lia].
Qed.
Lemma trel_key x y : trel x y -> key_ltb (fst (item_of y)) (fst (item_of x)) = false.
Proof.
  destruct x as [[t s] a], y as [[t' s'] a']. unfold trel, item_of, key_ltb. cbn [fst snd]. lia.
Qed.
Lemma Sorted_map_impl {A B} (R : A -> A -> Prop) (R' : B -> B -> Prop) (f : A -> B) l :
  (forall a b, R a b -> R' (f a) (f b)) -> Sorted R l -> Sorted R' (map f l).
Proof.
  intros H. induction 1 as [|x l Hl IH Hx]; cbn [map]; constructor; [exact IH|].
  destruct Hx; cbn [map]; constructor. apply H; assumption.
Qed.

(* the weights produced for the rows are a function of the key *)
Theorem oba_rows rows :
  rows_ok rows ->
  let ks := keys_of rows in
  let vals := oba (alt_rows 1 (map snd rows)) in
  vals = map (weight_fn ks vals) ks.
Proof.
  intros Hok ks vals.
  pose proof (trips_sorted 1 rows (or_introl eq_refl) Hok) as Hs.
  pose proof (oba_keys (map item_of (trips 1 rows))) as H.
  rewrite trips_enc, trips_keys in H. apply H.
  - rewrite <- (trips_keys 1). rewrite map_map.
    apply Sorted_StronglySorted.
    + intros a b c. apply key_le_trans.
    + eapply Sorted_map_impl; [|exact Hs]. intros a b Hab. apply trel_key. exact Hab.
  - eapply adjacent_map; [|apply Sorted_adjacent; exact Hs]. apply trel_enc.
Qed.

(* ================================================================= D. columns of reduce_last *)
Fixpoint keep_last (c : list Z) : list Z :=
  match c with [] => [] | x :: xs => (if all_zero xs then x else 0) :: keep_last xs end.
Lemma keep_last_length c : List.length (keep_last c) = List.length c.
Proof. induction c; cbn [keep_last List.length]; [reflexivity|]. rewrite IHc; reflexivity. Qed.

Lemma reduce_last_length M : List.length (reduce_last M) = List.length M.
Proof. induction M; cbn [reduce_last List.length]; [reflexivity|]. rewrite IHM; reflexivity. Qed.
Lemma reduce_last_rect n M : rect n M -> rect n (reduce_last M).
Proof.
  unfold rect. induction 1 as [|row M Hr HM IH]; cbn [reduce_last]; constructor; [|exact IH].
  rewrite map_length. unfold enum. rewrite combine_length, seq_length. lia.
Qed.
Lemma col_reduce_last n M j : rect n M -> (j < n)%nat -> col (reduce_last M) j = keep_last (col M j).
Proof.
  unfold rect. induction 1 as [|row M Hr HM IH]; intros Hj; [reflexivity|].
  cbn [reduce_last col map keep_last]. f_equal; [|apply IH; exact Hj].
  rewrite enum_as_map, map_map. cbn [fst snd]. rewrite nth_map_seq by lia. reflexivity.
Qed.

(* what the last non-zero entry of a column says about keep_last *)
Lemma keep_last_eff c : forall s,
  match eff_from s c with
  | Some (i, v) => (s <= i < s + List.length c)%nat /\ v <> 0 /\
                   forall i', nth i' (keep_last c) 0 = if (i' + s =? i)%nat then v else 0
  | None => forall i', nth i' (keep_last c) 0 = 0
  end.
Proof.
  induction c as [|x xs IH]; intros s; cbn [eff_from keep_last].
  - intros [|i']; reflexivity.
  - specialize (IH (S s)). destruct (eff_from (S s) xs) as [[i v]|].
    + destruct IH as [Hi [Hv Hn]]. cbn [List.length]. split; [lia|]. split; [exact Hv|].
      assert (all_zero xs = false) as ->.
      { destruct (all_zero xs) eqn:E; [|reflexivity]. exfalso.
        assert (forall k, nth k xs 0 = 0) as Hz.
        { clear -E. unfold all_zero in E. rewrite forallb_forall in E. intros k.
          destruct (Nat.lt_ge_cases k (List.length xs)) as [H|H]; [|apply nth_overflow; lia].
          specialize (E (nth k xs 0) (nth_In _ _ H)). lia. }
        (* keep_last of an all-zero list is all zero, contradicting Hn at i - S s *)
        specialize (Hn (i - S s)%nat). replace (i - S s + S s =? i)%nat with true in Hn by lia.
        assert (forall k, nth k (keep_last xs) 0 = 0) as Hk.
        { clear -Hz. induction xs as [|y ys IHy]; intros [|k]; cbn [keep_last nth]; try reflexivity.
          - specialize (Hz 0%nat). cbn in Hz. subst y. destruct (all_zero ys); reflexivity.
          - apply IHy. intros k'. apply (Hz (S k')). }
        rewrite Hk in Hn. lia. }
      intros [|i']; cbn [nth].
      * replace (0 + s =? i)%nat with false by lia. reflexivity.
      * rewrite Hn. replace (S i' + s)%nat with (i' + S s)%nat by lia. reflexivity.
    + assert (all_zero xs = true) as ->.
      { clear -IH. induction xs as [|y ys IHy]; [reflexivity|]. cbn [keep_last] in IH.
        assert (all_zero ys = true) as Hy by (apply IHy; intros k; apply (IH (S k))).
        specialize (IH 0%nat). cbn [nth] in IH. rewrite Hy in IH. subst y. cbn. exact Hy. }
      destruct (x =? 0) eqn:E.
      * intros [|i']; cbn [nth]; [lia|apply IH].
      * cbn [List.length]. split; [lia|]. split; [lia|]. intros [|i']; cbn [nth].
        -- rewrite Nat.eqb_refl. reflexivity.
        -- rewrite IH. replace (S i' + s =? s)%nat with false by lia. reflexivity.
Qed.
Lemma keep_last_some c i v :
  eff c = Some (i, v) -> (i < List.length c)%nat /\ v <> 0 /\ forall i', nth i' (keep_last c) 0 = if (i' =? i)%nat then v else 0.
Proof.
  unfold eff. intros E. pose proof (keep_last_eff c 0) as H. rewrite E in H. destruct H as [H1 [H2 H3]].
  split; [lia|]. split; [exact H2|]. intros i'. rewrite H3, Nat.add_0_r. reflexivity.
Qed.
Lemma keep_last_none c : eff c = None -> forall i', nth i' (keep_last c) 0 = 0.
Proof. unfold eff. intros E. pose proof (keep_last_eff c 0) as H. rewrite E in H. exact H. Qed.

(* the specification predicates agree with the computable `eff` *)
Lemma nth_keep_last c i : nth i (keep_last c) 0 = if all_zero (skipn (S i) c) then nth i c 0 else 0.
Proof.
  revert i; induction c as [|x xs IH]; intros [|i]; cbn [keep_last nth skipn]; try reflexivity.
  apply IH.
Qed.
Lemma all_zero_nth l : all_zero l = true <-> forall k, nth k l 0 = 0.
Proof.
  unfold all_zero. rewrite forallb_forall. split.
  - intros E k. destruct (Nat.lt_ge_cases k (List.length l)) as [H|H]; [|apply nth_overflow; lia].
    specialize (E (nth k l 0) (nth_In _ _ H)). lia.
  - intros H x Hx. apply (In_nth _ _ 0) in Hx. destruct Hx as [k [_ <-]]. rewrite H. reflexivity.
Qed.
Lemma nth_skipn_Z k i (l : list Z) : nth k (skipn i l) 0 = nth (i + k) l 0.
Proof. revert l; induction i as [|i IH]; intros l; [reflexivity|]. destruct l as [|x l]; [destruct k; reflexivity|]. cbn [skipn Nat.add nth]. apply IH. Qed.
Theorem eff_spec c i v : eff c = Some (i, v) <-> last_nonzero c i v.
Proof.
  unfold last_nonzero. split.
  - intros E. apply keep_last_some in E. destruct E as [Hi [Hv Hn]].
    assert (Hz : forall i', (i < i')%nat -> nth i' c 0 = 0).
    { intros i' Hlt. pose proof (Hn i) as Hi0. rewrite Nat.eqb_refl, nth_keep_last in Hi0.
      destruct (all_zero (skipn (S i) c)) eqn:E; [|congruence].
      rewrite all_zero_nth in E. specialize (E (i' - S i)%nat). rewrite nth_skipn_Z in E.
      replace (S i + (i' - S i))%nat with i' in E by lia. exact E. }
    split; [|split; assumption].
    pose proof (Hn i) as Hi0. rewrite Nat.eqb_refl, nth_keep_last in Hi0.
    destruct (all_zero (skipn (S i) c)); congruence.
  - intros [H1 [H2 H3]]. destruct (eff c) as [[i0 v0]|] eqn:E.
    + apply keep_last_some in E. destruct E as [Hi [Hv Hn]].
      pose proof (Hn i) as Hi1. rewrite nth_keep_last in Hi1.
      assert (all_zero (skipn (S i) c) = true) as Ez.
      { apply all_zero_nth. intros k. rewrite nth_skipn_Z. apply H3. lia. }
      rewrite Ez, H1 in Hi1. destruct (i =? i0)%nat eqn:Ei; [|congruence].
      apply Nat.eqb_eq in Ei. subst. reflexivity.
    + pose proof (keep_last_none c E i) as Hn. rewrite nth_keep_last in Hn.
      assert (all_zero (skipn (S i) c) = true) as Ez.
      { apply all_zero_nth. intros k. rewrite nth_skipn_Z. apply H3. lia. }
      rewrite Ez, H1 in Hn. contradiction.
Qed.
Theorem eff_none_spec c : eff c = None <-> all_zeros c.
Proof.
  unfold all_zeros. split.
  - intros E i. pose proof (keep_last_none c E) as Hn.
    (* strong induction from the end: use nth_keep_last *)
    assert (G : forall m i, (List.length c <= m + i)%nat -> nth i c 0 = 0).
    { induction m as [|m IHm]; intros i0 Hi0; [apply nth_overflow; lia|].
      pose proof (Hn i0) as H. rewrite nth_keep_last in H.
      assert (all_zero (skipn (S i0) c) = true) as Ez.
      { apply all_zero_nth. intros k. rewrite nth_skipn_Z. apply IHm. lia. }
      rewrite Ez in H. exact H. }
    apply (G (List.length c)). lia.
  - intros H. destruct (eff c) as [[i v]|] eqn:E; [|reflexivity].
    apply eff_spec in E. destruct E as [E1 [E2 _]]. rewrite H in E1. congruence.
Qed.

(* ================================================================= E. shadow2d, column by column *)
Definition tagged (M : list (list Z)) : list (nat * list Z) := enum (map (map Z.abs) (reduce_last M)).
Definition keptT (M : list (list Z)) : list (nat * list Z) := filter (fun tr => existsb nzb (snd tr)) (tagged M).
Definition rowsT (M : list (list Z)) : list trow := map (fun tr => (fst tr, sorted_nz (snd tr))) (keptT M).
(* the weight of a key in the compression of M *)
Definition WF (M : list (list Z)) : key -> Z :=
  weight_fn (keys_of (rowsT M)) (oba (alt_rows 1 (map snd (rowsT M)))).

Lemma keptT_rows M : map snd (keptT M) = kept_rows M.
Proof. unfold keptT, kept_rows, tagged. rewrite (filter_map_snd (existsb nzb)), map_snd_enum. reflexivity. Qed.
Lemma rowsT_srt M : map snd (rowsT M) = map sorted_nz (kept_rows M).
Proof. unfold rowsT. rewrite map_map. cbn [snd]. rewrite <- keptT_rows, map_map. reflexivity. Qed.

Lemma nth_col M i j : nth i (col M j) 0 = nth j (nth i M []) 0.
Proof.
  revert i; induction M as [|r M IH]; intros [|i]; cbn [col map nth]; try reflexivity; try (destruct j; reflexivity).
  apply IH.
Qed.
(* entries of the tagged rows, in terms of the column *)
Lemma tagged_entry n M j tr :
  rect n M -> (j < n)%nat -> In tr (tagged M) ->
  (fst tr < List.length M)%nat /\ List.length (snd tr) = n /\
  nth j (snd tr) 0 = Z.abs (nth (fst tr) (keep_last (col M j)) 0) /\ Forall (fun x => 0 <= x) (snd tr).
Proof.
  intros Hr Hj Hin. destruct tr as [i row]. unfold tagged in Hin. apply (in_enum _ []) in Hin.
  rewrite map_length, reduce_last_length in Hin. destruct Hin as [Hi Hrow]. cbn [fst snd].
  split; [exact Hi|].
  assert (E : row = map Z.abs (nth i (reduce_last M) [])).
  { rewrite <- Hrow. change [] with (map Z.abs []) at 1. apply map_nth. }
  pose proof (reduce_last_rect n M Hr) as Hrr. unfold rect in Hrr. rewrite Forall_forall in Hrr.
  assert (Hlen : List.length (nth i (reduce_last M) []) = n) by (apply Hrr, nth_In; rewrite reduce_last_length; exact Hi).
  split; [rewrite E, map_length; exact Hlen|]. split.
  - rewrite E. change 0 with (Z.abs 0) at 1. rewrite map_nth. f_equal.
    rewrite <- (col_reduce_last n M j Hr Hj). symmetry. apply nth_col.
  - rewrite E. apply Forall_forall. intros x Hx. apply in_map_iff in Hx. destruct Hx as [y [<- _]]. lia.
Qed.
Lemma tagged_nodup M : NoDup (map fst (tagged M)).
Proof. unfold tagged. rewrite map_fst_enum. apply seq_NoDup. Qed.
Lemma tagged_in M i : (i < List.length M)%nat -> exists row, In (i, row) (tagged M).
Proof.
  intros H. exists (nth i (map (map Z.abs) (reduce_last M)) []). unfold tagged. apply (in_enum _ []).
  rewrite map_length, reduce_last_length. split; [exact H|reflexivity].
Qed.
Lemma tagged_sorted M : StronglySorted (fun a b : nat * list Z => (fst a < fst b)%nat) (tagged M).
Proof.
  unfold tagged, enum. generalize (map (map Z.abs) (reduce_last M)) as L. intros L. generalize 0%nat as s.
  induction L as [|r L IH]; intros s; cbn [List.length seq combine]; constructor; [apply IH|].
  apply Forall_forall. intros [i x] Hin. apply (in_combine_seq L [] i x (S s)) in Hin. cbn [fst]. lia.
Qed.

Lemma existsb_nzb_in row : existsb nzb row = true <-> exists j, nth j row 0 <> 0.
Proof.
  rewrite existsb_exists. split.
  - intros [x [Hx Hn]]. apply (In_nth _ _ 0) in Hx. destruct Hx as [j [_ <-]]. exists j. unfold nzb in Hn. lia.
  - intros [j Hj]. exists (nth j row 0). split; [|unfold nzb; lia].
    apply nth_In. destruct (Nat.lt_ge_cases j (List.length row)) as [H|H]; [exact H|]. rewrite nth_overflow in Hj by lia. contradiction.
Qed.

Lemma rowsT_ok n M : rect n M -> rows_ok (rowsT M).
Proof.
  intros Hr. unfold rows_ok, rowsT, keptT. split.
  - apply Forall_forall. intros tr Hin. apply in_map_iff in Hin. destruct Hin as [[i row] [<- Hin]].
    apply filter_In in Hin. destruct Hin as [Hin Hnz]. cbn [fst snd] in *. unfold row_ok. cbn [snd].
    split; [|split].
    + apply existsb_nzb_in in Hnz. destruct Hnz as [j Hj]. intros E.
      assert (In (j, nth j row 0) (sorted_nz row)) as H.
      { apply sorted_nz_in. repeat split; [|exact Hj]. destruct (Nat.lt_ge_cases j (List.length row)) as [H|H]; [exact H|]. rewrite nth_overflow in Hj by lia. contradiction. }
      rewrite E in H. destruct H.
    + unfold sorted_nz. apply SS_filter. apply sort_p_sorted.
    + apply Forall_forall. intros [j a] Hp. apply sorted_nz_in in Hp. destruct Hp as [Hj [Ha Hne]]. cbn [snd].
      destruct n as [|n'].
      * (* no columns: the row is empty *)
        destruct (tagged_in M i) as [row' Hrow'].
        { unfold tagged in Hin. apply (in_enum _ []) in Hin. rewrite map_length, reduce_last_length in Hin. lia. }
        exfalso. unfold tagged in Hin. apply (in_enum _ []) in Hin. destruct Hin as [Hi Hrow].
        rewrite map_length, reduce_last_length in Hi.
        pose proof (reduce_last_rect 0 M Hr) as Hrr. unfold rect in Hrr. rewrite Forall_forall in Hrr.
        assert (List.length (nth i (reduce_last M) []) = 0%nat) by (apply Hrr, nth_In; rewrite reduce_last_length; exact Hi).
        assert (E : row = map Z.abs (nth i (reduce_last M) [])).
        { rewrite <- Hrow. change [] with (map Z.abs []) at 1. apply map_nth. }
        rewrite E, map_length in Hj. lia.
      * destruct (tagged_entry (S n') M 0 (i, row) Hr ltac:(lia) Hin) as [_ [_ [_ Hpos]]]. cbn [snd] in Hpos.
        rewrite Forall_forall in Hpos. assert (0 <= a) by (apply Hpos; rewrite <- Ha; apply nth_In; exact Hj). lia.
  - apply (SS_map (fun a b : nat * list Z => (fst a < fst b)%nat)); [intros a b H; exact H|].
    apply SS_filter. apply tagged_sorted.
Qed.

(* x_sorted[x_sorted != 0] = values, when the values are a function of the key *)
Lemma assign_map (F : key -> Z) (rows : list trow) :
  assign (map snd rows) (map F (keys_of rows)) =
  map (fun tr => map (fun p => (fst p, F (fst tr, snd p))) (snd tr)) rows.
Proof.
  induction rows as [|tr rs IH]; [reflexivity|]. cbn [map assign keys_of flat_map]. fold (keys_of rs).
  rewrite map_app. rewrite firstn_app, skipn_app. rewrite !map_length. rewrite Nat.sub_diag. cbn [firstn skipn].
  rewrite app_nil_r. rewrite firstn_all2 by (rewrite !map_length; lia). rewrite skipn_all2 by (rewrite !map_length; lia).
  rewrite app_nil_l. f_equal; [|exact IH]. rewrite map_map. clear. induction (snd tr) as [|p ps IHp]; [reflexivity|].
  cbn [map combine]. rewrite IHp. reflexivity.
Qed.

Lemma oba_nonneg_sumlt ks vals k : Forall (fun v => 1 <= v) vals -> 0 <= sumlt (combine ks vals) k.
Proof.
  intros H. unfold sumlt. apply zsum_map_nonneg. intros [k' w] Hin. apply in_combine_r in Hin.
  rewrite Forall_forall in H. specialize (H w Hin). cbn [fst snd]. destruct (key_ltb k' k); lia.
Qed.
Lemma WF_pos M k : 1 <= WF M k.
Proof. unfold WF, weight_fn. pose proof (oba_nonneg_sumlt (keys_of (rowsT M)) _ k (oba_pos (alt_rows 1 (map snd (rowsT M))))). lia. Qed.

Lemma combine_map_same {A B C} (f : A -> B) (g : A -> C) l : combine (map f l) (map g l) = map (fun x => (f x, g x)) l.
Proof. induction l; cbn [map combine]; [reflexivity|]. rewrite IHl. reflexivity. Qed.
Lemma col_map {A} (f : A -> list Z) l j : col (map f l) j = map (fun x => nth j (f x) 0) l.
Proof. unfold col. rewrite map_map. reflexivity. Qed.
Lemma width_rect n M : rect n M -> M <> [] -> width M = n.
Proof. intros H Hne. destruct M as [|r M]; [contradiction|]. apply Forall_inv in H. exact H. Qed.
Lemma col_length M j : List.length (col M j) = List.length M.
Proof. unfold col. apply map_length. Qed.

Lemma kept_of_eff n M j i v :
  rect n M -> (j < n)%nat -> eff (col M j) = Some (i, v) ->
  exists row, In (i, row) (keptT M) /\ nth j row 0 = Z.abs v /\ v <> 0.
Proof.
  intros Hr Hj E. apply keep_last_some in E. destruct E as [Hi [Hv Hn]]. rewrite col_length in Hi.
  destruct (tagged_in M i Hi) as [row Hrow]. exists row.
  destruct (tagged_entry n M j (i, row) Hr Hj Hrow) as [_ [_ [He _]]]. cbn [fst snd] in He.
  rewrite Hn, Nat.eqb_refl in He. split; [|split; assumption].
  unfold keptT. apply filter_In. split; [exact Hrow|]. cbn [snd]. apply existsb_nzb_in. exists j. lia.
Qed.

Lemma shadow2d_unfold M :
  kept_rows M <> [] ->
  shadow2d M =
    let n := width M in
    let red := reduce_last M in
    let srt := map sorted_nz (kept_rows M) in
    let values := oba (alt_rows 1 srt) in
    let back := map (unsort n) (assign srt values) in
    let compressed := map (fun j => lmax (col back j)) (seq 0 n) in
    let neg := map (fun j => lmin (col red j)) (seq 0 n) in
    map (fun cn => if snd cn <? 0 then fst cn * -1 else fst cn) (combine compressed neg).
Proof. unfold shadow2d. destruct (kept_rows M); [contradiction|reflexivity]. Qed.

(* the rows scattered back, in closed form *)
Lemma back_rows n M :
  rect n M ->
  map (unsort n) (assign (map sorted_nz (kept_rows M)) (oba (alt_rows 1 (map sorted_nz (kept_rows M))))) =
  map (fun tr => map (fun j => let a := nth j (snd tr) 0 in if a =? 0 then 0 else WF M (fst tr, a)) (seq 0 n)) (keptT M).
Proof.
  intros Hr. rewrite <- rowsT_srt.
  pose proof (oba_rows (rowsT M) (rowsT_ok n M Hr)) as H. cbn zeta in H. fold (WF M) in H.
  rewrite H at 1. rewrite assign_map. unfold rowsT at 1. rewrite !map_map. cbn [fst snd].
  apply map_ext. intros tr. apply (unsort_sorted_nz (fun a => WF M (fst tr, a))).
Qed.

(* THE COLUMN FORM of shadow2d: weight = sign of the deciding entry times WF of the key *)
Theorem shadow2d_nth n M j :
  rect n M -> (j < n)%nat ->
  nth j (shadow2d M) 0 =
  match eff (col M j) with
  | Some (i, v) => if v <? 0 then - WF M (i, Z.abs v) else WF M (i, Z.abs v)
  | None => 0
  end.
Proof.
  intros Hr Hj.
  destruct (kept_rows M) as [|k0 ks] eqn:K.
  - (* nothing survives: every column is zero *)
    unfold shadow2d. rewrite K.
    assert (nth j (repeat 0 (width M)) 0 = 0) as -> by (clear; generalize (width M); intros m; revert j; induction m; intros [|j]; cbn; auto).
    destruct (eff (col M j)) as [[i v]|] eqn:E; [|reflexivity].
    destruct (kept_of_eff n M j i v Hr Hj E) as [row [Hin _]].
    assert (In row (kept_rows M)) by (rewrite <- keptT_rows; apply in_map_iff; exists (i, row); split; [reflexivity|exact Hin]).
    rewrite K in H. destruct H.
  - assert (Hne : M <> []) by (intros ->; discriminate K).
    rewrite shadow2d_unfold by (rewrite K; discriminate). cbn zeta.
    rewrite (width_rect n M Hr Hne). rewrite (back_rows n M Hr).
    rewrite combine_map_same, map_map. cbn [fst snd]. rewrite nth_map_seq by exact Hj. cbn [Nat.add].
    rewrite (col_reduce_last n M j Hr Hj). rewrite col_map.
    set (g := fun tr : nat * list Z => nth j (map (fun j0 => let a := nth j0 (snd tr) 0 in if a =? 0 then 0 else WF M (fst tr, a)) (seq 0 n)) 0).
    assert (Hg : forall tr, In tr (keptT M) -> g tr = let a := Z.abs (nth (fst tr) (keep_last (col M j)) 0) in if a =? 0 then 0 else WF M (fst tr, a)).
    { intros tr Hin. unfold g. rewrite nth_map_seq by exact Hj. cbn [Nat.add]. cbn zeta.
      apply filter_In in Hin. destruct Hin as [Hin _].
      destruct (tagged_entry n M j tr Hr Hj Hin) as [_ [_ [He _]]]. rewrite He. reflexivity. }
    assert (Hkne : keptT M <> []) by (intros E0; rewrite <- keptT_rows, E0 in K; discriminate K).
    destruct (eff (col M j)) as [[i v]|] eqn:E.
    + destruct (kept_of_eff n M j i v Hr Hj E) as [row [Hin [Hrow Hv]]].
      apply keep_last_some in E. destruct E as [Hi [_ Hn]]. rewrite col_length in Hi.
      assert (Hmax : lmax (map g (keptT M)) = WF M (i, Z.abs v)).
      { apply lmax_zero_or.
        - pose proof (WF_pos M (i, Z.abs v)). lia.
        - intros x Hx. apply in_map_iff in Hx. destruct Hx as [tr [<- Htr]]. rewrite (Hg tr Htr). cbn zeta. rewrite Hn.
          destruct (fst tr =? i)%nat eqn:Ei; [|left; reflexivity]. apply Nat.eqb_eq in Ei. rewrite Ei.
          right. destruct (Z.abs v =? 0) eqn:Ez; [lia|reflexivity].
        - apply in_map_iff. exists (i, row). split; [|exact Hin]. rewrite (Hg _ Hin). cbn [fst]. cbn zeta. rewrite Hn, Nat.eqb_refl.
          destruct (Z.abs v =? 0) eqn:Ez; [lia|reflexivity]. }
      rewrite Hmax.
      assert (Hmin : (lmin (keep_last (col M j)) <? 0) = (v <? 0)).
      { apply lmin_zero_or.
        - intros x Hx. apply (In_nth _ _ 0) in Hx. destruct Hx as [k [_ <-]]. rewrite Hn. destruct (k =? i)%nat; [right|left]; reflexivity.
        - assert (Ev : nth i (keep_last (col M j)) 0 = v) by (rewrite Hn, Nat.eqb_refl; reflexivity).
          rewrite <- Ev. apply nth_In. rewrite keep_last_length, col_length. exact Hi. }
      rewrite Hmin. destruct (v <? 0); lia.
    + pose proof (keep_last_none _ E) as Hn.
      assert (lmax (map g (keptT M)) = 0) as ->.
      { apply lmax_all_zero. intros x Hx. apply in_map_iff in Hx. destruct Hx as [tr [<- Htr]]. rewrite (Hg tr Htr). cbn zeta. rewrite Hn. reflexivity. }
      destruct (lmin (keep_last (col M j)) <? 0); reflexivity.
Qed.

(* ================================================================= F. exactness: WF k = 1 + (weights of all lower columns) *)
Lemma zsum_map_flat_map {A B} (h : B -> Z) (f : A -> list B) l :
  zsum (map h (flat_map f l)) = zsum (map (fun a => zsum (map h (f a))) l).
Proof. induction l as [|a l IH]; cbn [flat_map map zsum]; [reflexivity|]. rewrite map_app, zsum_app, IH. reflexivity. Qed.

Lemma sum_sorted_nz (h : Z -> Z) row :
  zsum (map (fun p => h (snd p)) (sorted_nz row)) =
  zsum (map (fun j => let a := nth j row 0 in if a =? 0 then 0 else h a) (seq 0 (List.length row))).
Proof.
  unfold sorted_nz.
  rewrite (zsum_perm _ _ (Permutation_map _ (filter_perm _ _ _ (sort_p_perm (enum row))))).
  rewrite zsum_filter. rewrite enum_as_map, map_map. cbn [snd]. apply zsum_map_ext. intros j _. cbn zeta.
  unfold nzb. destruct (nth j row 0 =? 0); reflexivity.
Qed.

Lemma combine_map_r {A B} (F : A -> B) l : combine l (map F l) = map (fun x => (x, F x)) l.
Proof. induction l; cbn [map combine]; [reflexivity|]. rewrite IHl. reflexivity. Qed.
Lemma tagged_length n M tr : rect n M -> In tr (tagged M) -> List.length (snd tr) = n.
Proof.
  intros Hr Hin. destruct tr as [i row]. unfold tagged in Hin. apply (in_enum _ []) in Hin.
  rewrite map_length, reduce_last_length in Hin. destruct Hin as [Hi Hrow]. cbn [snd].
  assert (E : row = map Z.abs (nth i (reduce_last M) [])).
  { rewrite <- Hrow. change [] with (map Z.abs []) at 1. apply map_nth. }
  pose proof (reduce_last_rect n M Hr) as Hrr. unfold rect in Hrr. rewrite Forall_forall in Hrr.
  rewrite E, map_length. apply Hrr, nth_In. rewrite reduce_last_length. exact Hi.
Qed.

(* a sum over the keys fed to the allocation is a sum over the non-zero columns *)
Lemma sum_over_keys n M (h : key -> Z) :
  rect n M ->
  zsum (map h (keys_of (rowsT M))) =
  zsum (map (fun j => match key_of (column M j) with Some kj => h kj | None => 0 end) (seq 0 n)).
Proof.
  intros Hr. unfold keys_of. rewrite zsum_map_flat_map.
  unfold rowsT. rewrite map_map. cbn [fst snd].
  set (F := fun (tr : nat * list Z) (j : nat) => let a := nth j (snd tr) 0 in if a =? 0 then 0 else h (fst tr, a)).
  (* A: every kept row as a sum over the column indices *)
  rewrite (zsum_map_ext _ (fun tr => zsum (map (F tr) (seq 0 n))) (keptT M)).
  2:{ intros tr Hin. rewrite map_map. cbn [fst snd].
      rewrite (sum_sorted_nz (fun a => h (fst tr, a)) (snd tr)).
      apply filter_In in Hin. destruct Hin as [Hin _]. rewrite (tagged_length n M tr Hr Hin). reflexivity. }
  (* B: the dropped rows contribute nothing *)
  unfold keptT. rewrite zsum_filter.
  rewrite (zsum_map_ext _ (fun tr => zsum (map (F tr) (seq 0 n))) (tagged M)).
  2:{ intros tr _. destruct (existsb nzb (snd tr)) eqn:Ex; [reflexivity|]. symmetry. apply zsum_map_zero. intros j _.
      unfold F. cbn zeta. destruct (nth j (snd tr) 0 =? 0) eqn:Ez; [reflexivity|].
      assert (existsb nzb (snd tr) = true) by (apply existsb_nzb_in; exists j; lia). congruence. }
  (* C: exchange the two sums *)
  rewrite zsum_exchange.
  (* D: column by column *)
  apply zsum_map_ext. intros j Hj. apply in_seq in Hj. assert (Hjn : (j < n)%nat) by lia.
  change (column M j) with (col M j).
  set (phi := fun i : nat => let a := Z.abs (nth i (keep_last (col M j)) 0) in if a =? 0 then 0 else h (i, a)).
  rewrite (zsum_map_ext _ (fun tr => phi (fst tr)) (tagged M)).
  2:{ intros tr Hin. unfold F, phi. cbn zeta. destruct (tagged_entry n M j tr Hr Hjn Hin) as [_ [_ [He _]]]. rewrite He. reflexivity. }
  rewrite <- (map_map fst phi). unfold tagged at 1. rewrite map_fst_enum, map_length, reduce_last_length.
  unfold key_of.
  destruct (eff (col M j)) as [[i0 v]|] eqn:E.
  - apply keep_last_some in E. destruct E as [Hi [Hv Hn]]. rewrite col_length in Hi.
    rewrite (zsum_map_ext _ (fun i => if (i =? i0)%nat then h (i0, Z.abs v) else 0)).
    2:{ intros i _. unfold phi. cbn zeta. rewrite Hn. destruct (i =? i0)%nat eqn:Ei.
        - apply Nat.eqb_eq in Ei. subst i. destruct (Z.abs v =? 0) eqn:Ez; [lia|reflexivity].
        - reflexivity. }
    apply zsum_single. exact Hi.
  - apply zsum_map_zero. intros i _. unfold phi. cbn zeta. rewrite (keep_last_none _ E). reflexivity.
Qed.

Lemma shadow_abs n M j kj :
  rect n M -> (j < n)%nat -> key_of (column M j) = Some kj -> Z.abs (nth j (shadow2d M) 0) = WF M kj.
Proof.
  intros Hr Hj Hk. rewrite (shadow2d_nth n M j Hr Hj). unfold key_of in Hk. change (column M j) with (col M j) in Hk.
  destruct (eff (col M j)) as [[i v]|]; [|discriminate]. inversion Hk; subst.
  pose proof (WF_pos M (i, Z.abs v)). destruct (v <? 0); lia.
Qed.
Lemma vals_WF n M : rect n M ->
  oba (alt_rows 1 (map sorted_nz (kept_rows M))) = map (WF M) (keys_of (rowsT M)).
Proof.
  intros Hr. rewrite <- rowsT_srt.
  pose proof (oba_rows (rowsT M) (rowsT_ok n M Hr)) as H. cbn zeta in H. fold (WF M) in H. exact H.
Qed.

Theorem WF_exact n M k :
  rect n M -> WF M k = 1 + lower_sum n M (shadow2d M) k.
Proof.
  intros Hr.
  set (h := fun k' : key => if key_ltb k' k then WF M k' else 0).
  assert (E1 : WF M k = 1 + zsum (map h (keys_of (rowsT M)))).
  { unfold WF at 1. unfold weight_fn. rewrite rowsT_srt, (vals_WF n M Hr).
    rewrite combine_map_r. unfold sumlt. rewrite map_map. cbn [fst snd]. reflexivity. }
  rewrite E1, (sum_over_keys n M h Hr). f_equal. unfold lower_sum. apply zsum_map_ext. intros j Hj. apply in_seq in Hj.
  destruct (key_of (column M j)) as [kj|] eqn:Ek; [|reflexivity].
  unfold h. rewrite (shadow_abs n M j kj Hr ltac:(lia) Ek). reflexivity.
Qed.

(* the largest number the allocation ever forms (its running total) is the sum of the
   absolute weights: "fits in 64 bits" is a checkable side condition on the result *)
Theorem shadow_total n M :
  rect n M ->
  zsum (oba (alt_rows 1 (map sorted_nz (kept_rows M)))) = zsum (map (fun j => Z.abs (nth j (shadow2d M) 0)) (seq 0 n)).
Proof.
  intros Hr. rewrite (vals_WF n M Hr), (sum_over_keys n M (WF M) Hr). apply zsum_map_ext. intros j Hj. apply in_seq in Hj.
  destruct (key_of (column M j)) as [kj|] eqn:Ek.
  - symmetry. apply (shadow_abs n M j kj Hr); [lia|exact Ek].
  - rewrite (shadow2d_nth n M j Hr) by lia. unfold key_of in Ek. change (column M j) with (col M j) in Ek.
    destruct (eff (col M j)) as [[i v]|]; [discriminate|reflexivity].
Qed.
(* every running total and every group weight met while allocating is between 0 and the final total *)
Lemma oba_state_bounds p w t l1 l2 :
  0 <= t -> (p = None \/ 1 <= w) -> 0 <= w <= t \/ p = None ->
  let '(p', w', t') := oba_state p w t l1 in
  (0 <= w' <= t' \/ p' = None) /\ t' <= t + zsum (oba_go p w t (l1 ++ l2)) /\ 0 <= t'.
Proof.
  revert p w t; induction l1 as [|x l1 IH]; intros p w t Ht Hw Hb; cbn [oba_state app].
  - split; [exact Hb|]. split; [|exact Ht].
    assert (0 <= zsum (oba_go p w t l2)); [|lia].
    pose proof (oba_go_pos p w t l2 Ht Hw) as Hp. clear -Hp. induction Hp; cbn [zsum]; lia.
  - cbn [oba_go zsum].
    set (w' := if match p with Some p0 => p0 =? x | None => false end then w else 1 + t).
    assert (1 <= w' /\ w' <= t + w') as [H1 H2].
    { subst w'. destruct p as [p|]; [destruct (p =? x)|]; destruct Hw as [Hw|Hw]; try discriminate; destruct Hb as [Hb|Hb]; try discriminate; lia. }
    specialize (IH (Some x) w' (t + w') ltac:(lia) (or_intror H1) ltac:(left; lia)).
    destruct (oba_state (Some x) w' (t + w') l1) as [[p'' w''] t'']. destruct IH as [I1 [I2 I3]].
    split; [exact I1|]. split; [lia|exact I3].
Qed.

(* ================================================================= G. C13 for 'shadow' (2-D, axis 0) *)
Lemma shadow2d_length M : List.length (shadow2d M) = width M.
Proof.
  unfold shadow2d. destruct (kept_rows M); [apply repeat_length|].
  rewrite map_length, combine_length, !map_length, seq_length. lia.
Qed.
Lemma key_of_some c kk : key_of c = Some kk -> exists i v, last_nonzero c i v /\ kk = (i, Z.abs v).
Proof.
  unfold key_of. destruct (eff c) as [[i v]|] eqn:E; [|discriminate]. intros H; inversion H; subst.
  exists i, v. split; [apply eff_spec; exact E|reflexivity].
Qed.
Lemma key_of_last_nonzero c i v : last_nonzero c i v -> key_of c = Some (i, Z.abs v).
Proof. intros H. apply eff_spec in H. unfold key_of. rewrite H. reflexivity. Qed.

Theorem shadow_zero n M j :
  rect n M -> (j < n)%nat -> all_zeros (column M j) -> nth j (shadow2d M) 0 = 0.
Proof.
  intros Hr Hj Hz. rewrite (shadow2d_nth n M j Hr Hj). apply eff_none_spec in Hz.
  change (column M j) with (col M j) in Hz. rewrite Hz. reflexivity.
Qed.
Theorem shadow_sign n M j i v :
  rect n M -> (j < n)%nat -> last_nonzero (column M j) i v ->
  (0 < v -> 0 < nth j (shadow2d M) 0) /\ (v < 0 -> nth j (shadow2d M) 0 < 0).
Proof.
  intros Hr Hj Hl. rewrite (shadow2d_nth n M j Hr Hj). apply eff_spec in Hl.
  change (column M j) with (col M j) in Hl. rewrite Hl. pose proof (WF_pos M (i, Z.abs v)).
  destruct (v <? 0) eqn:E; lia.
Qed.
Theorem shadow_exact n M k kk :
  rect n M -> (k < n)%nat -> key_of (column M k) = Some kk ->
  Z.abs (nth k (shadow2d M) 0) = 1 + lower_sum n M (shadow2d M) kk.
Proof. intros Hr Hk E. rewrite (shadow_abs n M k kk Hr Hk E). apply WF_exact. exact Hr. Qed.
Lemma lower_sum_nonneg n M w k : 0 <= lower_sum n M w k.
Proof.
  unfold lower_sum. apply zsum_map_nonneg. intros j _. destruct (key_of (column M j)) as [kj|]; [|lia].
  destruct (key_ltb kj k); lia.
Qed.
Theorem shadow_dominance n M k kk :
  rect n M -> (k < n)%nat -> key_of (column M k) = Some kk ->
  Z.abs (nth k (shadow2d M) 0) > lower_sum n M (shadow2d M) kk.
Proof. intros Hr Hk E. rewrite (shadow_exact n M k kk Hr Hk E). lia. Qed.
Theorem shadow_order n M j k kj kk :
  rect n M -> (j < n)%nat -> (k < n)%nat ->
  key_of (column M j) = Some kj -> key_of (column M k) = Some kk -> key_lt kj kk ->
  Z.abs (nth j (shadow2d M) 0) < Z.abs (nth k (shadow2d M) 0).
Proof.
  intros Hr Hj Hk Ej Ek Hlt. rewrite (shadow_exact n M k kk Hr Hk Ek).
  apply key_ltb_lt in Hlt.
  set (f := fun j0 => match key_of (column M j0) with Some kj0 => if key_ltb kj0 kk then Z.abs (nth j0 (shadow2d M) 0) else 0 | None => 0 end).
  assert (f j <= lower_sum n M (shadow2d M) kk).
  { unfold lower_sum. apply (zsum_map_ge_term f).
    - apply in_seq. lia.
    - intros b _. unfold f. destruct (key_of (column M b)) as [kb|]; [|lia]. destruct (key_ltb kb kk); lia. }
  unfold f in H. rewrite Ej, Hlt in H. lia.
Qed.
Theorem shadow_ties n M j k kj kk :
  rect n M -> (j < n)%nat -> (k < n)%nat ->
  key_of (column M j) = Some kj -> key_of (column M k) = Some kk ->
  (kj = kk <-> Z.abs (nth j (shadow2d M) 0) = Z.abs (nth k (shadow2d M) 0)).
Proof.
  intros Hr Hj Hk Ej Ek. split.
  - intros ->. rewrite (shadow_abs n M j kk Hr Hj Ej), (shadow_abs n M k kk Hr Hk Ek). reflexivity.
  - intros E. destruct (key_trichotomy kj kk) as [H|[H|H]]; [|exact H|]; apply key_ltb_lt in H.
    + pose proof (shadow_order n M j k kj kk Hr Hj Hk Ej Ek H). lia.
    + pose proof (shadow_order n M k j kk kj Hr Hk Hj Ek Ej H). lia.
Qed.

(* ================================================================= H. first / last / min / max *)
Lemma existsb_nzb_false l : existsb nzb l = false -> forall k, nth k l 0 = 0.
Proof.
  intros E k. destruct (nth k l 0 =? 0) eqn:Ez; [lia|].
  assert (existsb nzb l = true) by (apply existsb_nzb_in; exists k; lia). congruence.
Qed.
Lemma argmax_nz_first c i v : first_nonzero c i v -> argmax_nz c = i.
Proof.
  revert i; induction c as [|x xs IH]; intros i [H1 [H2 H3]].
  - destruct i; cbn in H1; congruence.
  - cbn [argmax_nz]. destruct i as [|i].
    + cbn in H1. unfold nzb. destruct (x =? 0) eqn:E; [lia|reflexivity].
    + pose proof (H3 0%nat ltac:(lia)) as Hx. cbn in Hx. subst x. cbn [nzb Z.eqb negb].
      assert (existsb nzb xs = true) as ->. { apply existsb_nzb_in. exists i. cbn in H1. rewrite H1. exact H2. }
      f_equal. apply IH. repeat split; [exact H1|exact H2|]. intros i' Hi'. apply (H3 (S i')). lia.
Qed.
Lemma argmax_nz_zero c : all_zeros c -> nth (argmax_nz c) c 0 = 0.
Proof. intros H. apply H. Qed.
Lemma first2d_length M : List.length (first2d M) = width M.
Proof. unfold first2d. rewrite map_length, seq_length. reflexivity. Qed.
Theorem first2d_first M j i v :
  (j < width M)%nat -> first_nonzero (column M j) i v -> nth j (first2d M) 0 = v.
Proof.
  intros Hj Hf. unfold first2d. rewrite nth_map_seq by exact Hj. cbn [Nat.add]. cbn zeta.
  change (col M j) with (column M j). rewrite (argmax_nz_first _ i v Hf). apply Hf.
Qed.
Theorem first2d_zero M j : (j < width M)%nat -> all_zeros (column M j) -> nth j (first2d M) 0 = 0.
Proof.
  intros Hj Hz. unfold first2d. rewrite nth_map_seq by exact Hj. cbn [Nat.add]. cbn zeta. apply Hz.
Qed.
Lemma column_rev M j : column (rev M) j = rev (column M j).
Proof. unfold column. apply map_rev. Qed.
Lemma last_first_rev c i v : last_nonzero c i v -> first_nonzero (rev c) (List.length c - S i) v.
Proof.
  intros [H1 [H2 H3]].
  assert (Hi : (i < List.length c)%nat).
  { destruct (Nat.lt_ge_cases i (List.length c)) as [H|H]; [exact H|]. rewrite nth_overflow in H1 by lia. congruence. }
  repeat split; [|exact H2|].
  - rewrite rev_nth by lia. replace (List.length c - S (List.length c - S i))%nat with i by lia. exact H1.
  - intros i' Hi'. rewrite rev_nth by lia. apply H3. lia.
Qed.
Lemma width_rev n M : rect n M -> M <> [] -> width (rev M) = n.
Proof.
  intros Hr Hne. apply width_rect; [|intros E; apply Hne; rewrite <- (rev_involutive M), E; reflexivity].
  unfold rect in *. apply Forall_rev. exact Hr.
Qed.
Theorem last2d_last n M j i v :
  rect n M -> (j < n)%nat -> last_nonzero (column M j) i v -> nth j (last2d M) 0 = v.
Proof.
  intros Hr Hj Hl. unfold last2d.
  assert (Hne : M <> []).
  { intros ->. destruct Hl as [H1 [H2 _]]. destruct i; cbn in H1; congruence. }
  apply (first2d_first (rev M) j (List.length (column M j) - S i)).
  - rewrite (width_rev n M Hr Hne). exact Hj.
  - rewrite column_rev. apply last_first_rev. exact Hl.
Qed.
Theorem last2d_zero n M j : rect n M -> M <> [] -> (j < n)%nat -> all_zeros (column M j) -> nth j (last2d M) 0 = 0.
Proof.
  intros Hr Hne Hj Hz. unfold last2d. apply first2d_zero.
  - rewrite (width_rev n M Hr Hne). exact Hj.
  - rewrite column_rev. intros k. destruct (Nat.lt_ge_cases k (List.length (rev (column M j)))) as [H|H]; [|apply nth_overflow; lia].
    rewrite rev_length in H. rewrite rev_nth by exact H. apply Hz.
Qed.

(* numpy.max / numpy.min of a non-empty list are its largest / smallest element *)
Theorem lmax_spec l : l <> [] -> In (lmax l) l /\ forall x, In x l -> x <= lmax l.
Proof.
  induction l as [|a l IH]; intros Hne; [contradiction|]. cbn [lmax]. destruct l as [|b l].
  - split; [left; reflexivity|]. intros x [<-|[]]. lia.
  - destruct (IH ltac:(discriminate)) as [I1 I2]. split.
    + destruct (Z.max_spec a (lmax (b :: l))) as [[_ ->]|[_ ->]]; [right; exact I1|left; reflexivity].
    + intros x [<-|Hx]; [lia|]. specialize (I2 x Hx). lia.
Qed.
Theorem lmin_spec l : l <> [] -> In (lmin l) l /\ forall x, In x l -> lmin l <= x.
Proof.
  induction l as [|a l IH]; intros Hne; [contradiction|]. cbn [lmin]. destruct l as [|b l].
  - split; [left; reflexivity|]. intros x [<-|[]]. lia.
  - destruct (IH ltac:(discriminate)) as [I1 I2]. split.
    + destruct (Z.min_spec a (lmin (b :: l))) as [[_ ->]|[_ ->]]; [left; reflexivity|right; exact I1].
    + intros x [<-|Hx]; [lia|]. specialize (I2 x Hx). lia.
Qed.
(* 'min': the smallest NON-ZERO entry (0 when there is none), for entries within int64 *)
Theorem min_nz_spec l :
  Forall (fun x => x <= maxsize) l ->
  (Forall (fun x => x = 0) l -> min_nz l = 0) /\
  (~ Forall (fun x => x = 0) l ->
     In (min_nz l) l /\ min_nz l <> 0 /\ forall x, In x l -> x <> 0 -> min_nz l <= x).
Proof.
  intros Hb. unfold min_nz. split.
  - intros Hz. assert (all_zero l = true) as ->; [|reflexivity]. unfold all_zero. apply forallb_forall. intros x Hx.
    rewrite Forall_forall in Hz. rewrite (Hz x Hx). reflexivity.
  - intros Hnz. assert (all_zero l = false) as ->.
    { destruct (all_zero l) eqn:E; [|reflexivity]. exfalso. apply Hnz. apply Forall_forall. intros x Hx.
      unfold all_zero in E. rewrite forallb_forall in E. specialize (E x Hx). lia. }
    set (l' := map (fun x => if x =? 0 then maxsize else x) l).
    assert (Hne : l' <> []) by (subst l'; destruct l; [exfalso; apply Hnz; constructor|discriminate]).
    destruct (lmin_spec l' Hne) as [I1 I2].
    assert (Hex : exists y, In y l /\ y <> 0).
    { clear -Hnz. induction l as [|a l IH]; [exfalso; apply Hnz; constructor|].
      destruct (Z.eq_dec a 0) as [->|Ha]; [|exists a; split; [left; reflexivity|exact Ha]].
      destruct IH as [y [Hy1 Hy2]]; [intros H; apply Hnz; constructor; [reflexivity|exact H]|]. exists y. split; [right; exact Hy1|exact Hy2]. }
    destruct Hex as [y [Hy1 Hy2]].
    assert (Hy' : In y l') by (subst l'; apply in_map_iff; exists y; split; [destruct (y =? 0) eqn:E; [lia|reflexivity]|exact Hy1]).
    pose proof (I2 y Hy') as Hle.
    subst l'. apply in_map_iff in I1. destruct I1 as [x [Ex Hx]].
    rewrite Forall_forall in Hb. pose proof (Hb y Hy1) as Hby.
    destruct (x =? 0) eqn:E.
    + (* the minimum is the sentinel: then y = maxsize is itself an entry *)
      assert (y = maxsize) by lia. subst y. rewrite <- Ex. repeat split; [exact Hy1|unfold maxsize; lia|].
      intros z Hz Hz0. assert (Hz' : lmin (map (fun x0 : Z => if x0 =? 0 then maxsize else x0) l) <= z); [|lia].
      apply (I2 z). apply in_map_iff. exists z. split; [destruct (z =? 0) eqn:E'; [lia|reflexivity]|exact Hz].
    + rewrite <- Ex. repeat split; [exact Hx|lia|].
      intros z Hz Hz0. assert (Hz' : lmin (map (fun x0 : Z => if x0 =? 0 then maxsize else x0) l) <= z); [|lia].
      apply (I2 z). apply in_map_iff. exists z. split; [destruct (z =? 0) eqn:E'; [lia|reflexivity]|exact Hz].
Qed.

(* ================================================================= I. shapes: everything reduces to the 2-D kernel on axis 0 *)
Theorem compress_shapes (f : method) :
  match f with Min | Max => True | _ =>
  let k := match f with Shadow => shadow2d | Prio => prio2d | Rank => rank2d | First => first2d | _ => last2d end in
  (forall M, ndint_compress f (Some 0%nat) (M2 M) = Some (V1 (k M))) /\
  (forall M, ndint_compress f (Some 1%nat) (M2 M) = Some (V1 (k (transpose M)))) /\
  (forall t, ndint_compress f (Some 0%nat) (T3 t) = Some (M2 (map k t))) /\
  (forall t, ndint_compress f (Some 1%nat) (T3 t) = Some (M2 (transpose (map k (swap01 t))))) /\
  (forall a, ndint_compress f None a = Some (V1 (k [flat a]))) /\
  (forall l, ndint_compress Shadow (Some 0%nat) (V1 l) = Some (V1 (shadow2d [l])))
  end.
Proof. destruct f; cbn; repeat split; reflexivity || exact I. Qed.
(* column j of the transpose is row j *)
Lemma column_transpose n M j : rect n M -> M <> [] -> (j < List.length M)%nat -> (forall k, nth k (column (transpose M) j) 0 = nth k (nth j M []) 0).
Proof.
  intros Hr Hne Hj k. unfold column, transpose. rewrite (width_rect n M Hr Hne).
  destruct (Nat.lt_ge_cases k n) as [Hk|Hk].
  - rewrite map_map. rewrite nth_map_seq by exact Hk. cbn [Nat.add]. apply (nth_col M j k).
  - rewrite nth_overflow by (rewrite !map_length, seq_length; lia).
    symmetry. apply nth_overflow. unfold rect in Hr. rewrite Forall_forall in Hr. rewrite (Hr (nth j M [])) by (apply nth_In; exact Hj). lia.
Qed.

Theorem shadow_sign_zero n M j :
  rect n M -> (j < n)%nat ->
  (all_zeros (column M j) -> nth j (shadow2d M) 0 = 0) /\
  (forall i v, last_nonzero (column M j) i v ->
     (0 < v -> 0 < nth j (shadow2d M) 0) /\ (v < 0 -> nth j (shadow2d M) 0 < 0)).
Proof. intros Hr Hj. split; [apply (shadow_zero n); assumption|intros i v; apply (shadow_sign n); assumption]. Qed.
Theorem key_of_spec c :
  (forall i v, last_nonzero c i v -> key_of c = Some (i, Z.abs v)) /\
  (all_zeros c -> key_of c = None) /\
  (forall kk, key_of c = Some kk -> exists i v, last_nonzero c i v /\ kk = (i, Z.abs v)).
Proof.
  split; [intros i v; apply key_of_last_nonzero|]. split; [|apply key_of_some].
  intros Hz. apply eff_none_spec in Hz. unfold key_of. rewrite Hz. reflexivity.
Qed.
Theorem first_last_spec n M j :
  rect n M -> M <> [] -> (j < n)%nat ->
  (forall i v, first_nonzero (column M j) i v -> nth j (first2d M) 0 = v) /\
  (forall i v, last_nonzero (column M j) i v -> nth j (last2d M) 0 = v) /\
  (all_zeros (column M j) -> nth j (first2d M) 0 = 0 /\ nth j (last2d M) 0 = 0).
Proof.
  intros Hr Hne Hj. pose proof (width_rect n M Hr Hne) as Hw. split; [|split].
  - intros i v. apply first2d_first. lia.
  - intros i v. apply (last2d_last n); assumption.
  - intros Hz. split; [apply first2d_zero; [lia|exact Hz]|apply (last2d_zero n); assumption].
Qed.

(* ================================================================= J. lexicographic ranking by one weight vector (C14) *)
Lemma dot_nth a b :
  List.length a = List.length b ->
  dot a b = zsum (map (fun j => nth j a 0 * nth j b 0) (seq 0 (List.length a))).
Proof.
  unfold dot. revert b; induction a as [|x a IH]; intros [|y b] H; cbn [List.length] in H; try discriminate; [reflexivity|].
  cbn [combine map zsum List.length seq fst snd nth]. rewrite <- seq_shift, map_map. cbn [nth]. rewrite IH by lia. reflexivity.
Qed.
Lemma zsum_map_mul_l {A} (c : Z) (f : A -> Z) l : zsum (map (fun a => c * f a) l) = c * zsum (map f l).
Proof. induction l; cbn [map zsum]; lia. Qed.
Lemma zsum_map_sub {A} (f g : A -> Z) l : zsum (map (fun a => f a - g a) l) = zsum (map f l) - zsum (map g l).
Proof. induction l; cbn [map zsum]; lia. Qed.

Definition key_eq_dec (a b : key) : {a = b} + {a <> b}.
Proof. decide equality; [apply Z.eq_dec|apply Nat.eq_dec]. Defined.
Lemma zsum_single_nodup (D : list key) (c : key) (X : Z) :
  NoDup D -> In c D -> zsum (map (fun k => if key_eqb c k then X else 0) D) = X.
Proof.
  induction 1 as [|d D Hd Hn IH]; intros Hin; [destruct Hin|]. cbn [map zsum].
  destruct Hin as [->|Hin].
  - assert (key_eqb c c = true) as -> by (apply key_eqb_eq; reflexivity).
    rewrite zsum_map_zero; [lia|]. intros k Hk. destruct (key_eqb c k) eqn:E; [|reflexivity].
    apply key_eqb_eq in E. subst k. contradiction.
  - destruct (key_eqb c d) eqn:E; [apply key_eqb_eq in E; subst d; contradiction|]. rewrite IH by exact Hin. lia.
Qed.
(* a sum over columns, regrouped by key *)
Lemma zsum_partition {A} (cls : A -> option key) (F : A -> Z) (l : list A) :
  (forall a, cls a = None -> F a = 0) ->
  exists D : list key,
    (forall k, In k D <-> exists a, In a l /\ cls a = Some k) /\
    zsum (map F l) =
    zsum (map (fun k => zsum (map (fun a => match cls a with Some c => if key_eqb c k then F a else 0 | None => 0 end) l)) D).
Proof.
  intros HF.
  set (ks := flat_map (fun a => match cls a with Some c => [c] | None => [] end) l).
  exists (nodup key_eq_dec ks).
  assert (Hks : forall k, In k ks <-> exists a, In a l /\ cls a = Some k).
  { intros k. unfold ks. rewrite in_flat_map. split.
    - intros [a [Ha Hk]]. exists a. split; [exact Ha|]. destruct (cls a); [destruct Hk as [->|[]]; reflexivity|destruct Hk].
    - intros [a [Ha Hk]]. exists a. split; [exact Ha|]. rewrite Hk. left. reflexivity. }
  split; [intros k; rewrite nodup_In; apply Hks|].
  rewrite <- zsum_exchange. apply zsum_map_ext. intros a Ha.
  destruct (cls a) as [c|] eqn:E.
  - symmetry. apply zsum_single_nodup; [apply NoDup_nodup|]. apply nodup_In. apply Hks. exists a. split; assumption.
  - rewrite (HF a E). symmetry. apply zsum_map_zero. reflexivity.
Qed.

Lemma sgn_of_key c kk : key_of c = Some kk -> sgn_of c = 1 \/ sgn_of c = -1.
Proof.
  unfold key_of, sgn_of. destruct (eff c) as [[i v]|] eqn:E; [|discriminate]. intros _.
  apply eff_spec in E. destruct E as [_ [Hv _]]. destruct (Z.sgn_spec v) as [[? ->]|[[? ->]|[? ->]]]; lia.
Qed.
(* weight of a column = its sign times the weight of its key *)
Lemma shadow_weight n M j :
  rect n M -> (j < n)%nat ->
  nth j (shadow2d M) 0 = match key_of (column M j) with Some kj => sgn_of (column M j) * WF M kj | None => 0 end.
Proof.
  intros Hr Hj. rewrite (shadow2d_nth n M j Hr Hj). unfold key_of, sgn_of. change (column M j) with (col M j).
  destruct (eff (col M j)) as [[i v]|] eqn:E; [|reflexivity].
  apply eff_spec in E. destruct E as [_ [Hv _]]. destruct (v <? 0) eqn:Ev.
  - rewrite Z.sgn_neg by lia. lia.
  - rewrite Z.sgn_pos by lia. lia.
Qed.

Theorem shadow_lex n M x y k :
  rect n M -> M <> [] -> List.length x = n -> List.length y = n -> is01 x -> is01 y ->
  level_score n M k x > level_score n M k y ->
  (forall k', key_lt k k' -> level_score n M k' x = level_score n M k' y) ->
  dot (shadow2d M) x > dot (shadow2d M) y.
Proof.
  intros Hr Hne Lx Ly Hx Hy Hk Hhi.
  assert (Lw : List.length (shadow2d M) = n) by (rewrite shadow2d_length; apply width_rect; assumption).
  rewrite !dot_nth by lia. rewrite Lw.
  set (w := shadow2d M). set (d := fun j => nth j x 0 - nth j y 0).
  assert (Hd : forall j, -1 <= d j <= 1).
  { intros j. unfold d. unfold is01 in Hx, Hy. rewrite Forall_forall in Hx, Hy.
    assert (forall (l : list Z), (forall v, In v l -> v = 0 \/ v = 1) -> nth j l 0 = 0 \/ nth j l 0 = 1) as H01.
    { intros l Hl. destruct (Nat.lt_ge_cases j (List.length l)) as [H|H]; [apply Hl, nth_In, H|left; apply nth_overflow; lia]. }
    destruct (H01 x Hx), (H01 y Hy); lia. }
  assert (Goal' : 0 < zsum (map (fun j => nth j w 0 * d j) (seq 0 n))).
  2:{ unfold d in Goal'. rewrite (zsum_map_ext _ (fun j => nth j w 0 * nth j x 0 - nth j w 0 * nth j y 0)) in Goal' by (intros; lia).
      rewrite zsum_map_sub in Goal'. lia. }
  (* split every column term by comparing its key with k *)
  set (K := fun j => key_of (column M j)). set (sg := fun j => sgn_of (column M j)).
  assert (Hw : forall j, In j (seq 0 n) -> nth j w 0 = match K j with Some kj => sg j * WF M kj | None => 0 end).
  { intros j Hj. apply in_seq in Hj. apply (shadow_weight n M j Hr). lia. }
  set (Ta := fun j => match K j with Some kj => if key_ltb k kj then sg j * WF M kj * d j else 0 | None => 0 end).
  set (Tb := fun j => match K j with Some kj => if key_eqb kj k then sg j * d j else 0 | None => 0 end).
  set (Tc := fun j => match K j with Some kj => if key_ltb kj k then sg j * WF M kj * d j else 0 | None => 0 end).
  rewrite (zsum_map_ext _ (fun j => Ta j + (WF M k * Tb j + Tc j))).
  2:{ intros j Hj. rewrite (Hw j Hj). unfold Ta, Tb, Tc. destruct (K j) as [kj|]; [|lia].
      destruct (key_trichotomy kj k) as [H|[H|H]].
      - rewrite H. assert (key_ltb k kj = false) as -> by (unfold key_ltb in *; lia).
        assert (key_eqb kj k = false) as -> by (unfold key_ltb, key_eqb in *; lia). lia.
      - subst kj. rewrite key_ltb_irrefl. assert (key_eqb k k = true) as -> by (apply key_eqb_eq; reflexivity). lia.
      - rewrite H. assert (key_ltb kj k = false) as -> by (unfold key_ltb in *; lia).
        assert (key_eqb kj k = false) as -> by (unfold key_ltb, key_eqb in *; lia). lia. }
  rewrite !zsum_map_add, zsum_map_mul_l.
  (* level k *)
  assert (Hb : zsum (map Tb (seq 0 n)) = level_score n M k x - level_score n M k y).
  { unfold level_score. rewrite <- zsum_map_sub. apply zsum_map_ext. intros j _. unfold Tb, K, sg, d.
    destruct (key_of (column M j)) as [kj|]; [|lia]. destruct (key_eqb kj k); lia. }
  (* lower levels *)
  assert (Hc : - lower_sum n M w k <= zsum (map Tc (seq 0 n))).
  { unfold lower_sum. rewrite <- Z.opp_involutive. rewrite <- (Z.mul_1_l (zsum (map Tc _))) . rewrite <- Z.opp_le_mono.
    rewrite Z.mul_1_l. replace (- zsum (map Tc (seq 0 n))) with (zsum (map (fun j => - Tc j) (seq 0 n))).
    2:{ clear. induction (seq 0 n); cbn [map zsum]; lia. }
    apply zsum_map_le. intros j Hj. unfold Tc. fold (K j). rewrite (Hw j Hj). destruct (K j) as [kj|] eqn:EK; [|lia].
    destruct (key_ltb kj k); [|lia]. pose proof (WF_pos M kj). pose proof (Hd j).
    destruct (sgn_of_key (column M j) kj EK) as [Hs|Hs]; unfold sg; rewrite Hs; nia. }
  (* higher levels cancel *)
  assert (Ha : zsum (map Ta (seq 0 n)) = 0).
  { destruct (zsum_partition K Ta (seq 0 n)) as [D [HD ->]].
    - intros j Hj. unfold Ta. rewrite Hj. reflexivity.
    - apply zsum_map_zero. intros k' Hk'.
      destruct (key_ltb k k') eqn:Elt.
      + (* a higher level: equal scores *)
        rewrite (zsum_map_ext _ (fun j => WF M k' * match K j with Some kj => if key_eqb kj k' then sg j * d j else 0 | None => 0 end)).
        2:{ intros j _. unfold Ta. destruct (K j) as [kj|]; [|lia]. destruct (key_eqb kj k') eqn:E; [|lia].
            apply key_eqb_eq in E. subst kj. rewrite Elt. lia. }
        rewrite zsum_map_mul_l.
        assert (zsum (map (fun j => match K j with Some kj => if key_eqb kj k' then sg j * d j else 0 | None => 0 end) (seq 0 n)) = level_score n M k' x - level_score n M k' y) as ->.
        { unfold level_score. rewrite <- zsum_map_sub. apply zsum_map_ext. intros j _. unfold K, sg, d.
          destruct (key_of (column M j)) as [kj|]; [|lia]. destruct (key_eqb kj k'); lia. }
        rewrite (Hhi k') by (apply key_ltb_lt; exact Elt). lia.
      + apply zsum_map_zero. intros j _. unfold Ta. destruct (K j) as [kj|]; [|reflexivity].
        destruct (key_eqb kj k') eqn:E; [|reflexivity]. apply key_eqb_eq in E. subst kj. rewrite Elt. reflexivity. }
  rewrite Ha, Hb. pose proof (WF_exact n M k Hr) as He. fold w in He. pose proof (WF_pos M k).
  nia.
Qed.

(* every weight exceeds the NUMBER of columns of strictly lower priority *)
Theorem shadow_cost_count n M k kk :
  rect n M -> (k < n)%nat -> key_of (column M k) = Some kk ->
  Z.abs (nth k (shadow2d M) 0) >
  zsum (map (fun j => match key_of (column M j) with Some kj => if key_ltb kj kk then 1 else 0 | None => 0 end) (seq 0 n)).
Proof.
  intros Hr Hk E. rewrite (shadow_exact n M k kk Hr Hk E).
  assert (zsum (map (fun j => match key_of (column M j) with Some kj => if key_ltb kj kk then 1 else 0 | None => 0 end) (seq 0 n))
          <= lower_sum n M (shadow2d M) kk); [|lia].
  unfold lower_sum. apply zsum_map_le. intros j Hj. apply in_seq in Hj.
  destruct (key_of (column M j)) as [kj|] eqn:Ej; [|lia]. destruct (key_ltb kj kk); [|lia].
  rewrite (shadow_abs n M j kj Hr ltac:(lia) Ej). apply WF_pos.
Qed.

(* an optimal point cannot be beaten lexicographically by a feasible point *)
Theorem shadow_optimum_lex n M (feasible : list Z -> Prop) x :
  rect n M -> M <> [] ->
  (forall z, feasible z -> List.length z = n /\ is01 z) ->
  feasible x -> (forall y, feasible y -> dot (shadow2d M) y <= dot (shadow2d M) x) ->
  forall y k, feasible y ->
    level_score n M k y > level_score n M k x ->
    ~ (forall k', key_lt k k' -> level_score n M k' y = level_score n M k' x).
Proof.
  intros Hr Hne Hf Hx Hopt y k Hy Hk Hhi.
  destruct (Hf x Hx) as [Lx Bx]. destruct (Hf y Hy) as [Ly By].
  pose proof (shadow_lex n M y x k Hr Hne Ly Lx By Bx Hk Hhi). specialize (Hopt y Hy). lia.
Qed.

(* ================================================================= K. ranking *)
Fixpoint rw3 (cr cv : Z) (l : list (nat * Z)) : list (nat * Z * Z) :=
  match l with
  | [] => []
  | p :: r => let rk := if cv =? snd p then cr else cr + 1 in (fst p, snd p, rk) :: rw3 rk (snd p) r
  end.
Lemma rank_walk_rw3 cr cv l : rank_walk cr cv l = map (fun t => (fst (fst t), snd t)) (rw3 cr cv l).
Proof. revert cr cv; induction l as [|p r IH]; intros; cbn [rank_walk rw3 map fst snd]; [reflexivity|]. rewrite IH. reflexivity. Qed.
Lemma rw3_items cr cv l : map fst (rw3 cr cv l) = l.
Proof. revert cr cv; induction l as [|[i v] r IH]; intros; cbn [rw3 map fst snd]; [reflexivity|]. rewrite IH. reflexivity. Qed.

Definition R3 (a b : nat * Z * Z) : Prop :=
  snd (fst a) <= snd (fst b) /\ (snd (fst a) = snd (fst b) -> snd a = snd b) /\ (snd (fst a) < snd (fst b) -> snd a < snd b) /\ snd a <= snd b.
Lemma rw3_sorted l : forall cr cv,
  StronglySorted ple l -> (forall p, In p l -> cv <= snd p) ->
  StronglySorted R3 (rw3 cr cv l) /\
  Forall (fun t => cr <= snd t /\ (snd (fst t) = cv -> snd t = cr) /\ (cv < snd (fst t) -> cr < snd t)) (rw3 cr cv l).
Proof.
  induction l as [|p r IH]; intros cr cv Hs Hcv; cbn [rw3]; [split; constructor|].
  apply StronglySorted_inv in Hs. destruct Hs as [Hs Hp]. rewrite Forall_forall in Hp.
  set (rk := if cv =? snd p then cr else cr + 1).
  destruct (IH rk (snd p) Hs) as [I1 I2]; [intros q Hq; apply (Hp q Hq)|].
  pose proof (Hcv p (or_introl eq_refl)) as Hcp.
  assert (Hrk : cr <= rk /\ (snd p = cv -> rk = cr) /\ (cv < snd p -> cr < rk)).
  { subst rk. destruct (cv =? snd p) eqn:E; lia. }
  rewrite Forall_forall in I2. split.
  - constructor; [exact I1|]. apply Forall_forall. intros t Ht. specialize (I2 t Ht). unfold R3. cbn [fst snd].
    assert (snd p <= snd (fst t)).
    { assert (In (fst t) r) by (rewrite <- (rw3_items rk (snd p) r); apply in_map; exact Ht). apply (Hp (fst t)). assumption. }
    lia.
  - constructor; [cbn [fst snd]; lia|]. apply Forall_forall. intros t Ht. specialize (I2 t Ht).
    assert (snd p <= snd (fst t)).
    { assert (In (fst t) r) by (rewrite <- (rw3_items rk (snd p) r); apply in_map; exact Ht). apply (Hp (fst t)). assumption. }
    lia.
Qed.
(* ranks are consecutive *)
Lemma rw3_dense l : forall cr cv,
  Forall (fun t => cr <= snd t /\ forall v, cr < v <= snd t -> exists t', In t' (rw3 cr cv l) /\ snd t' = v) (rw3 cr cv l).
Proof.
  induction l as [|p r IH]; intros cr cv; cbn [rw3]; [constructor|].
  set (rk := if cv =? snd p then cr else cr + 1).
  assert (Hrk : rk = cr \/ rk = cr + 1) by (subst rk; destruct (cv =? snd p); lia).
  specialize (IH rk (snd p)). rewrite Forall_forall in IH.
  constructor.
  - cbn [snd]. split; [lia|]. intros v Hv. exists (fst p, snd p, rk). split; [left; reflexivity|cbn [snd]; lia].
  - apply Forall_forall. intros t Ht. destruct (IH t Ht) as [H1 H2]. split; [lia|].
    intros v Hv. destruct (Z_le_gt_dec v rk) as [Hle|Hgt].
    + exists (fst p, snd p, rk). split; [left; reflexivity|cbn [snd]; lia].
    + destruct (H2 v ltac:(lia)) as [t' [Ht' Hv']]. exists t'. split; [right; exact Ht'|exact Hv'].
Qed.
Lemma SS_in_pair {A} (R : A -> A -> Prop) l a b :
  StronglySorted R l -> In a l -> In b l -> a = b \/ R a b \/ R b a.
Proof.
  induction 1 as [|x l Hl IH Hx]; intros Ha Hb; [destruct Ha|]. rewrite Forall_forall in Hx.
  destruct Ha as [->|Ha], Hb as [->|Hb].
  - left; reflexivity.
  - right; left. apply Hx, Hb.
  - right; right. apply Hx, Ha.
  - apply IH; assumption.
Qed.

(* the triples behind ranking1 *)
Definition rtriples (l : list Z) : list (nat * Z * Z) :=
  match sort_p (enum l) with
  | [] => []
  | (p0 :: _) as s => rw3 (if 0 <? snd p0 then 1 else 0) (snd p0) s
  end.
Lemma ranking1_triples l : ranking1 l = unsort (List.length l) (map (fun t => (fst (fst t), snd t)) (rtriples l)).
Proof.
  unfold ranking1, rtriples. destruct (sort_p (enum l)) as [|p0 s] eqn:E.
  - assert (l = []) as ->. { destruct l; [reflexivity|]. pose proof (Permutation_length (sort_p_perm (enum (z :: l)))) as H. rewrite E in H. unfold enum in H. cbn in H. discriminate. }
    reflexivity.
  - rewrite rank_walk_rw3. reflexivity.
Qed.
Lemma rtriples_items l : map fst (rtriples l) = sort_p (enum l).
Proof. unfold rtriples. destruct (sort_p (enum l)) as [|p0 s] eqn:E; [reflexivity|]. apply rw3_items. Qed.
Lemma rtriples_in l i : (i < List.length l)%nat -> exists rk, In (i, nth i l 0, rk) (rtriples l).
Proof.
  intros Hi. assert (In (i, nth i l 0) (map fst (rtriples l))) as H.
  { rewrite rtriples_items. apply (Permutation_in _ (Permutation_sym (sort_p_perm _))). apply (in_enum l 0). split; [exact Hi|reflexivity]. }
  apply in_map_iff in H. destruct H as [[[i' v] rk] [E H]]. cbn [fst] in E. inversion E; subst. exists rk. exact H.
Qed.
Lemma rtriples_nodup l : NoDup (map fst (map (fun t : nat * Z * Z => (fst (fst t), snd t)) (rtriples l))).
Proof.
  rewrite map_map. cbn [fst]. rewrite <- (map_map fst fst). rewrite rtriples_items.
  eapply Permutation_NoDup; [apply Permutation_map, Permutation_sym, sort_p_perm|]. rewrite map_fst_enum. apply seq_NoDup.
Qed.
Lemma ranking1_nth l i rk : (i < List.length l)%nat -> In (i, nth i l 0, rk) (rtriples l) -> nth i (ranking1 l) 0 = rk.
Proof.
  intros Hi Hin. rewrite ranking1_triples. unfold unsort. rewrite nth_map_seq by exact Hi. cbn [Nat.add].
  apply plookup_in; [apply rtriples_nodup|]. apply in_map_iff. exists (i, nth i l 0, rk). split; [reflexivity|exact Hin].
Qed.
Lemma ranking1_length l : List.length (ranking1 l) = List.length l.
Proof. rewrite ranking1_triples. unfold unsort. rewrite map_length, seq_length. reflexivity. Qed.
Lemma rtriples_sorted l : StronglySorted R3 (rtriples l).
Proof.
  unfold rtriples. destruct (sort_p (enum l)) as [|p0 s] eqn:E; [constructor|].
  pose proof (sort_p_sorted (enum l)) as Hs. rewrite E in Hs.
  apply rw3_sorted; [exact Hs|]. intros p [<-|Hp]; [lia|].
  apply StronglySorted_inv in Hs. destruct Hs as [_ Hs]. rewrite Forall_forall in Hs. apply (Hs p Hp).
Qed.

(* ranking(): order preserving and tie exact *)
Theorem ranking1_order l i j :
  (i < List.length l)%nat -> (j < List.length l)%nat ->
  (nth i l 0 < nth j l 0 <-> nth i (ranking1 l) 0 < nth j (ranking1 l) 0) /\
  (nth i l 0 = nth j l 0 <-> nth i (ranking1 l) 0 = nth j (ranking1 l) 0).
Proof.
  intros Hi Hj. destruct (rtriples_in l i Hi) as [ri Hti]. destruct (rtriples_in l j Hj) as [rj Htj].
  rewrite (ranking1_nth l i ri Hi Hti), (ranking1_nth l j rj Hj Htj).
  destruct (SS_in_pair R3 _ _ _ (rtriples_sorted l) Hti Htj) as [E|[H|H]].
  - inversion E; subst. lia.
  - unfold R3 in H. cbn [fst snd] in H. lia.
  - unfold R3 in H. cbn [fst snd] in H. lia.
Qed.
(* ... and dense: the ranks are exactly start, start+1, ..., with start = 1 when every entry is
   positive and 0 otherwise *)
Theorem ranking1_dense l i :
  (i < List.length l)%nat ->
  let start := if 0 <? lmin l then 1 else 0 in
  start <= nth i (ranking1 l) 0 /\
  forall v, start <= v <= nth i (ranking1 l) 0 -> exists j, (j < List.length l)%nat /\ nth j (ranking1 l) 0 = v.
Proof.
  intros Hi. cbn zeta. destruct (rtriples_in l i Hi) as [ri Hti]. rewrite (ranking1_nth l i ri Hi Hti).
  unfold rtriples in Hti. destruct (sort_p (enum l)) as [|p0 s] eqn:E; [destruct Hti|].
  (* the head of the sorted list carries the minimum *)
  assert (Hp0 : In p0 (enum l)) by (apply (Permutation_in _ (sort_p_perm _)); rewrite E; left; reflexivity).
  destruct p0 as [i0 v0]. apply (in_enum l 0) in Hp0. destruct Hp0 as [Hi0 Hv0]. cbn [snd] in *.
  assert (Hmin : v0 = lmin l).
  { assert (Hne : l <> []) by (intros ->; cbn in Hi; lia). destruct (lmin_spec l Hne) as [M1 M2].
    assert (v0 <= lmin l).
    { apply (In_nth _ _ 0) in M1. destruct M1 as [k [Hk Ek]].
      assert (In (k, lmin l) (sort_p (enum l))) as Hin by (apply (Permutation_in _ (Permutation_sym (sort_p_perm _))); apply (in_enum l 0); split; assumption).
      rewrite E in Hin. destruct Hin as [Hin|Hin]; [inversion Hin; lia|].
      pose proof (sort_p_sorted (enum l)) as Hs. rewrite E in Hs. apply StronglySorted_inv in Hs. destruct Hs as [_ Hs].
      rewrite Forall_forall in Hs. specialize (Hs _ Hin). unfold ple in Hs. cbn [snd] in Hs. exact Hs. }
    assert (lmin l <= v0) by (apply M2; rewrite <- Hv0; apply nth_In; exact Hi0). lia. }
  rewrite <- Hmin. set (r0 := if 0 <? v0 then 1 else 0) in *.
  pose proof (rw3_dense ((i0, v0) :: s) r0 v0) as Hd. rewrite Forall_forall in Hd.
  destruct (Hd _ Hti) as [D1 D2]. cbn [snd] in D1, D2. split; [exact D1|].
  intros v Hv.
  assert (exists t', In t' (rw3 r0 v0 ((i0, v0) :: s)) /\ snd t' = v) as [t' [Ht' Hv']].
  { destruct (Z.eq_dec v r0) as [->|Hne].
    - exists (i0, v0, r0). split; [|reflexivity]. cbn [rw3 fst snd]. rewrite Z.eqb_refl. left. reflexivity.
    - apply D2. lia. }
  destruct t' as [[j vj] rj]. cbn [snd] in Hv'. subst rj.
  assert (In (j, vj) (enum l)) as Hj.
  { apply (Permutation_in _ (sort_p_perm _)). rewrite E. rewrite <- (rw3_items r0 v0 ((i0, v0) :: s)).
    apply in_map_iff. exists (j, vj, v). split; [reflexivity|exact Ht']. }
  apply (in_enum l 0) in Hj. destruct Hj as [Hj Hvj]. exists j. split; [exact Hj|].
  apply (ranking1_nth l j v Hj). unfold rtriples. rewrite E. rewrite Hvj. exact Ht'.
Qed.

(* ================================================================= L. 'prio' (2-D, axis 0) *)
Lemma nth_map_lt {A B} (f : A -> B) l j d d' : (j < List.length l)%nat -> nth j (map f l) d = f (nth j l d').
Proof. revert j; induction l as [|a l IH]; intros [|j] H; cbn [List.length] in H; try lia; cbn [map nth]; [reflexivity|]. apply IH. lia. Qed.
(* ranking of a row of non-negative numbers *)
Lemma ranking1_nonneg l i : (i < List.length l)%nat -> 0 <= nth i (ranking1 l) 0.
Proof. intros Hi. destruct (ranking1_dense l i Hi) as [H _]. destruct (0 <? lmin l); lia. Qed.
Lemma ranking1_le_lmax l i : (i < List.length l)%nat -> nth i (ranking1 l) 0 <= lmax (ranking1 l).
Proof.
  intros Hi. assert (Hne : ranking1 l <> []) by (intros E; pose proof (ranking1_length l) as L; rewrite E in L; cbn in L; lia).
  destruct (lmax_spec _ Hne) as [_ H]. apply H. apply nth_In. rewrite ranking1_length. exact Hi.
Qed.
Lemma lmax_ranking1_nonneg l : 0 <= lmax (ranking1 l).
Proof.
  destruct l as [|x l]; [cbn; lia|]. pose proof (ranking1_le_lmax (x :: l) 0 ltac:(cbn; lia)).
  pose proof (ranking1_nonneg (x :: l) 0 ltac:(cbn; lia)). lia.
Qed.
Lemma ranking1_zero_iff l i :
  Forall (fun x => 0 <= x) l -> (i < List.length l)%nat ->
  (nth i (ranking1 l) 0 = 0 <-> nth i l 0 = 0).
Proof.
  intros Hnn Hi. rewrite Forall_forall in Hnn.
  assert (Hne : l <> []) by (intros ->; cbn in Hi; lia).
  destruct (lmin_spec l Hne) as [M1 M2].
  assert (Hm0 : 0 <= lmin l) by (apply Hnn, M1).
  apply (In_nth _ _ 0) in M1. destruct M1 as [m [Hm Em]].
  destruct (ranking1_dense l i Hi) as [D1 D2]. cbn zeta in D1, D2.
  split.
  - intros Hr. destruct (Z.eq_dec (nth i l 0) 0) as [E|E]; [exact E|exfalso].
    assert (0 < nth i l 0) by (assert (0 <= nth i l 0) by (apply Hnn, nth_In, Hi); lia).
    destruct (0 <? lmin l) eqn:E0; [lia|].
    assert (lmin l = 0) by lia.
    destruct (ranking1_order l m i Hm Hi) as [O1 _]. pose proof (ranking1_nonneg l m Hm). lia.
  - intros Hz. assert (lmin l = 0) by (assert (lmin l <= nth i l 0) by (apply M2, nth_In, Hi); lia).
    replace (0 <? lmin l) with false in D1, D2 by lia.
    destruct (D2 0 ltac:(lia)) as [j [Hj Ej]].
    destruct (ranking1_order l j i Hj Hi) as [O1 _]. assert (0 <= nth j l 0) by (apply Hnn, nth_In, Hj). lia.
Qed.

(* the kept rows with their tag and their offset *)
Definition orow := (nat * list Z * Z)%type.
Fixpoint offs3 (acc : Z) (rows : list (nat * list Z)) : list orow :=
  match rows with
  | [] => []
  | tr :: rs => (fst tr, snd tr, acc) :: offs3 (acc + lmax (ranking1 (snd tr))) rs
  end.
Definition erow_of (u : orow) : list Z :=
  map (fun x => x + (if 0 <? x then snd u else 0)) (ranking1 (snd (fst u))).
Lemma offs3_rows acc rows : map fst (offs3 acc rows) = rows.
Proof. revert acc; induction rows as [|[t r] rs IH]; intros; cbn [offs3 map fst snd]; [reflexivity|]. rewrite IH. reflexivity. Qed.
Lemma offs3_rk2 acc rows :
  map erow_of (offs3 acc rows) =
  map (fun ro => map (fun x => x + (if 0 <? x then snd ro else 0)) (fst ro))
      (combine (map ranking1 (map snd rows)) (offsets_from acc (map lmax (map ranking1 (map snd rows))))).
Proof.
  revert acc; induction rows as [|[t r] rs IH]; intros; cbn [offs3 map fst snd offsets_from combine]; [reflexivity|].
  rewrite IH. reflexivity.
Qed.
Definition otop (u : orow) : Z := snd u + lmax (ranking1 (snd (fst u))).
Definition orel (u v : orow) : Prop := (fst (fst u) < fst (fst v))%nat /\ otop u <= snd v.
Lemma offs3_sorted acc rows :
  StronglySorted (fun a b : nat * list Z => (fst a < fst b)%nat) rows ->
  StronglySorted orel (offs3 acc rows) /\ Forall (fun u => acc <= snd u) (offs3 acc rows).
Proof.
  revert acc; induction rows as [|[t r] rs IH]; intros acc Hs; cbn [offs3 fst snd]; [split; constructor|].
  apply StronglySorted_inv in Hs. destruct Hs as [Hs Ht]. destruct (IH (acc + lmax (ranking1 r)) Hs) as [I1 I2].
  pose proof (lmax_ranking1_nonneg r) as Hl. rewrite Forall_forall in I2, Ht. split.
  - constructor; [exact I1|]. apply Forall_forall. intros u Hu. unfold orel, otop. cbn [fst snd]. split.
    + assert (In (fst u) rs) by (rewrite <- (offs3_rows (acc + lmax (ranking1 r)) rs); apply in_map; exact Hu).
      specialize (Ht (fst u) H). cbn [fst] in Ht. exact Ht.
    + apply I2. exact Hu.
  - constructor; [cbn [snd]; lia|]. apply Forall_forall. intros u Hu. specialize (I2 u Hu). lia.
Qed.
(* every value between acc+1 and the final total is some entry *)
Lemma offs3_dense rows : forall acc v,
  Forall (fun tr : nat * list Z => snd tr <> []) rows ->
  acc < v -> (exists u, In u (offs3 acc rows) /\ v <= otop u) ->
  exists u j, In u (offs3 acc rows) /\ (j < List.length (snd (fst u)))%nat /\ nth j (erow_of u) 0 = v.
Proof.
  induction rows as [|[t r] rs IH]; intros acc v Hne Hv [u [Hu Hle]]; [destruct Hu|].
  cbn [offs3 fst snd] in *. apply Forall_cons_iff in Hne. destruct Hne as [Hr Hne]. cbn [snd] in Hr.
  destruct (Z_le_gt_dec v (acc + lmax (ranking1 r))) as [Hin|Hout].
  - (* in this row *)
    assert (Hrne : ranking1 r <> []) by (intros E; pose proof (ranking1_length r) as L; rewrite E in L; destruct r; [contradiction|cbn in L; lia]).
    destruct (lmax_spec _ Hrne) as [M1 _]. apply (In_nth _ _ 0) in M1. destruct M1 as [m [Hm Em]]. rewrite ranking1_length in Hm.
    destruct (ranking1_dense r m Hm) as [D1 D2]. cbn zeta in D1, D2.
    destruct (D2 (v - acc)) as [j [Hj Ej]]; [destruct (0 <? lmin r); lia|].
    exists (t, r, acc), j. split; [left; reflexivity|]. split; [exact Hj|].
    unfold erow_of. cbn [fst snd]. rewrite (nth_map_lt _ _ _ _ 0) by (rewrite ranking1_length; exact Hj).
    rewrite Ej. replace (0 <? v - acc) with true by lia. lia.
  - destruct Hu as [ <- | Hu ]; [unfold otop in Hle; cbn [fst snd] in Hle; lia|].
    destruct (IH (acc + lmax (ranking1 r)) v Hne ltac:(lia)) as [u' [j [H1 [H2 H3]]]]; [exists u; split; assumption|].
    exists u', j. split; [right; exact H1|]. split; assumption.
Qed.

Lemma argmax_zero_or (c : list Z) (W : Z) :
  W <> 0 -> (forall x, In x c -> x = 0 \/ x = W) -> In W c -> nth (argmax_nz c) c 0 = W.
Proof.
  intros HW. induction c as [|x xs IH]; intros H Hin; [destruct Hin|]. cbn [argmax_nz].
  destruct (H x (or_introl eq_refl)) as [ -> | -> ].
  - cbn [nzb Z.eqb negb]. destruct Hin as [E|Hin]; [congruence|].
    assert (existsb nzb xs = true) as ->. { apply existsb_exists. exists W. split; [exact Hin|unfold nzb; lia]. }
    cbn [nth]. apply IH; [intros; apply H; right; assumption|exact Hin].
  - unfold nzb. replace (W =? 0) with false by lia. reflexivity.
Qed.

Lemma prio2d_unfold M :
  kept_rows M <> [] ->
  prio2d M =
    let rk := map ranking1 (kept_rows M) in
    let offs := offsets_from 0 (map lmax rk) in
    let rk2 := map (fun ro => map (fun x => x + (if 0 <? x then snd ro else 0)) (fst ro)) (combine rk offs) in
    map (fun pl => if snd pl <? 0 then fst pl * -1 else fst pl) (combine (first2d rk2) (last2d M)).
Proof. unfold prio2d. destruct (kept_rows M); [contradiction|reflexivity]. Qed.

Definition OT (M : list (list Z)) : list orow := offs3 0 (keptT M).
Definition entry (u : orow) (j : nat) : Z :=
  let x := nth j (ranking1 (snd (fst u))) 0 in x + (if 0 <? x then snd u else 0).

Lemma OT_in n M u j :
  rect n M -> (j < n)%nat -> In u (OT M) ->
  In (fst u) (keptT M) /\ List.length (snd (fst u)) = n /\ 0 <= snd u /\
  nth j (snd (fst u)) 0 = Z.abs (nth (fst (fst u)) (keep_last (col M j)) 0) /\
  nth j (erow_of u) 0 = entry u j /\
  (entry u j = 0 <-> nth j (snd (fst u)) 0 = 0) /\ 0 <= entry u j <= otop u /\ (entry u j <> 0 -> snd u < entry u j).
Proof.
  intros Hr Hj Hu. unfold OT in Hu.
  assert (Hk : In (fst u) (keptT M)) by (rewrite <- (offs3_rows 0 (keptT M)); apply in_map; exact Hu).
  pose proof Hk as Hk'. unfold keptT in Hk'. apply filter_In in Hk'. destruct Hk' as [Ht _].
  destruct (tagged_entry n M j (fst u) Hr Hj Ht) as [_ [Hlen [He Hnn]]].
  destruct (offs3_sorted 0 (keptT M)) as [_ Hacc].
  { unfold keptT. apply SS_filter. apply tagged_sorted. }
  rewrite Forall_forall in Hacc. specialize (Hacc u Hu).
  split; [exact Hk|]. split; [exact Hlen|]. split; [exact Hacc|]. split; [exact He|].
  assert (Hjl : (j < List.length (snd (fst u)))%nat) by lia.
  pose proof (ranking1_nonneg _ j Hjl) as Hx0. pose proof (ranking1_le_lmax _ j Hjl) as Hx1.
  pose proof (ranking1_zero_iff _ j Hnn Hjl) as Hz.
  split; [unfold erow_of, entry; rewrite (nth_map_lt _ _ _ _ 0) by (rewrite ranking1_length; exact Hjl); reflexivity|].
  unfold entry, otop. cbn zeta. destruct (0 <? nth j (ranking1 (snd (fst u))) 0) eqn:E; repeat split; try lia.
Qed.
Lemma OT_tag_unique M u v : In u (OT M) -> In v (OT M) -> fst (fst u) = fst (fst v) -> u = v.
Proof.
  intros Hu Hv E. destruct (offs3_sorted 0 (keptT M)) as [Hs _].
  { unfold keptT. apply SS_filter. apply tagged_sorted. }
  destruct (SS_in_pair orel _ u v Hs Hu Hv) as [H|[[H _]|[H _]]]; [exact H|lia|lia].
Qed.
Lemma OT_of_eff n M j i v :
  rect n M -> (j < n)%nat -> eff (col M j) = Some (i, v) ->
  exists u, In u (OT M) /\ fst (fst u) = i /\ nth j (snd (fst u)) 0 = Z.abs v /\ v <> 0 /\ snd u < entry u j.
Proof.
  intros Hr Hj E. destruct (kept_of_eff n M j i v Hr Hj E) as [row [Hin [Hrow Hv]]].
  assert (In (i, row) (map fst (OT M))) as H by (unfold OT; rewrite offs3_rows; exact Hin).
  apply in_map_iff in H. destruct H as [u [Eu Hu]]. exists u.
  destruct (OT_in n M u j Hr Hj Hu) as [_ [_ [_ [_ [_ [Hz [_ Hpos]]]]]]].
  rewrite Eu in *. cbn [fst snd] in *. repeat split; try assumption. apply Hpos. intros E0. apply Hz in E0. lia.
Qed.

(* THE COLUMN FORM of prio2d *)
Theorem prio2d_nth n M j :
  rect n M -> (j < n)%nat ->
  match eff (col M j) with
  | Some (i, v) => exists u, In u (OT M) /\ fst (fst u) = i /\ nth j (snd (fst u)) 0 = Z.abs v /\ snd u < entry u j /\
                             nth j (prio2d M) 0 = if v <? 0 then - entry u j else entry u j
  | None => nth j (prio2d M) 0 = 0
  end.
Proof.
  intros Hr Hj.
  destruct (kept_rows M) as [|k0 ks] eqn:K.
  - unfold prio2d. rewrite K.
    assert (nth j (repeat 0 (width M)) 0 = 0) as -> by (clear; generalize (width M); intros m; revert j; induction m; intros [|j]; cbn; auto).
    destruct (eff (col M j)) as [[i v]|] eqn:E; [|reflexivity].
    destruct (kept_of_eff n M j i v Hr Hj E) as [row [Hin _]].
    assert (In row (kept_rows M)) by (rewrite <- keptT_rows; apply in_map_iff; exists (i, row); split; [reflexivity|exact Hin]).
    rewrite K in H. destruct H.
  - assert (Hne : M <> []) by (intros ->; discriminate K).
    rewrite prio2d_unfold by (rewrite K; discriminate). cbn zeta.
    rewrite <- keptT_rows. rewrite <- (offs3_rk2 0 (keptT M)). fold (OT M).
    assert (Hkne : OT M <> []).
    { unfold OT. intros E0. pose proof (offs3_rows 0 (keptT M)) as R. rewrite E0 in R. cbn in R. rewrite <- keptT_rows, <- R in K. discriminate K. }
    assert (Hw : width (map erow_of (OT M)) = n).
    { destruct (OT M) as [|u0 us] eqn:EO; [contradiction|]. cbn [map width].
      destruct (OT_in n M u0 j Hr Hj) as [_ [Hl _]]; [rewrite EO; left; reflexivity|].
      unfold erow_of. rewrite map_length, ranking1_length. exact Hl. }
    assert (Hlen1 : List.length (first2d (map erow_of (OT M))) = n) by (rewrite first2d_length; exact Hw).
    assert (Hlen2 : List.length (last2d M) = n).
    { unfold last2d. rewrite first2d_length. apply (width_rev n M Hr Hne). }
    assert (Hnth : nth j (map (fun pl : Z * Z => if snd pl <? 0 then fst pl * -1 else fst pl) (combine (first2d (map erow_of (OT M))) (last2d M))) 0 =
                   if nth j (last2d M) 0 <? 0 then nth j (first2d (map erow_of (OT M))) 0 * -1 else nth j (first2d (map erow_of (OT M))) 0).
    { rewrite (nth_map_lt _ _ _ _ (0, 0)) by (rewrite combine_length; lia). rewrite combine_nth by lia. reflexivity. }
    rewrite Hnth. clear Hnth.
    (* the column of the offset rank rows *)
    assert (Hcol : nth j (first2d (map erow_of (OT M))) 0 = nth (argmax_nz (map (fun u => entry u j) (OT M))) (map (fun u => entry u j) (OT M)) 0).
    { unfold first2d. rewrite Hw. rewrite nth_map_seq by exact Hj. cbn [Nat.add]. cbn zeta. rewrite col_map.
      assert (map (fun x => nth j (erow_of x) 0) (OT M) = map (fun u => entry u j) (OT M)) as ->; [|reflexivity].
      apply map_ext_in. intros u Hu. destruct (OT_in n M u j Hr Hj Hu) as [_ [_ [_ [_ [He _]]]]]. exact He. }
    destruct (eff (col M j)) as [[i v]|] eqn:E.
    + destruct (OT_of_eff n M j i v Hr Hj E) as [u [Hu [Ht [Hrow [Hv Hpos]]]]].
      exists u. repeat split; try assumption.
      rewrite (last2d_last n M j i v Hr Hj) by (apply eff_spec; exact E).
      rewrite Hcol. rewrite (argmax_zero_or _ (entry u j)).
      * destruct (v <? 0); lia.
      * destruct (OT_in n M u j Hr Hj Hu) as [_ [_ [Ha _]]]. lia.
      * intros x Hx. apply in_map_iff in Hx. destruct Hx as [u' [<- Hu']].
        destruct (Nat.eq_dec (fst (fst u')) i) as [Et|Et].
        -- right. rewrite (OT_tag_unique M u' u Hu' Hu) by lia. reflexivity.
        -- left. destruct (OT_in n M u' j Hr Hj Hu') as [_ [_ [_ [He [_ [Hz _]]]]]]. apply Hz. rewrite He.
           apply keep_last_some in E. destruct E as [_ [_ Hn]]. rewrite Hn. replace (fst (fst u') =? i)%nat with false by lia. reflexivity.
      * apply in_map_iff. exists u. split; [reflexivity|exact Hu].
    + rewrite (last2d_zero n M j Hr Hne Hj) by (apply eff_none_spec; exact E). cbn [Z.ltb Z.compare].
      rewrite Hcol. apply argmax_nz_zero. intros k.
      destruct (Nat.lt_ge_cases k (List.length (map (fun u => entry u j) (OT M)))) as [Hk|Hk]; [|apply nth_overflow; lia].
      assert (In (nth k (map (fun u => entry u j) (OT M)) 0) (map (fun u => entry u j) (OT M))) as Hin by (apply nth_In; exact Hk).
      apply in_map_iff in Hin. destruct Hin as [u' [Eu Hu']]. rewrite <- Eu.
      destruct (OT_in n M u' j Hr Hj Hu') as [_ [_ [_ [He [_ [Hz _]]]]]]. apply Hz. rewrite He, (keep_last_none _ E). reflexivity.
Qed.

Lemma OT_sorted M : StronglySorted orel (OT M).
Proof. apply offs3_sorted. unfold keptT. apply SS_filter. apply tagged_sorted. Qed.

(* absolute value of a prio entry, with the data that determines it *)
Lemma prio_abs n M j kj :
  rect n M -> (j < n)%nat -> key_of (column M j) = Some kj ->
  exists u, In u (OT M) /\ fst (fst u) = fst kj /\ nth j (snd (fst u)) 0 = snd kj /\ snd u < entry u j /\
            Z.abs (nth j (prio2d M) 0) = entry u j.
Proof.
  intros Hr Hj Hk. pose proof (prio2d_nth n M j Hr Hj) as H. unfold key_of in Hk. change (column M j) with (col M j) in Hk.
  destruct (eff (col M j)) as [[i v]|]; [|discriminate]. inversion Hk; subst. cbn [fst snd].
  destruct H as [u [H1 [H2 [H3 [H4 H5]]]]]. exists u. repeat split; try assumption.
  destruct (OT_in n M u j Hr Hj H1) as [_ [_ [Ha _]]]. rewrite H5. destruct (v <? 0); lia.
Qed.
Lemma entry_rank u j : snd u < entry u j -> 0 <= snd u ->
  0 < nth j (ranking1 (snd (fst u))) 0 /\ entry u j = nth j (ranking1 (snd (fst u))) 0 + snd u.
Proof. unfold entry. cbn zeta. destruct (0 <? nth j (ranking1 (snd (fst u))) 0) eqn:E; lia. Qed.

Theorem prio_order n M j k kj kk :
  rect n M -> (j < n)%nat -> (k < n)%nat ->
  key_of (column M j) = Some kj -> key_of (column M k) = Some kk -> key_lt kj kk ->
  Z.abs (nth j (prio2d M) 0) < Z.abs (nth k (prio2d M) 0).
Proof.
  intros Hr Hj Hk Ej Ek Hlt.
  destruct (prio_abs n M j kj Hr Hj Ej) as [u [Hu [Tu [Ru [Pu ->]]]]].
  destruct (prio_abs n M k kk Hr Hk Ek) as [w [Hw [Tw [Rw [Pw ->]]]]].
  destruct (OT_in n M u j Hr Hj Hu) as [_ [Lu [Au [_ [_ [_ [Bu _]]]]]]].
  destruct (OT_in n M w k Hr Hk Hw) as [_ [Lw [Aw _]]].
  unfold key_lt in Hlt.
  destruct (SS_in_pair orel _ u w (OT_sorted M) Hu Hw) as [E|[[H1 H2]|[H1 H2]]].
  - subst w. assert (snd kj < snd kk) by lia.
    destruct (entry_rank u j Pu Au) as [_ ->]. destruct (entry_rank u k Pw Au) as [_ ->].
    destruct (ranking1_order (snd (fst u)) j k ltac:(lia) ltac:(lia)) as [O1 _]. lia.
  - lia.
  - lia.
Qed.
Theorem prio_ties n M j k kj kk :
  rect n M -> (j < n)%nat -> (k < n)%nat ->
  key_of (column M j) = Some kj -> key_of (column M k) = Some kk ->
  (kj = kk <-> Z.abs (nth j (prio2d M) 0) = Z.abs (nth k (prio2d M) 0)).
Proof.
  intros Hr Hj Hk Ej Ek. split.
  - intros <-.
    destruct (prio_abs n M j kj Hr Hj Ej) as [u [Hu [Tu [Ru [Pu ->]]]]].
    destruct (prio_abs n M k kj Hr Hk Ek) as [w [Hw [Tw [Rw [Pw ->]]]]].
    assert (w = u) by (apply (OT_tag_unique M); [assumption..|lia]). subst w.
    destruct (OT_in n M u j Hr Hj Hu) as [_ [Lu [Au _]]].
    destruct (entry_rank u j Pu Au) as [_ ->]. destruct (entry_rank u k Pw Au) as [_ ->].
    destruct (ranking1_order (snd (fst u)) j k ltac:(lia) ltac:(lia)) as [_ O2]. lia.
  - intros E. destruct (key_trichotomy kj kk) as [H|[H|H]]; [|exact H|]; apply key_ltb_lt in H.
    + pose proof (prio_order n M j k kj kk Hr Hj Hk Ej Ek H). lia.
    + pose proof (prio_order n M k j kk kj Hr Hk Hj Ek Ej H). lia.
Qed.
Theorem prio_sign_zero n M j :
  rect n M -> (j < n)%nat ->
  (all_zeros (column M j) -> nth j (prio2d M) 0 = 0) /\
  (forall i v, last_nonzero (column M j) i v ->
     (0 < v -> 0 < nth j (prio2d M) 0) /\ (v < 0 -> nth j (prio2d M) 0 < 0)).
Proof.
  intros Hr Hj. pose proof (prio2d_nth n M j Hr Hj) as H. split.
  - intros Hz. apply eff_none_spec in Hz. change (column M j) with (col M j) in Hz. rewrite Hz in H. exact H.
  - intros i v Hl. apply eff_spec in Hl. change (column M j) with (col M j) in Hl. rewrite Hl in H.
    destruct H as [u [H1 [_ [_ [H4 H5]]]]]. destruct (OT_in n M u j Hr Hj H1) as [_ [_ [Ha _]]].
    rewrite H5. destruct (v <? 0) eqn:E; lia.
Qed.
(* dense: the magnitudes are exactly 1, 2, ..., d *)
Theorem prio_dense n M j kj :
  rect n M -> (j < n)%nat -> key_of (column M j) = Some kj ->
  1 <= Z.abs (nth j (prio2d M) 0) /\
  forall v, 1 <= v <= Z.abs (nth j (prio2d M) 0) -> exists k, (k < n)%nat /\ Z.abs (nth k (prio2d M) 0) = v.
Proof.
  intros Hr Hj Ej. destruct (prio_abs n M j kj Hr Hj Ej) as [u [Hu [Tu [Ru [Pu Eabs]]]]]. rewrite Eabs.
  destruct (OT_in n M u j Hr Hj Hu) as [_ [Lu [Au [_ [_ [_ [Bu _]]]]]]]. split; [lia|].
  intros v Hv.
  destruct (offs3_dense (keptT M) 0 v) as [u' [j' [Hu' [Hj' Ev]]]].
  - apply Forall_forall. intros tr Htr. unfold keptT in Htr. apply filter_In in Htr. destruct Htr as [Htr _].
    pose proof (tagged_length n M tr Hr Htr) as L. intros E0. rewrite E0 in L. cbn in L. lia.
  - lia.
  - exists u. split; [exact Hu|lia].
  - fold (OT M) in Hu'. assert (Hjn : (j' < n)%nat) by (destruct (OT_in n M u' j Hr Hj Hu') as [_ [L _]]; lia).
    destruct (OT_in n M u' j' Hr Hjn Hu') as [_ [_ [Au' [He [Hen [Hz [_ Hp]]]]]]].
    rewrite Hen in Ev. exists j'. split; [exact Hjn|].
    pose proof (prio2d_nth n M j' Hr Hjn) as H.
    destruct (eff (col M j')) as [[i v']|] eqn:E.
    + destruct H as [w [Hw [Tw [_ [Pw H5]]]]].
      assert (w = u').
      { apply (OT_tag_unique M); [assumption..|]. rewrite Tw.
        apply keep_last_some in E. destruct E as [_ [_ Hn]]. rewrite Hn in He.
        destruct (fst (fst u') =? i)%nat eqn:Et; [apply Nat.eqb_eq in Et; lia|].
        exfalso. assert (nth j' (snd (fst u')) 0 = 0) by (rewrite He; reflexivity). apply Hz in H. lia. }
      subst w. rewrite H5. destruct (v' <? 0); lia.
    + exfalso. rewrite (keep_last_none _ E) in He. assert (nth j' (snd (fst u')) 0 = 0) by (rewrite He; reflexivity). apply Hz in H0. lia.
Qed.
Lemma prio2d_length n M : rect n M -> M <> [] -> List.length (prio2d M) = n.
Proof.
  intros Hr Hne. unfold prio2d. destruct (kept_rows M) as [|k0 ks] eqn:K; [rewrite repeat_length; apply width_rect; assumption|].
  rewrite map_length, combine_length.
  assert (List.length (last2d M) = n) as -> by (unfold last2d; rewrite first2d_length; apply (width_rev n M Hr Hne)).
  rewrite first2d_length.
  match goal with |- context [width ?X] => assert (width X = n) as -> end; [|lia].
  cbn [map combine offsets_from width fst]. rewrite map_length, ranking1_length.
  assert (In k0 (kept_rows M)) as Hin by (rewrite K; left; reflexivity).
  rewrite <- keptT_rows in Hin. apply in_map_iff in Hin. destruct Hin as [tr [<- Htr]].
  unfold keptT in Htr. apply filter_In in Htr. apply (tagged_length n M tr Hr), Htr.
Qed.
(* 'rank' (2-D): the dense, order-preserving ranking of the SIGNED prio values *)
Theorem rank2d_spec n M i j :
  rect n M -> M <> [] -> (i < n)%nat -> (j < n)%nat ->
  (nth i (prio2d M) 0 < nth j (prio2d M) 0 <-> nth i (rank2d M) 0 < nth j (rank2d M) 0) /\
  (nth i (prio2d M) 0 = nth j (prio2d M) 0 <-> nth i (rank2d M) 0 = nth j (rank2d M) 0) /\
  (let start := if 0 <? lmin (prio2d M) then 1 else 0 in
   start <= nth i (rank2d M) 0 /\
   forall v, start <= v <= nth i (rank2d M) 0 -> exists k, (k < n)%nat /\ nth k (rank2d M) 0 = v).
Proof.
  intros Hr Hne Hi Hj. pose proof (prio2d_length n M Hr Hne) as L. unfold rank2d.
  destruct (ranking1_order (prio2d M) i j ltac:(lia) ltac:(lia)) as [O1 O2].
  pose proof (ranking1_dense (prio2d M) i ltac:(lia)) as D. rewrite L in D. split; [exact O1|]. split; [exact O2|exact D].
Qed.
(* the unique column of the highest level takes its preferred value in every optimum, if
   some feasible point gives it that value *)
Theorem shadow_top_column n M (feasible : list Z -> Prop) x j kj :
  rect n M -> M <> [] -> (j < n)%nat ->
  (forall z, feasible z -> List.length z = n /\ is01 z) ->
  key_of (column M j) = Some kj ->
  (forall j' kj', (j' < n)%nat -> key_of (column M j') = Some kj' -> j' <> j -> key_lt kj' kj) ->
  feasible x -> (forall y, feasible y -> dot (shadow2d M) y <= dot (shadow2d M) x) ->
  (sgn_of (column M j) = 1 -> (exists y, feasible y /\ nth j y 0 = 1) -> nth j x 0 = 1) /\
  (sgn_of (column M j) = -1 -> (exists y, feasible y /\ nth j y 0 = 0) -> nth j x 0 = 0).
Proof.
  intros Hr Hne Hj Hf Ek Htop Hx Hopt.
  assert (Hscore : forall z, level_score n M kj z = sgn_of (column M j) * nth j z 0).
  { intros z. unfold level_score.
    rewrite (zsum_map_ext _ (fun j' => if (j' =? j)%nat then sgn_of (column M j) * nth j z 0 else 0)).
    - apply zsum_single. exact Hj.
    - intros j' Hj'. apply in_seq in Hj'. destruct (j' =? j)%nat eqn:E.
      + apply Nat.eqb_eq in E. subst j'. rewrite Ek. assert (key_eqb kj kj = true) as -> by (apply key_eqb_eq; reflexivity). reflexivity.
      + destruct (key_of (column M j')) as [kj'|] eqn:E'; [|reflexivity].
        destruct (key_eqb kj' kj) eqn:Eq; [|reflexivity]. apply key_eqb_eq in Eq. subst kj'.
        pose proof (Htop j' kj ltac:(lia) E' ltac:(intros ->; rewrite Nat.eqb_refl in E; discriminate)) as Hlt.
        apply key_ltb_lt in Hlt. rewrite key_ltb_irrefl in Hlt. discriminate. }
  assert (Hhigh : forall z z' k', key_lt kj k' -> level_score n M k' z = level_score n M k' z').
  { intros z z' k' Hlt. unfold level_score. apply zsum_map_ext. intros j' Hj'. apply in_seq in Hj'.
    destruct (key_of (column M j')) as [kj'|] eqn:E'; [|reflexivity].
    destruct (key_eqb kj' k') eqn:Eq; [|reflexivity]. exfalso. apply key_eqb_eq in Eq. subst kj'.
    apply key_ltb_lt in Hlt.
    destruct (Nat.eq_dec j' j) as [->|Hn].
    - rewrite Ek in E'. inversion E'; subst. rewrite key_ltb_irrefl in Hlt. discriminate.
    - pose proof (Htop j' k' ltac:(lia) E' Hn) as H. apply key_ltb_lt in H.
      pose proof (key_ltb_trans _ _ _ Hlt H) as H'. rewrite key_ltb_irrefl in H'. discriminate. }
  destruct (Hf x Hx) as [Lx Bx].
  assert (Hxj : nth j x 0 = 0 \/ nth j x 0 = 1).
  { unfold is01 in Bx. rewrite Forall_forall in Bx. apply Bx, nth_In. lia. }
  split; intros Hs [y [Hy Hyj]].
  - destruct Hxj as [H0|H1]; [exfalso|exact H1].
    apply (shadow_optimum_lex n M feasible x Hr Hne Hf Hx Hopt y kj Hy).
    + rewrite !Hscore, Hs, Hyj, H0. lia.
    + intros k' Hk'. apply Hhigh. exact Hk'.
  - destruct Hxj as [H0|H1]; [exact H0|exfalso].
    apply (shadow_optimum_lex n M feasible x Hr Hne Hf Hx Hopt y kj Hy).
    + rewrite !Hscore, Hs, Hyj, H1. lia.
    + intros k' Hk'. apply Hhigh. exact Hk'.
Qed.
