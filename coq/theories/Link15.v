(* Link15.v — C15_exact with its `sound` hypothesis discharged by C02: for a solver-safe model, what
   solve() reports from an exact solver run on the model's own asserted polyhedron satisfies the
   model.  Glue between the list/record representation of Bridge.v and Plog.to_ge_polyhedron. *)
Require Import Puan.Base Puan.Plog Puan.Sem Puan.SemFacts Puan.AssumeFacts Puan.EncodeFacts Puan.Link
               Puan.Bridge Puan.BridgeFacts.

Definition is_comp_id (m : prop) (i : ident) : bool :=
  existsb (fun n => negb (is_var n) && String.eqb (id_of n) i) (nodes m).
(* Bridge columns of the asserted polyhedron of m; gens says which ids were auto-generated *)
Definition bcols (gens : ident -> bool) (m : prop) : list column :=
  map (fun c => mkCol (IdS (fst c)) (fst (snd c)) (snd (snd c)) (is_comp_id m (fst c)) (gens (fst c)) (negb (is_comp_id m (fst c))))
      (columns true m).
Definition bpoly (gens : ident -> bool) (m : prop) : vnd :=
  mkVnd (map (dense (map fst (columns true m))) (encode true m))
        (mkVar (IdZ 0) 1 1 :: map col_var (bcols gens m)) [].
(* the model is satisfied by an assignment of ids (ids that are not reported count as 0) *)
Definition model_true_at (m : prop) (e : vid -> option Z) : Prop :=
  eval (fun i => match e (IdS i) with Some z => z | None => 0 end) m = 1.

Lemma bdot_dot a x : bdot a x = dot a x.
Proof. unfold bdot. revert x. induction a as [|u us IH]; intros [|v vs]; cbn [combine map zsum dot fst snd]; try reflexivity. rewrite IH. reflexivity. Qed.
Lemma eval_fext f g p : (forall i, f i = g i) -> eval f p = eval g p.
Proof.
  intros H. induction p as [i lo hi | m i gg lo hi s v ch IH] using prop_ind'; cbn [eval]; [apply H|].
  assert (map (eval f) ch = map (eval g) ch) as ->; [|reflexivity]. apply map_ext_in. intros c Hc. rewrite Forall_forall in IH. auto.
Qed.
Lemma col_value_lookup gens m x i :
  match col_value (bcols gens m) x (IdS i) with Some z => z | None => 0 end = col_lookup (map fst (columns true m)) x i.
Proof.
  unfold col_value, bcols. rewrite map_map. cbn [c_id]. generalize (columns true m). intros cols. revert x.
  induction cols as [|[j b] r IH]; intros [|v vs]; cbn [map combine dlookup col_lookup fst]; try reflexivity.
  cbn [vid_eqb]. destruct (String.eqb i j); [reflexivity|apply IH].
Qed.

Lemma nodes_cases p q : In q (nodes p) -> q = p \/ exists c, In c (children p) /\ In q (nodes c).
Proof. destruct p; cbn [nodes children]; intros [H|H]; auto; [destruct H|]. right. apply in_flat_map in H. exact H. Qed.

Section L.
Variable gens : ident -> bool.
Variable m : prop.
Hypothesis Hv : is_var m = false.
Hypothesis Hps : plain_shape m.
Hypothesis Hsafe : solver_safe m = true.
Hypothesis Hnd : NoDup (map fst (columns true m)).
Hypothesis Hcov : cols_cover m (columns true m).
Hypothesis Htop : ~ In (id_of m) (map fst (columns true m)).
Hypothesis Hla : leaves_apart m.

Lemma bpoly_sound x : feasible (bpoly gens m) x -> model_true_at m (col_value (bcols gens m) x).
Proof.
  intros [Hb Hrows]. unfold model_true_at.
  erewrite eval_fext; [|intros i; apply (col_value_lookup gens m x i)].
  apply dense_sound; auto.
  - unfold bpoly in Hb. cbn [vars skipn] in Hb. unfold in_bounds, bcols in Hb. rewrite map_map in Hb. cbn [col_var c_id c_lo c_hi] in Hb.
    clear - Hb. revert x Hb. generalize (columns true m). induction l as [|[j [lo hi]] r IH]; intros x Hb; inversion Hb; subst; cbn [map]; constructor; auto.
  - unfold bpoly in Hrows. cbn [mat] in Hrows. apply Forall_forall. intros r Hr. rewrite Forall_forall in Hrows. specialize (Hrows r Hr).
    apply in_map_iff in Hr. destruct Hr as (r0 & <- & _). unfold dense in *. unfold row_sat in Hrows. cbn [nth skipn] in Hrows.
    unfold sat_dense. rewrite <- bdot_dot. exact Hrows.
Qed.

Lemma is_comp_id_leaf q : In q (nodes m) -> is_var q = true -> is_comp_id m (id_of q) = false.
Proof.
  intros Hq Hqv. unfold is_comp_id. destruct (existsb _ (nodes m)) eqn:E; [|reflexivity].
  apply existsb_exists in E. destruct E as (n & Hn & Hc). apply andb_true_iff in Hc. destruct Hc as [Hc1 Hc2]. apply String.eqb_eq in Hc2.
  exfalso. apply (Hla q n Hq Hn Hqv); [destruct (is_var n); [discriminate|reflexivity]|congruence].
Qed.

Lemma model_true_leaves e e' :
  (forall c, In c (bcols gens m) -> c_compound c = false -> e (c_id c) = e' (c_id c)) -> model_true_at m e -> model_true_at m e'.
Proof.
  intros Hag. unfold model_true_at. intros He. rewrite <- He. symmetry. apply eval_ext.
  intros q Hq Hqv. destruct (nodes_cases m q Hq) as [->|(c & Hc & Hqc)]; [congruence|].
  assert (Hin : In (id_of q, (lo_of q, hi_of q)) (columns true m)) by (apply (Hcov c q); auto).
  assert (Hcomp : is_comp_id m (id_of q) = false) by (apply is_comp_id_leaf; auto).
  assert (Hq' := Hag (mkCol (IdS (id_of q)) (lo_of q) (hi_of q) (is_comp_id m (id_of q)) (gens (id_of q)) (negb (is_comp_id m (id_of q))))).
  cbn [c_id c_compound] in Hq'. cbv beta. rewrite Hq'; [reflexivity| |exact Hcomp].
  unfold bcols. apply in_map_iff. exists (id_of q, (lo_of q, hi_of q)). split; [reflexivity|exact Hin].
Qed.

Lemma bcols_nodup : NoDup (map c_id (bcols gens m)).
Proof.
  unfold bcols. rewrite map_map. cbn [c_id]. clear - Hnd. revert Hnd. generalize (columns true m). induction l as [|[j b] r IH]; cbn [map fst]; intros H; [constructor|].
  inversion H; subst. constructor; auto. intros Hin. apply in_map_iff in Hin. destruct Hin as ([k b'] & Heq & Hk). inversion Heq; subst. apply H2. apply in_map_iff. exists (j, b'). auto.
Qed.

(* C15_exact instantiated on puan's own polyhedron: no abstract soundness hypothesis left *)
Theorem solve_exact_puan (solver : solver_t) : is_argmax solver ->
  forall (objs : list dict) (incl : bool) (rs : list (dict * option Z * Z)),
    solve solver (bpoly gens m) (bcols gens m) objs incl = Ok rs ->
    Forall2 (fun o r =>
      (exists x, feasible (bpoly gens m) x /\ (forall y, feasible (bpoly gens m) y -> score (bcols gens m) o y <= score (bcols gens m) o x) /\
                 fst (fst r) = decode_solve (bcols gens m) incl (Some x) /\
                 model_true_at m (fun i => dlookup i (fst (fst r))))
      \/ (fst (fst r) = [] /\ forall y, ~ feasible (bpoly gens m) y)) objs rs.
Proof.
  intros Hex objs incl rs Hs.
  pose proof (solve_exact solver Hex (bpoly gens m) (bcols gens m) bcols_nodup (model_true_at m) model_true_leaves bpoly_sound objs incl rs Hs) as H.
  revert H. apply Forall2_impl. intros o r [(x & H1 & H2 & H3 & _ & H5)|H]; [left; exists x; auto|right; exact H].
Qed.
End L.
