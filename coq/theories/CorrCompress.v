(* CorrCompress.v — boolean checkers evaluated by the generated case files for C13/C14:
   each takes the INPUT given to the Python implementation and the OUTPUT it produced, runs the
   model (Compress.v / ConfigObj.v) on the same input and compares. *)
Require Import Puan.Base Puan.Compress.

Definition lz_eqb : list Z -> list Z -> bool := list_eqb Z.eqb.
Definition nd_eqb (a b : nd) : bool :=
  match a, b with
  | Sc x, Sc y => x =? y
  | V1 x, V1 y => lz_eqb x y
  | M2 x, M2 y => list_eqb lz_eqb x y
  | T3 x, T3 y => list_eqb (list_eqb lz_eqb) x y
  | _, _ => false
  end.

(* the model computes in unbounded Z, the implementation in int64: a case is compared only
   when every number of the model's answer fits (the property is guarded the same way) *)
Definition fits64 (l : list Z) : bool := forallb (fun x => (- 2 ^ 63 <=? x) && (x <? 2 ^ 63)) l.

(* (method, axis, input array, observed output; None = the implementation raised) *)
Definition check_compress (c : method * option nat * nd * option nd) : bool :=
  let '(m, ax, inp, obs) := c in
  match ndint_compress m ax inp, obs with
  | Some r, Some o => if fits64 (flat r) then nd_eqb r o else true
  | None, None => true
  | _, _ => false
  end.

(* the wheel function alone *)
Definition check_oba (c : list Z * list Z) : bool :=
  let '(inp, obs) := c in
  let r := oba inp in if fits64 r then lz_eqb r obs else true.

Definition check_reduce2d (c : rmethod * nat * list (list Z) * list (list Z)) : bool :=
  let '(m, ax, inp, obs) := c in list_eqb lz_eqb (reduce2d m ax inp) obs.

(* integer_ndarray.ranking: 1-D, or mapped over the rows of an n-D array *)
Definition check_ranking (c : nd * nd) : bool :=
  let '(inp, obs) := c in
  match inp with
  | V1 l => nd_eqb (V1 (ranking1 l)) obs
  | M2 m => nd_eqb (M2 (map ranking1 m)) obs
  | T3 t => nd_eqb (T3 (map (map ranking1) t)) obs
  | Sc _ => false
  end.

(* ge_polyhedron_config._vectors_from_prios: default prio vector, the user priority vectors
   (one per dictionary, already laid out over the columns), observed objective vectors *)
Definition check_objective (c : list Z * list (list Z) * list (list Z)) : bool :=
  let '(dpv, prios, obs) := c in
  match vectors_from_prios dpv prios with
  | Some r => if fits64 (flat r) then nd_eqb r (M2 obs) else true
  | None => false
  end.

(* ---------------------------------------------------------------- C14: configurator objective *)
Require Import Puan.Plog Puan.Corr Puan.ConfigObj.

Definition ivar := (ident * (Z * Z))%type.
(* cc.Any( *args, default, variable): id oracle table, the argument objects (non-str first),
   default list, the variable argument, the object the implementation built *)
Definition check_cc_any (c : idtable * list prop * list ivar * option ivar * prop) : bool :=
  let '(t, args, dflt, idarg, obs) := c in prop_eqb (cc_any (genid_of t) args dflt idarg) obs.
Definition check_cc_xor (c : idtable * list prop * list ivar * option ivar * prop) : bool :=
  let '(t, args, dflt, idarg, obs) := c in prop_eqb (cc_xor (genid_of t) args dflt idarg) obs.

(* the configurator as built, the observed default_prios dict (items), the observed column ids
   of ge_polyhedron.A and the observed default_prio_vector *)
Definition check_dpv (c : prop * list (ident * Z) * list ident * list Z) : bool :=
  let '(p, obs_dp, obs_cols, obs_dpv) := c in
  let dp := default_prios p in
  forallb (fun kv => dict_get dp (fst kv) 12345 =? snd kv) obs_dp
  && forallb (fun kv => mem_str (fst kv) (map fst obs_dp)) dp
  && list_eqb String.eqb (map fst (columns true p)) obs_cols
  && lz_eqb (default_prio_vector p) obs_dpv.

(* select( *dicts, solver=recorder): the configurator, the priority dictionaries, the objective
   vectors the recording solver received *)
Definition check_select (c : prop * list (list (ident * Z)) * list (list Z)) : bool :=
  let '(p, ds, obs) := c in
  match select_objectives p ds with
  | Some r => if fits64 (flat r) then nd_eqb r (M2 obs) else true
  | None => false
  end.
