(* BridgeFacts.v — specification-side definitions and all proofs about Bridge.v (C20, C15). *)
Require Import Puan.Base Puan.Bridge.
From Coq Require Import Sorted.

(* ================================================================== generic helpers *)
Lemma vid_eqb_eq a b : vid_eqb a b = true <-> a = b.
Proof.
  destruct a, b; cbn [vid_eqb]; split; intros H; try congruence.
  - apply String.eqb_eq in H. congruence.
  - inversion H. apply String.eqb_refl.
  - apply Z.eqb_eq in H. congruence.
  - inversion H. apply Z.eqb_refl.
Qed.
Lemma vid_eqb_refl a : vid_eqb a a = true.
Proof. apply vid_eqb_eq. reflexivity. Qed.
Lemma vid_eqb_neq a b : vid_eqb a b = false <-> a <> b.
Proof.
  split; intros H.
  - intros E. apply vid_eqb_eq in E. congruence.
  - destruct (vid_eqb a b) eqn:E; [apply vid_eqb_eq in E; contradiction|reflexivity].
Qed.

(* keys of a dictionary *)
Definition keys (d : dict) : list vid := map fst d.

Lemma dlookup_Some_In k d x : dlookup k d = Some x -> In (k, x) d.
Proof.
  induction d as [|[k' v] r IH]; cbn [dlookup]; [discriminate|].
  destruct (vid_eqb k k') eqn:E; intros H.
  - apply vid_eqb_eq in E. inversion H. subst. left. reflexivity.
  - right. auto.
Qed.
Lemma dlookup_None k d : dlookup k d = None <-> ~ In k (keys d).
Proof.
  induction d as [|[k' v] r IH]; cbn [dlookup keys map fst In]; [tauto|].
  destruct (vid_eqb k k') eqn:E.
  - apply vid_eqb_eq in E. subst. split; [discriminate|]. intros H. exfalso. apply H. left. reflexivity.
  - apply vid_eqb_neq in E. rewrite IH. unfold keys. split; intros H; [intros [->|?]; tauto|tauto].
Qed.
Lemma dlookup_In k d x : NoDup (keys d) -> In (k, x) d -> dlookup k d = Some x.
Proof.
  induction d as [|[k' v] r IH]; cbn [dlookup keys map fst In]; [tauto|].
  intros ND H. inversion ND as [|? ? Hn ND']; subst.
  destruct H as [H|H].
  - inversion H; subst. rewrite vid_eqb_refl. reflexivity.
  - destruct (vid_eqb k k') eqn:E.
    + apply vid_eqb_eq in E. subst. exfalso. apply Hn. apply (in_map fst) in H. exact H.
    + apply IH; assumption.
Qed.

Lemma mem_vid_In x l : mem_vid x l = true <-> In x l.
Proof.
  unfold mem_vid. rewrite existsb_exists. split.
  - intros [y [Hy E]]. apply vid_eqb_eq in E. subst. exact Hy.
  - intros H. exists x. split; [exact H|apply vid_eqb_refl].
Qed.
Lemma mem_vid_nIn x l : mem_vid x l = false <-> ~ In x l.
Proof.
  rewrite <- mem_vid_In. destruct (mem_vid x l); split; intros; congruence.
Qed.

Lemma nth_error_map_Some {A B} (f : A -> B) l j a : nth_error l j = Some a -> nth_error (map f l) j = Some (f a).
Proof. intros H. rewrite nth_error_map, H. reflexivity. Qed.

(* ================================================================== C20: construct *)
Lemma construct_gen_length {C} (inj : Z -> C) dflt vs d : List.length (construct_gen inj dflt vs d) = List.length vs.
Proof. unfold construct_gen. apply map_length. Qed.

Lemma construct_gen_nth {C} (inj : Z -> C) dflt vs d j v :
  nth_error vs j = Some v ->
  nth_error (construct_gen inj dflt vs d) j = Some (match dlookup (v_id v) d with Some x => inj x | None => dflt v end).
Proof. intros H. unfold construct_gen. rewrite nth_error_map, H. reflexivity. Qed.

Theorem construct_length vs d dv dt : List.length (construct vs d dv dt) = List.length vs.
Proof. apply construct_gen_length. Qed.

(* each given value sits at the column of the variable with that id *)
Theorem construct_value vs d dv dt j v x :
  NoDup (keys d) -> nth_error vs j = Some v -> In (v_id v, x) d ->
  nth_error (construct vs d dv dt) j = Some (Some x).
Proof.
  intros ND Hj Hin. unfold construct. rewrite (construct_gen_nth _ _ _ _ _ _ Hj).
  rewrite (dlookup_In _ _ _ ND Hin). reflexivity.
Qed.

(* the rest is filled with the declared default *)
Theorem construct_default_callable vs d f dt j v :
  nth_error vs j = Some v -> ~ In (v_id v) (keys d) ->
  nth_error (construct vs d (Some f) dt) j = Some (Some (f v)).
Proof.
  intros Hj Hn. unfold construct. rewrite (construct_gen_nth _ _ _ _ _ _ Hj).
  apply dlookup_None in Hn. rewrite Hn. reflexivity.
Qed.
Theorem construct_default_int vs d j v :
  nth_error vs j = Some v -> ~ In (v_id v) (keys d) ->
  nth_error (construct vs d None DInt) j = Some (Some (v_lo v)).
Proof.
  intros Hj Hn. unfold construct. rewrite (construct_gen_nth _ _ _ _ _ _ Hj).
  apply dlookup_None in Hn. rewrite Hn. reflexivity.
Qed.
Theorem construct_default_float vs d j v :
  nth_error vs j = Some v -> ~ In (v_id v) (keys d) ->
  nth_error (construct vs d None DFloat) j = Some None.
Proof.
  intros Hj Hn. unfold construct. rewrite (construct_gen_nth _ _ _ _ _ _ Hj).
  apply dlookup_None in Hn. rewrite Hn. reflexivity.
Qed.

(* NaN only ever appears for a float dtype without a callable default *)
Theorem construct_int_no_nan vs d dv : Forall (fun c => c <> None) (construct vs d dv DInt).
Proof.
  unfold construct, construct_gen. apply Forall_forall. intros c Hc.
  apply in_map_iff in Hc. destruct Hc as [v [<- _]].
  destruct (dlookup (v_id v) d); [discriminate|]. unfold default_cell. destruct dv; discriminate.
Qed.

(* unknown ids are ignored: two dictionaries that agree on the ids of the variables give the
   same vector, whatever else they contain *)
Theorem construct_ignores_unknown vs d d' dv dt :
  NoDup (keys d) -> NoDup (keys d') ->
  (forall k x, In k (map v_id vs) -> (In (k, x) d <-> In (k, x) d')) ->
  construct vs d dv dt = construct vs d' dv dt.
Proof.
  intros ND ND' H. unfold construct, construct_gen. apply map_ext_in. intros v Hv.
  assert (Hk : In (v_id v) (map v_id vs)) by (apply in_map; exact Hv).
  destruct (dlookup (v_id v) d) as [x|] eqn:E.
  - apply dlookup_Some_In in E. apply (H _ _ Hk) in E. rewrite (dlookup_In _ _ _ ND' E). reflexivity.
  - destruct (dlookup (v_id v) d') as [x'|] eqn:E'; [|reflexivity].
    apply dlookup_Some_In in E'. apply (H _ _ Hk) in E'. rewrite (dlookup_In _ _ _ ND E') in E. discriminate.
Qed.
(* in particular: dropping every entry whose key is not the id of a variable changes nothing *)
Corollary construct_drop_unknown vs d dv dt :
  NoDup (keys d) ->
  construct vs (filter (fun kv => mem_vid (fst kv) (map v_id vs)) d) dv dt = construct vs d dv dt.
Proof.
  intros ND. apply construct_ignores_unknown; [| exact ND |].
  - unfold keys. clear -ND. induction d as [|[k v] r IH]; cbn [filter map fst]; [constructor|].
    inversion ND as [|? ? Hn ND']; subst. cbn [fst]. destruct (mem_vid k (map v_id vs)); [|auto].
    cbn [map fst]. constructor; [|auto]. intros Hin. apply Hn.
    apply in_map_iff in Hin. destruct Hin as [[k' v'] [E Hin]]. apply filter_In in Hin. cbn in E. subst.
    destruct Hin as [Hin _]. apply (in_map fst) in Hin. exact Hin.
  - intros k x Hk. rewrite filter_In. cbn [fst]. rewrite mem_vid_In. tauto.
Qed.

(* ================================================================== C20: from_list *)
Lemma first_index_spec x l p :
  nth_error l p = Some x -> (forall p', (p' < p)%nat -> nth_error l p' <> Some x) -> first_index x l = Z.of_nat p.
Proof.
  revert p. induction l as [|y r IH]; intros p Hp Hmin.
  - destruct p; discriminate.
  - cbn [first_index]. destruct p as [|p].
    + cbn in Hp. inversion Hp. subst. rewrite vid_eqb_refl. reflexivity.
    + destruct (vid_eqb y x) eqn:E.
      * apply vid_eqb_eq in E. subst. exfalso. apply (Hmin 0%nat); [lia|reflexivity].
      * rewrite (IH p); [lia| exact Hp |]. intros p' Hlt. apply (Hmin (S p')). lia.
Qed.

Theorem bool_from_list_empty ctx : bool_from_list [] ctx = [].
Proof. reflexivity. Qed.
Theorem int_from_list_empty ctx : int_from_list [] ctx = [].
Proof. reflexivity. Qed.

Theorem bool_from_list_length l ctx : l <> [] -> List.length (bool_from_list l ctx) = List.length ctx.
Proof. destruct l; [congruence|]. intros _. apply map_length. Qed.
Theorem int_from_list_length l ctx : l <> [] -> List.length (int_from_list l ctx) = List.length ctx.
Proof. destruct l; [congruence|]. intros _. apply map_length. Qed.

(* exactly the listed ids are marked *)
Theorem bool_from_list_spec l ctx j x :
  l <> [] -> nth_error ctx j = Some x ->
  (In x l -> nth_error (bool_from_list l ctx) j = Some 1) /\
  (~ In x l -> nth_error (bool_from_list l ctx) j = Some 0).
Proof.
  intros Hl Hj. assert (E : bool_from_list l ctx = map (fun x => if mem_vid x l then 1 else 0) ctx) by (destruct l; [congruence|reflexivity]).
  rewrite E, nth_error_map, Hj. cbn [option_map]. split; intros H.
  - apply mem_vid_In in H. rewrite H. reflexivity.
  - apply mem_vid_nIn in H. rewrite H. reflexivity.
Qed.

(* integer arrays carry the 1-based position of the first occurrence *)
Theorem int_from_list_spec l ctx j x :
  l <> [] -> nth_error ctx j = Some x ->
  (forall p, nth_error l p = Some x -> (forall p', (p' < p)%nat -> nth_error l p' <> Some x) ->
             nth_error (int_from_list l ctx) j = Some (Z.of_nat p + 1)) /\
  (~ In x l -> nth_error (int_from_list l ctx) j = Some 0).
Proof.
  intros Hl Hj. assert (E : int_from_list l ctx = map (fun x => if mem_vid x l then 1 + first_index x l else 0) ctx) by (destruct l; [congruence|reflexivity]).
  rewrite E, nth_error_map, Hj. cbn [option_map]. split.
  - intros p Hp Hmin. assert (Hin : In x l) by (eapply nth_error_In; exact Hp).
    apply mem_vid_In in Hin. rewrite Hin. rewrite (first_index_spec _ _ _ Hp Hmin). f_equal. lia.
  - intros H. apply mem_vid_nIn in H. rewrite H. reflexivity.
Qed.

(* list of lists: one row per inner list *)
Theorem bool_from_lists_row ll ctx i l :
  nth_error ll i = Some l -> nth_error (bool_from_lists ll ctx) i = Some (bool_from_list l ctx).
Proof. intros H. unfold bool_from_lists. rewrite nth_error_map, H. reflexivity. Qed.
Theorem int_from_lists_row ll ctx i l :
  nth_error ll i = Some l -> nth_error (int_from_lists ll ctx) i = Some (int_from_list l ctx).
Proof. intros H. unfold int_from_lists. rewrite nth_error_map, H. reflexivity. Qed.
Theorem from_lists_length ll ctx :
  List.length (bool_from_lists ll ctx) = List.length ll /\ List.length (int_from_lists ll ctx) = List.length ll.
Proof. unfold bool_from_lists, int_from_lists. rewrite !map_length. auto. Qed.

(* the fresh array gets the default variable list: support variable 0 with bounds (1,1), then
   int ids 1..n-1 with bounds (0,1) *)
Lemma zrange_nth s n j : (j < n)%nat -> nth_error (zrange s n) j = Some (s + Z.of_nat j).
Proof.
  revert s j. induction n as [|n IH]; intros s j H; [lia|].
  destruct j as [|j]; cbn [zrange nth_error].
  - f_equal. lia.
  - rewrite IH by lia. f_equal. lia.
Qed.
Theorem default_variable_list_spec n :
  List.length (default_variable_list n) = n /\
  (forall j, (j < n)%nat -> nth_error (default_variable_list n) j =
     Some (if Nat.eqb j 0 then mkVar (IdZ 0) 1 1 else mkVar (IdZ (Z.of_nat j)) 0 1)).
Proof.
  destruct n as [|k]; cbn [default_variable_list]; split; try (intros; lia); try reflexivity.
  - cbn [List.length]. rewrite map_length, zrange_length. reflexivity.
  - intros j H. destruct j as [|j]; [reflexivity|]. cbn [nth_error Nat.eqb].
    rewrite nth_error_map, zrange_nth by lia. cbn [option_map]. do 3 f_equal. lia.
Qed.
Theorem default_index_spec n :
  List.length (default_index n) = n /\
  (forall j, (j < n)%nat -> nth_error (default_index n) j = Some (mkVar (IdZ (Z.of_nat j)) 0 1)).
Proof.
  unfold default_index. split.
  - rewrite map_length, zrange_length. reflexivity.
  - intros j H. rewrite nth_error_map, zrange_nth by lia. reflexivity.
Qed.

(* ================================================================== C20: to_list *)
Lemma SS_map_S js : StronglySorted lt js -> StronglySorted lt (map S js).
Proof.
  induction 1 as [|a l H IH Hall]; cbn [map]; constructor; [exact IH|].
  apply Forall_forall. intros y Hy. apply in_map_iff in Hy. destruct Hy as [z [<- Hz]].
  rewrite Forall_forall in Hall. specialize (Hall _ Hz). lia.
Qed.

(* to_list returns exactly the variables at the 1-entries, in column order: there is a strictly
   increasing list of positions, consisting of exactly the positions holding 1, whose variables
   are the result *)
Theorem to_list1_spec {A} (vs : list A) row :
  List.length vs = List.length row ->
  exists js, StronglySorted lt js /\ (forall j, In j js <-> nth_error row j = Some 1) /\
             map Some (to_list1 vs row) = map (nth_error vs) js.
Proof.
  revert row. induction vs as [|v vs IH]; intros [|x row] Hlen; try discriminate.
  - exists []. split; [constructor|]. split; [|reflexivity].
    intros j. split; [intros []|]. intros H. destruct j; discriminate.
  - cbn [List.length] in Hlen. destruct (IH row ltac:(lia)) as [js [Hs [Hin Hmap]]].
    unfold to_list1 in *. cbn [combine filter snd].
    destruct (x =? 1) eqn:E.
    + exists (0%nat :: map S js). split; [|split].
      * constructor; [apply SS_map_S; exact Hs|]. apply Forall_forall. intros y Hy.
        apply in_map_iff in Hy. destruct Hy as [z [<- _]]. lia.
      * intros j. cbn [In]. destruct j as [|j]; cbn [nth_error].
        -- split; [intros _; f_equal; lia|auto].
        -- rewrite <- Hin. split.
           ++ intros [H|H]; [discriminate|]. apply in_map_iff in H. destruct H as [z [Ez Hz]]. inversion Ez. subst. exact Hz.
           ++ intros H. right. apply in_map. exact H.
      * cbn [map fst nth_error]. f_equal. rewrite Hmap, map_map. reflexivity.
    + exists (map S js). split; [|split].
      * apply SS_map_S. exact Hs.
      * intros j. destruct j as [|j]; cbn [nth_error].
        -- split.
           ++ intros H. apply in_map_iff in H. destruct H as [z [Ez _]]. discriminate.
           ++ intros H. inversion H. lia.
        -- rewrite <- Hin. split.
           ++ intros H. apply in_map_iff in H. destruct H as [z [Ez Hz]]. inversion Ez. subst. exact Hz.
           ++ intros H. apply in_map. exact H.
      * rewrite Hmap, map_map. reflexivity.
Qed.

Theorem to_list2_row {A} (vs : list A) rows i row :
  nth_error rows i = Some row -> nth_error (to_list2 vs rows) i = Some (to_list1 vs row).
Proof. intros H. unfold to_list2. rewrite nth_error_map, H. reflexivity. Qed.

(* round trip: reading back a from_list row against its own context yields the listed
   context entries, in context order *)
Theorem to_list_from_list l ctx :
  l <> [] -> to_list1 ctx (bool_from_list l ctx) = filter (fun x => mem_vid x l) ctx.
Proof.
  intros Hl. assert (E : bool_from_list l ctx = map (fun x => if mem_vid x l then 1 else 0) ctx) by (destruct l; [congruence|reflexivity]).
  rewrite E. clear E Hl. unfold to_list1. induction ctx as [|x r IH]; [reflexivity|].
  cbn [map combine filter snd]. destruct (mem_vid x l); cbn [Z.eqb Pos.eqb map fst]; [f_equal|]; exact IH.
Qed.

(* ================================================================== C20: variable_indices *)
Lemma enum_In {A} (l : list A) s j v :
  In (j, v) (combine (zrange s (List.length l)) l) <-> s <= j /\ nth_error l (Z.to_nat (j - s)) = Some v.
Proof.
  revert s. induction l as [|a l IH]; intros s; cbn [List.length zrange combine In].
  - split; [tauto|]. intros [_ H]. destruct (Z.to_nat (j - s)); discriminate.
  - rewrite IH. split.
    + intros [H|[H1 H2]].
      * inversion H; subst. split; [lia|]. replace (j - j) with 0 by lia. reflexivity.
      * split; [lia|]. replace (Z.to_nat (j - s)) with (S (Z.to_nat (j - (s + 1)))) by lia. exact H2.
    + intros [H1 H2]. destruct (Z.eq_dec j s) as [->|Hne].
      * left. replace (s - s) with 0 in H2 by lia. cbn in H2. congruence.
      * right. split; [lia|]. replace (Z.to_nat (j - s)) with (S (Z.to_nat (j - (s + 1)))) in H2 by lia. exact H2.
Qed.

Lemma enum_filter_sorted {A} (f : Z * A -> bool) (l : list A) s :
  StronglySorted Z.lt (map fst (filter f (combine (zrange s (List.length l)) l))).
Proof.
  revert s. induction l as [|a l IH]; intros s; cbn [List.length zrange combine filter]; [constructor|].
  assert (Hall : Forall (Z.lt s) (map fst (filter f (combine (zrange (s + 1) (List.length l)) l)))).
  { apply Forall_forall. intros y Hy. apply in_map_iff in Hy. destruct Hy as [[j v] [<- Hjv]].
    apply filter_In in Hjv. destruct Hjv as [Hjv _]. apply enum_In in Hjv. cbn [fst]. lia. }
  destruct (f (s, a)); cbn [map fst]; [constructor; [apply IH|exact Hall]|apply IH].
Qed.

(* the specification of "the variable at column j is boolean": its bounds are (0,1) *)
Definition bounds_01 (v : var) : Prop := (v_lo v, v_hi v) = (0, 1).
Lemma is_bool_var_spec v : is_bool_var v = true <-> bounds_01 v.
Proof.
  unfold is_bool_var, bounds_01. rewrite andb_true_iff, !Z.eqb_eq. split; [intros [-> ->]; reflexivity|intros H; inversion H; auto].
Qed.

Theorem variable_indices_spec vs :
  exists bi ii,
    boolean_variable_indices vs = Some bi /\ integer_variable_indices vs = Some ii /\
    (forall j, In j bi <-> 0 <= j /\ exists v, nth_error vs (Z.to_nat j) = Some v /\ bounds_01 v) /\
    (forall j, In j ii <-> 0 <= j /\ exists v, nth_error vs (Z.to_nat j) = Some v /\ ~ bounds_01 v) /\
    StronglySorted Z.lt bi /\ StronglySorted Z.lt ii.
Proof.
  unfold boolean_variable_indices, integer_variable_indices, variable_indices, enumerate.
  cbn [Z.add Z.eqb Pos.eqb negb].
  eexists. eexists. split; [reflexivity|]. split; [reflexivity|].
  split; [|split; [|split; apply enum_filter_sorted]].
  - intros j. rewrite in_map_iff. split.
    + intros [[j' v] [Ej H]]. cbn [fst] in Ej. subst j'. apply filter_In in H. destruct H as [H Hf].
      apply enum_In in H. destruct H as [H0 Hn]. rewrite Z.sub_0_r in Hn. split; [exact H0|].
      exists v. split; [exact Hn|]. cbn [snd] in Hf. apply is_bool_var_spec.
      destruct (is_bool_var v); [reflexivity|discriminate].
    + intros [H0 [v [Hn Hb]]]. exists (j, v). split; [reflexivity|]. apply filter_In. split.
      * apply enum_In. rewrite Z.sub_0_r. auto.
      * cbn [snd]. apply is_bool_var_spec in Hb. rewrite Hb. reflexivity.
  - intros j. rewrite in_map_iff. split.
    + intros [[j' v] [Ej H]]. cbn [fst] in Ej. subst j'. apply filter_In in H. destruct H as [H Hf].
      apply enum_In in H. destruct H as [H0 Hn]. rewrite Z.sub_0_r in Hn. split; [exact H0|].
      exists v. split; [exact Hn|]. cbn [snd] in Hf. intros Hb. apply is_bool_var_spec in Hb.
      rewrite Hb in Hf. discriminate.
    + intros [H0 [v [Hn Hb]]]. exists (j, v). split; [reflexivity|]. apply filter_In. split.
      * apply enum_In. rewrite Z.sub_0_r. auto.
      * cbn [snd]. destruct (is_bool_var v) eqn:E; [|reflexivity]. apply is_bool_var_spec in E. contradiction.
Qed.

(* the two index sets partition the columns *)
Theorem variable_indices_partition vs bi ii :
  boolean_variable_indices vs = Some bi -> integer_variable_indices vs = Some ii ->
  (forall j, 0 <= j < Z.of_nat (List.length vs) -> (In j bi /\ ~ In j ii) \/ (In j ii /\ ~ In j bi)) /\
  (forall j, In j bi \/ In j ii -> 0 <= j < Z.of_nat (List.length vs)).
Proof.
  intros Hb Hi. destruct (variable_indices_spec vs) as [bi' [ii' [Hb' [Hi' [Sb [Si _]]]]]].
  rewrite Hb in Hb'. rewrite Hi in Hi'. inversion Hb'. inversion Hi'. subst bi' ii'. split.
  - intros j Hj. destruct (nth_error vs (Z.to_nat j)) as [v|] eqn:E.
    + destruct (is_bool_var v) eqn:Eb.
      * left. apply is_bool_var_spec in Eb. split.
        -- apply Sb. split; [lia|]. exists v. auto.
        -- intros H. apply Si in H. destruct H as [_ [v' [E' Hn]]]. rewrite E in E'. inversion E'. subst. contradiction.
      * right. assert (Hn : ~ bounds_01 v) by (intros H; apply is_bool_var_spec in H; congruence). split.
        -- apply Si. split; [lia|]. exists v. auto.
        -- intros H. apply Sb in H. destruct H as [_ [v' [E' Hb2]]]. rewrite E in E'. inversion E'. subst. contradiction.
    + apply nth_error_None in E. lia.
  - intros j [H|H]; [apply Sb in H|apply Si in H]; destruct H as [H0 [v [E _]]];
      (assert (Hlt : (Z.to_nat j < List.length vs)%nat) by (apply nth_error_Some; congruence)); lia.
Qed.

Theorem variable_indices_other vs : variable_indices vs VOther = None.
Proof. reflexivity. Qed.

(* ================================================================== C20: A / b *)
(* shape invariant established by the constructor *)
Definition wf_vnd (p : vnd) : Prop :=
  List.length (idx p) = List.length (mat p) /\ Forall (fun r => List.length r = List.length (vars p)) (mat p).

Lemma default_variable_list_length n : List.length (default_variable_list n) = n.
Proof. apply default_variable_list_spec. Qed.
Lemma default_index_length n : List.length (default_index n) = n.
Proof. apply default_index_spec. Qed.

(* the constructor: given lists are kept, missing ones are replaced by the defaults; mismatching
   sizes are rejected *)
Theorem vnd_new_spec nr nc m vs ix p :
  vnd_new nr nc m vs ix = Some p ->
  mat p = m /\ List.length (vars p) = nc /\ List.length (idx p) = nr /\
  (vs <> [] -> vars p = vs) /\ (vs = [] -> vars p = default_variable_list nc) /\
  (ix <> [] -> idx p = ix) /\ (ix = [] -> idx p = default_index nr).
Proof.
  unfold vnd_new. case_if; [|discriminate]. intros E. inversion E. subst p. clear E. cbn [mat vars idx].
  apply andb_true_iff in Heqb. destruct Heqb as [H1 H2]. apply Nat.eqb_eq in H1, H2.
  repeat split; try assumption; intros H; try (subst; reflexivity).
  - destruct vs; [congruence|reflexivity].
  - destruct ix; [congruence|reflexivity].
Qed.

Lemma skipn1_length {A} (l : list A) : List.length (skipn 1 l) = Nat.pred (List.length l).
Proof. destruct l; reflexivity. Qed.
Lemma skipn1_nth {A} (l : list A) j d : nth j (skipn 1 l) d = nth (S j) l d.
Proof. destruct l; [destruct j; reflexivity|reflexivity]. Qed.
Lemma skipn1_nth_error {A} (l : list A) j : nth_error (skipn 1 l) j = nth_error l (S j).
Proof. destruct l; [destruct j; reflexivity|reflexivity]. Qed.

(* A is the matrix without its first column, with the matching variables and the same index *)
Theorem poly_A_spec p :
  wf_vnd p -> vars p <> [] ->
  exists a, poly_A p = Some a /\ wf_vnd a /\
    List.length (mat a) = List.length (mat p) /\
    S (List.length (vars a)) = List.length (vars p) /\
    (forall i j, nth j (nth i (mat a) []) 0 = nth (S j) (nth i (mat p) []) 0) /\
    (forall j, nth_error (vars a) j = nth_error (vars p) (S j)) /\
    idx a = idx p.
Proof.
  intros [Hidx Hrows] Hne. unfold poly_A, vnd_new.
  set (vs' := match skipn 1 (vars p) with [] => default_variable_list (Nat.pred (List.length (vars p))) | _ => skipn 1 (vars p) end).
  set (ix' := match idx p with [] => default_index (List.length (mat p)) | _ => idx p end).
  assert (Evs : vs' = skipn 1 (vars p)).
  { unfold vs'. destruct (skipn 1 (vars p)) eqn:E; [|reflexivity].
    assert (L : List.length (skipn 1 (vars p)) = 0%nat) by (rewrite E; reflexivity).
    rewrite skipn1_length in L. rewrite L. reflexivity. }
  assert (Eix : ix' = idx p).
  { unfold ix'. destruct (idx p) eqn:E; [|reflexivity]. cbn in Hidx. rewrite <- Hidx. reflexivity. }
  rewrite Evs, Eix, Hidx, skipn1_length, !Nat.eqb_refl. cbn [andb].
  eexists. split; [reflexivity|]. cbn [mat vars idx]. split; [|split; [|split; [|split; [|split]]]].
  - split; cbn [mat vars idx]; [rewrite map_length; exact Hidx|].
    apply Forall_forall. intros r Hr. apply in_map_iff in Hr. destruct Hr as [r0 [<- Hr0]].
    rewrite Forall_forall in Hrows. rewrite !skipn1_length, (Hrows _ Hr0). reflexivity.
  - apply map_length.
  - rewrite skipn1_length. destruct (vars p); [congruence|reflexivity].
  - intros i j. destruct (nth_error (mat p) i) as [r|] eqn:E.
    + rewrite (nth_error_nth _ _ _ (nth_error_map_Some (skipn 1) _ _ _ E)), (nth_error_nth _ _ _ E). apply skipn1_nth.
    + assert (E' : nth_error (map (skipn 1) (mat p)) i = None) by (rewrite nth_error_map, E; reflexivity).
      apply nth_error_None in E, E'. rewrite !nth_overflow with (n := i) by assumption.
      destruct j; reflexivity.
  - intros j. apply skipn1_nth_error.
  - reflexivity.
Qed.

(* b is the first column *)
Theorem poly_b_spec p :
  vars p <> [] ->
  exists b, poly_b p = Some b /\ List.length b = List.length (mat p) /\
            forall i, nth i b 0 = nth 0 (nth i (mat p) []) 0.
Proof.
  intros Hne. unfold poly_b. destruct (vars p); [congruence|]. eexists. split; [reflexivity|]. split; [apply map_length|].
  intros i. destruct (nth_error (mat p) i) as [r|] eqn:E.
  - rewrite (nth_error_nth _ _ _ (nth_error_map_Some (fun row => nth 0 row 0) _ _ _ E)), (nth_error_nth _ _ _ E). reflexivity.
  - assert (E' : nth_error (map (fun row => nth 0 row 0) (mat p)) i = None) by (rewrite nth_error_map, E; reflexivity).
    apply nth_error_None in E, E'. rewrite !nth_overflow with (n := i) by assumption. reflexivity.
Qed.

Theorem to_linalg_spec p a b : to_linalg p = Some (a, b) <-> poly_A p = Some a /\ poly_b p = Some b.
Proof.
  unfold to_linalg. destruct (poly_A p), (poly_b p); split; try (intros [? ?]); try intros ?; try discriminate; try congruence.
  - inversion H. auto.
Qed.

(* ================================================================== C15: specification side *)
(* the weight a dictionary gives to an id: its entry, 0 when absent *)
Definition weight (o : dict) (i : vid) : Z := match dlookup i o with Some w => w | None => 0 end.

(* sum_j a_j * x_j *)
Definition bdot (a x : list Z) : Z := zsum (map (fun p => fst p * snd p) (combine a x)).
(* a row [b; a_1 .. a_n] of a ge-polyhedron holds at x:  a . x >= b *)
Definition row_sat (row x : list Z) : Prop := nth 0 row 0 <= bdot (skipn 1 row) x.
Definition in_bounds (vs : list var) (x : list Z) : Prop := Forall2 (fun v xi => v_lo v <= xi <= v_hi v) vs x.
(* x is an integer point of the polyhedron: one in-bounds entry per column variable (the first
   variable is the support column of b), every row holds *)
Definition feasible (P : vnd) (x : list Z) : Prop :=
  in_bounds (skipn 1 (vars P)) x /\ Forall (fun row => row_sat row x) (mat P).

(* an exact solver: per objective vector an integer point maximising it, None only when there is none *)
Definition answer_exact (P : vnd) (o : list Z) (a : answer) : Prop :=
  match a_sol a with
  | Some x => feasible P x /\ forall y, feasible P y -> bdot o y <= bdot o x
  | None => forall y, ~ feasible P y
  end.
Definition is_argmax (solver : solver_t) : Prop :=
  forall P os answers, solver P os = Ok answers -> Forall2 (answer_exact P) os answers.

(* value of the requested weights (by id) at a point given by column position *)
Definition score (cols : list column) (o : dict) (x : list Z) : Z :=
  zsum (map (fun cx => weight o (c_id (fst cx)) * snd cx) (combine cols x)).
(* the value a point gives to the column with id i *)
Definition col_value (cols : list column) (x : list Z) (i : vid) : option Z := dlookup i (combine (map c_id cols) x).

(* which columns solve() reports *)
Definition visible (incl : bool) (c : column) : Prop := c_compound c = false \/ c_gen c = false \/ incl = true.
Lemma keep_solve_spec incl c : keep_solve incl c = true <-> visible incl c.
Proof. unfold keep_solve, visible. destruct (c_compound c), (c_gen c), incl; cbn; intuition congruence. Qed.

(* ================================================================== C15: objectives *)
Lemma construct_gen_ext {C} (inj : Z -> C) dflt vs d d' :
  (forall v, In v vs -> dlookup (v_id v) d = dlookup (v_id v) d') ->
  construct_gen inj dflt vs d = construct_gen inj dflt vs d'.
Proof. intros H. unfold construct_gen. apply map_ext_in. intros v Hv. rewrite (H v Hv). reflexivity. Qed.

Theorem solve_objective_length cols o : List.length (solve_objective cols o) = List.length cols.
Proof. unfold solve_objective. rewrite construct_gen_length, map_length. reflexivity. Qed.

Lemma solve_objective_nth cols o j c :
  nth_error cols j = Some c -> nth_error (solve_objective cols o) j = Some (weight o (c_id c)).
Proof.
  intros H. unfold solve_objective. rewrite (construct_gen_nth _ _ _ _ j (col_var c)).
  - reflexivity.
  - rewrite nth_error_map, H. reflexivity.
Qed.

(* entry j of the objective vector is the weight given for column j's id, 0 when the id is absent *)
Theorem solve_objective_entry cols o j c :
  NoDup (keys o) -> nth_error cols j = Some c ->
  (forall w, In (c_id c, w) o -> nth_error (solve_objective cols o) j = Some w) /\
  (~ In (c_id c) (keys o) -> nth_error (solve_objective cols o) j = Some 0).
Proof.
  intros ND Hj. rewrite (solve_objective_nth _ _ _ _ Hj). unfold weight. split.
  - intros w Hin. rewrite (dlookup_In _ _ _ ND Hin). reflexivity.
  - intros Hn. apply dlookup_None in Hn. rewrite Hn. reflexivity.
Qed.

(* ids that are not columns are ignored *)
Theorem solve_objective_ignores_unknown cols o o' :
  NoDup (keys o) -> NoDup (keys o') ->
  (forall k w, In k (map c_id cols) -> (In (k, w) o <-> In (k, w) o')) ->
  solve_objective cols o = solve_objective cols o'.
Proof.
  intros ND ND' H. unfold solve_objective. apply construct_gen_ext. intros v Hv.
  apply in_map_iff in Hv. destruct Hv as [c [<- Hc]]. cbn [col_var v_id].
  assert (Hk : In (c_id c) (map c_id cols)) by (apply in_map; exact Hc).
  destruct (dlookup (c_id c) o) as [x|] eqn:E.
  - apply dlookup_Some_In in E. apply (H _ _ Hk) in E. rewrite (dlookup_In _ _ _ ND' E). reflexivity.
  - destruct (dlookup (c_id c) o') as [x'|] eqn:E'; [|reflexivity].
    apply dlookup_Some_In in E'. apply (H _ _ Hk) in E'. rewrite (dlookup_In _ _ _ ND E') in E. discriminate.
Qed.

Lemma prio_row_nth cols y j c : nth_error cols j = Some c -> nth_error (prio_row cols y) j = Some (weight y (c_id c)).
Proof. intros H. unfold prio_row. rewrite nth_error_map, H. reflexivity. Qed.

(* select(): the stack handed to the priority compression holds, per priority dictionary, the
   default priority vector and the row aligned by column id *)
Theorem select_stack_spec cols dpv prios k y :
  NoDup (keys y) -> nth_error prios k = Some y ->
  exists r, nth_error (select_stack cols dpv prios) k = Some [dpv; r] /\ List.length r = List.length cols /\
    forall j c, nth_error cols j = Some c ->
      (forall w, In (c_id c, w) y -> nth_error r j = Some w) /\ (~ In (c_id c) (keys y) -> nth_error r j = Some 0).
Proof.
  intros ND Hk. exists (prio_row cols y). split; [|split].
  - unfold select_stack. rewrite nth_error_map, Hk. reflexivity.
  - unfold prio_row. apply map_length.
  - intros j c Hj. rewrite (prio_row_nth _ _ _ _ Hj). unfold weight. split.
    + intros w Hin. rewrite (dlookup_In _ _ _ ND Hin). reflexivity.
    + intros Hn. apply dlookup_None in Hn. rewrite Hn. reflexivity.
Qed.
Theorem select_stack_length cols dpv prios : List.length (select_stack cols dpv prios) = List.length prios.
Proof. unfold select_stack. apply map_length. Qed.

(* the solver is consulted exactly once, on the given polyhedron and the aligned objective vectors:
   the result depends on the solver only through its answer to that call *)
Theorem solve_calls_solver s1 s2 P cols objs incl :
  s1 P (map (solve_objective cols) objs) = s2 P (map (solve_objective cols) objs) ->
  solve s1 P cols objs incl = solve s2 P cols objs incl.
Proof. intros H. unfold solve, solve_args. rewrite H. reflexivity. Qed.
Theorem select_calls_solver compress s1 s2 P cols dpv prios :
  s1 P (compress (select_stack cols dpv prios)) = s2 P (compress (select_stack cols dpv prios)) ->
  select compress s1 P cols dpv prios = select compress s2 P cols dpv prios /\
  stingy_select_leafs compress s1 P cols dpv prios = stingy_select_leafs compress s2 P cols dpv prios.
Proof. intros H. unfold stingy_select_leafs, select, select_objectives. rewrite H. split; reflexivity. Qed.

(* ================================================================== C15: decoding *)
Lemma dict_set_notin k v d : ~ In k (keys d) -> dict_set k v d = d ++ [(k, v)].
Proof.
  induction d as [|[k' v'] r IH]; cbn [dict_set keys map fst In app]; [reflexivity|].
  intros H. destruct (vid_eqb k k') eqn:E.
  - apply vid_eqb_eq in E. subst. exfalso. apply H. left. reflexivity.
  - rewrite IH; [reflexivity|]. intros Hin. apply H. right. exact Hin.
Qed.
Lemma pydict_aux l acc :
  NoDup (keys (acc ++ l)) -> fold_left (fun d kv => dict_set (fst kv) (snd kv) d) l acc = acc ++ l.
Proof.
  revert acc. induction l as [|[k v] r IH]; intros acc ND; cbn [fold_left fst snd].
  - rewrite app_nil_r. reflexivity.
  - assert (Hn : ~ In k (keys acc)).
    { unfold keys in *. rewrite map_app in ND. cbn [map fst] in ND. apply NoDup_remove_2 in ND.
      intros Hin. apply ND. apply in_or_app. left. exact Hin. }
    rewrite (dict_set_notin _ _ _ Hn). rewrite IH; rewrite <- app_assoc; [reflexivity|exact ND].
Qed.
(* dict(pairs) with pairwise different keys is the list of pairs itself *)
Lemma pydict_nodup l : NoDup (keys l) -> pydict l = l.
Proof. intros ND. unfold pydict. rewrite pydict_aux; [reflexivity|exact ND]. Qed.

Lemma NoDup_map_filter {A B} (f : A -> B) (g : A -> bool) l : NoDup (map f l) -> NoDup (map f (filter g l)).
Proof.
  induction l as [|a l IH]; cbn [map filter]; [auto|]. intros ND. inversion ND as [|? ? Hn ND']; subst.
  destruct (g a); [|auto]. cbn [map]. constructor; [|auto]. intros Hin. apply Hn.
  apply in_map_iff in Hin. destruct Hin as [a' [E Ha']]. apply filter_In in Ha'. destruct Ha' as [Ha' _].
  rewrite <- E. apply in_map. exact Ha'.
Qed.
Lemma NoDup_map_inj_in {A B} (f : A -> B) l a b : NoDup (map f l) -> In a l -> In b l -> f a = f b -> a = b.
Proof.
  induction l as [|c l IH]; cbn [map In]; [tauto|]. intros ND Ha Hb E. inversion ND as [|? ? Hn ND']; subst.
  destruct Ha as [->|Ha], Hb as [->|Hb]; auto.
  - exfalso. apply Hn. rewrite E. apply in_map. exact Hb.
  - exfalso. apply Hn. rewrite <- E. apply in_map. exact Ha.
Qed.
Lemma combine_keys_nodup cols (s : list Z) :
  NoDup (map c_id cols) -> NoDup (map (fun cx : column * Z => c_id (fst cx)) (combine cols s)).
Proof.
  revert s. induction cols as [|c cols IH]; intros s ND; [constructor|]. destruct s as [|x s]; [constructor|].
  cbn [combine map fst]. inversion ND as [|? ? Hn ND']; subst. constructor; [|auto].
  intros Hin. apply Hn. apply in_map_iff in Hin. destruct Hin as [[c' x'] [E Hin]]. cbn [fst] in E.
  apply in_combine_l in Hin. rewrite <- E. apply in_map. exact Hin.
Qed.
Lemma nth_error_combine {A B} (a : list A) (b : list B) j x y :
  nth_error a j = Some x -> nth_error b j = Some y -> nth_error (combine a b) j = Some (x, y).
Proof.
  revert b j. induction a as [|a0 a IH]; intros [|b0 b] [|j]; cbn; try discriminate; try congruence. apply IH.
Qed.
Lemma combine_map_l {A B C} (f : A -> C) (a : list A) (b : list B) :
  combine (map f a) b = map (fun p => (f (fst p), snd p)) (combine a b).
Proof. revert b. induction a as [|a0 a IH]; intros [|b0 b]; cbn; try reflexivity. f_equal. apply IH. Qed.

Definition pair_of (cx : column * Z) : vid * Z := (c_id (fst cx), snd cx).

(* looking a key up after dropping entries, when every entry with that key is kept *)
Lemma dlookup_filter_cols (g : column * Z -> bool) L k :
  (forall cx, In cx L -> c_id (fst cx) = k -> g cx = true) ->
  dlookup k (map pair_of (filter g L)) = dlookup k (map pair_of L).
Proof.
  induction L as [|[c x] L IH]; intros H; [reflexivity|]. cbn [filter map pair_of fst snd dlookup].
  destruct (vid_eqb k (c_id c)) eqn:E.
  - apply vid_eqb_eq in E. rewrite (H (c, x)); [|left; reflexivity|symmetry; exact E].
    cbn [map pair_of fst snd dlookup]. rewrite <- E, vid_eqb_refl. reflexivity.
  - assert (IH' : dlookup k (map pair_of (filter g L)) = dlookup k (map pair_of L)).
    { apply IH. intros cx Hin. apply H. right. exact Hin. }
    destruct (g (c, x)); [|exact IH']. cbn [map pair_of fst snd dlookup]. rewrite E. exact IH'.
Qed.
(* ... and when every entry with that key is dropped *)
Lemma dlookup_filter_cols_none (g : column * Z -> bool) L k :
  (forall cx, In cx L -> c_id (fst cx) = k -> g cx = false) ->
  dlookup k (map pair_of (filter g L)) = None.
Proof.
  induction L as [|[c x] L IH]; intros H; [reflexivity|]. cbn [filter].
  assert (IH' : dlookup k (map pair_of (filter g L)) = None).
  { apply IH. intros cx Hin. apply H. right. exact Hin. }
  destruct (g (c, x)) eqn:G; [|exact IH']. cbn [map pair_of fst snd dlookup].
  destruct (vid_eqb k (c_id c)) eqn:E; [|exact IH'].
  apply vid_eqb_eq in E. rewrite (H (c, x)) in G; [discriminate|left; reflexivity|symmetry; exact E].
Qed.

Lemma decode_solve_pairs cols incl s :
  NoDup (map c_id cols) ->
  decode_solve cols incl (Some s) = map pair_of (filter (fun cx => keep_solve incl (fst cx)) (combine cols s)).
Proof.
  intros ND. unfold decode_solve. apply pydict_nodup. unfold keys. rewrite map_map. cbn [fst].
  apply (NoDup_map_filter (fun cx : column * Z => c_id (fst cx))). apply combine_keys_nodup. exact ND.
Qed.

Lemma col_value_pairs cols x i : col_value cols x i = dlookup i (map pair_of (combine cols x)).
Proof. unfold col_value. rewrite combine_map_l. reflexivity. Qed.

Lemma col_value_nth cols x j c v :
  NoDup (map c_id cols) -> nth_error cols j = Some c -> nth_error x j = Some v -> col_value cols x (c_id c) = Some v.
Proof.
  intros ND Hc Hx. unfold col_value. apply dlookup_In.
  - unfold keys. rewrite combine_map_l, map_map. cbn [fst]. apply combine_keys_nodup. exact ND.
  - apply nth_error_In with (n := j). apply nth_error_combine; [rewrite nth_error_map, Hc; reflexivity|exact Hx].
Qed.

(* a reported column's entry is the value the point gives to that column *)
Lemma decode_solve_visible cols incl s c :
  NoDup (map c_id cols) -> In c cols -> keep_solve incl c = true ->
  dlookup (c_id c) (decode_solve cols incl (Some s)) = col_value cols s (c_id c).
Proof.
  intros ND Hc Hk. rewrite (decode_solve_pairs _ _ _ ND), col_value_pairs. apply dlookup_filter_cols.
  intros [c' x'] Hin E. cbn [fst] in *. apply in_combine_l in Hin.
  rewrite (NoDup_map_inj_in c_id cols c' c ND Hin Hc E). exact Hk.
Qed.
Lemma decode_solve_hidden cols incl s c :
  NoDup (map c_id cols) -> In c cols -> keep_solve incl c = false ->
  dlookup (c_id c) (decode_solve cols incl (Some s)) = None.
Proof.
  intros ND Hc Hk. rewrite (decode_solve_pairs _ _ _ ND). apply dlookup_filter_cols_none.
  intros [c' x'] Hin E. cbn [fst] in *. apply in_combine_l in Hin.
  rewrite (NoDup_map_inj_in c_id cols c' c ND Hin Hc E). exact Hk.
Qed.

(* solve(): the dictionary maps every visible column's id to the vector's entry at that column and
   has no other keys; auto-generated helper columns are visible only when asked for *)
Theorem decode_solve_spec cols incl s :
  NoDup (map c_id cols) ->
  (forall j c x, nth_error cols j = Some c -> nth_error s j = Some x ->
     (visible incl c -> dlookup (c_id c) (decode_solve cols incl (Some s)) = Some x) /\
     (~ visible incl c -> dlookup (c_id c) (decode_solve cols incl (Some s)) = None)) /\
  (forall i x, In (i, x) (decode_solve cols incl (Some s)) ->
     exists j c, nth_error cols j = Some c /\ c_id c = i /\ nth_error s j = Some x /\ visible incl c) /\
  NoDup (keys (decode_solve cols incl (Some s))).
Proof.
  intros ND. split; [|split].
  - intros j c x Hc Hx. assert (Hin : In c cols) by (eapply nth_error_In; exact Hc). split; intros Hv.
    + apply keep_solve_spec in Hv. rewrite (decode_solve_visible _ _ _ _ ND Hin Hv). eapply col_value_nth; eassumption.
    + apply decode_solve_hidden; [exact ND|exact Hin|]. destruct (keep_solve incl c) eqn:E; [|reflexivity].
      apply keep_solve_spec in E. contradiction.
  - intros i x Hin. rewrite (decode_solve_pairs _ _ _ ND) in Hin. apply in_map_iff in Hin.
    destruct Hin as [[c x'] [E Hin]]. unfold pair_of in E. cbn [fst snd] in E. inversion E. subst i x'. clear E.
    apply filter_In in Hin. destruct Hin as [Hin Hk]. cbn [fst] in Hk.
    apply In_nth_error in Hin. destruct Hin as [j Hj]. exists j, c.
    assert (Hc : nth_error cols j = Some c /\ nth_error s j = Some x).
    { clear -Hj. revert s j Hj. induction cols as [|c0 cols IH]; intros [|x0 s] [|j] Hj; cbn in *; try discriminate.
      - inversion Hj. auto.
      - apply IH. exact Hj. }
    destruct Hc as [Hc Hx]. repeat split; try assumption. apply keep_solve_spec. exact Hk.
  - rewrite (decode_solve_pairs _ _ _ ND). unfold keys. rewrite map_map. cbn [pair_of fst].
    apply (NoDup_map_filter (fun cx : column * Z => c_id (fst cx))). apply combine_keys_nodup. exact ND.
Qed.

Lemma decode_select_pairs cols s : NoDup (map c_id cols) -> decode_select cols (Some s) = map pair_of (combine cols s).
Proof.
  intros ND. unfold decode_select. rewrite combine_map_l. apply pydict_nodup. unfold keys. rewrite map_map. cbn [fst].
  apply combine_keys_nodup. exact ND.
Qed.

(* select(): every column is reported *)
Theorem decode_select_spec cols s :
  NoDup (map c_id cols) ->
  (forall j c x, nth_error cols j = Some c -> nth_error s j = Some x -> dlookup (c_id c) (decode_select cols (Some s)) = Some x) /\
  (forall i x, In (i, x) (decode_select cols (Some s)) -> exists j c, nth_error cols j = Some c /\ c_id c = i /\ nth_error s j = Some x) /\
  NoDup (keys (decode_select cols (Some s))).
Proof.
  intros ND. rewrite (decode_select_pairs _ _ ND). split; [|split].
  - intros j c x Hc Hx. rewrite <- col_value_pairs. eapply col_value_nth; eassumption.
  - intros i x Hin. apply in_map_iff in Hin. destruct Hin as [[c x'] [E Hin]]. unfold pair_of in E. cbn [fst snd] in E.
    inversion E. subst i x'. clear E. apply In_nth_error in Hin. destruct Hin as [j Hj]. exists j, c.
    assert (Hc : nth_error cols j = Some c /\ nth_error s j = Some x).
    { clear -Hj. revert s j Hj. induction cols as [|c0 cols IH]; intros [|x0 s] [|j] Hj; cbn in *; try discriminate.
      - inversion Hj. auto.
      - apply IH. exact Hj. }
    tauto.
  - unfold keys. rewrite map_map. cbn [pair_of fst]. apply combine_keys_nodup. exact ND.
Qed.

(* only_leafs keeps exactly the entries of leaf items *)
Lemma dlookup_filter_key (f : vid -> bool) d k :
  dlookup k (filter (fun kv => f (fst kv)) d) = if f k then dlookup k d else None.
Proof.
  induction d as [|[k' v] r IH]; cbn [filter dlookup fst]; [destruct (f k); reflexivity|].
  destruct (vid_eqb k k') eqn:E.
  - apply vid_eqb_eq in E. subst k'. destruct (f k) eqn:F; cbn [dlookup]; [rewrite vid_eqb_refl; reflexivity|].
    exact IH.
  - destruct (f k') eqn:F'; cbn [dlookup]; [rewrite E|]; exact IH.
Qed.
Lemma leaf_ids_mem cols c : NoDup (map c_id cols) -> In c cols -> mem_vid (c_id c) (leaf_ids cols) = c_leaf c.
Proof.
  intros ND Hc. destruct (c_leaf c) eqn:L.
  - apply mem_vid_In. unfold leaf_ids. apply in_map. apply filter_In. auto.
  - apply mem_vid_nIn. intros Hin. unfold leaf_ids in Hin. apply in_map_iff in Hin. destruct Hin as [c' [E Hc']].
    apply filter_In in Hc'. destruct Hc' as [Hc' L']. rewrite (NoDup_map_inj_in c_id cols c' c ND Hc' Hc E) in L'. congruence.
Qed.
Theorem only_leafs_spec cols s :
  NoDup (map c_id cols) ->
  (forall j c x, nth_error cols j = Some c -> nth_error s j = Some x ->
     dlookup (c_id c) (only_leafs_filter (leaf_ids cols) (decode_select cols (Some s))) = if c_leaf c then Some x else None) /\
  (forall i x, In (i, x) (only_leafs_filter (leaf_ids cols) (decode_select cols (Some s))) ->
     exists j c, nth_error cols j = Some c /\ c_id c = i /\ nth_error s j = Some x /\ c_leaf c = true).
Proof.
  intros ND. destruct (decode_select_spec cols s ND) as [H1 [H2 _]]. split.
  - intros j c x Hc Hx. unfold only_leafs_filter. rewrite (dlookup_filter_key (fun k => mem_vid k (leaf_ids cols))).
    rewrite (leaf_ids_mem _ _ ND (nth_error_In _ _ Hc)). destruct (c_leaf c); [eapply H1; eassumption|reflexivity].
  - intros i x Hin. unfold only_leafs_filter in Hin. apply filter_In in Hin. destruct Hin as [Hin Hm]. cbn [fst] in Hm.
    destruct (H2 _ _ Hin) as [j [c [Hc [E Hx]]]]. exists j, c. repeat split; try assumption.
    rewrite <- (leaf_ids_mem _ _ ND (nth_error_In _ _ Hc)), E. exact Hm.
Qed.

(* a None solution becomes the empty dictionary *)
Theorem decode_none cols incl :
  decode_solve cols incl None = [] /\ decode_select cols None = [] /\ only_leafs_filter (leaf_ids cols) (decode_select cols None) = [].
Proof. repeat split. Qed.

(* one result per solver answer, objective value and status code passed through *)
Theorem solve_results solver P cols objs incl answers :
  solver P (map (solve_objective cols) objs) = Ok answers ->
  exists rs, solve solver P cols objs incl = Ok rs /\ List.length rs = List.length answers /\
    forall k a, nth_error answers k = Some a ->
      nth_error rs k = Some (decode_solve cols incl (a_sol a), a_obj a, a_status a).
Proof.
  intros H. unfold solve, solve_args. rewrite H. eexists. split; [reflexivity|]. split; [apply map_length|].
  intros k a Hk. rewrite nth_error_map, Hk. reflexivity.
Qed.
Theorem select_results compress solver P cols dpv prios answers :
  solver P (select_objectives compress cols dpv prios) = Ok answers ->
  exists rs, select compress solver P cols dpv prios = Ok rs /\ List.length rs = List.length answers /\
    (forall k a, nth_error answers k = Some a -> nth_error rs k = Some (decode_select cols (a_sol a), a_obj a, a_status a)) /\
    exists ds, stingy_select_leafs compress solver P cols dpv prios = Ok ds /\
      forall k a, nth_error answers k = Some a -> nth_error ds k = Some (only_leafs_filter (leaf_ids cols) (decode_select cols (a_sol a))).
Proof.
  intros H. unfold stingy_select_leafs, select. rewrite H. eexists. split; [reflexivity|]. split; [apply map_length|]. split.
  - intros k a Hk. rewrite nth_error_map, Hk. reflexivity.
  - eexists. split; [reflexivity|]. intros k a Hk. rewrite !nth_error_map, Hk. reflexivity.
Qed.

(* a raising solver: select() surfaces InfeasibleError; solve() lets the exception through *)
Theorem solver_raises compress solver P cols dpv prios objs incl e :
  (solver P (select_objectives compress cols dpv prios) = Raised e ->
     select compress solver P cols dpv prios = Raised ExInfeasible /\
     stingy_select_leafs compress solver P cols dpv prios = Raised ExInfeasible) /\
  (solver P (map (solve_objective cols) objs) = Raised e -> solve solver P cols objs incl = Raised e).
Proof.
  split; intros H.
  - unfold stingy_select_leafs, select. rewrite H. split; reflexivity.
  - unfold solve, solve_args. rewrite H. reflexivity.
Qed.

(* ================================================================== C15: exact solver *)
Lemma bdot_solve_objective cols o x : bdot (solve_objective cols o) x = score cols o x.
Proof.
  unfold bdot, score, solve_objective, construct_gen. revert x.
  induction cols as [|c cols IH]; intros [|x0 x]; cbn [map combine zsum fst snd]; try reflexivity.
  rewrite IH. cbn [col_var v_id]. unfold weight. reflexivity.
Qed.

Lemma Forall2_map_l {A B C} (R : B -> C -> Prop) (f : A -> B) l l' :
  Forall2 R (map f l) l' <-> Forall2 (fun a c => R (f a) c) l l'.
Proof.
  revert l'. induction l as [|a l IH]; intros l'; cbn [map]; split; intros H; inversion H; subst; constructor; auto; apply IH; auto.
Qed.
Lemma Forall2_map_r {A B C} (R : A -> C -> Prop) (f : B -> C) l l' :
  Forall2 R l (map f l') <-> Forall2 (fun a b => R a (f b)) l l'.
Proof.
  revert l. induction l' as [|b l' IH]; intros l; cbn [map]; split; intros H; inversion H; subst; constructor; auto; apply IH; auto.
Qed.
Lemma Forall2_impl {A B} (R R' : A -> B -> Prop) l l' : (forall a b, R a b -> R' a b) -> Forall2 R l l' -> Forall2 R' l l'.
Proof. intros H. induction 1; constructor; auto. Qed.

Section Exact.
  Variable solver : solver_t.
  Hypothesis solver_exact : is_argmax solver.
  Variable P : vnd.
  Variable cols : list column.
  Hypothesis ids_nodup : NoDup (map c_id cols).
  (* what it means for the model to be satisfied by an assignment of ids, as far as this file is
     concerned: any predicate that only looks at leaf (non-compound) columns ... *)
  Variable model_true : (vid -> option Z) -> Prop.
  Hypothesis model_true_leaves :
    forall e e', (forall c, In c cols -> c_compound c = false -> e (c_id c) = e' (c_id c)) -> model_true e -> model_true e'.
  (* ... and that every integer point of the asserted polyhedron satisfies (C02, solver-safe models) *)
  Hypothesis sound : forall x, feasible P x -> model_true (col_value cols x).

  Definition reported_ok (o : list Z) (visible_col : column -> bool) (d : dict) : Prop :=
    (exists x, feasible P x /\ (forall y, feasible P y -> bdot o y <= bdot o x) /\
               (forall c, In c cols -> visible_col c = true -> dlookup (c_id c) d = col_value cols x (c_id c)) /\
               model_true (fun i => dlookup i d))
    \/ (d = [] /\ forall y, ~ feasible P y).

  Lemma model_true_decoded x d (vis : column -> bool) :
    feasible P x -> (forall c, In c cols -> c_compound c = false -> vis c = true) ->
    (forall c, In c cols -> vis c = true -> dlookup (c_id c) d = col_value cols x (c_id c)) ->
    model_true (fun i => dlookup i d).
  Proof.
    intros Hf Hvis Hd. apply (model_true_leaves (col_value cols x)); [|apply sound; exact Hf].
    intros c Hc Hl. symmetry. apply Hd; [exact Hc|apply Hvis; assumption].
  Qed.

  (* solve() with an exact solver: every reported solution is (the visible part of) an integer
     point of the polyhedron that is optimal for the requested weights, and satisfies the model *)
  Theorem solve_exact objs incl rs :
    solve solver P cols objs incl = Ok rs ->
    Forall2 (fun o r =>
      (exists x, feasible P x /\ (forall y, feasible P y -> score cols o y <= score cols o x) /\
                 fst (fst r) = decode_solve cols incl (Some x) /\
                 (forall c, In c cols -> visible incl c -> dlookup (c_id c) (fst (fst r)) = col_value cols x (c_id c)) /\
                 model_true (fun i => dlookup i (fst (fst r))))
      \/ (fst (fst r) = [] /\ forall y, ~ feasible P y)) objs rs.
  Proof.
    unfold solve, solve_args. destruct (solver P (map (solve_objective cols) objs)) as [answers|e] eqn:E; [|discriminate].
    intros H. inversion H. subst rs. clear H. apply solver_exact in E.
    apply (proj1 (Forall2_map_l _ _ _ _)) in E. apply (proj2 (Forall2_map_r _ _ _ _)). revert E. apply Forall2_impl.
    intros o a Ha. cbn [fst]. unfold answer_exact in Ha. destruct (a_sol a) as [x|].
    - left. destruct Ha as [Hf Hopt]. exists x. split; [exact Hf|]. split; [|split; [reflexivity|split]].
      + intros y Hy. rewrite <- !bdot_solve_objective. apply Hopt. exact Hy.
      + intros c Hc Hv. apply decode_solve_visible; [exact ids_nodup|exact Hc|apply keep_solve_spec; exact Hv].
      + apply (model_true_decoded x _ (keep_solve incl) Hf).
        * intros c _ Hl. unfold keep_solve. rewrite Hl. reflexivity.
        * intros c Hc Hk. apply decode_solve_visible; assumption.
    - right. split; [reflexivity|exact Ha].
  Qed.

  (* select() with an exact solver: optimal for the objective vectors it was given (the compressed
     priorities), every column reported; with only_leafs the leaf part, which still satisfies the model *)
  Variable compress : list (list (list Z)) -> list (list Z).
  Theorem select_exact dpv prios rs :
    select compress solver P cols dpv prios = Ok rs ->
    Forall2 (fun o r =>
      (exists x, feasible P x /\ (forall y, feasible P y -> bdot o y <= bdot o x) /\
                 fst (fst r) = decode_select cols (Some x) /\
                 (forall c, In c cols -> dlookup (c_id c) (fst (fst r)) = col_value cols x (c_id c)) /\
                 model_true (fun i => dlookup i (fst (fst r))))
      \/ (fst (fst r) = [] /\ forall y, ~ feasible P y)) (select_objectives compress cols dpv prios) rs.
  Proof.
    unfold select. destruct (solver P (select_objectives compress cols dpv prios)) as [answers|e] eqn:E; [|discriminate].
    intros H. inversion H. subst rs. clear H. apply solver_exact in E.
    apply (proj2 (Forall2_map_r _ _ _ _)). revert E. apply Forall2_impl.
    intros o a Ha. cbn [fst]. unfold answer_exact in Ha. destruct (a_sol a) as [x|].
    - left. destruct Ha as [Hf Hopt]. exists x. split; [exact Hf|]. split; [exact Hopt|]. split; [reflexivity|].
      assert (Hd : forall c, In c cols -> dlookup (c_id c) (decode_select cols (Some x)) = col_value cols x (c_id c)).
      { intros c _. rewrite (decode_select_pairs _ _ ids_nodup), col_value_pairs. reflexivity. }
      split; [exact Hd|]. apply (model_true_decoded x _ (fun _ => true) Hf); [reflexivity|]. intros c Hc _. apply Hd. exact Hc.
    - right. split; [reflexivity|exact Ha].
  Qed.

  Hypothesis leaf_items : forall c, In c cols -> c_compound c = false -> c_leaf c = true.
  Theorem select_leafs_exact dpv prios ds :
    stingy_select_leafs compress solver P cols dpv prios = Ok ds ->
    Forall2 (fun o d =>
      (exists x, feasible P x /\ (forall y, feasible P y -> bdot o y <= bdot o x) /\
                 d = only_leafs_filter (leaf_ids cols) (decode_select cols (Some x)) /\
                 (forall c, In c cols -> c_leaf c = true -> dlookup (c_id c) d = col_value cols x (c_id c)) /\
                 model_true (fun i => dlookup i d))
      \/ (d = [] /\ forall y, ~ feasible P y)) (select_objectives compress cols dpv prios) ds.
  Proof.
    unfold stingy_select_leafs, select. destruct (solver P (select_objectives compress cols dpv prios)) as [answers|e] eqn:E; [|discriminate].
    intros H. inversion H. subst ds. clear H. apply solver_exact in E. rewrite map_map.
    apply (proj2 (Forall2_map_r _ _ _ _)). revert E. apply Forall2_impl.
    intros o a Ha. cbn [fst]. unfold answer_exact in Ha. destruct (a_sol a) as [x|].
    - left. destruct Ha as [Hf Hopt]. exists x. split; [exact Hf|]. split; [exact Hopt|]. split; [reflexivity|].
      assert (Hd : forall c, In c cols -> c_leaf c = true ->
                dlookup (c_id c) (only_leafs_filter (leaf_ids cols) (decode_select cols (Some x))) = col_value cols x (c_id c)).
      { intros c Hc Hl. unfold only_leafs_filter. rewrite (dlookup_filter_key (fun k => mem_vid k (leaf_ids cols))).
        rewrite (leaf_ids_mem _ _ ids_nodup Hc), Hl, (decode_select_pairs _ _ ids_nodup), col_value_pairs. reflexivity. }
      split; [exact Hd|]. apply (model_true_decoded x _ c_leaf Hf); [exact leaf_items|exact Hd].
    - right. split; [reflexivity|exact Ha].
  Qed.
End Exact.

(* ================================================================== an exact solver exists *)
(* A brute-force solver (enumerate the bounds box, keep the feasible points, take a maximiser):
   it satisfies [is_argmax], so the hypothesis of the exactness theorems is satisfiable.  It is a
   proof device, not a model of anything in /repo. *)
Fixpoint box (vs : list var) : list (list Z) :=
  match vs with
  | [] => [[]]
  | v :: r => flat_map (fun xi => map (cons xi) (box r)) (zrange (v_lo v) (Z.to_nat (v_hi v - v_lo v + 1)))
  end.
Definition feasibleb (P : vnd) (x : list Z) : bool :=
  forallb (fun row => nth 0 row 0 <=? bdot (skipn 1 row) x) (mat P).
Fixpoint best (o : list Z) (cands : list (list Z)) : option (list Z) :=
  match cands with
  | [] => None
  | x :: r => match best o r with
              | None => Some x
              | Some y => if bdot o y <=? bdot o x then Some x else Some y
              end
  end.
Definition bf_solver : solver_t := fun P os =>
  Ok (map (fun o => mkAns (best o (filter (feasibleb P) (box (skipn 1 (vars P))))) None 0) os).

Lemma zrange_In s n z : In z (zrange s n) <-> s <= z < s + Z.of_nat n.
Proof.
  revert s. induction n as [|n IH]; intros s; cbn [zrange In]; [lia|]. rewrite IH. lia.
Qed.
Lemma box_In vs x : In x (box vs) <-> in_bounds vs x.
Proof.
  unfold in_bounds. revert x. induction vs as [|v vs IH]; intros x; cbn [box].
  - cbn [In]. split; [intros [<-|[]]; constructor|]. intros H. inversion H. left. reflexivity.
  - rewrite in_flat_map. split.
    + intros [xi [Hxi Hx]]. apply in_map_iff in Hx. destruct Hx as [r [<- Hr]]. apply zrange_In in Hxi.
      constructor; [lia|apply IH; exact Hr].
    + intros H. inversion H as [|? xi ? r Hb Hr]; subst. exists xi. split.
      * apply zrange_In. lia.
      * apply in_map. apply IH. exact Hr.
Qed.
Lemma feasibleb_spec P x : in_bounds (skipn 1 (vars P)) x -> (feasibleb P x = true <-> feasible P x).
Proof.
  intros Hb. unfold feasibleb, feasible, row_sat. rewrite forallb_forall, Forall_forall. split.
  - intros H. split; [exact Hb|]. intros row Hr. specialize (H row Hr). lia.
  - intros [_ H] row Hr. specialize (H row Hr). lia.
Qed.
Lemma best_spec o l :
  match best o l with
  | None => l = []
  | Some x => In x l /\ forall y, In y l -> bdot o y <= bdot o x
  end.
Proof.
  induction l as [|x r IH]; cbn [best]; [reflexivity|].
  destruct (best o r) as [y|].
  - destruct IH as [Hy Hmax]. destruct (bdot o y <=? bdot o x) eqn:E.
    + split; [left; reflexivity|]. intros z [<-|Hz]; [lia|]. specialize (Hmax z Hz). lia.
    + split; [right; exact Hy|]. intros z [<-|Hz]; [lia|]. apply Hmax. exact Hz.
  - subst r. split; [left; reflexivity|]. intros z [<-|[]]. lia.
Qed.
Theorem bf_solver_exact : is_argmax bf_solver.
Proof.
  intros P os answers H. unfold bf_solver in H. inversion H. subst answers. clear H.
  apply (proj2 (Forall2_map_r _ _ _ _)). induction os as [|o os IH]; constructor; [|exact IH].
  change (answer_exact P o (mkAns (best o (filter (feasibleb P) (box (skipn 1 (vars P))))) None 0)).
  unfold answer_exact. cbn [a_sol].
  pose proof (best_spec o (filter (feasibleb P) (box (skipn 1 (vars P))))) as B.
  destruct (best o (filter (feasibleb P) (box (skipn 1 (vars P))))) as [x|].
  - destruct B as [Hx Hmax]. apply filter_In in Hx. destruct Hx as [Hbox Hf]. apply box_In in Hbox. split.
    + apply feasibleb_spec; assumption.
    + intros y Hy. apply Hmax. apply filter_In. destruct Hy as [Hyb Hyr]. split; [apply box_In; exact Hyb|].
      apply feasibleb_spec; [exact Hyb|split; assumption].
  - intros y [Hyb Hyr]. assert (Hin : In y (filter (feasibleb P) (box (skipn 1 (vars P))))).
    { apply filter_In. split; [apply box_In; exact Hyb|]. apply feasibleb_spec; [exact Hyb|split; assumption]. }
    rewrite B in Hin. exact Hin.
Qed.

(* ================================================================== C20 meets C15 *)
(* "every row [b; a] of the polyhedron holds at x" is  A x >= b  for the A and b of C20 *)
Theorem feasible_rows_Ab p a b x :
  poly_A p = Some a -> poly_b p = Some b ->
  (Forall (fun row => row_sat row x) (mat p) <-> Forall2 (fun arow bi => bi <= bdot arow x) (mat a) b).
Proof.
  intros Ha Hb. unfold poly_A in Ha. apply vnd_new_spec in Ha. destruct Ha as [Hm _].
  unfold poly_b in Hb. destruct (vars p); [discriminate|]. inversion Hb. subst b. clear Hb. rewrite Hm. clear Hm.
  unfold row_sat. induction (mat p) as [|row rows IH]; cbn [map]; split; intros H.
  - constructor.
  - constructor.
  - inversion H; subst. constructor; [assumption|apply IH; assumption].
  - inversion H; subst. constructor; [assumption|apply IH; assumption].
Qed.
