(* HeapFacts.v — proofs for C09 (purity / history independence) about the model in Heap.v. *)
Require Import Puan.Base Puan.Plog Puan.Heap.

(* ---------- threading ---------- *)
Lemma thread_pure {A B} (f : A -> store -> store * B) (g : store -> A -> B) xs σ :
  Forall (fun x => forall σ', f x σ' = (σ', g σ' x)) xs -> thread f xs σ = (σ, map (g σ) xs).
Proof.
  induction 1 as [|x r Hx Hr IH]; cbn [thread map]; [reflexivity|].
  rewrite Hx, IH. reflexivity.
Qed.

Lemma thread_frame {A B} (f : A -> store -> store * B) (k : nat) xs :
  Forall (fun x => forall σ', fst (f x σ') k = σ' k) xs -> forall σ, fst (thread f xs σ) k = σ k.
Proof.
  induction 1 as [|x r Hx Hr IH]; intros σ; cbn [thread]; [reflexivity|].
  destruct (f x σ) as [σ1 y] eqn:E1. destruct (thread f r σ1) as [σ2 ys] eqn:E2. cbn [fst].
  specialize (IH σ1). rewrite E2 in IH. cbn [fst] in IH. rewrite IH.
  specialize (Hx σ). rewrite E1 in Hx. exact Hx.
Qed.

Lemma in_clabels_child l m i g s v ch c k j :
  In c ch -> In (k, j) (clabels c) -> In (k, j) (clabels (LNode l m i g s v ch)).
Proof. intros Hc Hk. cbn [clabels]. right. apply in_flat_map. eauto. Qed.

Lemma pair_eta (b : Z * Z) : (fst b, snd b) = b.
Proof. destruct b; reflexivity. Qed.

(* ---------- assume without a named compound: no assignment, and the pure result ---------- *)
Lemma assume_h_pure d p : (forall l i, In (l, i) (clabels p) -> alookup i d = None) ->
  forall σ, assume_h d p σ = (σ, assume d (resolve σ p)).
Proof.
  induction p as [i lo hi | l m i g s v ch IH] using lprop_ind'; intros Hn σ.
  - reflexivity.
  - assert (Hi : alookup i d = None) by (apply (Hn l i); cbn; auto).
    cbn [assume_h resolve assume]. unfold dbounds. rewrite Hi. cbn [fst snd].
    destruct (fst (σ l) =? snd (σ l)) eqn:E; [reflexivity|].
    assert (Hch : Forall (fun c => forall σ', assume_h d c σ' = (σ', (fun σ0 c0 => assume d (resolve σ0 c0)) σ' c)) ch).
    { rewrite Forall_forall in *. intros c Hc σ'. apply IH; auto.
      intros k j Hk. apply (Hn k j). eapply in_clabels_child; eauto. }
    rewrite (thread_pure _ _ _ _ Hch). rewrite (map_map (resolve σ) (assume d)). reflexivity.
Qed.

(* ---------- frame: only labels of compounds whose id the dictionary names can change ---------- *)
Lemma assume_h_frame d p k : (forall i, In (k, i) (clabels p) -> alookup i d = None) ->
  forall σ, fst (assume_h d p σ) k = σ k.
Proof.
  induction p as [i lo hi | l m i g s v ch IH] using lprop_ind'; intros Hn σ.
  - reflexivity.
  - cbn [assume_h].
    set (σ1 := match alookup i d with Some b => upd σ l b | None => σ end).
    assert (H1 : σ1 k = σ k).
    { subst σ1. destruct (alookup i d) as [b|] eqn:Ei; [|reflexivity].
      unfold upd. destruct (Nat.eqb k l) eqn:Ekl; [|reflexivity].
      apply Nat.eqb_eq in Ekl. subst k. rewrite (Hn i) in Ei; [discriminate|cbn; auto]. }
    destruct (fst (σ1 l) =? snd (σ1 l)); [exact H1|].
    assert (Hch : Forall (fun c => forall σ', fst (assume_h d c σ') k = σ' k) ch).
    { rewrite Forall_forall in *. intros c Hc σ'. apply IH; auto.
      intros j Hk. apply (Hn j). eapply in_clabels_child; eauto. }
    pose proof (thread_frame (assume_h d) k ch Hch σ1) as Ht.
    destruct (thread (assume_h d) ch σ1) as [σ2 ach]. cbn [fst] in *. congruence.
Qed.

(* a changed label holds exactly the dictionary's entry for the id of an occurrence with that label *)
Lemma thread_written {A B} (f : A -> store -> store * B) (k : nat) (Q : Z * Z -> Prop) xs :
  Forall (fun x => forall σ', fst (f x σ') k = σ' k \/ Q (fst (f x σ') k)) xs ->
  forall σ, fst (thread f xs σ) k = σ k \/ Q (fst (thread f xs σ) k).
Proof.
  induction 1 as [|x r Hx Hr IH]; intros σ; cbn [thread]; [left; reflexivity|].
  destruct (f x σ) as [σ1 y] eqn:E1. destruct (thread f r σ1) as [σ2 ys] eqn:E2. cbn [fst].
  specialize (IH σ1). rewrite E2 in IH. cbn [fst] in IH.
  specialize (Hx σ). rewrite E1 in Hx. cbn [fst] in Hx.
  destruct IH as [IH|IH]; [|right; exact IH]. rewrite IH. exact Hx.
Qed.

Lemma assume_h_written d p k σ :
  fst (assume_h d p σ) k = σ k \/
  exists i, In (k, i) (clabels p) /\ alookup i d = Some (fst (assume_h d p σ) k).
Proof.
  revert σ. induction p as [i lo hi | l m i g s v ch IH] using lprop_ind'; intros σ.
  - left; reflexivity.
  - cbn [assume_h].
    set (σ1 := match alookup i d with Some b => upd σ l b | None => σ end).
    assert (H1 : σ1 k = σ k \/ alookup i d = Some (σ1 k) /\ k = l).
    { subst σ1. destruct (alookup i d) as [b|] eqn:Ei; [|left; reflexivity].
      unfold upd. destruct (Nat.eqb k l) eqn:Ekl; [|left; reflexivity].
      apply Nat.eqb_eq in Ekl. right. auto. }
    assert (H1' : σ1 k = σ k \/ exists j, In (k, j) (clabels (LNode l m i g s v ch)) /\ alookup j d = Some (σ1 k)).
    { destruct H1 as [H1|[H1 ->]]; [left; exact H1|]. right. exists i. split; [cbn; auto|exact H1]. }
    destruct (fst (σ1 l) =? snd (σ1 l)); [exact H1'|].
    set (Q := fun b : Z * Z => exists j, In (k, j) (clabels (LNode l m i g s v ch)) /\ alookup j d = Some b).
    assert (Hch : Forall (fun c => forall σ', fst (assume_h d c σ') k = σ' k \/ Q (fst (assume_h d c σ') k)) ch).
    { rewrite Forall_forall in *. intros c Hc σ'. destruct (IH c Hc σ') as [H|(j & Hj & Hd)]; [left; exact H|].
      right. exists j. split; [eapply in_clabels_child; eauto|exact Hd]. }
    pose proof (thread_written (assume_h d) k Q ch Hch σ1) as Ht.
    destruct (thread (assume_h d) ch σ1) as [σ2 ach]. cbn [fst] in *.
    destruct Ht as [Ht|Ht]; [|right; exact Ht]. rewrite Ht. exact H1'.
Qed.

(* ---------- the result of the mutating call itself is still the pure function ---------- *)
Lemma consistent_node ι l m i g s v ch :
  consistent ι (LNode l m i g s v ch) <-> ι l = i /\ Forall (consistent ι) ch.
Proof.
  cbn [consistent]. split; intros [H1 H2]; split; auto.
  - induction ch as [|x xs IH]; constructor; destruct H2; auto.
  - induction H2; cbn; auto.
Qed.

Lemma consistent_clabels ι p k j : consistent ι p -> In (k, j) (clabels p) -> ι k = j.
Proof.
  induction p as [i lo hi | l m i g s v ch IH] using lprop_ind'; intros Hc Hin; [destruct Hin|].
  apply consistent_node in Hc. destruct Hc as [Hl Hch]. cbn [clabels] in Hin.
  destruct Hin as [E|Hin]; [inversion E; subst; reflexivity|].
  apply in_flat_map in Hin. destruct Hin as (c & Hc & Hk). rewrite Forall_forall in *. eauto.
Qed.

(* assume looks at a compound's own bounds only when the dictionary does not name its id *)
Lemma assume_resolve_indep ι d p : consistent ι p -> forall σ1 σ2,
  (forall k, σ1 k = σ2 k \/ alookup (ι k) d <> None) ->
  assume d (resolve σ1 p) = assume d (resolve σ2 p).
Proof.
  induction p as [i lo hi | l m i g s v ch IH] using lprop_ind'; intros Hc σ1 σ2 Hs; [reflexivity|].
  apply consistent_node in Hc. destruct Hc as [Hl Hch].
  cbn [resolve assume].
  assert (Hb : dbounds d i (fst (σ1 l)) (snd (σ1 l)) = dbounds d i (fst (σ2 l)) (snd (σ2 l))).
  { unfold dbounds. destruct (alookup i d) eqn:Ei; [reflexivity|].
    destruct (Hs l) as [E|E]; [rewrite E; reflexivity|]. rewrite Hl in E. contradiction. }
  rewrite Hb. rewrite (map_map (resolve σ1) (assume d)), (map_map (resolve σ2) (assume d)).
  assert (Hm : map (fun c => assume d (resolve σ1 c)) ch = map (fun c => assume d (resolve σ2 c)) ch).
  { apply map_ext_in. intros c Hin. rewrite Forall_forall in *. apply IH; auto. }
  rewrite Hm. reflexivity.
Qed.

Lemma thread_output {A B} (f : A -> store -> store * B) (g : A -> B) (R : store -> store -> Prop) xs :
  (forall σ, R σ σ) -> (forall a b c, R a b -> R b c -> R a c) ->
  Forall (fun x => forall σ', R σ' (fst (f x σ'))) xs ->
  forall σ0, Forall (fun x => forall σ', R σ0 σ' -> snd (f x σ') = g x) xs ->
  forall σ, R σ0 σ -> snd (thread f xs σ) = map g xs /\ R σ0 (fst (thread f xs σ)).
Proof.
  intros Hrefl Htrans HR σ0 Hout. induction xs as [|x r IH]; intros σ Hσ; cbn [thread map]; [auto|].
  inversion HR as [|? ? HRx HRr]; subst. inversion Hout as [|? ? Hox Hor]; subst.
  destruct (f x σ) as [σ1 y] eqn:E1. destruct (thread f r σ1) as [σ2 ys] eqn:E2. cbn [fst snd].
  assert (H1 : R σ0 σ1). { apply (Htrans _ σ); auto. specialize (HRx σ). rewrite E1 in HRx. exact HRx. }
  destruct (IH HRr Hor σ1 H1) as [IHa IHb]. rewrite E2 in IHa, IHb. cbn [fst snd] in *.
  specialize (Hox σ Hσ). rewrite E1 in Hox. cbn [snd] in Hox. subst. auto.
Qed.

(* "differs only at labels whose id the dictionary names" *)
Definition near (ι : nat -> ident) (d : interp) (σ σ' : store) : Prop :=
  forall k, σ k = σ' k \/ alookup (ι k) d <> None.
Lemma near_refl ι d σ : near ι d σ σ.
Proof. intros k; left; reflexivity. Qed.
Lemma near_trans ι d a b c : near ι d a b -> near ι d b c -> near ι d a c.
Proof. intros H1 H2 k. destruct (H1 k) as [E1|E1]; [|right; exact E1]. destruct (H2 k) as [E2|E2]; [left; congruence|right; exact E2]. Qed.

Lemma assume_h_near ι d p : consistent ι p -> forall σ, near ι d σ (fst (assume_h d p σ)).
Proof.
  intros Hc σ k. destruct (assume_h_written d p k σ) as [E|(i & Hin & Hd)]; [left; symmetry; exact E|].
  right. rewrite (consistent_clabels ι p k i Hc Hin). congruence.
Qed.

Theorem assume_h_output ι d p : consistent ι p -> forall σ, snd (assume_h d p σ) = assume d (resolve σ p).
Proof.
  induction p as [i lo hi | l m i g s v ch IH] using lprop_ind'; intros Hc σ; [reflexivity|].
  pose proof Hc as Hc0. apply consistent_node in Hc. destruct Hc as [Hl Hch].
  cbn [assume_h resolve assume].
  set (σ1 := match alookup i d with Some b => upd σ l b | None => σ end).
  assert (Hb : σ1 l = dbounds d i (fst (σ l)) (snd (σ l))).
  { subst σ1. unfold dbounds. destruct (alookup i d) as [b|]; [unfold upd; rewrite Nat.eqb_refl; reflexivity|apply eq_sym, pair_eta]. }
  rewrite Hb. destruct (fst (dbounds d i (fst (σ l)) (snd (σ l))) =? snd (dbounds d i (fst (σ l)) (snd (σ l)))); [reflexivity|].
  assert (H1 : near ι d σ σ1).
  { intros k. subst σ1. destruct (alookup i d) as [b|] eqn:Ei; [|left; reflexivity].
    unfold upd. destruct (Nat.eqb k l) eqn:Ekl; [|left; reflexivity].
    apply Nat.eqb_eq in Ekl. subst k. right. rewrite Hl, Ei. discriminate. }
  assert (HR : Forall (fun c => forall σ', near ι d σ' (fst (assume_h d c σ'))) ch).
  { rewrite Forall_forall in *. intros c Hin σ'. apply assume_h_near; auto. }
  assert (Hout : Forall (fun c => forall σ', near ι d σ σ' -> snd (assume_h d c σ') = assume d (resolve σ c)) ch).
  { rewrite Forall_forall in *. intros c Hin σ' Hn. rewrite (IH c Hin (Hch c Hin)).
    apply (assume_resolve_indep ι); auto. intros k. destruct (Hn k) as [E|E]; [left; congruence|right; exact E]. }
  destruct (thread_output (assume_h d) (fun c => assume d (resolve σ c)) (near ι d) ch
              (near_refl ι d) (near_trans ι d) HR σ Hout σ1 H1) as [Ho _].
  destruct (thread (assume_h d) ch σ1) as [σ2 ach]. cbn [snd] in *. subst ach. rewrite (map_map (resolve σ) (assume d)). reflexivity.
Qed.

(* ---------- negate on objects nobody has assumed on is Plog.negate ---------- *)
Fixpoint gen_default (p : prop) : bool :=
  match p with
  | Var _ _ _ => true
  | Node _ _ g lo hi _ _ ch => (negb g || ((lo =? 0) && (hi =? 1))) && forallb gen_default ch
  end.

Lemma negate_m_fresh genid p : gen_default p = true -> negate_m genid p = negate genid p.
Proof.
  induction p as [i lo hi | m i g lo hi s v ch IH] using prop_ind'; intros Hg; [reflexivity|].
  cbn [gen_default] in Hg. apply andb_true_iff in Hg. destruct Hg as [Hb Hch].
  assert (Hmap : map (fun c => (c, negate_m genid c)) ch = map (fun c => (c, negate genid c)) ch).
  { apply map_ext_in. intros c Hc. rewrite Forall_forall in IH. rewrite forallb_forall in Hch.
    rewrite (IH c Hc (Hch c Hc)). reflexivity. }
  assert (Hlo : nlo g lo = lo /\ nhi g hi = hi).
  { destruct g; cbn [negb orb] in Hb; [|split; reflexivity].
    apply andb_true_iff in Hb. destruct Hb as [H1 H2]. apply Z.eqb_eq in H1, H2. subst. split; reflexivity. }
  destruct Hlo as [Hlo Hhi].
  cbn [negate_m negate]. rewrite Hmap, Hlo, Hhi. reflexivity.
Qed.

(* ---------- steps and histories ---------- *)
Section Hist.
Variable genid : genid_t.

Lemma step_pool s o : pool (fst (step genid s o)) = pool s.
Proof.
  unfold step. destruct (nth_error (pool s) (operand o)) as [p|]; [|reflexivity].
  destruct o; try reflexivity; cbn [fst].
  - unfold evaluate_h, evaluate_propositions_h. destruct (assume_h d p (sto s)). reflexivity.
  - unfold evaluate_propositions_h. destruct (assume_h d p (sto s)). reflexivity.
  - destruct (assume_h d p (sto s)). reflexivity.
Qed.

(* the store component of a step, in one formula *)
Lemma step_sto s o p : nth_error (pool s) (operand o) = Some p ->
  sto (fst (step genid s o)) = match op_dict o with Some d => fst (assume_h d p (sto s)) | None => sto s end.
Proof.
  intros Hp. unfold step. rewrite Hp. destruct o; try reflexivity; cbn [op_dict].
  - unfold evaluate_h, evaluate_propositions_h. destruct (assume_h d p (sto s)). reflexivity.
  - unfold evaluate_propositions_h. destruct (assume_h d p (sto s)). reflexivity.
  - destruct (assume_h d p (sto s)). reflexivity.
Qed.

(* C09_frame *)
Theorem step_frame s o k :
  (forall p d i, nth_error (pool s) (operand o) = Some p -> op_dict o = Some d ->
                 In (k, i) (clabels p) -> alookup i d = None) ->
  sto (fst (step genid s o)) k = sto s k.
Proof.
  intros H. destruct (nth_error (pool s) (operand o)) as [p|] eqn:Hp.
  - rewrite (step_sto s o p Hp). destruct (op_dict o) as [d|] eqn:Hd; [|reflexivity].
    apply assume_h_frame. intros i Hin. eapply H; eauto.
  - unfold step. rewrite Hp. reflexivity.
Qed.

(* exactly what is written: the dictionary's entry *)
Theorem step_written s o k :
  sto (fst (step genid s o)) k = sto s k \/
  exists p d i, nth_error (pool s) (operand o) = Some p /\ op_dict o = Some d /\
                In (k, i) (clabels p) /\ alookup i d = Some (sto (fst (step genid s o)) k).
Proof.
  destruct (nth_error (pool s) (operand o)) as [p|] eqn:Hp.
  - rewrite (step_sto s o p Hp). destruct (op_dict o) as [d|] eqn:Hd; [|left; reflexivity].
    destruct (assume_h_written d p k (sto s)) as [E|(i & Hin & Hi)]; [left; exact E|].
    right. exists p, d, i. auto.
  - left. unfold step. rewrite Hp. reflexivity.
Qed.

Lemma step_pure s o : names_no_compound (pool s) o ->
  fst (step genid s o) = s.
Proof.
  intros Hn. destruct s as [pl σ]. unfold step. cbn [pool sto] in *.
  destruct (nth_error pl (operand o)) as [p|] eqn:Hp; [|reflexivity].
  unfold names_no_compound in Hn.
  destruct o; try reflexivity; cbn [op_dict operand] in *; specialize (Hn p Hp);
    unfold evaluate_h, evaluate_propositions_h; rewrite (assume_h_pure d p Hn σ); reflexivity.
Qed.

(* C09_pure_partial *)
Theorem run_pure s h : Forall (names_no_compound (pool s)) h ->
  fst (run genid s h) = s /\ snd (run genid s h) = fresh_outs genid s h.
Proof.
  induction 1 as [|o r Ho Hr IH]; cbn [run fresh_outs map]; [auto|].
  pose proof (step_pure s o Ho) as Hs.
  destruct (step genid s o) as [s1 x] eqn:E1. cbn [fst snd] in *. subst s1.
  destruct (run genid s r) as [s2 xs]. cbn [fst snd] in *. destruct IH as [-> ->]. auto.
Qed.

(* every single call, mutating or not, returns the pure function of what the object graph looks
   like when the call starts (the leak only shows in LATER calls) *)
Definition spec_out (o : op) (q : prop) : out :=
  match o with
  | OEvaluate _ d => RBounds (evaluate d q)
  | OEvalProps _ d => RDict (evaluate_propositions d q)
  | OAssume _ d => RProp (assume d q)
  | _ => pure_out genid o q
  end.

Lemma lid_resolve σ p : id_of (resolve σ p) = lid_of p.
Proof. destruct p; reflexivity. Qed.

Theorem step_output ι s o p : nth_error (pool s) (operand o) = Some p -> consistent ι p ->
  snd (step genid s o) = spec_out o (resolve (sto s) p).
Proof.
  intros Hp Hc. unfold step. rewrite Hp.
  destruct o; try reflexivity; cbn [spec_out];
    pose proof (assume_h_output ι d p Hc (sto s)) as Ho;
    unfold evaluate_h, evaluate_propositions_h, evaluate, evaluate_propositions;
    destruct (assume_h d p (sto s)) as [σ' r]; cbn [snd] in *; subst r; rewrite ?lid_resolve; reflexivity.
Qed.

End Hist.

(* ---------- C09_refuted: the D2 witness ---------- *)
Open Scope string_scope.
Definition d2_genid : genid_t := fun _ _ _ => "G".
Definition d2_m : lprop := LNode 0 (mk KAll) "A" false 1 2 [LVar "x" 0 1; LVar "y" 0 1].
Definition d2_s0 : state := mkState [d2_m] (fun _ => (0, 1)).
Definition d2_h : list op := [OEvaluate 0 [("A", (1, 1))]; OEvaluate 0 [("x", (0, 0)); ("y", (0, 0))]].

Lemma d2_outs : snd (run d2_genid d2_s0 d2_h) = [RBounds (Some (1, 1)); RBounds (Some (1, 1))]
             /\ fresh_outs d2_genid d2_s0 d2_h = [RBounds (Some (1, 1)); RBounds (Some (0, 0))]
             /\ sto (fst (run d2_genid d2_s0 d2_h)) 0%nat = (1, 1).
Proof. vm_compute. auto. Qed.

Theorem history_dependence_exists :
  exists (g : genid_t) (s0 : state) (h : list op),
    snd (run g s0 h) <> fresh_outs g s0 h /\ sto (fst (run g s0 h)) 0%nat <> sto s0 0%nat.
Proof.
  exists d2_genid, d2_s0, d2_h. destruct d2_outs as (E1 & E2 & E3). rewrite E1, E2, E3.
  split; intros H; discriminate H.
Qed.

(* ---------- the configurator half ---------- *)
(* after fix D3: by construction there is no state, whatever was queried before *)
Theorem crun_own_definition cfgs h n k c :
  nth_error h n = Some (CPoly k) -> nth_error cfgs k = Some c ->
  nth_error (crun cfgs h) n = Some (CRPoly (config_polyhedron c)).
Proof.
  intros Hn Hk. unfold crun. rewrite nth_error_map, Hn. cbn. rewrite Hk. reflexivity.
Qed.

(* before the fix: the two AtMost configurators of DESIGN 5.2 *)
Definition d3_c1 : prop :=
  Node (mk KStingy) "c" false 0 1 1 1 [Node (mk KAtMost) "B" false 0 1 (-1) (-1) [Var "a" 0 1; Var "b" 0 1]].
Definition d3_c2 : prop :=
  Node (mk KStingy) "c" false 0 1 1 1 [Node (mk KAtMost) "B" false 0 1 (-1) (-2) [Var "a" 0 1; Var "b" 0 1]].
(* leaf bounds (0,3) vs (1,2): Bounds.__hash__ = lower + upper *)
Definition d3_c3 : prop :=
  Node (mk KStingy) "c" false 0 1 1 1 [Node (mk KAtLeast) "B" false 0 1 1 1 [Var "a" 0 3]].
Definition d3_c4 : prop :=
  Node (mk KStingy) "c" false 0 1 1 1 [Node (mk KAtLeast) "B" false 0 1 1 1 [Var "a" 1 2]].

Theorem cache_refuted_before :
  exists cfgs h n k c, nth_error h n = Some (CPoly k) /\ nth_error cfgs k = Some c /\
    nth_error (crun_cached cfgs (mkCache [] []) h) n <> Some (CRPoly (config_polyhedron c)) /\
    nth_error (crun_cached cfgs (mkCache [] []) h) n = nth_error (crun_cached cfgs (mkCache [] []) h) 0.
Proof.
  exists [d3_c1; d3_c2], [CPoly 0; CPoly 1], 1%nat, 1%nat, d3_c2.
  repeat split; try reflexivity. vm_compute. intros H; discriminate H.
Qed.

Theorem cache_refuted_before_bounds :
  exists cfgs h n k c, nth_error h n = Some (CPoly k) /\ nth_error cfgs k = Some c /\
    nth_error (crun_cached cfgs (mkCache [] []) h) n <> Some (CRPoly (config_polyhedron c)).
Proof.
  exists [d3_c3; d3_c4], [CPoly 0; CPoly 1], 1%nat, 1%nat, d3_c4.
  repeat split; try reflexivity. vm_compute. intros H; discriminate H.
Qed.

(* and the cached model is right whenever no two configurators in the process look alike *)
Lemma cache_find_none {V} c (t : list (prop * V)) :
  Forall (fun e => same_elt (fst e) c = false) t -> cache_find c t = None.
Proof.
  unfold cache_find. induction 1 as [|e r He Hr IH]; cbn [find]; [reflexivity|]. rewrite He. exact IH.
Qed.

(* ---------- stripping the compound entries restores purity (backs the D2 classifier) ---------- *)
Lemma alookup_filter_none {B} (f : string * B -> bool) i (d : list (string * B)) :
  (forall v, f (i, v) = false) -> alookup i (filter f d) = None.
Proof.
  intros Hf. induction d as [|[k v] r IH]; cbn [filter]; [reflexivity|].
  destruct (f (k, v)) eqn:E; [|exact IH]. cbn [alookup].
  destruct (String.eqb i k) eqn:Ek; [|exact IH]. apply String.eqb_eq in Ek. subst k. rewrite Hf in E. discriminate.
Qed.

Lemma strip_dict_unnamed p d l i : In (l, i) (clabels p) -> alookup i (strip_dict p d) = None.
Proof.
  intros Hin. unfold strip_dict. apply alookup_filter_none. intros v. cbn [fst].
  apply negb_false_iff. unfold mem_str. apply existsb_exists. exists i. split; [|apply String.eqb_refl].
  apply in_map_iff. exists (l, i). auto.
Qed.

Lemma strip_operand pl o : operand (strip_op pl o) = operand o.
Proof. unfold strip_op. destruct (nth_error pl (operand o)); [|reflexivity]. destruct o; reflexivity. Qed.

Lemma strip_guard pl o : names_no_compound pl (strip_op pl o).
Proof.
  unfold names_no_compound. rewrite strip_operand. unfold strip_op.
  destruct (nth_error pl (operand o)) as [p|] eqn:Hp.
  - destruct o; cbn [op_dict]; try exact I; intros p' Hp' l i Hin;
      inversion Hp'; subst p'; eapply strip_dict_unnamed; eauto.
  - destruct (op_dict o); [|exact I]. intros p' Hp'. discriminate Hp'.
Qed.

Theorem stripped_history_pure genid s h :
  fst (run genid s (map (strip_op (pool s)) h)) = s /\
  snd (run genid s (map (strip_op (pool s)) h)) = map (fun o => snd (step genid s o)) (map (strip_op (pool s)) h).
Proof.
  apply run_pure. apply Forall_forall. intros o Ho. apply in_map_iff in Ho. destruct Ho as (o' & <- & _). apply strip_guard.
Qed.

(* ---------- statements in the spelled-out form used by Properties/C09.v ---------- *)
Theorem frame_spelled (genid : genid_t) (s : state) (o : op) (k : nat) :
  (forall p d i, nth_error (pool s) (operand o) = Some p -> op_dict o = Some d ->
                 In (k, i) (clabels p) -> alookup i d = None) ->
  sto (fst (step genid s o)) k = sto s k /\ pool (fst (step genid s o)) = pool s.
Proof. intros H. split; [apply step_frame; exact H|apply step_pool]. Qed.

Theorem pure_spelled (genid : genid_t) (s : state) (h : list op) :
  Forall (fun o => forall d p l i, op_dict o = Some d -> nth_error (pool s) (operand o) = Some p ->
                                   In (l, i) (clabels p) -> alookup i d = None) h ->
  fst (run genid s h) = s /\ snd (run genid s h) = map (fun o => snd (step genid s o)) h.
Proof.
  intros H. apply run_pure. rewrite Forall_forall in *. intros o Ho. specialize (H o Ho).
  unfold names_no_compound. destruct (op_dict o) as [d|] eqn:Hd; [|exact I].
  intros p Hp l i Hin. eapply H; eauto.
Qed.

Theorem refuted_spelled :
  exists (genid : genid_t) (s0 : state) (h : list op),
    snd (run genid s0 h) <> map (fun o => snd (step genid s0 o)) h /\
    sto (fst (run genid s0 h)) 0%nat <> sto s0 0%nat.
Proof. exact history_dependence_exists. Qed.

(* non-vacuity material: two objects sharing the sub-proposition object with label 1, a history
   of leaf-only dictionaries *)
Definition nv_shared : lprop := LNode 1 (mk KAny) "B" false 1 1 [LVar "a" 0 1; LVar "b" (-2) 3].
Definition nv_pool : list lprop :=
  [LNode 0 (mk KAll) "A" false 1 2 [nv_shared; LVar "x" 0 1];
   LNode 2 (mk KAtMost) "C" false (-1) (-1) [nv_shared; LVar "y" 0 1]].
Definition nv_s0 : state := mkState nv_pool (fun _ => (0, 1)).
Definition nv_h : list op :=
  [OEvaluate 0 [("a", (1, 1)); ("b", (0, 0)); ("x", (1, 1))]; OEvalProps 1 [("b", (0, 0)); ("a", (0, 0))];
   OAssume 0 [("x", (0, 0))]; OReduce 1; ONegate 0; OEvaluate 1 [("a", (1, 1)); ("b", (1, 3)); ("y", (1, 1))];
   OErrors 0; OPoly 1 false; OEvaluate 0 [("a", (1, 1)); ("b", (0, 0)); ("x", (1, 1))]].
Lemma nv_guard : Forall (fun o => forall d p l i, op_dict o = Some d -> nth_error (pool nv_s0) (operand o) = Some p ->
                                   In (l, i) (clabels p) -> alookup i d = None) nv_h.
Proof.
  assert (G : forallb (names_no_compound_b nv_pool) nv_h = true) by (vm_compute; reflexivity).
  rewrite forallb_forall in G. apply Forall_forall. intros o Ho d p l i Hd Hp Hin.
  specialize (G o Ho). unfold names_no_compound_b in G. cbn [pool nv_s0] in Hp. rewrite Hd, Hp in G.
  rewrite forallb_forall in G. specialize (G (l, i) Hin). cbn [snd] in G.
  destruct (alookup i d); [discriminate|reflexivity].
Qed.
