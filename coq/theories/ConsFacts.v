(* ConsFacts.v — the connectives have their documented truth functions (C04). *)
Require Import Puan.Base Puan.Plog Puan.Sem Puan.SemFacts Puan.AssumeFacts Puan.NegateFacts Puan.Cons.

(* the documented truth function of a constructor tree (values are 0/1 as Z) *)
Definition count (vals : list Z) : Z := zsum vals.
Fixpoint fsem (env : ident -> Z) (f : form) : Z :=
  match f with
  | FLeaf i _ _ => env i
  | FAtLeast _ v s l =>
      let sg := match s with Some s => s | None => default_sign v end in
      b2z (v <=? sg * count (map (fsem env) l))              (* positive sign: at least v are true *)
  | FAtMost _ v l => b2z (count (map (fsem env) l) <=? v)    (* at most v are true *)
  | FAll _ l | FStingy _ l => b2z (forallb (fun x => fsem env x =? 1) l)
  | FAny _ l | FCcAny _ _ l => b2z (existsb (fun x => fsem env x =? 1) l)
  | FXor _ l | FCcXor _ _ l => b2z (count (map (fsem env) l) =? 1)
  | FXNor _ l => b2z (negb (count (map (fsem env) l) =? 1))
  | FImply _ a b => b2z (negb (fsem env a =? 1) || (fsem env b =? 1))
  | FNot a => 1 - fsem env a
  end.

(* destruct an `if` whose condition contains no further `if` (innermost first) *)
Ltac case_leaf_if :=
  match goal with
  | |- context [if ?c then _ else _] =>
      lazymatch c with context [if _ then _ else _] => fail | _ => destruct c eqn:? end
  end.

Section C.
Variable genid : genid_t.
Variable env : ident -> Z.
Hypothesis Hbenv : forall i, env i = 0 \/ env i = 1.

(* well-formed plog formula over boolean leaves: signs are +-1 when given; All's set of arguments
   does not merge two arguments (true whenever sibling ids are distinct — validation rejects
   the rest); the configurator classes are outside C04 *)
Fixpoint wf (f : form) : Prop :=
  match f with
  | FLeaf _ lo hi => lo = 0 /\ hi = 1
  | FAtLeast _ _ s l => (s = None \/ s = Some 1 \/ s = Some (-1)) /\ (fix go l := match l with [] => True | x :: xs => wf x /\ go xs end) l
  | FAtMost _ _ l | FAny _ l | FXor _ l | FXNor _ l => (fix go l := match l with [] => True | x :: xs => wf x /\ go xs end) l
  | FAll _ l => set_len (map (build genid) l) = Z.of_nat (List.length l) /\ (fix go l := match l with [] => True | x :: xs => wf x /\ go xs end) l
  | FImply _ a b => wf a /\ wf b
  | FNot a => wf a
  | FCcAny _ _ _ | FCcXor _ _ _ | FStingy _ _ => False
  end.
Lemma wf_list l : (fix go l := match l with [] => True | x :: xs => wf x /\ go xs end) l <-> Forall wf l.
Proof. split; intros H; [induction l as [|x xs IH]; constructor; destruct H; auto | induction H; cbn; auto]. Qed.

Lemma negate_ok p : ok env p -> ok env (negate genid p).
Proof.
  induction p as [i lo hi | m i g lo hi s v ch0 IH] using prop_ind'; intros Hok; [exact Hok|].
  apply ok_node_forall in Hok. destruct Hok as [Hs Hch].
  cbn [negate]. rewrite pairs_fst. set (ch := py_sorted id_of ch0).
  assert (Hperm : Permutation ch ch0) by apply py_sorted_perm.
  assert (Hchs : Forall (ok env) ch) by (apply Forall_forall; intros c Hc; rewrite Forall_forall in Hch; apply Hch; eapply Permutation_in; eauto).
  case_if.
  - apply ok_node_forall. split; [auto|]. apply Forall_app. split.
    + apply Forall_forall. intros r Hr. apply in_flat_map in Hr. destruct Hr as ([c nc] & Hpc & Hr).
      apply (Permutation_in _ (py_sorted_perm pkey _)) in Hpc. apply in_map_iff in Hpc. destruct Hpc as (c' & Heq & Hc'). inversion Heq; subst.
      cbn [fst snd] in Hr. destruct (is_var c); [destruct Hr|]. destruct Hr as [<-|[]]. rewrite Forall_forall in *. auto.
    + case_if; [constructor|]. apply Forall_forall. intros r Hr. apply in_map_iff in Hr. destruct Hr as (t & <- & _).
      cbn [negate_flat]. apply ok_node_forall. split; [right; reflexivity|].
      apply Forall_forall. intros a Ha. unfold atoms in Ha. apply filter_In in Ha. rewrite Forall_forall in Hchs. apply Hchs. tauto.
  - apply ok_node_forall. split; [destruct Hs as [-> | ->]; auto|exact Hchs].
Qed.

Lemma eval_mk_node m v args o sarg :
  eval env (mk_node genid m v args o sarg) =
  if v <=? (match sarg with Some s => s | None => default_sign v end) * zsum (map (eval env) args) then 1 else 0.
Proof. unfold mk_node. destruct o as [[i [lo hi]]|]; cbn [eval]; rewrite sorted_sum; reflexivity. Qed.
Lemma ok_mk_node m v args o sarg : (sarg = None \/ sarg = Some 1 \/ sarg = Some (-1)) -> Forall (ok env) args ->
  ok env (mk_node genid m v args o sarg).
Proof.
  intros Hs Hargs. assert (Hsg : (match sarg with Some s => s | None => default_sign v end) = 1 \/ (match sarg with Some s => s | None => default_sign v end) = -1).
  { destruct Hs as [-> | [-> | ->]]; auto. unfold default_sign. case_if; auto. }
  assert (Hch : Forall (ok env) (py_sorted id_of args)).
  { apply Forall_forall. intros c Hc. rewrite Forall_forall in Hargs. apply Hargs. eapply Permutation_in; [apply py_sorted_perm|exact Hc]. }
  unfold mk_node. destruct o as [[i [lo hi]]|]; apply ok_node_forall; auto.
Qed.
Lemma is_var_mk_node m v args o sarg : is_var (mk_node genid m v args o sarg) = false.
Proof. unfold mk_node. destruct o as [[i [lo hi]]|]; reflexivity. Qed.

Lemma fsem_01 f : wf f -> fsem env f = 0 \/ fsem env f = 1.
Proof.
  induction f using form_ind'; cbn [fsem wf]; intros Hw; try apply b2z_01; try (destruct Hw; fail).
  - apply Hbenv.
  - specialize (IHf Hw). lia.
Qed.

(* 0/1 sums *)
Lemma sum01 (g : form -> Z) l : Forall (fun x => g x = 0 \/ g x = 1) l ->
  0 <= zsum (map g l) <= Z.of_nat (List.length l) /\
  (zsum (map g l) = Z.of_nat (List.length l) <-> forallb (fun x => g x =? 1) l = true) /\
  (1 <= zsum (map g l) <-> existsb (fun x => g x =? 1) l = true).
Proof.
  induction 1 as [|x xs Hx Hxs IH]; cbn [map zsum List.length forallb existsb].
  - split; [lia|]. split; split; intros; try lia; try reflexivity; discriminate.
  - destruct IH as (Hb & Hall & Hany). rewrite Nat2Z.inj_succ.
    split; [lia|]. split.
    + destruct Hx as [Hx|Hx]; rewrite Hx; [change (0 =? 1) with false | change (1 =? 1) with true]; cbn [andb].
      * split; intros H; [lia|discriminate].
      * rewrite <- Hall. lia.
    + destruct Hx as [Hx|Hx]; rewrite Hx; [change (0 =? 1) with false | change (1 =? 1) with true]; cbn [orb].
      * rewrite <- Hany. lia.
      * split; intros H; [reflexivity|lia].
Qed.

Lemma set_len2 a b : same_elt b a = false -> set_len [a; b] = 2.
Proof. intros _. reflexivity. Qed.
Lemma set_len1 a : set_len [a] = 1.
Proof. reflexivity. Qed.
Lemma same_elt_sign m i g lo hi s v ch m' i' g' lo' hi' s' v' ch' : s <> s' ->
  same_elt (Node m i g lo hi s v ch) (Node m' i' g' lo' hi' s' v' ch') = false.
Proof.
  intros Hs. unfold same_elt. cbn [hkey_of hkey_eqb].
  destruct (String.eqb i i'); cbn [andb]; [|reflexivity]. destruct (bsum lo hi =? bsum lo' hi'); cbn [andb]; [|reflexivity].
  assert ((s =? s') = false) as -> by lia. reflexivity.
Qed.

Lemma Forall_wf_map l : Forall wf l ->
  Forall (fun f => wf f -> eval env (build genid f) = fsem env f /\ ok env (build genid f)) l ->
  map (eval env) (map (build genid) l) = map (fsem env) l /\ Forall (ok env) (map (build genid) l)
  /\ Forall (fun x => fsem env x = 0 \/ fsem env x = 1) l.
Proof.
  intros Hw IH. induction Hw as [|x xs Hx Hxs IHl]; cbn [map]; [repeat split; constructor|].
  inversion IH as [|? ? H1 H2]; subst. destruct (H1 Hx) as [He Ho]. destruct (IHl H2) as (Hm & Hk & H01).
  rewrite He, Hm. repeat split; constructor; auto. apply fsem_01; auto.
Qed.

Lemma is_var_negate p : is_var (negate genid p) = is_var p.
Proof. destruct p; [reflexivity|]. cbn [negate]. case_if; reflexivity. Qed.
Lemma is_var_set_meta m p : is_var (set_meta m p) = is_var p.
Proof. destruct p; reflexivity. Qed.
Lemma is_var_as_comp p : is_var (as_comp genid p) = false.
Proof. unfold as_comp. destruct (is_var p) eqn:E; [apply is_var_mk_node|exact E]. Qed.
Lemma is_var_ccany o d args : is_var (c_ccany genid o d args) = false.
Proof. unfold c_ccany. destruct d as [|[d0 b] ds]; [apply is_var_mk_node|]. repeat case_if; apply is_var_mk_node. Qed.
Lemma build_var_leaf f : is_var (build genid f) = true -> exists i lo hi, f = FLeaf i lo hi.
Proof.
  destruct f; cbn [build]; intros H;
    try (unfold c_atleast, c_atmost, c_all, c_any, c_xor_m, c_xnor, c_stingy, c_all_m, c_any_m in H; rewrite is_var_mk_node in H; discriminate).
  - eauto.
  - unfold c_imply in H. cbv zeta in H. rewrite is_var_set_meta in H. unfold c_any_m in H. rewrite is_var_mk_node in H. discriminate.
  - unfold c_not in H. rewrite is_var_negate, is_var_as_comp in H. discriminate.
  - rewrite is_var_ccany in H. discriminate.
  - unfold c_ccxor in H. destruct d; [unfold c_xor_m, c_all_m in H; rewrite is_var_mk_node in H; discriminate|].
    unfold c_xor_m, c_all_m, mk_node in H. destruct o as [[? [? ?]]|]; discriminate.
Qed.

Lemma as_comp_sem p : ok env p -> (is_var p = true -> lo_of p = 0 /\ hi_of p = 1) ->
  eval env (as_comp genid p) = eval env p /\ ok env (as_comp genid p) /\ is_var (as_comp genid p) = false.
Proof.
  intros Hok Hb. unfold as_comp. destruct (is_var p) eqn:E; [|auto].
  unfold c_all, c_all_m. rewrite eval_mk_node, is_var_mk_node, set_len1. cbn [map zsum default_sign].
  split; [|split; [apply ok_mk_node; auto|reflexivity]].
  destruct p as [i lo hi|]; [|discriminate]. cbn [eval ok lo_of hi_of] in *. destruct (Hb eq_refl) as [-> ->].
  change (default_sign 1) with 1. case_if; lia.
Qed.

Theorem build_sem f : wf f -> eval env (build genid f) = fsem env f /\ ok env (build genid f).
Proof.
  induction f as [i lo hi | o v s l IH | o v l IH | o l IH | o l IH | o l IH | o l IH | o a b IHa IHb | a IHa | o d l IH | o d l IH | o l IH] using form_ind';
    cbn [wf]; intros Hw; try (destruct Hw; fail).
  - destruct Hw as [-> ->]. cbn [build eval fsem ok]. split; [reflexivity|]. destruct (Hbenv i); lia.
  - destruct Hw as [Hs Hw]. apply wf_list in Hw. destruct (Forall_wf_map l Hw IH) as (Hm & Hk & H01).
    cbn [build fsem]. unfold c_atleast. rewrite eval_mk_node, Hm. split; [unfold b2z, count; reflexivity|apply ok_mk_node; auto].
  - apply wf_list in Hw. destruct (Forall_wf_map l Hw IH) as (Hm & Hk & H01).
    cbn [build fsem]. unfold c_atmost. rewrite eval_mk_node, Hm. split; [|apply ok_mk_node; auto].
    unfold b2z, count. repeat case_if; lia.
  - destruct Hw as [Hset Hw]. apply wf_list in Hw. destruct (Forall_wf_map l Hw IH) as (Hm & Hk & H01).
    cbn [build fsem]. unfold c_all, c_all_m. rewrite eval_mk_node, Hm, Hset. split; [|apply ok_mk_node; auto].
    destruct (sum01 (fsem env) l H01) as (Hb & Hall & _). unfold default_sign, b2z.
    destruct (0 <? Z.of_nat (List.length l)) eqn:E0;
      destruct (forallb (fun x => fsem env x =? 1) l) eqn:Ef; case_if; try lia.
  - apply wf_list in Hw. destruct (Forall_wf_map l Hw IH) as (Hm & Hk & H01).
    cbn [build fsem]. unfold c_any, c_any_m. rewrite eval_mk_node, Hm. split; [|apply ok_mk_node; auto].
    destruct (sum01 (fsem env) l H01) as (Hb & _ & Hany). unfold default_sign, b2z. change (0 <? 1) with true. cbn iota.
    destruct (existsb (fun x => fsem env x =? 1) l) eqn:Ef; case_if; try lia.
  - (* Xor *) apply wf_list in Hw. destruct (Forall_wf_map l Hw IH) as (Hm & Hk & H01).
    cbn [build fsem]. unfold c_xor_m, c_all_m.
    assert (Hlen : set_len [c_atleast genid None 1 None (map (build genid) l); c_atmost genid None 1 (map (build genid) l)] = 2).
    { apply set_len2. unfold c_atleast, c_atmost, mk_node. apply same_elt_sign. cbn. lia. }
    rewrite eval_mk_node, Hlen. cbn [map zsum]. unfold c_atleast, c_atmost. rewrite !eval_mk_node, Hm.
    split; [|apply ok_mk_node; auto; apply Forall_cons; [apply ok_mk_node; auto | apply Forall_cons; [apply ok_mk_node; auto | apply Forall_nil]]].
    change (default_sign 2) with 1. change (default_sign 1) with 1. unfold b2z, count. repeat case_leaf_if; lia.
  - (* XNor *) apply wf_list in Hw. destruct (Forall_wf_map l Hw IH) as (Hm & Hk & H01).
    cbn [build fsem]. unfold c_xnor, c_any_m.
    assert (Ho1 : ok env (c_atleast genid None 1 None (map (build genid) l))) by (apply ok_mk_node; auto).
    assert (Ho2 : ok env (c_atmost genid None 1 (map (build genid) l))) by (apply ok_mk_node; auto).
    rewrite eval_mk_node. cbn [map zsum]. rewrite !negate_complement by (auto; apply is_var_mk_node).
    unfold c_atleast, c_atmost. rewrite !eval_mk_node, Hm.
    split; [|apply ok_mk_node; auto; apply Forall_cons; [apply negate_ok; auto | apply Forall_cons; [apply negate_ok; auto | apply Forall_nil]]].
    change (default_sign 1) with 1. unfold b2z, count. cbn [negb]. repeat case_leaf_if; cbn [negb]; lia.
  - (* Imply *) destruct Hw as [Hwa Hwb]. destruct (IHa Hwa) as [Hea Hoa]. destruct (IHb Hwb) as [Heb Hob].
    cbn [build fsem]. unfold c_imply.
    assert (Hvb : is_var (build genid a) = true -> lo_of (build genid a) = 0 /\ hi_of (build genid a) = 1).
    { intros Hv. destruct (build_var_leaf a Hv) as (i & lo & hi & ->). cbn [wf build lo_of hi_of] in *. tauto. }
    destruct (as_comp_sem (build genid a) Hoa Hvb) as (Hec & Hoc & Hvc).
    set (r := c_any_m genid (mk KImply) o [negate genid (as_comp genid (build genid a)); build genid b]).
    assert (Her : eval env r = b2z (negb (fsem env a =? 1) || (fsem env b =? 1)) /\ ok env r).
    { unfold r, c_any_m. rewrite eval_mk_node. cbn [map zsum]. rewrite negate_complement by auto. rewrite Hec, Hea, Heb.
      split; [|apply ok_mk_node; auto; apply Forall_cons; [apply negate_ok; auto | apply Forall_cons; [auto | apply Forall_nil]]].
      destruct (fsem_01 a Hwa) as [-> | ->]; destruct (fsem_01 b Hwb) as [-> | ->]; reflexivity. }
    destruct Her as [Her Hor]. unfold r in *. clear r.
    destruct (c_any_m genid (mk KImply) o [negate genid (as_comp genid (build genid a)); build genid b]) eqn:Er; cbn [set_meta]; [auto|].
    cbn [eval] in *. split; [exact Her|]. apply ok_node_forall in Hor. apply ok_node_forall. exact Hor.
  - (* Not *) destruct (IHa Hw) as [Hea Hoa]. cbn [build fsem]. unfold c_not.
    assert (Hvb : is_var (build genid a) = true -> lo_of (build genid a) = 0 /\ hi_of (build genid a) = 1).
    { intros Hv. destruct (build_var_leaf a Hv) as (i & lo & hi & ->). cbn [wf build lo_of hi_of] in *. tauto. }
    destruct (as_comp_sem (build genid a) Hoa Hvb) as (Hec & Hoc & Hvc).
    rewrite negate_complement by auto. rewrite Hec, Hea. split; [reflexivity|apply negate_ok; auto].
Qed.
End C.
