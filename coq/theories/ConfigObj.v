(* ConfigObj.v — executable model of the configurator's objective side (C14):
   cc.Any / cc.Xor constructors (which branch is tagged with prio -2),
   StingyConfigurator.default_prios, ge_polyhedron.default_prio_vector, the user priority
   rows and the objectives handed to the solver by select().  Model only, no proofs.
   Propositions, flatten() and the column order come from Puan.Plog (imported read-only). *)
Require Import Puan.Base Puan.Plog Puan.Compress.

(* ---------------------------------------------------------------- constructors *)
Section Ctors.
Variable genid : genid_t.

(* `x == _default` in cc.Any.__init__: atoms (str or puan.variable) compare by id, compound
   propositions are never equal to a string *)
Definition is_default (d : ident) (x : prop) : bool := is_var x && String.eqb (id_of x) d.
Definition ccany_meta (default : list (ident * (Z * Z))) : meta := mkMeta KCcAny None default 0.
Definition inner_meta : meta := mkMeta KAny (Some (-2)) [] 0.

(* cc.Any( *args, default=default, variable=idarg).  args: str arguments already turned into
   boolean variables and listed after the non-str ones (what AtLeast.__init__ does). *)
Definition cc_any (args : list prop) (default : list (ident * (Z * Z))) (idarg : option (ident * (Z * Z))) : prop :=
  let plain := mk_node genid (ccany_meta default) 1 args idarg None in
  match default with
  | [] => plain
  | (d, _) :: _ =>
      if (1 <? List.length args)%nat then
        let complement := filter (fun x => negb (is_default d x)) args in
        if (List.length complement =? List.length args)%nat || (List.length complement =? 0)%nat then plain
        else
          let inner := mk_node genid inner_meta 1 complement None None in
          mk_node genid (ccany_meta default) 1 (filter (is_default d) args ++ [inner]) idarg None
      else plain
  end.

(* cc.Xor( *args, default=default, variable=idarg) = All(AtLeast(1,args), AtMost(1,args)); with a
   default the AtLeast(1,..) child is replaced by cc.Any over its (already sorted) children,
   keeping its variable (so its id is no longer flagged as generated). *)
Definition replace_first (f : prop -> bool) (g : prop -> prop) : list prop -> list prop :=
  fix go l := match l with [] => [] | x :: xs => if f x then g x :: xs else x :: go xs end.
Definition cc_xor (args : list prop) (default : list (ident * (Z * Z))) (idarg : option (ident * (Z * Z))) : prop :=
  let al := mk_node genid m0 1 args None None in
  let am := mk_node genid (mk KAtMost) (-1) args None (Some (-1)) in
  let top := mk_node genid (mkMeta KCcXor None default 0) 2 [al; am] idarg None in
  match default, top with
  | _ :: _, Node m i g lo hi s v ch =>
      Node m i g lo hi s v
        (replace_first (fun c => value_of c =? 1)
                       (fun c => cc_any (children c) default (Some (id_of c, (lo_of c, hi_of c)))) ch)
  | _, _ => top
  end.
End Ctors.

(* ---------------------------------------------------------------- default priorities *)
(* getattr(p, "prio", -1) *)
Definition prio_of (p : prop) : Z := match m_prio (meta_of p) with Some z => z | None => -1 end.
(* every node and leaf of the tree, with repetitions *)
Fixpoint tree_nodes (p : prop) : list prop :=
  p :: match p with Var _ _ _ => [] | Node _ _ _ _ _ _ _ ch => flat_map tree_nodes ch end.
(* the tag of an id: the smallest `prio` over EVERY occurrence of the id in the tree, at most -1
   (flatten() keeps one object per id/hash, possibly an untagged twin of a tagged node) *)
Definition tag_of (p : prop) (i : ident) : Z :=
  fold_left Z.min (map prio_of (filter (fun q => String.eqb (id_of q) i) (tree_nodes p))) (-1).
(* StingyConfigurator.default_prios: dict(zip(ids of flatten(), tags)) — later entries win *)
Definition default_prios (p : prop) : list (ident * Z) := map (fun q => (id_of q, tag_of p (id_of q))) (flatten p).
Definition dict_get (d : list (ident * Z)) (k : ident) (dflt : Z) : Z :=
  match alookup_last k d with Some v => v | None => dflt end.
(* ge_polyhedron.default_prio_vector = A.construct(default_prios): the value of the column's
   id, the variable's lower bound when the id is missing *)
Definition default_prio_vector (p : prop) : list Z :=
  map (fun c => dict_get (default_prios p) (fst c) (fst (snd c))) (columns true p).
(* one user priority dictionary laid out over the columns: dict.get(id, 0) *)
Definition prio_row (p : prop) (d : list (ident * Z)) : list Z :=
  map (fun c => dict_get d (fst c) 0) (columns true p).
(* the `objectives` argument select() passes to the solver, one vector per dictionary *)
Definition select_objectives (p : prop) (ds : list (list (ident * Z))) : option nd :=
  vectors_from_prios (default_prio_vector p) (map (prio_row p) ds).
