#!/bin/bash
# developer helper: (re)generate the Makefile when the .v set changed, then make the given targets
cd "$(dirname "$0")"
mkdir -p ../work
exec 9>../work/.build.lock
flock 9
find theories -name '*.v' | sort > .vfiles.new
if ! cmp -s .vfiles.new .vfiles || [ ! -f Makefile ]; then
  mv .vfiles.new .vfiles
  coq_makefile -f _CoqProject -o Makefile $(cat .vfiles) > /dev/null
else rm -f .vfiles.new; fi
timeout 1500 make -k -j16 "$@" 2>&1 | grep -v "^COQC\|^COQDEP\|^Closed under"
