#!/bin/bash
# Build the Coq development from clean (offline). Used as MANIFEST.setup_cmd.
set -e
cd "$(dirname "$0")/coq"
coq_makefile -f _CoqProject -o Makefile $(find theories -name '*.v' | sort) > /dev/null
timeout 3000 make -j16 > /tmp/verif_setup.log 2>&1 || { tail -50 /tmp/verif_setup.log; exit 1; }
grep -c "Closed under the global context" /tmp/verif_setup.log || true
rm -f /tmp/verif_setup.log
