#!/bin/bash
# Build the Coq development from clean (offline). Used as MANIFEST.setup_cmd.
set -e
cd "$(dirname "$0")/coq"
find theories -name '*.v' | sort > .vfiles
coq_makefile -f _CoqProject -o Makefile $(cat .vfiles) > /dev/null
LOG=$(mktemp)
timeout 3000 make -j16 > "$LOG" 2>&1 || { tail -50 "$LOG"; rm -f "$LOG"; exit 1; }
echo "built $(wc -l < .vfiles) files; closed theorems: $(grep -c 'Closed under the global context' "$LOG" || true)"
rm -f "$LOG"
