#!/bin/bash
# developer helper: re-run every seeded change against the CURRENT /repo HEAD, 4 at a time, each on its own scratch copy of
# /repo (patch applied there; PUAN_REPO points the check at it); one line per seed in seeded/recheck_<head>.log
cd /verif
HEAD=$(git -C /repo rev-parse --short HEAD)
export LOG=/verif/seeded/recheck_$HEAD${VERIF_SEED:+_seed$VERIF_SEED}.log; : > $LOG
one() {
  n=$1; d=/verif/seeded/$n
  p=$(/venv/bin/python -c "import json;print(json.load(open('$d/meta.json')).get('property',''))")
  [ -n "$p" ] || exit 0
  S=/root/scratch/rc_$n; rm -rf $S; mkdir -p $S/repo $S/work/evidence
  rsync -a --exclude .git --exclude .hypothesis --exclude __pycache__ /repo/ $S/repo/
  if (cd $S/repo && git apply --unsafe-paths --directory=$S/repo $d/patch.diff 2>/dev/null || patch -p1 -s < $d/patch.diff); then
    VERIF_WORK=$S/work VERIF_EVIDENCE=$S/work/evidence PUAN_REPO=$S/repo timeout 1500 harness/run.py --property $p --tier quick > $S/out 2>&1; rc=$?
    v=$(grep -a '^VIOLATION' $S/out | head -1)
    echo "$n ($p) exit=$rc ${v:-no-violation-line}" >> $LOG
  else
    echo "$n ($p) PATCH-DOES-NOT-APPLY" >> $LOG
  fi
  rm -rf $S
}
export -f one
ls seeded | grep '^C[0-9]' | xargs -P 6 -I{} bash -c 'one {}'
sort $LOG -o $LOG
echo "HEAD $HEAD: $(grep -c 'exit=1 VIOLATION' $LOG) of $(wc -l < $LOG) seeded changes reported; not reported: $(grep -v 'exit=1 VIOLATION' $LOG | tr '\n' ' ')"
