#!/bin/bash
# developer helper: for every seeded change apply patch.diff to /repo, run the property's quick check, undo; record in seeded/<name>/applied.out
cd /verif
for d in seeded/*/; do
  n=$(basename $d); p=$(/venv/bin/python -c "import json;print(json.load(open('$d/meta.json')).get('property',''))"); [ -n "$p" ] || continue
  if git -C /repo apply --check $PWD/$d/patch.diff 2>/dev/null; then
    git -C /repo apply $PWD/$d/patch.diff
    harness/run.py --property $p --tier quick > $d/applied.out 2>&1; rc=$?
    git -C /repo checkout -- . ; echo "exit=$rc" >> $d/applied.out
    echo "$n ($p): applied to /repo, check exit=$rc $(grep -c '^VIOLATION' $d/applied.out) violation line(s)"
  else
    echo "$n ($p): patch does not apply to the current HEAD (made before a later fix commit)" | tee $d/applied.out
  fi
done
git -C /repo status --short | head
