#!/venv/bin/python
"""tools/seed_meta.py <name> <property> <needs...>  — writes seeded/<name>/meta.json from the outputs of try_seed.sh"""
import sys, json, os, re
name, prop, needs = sys.argv[1], sys.argv[2], " ".join(sys.argv[3:])
d = f"/verif/seeded/{name}"
def rd(f):
    try: return open(os.path.join(d, f), errors="replace").read()
    except Exception: return ""
chk = rd("check_quick.out")
meta = {
 "property": prop, "name": name, "needs_to_manifest": needs,
 "files": {"patch": "patch.diff", "demonstration": "demo.py", "author_notes": "notes.md"},
 "confirmed": {
   "demo_on_changed_tree_exit": (re.findall(r"exit=(\d+)", rd("demo_changed.out")) or ["?"])[-1],
   "demo_on_unchanged_tree_exit": (re.findall(r"exit=(\d+)", rd("demo_unchanged.out")) or ["?"])[-1],
   "suite_on_changed_tree": rd("suite_changed.out").strip().splitlines()[-1:] },
 "what_was_run": [f"PYTHONPATH=<worktree> /venv/bin/python seeded/{name}/demo.py  (changed: must exit 1; unchanged /repo: must exit 0)",
                  "/root/scratch/rt.sh <worktree>  (baseline suite on a copy of the changed tree: the 125 stable tests must pass)",
                  f"PUAN_REPO=<worktree> harness/run.py --property {prop} --tier quick"],
 "check_result": {"exit": (re.findall(r"exit=(\d+)", chk) or ["?"])[-1],
                  "violation_lines": [l[:300] for l in chk.splitlines() if l.startswith("VIOLATION")][:3],
                  "summary": [l[:300] for l in chk.splitlines() if l.startswith("[")][:1],
                  "first_reports": [l.strip()[:400] for l in chk.splitlines() if l.strip().startswith("- ")][:3]},
}
json.dump(meta, open(os.path.join(d, "meta.json"), "w"), indent=1)
print(json.dumps(meta["check_result"], indent=1)[:600])
