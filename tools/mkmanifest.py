#!/venv/bin/python
"""Regenerates MANIFEST.json from the table below (developer tool; not used by the checks)."""
import json, os
HERE = os.path.dirname(os.path.dirname(os.path.abspath(__file__)))
NOTE = "trusted: Coq 8.16.1 kernel (coqc; coqchk in thorough), hand-written Gallina model tied to /repo by the correspondence check, harness printer/id oracle; no axioms (Print Assumptions audited on every run)"
TECH = "Coq proof (structural induction over proposition trees / lists + lia) with vm_compute correspondence against the implementation and a direct oracle for replays"
P = {
 "C01": ("Coq theorems C01_encoding_agrees / C01_active / C01_inactive / C01_dense over the model of to_ge_polyhedron incl. the puan-rspy big-M row generation, for every tree, all integer bounds, every in-bounds assignment; model tied to /repo by exact comparison of columns, bounds and rows of to_ge_polyhedron(active) on generated validated models, plus a direct evaluation oracle", "6 (C01)"),
 "C02": ("Coq theorems C02_complete / C02_sound / C02_sound_dense / C02_sound_validated (soundness of the polyhedron as handed out, from validation) / C02_columns_validated / C02_columns_distinct / C02_negate_safe / C02_negate_reestablishes / C02_constructors_keep_safe_form (+ example that the solver-safe guard is needed) for every tree and every in-bounds integer point; correspondence as C01 plus CorrSafe.check_safe; oracle enumerates all integer points of small polyhedra, samples false leaf assignments x all auxiliary 0/1 extensions of large ones", "6 (C02)"),
 "C03": ("Coq theorems C03_nodes / C03_complete / C03_top / C03_truth_function / C03_evaluate / C03_childless (a compound without sub-propositions is the constant [value <= 0]) over the model of assume/flatten/evaluate_propositions/evaluate for every tree and total interpretation with overrides; correspondence on evaluate_propositions/evaluate outputs; oracle = independent arithmetic truth function", "6 (C03)"),
 "C04": ("Coq theorems C04_truth_functions / C04_truth_functions_every_formula (no side condition since fix D16) / C04_rule_dictionary on the truth functions of the constructors (All/Any/AtLeast/AtMost/Xor/XNor/Imply/Not, nested, JSON, list and rule-dictionary constructors) over boolean leaves; correspondence on constructor outputs; oracle exhaustive over small formulas x all 0/1 assignments, validated or not", "6 (C04)"),
 "C05": ("Coq theorems C05_complement / C05_safe / C05_id / C05_not_compound / C05_not_atom over the model of AtLeast.negate and Not(...) for every tree, all integer bounds, every id generator; model tied to /repo by a structural correspondence check of negate() on generated validated models plus a direct complement oracle", "6 (C05)"),
 "C06": ("Coq theorems C06_sound / C06_assume_nodes / C06_tautology / C06_contradiction / C06_equation_bounds_exact for every tree, every partial/interval interpretation and every completion; correspondence on evaluate_propositions and the three flags; oracle = random completions + brute-force boxes", "6 (C06)"),
 "C07": ("Coq theorems C07_value / C07_evaluate / C07_bounds (assume then evaluate = evaluate on the union) for every tree, assumption and compatible further interpretation; correspondence on assume() output structure; oracle on fresh objects", "6 (C07)"),
 "C08": ("Coq theorems C08_sem / C08_clean / C08_after_assume (reduce(assume d p) means p under d) over the model of reduce for every tree; correspondence on reduce() output structure (directly and after assume); oracle over interpretations of the free leaves", "6 (C08)"),
 "C09": ("Coq theorems C09_frame / C09_pure_partial (+ C09_refuted: finding D2) over a label-threaded store model of the one mutable field, C09_cache for the configurator; correspondence on random histories; oracle compares every answer with a freshly built clone (known finding D2 classified)", "6 (C09)"),
 "C10": ("Coq theorems C10_sound_partial / C10_tree / C10_share / C10_flatten_distinct_ids / C10_one_validation_model (+ C10_sound_refuted: finding D4) over the model of errors(); correspondence on adversarial models; oracle = independent well-definedness checker", "6 (C10)"),
 "C11": ("Coq theorems on reducable_rows / reducable_columns_approx / reducable_rows_and_columns / reduce over the list-matrix model of ge_polyhedron: solution set preserved (projection, both inclusions); correspondence on every method; oracle = exact enumeration of small systems", "6 (C11)"),
 "C12": ("Coq theorems on tighten_column_bounds (sound, empty, no widening), row_bounds (exact, attained), n_row_combinations; correspondence + exact enumeration oracle", "6 (C12)"),
 "C13": ("Coq theorems on the model of ndint_compress (shadow: sign/zero, ties, order, strict dominance for unbounded Z; prio/rank/first/last/min/max) incl. the modelled puan-rspy bit allocation; correspondence on all methods x shapes x axes; independent-definition oracle", "6 (C13)"),
 "C14": ("Coq theorems C14_lex / C14_default_cost / structure of the default priority vector, derived from C13 dominance; correspondence on default_prios and the objective vectors seen by a recording solver; oracle over all pairs of feasible 0/1 points of small configurators", "6 (C14)"),
 "C15": ("Coq theorems C15_objective / C15_decode / C15_none / C15_exact / C15_exact_puan / C15_exact_validated (abstract exact solver, composed with C02 soundness and C10); correspondence on what a recording solver receives and on decoded dictionaries; brute-force exact solver oracle", "6 (C15)"),
 "C16": ("Coq theorems on to_json/from_json of every class (semantic round trip, leaves, explicit ids kept / generated ids not emitted, configurator defaults) (+ refutation for finding D6; C16_guards_hold: the merge guards hold for every document since fix D16); correspondence on JSON documents and round-tripped structures; evaluation oracle", "6 (C16)"),
 "C17": ("partial: Coq theorem on field packing/unpacking under an abstract codec hypothesis; the weight is carried by a differential structural/behavioural comparison before vs after from_b64(to_b64(.))", "6 (C17)"),
 "C18": ("Coq theorems C18_add / C18_seq / C18_reject / C18_add_every / C18_seq_every / C18_seq_refused (add()'s own guard decides every chain) over the model of StingyConfigurator construction and add; correspondence on structure, default priorities and polyhedron; oracle vs direct construction", "6 (C18)"),
 "C19": ("Coq theorems on ineqs_satisfied / separable / ineq_separate_points for ndim 1, 2, 3 by list induction; correspondence + brute-force oracle on random matrices and point arrays", "6 (C19)"),
 "C20": ("Coq theorems on construct / from_list / to_list / variable index partitions / A,b split; correspondence + oracle on random variable lists, dictionaries, dtypes", "6 (C20)"),
}
def main():
    claimed = [l.strip() for l in open(os.path.join(HERE, "tools", "claimed.txt")) if l.strip() and not l.startswith("#")]
    commits = [l.split()[0] for l in open(os.path.join(HERE, "tools", "fix_commits.txt")) if l.strip() and not l.startswith("#")]
    checks = []
    for pid in claimed:
        text, ref = P[pid]
        checks.append({
            "property_id": pid,
            "quick_cmd": f"harness/run.py --property {pid} --tier quick",
            "thorough_cmd": f"harness/run.py --property {pid} --tier thorough",
            "evidence_file": f"evidence/{pid}.json",
            "replay_cmd_template": f"harness/run.py --property {pid} --replay {{path}}",
            "engine": "coq-model",
            "level_claimed": {"category": "proof", "text": text, "design_ref": ref},
            "level_note": NOTE + ("; C17: partial — pickle/gzip/base64 are runtime library behaviour the model cannot exhibit" if pid == "C17" else ""),
            "technique": TECH,
        })
    na = [{"property_id": pid, "reason": "check not built yet (work in progress; see DESIGN.md section 9)"} for pid in sorted(P) if pid not in claimed]
    m = {
        "version": 1,
        "setup_cmd": "./setup.sh",
        "hooks": {
            "guard": "PUAN_PYTHON_VERIF",
            "enable": "no hooks are needed: the checks observe through the public API and wrap AtLeast._id_generator from the harness process",
            "baseline_off_cmd": "cd /repo && /venv/bin/python -m pytest -ra -q -p no:cacheprovider --timeout=900 --continue-on-collection-errors",
            "source_commits": [],
            "add_only": True,
        },
        "engines": [{"name": "coq-model", "path": "coq/theories", "serves_properties": claimed,
                     "kind_free_text": "hand-written Gallina model + theorems (Coq 8.16.1), correspondence check by vm_compute on generated case files, direct oracles"}],
        "checks": checks,
        "notes": "See DESIGN.md (section 11 = as built). No hook commits exist in /repo (hooks.source_commits is empty). Genuine defects repaired by unguarded fix: commits in /repo: " + ", ".join(commits) + " — each recorded as 'fixed:' in known_findings.json; known findings (not repaired) are listed there too.",
        "not_applicable": na,
    }
    json.dump(m, open(os.path.join(HERE, "MANIFEST.json"), "w"), indent=1)
    print("claimed", claimed, "na", [x["property_id"] for x in na])
main()
