#!/bin/bash
# developer helper: run every claimed check of a tier (default quick), 4 at a time; prints one line per check
cd "$(dirname "$0")/.."
TIER=${1:-quick}
grep -v '^#' tools/claimed.txt | xargs -P 4 -I{} sh -c "harness/run.py --property {} --tier $TIER > work/{}.$TIER.log 2>&1; echo \"{} exit=\$? \$(grep -c VIOLATION work/{}.$TIER.log) \$(tail -1 work/{}.$TIER.log | cut -c1-200)\""
