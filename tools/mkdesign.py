#!/venv/bin/python
"""tools/mkdesign.py — regenerates section 11 of DESIGN.md from tools/design11.md and seeded/*/meta.json"""
import json, glob, os, re
root = os.path.dirname(os.path.dirname(os.path.abspath(__file__)))
rows = []
for mf in sorted(glob.glob(os.path.join(root, "seeded", "C*", "meta.json"))):
    m = json.load(open(mf))
    needs = m["needs_to_manifest"]
    extra = ""
    for sep in ("; missed at first", "; reported at first"):
        if sep in needs:
            needs, tail = needs.split(sep, 1)
            extra = " — " + sep[2:] + tail
            break
    cr = m["check_result"]
    concrete = cr["exit"] == "1" and cr["violation_lines"] and not cr["violation_lines"][0].rstrip().endswith("no-failing-input-found")
    verdict = "yes (oracle, concrete replay)" if concrete else ("yes (correspondence only, no-failing-input-found)" if cr["exit"] == "1" else "NO")
    rows.append(f"| {m['name']} | {m['property']} | {needs} | {verdict}{extra} |")
table = "| seeded change | property | what it needs to manifest | caught by the property's quick check |\n|---|---|---|---|\n" + "\n".join(rows)
body = open(os.path.join(root, "tools", "design11.md")).read().replace("SEEDED_TABLE", table)
d = open(os.path.join(root, "DESIGN.md")).read()
a = d.index("## 11. As built"); b = d.index("## Appendix A — feasibility prototype")
if not body.lstrip().startswith("## 11. As built"):
    body = "## 11. As built\n\n" + body
open(os.path.join(root, "DESIGN.md"), "w").write(d[:a] + body.rstrip("\n") + "\n\n" + "-" * 87 + "\n\n" + d[b:])
print(len(rows), "seeded changes;", sum("NO" == r.split("|")[4].strip()[:2] for r in rows), "not caught")
