#!/bin/bash
# developer helper: tools/try_seed.sh <prop id> <worktree with the change applied> [name]
# confirms the seeded change (demo fails with it / passes without, suite unchanged) and runs the check against it
P=$1; WT=$2; NAME=${3:-$P}
D=/verif/seeded/$NAME
mkdir -p $D
cp $WT/out/patch.diff $WT/out/demo.py $D/ 2>/dev/null; cp $WT/out/notes.md $D/notes.md 2>/dev/null
echo "== demo on changed tree"; (cd /tmp && PYTHONPATH=$WT PYTHONHASHSEED=0 timeout 600 /venv/bin/python -W ignore $D/demo.py > $D/demo_changed.out 2>&1; echo "exit=$?" | tee -a $D/demo_changed.out; tail -3 $D/demo_changed.out | cut -c1-300)
echo "== demo on unchanged tree"; (cd /tmp && PYTHONPATH=/repo PYTHONHASHSEED=0 timeout 600 /venv/bin/python -W ignore $D/demo.py > $D/demo_unchanged.out 2>&1; echo "exit=$?" | tee -a $D/demo_unchanged.out)
echo "== suite on changed tree"; /root/scratch/rt.sh $WT | tee $D/suite_changed.out
echo "== check (quick) against changed tree"; (cd /verif && mkdir -p /verif/work/seedrun/evidence && VERIF_WORK=/verif/work/seedrun VERIF_EVIDENCE=/verif/work/seedrun/evidence PUAN_REPO=$WT harness/run.py --property $P --tier quick > $D/check_quick.out 2>&1; echo "exit=$?" | tee -a $D/check_quick.out; grep -a "VIOLATION\|KNOWN\|^\[" $D/check_quick.out | cut -c1-400)
