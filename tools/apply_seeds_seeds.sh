#!/bin/bash
# developer helper: detection robustness — every seeded patch applied to /repo, quick check with VERIF_SEED=1 and 2
cd /verif
for d in seeded/*/; do
  n=$(basename $d); [ -f $d/meta.json ] || continue
  p=$(/venv/bin/python -c "import json;print(json.load(open('$d/meta.json')).get('property',''))"); [ -n "$p" ] || continue
  git -C /repo apply --check $PWD/$d/patch.diff 2>/dev/null || { echo "$n: does not apply"; continue; }
  git -C /repo apply $PWD/$d/patch.diff
  out=""
  for s in 1 2; do
    v=$(VERIF_SEED=$s harness/run.py --property $p --tier quick 2>&1 | grep -o "violations=[0-9]*" | tail -1)
    out="$out seed$s:$v"
  done
  git -C /repo checkout -- .
  echo "$n ($p):$out"
done
git -C /repo status --short | head -3
