"""Bridge layer (C20, C15): Python -> Coq term printers for ids / variables / dictionaries /
columns, structured generators, the recording solver, a brute-force exact solver and the
observation wrapper around integer_ndarray.ndint_compress.  Nothing here copies code from /repo."""
import random, itertools, math
import numpy as np
import puan, puan.ndarray as pnd
from common import q, z, b, lst, opt, pair

# ----------------------------------------------------------------------------- terms
def is_int_id(i):
    return isinstance(i, (int, np.integer)) and not isinstance(i, bool)

def vid(i, it=None):
    if isinstance(i, str):
        return f"(IdS {it.s(i) if it is not None else q(i)})"
    if is_int_id(i):
        return f"(IdZ {z(i)})"
    raise TypeError(f"unsupported id {i!r}")

def var_t(v, it=None):
    """puan.variable (or anything with id/bounds) -> Coq var"""
    return f"(mkVar {vid(v.id, it)} {z(v.bounds.lower)} {z(v.bounds.upper)})"

def vars_t(vs, it=None):
    return lst(var_t(v, it) for v in vs)

def dict_t(d, it=None):
    """dict (or list of pairs) -> Coq dict in items() order"""
    items = d.items() if isinstance(d, dict) else d
    return lst(f"({vid(k, it)}, {z(v)})" for k, v in items)

def zl(xs):
    return lst(z(x) for x in xs)

def zm(rows):
    return lst(zl(r) for r in rows)

def cell_t(x):
    if isinstance(x, (float, np.floating)):
        if math.isnan(x):
            return "None"
        if float(x) != int(x):
            raise ValueError(f"non-integral float cell {x!r}")
        return f"(Some {z(int(x))})"
    return f"(Some {z(int(x))})"

def idnum(i):
    return int(i) if is_int_id(i) else len(i.encode("utf-8"))

def vkey(v):
    """comparable description of a variable-like object"""
    return (type(v.id).__name__ if not is_int_id(v.id) else "int", v.id if isinstance(v.id, str) else int(v.id),
            int(v.bounds.lower), int(v.bounds.upper))

def vjson(v):
    return [v.id if isinstance(v.id, str) else int(v.id), int(v.bounds.lower), int(v.bounds.upper)]

def vars_from_json(l):
    return [puan.variable(i, (lo, hi)) for i, lo, hi in l]

# ----------------------------------------------------------------------------- generators (C20)
STR_IDS = ["a", "b", "c", "d", "e", "f", "x", "y", "ü", "变量", "x y", "", "0", "1", "7", "-1", "A", "aa", "é1", "a\"q", "Ω", "id_with_a_rather_long_name_0123456789"]
INT_IDS = [0, 1, 2, 3, 4, 5, 7, 10, -1, -7, 123456789, 2 ** 40]
BOUNDS = [(0, 1)] * 8 + [(1, 1), (0, 0), (-3, 5), (0, 2), (1, 2), (-1, 0), (-1, 1), (2, 2), (-32768, 32767), (0, 32767), (-5, -2), (3, 9),
          (-2, 3), (-3, 4)]      # the last two: lower + upper = 1 like a boolean's (variables hash by id + lower + upper and compare by id)

def gen_ids(rng, n, dup=0.0, p_int=0.3):
    """n ids (str and int mixed); duplicate-free unless dup>0"""
    out = []
    tries = 0
    while len(out) < n and tries < 200:
        tries += 1
        i = rng.choice(INT_IDS) if rng.random() < p_int else rng.choice(STR_IDS)
        if (i in [o for o in out if type(o) == type(i)]) and rng.random() >= dup:
            continue
        out.append(i)
    return out

def gen_vars(rng, nmin=0, nmax=7, dup=0.0, p_int=0.3):
    n = rng.randint(nmin, nmax)
    return [puan.variable(i, rng.choice(BOUNDS)) for i in gen_ids(rng, n, dup, p_int)]

def gen_value(rng, big=2 ** 40):
    r = rng.random()
    if r < 0.15:
        return 0
    if r < 0.6:
        return rng.randint(-9, 9)
    if r < 0.85:
        return rng.randint(-1000, 1000)
    return rng.randint(-big, big)

def gen_dict(rng, known_ids, big=2 ** 40, p_known=0.6, kmax=6):
    """dictionary over known ids and unknown ones (incl. str/int look-alikes of known ids)"""
    d = {}
    unknown = [i for i in STR_IDS + INT_IDS if not any(type(i) == type(k) and i == k for k in known_ids)]
    look = [str(k) if is_int_id(k) else (int(k) if k.lstrip("-").isdigit() else None) for k in known_ids]
    look = [k for k in look if k is not None and not any(type(k) == type(j) and k == j for j in known_ids)]
    for _ in range(rng.randint(0, kmax)):
        r = rng.random()
        if known_ids and r < p_known:
            k = rng.choice(known_ids)
        elif look and r < p_known + 0.1:
            k = rng.choice(look)
        elif unknown:
            k = rng.choice(unknown)
        else:
            continue
        d[k] = gen_value(rng, big)
    return d

def has_key(d, k):
    """Python dict membership restricted to same-typed keys (True/1 style coincidences never generated)"""
    return k in d

# default_value callables, as data (a, b, c, k): f(v) = a*lower + b*upper + c + k*idnum(v.id)
def dfun_callable(f):
    a, bb, c, k = f
    return lambda v: a * int(v.bounds.lower) + bb * int(v.bounds.upper) + c + k * idnum(v.id)

def gen_dfun(rng):
    r = rng.random()
    if r < 0.3:
        return (0, 0, rng.randint(-5, 5), 0)
    if r < 0.5:
        return (0, 1, 0, 0)
    return (rng.randint(-2, 2), rng.randint(-2, 2), rng.randint(-9, 9), rng.randint(-1, 2))

DTYPES = {"int64": np.int64, "int": int, "int32": np.int32, "int16": np.int16, "float": float, "float64": np.float64, "float32": np.float32}
INT_DTYPES = ("int64", "int", "int32", "int16")
def dtype_big(name):
    return {"int64": 2 ** 40, "int": 2 ** 40, "int32": 2 ** 30, "int16": 2 ** 14, "float": 2 ** 50, "float64": 2 ** 50, "float32": 2 ** 22}[name]

# ============================================================================= solver bridge (C15)
import puan.logic.plog as pg
import puan.modules.configurator as cc
import plogio

def columns_of(model, avars):
    """Column description handed to the Coq model: one entry per element of polyhedron.A.variables,
    taken from the proposition objects of the model itself (tree walk), not from the bridge code:
    (id, lower, upper, is_compound, generated_id, is_leaf_item)."""
    by_id = {}
    for x in plogio.all_nodes(model):
        by_id.setdefault(x.id, []).append(x)
    cols = []
    for v in avars:
        nodes = by_id.get(v.id)
        if not nodes:
            raise KeyError(f"column {v.id!r} is not a proposition of the model")
        kinds = {plogio.is_var(x) for x in nodes}
        if len(kinds) != 1:
            raise ValueError(f"id {v.id!r} names both a leaf and a compound")
        n = nodes[0]
        comp = not plogio.is_var(n)
        cols.append({"id": v.id, "lo": int(v.bounds.lower), "hi": int(v.bounds.upper), "compound": comp,
                     "gen": bool(getattr(n, "generated_id", False)) if comp else False, "leaf": type(n) == puan.variable})
    return cols

def col_t(c, it):
    return f"(mkCol {vid(c['id'], it)} {z(c['lo'])} {z(c['hi'])} {b(c['compound'])} {b(c['gen'])} {b(c['leaf'])})"

def cols_t(cols, it):
    return lst(col_t(c, it) for c in cols)

def answers_t(sim):
    """scripted solver behaviour -> Coq `outcome (list answer)`"""
    if sim == "raise":
        return "(Raised ExSolver)"
    return "(Ok " + lst(f"(mkAns {opt(s, zl)} {opt(ov, z)} {z(sc)})" for s, ov, sc in sim) + ")"

def results_t(res, it):
    """observed result of solve()/select(): ("ok", [(dict, ov, sc)...]) or ("raise", kind)"""
    if res[0] == "raise":
        return f"(Raised {res[1]})"
    return "(Ok " + lst(f"({dict_t(d, it)}, {opt(ov, z)}, {z(sc)})" for d, ov, sc in res[1]) + ")"

def dicts_t(res, it):
    if res[0] == "raise":
        return f"(Raised {res[1]})"
    return "(Ok " + lst(dict_t(d, it) for d in res[1]) + ")"

class RecordingSolver:
    """solver(polyhedron, objectives): records its arguments, then answers from a script:
    a list of (vector|None, objective value|None, status) or the string "raise"."""
    class Boom(RuntimeError):
        pass
    def __init__(self, script):
        self.script = script
        self.calls = []
    def __call__(self, polyhedron, objectives):
        self.calls.append((polyhedron, objectives))
        sc = self.script(polyhedron, objectives) if callable(self.script) else self.script
        self.last = sc
        if sc == "raise":
            raise RecordingSolver.Boom("scripted solver failure")
        return [(None if s is None else list(s), ov, st) for s, ov, st in sc]

def box_points(bounds, cap):
    """all integer points of a box as an (N, n) int64 array, or None when N > cap"""
    n = 1
    for lo, hi in bounds:
        n *= (hi - lo + 1)
        if n > cap:
            return None
    if not bounds:
        return np.zeros((1, 0), dtype=np.int64)
    grids = np.meshgrid(*[np.arange(lo, hi + 1, dtype=np.int64) for lo, hi in bounds], indexing="ij")
    return np.stack([g.reshape(-1) for g in grids], axis=1)

def feasible_points(M, bounds, cap=40000):
    """integer points x of the bounds box with A x >= b for the raw matrix M = [b | A]"""
    pts = box_points(bounds, cap)
    if pts is None:
        return None
    M = np.asarray(M, dtype=np.int64)
    if M.shape[0] == 0:
        return pts
    ok = (pts @ M[:, 1:].T >= M[:, 0]).all(axis=1)
    return pts[ok]

def brute_force_answers(M, bounds, objectives, cap=40000):
    """exact solver by enumeration: per objective (argmax vector, value, 6) or (None, None, 1) if infeasible"""
    F = feasible_points(M, bounds, cap)
    if F is None:
        return None
    out = []
    for o in objectives:
        if len(F) == 0:
            out.append((None, None, 1))
            continue
        vals = F @ np.asarray(o, dtype=np.int64)
        k = int(np.argmax(vals))
        out.append(([int(x) for x in F[k]], int(vals[k]), 6))
    return out

class CompressRecorder:
    """observes the outermost integer_ndarray.ndint_compress call (input array, kwargs, output)
    from outside, the way IdOracle observes _id_generator"""
    def __init__(self):
        self.calls = []
        self.depth = 0
    def __enter__(self):
        self._orig = pnd.integer_ndarray.__dict__["ndint_compress"]
        orig, me = self._orig, self
        def rec(arr, *a, **k):
            me.depth += 1
            try:
                r = orig(arr, *a, **k)
            finally:
                me.depth -= 1
            if me.depth == 0:
                me.calls.append((np.asarray(arr).tolist(), a, dict(k), np.asarray(r).tolist()))
            return r
        pnd.integer_ndarray.ndint_compress = rec
        return self
    def __exit__(self, *a):
        pnd.integer_ndarray.ndint_compress = self._orig

def gen_objective(rng, ids_cols, extra_ids, kmax=5, wide=False):
    """objective / priority dictionary over column ids (leaves and auxiliary ones) and unknown ids"""
    d = {}
    for _ in range(rng.randint(0, kmax)):
        r = rng.random()
        if ids_cols and r < 0.75:
            k = rng.choice(ids_cols)
        elif extra_ids:
            k = rng.choice(extra_ids)
        else:
            continue
        d[k] = rng.choice([0, 1, 1, -1, 2, 3, -2, 5, -7, 10]) if not wide else rng.randint(-50, 50)
    return d

def gen_config_ast(rng):
    """StingyConfigurator AST: cc.Xor / cc.Any rules (with and without defaults) and plain rules"""
    g = plogio.ModelGen(random.Random(rng.getrandbits(64)), nleaf=rng.randint(3, 6), int_leaves=0.25, big=0.0,
                        kinds=["All", "Any", "Imply", "AtLeast", "AtMost", "Xor", "Not"], share=0.1)
    names = list(g.leaves)
    rules = []
    for _ in range(rng.randint(1, 3)):
        r = rng.random()
        if r < 0.7:
            k = rng.randint(2, min(3, len(names)))
            picked = rng.sample(names, k)
            ch = [g.leaf(nm) for nm in picked]
            if r < 0.4 and rng.random() < 0.4:
                ch[rng.randrange(len(ch))] = g.prop(0)
            dflt = None
            if rng.random() < 0.65:
                dflt = [rng.choice(picked)]
            rules.append({"k": "CcXor" if r < 0.3 else "CcAny", "ch": ch, "default": dflt, "id": g.fresh()})
        else:
            rules.append(g.prop(rng.randint(0, 1)))
    if rng.random() < 0.3:
        # an item that is simply required: a bare atom as a direct child of the configurator (a base item), some of
        # them occurring nowhere else in the model
        used = {l["id"] for r_ in rules for l in _ast_leaves(r_)}
        nm = rng.choice([n for n in names if n not in used] or names + ["base"])
        rules.insert(rng.randrange(len(rules) + 1), {"k": "str", "id": nm} if rng.random() < 0.6 else {"k": "var", "id": nm, "b": [0, 1]})
    return {"k": "Stingy", "ch": rules, "id": "cfg" if rng.random() < 0.5 else None}

def _ast_leaves(a):
    if a["k"] in ("str", "var"):
        return [a]
    return [l for c in a.get("ch", []) for l in _ast_leaves(c)]
